(* Model of LevenbergMarquardt.step / GaussNewton.step (pypose/optim/optimizer.py) as a state
   machine over an abstract parameter space, and of the damping strategies
   (pypose/optim/strategy.py: Constant, Adaptive, TrustRegion).

   Abstracted (Section variables): the parameter space with its loss and retraction, the
   predicted-decrease functional  pred th0 d = -((J d)^T (2 R + J d))  evaluated with the J, R
   computed once at the start of the call, and the linear solver as an oracle indexed by the
   number of solver calls made so far in the run (None = the solver raises; [nsolve] counts attempts
   and is bookkeeping of the oracle, not state of the optimizer). *)
From Coq Require Import ZArith QArith List Bool Arith.
Import ListNotations.
From PV Require Import Base.Num.
Close Scope Q_scope.

Section LM.
Context {F : Type} {NF : Num F}.
Local Open Scope num_scope.
Variables Theta Delta : Type.
Variable loss : Theta -> F.
Variable retract : Theta -> Delta -> Theta.
Variable negd : Delta -> Delta.
Variable pred : Theta -> Delta -> F.
Variable solve : nat -> option Delta.

(* ---------------- strategies ---------------- *)
Inductive skind := SConstant | SAdaptive | STrust.
Record scfg := { kind : skind; high : F; low : F; up : F; down0 : F; factor : F; smin : F; smax : F }.
Record sstate := { damping : F; radius : F; down : F }.
(* python: max(lo, min(x, hi)) *)
Definition clampF (lo hi x : F) : F :=
  let m := if hi <? x then hi else x in if lo <? m then m else lo.
(* `quality > h` for quality = (last - loss)/pred with IEEE semantics when pred = 0 *)
Definition qual_gt (last lossv p h : F) : bool :=
  if p =? zero then zero <? (last - lossv) else h <? ((last - lossv) / p).
Definition supdate (c : scfg) (s : sstate) (last lossv p : F) : sstate :=
  match kind c with
  | SConstant => s
  | SAdaptive =>
      let d := if qual_gt last lossv p (high c) then damping s * down s
               else if qual_gt last lossv p (low c) then damping s
               else damping s * up c in
      {| damping := clampF (smin c) (smax c) d; radius := radius s; down := down s |}
  | STrust =>
      let r0 := one / damping s in
      let '(r, dn) := if qual_gt last lossv p (high c) then (up c * r0, down0 c)
                      else if qual_gt last lossv p (low c) then (r0, down0 c)
                      else (r0 * down s, down s * factor c) in
      let dn' := clampF (smin c) (smax c) dn in
      let r' := clampF (smin c) (smax c) r in
      {| damping := one / r'; radius := r'; down := dn' |}
  end.

(* ---------------- optimizer state ---------------- *)
Record ost := { th : Theta; cached : option F; last : F; rej : nat; ss : sstate; nsolve : nat }.
Definition cur_loss (s : ost) : F := match cached s with Some l => l | None => loss (th s) end.

(* one iteration of `while self.last <= self.loss:`; returns (state, continue?) *)
Definition lm_body (c : scfg) (reject : nat) (th0 : Theta) (s : ost) (lossv : F) : ost * F * bool :=
  match solve (nsolve s) with
  | None => ({| th := th s; cached := cached s; last := last s; rej := rej s; ss := ss s;
                nsolve := S (nsolve s) |}, lossv, false)              (* except ...: break *)
  | Some d =>
      let th1 := retract (th s) d in
      let l1 := loss th1 in
      let ss1 := supdate c (ss s) (last s) l1 (pred th0 d) in
      if (last s <? l1) && (rej s <? reject)%nat then
        ({| th := retract th1 (negd d); cached := cached s; last := last s; rej := S (rej s);
            ss := ss1; nsolve := S (nsolve s) |}, last s, true)
      else
        ({| th := th1; cached := cached s; last := last s; rej := rej s; ss := ss1;
            nsolve := S (nsolve s) |}, l1, false)
  end.
Fixpoint lm_loop (c : scfg) (reject : nat) (th0 : Theta) (fuel : nat) (s : ost) (lossv : F) : option (ost * F) :=
  match fuel with
  | O => None
  | S f => if last s <=? lossv
           then let '(s', l', cont) := lm_body c reject th0 s lossv in
                if cont then lm_loop c reject th0 f s' l' else Some (s', l')
           else Some (s, lossv)
  end.
(* LevenbergMarquardt.step: returns (new state, returned loss) *)
Definition lm_step (c : scfg) (reject : nat) (s : ost) : option (ost * F) :=
  let l0 := cur_loss s in
  let s0 := {| th := th s; cached := cached s; last := l0; rej := 0; ss := ss s; nsolve := nsolve s |} in
  match lm_loop c reject (th s) (S (S reject)) s0 l0 with
  | Some (s', l') => Some ({| th := th s'; cached := Some l'; last := last s'; rej := rej s'; ss := ss s'; nsolve := nsolve s' |}, l')
  | None => None
  end.
(* GaussNewton.step: a raising solver propagates (None) *)
Definition gn_step (s : ost) : option (ost * F) :=
  match solve (nsolve s) with
  | None => None
  | Some d =>
      let l0 := cur_loss s in
      let th1 := retract (th s) d in
      let l1 := loss th1 in
      Some ({| th := th1; cached := Some l1; last := l0; rej := rej s; ss := ss s; nsolve := S (nsolve s) |}, l1)
  end.
End LM.

Arguments damping {F}. Arguments radius {F}. Arguments down {F}.
Arguments th {F Theta}. Arguments cached {F Theta}. Arguments last {F Theta}. Arguments rej {F Theta}.
Arguments ss {F Theta}. Arguments nsolve {F Theta}.

(* ---------------- the scripted universe of the correspondence check (over Q) ----------------
   one scalar parameter th, residual r(th) = th, loss th^2, J = 1, R = th0:
   pred th0 d = -(d (2 th0 + d));  retraction = addition; the solver returns scripted steps *)
Definition sq_loss (t : Q) : Q := Qred (t * t).
Definition sq_pred (t0 d : Q) : Q := Qred (- (d * (2 * t0 + d))).
Definition script_solve (script : list (option Q)) (n : nat) : option Q := nth n script None.
Record lm_obs := { o_ret : Q; o_th : Q; o_last : Q; o_rej : nat; o_damp : Q; o_rad : Q; o_down : Q; o_nsolve : nat }.
Definition lm_run (c : scfg (F:=Q)) (reject : nat) (script : list (option Q)) (s0 : ost (F:=Q) Q) (calls : nat)
  : list (option lm_obs) :=
  let fix go (n : nat) (s : ost (F:=Q) Q) :=
    match n with
    | O => []
    | S m => match lm_step Q Q sq_loss (fun t d => Qred (t + d)) (fun d => Qred (- d)) sq_pred (script_solve script) c reject s with
             | Some (s', r) => Some {| o_ret := r; o_th := th s'; o_last := last s'; o_rej := rej s';
                                       o_damp := damping (ss s'); o_rad := radius (ss s'); o_down := down (ss s');
                                       o_nsolve := nsolve s' |} :: go m s'
             | None => [None]
             end
    end in go calls s0.
(* a second scripted universe with a NONLINEAR residual r(th) = th^2 - c  (loss r^2, J = 2 th0, R = th0^2 - c):
   pred c th0 d = -(J d)(2 R + J d).  Here the quality ratio takes every value, so all three branches of the
   Adaptive / TrustRegion updates are reached (in the linear universe above the quality is always 1 or 0/0). *)
Definition quad_loss (c t : Q) : Q := let r := (t * t - c)%Q in Qred (r * r)%Q.
Definition quad_pred (c t0 d : Q) : Q := let jd := (2 * t0 * d)%Q in Qred (- (jd * (2 * (t0 * t0 - c) + jd)))%Q.
Definition lm_run_quad (cc : Q) (c : scfg (F:=Q)) (reject : nat) (script : list (option Q)) (s0 : ost (F:=Q) Q) (calls : nat)
  : list (option lm_obs) :=
  let fix go (n : nat) (s : ost (F:=Q) Q) :=
    match n with
    | O => []
    | S m => match lm_step Q Q (quad_loss cc) (fun t d => Qred (t + d)) (fun d => Qred (- d)) (quad_pred cc) (script_solve script) c reject s with
             | Some (s', r) => Some {| o_ret := r; o_th := th s'; o_last := last s'; o_rej := rej s';
                                       o_damp := damping (ss s'); o_rad := radius (ss s'); o_down := down (ss s');
                                       o_nsolve := nsolve s' |} :: go m s'
             | None => [None]
             end
    end in go calls s0.
Definition obs_eqb (a b : option lm_obs) : bool :=
  match a, b with
  | Some x, Some y => Qeq_bool (o_ret x) (o_ret y) && Qeq_bool (o_th x) (o_th y) && Qeq_bool (o_last x) (o_last y)
      && Nat.eqb (o_rej x) (o_rej y) && Qeq_bool (o_damp x) (o_damp y) && Qeq_bool (o_rad x) (o_rad y)
      && Qeq_bool (o_down x) (o_down y) && Nat.eqb (o_nsolve x) (o_nsolve y)
  | None, None => true
  | _, _ => false
  end.
Definition obsl_eqb (a b : list (option lm_obs)) : bool :=
  Nat.eqb (length a) (length b) && forallb (fun p => obs_eqb (fst p) (snd p)) (combine a b).
Definition mk_obs (t : Q * Q * Q * nat * Q * Q * Q * nat) : option lm_obs :=
  let '(r, t, l, j, d, ra, dn, n) := t in
  Some {| o_ret := r; o_th := t; o_last := l; o_rej := j; o_damp := d; o_rad := ra; o_down := dn; o_nsolve := n |}.
(* case: (index, kind 0/1/2, (high, low, up, down0, factor, smin, smax), (damping0, radius0, down_init), reject, theta0, script, observed) *)
Definition lm_case := (nat * nat * (Q * Q * Q * Q * Q * Q * Q) * (Q * Q * Q) * nat * Q * list (option Q)
                        * list (Q * Q * Q * nat * Q * Q * Q * nat))%type.
Definition lm_bad (cs : list lm_case) : list nat :=
  map (fun c => match c with (i, _, _, _, _, _, _, _) => i end)
   (filter (fun c => match c with (_, k, (h, l, u, d0, f, mn, mx), (dm, ra, dn), rj, t0, script, obs) =>
      let cfg := {| kind := match k with 0 => SConstant | 1 => SAdaptive | _ => STrust end;
                    high := h; low := l; up := u; down0 := d0; factor := f; smin := mn; smax := mx |} in
      let s0 := {| th := t0; cached := None; last := 0%Q; rej := 0; ss := {| damping := dm; radius := ra; down := dn |}; nsolve := 0 |} in
      negb (obsl_eqb (lm_run cfg rj script s0 (length obs)) (map mk_obs obs)) end) cs).
Definition lm_bad_quad (cs : list (Q * lm_case)) : list nat :=
  map (fun c => match c with (_, (i, _, _, _, _, _, _, _)) => i end)
   (filter (fun c => match c with (cc, (_, k, (h, l, u, d0, f, mn, mx), (dm, ra, dn), rj, t0, script, obs)) =>
      let cfg := {| kind := match k with 0 => SConstant | 1 => SAdaptive | _ => STrust end;
                    high := h; low := l; up := u; down0 := d0; factor := f; smin := mn; smax := mx |} in
      let s0 := {| th := t0; cached := None; last := 0%Q; rej := 0; ss := {| damping := dm; radius := ra; down := dn |}; nsolve := 0 |} in
      negb (obsl_eqb (lm_run_quad cc cfg rj script s0 (length obs)) (map mk_obs obs)) end) cs).
(* GN in the same universe: observed (ret, th, last, nsolve) per call; None = raised *)
Definition gn_run (script : list (option Q)) (t0 : Q) (calls : nat) : list (option (Q * Q * Q * nat)) :=
  let fix go (n : nat) (s : ost (F:=Q) Q) :=
    match n with
    | O => []
    | S m => match gn_step Q Q sq_loss (fun t d => Qred (t + d)) (script_solve script) s with
             | Some (s', r) => Some (r, th s', last s', nsolve s') :: go m s'
             | None => [None]
             end
    end in go calls {| th := t0; cached := None; last := 0%Q; rej := 0; ss := {| damping := 0%Q; radius := 0%Q; down := 0%Q |}; nsolve := 0 |}.
Definition gn_obs_eqb (a b : option (Q * Q * Q * nat)) : bool :=
  match a, b with
  | Some (r, t, l, n), Some (r', t', l', n') => Qeq_bool r r' && Qeq_bool t t' && Qeq_bool l l' && Nat.eqb n n'
  | None, None => true | _, _ => false end.
Definition gn_bad (cs : list (nat * Q * list (option Q) * list (option (Q * Q * Q * nat)))) : list nat :=
  map (fun c => match c with (i, _, _, _) => i end)
   (filter (fun c => match c with (_, t0, script, obs) =>
      let r := gn_run script t0 (length obs) in
      negb (Nat.eqb (length r) (length obs) && forallb (fun p => gn_obs_eqb (fst p) (snd p)) (combine r obs)) end) cs).
