(* Model of the exponential maps of pypose/lietensor/operation.py:
   so3_Exp, se3_Exp, rxso3_Exp, sim3_Exp (forward) with so3_Jl and rxso3_Ws, exactly as coded:
   same branch structure (theta > eps, |sigma| > eps), same Taylor coefficients.
   [eps] is the machine epsilon of the dtype (a parameter: 2^-52 or 2^-23). *)
From Coq Require Import ZArith List Bool.
Import ListNotations.
From PV Require Import Base.Num Model.LieGroup.

Section LieExp.
Context {F : Type} {NF : Num F} {TF : Trans F}.
Local Open Scope num_scope.
Variable eps : F.

Definition vnorm (v : vec3) : F := tsqrt (vdot v v).

(* so3_Exp.forward: (imag_factor, real_factor) *)
Definition so3_exp_coef (theta : F) : F * F :=
  let theta2 := theta * theta in
  let theta4 := theta2 * theta2 in
  if eps <? theta
  then (tsin (half * theta) / theta, tcos (half * theta))
  else (half - frac 1 48 * theta2 + frac 1 3840 * theta4,
        one - frac 1 8 * theta2 + frac 1 384 * theta4).
Definition so3_exp (x : vec3) : quat :=
  let c := so3_exp_coef (vnorm x) in (vscale (fst c) x, snd c).

(* so3_Jl: I + coef1 K + coef2 K^2 *)
Definition so3_Jl_coef (theta : F) : F * F :=
  let theta2 := theta * theta in
  if eps <? theta
  then ((one - tcos theta) / theta2, (theta - tsin theta) / (theta * theta2))
  else (half - frac 1 24 * theta2, frac 1 6 - frac 1 120 * theta2).
Definition so3_Jl (x : vec3) : mat3 :=
  let c := so3_Jl_coef (vnorm x) in
  let K := skew x in
  madd3 (madd3 mid3 (mscale3 (fst c) K)) (mscale3 (snd c) (mmul3 K K)).

(* se3_Exp.forward: t = Jl(phi) tau, r = Exp(phi) *)
Definition se3_exp (x : vec3 * vec3) : se3elt :=
  (mvmul (so3_Jl (snd x)) (fst x), so3_exp (snd x)).

(* rxso3_Ws: A K + B K^2 + C I, coefficients in four regimes (C = expm1(sigma)/sigma in the code: the same real number) *)
Definition rxso3_Ws_coef (theta sigma : F) : F * F * F :=
  let sl := eps <? absF sigma in
  let tl := eps <? theta in
  let scale := texp sigma in
  let sigma2 := sigma * sigma in
  let theta2 := theta * theta in
  let theta2_inv := one / theta2 in
  let C := if sl then (scale - one) / sigma else one in
  if sl then
    if tl then
      let a := scale * tsin theta in
      let b := scale * tcos theta in
      let c := theta2 + sigma2 in
      ((a * sigma + (one - b) * theta) / (theta * c),
       (C - ((b - one) * sigma + a * theta) / c) * theta2_inv, C)
    else
      ((one + (sigma - one) * scale) / sigma2,
       (half * sigma2 * scale + scale - one - sigma * scale) / (sigma2 * sigma), C)
  else
    if tl then
      ((one - tcos theta) * theta2_inv, (theta - tsin theta) / (theta2 * theta), C)
    else (half, frac 1 6, C).
(* history: the K^2 coefficient of the branch theta <= eps < |sigma| as coded before the repair in /repo
   ("fix: rxso3_Ws B coefficient ..."): last term sigma^2 * scale instead of sigma * scale *)
Definition rxso3_Ws_B3_old (sigma : F) : F :=
  let scale := texp sigma in
  let sigma2 := sigma * sigma in
  (half * sigma2 * scale + scale - one - sigma2 * scale) / (sigma2 * sigma).
Definition rxso3_Ws (x : vec3 * F) : mat3 :=
  let '(A, B, C) := rxso3_Ws_coef (vnorm (fst x)) (snd x) in
  let K := skew (fst x) in
  madd3 (madd3 (mscale3 A K) (mscale3 B (mmul3 K K))) (mscale3 C mid3).

Definition rxso3_exp (x : vec3 * F) : rxso3elt := (so3_exp (fst x), texp (snd x)).
(* sim3_Exp.forward: t = Ws(phi, sigma) tau *)
Definition sim3_exp (x : vec3 * (vec3 * F)) : sim3elt :=
  (mvmul (rxso3_Ws (snd x)) (fst x), rxso3_exp (snd x)).

(* list interface: algebra ids 0 so3, 1 se3, 2 rxso3, 3 sim3; output = raw group tensor *)
Definition exp_l (g : nat) (x : list F) : list F :=
  match g with
  | 0 => q_l (so3_exp (l_v3 x))
  | 1 => SE3_l (se3_exp (l_v3 x, l_v3 (skipn 3 x)))
  | 2 => RxSO3_l (rxso3_exp (l_v3 x, nth 3 x zero))
  | _ => Sim3_l (sim3_exp (l_v3 x, (l_v3 (skipn 3 x), nth 6 x zero)))
  end.
(* matrix of Exp(x) as the library builds it (Act on the basis, transposed) *)
Definition exp_matrix_l (g : nat) (x : list F) : list F := g_matrix g (exp_l g x).
End LieExp.
