(* Model of pypose/sparse/ops.py: bsr_bsc_matmul (block CSR x block CSC product by a two-pointer
   merge) and the layout dispatch of _sparse_csr_mm.  Indices are nat (they are small: positions in
   index arrays), values are in any Num F (the correspondence runs over Z).

   A block-compressed matrix (either orientation) is
     rows, cols        : the dense shape
     bh, bw            : the block shape (values.shape[-2:], present even when there is no block)
     ptr               : crow_indices (BSR) / ccol_indices (BSC)
     idx               : col_indices (BSR)  / row_indices (BSC)
     vals              : one bh x bw block (list of rows) per stored position                    *)
From Coq Require Import ZArith QArith List Bool Arith.
Import ListNotations.
From PV Require Import Base.Num Model.Solver.
Close Scope Q_scope.

Section BSR.
Context {F : Type} {NF : Num F}.
Local Open Scope num_scope.

Definition block := list (list F).
Record bs := mkbs { s_rows : nat; s_cols : nat; s_bh : nat; s_bw : nat;
                    s_ptr : list nat; s_idx : list nat; s_vals : list block }.

(* ---------------- the merge ----------------
   k2 = ccol[j]
   for k1 in range(crow[i], crow[i+1]):
       if k2 == ccol[j+1]: break
       while row[k2] < col[k1] and k2 < ccol[j+1] - 1: k2 += 1
       if row[k2] == col[k1]: index.append(result_step); source.append(k1); source.append(k2); nz = True *)
Fixpoint advance (fuel : nat) (row : list nat) (c k2 hi : nat) : nat :=
  match fuel with
  | O => k2
  | S f => if (nth k2 row O <? c)%nat && (k2 <? hi - 1)%nat then advance f row c (S k2) hi else k2
  end.
Fixpoint merge_k1 (k1s : list nat) (col row : list nat) (k2 hi : nat) : list (nat * nat) :=
  match k1s with
  | [] => []
  | k1 :: rest =>
      if (k2 =? hi)%nat then []                               (* break *)
      else
        let c := nth k1 col O in
        let k2' := advance (hi - k2) row c k2 hi in
        if (nth k2' row O =? c)%nat then (k1, k2') :: merge_k1 rest col row k2' hi
        else merge_k1 rest col row k2' hi
  end.
(* the matches of block row i of the BSR operand with block column j of the BSC operand *)
Definition cell_matches (crow col ccol row : list nat) (i j : nat) : list (nat * nat) :=
  merge_k1 (seq (nth i crow O) (nth (S i) crow O - nth i crow O)) col row (nth j ccol O) (nth (S j) ccol O).

(* loop state: result_step, coo_indices (pairs), index, source (pairs) *)
Definition loop_state := (nat * list (nat * nat) * list nat * list (nat * nat))%type.
Definition cell_step (crow col ccol row : list nat) (st : loop_state) (i j : nat) : loop_state :=
  let '(step, coo, index, source) := st in
  let ms := cell_matches crow col ccol row i j in
  let index' := index ++ map (fun _ => step) ms in
  let source' := source ++ ms in
  match ms with
  | [] => (step, coo, index', source')                      (* nz stays False *)
  | _ :: _ => (S step, coo ++ [(i, j)], index', source')
  end.
Definition loops (crow col ccol row : list nat) (sm sp : nat) : loop_state :=
  fold_left (fun st i => fold_left (fun st j => cell_step crow col ccol row st i j) (seq 0 sp) st)
            (seq 0 sm) (O, [], [], []).

(* ---------------- block arithmetic ---------------- *)
(* one item of torch.bmm: (dm x dn) @ (dn x dp) *)
Definition bmul (dp : nat) (X Y : block) : block :=
  map (fun xr => map (fun j => dot xr (col j Y)) (seq 0 dp)) X.
Definition badd (X Y : block) : block := Solver.map2 (vmap2 add) X Y.
Definition bzero (h w : nat) : block := repeat (repeat zero w) h.
Fixpoint upd {X} (l : list X) (k : nat) (v : X) : list X :=
  match l, k with
  | [], _ => []
  | _ :: t, O => v :: t
  | a :: t, S k' => a :: upd t k' v
  end.
(* reduced = zeros(steps, dm, dp); reduced.scatter_add_(0, index expanded, prod) *)
Definition scatter_add (steps dm dp : nat) (index : list nat) (prod : list block) : list block :=
  fold_left (fun red ip => upd red (fst ip) (badd (nth (fst ip) red (bzero dm dp)) (snd ip)))
            (combine index prod) (repeat (bzero dm dp) steps).

(* ---------------- COO -> CSR: sparse_coo_tensor(...).coalesce().to_sparse_csr() ---------------- *)
Definition pair_lt (a b : nat * nat) : bool :=
  (fst a <? fst b)%nat || ((fst a =? fst b)%nat && (snd a <? snd b)%nat).
Definition pair_eq (a b : nat * nat) : bool := (fst a =? fst b)%nat && (snd a =? snd b)%nat.
Fixpoint insert_pair (a : nat * nat) (l : list (nat * nat)) : list (nat * nat) :=
  match l with
  | [] => [a]
  | b :: t => if pair_lt a b then a :: l else if pair_eq a b then l else b :: insert_pair a t
  end.
(* sorted, duplicates merged (the values are all zero: only the pattern matters) *)
Definition coalesce (coo : list (nat * nat)) : list (nat * nat) := fold_right insert_pair [] coo.
Definition csr_of_coo (sm : nat) (coo : list (nat * nat)) : list nat * list nat :=
  let c := coalesce coo in
  (map (fun i => length (filter (fun rc => (fst rc <? i)%nat) c)) (seq 0 (S sm)), map snd c).

(* ---------------- bsr_bsc_matmul ---------------- *)
Definition bsr_bsc_matmul (A B : bs) : option bs :=
  let m := s_rows A in let n := s_cols A in let p := s_cols B in
  let dm := s_bh A in let dn := s_bw A in let dp := s_bw B in
  if negb (n =? s_rows B)%nat then None                                   (* assert shape[-1] == shape[-2] *)
  else if (dm =? 0)%nat || (dn =? 0)%nat || (dp =? 0)%nat then None       (* m // dm: ZeroDivisionError *)
  else
    let sm := (m / dm)%nat in let sn := (n / dn)%nat in let sp := (p / dp)%nat in
    if negb ((dm * sm =? m)%nat && (dn * sn =? n)%nat && (dp * sp =? p)%nat) then None
    else
      let '(steps, coo, index, source) := loops (s_ptr A) (s_idx A) (s_ptr B) (s_idx B) sm sp in
      if negb (dn =? s_bh B)%nat then None                                (* torch.bmm: inner sizes differ *)
      else
        let prod := map (fun s => bmul dp (nth (fst s) (s_vals A) []) (nth (snd s) (s_vals B) [])) source in
        let reduced := scatter_add steps dm dp index prod in
        let '(crow, ccol) := csr_of_coo sm coo in
        Some (mkbs m p dm dp crow ccol reduced).

(* ---------------- what a block-compressed tensor denotes ---------------- *)
Definition seg_find (idx : list nat) (lo hi t : nat) : option nat :=
  find (fun k => (nth k idx O =? t)%nat) (seq lo (hi - lo)).
(* the stored position of block (i, t): i indexes ptr *)
Definition blk_pos (X : bs) (i t : nat) : option nat :=
  seg_find (s_idx X) (nth i (s_ptr X) O) (nth (S i) (s_ptr X) O) t.
Definition bentry (B : block) (u v : nat) : F := nth v (nth u B []) zero.
Definition bsr_entry (X : bs) (r c : nat) : F :=
  match blk_pos X (r / s_bh X) (c / s_bw X) with
  | Some k => bentry (nth k (s_vals X) []) (r mod s_bh X) (c mod s_bw X)
  | None => zero
  end.
Definition bsc_entry (X : bs) (r c : nat) : F :=
  match blk_pos X (c / s_bw X) (r / s_bh X) with
  | Some k => bentry (nth k (s_vals X) []) (r mod s_bh X) (c mod s_bw X)
  | None => zero
  end.
Definition tabulate (m n : nat) (f : nat -> nat -> F) : list (list F) :=
  map (fun r => map (fun c => f r c) (seq 0 n)) (seq 0 m).
Definition bsr_to_dense (X : bs) := tabulate (s_rows X) (s_cols X) (bsr_entry X).
Definition bsc_to_dense (X : bs) := tabulate (s_rows X) (s_cols X) (bsc_entry X).
End BSR.

(* ---------------- layout dispatch of _sparse_csr_mm (decision table) ---------------- *)
Inductive layout := Strided | Csr | Csc | Bsr | Bsc | Coo.
Inductive terminal :=
| TBsrBsc                 (* return bsr_bsc_matmul(mat1, mat2) *)
| TNotImpl                (* raise NotImplemented  (itself a TypeError) *)
| TAddmm (z : layout)     (* return torch.addmm(zeros(layout = z), mat1, mat2, beta=0, alpha=1) *)
| TTuple (z : layout).    (* zero = torch.zeros(..., layout = z),   <- a tuple: zeros or addmm raises *)
Definition lay_eqb (a b : layout) : bool :=
  match a, b with
  | Strided, Strided | Csr, Csr | Csc, Csc | Bsr, Bsr | Bsc, Bsc | Coo, Coo => true
  | _, _ => false
  end.
Definition is_cs (l : layout) : bool := lay_eqb l Csc || lay_eqb l Csr.
(* the calls made (layouts of mat1, mat2 at every entry of _sparse_csr_mm) and how it ends *)
Fixpoint dispatch (fuel : nat) (l1 l2 : layout) : list (layout * layout) * option terminal :=
  match fuel with
  | O => ([], None)
  | S f =>
      let here := (l1, l2) in
      let rec a b := let '(tr, t) := dispatch f a b in (here :: tr, t) in
      if lay_eqb l1 Bsr && lay_eqb l2 Bsc then ([here], Some TBsrBsc)
      else if lay_eqb l1 Bsc && lay_eqb l2 Bsr then ([here], Some TNotImpl)
      else if lay_eqb l1 Csr && lay_eqb l2 Csr then ([here], Some (TAddmm Csr))
      else if is_cs l1 && is_cs l2 then rec Csr Csr                  (* both .to_sparse_csr() *)
      else if lay_eqb l1 Csc && lay_eqb l2 Strided then rec Csr Strided
      else if lay_eqb l2 Strided then ([here], Some (TAddmm Strided))
      else ([here], Some (TTuple l1))
  end.
(* does the call return a tensor (under "addmm and bsr_bsc_matmul return when torch supports the
   layouts") or raise for sure *)
Definition may_return (t : option terminal) : bool :=
  match t with Some TBsrBsc | Some (TAddmm _) => true | _ => false end.

(* ---------------- evaluators for the correspondence (Z) ---------------- *)
Definition zblock := list (list Z).
Definition zbs := (nat * nat * nat * nat * list nat * list nat * list zblock)%type.
Definition to_bs (x : zbs) : bs (F:=Z) :=
  let '(r, c, bh, bw, ptr, idx, vals) := x in mkbs r c bh bw ptr idx vals.
Definition of_bs (x : bs (F:=Z)) : zbs :=
  (s_rows x, s_cols x, s_bh x, s_bw x, s_ptr x, s_idx x, s_vals x).
Definition list_eqb {X} (e : X -> X -> bool) (a b : list X) : bool :=
  Nat.eqb (length a) (length b) && forallb (fun p => e (fst p) (snd p)) (combine a b).
Definition zmat_eqb := list_eqb (list_eqb Z.eqb).
Definition zbs_eqb (a b : zbs) : bool :=
  let '(r, c, bh, bw, ptr, idx, vals) := a in
  let '(r', c', bh', bw', ptr', idx', vals') := b in
  Nat.eqb r r' && Nat.eqb c c' && Nat.eqb bh bh' && Nat.eqb bw bw' && list_eqb Nat.eqb ptr ptr'
  && list_eqb Nat.eqb idx idx' && list_eqb zmat_eqb vals vals'.
(* case: index, BSR operand, BSC operand, their to_dense() from torch, and the implementation's
   result (None = raised) with its to_dense().  Checked:
     - the model's reading of the two formats equals torch's to_dense();
     - the model's result is the implementation's result, field by field (crow, col, values);
     - the model's result, densified, equals the dense product (computed here) and torch's dense. *)
Definition bsr_case := (nat * zbs * zbs * list (list Z) * list (list Z) * option (zbs * list (list Z)))%type.
Definition bsr_case_ok (c : bsr_case) : bool :=
  let '(_, a, b, da, db, impl) := c in
  let A := to_bs a in let B := to_bs b in
  zmat_eqb (bsr_to_dense A) da && zmat_eqb (bsc_to_dense B) db &&
  match bsr_bsc_matmul A B, impl with
  | None, None => true
  | Some C, Some (ci, dci) =>
      zbs_eqb (of_bs C) ci && zmat_eqb (bsr_to_dense C) dci
      && zmat_eqb (bsr_to_dense C) (mm da db)
  | _, _ => false
  end.
Definition bsr_bad (cs : list bsr_case) : list nat :=
  map (fun c => let '(i, _, _, _, _, _) := c in i) (filter (fun c => negb (bsr_case_ok c)) cs).

Definition lay_of (k : nat) : layout :=
  match k with 0 => Strided | 1 => Csr | 2 => Csc | 3 => Bsr | 4 => Bsc | _ => Coo end%nat.
Definition lay_code (l : layout) : nat :=
  match l with Strided => 0 | Csr => 1 | Csc => 2 | Bsr => 3 | Bsc => 4 | Coo => 5 end%nat.
(* terminal codes: 0 bsr_bsc_matmul, 1 raise NotImplemented, 10+z addmm with zeros of layout z,
   20+z the tuple branch *)
Definition term_code (t : option terminal) : nat :=
  match t with
  | Some TBsrBsc => 0 | Some TNotImpl => 1 | Some (TAddmm z) => 10 + lay_code z
  | Some (TTuple z) => 20 + lay_code z | None => 99 end%nat.
(* case: index, layouts of mat1 / mat2, the observed list of (layout, layout) at every entry of
   _sparse_csr_mm, the observed terminal code, whether the call returned *)
Definition disp_bad (cs : list (nat * nat * nat * list (nat * nat) * nat * bool)) : list nat :=
  map (fun c => let '(i, _, _, _, _, _) := c in i)
      (filter (fun c => let '(_, a, b, tr, tc, returned) := c in
                 let '(mtr, mt) := dispatch 3 (lay_of a) (lay_of b) in
                 negb (list_eqb (fun x y => Nat.eqb (fst x) (fst y) && Nat.eqb (snd x) (snd y))
                                (map (fun p => (lay_code (fst p), lay_code (snd p))) mtr) tr
                       && Nat.eqb (term_code mt) tc
                       && (implb returned (may_return mt)))) cs).
