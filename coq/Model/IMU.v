(* Model of pypose/module/imu_preintegrator.py (IMUPreintegrator): __init__, _check, forward,
   integrate, predict, propagate_cov, and the buffers carried between calls when reset=False.
   Written once over a [Num]: reasoned about over R (Proofs/IMU.v), executed over Q (exact route)
   and over a 256-bit fixed-point type (tolerance route) by the correspondence check.

   External routines (not modelled, values supplied per frame):
     Exp : vec3 -> quat      so3(gyro*dt).Exp()  -- the rotation increment of a frame (C01)
     Jr  : quat -> mat3      SO3.Jr() = Log().Jr() -- right Jacobian of the increment
   The core works on frames that already carry the increment and its Jacobian ([iframe]);
   [forward_gyro] is the code's entry point with [Exp]/[Jr] as parameters.

   Everything is per batch item; the batch axis is a [map] (all tensor operations of the source
   are element-wise along B).  Code transcribed as it is: which prefix-rotation index each frame
   uses, the order of the reversed cumulative matrix product ([code_left]), the 1/dt factor, the (-M) @ Ha and
   (-0.5 * M) @ Ha groupings, the state written back when reset=False.

   Outside the model (returns None): F = 0 frames; size-1 broadcasting between dt/gyro/acc/rot
   (they must have the same B and F); per-call gyro_cov/acc_cov/init_state arguments. *)
From Coq Require Import ZArith QArith Qabs List Bool Uint63.
From Bignums Require Import BigZ.
Import ListNotations.
From PV Require Import Base.Num Base.Mat Model.Cumops Model.LieGroup.
Close Scope Q_scope.

(* ---- rank-tagged inputs and IMUPreintegrator._check ------------------------------------------
   (H) -> T1, (F,H) -> T2, (B,F,H) -> T3; the item type A stands for the last axis. *)
Inductive tens (A : Type) : Type :=
| T1 (x : A) | T2 (l : list A) | T3 (b : list (list A)).
Arguments T1 {A}. Arguments T2 {A}. Arguments T3 {A}.
Definition trank {A} (t : tens A) : nat := match t with T1 _ => 1 | T2 _ => 2 | T3 _ => 3 end.
(* len(shape)==1 -> obj[None,None,...];  ==2 -> obj[None,...];  else unchanged *)
Definition check {A} (t : tens A) : list (list A) :=
  match t with T1 x => [[x]] | T2 l => [l] | T3 b => b end.

Fixpoint zip_with {A B C} (f : A -> B -> C) (a : list A) (b : list B) : list C :=
  match a, b with
  | x :: a', y :: b' => f x y :: zip_with f a' b'
  | _, _ => []
  end.
Fixpoint opt_all {A} (l : list (option A)) : option (list A) :=
  match l with
  | [] => Some []
  | None :: _ => None
  | Some x :: r => match opt_all r with Some r' => Some (x :: r') | None => None end
  end.

Section IMU.
Context {F : Type} {NF : Num F}.
Local Open Scope num_scope.

(* torch.cumsum along the frame axis: running sum from the left *)
Section Cumsum.
Context {A : Type} (plus : A -> A -> A).
Fixpoint cumsum_from (s : A) (l : list A) : list A :=
  match l with [] => [] | x :: r => let s' := plus s x in s' :: cumsum_from s' r end.
Definition cumsum (l : list A) : list A :=
  match l with [] => [] | x :: r => x :: cumsum_from x r end.
End Cumsum.

(* a frame of one IMU: dt, increment Exp(gyro*dt), raw acceleration, supplied rotation (if the
   call has rot=...), right Jacobian of the increment *)
Record iframe := { i_dt : F; i_inc : @quat F; i_acc : @vec3 F; i_grot : option (@quat F); i_jr : @mat3 F }.

Record integ := { g_a : list (@vec3 F); g_Dp : list (@vec3 F); g_Dv : list (@vec3 F);
                  g_Dr : list (@quat F); g_Dt : list F; g_w : list (@quat F) }.

(* rotation used to take gravity out of frame k: rot[k] if supplied, else inte_rot[k+1] *)
Definition grav_rot (f : iframe) (R : @quat F) : @quat F :=
  match i_grot f with Some r => r | None => R end.

(* IMUPreintegrator.integrate (one batch item) *)
Definition integrate (g : @vec3 F) (init_rot : option (@quat F)) (fs : list iframe) : option integ :=
  let n := length fs in
  let dr := map i_inc fs in                                   (* dr = so3(gyro*dt).Exp() *)
  let w := SO3_id :: dr in                                    (* cat([identity, dr]) *)
  match cumprod_model SO3_mul false w with                    (* cumprod(w, dim=1, left=False) *)
  | None => None
  | Some incre_r =>
    let ir := match init_rot with Some r => r | None => SO3_id end in
    let inte_rot := map (SO3_mul ir) incre_r in               (* init_rot * incre_r *)
    (* a = acc - R.Inv() @ gravity,  R = rot  or  inte_rot[:,1:,:] *)
    let a := zip_with (fun f R => vsub (i_acc f) (SO3_act (SO3_inv (grav_rot f R)) g)) fs (tl inte_rot) in
    let Ra := zip_with SO3_act (firstn n incre_r) a in        (* incre_r[:,:F,:] @ a *)
    let dv := vzero :: zip_with (fun x f => vscale (i_dt f) x) Ra fs in
    let incre_v := cumsum vadd dv in
    let dp := vzero :: zip_with (fun vr f => vadd (vscale (i_dt f) (fst vr))
                                                (vscale (i_dt f * i_dt f) (vscale half (snd vr))))
                                (combine (firstn n incre_v) Ra) fs in
    let incre_p := cumsum vadd dp in
    let incre_t := zero :: cumsum add (map i_dt fs) in
    Some {| g_a := a; g_Dp := tl incre_p; g_Dv := tl incre_v; g_Dr := tl incre_r;
            g_Dt := tl incre_t; g_w := dr |}
  end.

(* IMUPreintegrator.predict *)
Definition predict (p0 : @vec3 F) (r0 : @quat F) (v0 : @vec3 F) (G : integ)
  : list (@quat F) * list (@vec3 F) * list (@vec3 F) :=
  (map (SO3_mul r0) (g_Dr G),
   map (fun dv => vadd v0 (SO3_act r0 dv)) (g_Dv G),
   zip_with (fun dp t => vadd (vadd p0 (SO3_act r0 dp)) (vscale t v0)) (g_Dp G) (g_Dt G)).

(* ---- covariance: 9x9 matrices as Base/Mat.v lists, assembled from 3x3 blocks ---- *)
Definition m3rows (m : @mat3 F) : @mat F :=
  [[vx (mr0 m); vy (mr0 m); vz (mr0 m)]; [vx (mr1 m); vy (mr1 m); vz (mr1 m)]; [vx (mr2 m); vy (mr2 m); vz (mr2 m)]].
Definition hcat (A B : @mat F) : @mat F := zip_with (@app F) A B.
Definition blockrow (a b c : @mat3 F) : @mat F := hcat (hcat (m3rows a) (m3rows b)) (m3rows c).
Definition blk9 (b00 b01 b02 b10 b11 b12 b20 b21 b22 : @mat3 F) : @mat F :=
  blockrow b00 b01 b02 ++ blockrow b10 b11 b12 ++ blockrow b20 b21 b22.
Definition vstack3 (a b c : @mat3 F) : @mat F := m3rows a ++ m3rows b ++ m3rows c.
Definition diag3 (v : @vec3 F) : @mat F := [[vx v; zero; zero]; [zero; vy v; zero]; [zero; zero; vz v]].
Definition mneg3 (m : @mat3 F) : @mat3 F := (vneg (mr0 m), vneg (mr1 m), vneg (mr2 m)).

(* per-frame input of propagate_cov: Rij[k], Rk[k], a[k], Jr(Rk[k]), dt[k] *)
Definition cframe := (@quat F * @quat F * @vec3 F * @mat3 F * F)%type.
Definition cov_A (c : cframe) : @mat F :=
  let '(Rij, Rk, a, _, dt) := c in
  let M := SO3_matrix Rij in
  let Ha := skew a in
  blk9 (mtrans (SO3_matrix Rk)) mzero3 mzero3
       (mscale3 dt (mmul3 (mneg3 M) Ha)) mid3 mzero3
       (mscale3 (dt * dt) (mmul3 (mscale3 (- half) M) Ha)) (mscale3 dt mid3) mid3.
Definition cov_Bg (c : cframe) : @mat F :=
  let '(_, _, _, jr, dt) := c in vstack3 (mscale3 dt jr) mzero3 mzero3.
Definition cov_Ba (c : cframe) : @mat F :=
  let '(Rij, _, _, _, dt) := c in
  let M := SO3_matrix Rij in
  vstack3 mzero3 (mscale3 dt M) (mscale3 half (mscale3 (dt * dt) M)).
(* (Bg Cg Bg^T + Ba Ca Ba^T) * (1/dt) *)
Definition cov_Q (cg ca : @vec3 F) (c : cframe) : @mat F :=
  let '(_, _, _, _, dt) := c in
  let Bg := cov_Bg c in let Ba := cov_Ba c in
  mscale (one / dt) (madd (mmul (mmul Bg (diag3 cg)) (mtr Bg)) (mmul (mmul Ba (diag3 ca)) (mtr Ba))).
Definition msum (l : list (@mat F)) : @mat F :=
  match l with [] => mzero 9 9 | x :: r => fold_left madd r x end.
Definition congr (M P : @mat F) : @mat F := mmul (mmul M P) (mtr M).

(* IMUPreintegrator.propagate_cov; [left] is the flag handed to cumprod (the source uses the
   default left=True) *)
Definition propagate_cov_gen (left : bool) (cs : list cframe) (init_cov : @mat F) (cg ca : @vec3 F) : option (@mat F) :=
  let As := map cov_A cs ++ [mid 9] in                       (* A = eye(9).repeat([B, F+1, 1, 1]) *)
  let Bs := init_cov :: map (cov_Q cg ca) cs in              (* cat([init_cov, B_cov]) *)
  match cumprod_model mmul left (rev As) with                (* cumprod(A.flip([1]), dim=1) *)
  | None => None
  | Some c => let Alc := rev c in                            (* .flip([1]) *)
              Some (msum (zip_with congr Alc Bs))            (* sum(A_left_cum @ B_cov @ A_right_cum) *)
  end.
(* the flag the source hands to cumprod in propagate_cov: `cumprod(A.flip([1]), dim=1, left=False)` since /repo
   commit 608b3d9; before it the default left=True was used ([propagate_cov_old], kept for the history theorem) *)
Definition code_left : bool := false.
Definition propagate_cov := propagate_cov_gen code_left.
Definition propagate_cov_old := propagate_cov_gen true.

(* ---- module state and forward (one batch item) ---- *)
Record istate := { s_pos : @vec3 F; s_rot : @quat F; s_vel : @vec3 F; s_cov : @mat F; s_rij : option (@quat F) }.
Record cfg := { c_g : @vec3 F; c_cg : @vec3 F; c_ca : @vec3 F; c_prop : bool; c_reset : bool }.
Record out1 := { o_rot : list (@quat F); o_vel : list (@vec3 F); o_pos : list (@vec3 F); o_cov : option (@mat F) }.

Definition cframes (Rij : list (@quat F)) (G : integ) (fs : list iframe) : list cframe :=
  zip_with (fun (p : @quat F * @quat F * @vec3 F) f => (p, i_jr f, i_dt f))
           (combine (combine Rij (g_w G)) (g_a G)) fs.

Definition forward1_gen (left : bool) (c : cfg) (st : istate) (fs : list iframe) : option (out1 * istate) :=
  match fs with
  | [] => None
  | _ :: _ =>
    match integrate (c_g c) (Some (s_rot st)) fs with
    | None => None
    | Some G =>
      let '(rots, vels, poss) := predict (s_pos st) (s_rot st) (s_vel st) G in
      let Rij := match s_rij st with Some r => map (SO3_mul r) (g_Dr G) | None => g_Dr G end in
      let cov := if c_prop c
                 then match propagate_cov_gen left (cframes Rij G fs) (s_cov st) (c_cg c) (c_ca c) with
                      | Some C => Some (Some C) | None => None end
                 else Some None in
      match cov with
      | None => None
      | Some covo =>
        let st' := if c_reset c then st
                   else {| s_pos := List.last poss (s_pos st); s_rot := List.last rots (s_rot st);
                           s_vel := List.last vels (s_vel st);
                           s_cov := match covo with Some C => C | None => s_cov st end;
                           s_rij := Some (List.last Rij SO3_id) |} in
        Some ({| o_rot := rots; o_vel := vels; o_pos := poss; o_cov := covo |}, st')
      end
    end
  end.
Definition forward1 := forward1_gen code_left.
Definition forward1_old := forward1_gen true.

(* ---- constructor ---- *)
Definition mk_cfg (g : F) (gyro_cov acc_cov : @vec3 F) (prop_cov reset : bool) : option cfg :=
  if negb reset && negb prop_cov then None     (* RuntimeError: cannot be False simultaneously *)
  else Some {| c_g := (zero, zero, g); c_cg := gyro_cov; c_ca := acc_cov; c_prop := prop_cov; c_reset := reset |}.
Definition init_istate (pos : @vec3 F) (rot : @quat F) (vel : @vec3 F) : istate :=
  {| s_pos := pos; s_rot := rot; s_vel := vel; s_cov := mzero 9 9; s_rij := None |}.

(* ---- forward on rank-tagged inputs (the batch axis) ----
   [inc]/[jr] stand for gyro (same rank): per-frame Exp(gyro*dt) and its right Jacobian. *)
Definition frames_of (dt : list F) (inc : list (@quat F)) (jr : list (@mat3 F)) (acc : list (@vec3 F))
                     (rot : option (list (@quat F))) : option (list iframe) :=
  let n := length dt in
  if negb (Nat.eqb (length inc) n && Nat.eqb (length jr) n && Nat.eqb (length acc) n) then None
  else match rot with
       | None => Some (zip_with (fun (p : F * @quat F * @mat3 F) a =>
                         let '(d, q, j) := p in {| i_dt := d; i_inc := q; i_acc := a; i_grot := None; i_jr := j |})
                         (combine (combine dt inc) jr) acc)
       | Some rs => if negb (Nat.eqb (length rs) n) then None
                    else Some (zip_with (fun (p : F * @quat F * @mat3 F * @vec3 F) r =>
                         let '(d, q, j, a) := p in {| i_dt := d; i_inc := q; i_acc := a; i_grot := Some r; i_jr := j |})
                         (combine (combine (combine dt inc) jr) acc) rs)
       end.

Definition bcast {A} (B : nat) (l : list A) : option (list A) :=
  match l with
  | [x] => Some (repeat x B)
  | _ => if Nat.eqb (length l) B then Some l else None
  end.

Definition forward_gen (left : bool) (c : cfg) (st : list istate) (dt : tens F) (inc : tens (@quat F)) (jr : tens (@mat3 F))
                   (acc : tens (@vec3 F)) (rot : option (tens (@quat F))) : option (list out1 * list istate) :=
  (* assert(0 < len(acc.shape) == len(dt.shape) == len(gyro.shape) <= 3) *)
  if negb (Nat.eqb (trank acc) (trank dt) && Nat.eqb (trank dt) (trank inc) && Nat.eqb (trank inc) (trank jr)) then None
  else
    let dts := check dt in let incs := check inc in let jrs := check jr in let accs := check acc in
    let B := length dts in
    if negb (Nat.eqb (length incs) B && Nat.eqb (length jrs) B && Nat.eqb (length accs) B) then None
    else
      let rots : option (list (option (list (@quat F)))) :=
        match rot with
        | None => Some (repeat None B)
        | Some r => let rs := check r in if Nat.eqb (length rs) B then Some (map Some rs) else None
        end in
      match rots, bcast B st with
      | Some rs, Some stB =>
        let fr := zip_with (fun (p : list F * list (@quat F) * list (@mat3 F) * list (@vec3 F)) r =>
                    let '(d, q, j, a) := p in frames_of d q j a r)
                    (combine (combine (combine dts incs) jrs) accs) rs in
        match opt_all fr with
        | None => None
        | Some frames =>
          match opt_all (zip_with (forward1_gen left c) stB frames) with
          | None => None
          | Some res => Some (map fst res, map snd res)
          end
        end
      | _, _ => None
      end.
Definition forward := forward_gen code_left.

(* the code's entry point: gyro instead of increments, Exp / Jr external *)
Section Gyro.
Variable Exp : @vec3 F -> @quat F.
Variable Jr : @quat F -> @mat3 F.
Definition tmap {A B} (f : A -> B) (t : tens A) : tens B :=
  match t with T1 x => T1 (f x) | T2 l => T2 (map f l) | T3 b => T3 (map (map f) b) end.
Definition tzip {A B} (a : tens A) (b : tens B) : option (tens (A * B)) :=
  match a, b with
  | T1 x, T1 y => Some (T1 (x, y))
  | T2 x, T2 y => if Nat.eqb (length x) (length y) then Some (T2 (combine x y)) else None
  | T3 x, T3 y => if Nat.eqb (length x) (length y) && forallb (fun p => Nat.eqb (length (fst p)) (length (snd p))) (combine x y)
                  then Some (T3 (zip_with (@combine A B) x y)) else None
  | _, _ => None
  end.
Definition gyro_inc (p : @vec3 F * F) : @quat F :=
  let '(w, d) := p in Exp (vx w * d, vy w * d, vz w * d).     (* so3(gyro*dt).Exp() *)
Definition forward_gyro (c : cfg) (st : list istate) (dt : tens F) (gyro : tens (@vec3 F)) (acc : tens (@vec3 F))
                        (rot : option (tens (@quat F))) : option (list out1 * list istate) :=
  match tzip gyro dt with
  | None => None
  | Some wd => let inc := tmap gyro_inc wd in forward c st dt inc (tmap Jr inc) acc rot
  end.
End Gyro.

(* ---- sequences of calls on one module object ---- *)
Definition call := (tens F * tens (@quat F) * tens (@mat3 F) * tens (@vec3 F) * option (tens (@quat F)))%type.
Fixpoint run_calls (c : cfg) (st : list istate) (cs : list call) : list (option (list out1)) :=
  match cs with
  | [] => []
  | (dt, inc, jr, acc, rot) :: r =>
    match forward c st dt inc jr acc rot with
    | None => None :: run_calls c st r                (* the call raised: buffers unchanged *)
    | Some (o, st') => Some o :: run_calls c st' r
    end
  end.

(* ---- comparison with the implementation's outputs (cmp x y tol) ---- *)
Section Compare.
Variable cmp : F -> F -> F -> bool.
Definition cmp_v3 (t : F) (a b : @vec3 F) := cmp (vx a) (vx b) t && cmp (vy a) (vy b) t && cmp (vz a) (vz b) t.
Definition cmp_q (t : F) (a b : @quat F) := cmp_v3 t (qv a) (qv b) && cmp (qw a) (qw b) t.
Fixpoint all2 {A B} (f : A -> B -> bool) (a : list A) (b : list B) : bool :=
  match a, b with
  | [], [] => true
  | x :: a', y :: b' => f x y && all2 f a' b'
  | _, _ => false
  end.
Definition cmp_mat (t : F) (a b : @mat F) := all2 (all2 (fun x y => cmp x y t)) a b.
(* tolerances: rot, vel, pos, cov *)
Definition tols := (F * F * F * F)%type.
(* expected output of one item: per frame (rot, vel, pos), cov *)
Definition exp1 := (list (@quat F) * list (@vec3 F) * list (@vec3 F) * option (@mat F))%type.
Definition cmp_out (t : tols) (o : out1) (e : exp1) : bool :=
  let '(tr, tv, tp, tc) := t in
  let '(er, ev, ep, ec) := e in
  all2 (cmp_q tr) (o_rot o) er && all2 (cmp_v3 tv) (o_vel o) ev && all2 (cmp_v3 tp) (o_pos o) ep &&
  match o_cov o, ec with
  | Some a, Some b => cmp_mat tc a b
  | None, None => true
  | _, _ => false
  end.
Definition cmp_call (t : tols) (o : option (list out1)) (e : option (list exp1)) : bool :=
  match o, e with
  | Some a, Some b => all2 (cmp_out t) a b
  | None, None => true
  | _, _ => false
  end.
End Compare.
End IMU.

Arguments iframe F : clear implicits.
Arguments integ F : clear implicits.
Arguments istate F : clear implicits.
Arguments cfg F : clear implicits.
Arguments out1 F : clear implicits.
Arguments cframe F : clear implicits.
Arguments call F : clear implicits.
Arguments exp1 F : clear implicits.
Arguments tols F : clear implicits.

(* ==================================================================================
   Evaluators for the correspondence check.
   A case: index, gravity, gyro_cov, acc_cov, prop_cov, reset, initial (pos, rot, vel),
   calls with the implementation's outputs (None = the call raised) and tolerances. *)
Section Eval.
Context {F : Type} {NF : Num F}.
Variable cmp : F -> F -> F -> bool.
Definition ecall := (call F * option (list (exp1 F)) * tols F)%type.
Definition ecase := (nat * F * @vec3 F * @vec3 F * bool * bool * (@vec3 F * @quat F * @vec3 F) * list ecall)%type.
Definition case_ok (e : ecase) : bool :=
  let '(_, g, cg, ca, prop, reset, (p0, r0, v0), calls) := e in
  match mk_cfg g cg ca prop reset with
  | None => match calls with [] => true | _ => false end      (* constructor raised: no calls recorded *)
  | Some c =>
    let outs := run_calls c [init_istate p0 r0 v0] (map (fun x => fst (fst x)) calls) in
    Nat.eqb (length outs) (length calls) &&
    forallb (fun p => cmp_call cmp (snd (snd p)) (fst p) (snd (fst (snd p)))) (combine outs calls)
  end.
Definition imu_bad (cs : list ecase) : list nat :=
  map (fun e => match e with (i, _, _, _, _, _, _, _) => i end) (filter (fun e => negb (case_ok e)) cs).
End Eval.

(* ---- the cases arrive as a flat stream of primitive 63-bit integers (literals of that type are
   the only ones Coq elaborates fast enough): counts, flags and numbers.  A number is two words
   (2*m + sign, k + 1100) and stands for  (-1)^sign * m / 2^k  (every float is of this form). *)
Section Decode.
Context {F : Type}.
Variable mkF : bool -> int -> int -> F.
Definition rd (A : Type) := list int -> option (A * list int).
Definition rret {A} (a : A) : rd A := fun s => Some (a, s).
Definition rbind {A B} (m : rd A) (f : A -> rd B) : rd B :=
  fun s => match m s with Some (a, r) => f a r | None => None end.
Local Notation "x <- m ;; k" := (rbind m (fun x => k)) (at level 61, m at next level, right associativity).
Definition rint : rd int := fun s => match s with x :: r => Some (x, r) | [] => None end.
Definition rnat : rd nat :=
  x <- rint ;; if Uint63.ltb x 100000 then rret (Z.to_nat (Uint63.to_Z x)) else (fun _ => None).
Definition rbool : rd bool := x <- rint ;; rret (Uint63.eqb x 1).
Definition rnum : rd F := a <- rint ;; k <- rint ;; rret (mkF (Uint63.eqb (Uint63.land a 1) 1) (Uint63.lsr a 1) k).
Fixpoint rrep {A} (n : nat) (r : rd A) : rd (list A) :=
  match n with O => rret [] | S n' => x <- r ;; l <- rrep n' r ;; rret (x :: l) end.
Definition rlist {A} (r : rd A) : rd (list A) := n <- rnat ;; rrep n r.
Definition ropt {A} (r : rd A) : rd (option A) := b <- rbool ;; if b then (x <- r ;; rret (Some x)) else rret None.
Definition rv3 : rd (@vec3 F) := a <- rnum ;; b <- rnum ;; c <- rnum ;; rret (a, b, c).
Definition rq : rd (@quat F) := v <- rv3 ;; w <- rnum ;; rret (v, w).
Definition rm3 : rd (@mat3 F) := a <- rv3 ;; b <- rv3 ;; c <- rv3 ;; rret (a, b, c).
Definition rtens {A} (r : rd A) : rd (tens A) :=
  rank <- rnat ;;
  match rank with
  | 1%nat => x <- r ;; rret (T1 x)
  | 2%nat => l <- rlist r ;; rret (T2 l)
  | _ => b <- rlist (rlist r) ;; rret (T3 b)
  end.
Definition rexp1 : rd (exp1 F) :=
  rots <- rlist rq ;; vels <- rlist rv3 ;; poss <- rlist rv3 ;; cov <- ropt (rlist (rlist rnum)) ;;
  rret (rots, vels, poss, cov).
Definition recall : rd (@ecall F) :=
  dt <- rtens rnum ;; inc <- rtens rq ;; jr <- rtens rm3 ;; acc <- rtens rv3 ;; rot <- ropt (rtens rq) ;;
  e <- ropt (rlist rexp1) ;; t1 <- rnum ;; t2 <- rnum ;; t3 <- rnum ;; t4 <- rnum ;;
  rret ((dt, inc, jr, acc, rot), e, (t1, t2, t3, t4)).
Definition recase : rd (@ecase F) :=
  idx <- rnat ;; g <- rnum ;; cg <- rv3 ;; ca <- rv3 ;; prop <- rbool ;; reset <- rbool ;;
  p0 <- rv3 ;; r0 <- rq ;; v0 <- rv3 ;; calls <- rlist recall ;;
  rret (idx, g, cg, ca, prop, reset, (p0, r0, v0), calls).
(* the stream must be consumed exactly *)
Definition decode (chunks : list (list int)) : option (list (@ecase F)) :=
  match rlist recase (concat chunks) with Some (cs, []) => Some cs | _ => None end.
End Decode.
Definition decode_failed : list nat := [1000000%nat].

(* exact route: the model's exact rational value; |model - impl| <= tol with tol = 0 wherever the
   inputs are chosen so that float64 performs no rounding *)
Definition imu_bad_Q : list (@ecase Q) -> list nat := imu_bad (fun a b t => Qle_bool (Qabs (a - b)) t).
Definition mkQ (neg : bool) (m k : int) : Q :=
  let z := Uint63.to_Z m in let z := if neg then Z.opp z else z in
  let e := (Uint63.to_Z k - 1100)%Z in
  if (0 <=? e)%Z then Qred (Qmake z (Z.to_pos (Z.shiftl 1 e))) else Qred (inject_Z (Z.shiftl z (- e))).
Definition imu_bad_Qs (chunks : list (list int)) : list nat :=
  match decode mkQ chunks with Some cs => imu_bad_Q cs | None => decode_failed end.

(* tolerance route: 256-bit binary fixed point on BigZ (value = z / 2^256); multiplication and
   division truncate to a multiple of 2^-256, far below every tolerance of the check *)
Record fx := Fx { fxz : bigZ }.
Definition fxP : bigZ := 256%bigZ.
Definition NumFx : Num fx := {|
  zero := Fx 0%bigZ; one := Fx (BigZ.shiftl 1 fxP);
  add := fun a b => Fx (fxz a + fxz b)%bigZ; sub := fun a b => Fx (fxz a - fxz b)%bigZ;
  mul := fun a b => Fx (BigZ.shiftr (fxz a * fxz b) fxP)%bigZ;
  div := fun a b => Fx (BigZ.div (BigZ.shiftl (fxz a) fxP) (fxz b))%bigZ;
  opp := fun a => Fx (- fxz a)%bigZ;
  ofZ := fun z => Fx (BigZ.shiftl (BigZ.of_Z z) fxP);
  ltb := fun a b => BigZ.ltb (fxz a) (fxz b); leb := fun a b => BigZ.leb (fxz a) (fxz b);
  eqb := fun a b => BigZ.eqb (fxz a) (fxz b) |}.
(* a dyadic literal  m / 2^k  (k <= 256) *)
Definition fxd (m : Z) (k : Z) : fx := Fx (BigZ.shiftl (BigZ.of_Z m) (fxP - BigZ.of_Z k)%bigZ).
Definition fx_close (a b t : fx) : bool := BigZ.leb (BigZ.abs (fxz a - fxz b)%bigZ) (fxz t).
Definition imu_bad_fx : list (@ecase fx) -> list nat := @imu_bad fx NumFx fx_close.
(* (-1)^neg m / 2^(k-1100) on the fixed-point grid: shift by 256 - (k - 1100) >= 0 (the harness sends k - 1100 <= 250) *)
Definition mkFx (neg : bool) (m k : int) : fx :=
  let z := BigZ.shiftl (BigZ.Pos (BigN.N0 m)) (BigZ.Pos (BigN.N0 (Uint63.sub 1356 k))) in
  Fx (if neg then BigZ.opp z else z).
Definition imu_bad_fxs (chunks : list (list int)) : list nat :=
  match decode mkFx chunks with Some cs => imu_bad_fx cs | None => decode_failed end.
