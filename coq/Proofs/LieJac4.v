(* C04 (part 4): the backward of so3 Exp / SO3 Log uses the true Jacobians.
   Exp:  d/dh so3_exp(x + h dl) |_0 = T_{Exp x}(Jl(x) dl)   (left perturbation of Exp(x) by Jl(x) dl), on the
         closed-form branch eps < |x| (so3_Exp.backward: grad @ so3_Jl(x)), and at x = 0 (Taylor branch).
   Log:  d/de SO3_log(Exp(e d) @ X) |_0 = Jl_inv(Log X) d   on the principal closed-form branch
         (SO3_Log.backward: grad @ so3_Jl_inv(output)). *)
From Coq Require Import Reals Lra Psatz List Nsatz.
From Coquelicot Require Import Coquelicot.
From Interval Require Import Tactic.
Import ListNotations.
From PV Require Import Base.Num Base.RTac Model.LieGroup Model.LieExp Model.LieLog Proofs.LieGroup Proofs.LieExp Proofs.LieJac Proofs.LieJac2 Proofs.LieJac3.
Local Open Scope R_scope.
#[local] Remove Hints NumQ NumZ : typeclass_instances.

(* ---------- small analysis helpers *)
Lemma locally_gt (f : R -> R) (c : R) : continuous f 0 -> c < f 0 -> locally 0 (fun h => c < f h).
Proof. intros Hc H. apply (Hc (fun y => c < y)). apply (open_gt c). exact H. Qed.
Lemma locally_lt (f : R -> R) (c : R) : continuous f 0 -> f 0 < c -> locally 0 (fun h => f h < c).
Proof. intros Hc H. apply (Hc (fun y => y < c)). apply (open_lt c). exact H. Qed.
Lemma vnorm_line_continuous (x dl : vec3R) : continuous (fun h => vnorm (vadd x (vscale h dl))) 0.
Proof.
  unfold vnorm. cbn [tsqrt TransR]. apply continuous_sqrt_comp.
  destruct x as [[x1 x2] x3], dl as [[d1 d2] d3]. lie_unfold.
  apply (ex_derive_continuous (V := R_NormedModule)). auto_derive. trivial.
Qed.
Lemma vline_0 (x dl : vec3R) : vadd x (vscale 0 dl) = x.
Proof. lie_ring. Qed.

(* ---------- so3 Exp, closed-form branch *)
Definition expc (x : vec3R) : quatR :=
  let t := sqrt (vdot x x) in (vscale (sin (t / 2) / t) x, cos (t / 2)).
Lemma so3_exp_closed (eps : R) (x : vec3R) : eps < vnorm x -> so3_exp eps x = expc x.
Proof.
  intros H. unfold so3_exp, so3_exp_coef, expc.
  replace (ltb eps (vnorm x)) with true by (symmetry; cbn; now apply Rltb_true).
  cbn [fst snd]. unfold vnorm. num_simpl. replace (1 / 2 * sqrt (vdot x x)) with (sqrt (vdot x x) / 2) by field. reflexivity.
Qed.
Lemma expc_derive (x dl : vec3R) i : 0 < vdot x x ->
  let T := sqrt (vdot x x) in let S := sin (T / 2) in let C := cos (T / 2) in
  let xd := vdot x dl in
  is_derive (fun h => qc i (expc (vadd x (vscale h dl)))) 0
    (qc i (vadd (vscale ((xd / T) * ((C * T / 2 - S) / (T * T))) x) (vscale (S / T) dl), - S / 2 * (xd / T))).
Proof.
  intros Hp T S C xd.
  assert (HT : 0 < T) by (apply sqrt_lt_R0; exact Hp).
  destruct x as [[x1 x2] x3], dl as [[d1 d2] d3]. unfold expc, qc. lie_unfold.
  assert (E0 : sqrt ((x1 + 0 * d1) * (x1 + 0 * d1) + (x2 + 0 * d2) * (x2 + 0 * d2) + (x3 + 0 * d3) * (x3 + 0 * d3)) = T).
  { unfold T. lie_unfold. f_equal. ring. }
  assert (Hp' : 0 < (x1 + 0 * d1) * (x1 + 0 * d1) + (x2 + 0 * d2) * (x2 + 0 * d2) + (x3 + 0 * d3) * (x3 + 0 * d3)).
  { lie_unfold. replace ((x1 + 0 * d1) * (x1 + 0 * d1) + (x2 + 0 * d2) * (x2 + 0 * d2) + (x3 + 0 * d3) * (x3 + 0 * d3)) with (x1 * x1 + x2 * x2 + x3 * x3) by ring. exact Hp. }
  d4 i; (auto_derive; [rewrite ?E0; repeat split; auto; lra|]); rewrite ?E0; unfold S, C, xd; lie_unfold; unfold Rdiv;
  set (SS := sin (T * / 2)); set (CC := cos (T * / 2)); clearbody SS CC; field; lra.
Qed.
(* algebraic core: with T^2 = |x|^2, S = sin(T/2), C = cos(T/2):  dq = (1/2 Jl(x) dl, 0) * Exp(x) *)
Lemma exp_dx_algebra (x dl : vec3R) (T S C : R) : T <> 0 -> T * T = vdot x x -> S * S + C * C = 1 ->
  let xd := vdot x dl in
  let K := skew x in
  let J := madd3 (madd3 mid3 (mscale3 ((1 - (1 - 2 * S * S)) / (T * T)) K)) (mscale3 ((T - 2 * S * C) / (T * (T * T))) (mmul3 K K)) in
  (vadd (vscale ((xd / T) * ((C * T / 2 - S) / (T * T))) x) (vscale (S / T) dl), - S / 2 * (xd / T))
  = tanSO3 (mvmul J dl) (vscale (S / T) x, C).
Proof.
  intros HT HTT HSC. destruct x as [[x1 x2] x3], dl as [[d1 d2] d3]. unfold tanSO3. lie_unfold.
  clear - HT HTT HSC.
  split_pairs; field_simplify_eq; auto; cbn [Rpow_def.pow]; nsatz.
Qed.
Theorem so3_exp_dx (eps : R) (x dl : vec3R) i : 0 <= eps -> eps < vnorm x ->
  is_derive (fun h => qc i (so3_exp eps (vadd x (vscale h dl)))) 0
            (qc i (tanSO3 (mvmul (so3_Jl eps x) dl) (so3_exp eps x))).
Proof.
  intros He Hx. pose proof (vnorm_sq x) as Hs.
  assert (Hpos : 0 < vdot x x) by nra.
  apply (is_derive_ext_loc (fun h => qc i (expc (vadd x (vscale h dl))))).
  { assert (HL : locally 0 (fun h => eps < vnorm (vadd x (vscale h dl)))).
    { apply locally_gt; [apply vnorm_line_continuous | now rewrite vline_0]. }
    revert HL. apply filter_imp. intros h Hh. now rewrite so3_exp_closed. }
  rewrite so3_exp_closed by assumption.
  set (T := sqrt (vdot x x)). set (S := sin (T / 2)). set (C := cos (T / 2)).
  assert (ET : vnorm x = T) by reflexivity.
  assert (HT : T <> 0) by (rewrite <- ET; lra).
  assert (HTT : T * T = vdot x x) by (rewrite <- ET; exact Hs).
  assert (HSC : S * S + C * C = 1) by (pose proof (sin2_cos2 (T / 2)) as H; unfold Rsqr in H; exact H).
  assert (EJ : so3_Jl eps x = madd3 (madd3 mid3 (mscale3 ((1 - (1 - 2 * S * S)) / (T * T)) (skew x)))
                                     (mscale3 ((T - 2 * S * C) / (T * (T * T))) (mmul3 (skew x) (skew x)))).
  { unfold so3_Jl, so3_Jl_coef. replace (ltb eps (vnorm x)) with true by (symmetry; cbn; now apply Rltb_true).
    cbn [fst snd]. rewrite ET. num_simpl.
    replace (cos T) with (1 - 2 * S * S) by (unfold S; replace T with (2 * (T / 2)) at 3 by field; now rewrite cos_2a_sin).
    replace (sin T) with (2 * S * C) by (unfold S, C; replace T with (2 * (T / 2)) at 3 by field; now rewrite sin_2a).
    reflexivity. }
  rewrite EJ. unfold expc. fold T S C. cbv zeta.
  rewrite <- (exp_dx_algebra x dl T S C HT HTT HSC). apply (expc_derive x dl i Hpos).
Qed.

(* ---------- SO3 Log *)
(* differential of the closed-form principal-branch logarithm  q = (v, w) |-> (2 atan(|v|/w) / |v|) v *)
Definition Dlog (X X' : quatR) : vec3R :=
  let v := qv X in let w := qw X in let v' := qv X' in let w' := qw X' in
  let n := sqrt (vdot v v) in
  let n' := vdot v v' / n in
  let r := n / w in
  let r' := (n' * w - n * w') / (w * w) in
  let al := atan r in
  let al' := r' / (1 + r * r) in
  let f := 2 * al / n in
  let f' := (2 * al' * n - 2 * al * n') / (n * n) in
  vadd (vscale f' v) (vscale f v').

Lemma log_dx_algebra (v d : vec3R) (w n al : R) : n <> 0 -> w <> 0 -> al <> 0 ->
  n * n = vdot v v -> n * n + w * w = 1 ->
  let X' := tanSO3 d (v, w) in
  let v' := qv X' in let w' := qw X' in
  let n' := vdot v v' / n in
  let r := n / w in
  let r' := (n' * w - n * w') / (w * w) in
  let al' := r' / (1 + r * r) in
  let f := 2 * al / n in
  let f' := (2 * al' * n - 2 * al * n') / (n * n) in
  let phi := vscale f v in
  let K := skew phi in
  let c := (1 - (2 * al) * w / (2 * n)) / ((2 * al) * (2 * al)) in
  vadd (vscale f' v) (vscale f v') = mvmul (madd3 (madd3 mid3 (mscale3 (- (1 / 2)) K)) (mscale3 c (mmul3 K K))) d.
Proof.
  intros Hn Hw Ha Hnn Hu. destruct v as [[v1 v2] v3], d as [[d1 d2] d3]. unfold tanSO3. lie_unfold.
  assert (Hd : 1 + n / w * (n / w) <> 0) by (replace (1 + n / w * (n / w)) with (/ (w * w)) by (field_simplify_eq; [nra|lra]); apply Rinv_neq_0_compat; nra).
  assert (Hd2 : w * w + n * n <> 0) by (rewrite Rplus_comm, Hu; lra).
  split_pairs; (field_simplify_eq; [|repeat split; assumption]); cbn [Rpow_def.pow]; clear - Hnn Hu; nsatz.
Qed.

(* closed-form principal branch of SO3_Log (eps < |v|, eps < |w|) *)
Definition logc (q : quatR) : vec3R :=
  let n := sqrt (vdot (qv q) (qv q)) in vscale (2 * atan (n / qw q) / n) (qv q).
Lemma SO3_log_closed (eps : R) (q : quatR) : eps < vnorm (qv q) -> eps < Rabs (qw q) -> SO3_log eps q = logc q.
Proof.
  intros Hv Hw. unfold SO3_log, SO3_log_factor, logc.
  replace (ltb eps (vnorm (qv q))) with true by (symmetry; cbn; now apply Rltb_true).
  replace (ltb eps (absF (qw q))) with true.
  2:{ symmetry. unfold absF. cbn. apply Rltb_true. unfold Rabs in Hw. unfold Rltb. destruct (Rlt_dec (qw q) 0); destruct (Rcase_abs (qw q)); lra. }
  reflexivity.
Qed.
Section PrimLog.
Variables (a b c w : R -> R) (a' b' c' w' : R).
Hypotheses (Ha : is_derive a 0 a') (Hb : is_derive b 0 b') (Hc : is_derive c 0 c') (Hw : is_derive w 0 w').
Lemma prim_log i : 0 < a 0 * a 0 + b 0 * b 0 + c 0 * c 0 -> w 0 <> 0 ->
  is_derive (fun e => vc i (logc ((a e, b e, c e), w e))) 0
            (vc i (Dlog ((a 0, b 0, c 0), w 0) ((a', b', c'), w'))).
Proof.
  intros Hp Hn. unfold logc, Dlog, vc. lie_unfold.
  assert (Hs : 0 < sqrt (a 0 * a 0 + b 0 * b 0 + c 0 * c 0)) by (apply sqrt_lt_R0; exact Hp).
  d3 i; (auto_derive; [repeat split; trivial; try (eexists; eassumption); lra | ]);
  use_derives;
  set (n := sqrt (a 0 * a 0 + b 0 * b 0 + c 0 * c 0)) in *; unfold Rdiv; set (al := atan (n * / w 0)); clearbody al;
  assert (Hd : 1 + n * / w 0 * (n * / w 0) <> 0) by (assert (0 <= n * / w 0 * (n * / w 0)) by apply Rle_0_sqr; lra);
  assert (Hn0 : n <> 0) by (apply Rgt_not_eq; exact Hs);
  assert (Hq : w 0 * w 0 + n * n <> 0) by (apply Rgt_not_eq; apply Rplus_le_lt_0_compat; [apply Rle_0_sqr | apply Rmult_lt_0_compat; exact Hs]);
  clearbody n; field; repeat split; assumption.
Qed.
End PrimLog.

Lemma vnorm_scale' (k : R) (v : vec3R) : vnorm (vscale k v) = Rabs k * vnorm v.
Proof.
  unfold vnorm. cbn [tsqrt TransR].
  replace (vdot (vscale k v) (vscale k v)) with (k * k * vdot v v) by (destruct v as [[a b] c]; lie_unfold; ring).
  rewrite sqrt_mult_alt by (apply Rle_0_sqr). f_equal. replace (k * k) with (k²) by reflexivity. apply sqrt_Rsqr_abs.
Qed.

Lemma prim_log_loc (a b c w : R -> R) (a' b' c' w' eps : R) :
  is_derive a 0 a' -> is_derive b 0 b' -> is_derive c 0 c' -> is_derive w 0 w' ->
  eps < vnorm (a 0, b 0, c 0) -> eps < w 0 -> 0 <= eps ->
  locally 0 (fun e => eps < vnorm (a e, b e, c e) /\ eps < Rabs (w e)).
Proof.
  intros Ha Hb Hc Hw Hv Hw0 He.
  assert (C1 : continuous (fun e => vnorm (a e, b e, c e)) 0).
  { unfold vnorm. cbn [tsqrt TransR]. apply continuous_sqrt_comp. lie_unfold.
    apply (ex_derive_continuous (V := R_NormedModule)). auto_derive. repeat split; try (eexists; eassumption); trivial. }
  assert (C2 : continuous w 0).
  { apply (ex_derive_continuous (V := R_NormedModule)). eexists; eassumption. }
  pose proof (locally_gt _ eps C1 Hv) as L1. pose proof (locally_gt _ eps C2 Hw0) as L2.
  generalize (filter_and _ _ L1 L2). apply filter_imp. intros e [H1 H2]. split; [exact H1|].
  rewrite Rabs_pos_eq; lra.
Qed.

Lemma dv3_log (eps : R) (Q : R -> quatR) Q' : 0 <= eps -> eps < vnorm (qv (Q 0)) -> eps < qw (Q 0) -> dq4 Q Q' ->
  dv3 (fun e => SO3_log eps (Q e)) (Dlog (Q 0) Q').
Proof.
  intros He Hv Hw HQ i.
  pose proof (vnorm_sq (qv (Q 0))) as Hs.
  assert (Hp : 0 < vdot (qv (Q 0)) (qv (Q 0))) by nra.
  pose proof (HQ 0%nat) as Ha. pose proof (HQ 1%nat) as Hb. pose proof (HQ 2%nat) as Hc. pose proof (HQ 3%nat) as Hw'.
  pose proof (prim_log _ _ _ _ _ _ _ _ Ha Hb Hc Hw' i) as H. cbv beta in H. rewrite !q_eta in H.
  apply (is_derive_ext_loc (fun e => vc i (logc ((qc 0 (Q e), qc 1 (Q e), qc 2 (Q e)), qc 3 (Q e))))).
  - pose proof (prim_log_loc _ _ _ _ _ _ _ _ eps Ha Hb Hc Hw') as L. cbv beta in L.
    assert (E0 : (qc 0 (Q 0), qc 1 (Q 0), qc 2 (Q 0)) = qv (Q 0)) by (destruct (Q 0) as [[[x y] z] s]; reflexivity).
    rewrite E0 in L. specialize (L Hv Hw He). revert L. apply filter_imp. intros e [H1 H2].
    rewrite q_eta. rewrite SO3_log_closed; [reflexivity | |].
    + destruct (Q e) as [[[x y] z] s]. exact H1.
    + destruct (Q e) as [[[x y] z] s]. exact H2.
  - apply H.
    + destruct (Q 0) as [[[x y] z] s]. cbn [qc qv fst snd vx vy vz] in *. lie_unfold. exact Hp.
    + destruct (Q 0) as [[[x y] z] s]. cbn [qc qw fst snd] in *. lra.
Qed.

Theorem SO3_log_dX_curve (eps : R) (Q : R -> quatR) d : 0 <= eps -> unitq (Q 0) ->
  eps < vnorm (qv (Q 0)) -> eps < qw (Q 0) -> eps < vnorm (SO3_log eps (Q 0)) -> dq4 Q (tanSO3 d (Q 0)) ->
  dv3 (fun e => SO3_log eps (Q e)) (mvmul (so3_Jl_inv eps (SO3_log eps (Q 0))) d).
Proof.
  intros He Hu Hv Hw Hl HQ. pose proof (dv3_log eps Q _ He Hv Hw HQ) as H.
  revert H. apply dv3_ext; [reflexivity|].
  revert Hl. rewrite SO3_log_closed by (try rewrite Rabs_pos_eq; lra).
  generalize (Q 0) Hu Hv Hw. clear - He. intros [v w] Hu Hv Hw Hl. cbn [qv qw fst snd] in *.
  pose proof (vnorm_sq v) as Hs. unfold unitq, qnorm2 in Hu. cbn [qv qw fst snd] in Hu.
  unfold logc, Dlog in *. cbn [qv qw fst snd] in *.
  change (sqrt (vdot v v)) with (vnorm v) in *. remember (vnorm v) as n eqn:En.
  assert (Hn : 0 < n) by lra. assert (Hw0 : 0 < w) by lra.
  remember (atan (n / w)) as al eqn:Eal.
  assert (Hal : 0 < al < PI / 2).
  { rewrite Eal. pose proof (atan_bound (n / w)). split; [|lra]. rewrite <- atan_0. apply atan_increasing.
    apply Rdiv_lt_0_compat; lra. }
  assert (Hnn : n * n = vdot v v) by exact Hs.
  assert (Huu : n * n + w * w = 1) by (rewrite Hnn; exact Hu).
  assert (Hsq : sqrt (1 + (n / w)²) = / w).
  { replace (1 + (n / w)²) with (/ (w * w)) by (clear - Huu Hw0; unfold Rsqr; field_simplify_eq; [nra|lra]).
    replace (/ (w * w)) with ((/ w) * (/ w)) by (field; lra). apply sqrt_square. left. now apply Rinv_0_lt_compat. }
  assert (Hsin : sin al = n). { rewrite Eal. rewrite sin_atan, Hsq. field. lra. }
  assert (Hcos : cos al = w). { rewrite Eal. rewrite cos_atan, Hsq. field. lra. }
  assert (Hth : vnorm (vscale (2 * al / n) v) = 2 * al).
  { rewrite vnorm_scale', <- En. rewrite Rabs_pos_eq; [field; lra|].
    apply Rmult_le_pos; [lra | left; now apply Rinv_0_lt_compat]. }
  unfold so3_Jl_inv, so3_Jl_inv_coef.
  replace (ltb eps (vnorm (vscale (2 * al / n) v))) with true by (symmetry; cbn; now apply Rltb_true).
  rewrite Hth. num_simpl. replace (1 / 2 * (2 * al)) with al by field. rewrite Hsin, Hcos.
  exact (log_dx_algebra v d w n al ltac:(lra) ltac:(lra) ltac:(lra) Hnn Huu).
Qed.

(* the value of |Log X| on this branch (used to show that the hypotheses are satisfiable) *)
Lemma SO3_log_norm_pos (eps : R) (v : vec3R) (w : R) : 0 <= eps -> eps < vnorm v -> eps < w ->
  vnorm (SO3_log eps (v, w)) = 2 * atan (vnorm v / w).
Proof.
  intros He Hv Hw. rewrite SO3_log_closed by (cbn [qv qw fst snd]; try rewrite Rabs_pos_eq; lra).
  unfold logc. cbn [qv qw fst snd]. change (sqrt (vdot v v)) with (vnorm v). remember (vnorm v) as n eqn:En.
  rewrite vnorm_scale', <- En.
  assert (Ha : 0 < atan (n / w)).
  { rewrite <- atan_0. apply atan_increasing. apply Rdiv_lt_0_compat; lra. }
  rewrite Rabs_pos_eq; [field; lra|]. apply Rmult_le_pos; [lra | left; apply Rinv_0_lt_compat; lra].
Qed.

(* along the perturbation curve e |-> Exp(e d) @ X *)
Theorem SO3_log_dX (eps : R) (X : quatR) d i : 0 <= eps -> unitq X ->
  eps < vnorm (qv X) -> eps < qw X -> eps < vnorm (SO3_log eps X) ->
  is_derive (fun e => vc i (SO3_log eps (pertSO3 d X e))) 0 (vc i (mvmul (so3_Jl_inv eps (SO3_log eps X)) d)).
Proof.
  intros He Hu Hv Hw Hl. pose proof (SO3_log_dX_curve eps (pertSO3 d X) d He) as H.
  rewrite pertSO3_0 in H. apply H; try assumption. rewrite <- (pertSO3_0 d X) at 2. apply pertSO3_curve.
Qed.

(* ---------- so3 Exp at x = 0 (Taylor branch): Jl(0) = I *)
Theorem so3_exp_dx_zero (eps : R) (dl : vec3R) i : 0 < eps ->
  is_derive (fun h => qc i (so3_exp eps (vadd vzero (vscale h dl)))) 0
            (qc i (tanSO3 (mvmul (so3_Jl eps vzero) dl) (so3_exp eps vzero))).
Proof.
  intros He.
  assert (Hz : vnorm vzero = 0) by (unfold vnorm; cbn [tsqrt TransR]; replace (vdot vzero vzero) with 0 by (lie_unfold; ring); apply sqrt_0).
  apply (is_derive_ext_loc (fun h => qc i (exp0 (vadd vzero (vscale h dl))))).
  { assert (HL : locally 0 (fun h => vnorm (vadd vzero (vscale h dl)) < eps)).
    { apply locally_lt; [apply vnorm_line_continuous | cbv beta; rewrite vline_0; apply Rle_lt_trans with 0; [right; exact Hz | exact He]]. }
    revert HL. apply filter_imp. intros h Hh. rewrite exp0_is_model; [reflexivity | apply Rlt_le; exact Hh]. }
  rewrite exp0_is_model, Jl0_is_model by (apply Rle_trans with 0; [right; exact Hz | apply Rlt_le; exact He]).
  destruct dl as [[d1 d2] d3]. unfold tanSO3, exp0, Jl0, qc. lie_unfold. d4 i; der_ring.
Qed.

(* ---------- rxso3 Exp / RxSO3 Log: block structure  Jl = diag(so3_Jl, 1),  Jl_inv = diag(so3_Jl_inv, 1) *)
Theorem rxso3_exp_dx (eps : R) (x dl : v4) i : 0 <= eps -> eps < vnorm (fst x) ->
  is_derive (fun h => rxc i (rxso3_exp eps (v4add x (v4scale h dl)))) 0
            (rxc i (tanRxSO3 (mvmul (so3_Jl eps (fst x)) (fst dl), snd dl) (rxso3_exp eps x))).
Proof.
  intros He Hx. destruct x as [x sg], dl as [dl ds]. unfold rxso3_exp, v4add, v4scale, tanRxSO3. cbn [fst snd] in *.
  destruct i as [|[|[|[|j]]]]; unfold rxc; cbn [fst snd];
    [apply (so3_exp_dx eps x dl 0 He Hx) | apply (so3_exp_dx eps x dl 1 He Hx) | apply (so3_exp_dx eps x dl 2 He Hx)
     | apply (so3_exp_dx eps x dl 3 He Hx) |].
  num_simpl. auto_derive; [trivial|]. rewrite Rmult_0_l, Rplus_0_r. ring.
Qed.
Theorem RxSO3_log_dX_curve (eps : R) (X : R -> rxso3R) d : 0 <= eps -> unitq (fst (X 0)) -> 0 < snd (X 0) ->
  eps < vnorm (qv (fst (X 0))) -> eps < qw (fst (X 0)) -> eps < vnorm (SO3_log eps (fst (X 0))) ->
  drx X (tanRxSO3 d (X 0)) ->
  dv4 (fun e => RxSO3_log eps (X e)) (mvmul (so3_Jl_inv eps (fst (RxSO3_log eps (X 0)))) (fst d), snd d).
Proof.
  intros He Hu Hs Hv Hw Hl [Hq Hsc]. split; unfold RxSO3_log; cbn [fst snd].
  - apply (SO3_log_dX_curve eps (fun e => fst (X e)) (fst d) He Hu Hv Hw Hl Hq).
  - unfold tanRxSO3 in Hsc. cbn [fst snd] in Hsc. unfold dR in *. num_simpl.
    remember (fun e => snd (X e)) as s eqn:Es.
    assert (Hs0 : s 0 = snd (X 0)) by (rewrite Es; reflexivity). rewrite <- Hs0 in *.
    apply (is_derive_ext (fun e => ln (s e))); [intros e; rewrite Es; reflexivity|].
    auto_derive; [split; [eexists; eassumption | split; [exact Hs | trivial]] |].
    use_derives. field. apply Rgt_not_eq. exact Hs.
Qed.

(* the hypotheses of the Log statements are satisfiable *)
Example SO3_log_hyps_example : let eps := 1 / 1000 in let X : quatR := ((3/5, 0, 0), 4/5) in
  0 <= eps /\ unitq X /\ eps < vnorm (qv X) /\ eps < qw X /\ eps < vnorm (SO3_log eps X).
Proof.
  cbv zeta. cbn [qv qw fst snd].
  assert (Hn : vnorm ((3/5, 0, 0) : vec3R) = 3/5).
  { unfold vnorm. cbn [tsqrt TransR]. replace (vdot ((3/5, 0, 0) : vec3R) (3/5, 0, 0)) with ((3/5) * (3/5)) by (lie_unfold; field).
    apply sqrt_square. lra. }
  split; [lra|]. split; [unfold unitq; lie_unfold; field|]. rewrite Hn. split; [lra|]. split; [lra|].
  rewrite SO3_log_norm_pos by (rewrite ?Hn; lra). rewrite Hn. interval.
Qed.
