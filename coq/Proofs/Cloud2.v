(* More proofs for C18 (point-cloud filters), over R: knn_filter under the weakest no-tie
   hypothesis (no tie at the k-th neighbour only; duplicates and other ties allowed), the radius
   branch for all inputs, uniqueness of the topk contract without ties, knn index equivariance. *)
From Coq Require Import QArith.
Close Scope Q_scope.
From Coq Require Import ZArith Reals Lra Lia List Bool Arith Permutation Sorted Psatz.
Import ListNotations.
From PV Require Import Base.Num Model.LieGroup Model.Cloud Proofs.Cloud.
#[local] Remove Hints NumQ NumZ : typeclass_instances.
Local Open Scope R_scope.

(* ====================================================================== list facts *)
Lemma filter_length_lt {A} (f : A -> bool) (l : list A) x :
  In x l -> f x = false -> (length (filter f l) < length l)%nat.
Proof.
  induction l as [|y l IH]; intros Hin Hf; [destruct Hin|].
  cbn. destruct Hin as [->|Hin].
  - rewrite Hf. pose proof (filter_length_le f l). lia.
  - specialize (IH Hin Hf). destruct (f y); cbn; lia.
Qed.

Lemma filter_map_comm {A B} (P : B -> bool) (g : A -> B) (s : list A) :
  filter P (map g s) = map g (filter (fun j => P (g j)) s).
Proof. induction s as [|a s IH]; auto. cbn. destruct (P (g a)); cbn; now rewrite IH. Qed.

Lemma filter_as_index {A} (d : A) (f : A -> bool) (l : list A) :
  filter f l = map (fun j => nth j l d) (filter (fun j => f (nth j l d)) (seq 0 (length l))).
Proof.
  induction l as [|x l IH]; auto.
  change (seq 0 (length (x :: l))) with (0%nat :: seq 1 (length l)).
  rewrite <- seq_shift.
  change (filter (fun j => f (nth j (x :: l) d)) (0%nat :: map S (seq 0 (length l))))
    with (if f x then 0%nat :: filter (fun j => f (nth j (x :: l) d)) (map S (seq 0 (length l)))
          else filter (fun j => f (nth j (x :: l) d)) (map S (seq 0 (length l)))).
  rewrite (filter_map_comm (fun j => f (nth j (x :: l) d)) S).
  change (fun j => f (nth (S j) (x :: l) d)) with (fun j => f (nth j l d)).
  change (filter f (x :: l)) with (if f x then x :: filter f l else filter f l).
  destruct (f x); [change (map ?g (0%nat :: ?t)) with (x :: map g t); f_equal|];
    rewrite map_map; exact IH.
Qed.

Lemma filter_perm_count {A B} (f : A -> bool) (g : B -> bool) (h : B -> A) (l : list A) (l' : list B) :
  Permutation l (map h l') -> (forall y, g y = f (h y)) -> length (filter f l) = length (filter g l').
Proof.
  intros HP Hg. rewrite (filter_perm_length f _ _ HP).
  clear HP. induction l' as [|y l' IH]; auto. cbn. rewrite Hg. destruct (f (h y)); cbn; now rewrite IH.
Qed.

(* ====================================================================== knn_filter, boundary ties only *)
Section KnnBoundary.
Variable d : vecR -> vecR -> R.

(* every selected index has fewer than k+1 points strictly closer *)
Lemma knn_sel_rank (pts : cloudR) (k : nat) (p : vecR) i :
  In i (map snd (firstn (S k) (sort_row (map (d p) pts)))) ->
  (rank (d p) pts (nth i pts []) < S k)%nat.
Proof.
  intros Hi. set (row := map (d p) pts) in *. set (s := sort_row row) in *.
  assert (Hlen : length row = length pts) by apply map_length.
  apply in_map_iff in Hi. destruct Hi as [[v j] [Hj Hin]]. cbn in Hj. subst j.
  assert (Hs : StronglySorted (fun a b => le_fst a b = true) s)
    by (apply isort_sorted; [apply le_fst_total | apply le_fst_trans]).
  assert (Hvi : (i < length pts)%nat /\ v = nth i row 0).
  { apply In_firstn' in Hin. apply (Permutation_in _ (sort_row_perm row)) in Hin.
    apply In_indexed in Hin. now rewrite Hlen in Hin. }
  destruct Hvi as [Hi Hv].
  assert (Hv' : v = d p (nth i pts [])).
  { rewrite Hv. unfold row. rewrite (nth_indep _ 0 (d p [])) by (now rewrite map_length). apply map_nth. }
  (* the rank, counted on the sorted list *)
  assert (Hrank : rank (d p) pts (nth i pts []) = length (filter (fun vj : R * nat => Rltb (fst vj) v) s)).
  { unfold rank. rewrite <- Hv'.
    assert (HP : Permutation (map (d p) pts) (map fst s)).
    { apply Permutation_sym. eapply perm_trans; [apply Permutation_map, sort_row_perm|].
      unfold indexed. rewrite map_fst_combine; auto. now rewrite seq_length. }
    rewrite <- (filter_perm_count (fun x => Rltb x v) _ fst _ s HP) by reflexivity.
    clear. induction pts as [|q l IH]; auto. cbn. destruct (Rltb (d p q) v); cbn; now rewrite IH. }
  rewrite Hrank. rewrite <- (firstn_skipn (S k) s) at 1. rewrite filter_app, app_length.
  rewrite (filter_none _ (skipn (S k) s)).
  - cbn [length]. rewrite Nat.add_0_r.
    eapply Nat.lt_le_trans; [apply (filter_length_lt _ _ (v, i) Hin)|].
    + cbn. apply Rltb_false. lra.
    + rewrite firstn_length. lia.
  - intros [w j] Hw. cbn. apply Rltb_false.
    pose proof (sorted_firstn_skipn le_fst s Hs (S k) _ _ Hin Hw) as Hle.
    unfold le_fst in Hle; cbn in Hle. now apply Rleb_true in Hle.
Qed.

Definition nbhd_idx (k : nat) (pts : cloudR) (p : vecR) : list nat :=
  filter (fun j => Nat.ltb (rank (d p) pts (nth j pts [])) (S k)) (seq 0 (length pts)).
Lemma knn_nbhd_idx k (pts : cloudR) p : knn_nbhd d k pts p = map (fun j => nth j pts []) (nbhd_idx k pts p).
Proof. unfold knn_nbhd, nbhd_idx. apply (filter_as_index [] (fun q => Nat.ltb (rank (d p) pts q) (S k))). Qed.

Lemma sel_idx_props (pts : cloudR) k p : (S k <= length pts)%nat ->
  let I := map snd (firstn (S k) (sort_row (map (d p) pts))) in
  NoDup I /\ length I = S k /\ incl I (nbhd_idx k pts p).
Proof.
  intros Hk I. split; [|split].
  - unfold I. rewrite <- firstn_map. apply NoDup_firstn.
    eapply Permutation_NoDup; [apply Permutation_sym, sort_row_snd | apply seq_NoDup].
  - unfold I. rewrite map_length. apply firstn_length_le. now rewrite sort_row_length, map_length.
  - intros i Hi. unfold nbhd_idx. apply filter_In. split.
    + apply in_seq. pose proof (knn_sel_idx_lt d pts k p i Hi). lia.
    + apply Nat.ltb_lt. now apply knn_sel_rank.
Qed.

(* there are always at least k+1 points with fewer than k+1 points strictly closer *)
Lemma knn_nbhd_length_ge (pts : cloudR) k p : (S k <= length pts)%nat ->
  (S k <= length (knn_nbhd d k pts p))%nat.
Proof.
  intros Hk. destruct (sel_idx_props pts k p Hk) as [Hnd [Hl Hincl]].
  rewrite knn_nbhd_idx, map_length, <- Hl. now apply NoDup_incl_length.
Qed.

(* no tie at the k-th neighbour (exactly k+1 such points): the selection is that neighbourhood *)
Lemma knn_sel_nbhd_bd (pts : cloudR) k p : (S k <= length pts)%nat ->
  length (knn_nbhd d k pts p) = S k -> Permutation (knn_sel d pts k p) (knn_nbhd d k pts p).
Proof.
  intros Hk Hlen. destruct (sel_idx_props pts k p Hk) as [Hnd [Hl Hincl]].
  unfold knn_sel. rewrite knn_nbhd_idx. apply Permutation_map.
  apply NoDup_Permutation_bis; auto.
  rewrite knn_nbhd_idx, map_length in Hlen. lia.
Qed.

Lemma knn_filter_spec_bd le_r (pts : cloudR) k :
  (S k <= length pts)%nat -> (forall p, In p pts -> length (knn_nbhd d k pts p) = S k) ->
  knn_filter_gen d le_r pts k None = Some (map (fun p => vmean (length p) (knn_nbhd d k pts p)) pts).
Proof.
  intros Hk Hb. rewrite knn_filter_none_eq by auto. f_equal.
  apply map_ext_in. intros p Hp. apply vmean_perm, knn_sel_nbhd_bd; auto.
Qed.

(* the radius branch, ALL inputs: the rows of the no-radius output at the positions of the points
   with at least k others within the radius *)
Lemma knn_filter_gen_radius le_r (pts : cloudR) k r :
  knn_filter_gen d le_r pts k (Some r) =
  option_map (fun out => mask_select out
                (map (fun p => (Z.of_nat k <=? countZ (fun m => le_r m r) (map (d p) pts) - 1)%Z) pts))
             (knn_filter_gen d le_r pts k None).
Proof. unfold knn_filter_gen. destruct (knn_means d pts k); reflexivity. Qed.

Lemma knn_nbhd_sep (pts : cloudR) k p q q' :
  In q (knn_nbhd d k pts p) -> In q' pts -> ~ In q' (knn_nbhd d k pts p) -> d p q < d p q'.
Proof.
  intros Hq Hq' Hn. unfold knn_nbhd in *. apply filter_In in Hq. destruct Hq as [_ Hq].
  apply Nat.ltb_lt in Hq.
  assert (Hr : (S k <= rank (d p) pts q')%nat).
  { destruct (Nat.le_gt_cases (S k) (rank (d p) pts q')); auto.
    exfalso. apply Hn. apply filter_In. split; auto. now apply Nat.ltb_lt. }
  destruct (Rlt_le_dec (d p q) (d p q')) as [|Hle]; auto.
  exfalso. assert (rank (d p) pts q' <= rank (d p) pts q)%nat; [|lia].
  unfold rank. clear - Hle. induction pts as [|y pts IH]; cbn; auto.
  destruct (Rltb (d p y) (d p q')) eqn:E1.
  - apply Rltb_true in E1.
    replace (Rltb (d p y) (d p q)) with true by (symmetry; apply Rltb_true; lra).
    cbn. lia.
  - destruct (Rltb (d p y) (d p q)); cbn; lia.
Qed.
End KnnBoundary.

(* ---- on the model's knn_filter, true norm *)
Lemma nbhd_len_Rpdist o pd k (pts : cloudR) p :
  length (knn_nbhd (Rpdist o pd) k pts p) = length (knn_nbhd (pdist o pd) k pts p).
Proof. now rewrite knn_nbhd_Rpdist. Qed.

Lemma keep_mask_eq o pd (pts : cloudR) k r :
  map (fun p => (Z.of_nat k <=? countZ (fun m => meas_le o m r) (map (pdist o pd p) pts) - 1)%Z) pts
  = map (nbr_keep o pd pts (Z.of_nat k) r) pts.
Proof. apply map_ext. intros p. unfold nbr_keep, nbr_count. now rewrite countZ_map. Qed.

(* radius branch = nbr_filter's mask applied to the no-radius output -- every input *)
Lemma knn_filter_radius_decomp o pd (pts : cloudR) k r :
  knn_filter o pd pts k (Some r) =
  option_map (fun out => mask_select out (map (nbr_keep o pd pts (Z.of_nat k) r) pts))
             (knn_filter o pd pts k None).
Proof. unfold knn_filter. rewrite knn_filter_gen_radius. now rewrite keep_mask_eq. Qed.

Lemma knn_filter_spec_bd_R o pd (pts : cloudR) k radius :
  (S k <= length pts)%nat ->
  (forall p, In p pts -> length (knn_nbhd (Rpdist o pd) k pts p) = S k) ->
  knn_filter o pd pts k radius =
  Some (map (fun p => vmean (length p) (knn_nbhd (Rpdist o pd) k pts p))
            (match radius with None => pts | Some r => filter (nbr_keep o pd pts (Z.of_nat k) r) pts end)).
Proof.
  intros Hk Hb.
  assert (E : knn_filter o pd pts k None =
              Some (map (fun p => vmean (length p) (knn_nbhd (Rpdist o pd) k pts p)) pts)).
  { unfold knn_filter. rewrite knn_filter_spec_bd; auto.
    - f_equal. apply map_ext. intros p. now rewrite knn_nbhd_Rpdist.
    - intros p Hp. rewrite <- nbhd_len_Rpdist. auto. }
  destruct radius as [r|]; auto.
  rewrite knn_filter_radius_decomp, E. cbn [option_map]. f_equal. apply mask_select_map2.
Qed.

(* the neighbourhood: always contains p and at least k+1 points, is strictly closer to p than
   everything outside *)
Lemma Rpdist_self_min o pd (p q : vecR) : Rpdist o pd p p <= Rpdist o pd p q.
Proof.
  unfold Rpdist, Rdist. destruct o; rewrite dmeas_self; try apply dmeas_nonneg.
  rewrite sqrt_0. apply sqrt_pos.
Qed.
Lemma knn_nbhd_props_bd o pd (pts : cloudR) k p :
  (S k <= length pts)%nat -> In p pts ->
  (S k <= length (knn_nbhd (Rpdist o pd) k pts p))%nat /\ In p (knn_nbhd (Rpdist o pd) k pts p) /\
  (forall q q', In q (knn_nbhd (Rpdist o pd) k pts p) -> In q' pts -> ~ In q' (knn_nbhd (Rpdist o pd) k pts p) ->
                Rpdist o pd p q < Rpdist o pd p q').
Proof.
  intros Hk Hp. split; [now apply knn_nbhd_length_ge|]. split.
  - apply knn_nbhd_self; auto. apply Rpdist_self_min.
  - intros q q'. apply knn_nbhd_sep.
Qed.

(* the old hypothesis (pairwise different distances in the row) implies the boundary one *)
Lemma nodup_implies_bd o pd (pts : cloudR) k p :
  (S k <= length pts)%nat -> NoDup (map (Rpdist o pd p) pts) ->
  length (knn_nbhd (Rpdist o pd) k pts p) = S k.
Proof. intros. now apply knn_nbhd_length. Qed.

(* permutation equivariance, both branches, boundary hypothesis only *)
Lemma knn_filter_perm_bd o pd (pts pts' : cloudR) k radius :
  (S k <= length pts)%nat ->
  (forall p, In p pts -> length (knn_nbhd (Rpdist o pd) k pts p) = S k) -> Permutation pts pts' ->
  exists out out', knn_filter o pd pts k radius = Some out /\
                   knn_filter o pd pts' k radius = Some out' /\ Permutation out out'.
Proof.
  intros Hk Hb HP. do 2 eexists. split; [apply knn_filter_spec_bd_R; auto|]. split.
  - apply knn_filter_spec_bd_R.
    + now rewrite <- (Permutation_length HP).
    + intros p Hp. rewrite <- (Permutation_length (knn_nbhd_perm _ pts pts' k p HP)).
      apply Hb. eapply Permutation_in; [apply Permutation_sym, HP | exact Hp].
  - rewrite (map_ext _ (fun p => vmean (length p) (knn_nbhd (Rpdist o pd) k pts' p)))
      by (intros p; apply vmean_perm, knn_nbhd_perm, HP).
    apply Permutation_map. destruct radius as [r|]; auto.
    rewrite (filter_ext _ _ (fun p => nbr_keep_perm o pd pts pts' (Z.of_nat k) r p HP)).
    now apply filter_perm.
Qed.

(* ties allowed, radius branch: every retained row is the mean of a selection satisfying the topk
   contract *)
Lemma Forall2_filter_map {A B} (P : A -> B -> Prop) (f : A -> bool) (g : A -> B) l :
  (forall x, P x (g x)) -> Forall2 P (filter f l) (map g (filter f l)).
Proof. intros H. apply Forall2_map_self. exact H. Qed.
Lemma knn_filter_radius_spec_ties o pd (pts : cloudR) k r : (S k <= length pts)%nat ->
  exists out, knn_filter o pd pts k (Some r) = Some out /\
    Forall2 (fun p row => exists res, topk_contract (map (pdist o pd p) pts) (S k) res /\
                row = vmean (length p) (map (fun j => nth j pts []) (map snd res)))
            (filter (nbr_keep o pd pts (Z.of_nat k) r) pts) out.
Proof.
  intros Hk. rewrite knn_filter_radius_decomp. unfold knn_filter.
  rewrite knn_filter_none_eq by auto. cbn [option_map]. rewrite mask_select_map2.
  eexists. split; [reflexivity|]. apply Forall2_map_self. intros p.
  eexists. split; [apply topk_sort_contract; now rewrite map_length | reflexivity].
Qed.

(* duplicates and ties away from the boundary are allowed by the boundary hypothesis *)
Example boundary_example :
  let pts := [[0]; [0]; [5]; [5]] in
  (forall p, In p pts -> length (knn_nbhd (Rpdist L1 1) 1 pts p) = 2%nat) /\
  ~ NoDup (map (Rpdist L1 1 [0]) pts).
Proof.
  assert (A : forall a b : R, Rpdist L1 1 [a] [b] = Rabs (a - b)).
  { intros. unfold Rpdist, Rdist, dmeas, vsubl, sumF. cbn. rewrite absF_R. apply Rplus_0_r. }
  assert (B0 : Rabs (0 - 0) = 0) by (rewrite Rminus_0_r; apply Rabs_R0).
  assert (B1 : Rabs (0 - 5) = 5) by (rewrite Rabs_left; lra).
  assert (B2 : Rabs (5 - 0) = 5) by (rewrite Rabs_right; lra).
  assert (B3 : Rabs (5 - 5) = 0) by (replace (5 - 5) with 0 by lra; apply Rabs_R0).
  assert (T : Rltb 0 5 = true) by (apply Rltb_true; lra).
  assert (F1 : Rltb 5 0 = false) by (apply Rltb_false; lra).
  assert (F2 : Rltb 0 0 = false) by (apply Rltb_false; lra).
  assert (F3 : Rltb 5 5 = false) by (apply Rltb_false; lra).
  cbv zeta. split.
  - intros p [<-|[<-|[<-|[<-|[]]]]]; unfold knn_nbhd, rank; cbn [filter map];
      rewrite !A, ?B0, ?B1, ?B2, ?B3, ?T, ?F1, ?F2, ?F3; cbn; rewrite ?T, ?F1, ?F2, ?F3; reflexivity.
  - cbn [map]. rewrite !A, B0. intros H. inversion H as [|? ? Hn _]. apply Hn. now left.
Qed.

(* ====================================================================== topk contract: uniqueness without ties *)
Lemma contract_vals_nodup (row : vecR) (res : list (R * nat)) :
  NoDup row -> NoDup (map snd res) ->
  (forall v j, In (v, j) res -> (j < length row)%nat /\ v = nth j row 0) ->
  NoDup (map fst res).
Proof.
  intros Hrow. induction res as [|[v j] t IH]; intros Hnd Hval; cbn; constructor.
  - intros Hin. apply in_map_iff in Hin. destruct Hin as [[v' j'] [Hv Hin]]. cbn in Hv. subst v'.
    inversion Hnd as [|? ? Hnj _]; subst. apply Hnj.
    destruct (Hval v j (or_introl eq_refl)) as [Hj Hvj].
    destruct (Hval v j' (or_intror Hin)) as [Hj' Hvj'].
    assert (j = j').
    { apply (proj1 (NoDup_nth row 0) Hrow); auto. congruence. }
    subst j'. apply in_map_iff. exists (v, j). auto.
  - apply IH; [now inversion Hnd | intros; apply Hval; now right].
Qed.

Lemma contract_incl (row : vecR) k (res res' : list (R * nat)) :
  NoDup row -> topk_contract row k res -> topk_contract row k res' -> incl res res'.
Proof.
  intros Hrow [Hl [Hnd [Hval [_ Hmin]]]] [Hl' [Hnd' [Hval' [_ Hmin']]]] [v j] Hin.
  destruct (Hval v j Hin) as [Hj Hv].
  destruct (in_dec Nat.eq_dec j (map snd res')) as [Hj'|Hnj'].
  - apply in_map_iff in Hj'. destruct Hj' as [[v' j'] [E Hin']]. cbn in E. subst j'.
    destruct (Hval' v' j Hin') as [_ Hv']. congruence.
  - exfalso.
    assert (Hincl : incl (j :: map snd res') (map snd res)).
    { intros i [<-|Hi].
      - apply in_map_iff. exists (v, j). auto.
      - destruct (in_dec Nat.eq_dec i (map snd res)) as [|Hni]; auto. exfalso.
        apply in_map_iff in Hi. destruct Hi as [[v' i'] [E Hin']]. cbn in E. subst i'.
        destruct (Hval' v' i Hin') as [Hi Hv'].
        pose proof (Hmin' v' i j Hin' Hj Hnj') as H1.
        pose proof (Hmin v j i Hin Hi Hni) as H2.
        assert (i = j).
        { apply (proj1 (NoDup_nth row 0) Hrow); auto. lra. }
        subst i. apply Hnj'. apply in_map_iff. exists (v', j). auto. }
    assert (Hnd2 : NoDup (j :: map snd res')) by (constructor; auto).
    pose proof (NoDup_incl_length Hnd2 Hincl) as Hle. cbn in Hle. rewrite !map_length in Hle. lia.
Qed.

Lemma topk_contract_unique (row : vecR) k (res res' : list (R * nat)) :
  NoDup row -> topk_contract row k res -> topk_contract row k res' -> res = res'.
Proof.
  intros Hrow C C'.
  pose proof (contract_incl row k res res' Hrow C C') as I1.
  pose proof (contract_incl row k res' res Hrow C' C) as I2.
  destruct C as [Hl [Hnd [Hval [Hs _]]]]. destruct C' as [Hl' [Hnd' [Hval' [Hs' _]]]].
  apply (sorted_strict_unique (fun a b : R * nat => fst a < fst b)).
  - intros a. lra.
  - intros a b c. lra.
  - apply (StronglySorted_unmap Rlt). apply sorted_le_nodup_lt; auto.
    apply (contract_vals_nodup row); auto.
  - apply (StronglySorted_unmap Rlt). apply sorted_le_nodup_lt; auto.
    apply (contract_vals_nodup row); auto.
  - intros x. split; [apply I1 | apply I2].
Qed.

(* ---- the contract is equivariant: a selection for the permuted row, with its indices mapped
   through the permutation, is a selection for the original row (ties allowed) *)
Lemma nth_sigma_nodup (sigma l : list nat) :
  NoDup sigma -> NoDup l -> (forall i, In i l -> (i < length sigma)%nat) ->
  NoDup (map (fun i => nth i sigma 0%nat) l).
Proof.
  intros Hs. induction l as [|a l IH]; intros Hl Hlt; cbn; constructor.
  - intros Hin. apply in_map_iff in Hin. destruct Hin as [b [E Hb]].
    inversion Hl as [|? ? Hna _]; subst. apply Hna.
    assert (b = a); [|now subst].
    apply (proj1 (NoDup_nth sigma 0%nat) Hs); auto; apply Hlt; [now right | now left].
  - apply IH; [now inversion Hl | intros; apply Hlt; now right].
Qed.

Lemma topk_contract_perm (row : vecR) (sigma : list nat) k (res' : list (R * nat)) :
  Permutation sigma (seq 0 (length row)) ->
  topk_contract (map (fun i => nth i row 0) sigma) k res' ->
  topk_contract row k (map (fun vj => (fst vj, nth (snd vj) sigma 0%nat)) res').
Proof.
  intros HP [Hl [Hnd [Hval [Hs Hmin]]]]. rewrite map_length in Hval, Hmin.
  assert (Hsl : length sigma = length row) by (rewrite (Permutation_length HP); apply seq_length).
  assert (Hsnd : NoDup sigma) by (eapply Permutation_NoDup; [apply Permutation_sym, HP | apply seq_NoDup]).
  assert (Hsin : forall i, In i sigma <-> (i < length row)%nat).
  { intros i. split; intros H.
    - apply (Permutation_in _ HP) in H. apply in_seq in H. lia.
    - apply (Permutation_in _ (Permutation_sym HP)). apply in_seq. lia. }
  assert (Hnth : forall m, (m < length sigma)%nat ->
             nth m (map (fun i => nth i row 0) sigma) 0 = nth (nth m sigma 0%nat) row 0).
  { intros m Hm. now rewrite (nth_map' _ 0%nat). }
  split; [|split; [|split; [|split]]].
  - now rewrite map_length.
  - rewrite map_map. cbn [snd]. rewrite <- (map_map snd (fun i => nth i sigma 0%nat)).
    apply nth_sigma_nodup; auto. intros i Hi. apply in_map_iff in Hi.
    destruct Hi as [[v j] [<- Hin]]. cbn. now apply Hval in Hin.
  - intros v j Hin. apply in_map_iff in Hin. destruct Hin as [[v' j'] [E Hin]]. cbn in E.
    inversion E; subst. destruct (Hval v j' Hin) as [Hj' Hv]. split.
    + apply Hsin. now apply nth_In.
    + now rewrite Hv, Hnth.
  - rewrite map_map. cbn [fst]. exact Hs.
  - intros v j j'' Hin Hj'' Hnot. apply in_map_iff in Hin. destruct Hin as [[v' j'] [E Hin]]. cbn in E.
    inversion E; subst. apply Hsin in Hj''. destruct (In_nth _ _ 0%nat Hj'') as [m [Hm Em]].
    rewrite <- Em, <- Hnth by auto. apply (Hmin v j' m Hin Hm).
    intros Hmi. apply Hnot. rewrite map_map. cbn [snd].
    apply in_map_iff in Hmi. destruct Hmi as [[w m'] [E' Hw]]. cbn in E'. subst m'.
    apply in_map_iff. exists (w, m). auto.
Qed.

(* knn on a permuted neighbour cloud, no ties: same distances, the returned indices are the
   pre-images under the permutation of the original ones *)
Lemma knn_index_equivariant (d : vecR -> vecR -> R) (ref nbr : cloudR) (sigma : list nat) k :
  Permutation sigma (seq 0 (length nbr)) -> (k <= length nbr)%nat ->
  (forall r, In r ref -> NoDup (map (d r) nbr)) ->
  exists res res', knn_gen d ref nbr k = Some res /\
    knn_gen d ref (map (fun i => nth i nbr []) sigma) k = Some res' /\
    Forall2 (fun row row' => row = map (fun vj => (fst vj, nth (snd vj) sigma 0%nat)) row') res res'.
Proof.
  intros HP Hk Hnd.
  assert (Hsl : length sigma = length nbr) by (rewrite (Permutation_length HP); apply seq_length).
  set (nbr' := map (fun i => nth i nbr []) sigma).
  assert (Hk' : (k <= length nbr')%nat) by (unfold nbr'; now rewrite map_length, Hsl).
  destruct (proj1 (knn_spec d ref nbr k) Hk) as [res [E C]].
  destruct (proj1 (knn_spec d ref nbr' k) Hk') as [res' [E' C']].
  exists res, res'. split; auto. split; auto.
  clear E E'. revert res' C'. induction C as [|r row ref res Hc _ IH]; intros res' C'; inversion C'; subst; constructor.
  - apply (topk_contract_unique (map (d r) nbr) k); auto.
    + apply Hnd. now left.
    + apply topk_contract_perm; [now rewrite map_length|].
      replace (map (fun i => nth i (map (d r) nbr) 0) sigma) with (map (d r) nbr'); auto.
      unfold nbr'. rewrite map_map. apply map_ext_in. intros i Hi.
      apply (Permutation_in _ HP) in Hi. apply in_seq in Hi.
      symmetry. apply nth_map'. lia.
  - apply IH; auto. intros; apply Hnd; now right.
Qed.

(* row-wise equivariance of knn_filter (both branches, boundary hypothesis): on a permuted cloud
   the output row of a point is the same function of that point, and the same points are
   retained -- so the output is permuted exactly like the input *)
Lemma knn_filter_equiv_bd o pd (pts pts' : cloudR) k radius :
  (S k <= length pts)%nat ->
  (forall p, In p pts -> length (knn_nbhd (Rpdist o pd) k pts p) = S k) -> Permutation pts pts' ->
  knn_filter o pd pts' k radius =
  Some (map (fun p => vmean (length p) (knn_nbhd (Rpdist o pd) k pts p))
            (match radius with None => pts' | Some r => filter (nbr_keep o pd pts (Z.of_nat k) r) pts' end)).
Proof.
  intros Hk Hb HP. rewrite knn_filter_spec_bd_R.
  - f_equal.
    rewrite (map_ext _ (fun p => vmean (length p) (knn_nbhd (Rpdist o pd) k pts p)))
      by (intros p; apply vmean_perm, knn_nbhd_perm, Permutation_sym, HP).
    f_equal. destruct radius as [r|]; auto.
    apply filter_ext. intros p. apply nbr_keep_perm, Permutation_sym, HP.
  - now rewrite <- (Permutation_length HP).
  - intros p Hp. rewrite <- (Permutation_length (knn_nbhd_perm _ pts pts' k p HP)).
    apply Hb. eapply Permutation_in; [apply Permutation_sym, HP | exact Hp].
Qed.

Example knn_index_example :
  forall r, In r [[0]] -> NoDup (map (Rdist L1 r) [[1]; [3]]).
Proof.
  intros r [<-|[]]. unfold Rdist, dmeas, vsubl, sumF. cbn. rewrite !absF_R.
  replace (0 - 1) with (-1) by lra. replace (0 - 3) with (-3) by lra.
  rewrite !Rabs_left by lra.
  constructor; [|constructor; [intros []|constructor]]. intros [H|[]]. lra.
Qed.
