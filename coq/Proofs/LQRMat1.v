(* C14, arbitrary state / input dimensions: the algebra of one step of the Riccati recursion.
   Bilinear forms over Base/Mat.v and the "completion of the square" for block quadratic functions
       Phi(dx, du) = gx.dx + gu.du + 1/2 [dx du] [[Hxx Hxu] [Hux Huu]] [dx du]^T
   with the gains of lqr.py:  Huu K = -Hux,  Huu k = -gu,
       V = Hxx + Hxu K + K^T Hux + K^T Huu K,   v = gx + Hxu k + K^T gu + (K^T Huu) k. *)
From Coq Require Import ZArith List Arith Lia Reals Lra.
Import ListNotations.
From PV Require Import Base.Num Base.Mat.
#[local] Remove Hints NumQ NumZ : typeclass_instances.
Local Open Scope R_scope.

Definition bil (M : matR) (x y : list R) : R := vdot x (mapply M y).

Lemma length_vzero n : length (vzero (F:=R) n) = n. Proof. apply length_mkvec. Qed.

#[global] Hint Resolve length_vzero : len.
Lemma len_vplus n (u v : list R) : length u = n -> length (vplus u v) = n.
Proof. intros. now rewrite length_vplus. Qed.
Lemma len_vminus n (u v : list R) : length u = n -> length (vminus u v) = n.
Proof. intros. now rewrite length_vminus. Qed.
Lemma len_vscal n a (v : list R) : length v = n -> length (vscal a v) = n.
Proof. intros. now rewrite length_vscal. Qed.
Lemma len_mapply n m (A : matR) v : wf n m A -> length (mapply A v) = n.
Proof. apply length_mapply. Qed.
#[global] Hint Resolve len_vplus len_vminus len_vscal : len.
#[global] Hint Extern 2 (length (mapply _ _) = _) => (eapply len_mapply; eauto with wf) : len.
#[global] Hint Extern 1 (wf _ _ _) => (eauto with wf) : len.
Ltac len := solve [eauto 8 with len wf | symmetry; eauto 8 with len wf].

(* ---------- vector identities *)
Lemma vplus_vminus_cancel n (x xb : list R) : length x = n -> length xb = n -> vplus xb (vminus x xb) = x.
Proof.
  intros Hx Hb. apply (vec_ext n); [len|assumption|]. intros i Hi.
  rewrite vget_vplus by lia. rewrite vget_vminus by lia. mnum. lra.
Qed.
Lemma vminus_vplus_cancel n (d ub : list R) : length d = n -> length ub = n -> vminus (vplus d ub) ub = d.
Proof.
  intros Hx Hb. apply (vec_ext n); [len|assumption|]. intros i Hi.
  rewrite vget_vminus by (rewrite length_vplus; lia). rewrite vget_vplus by lia. mnum. lra.
Qed.
Lemma vplus_comm n (a b : list R) : length a = n -> length b = n -> vplus a b = vplus b a.
Proof.
  intros Ha Hb. apply (vec_ext n); [len|len|]. intros i Hi. rewrite !vget_vplus by lia. mnum. lra.
Qed.
Lemma vget_zero_all n (e : list R) : length e = n -> ~ nonzero e -> e = vzero n.
Proof.
  intros He Hn. apply (vec_ext n); [assumption|len|]. intros i Hi.
  unfold vzero. rewrite vget_mkvec by assumption. mnum.
  destruct (Req_dec (vget e i) 0) as [|Hne]; [assumption|]. exfalso. apply Hn. exists i. split; [lia|assumption].
Qed.
Lemma vminus_zero_eq n (a b : list R) : length a = n -> length b = n -> vminus a b = vzero n -> a = b.
Proof.
  intros Ha Hb H. apply (vec_ext n); [assumption|assumption|]. intros i Hi.
  assert (E : vget (vminus a b) i = vget (vzero (F:=R) n) i) by now rewrite H.
  rewrite vget_vminus in E by lia. unfold vzero in E. rewrite vget_mkvec in E by assumption. mnum. lra.
Qed.

Lemma mapply_vscal n m (A : matR) a v : wf n m A -> length v = m -> mapply A (vscal a v) = vscal a (mapply A v).
Proof.
  intros HA Hv. apply (vec_ext n); [len|len|]. intros i Hi.
  rewrite vget_vscal by (rewrite (length_mapply n m) by assumption; lia).
  rewrite !(vget_mapply n m) by assumption. mnum. rewrite <- sumn_scal_l.
  apply sumn_ext. intros k Hk. rewrite vget_vscal by lia. mnum. lra.
Qed.
Lemma vdot_vscal_l a (u v : list R) : vdot (vscal a u) v = a * vdot u v.
Proof.
  unfold vdot. rewrite length_vscal. rewrite <- sumn_scal_l. apply sumn_ext. intros k Hk.
  rewrite vget_vscal by lia. mnum. lra.
Qed.

Lemma vdot_comm' n (u v : list R) : length u = n -> length v = n -> vdot u v = vdot v u.
Proof. intros. apply vdot_comm. congruence. Qed.

Lemma vdot_vplus_l' n (u v x : list R) : length u = n -> length v = n -> vdot (vplus u v) x = vdot u x + vdot v x.
Proof. intros. apply vdot_vplus_l. congruence. Qed.
Lemma vdot_vplus_r' n (u v x : list R) : length u = n -> length v = n -> vdot u (vplus v x) = vdot u v + vdot u x.
Proof. intros. apply vdot_vplus_r. congruence. Qed.
Lemma vdot_vminus_r' n (u v x : list R) : length u = n -> length v = n -> vdot u (vminus v x) = vdot u v - vdot u x.
Proof. intros. apply vdot_vminus_r. congruence. Qed.

(* ---------- bilinear forms *)
Section Bil.
Variables n m : nat.
Implicit Types M : matR.

Lemma bil_plus_l M a b y : length a = n -> length b = n -> bil M (vplus a b) y = bil M a y + bil M b y.
Proof. intros H1 H2. unfold bil. apply vdot_vplus_l. congruence. Qed.
Lemma bil_minus_l M a b y : length a = n -> length b = n -> bil M (vminus a b) y = bil M a y - bil M b y.
Proof. intros H1 H2. unfold bil. apply vdot_vminus_l. congruence. Qed.
Lemma bil_plus_r M x a b : wf n m M -> length x = n -> length a = m -> length b = m ->
  bil M x (vplus a b) = bil M x a + bil M x b.
Proof.
  intros HM Hx Ha Hb. unfold bil. rewrite (mapply_vplus n m) by assumption.
  apply vdot_vplus_r. rewrite (length_mapply n m) by assumption. now symmetry.
Qed.
Lemma bil_minus_r M x a b : wf n m M -> length x = n -> length a = m -> length b = m ->
  bil M x (vminus a b) = bil M x a - bil M x b.
Proof.
  intros HM Hx Ha Hb. unfold bil. rewrite (mapply_vminus n m) by assumption.
  apply vdot_vminus_r. rewrite (length_mapply n m) by assumption. now symmetry.
Qed.
Lemma bil_scal_r M x a y : wf n m M -> length x = n -> length y = m -> bil M x (vscal a y) = a * bil M x y.
Proof.
  intros HM Hx Hy. unfold bil. rewrite (mapply_vscal n m) by assumption.
  apply vdot_vscal_r. rewrite (length_mapply n m) by assumption. now symmetry.
Qed.
Lemma bil_madd M N x y : wf n m M -> wf n m N -> length x = n -> bil (madd M N) x y = bil M x y + bil N x y.
Proof.
  intros HM HN Hx. unfold bil. rewrite (mapply_madd n m) by assumption.
  apply vdot_vplus_r. rewrite (length_mapply n m) by assumption. now symmetry.
Qed.
Lemma bil_mscale a M x y : wf n m M -> length x = n -> bil (mscale a M) x y = a * bil M x y.
Proof.
  intros HM Hx. unfold bil. rewrite (mapply_mscale n m) by assumption.
  apply vdot_vscal_r. rewrite (length_mapply n m) by assumption. now symmetry.
Qed.
Lemma bil_mtr M x y : wf n m M -> length x = m -> length y = n -> bil (mtr M) x y = bil M y x.
Proof.
  intros HM Hx Hy. unfold bil. rewrite (vdot_adjoint n m M y x) by assumption.
  apply vdot_comm. rewrite (length_mapply m n) by eauto with wf. assumption.
Qed.
Lemma vdot_mapply_l M a b : wf n m M -> length b = n -> vdot (mapply M a) b = bil M b a.
Proof. intros HM Hb. unfold bil. apply vdot_comm. rewrite (length_mapply n m) by assumption. now symmetry. Qed.
(* (M^T a) . b = a . (M b) *)
Lemma vdot_mtr_l M a b : wf n m M -> length a = n -> length b = m -> vdot (mapply (mtr M) a) b = bil M a b.
Proof. intros HM Ha Hb. unfold bil. symmetry. now apply (vdot_adjoint n m). Qed.
End Bil.

Lemma bil_mmul n p m (A B : matR) x y : wf n p A -> wf p m B -> bil (mmul A B) x y = bil A x (mapply B y).
Proof. intros HA HB. unfold bil. now rewrite (mapply_mmul n p m). Qed.
(* x^T (A^T P B) y = (A x)^T P (B y) *)
Lemma bil_sandwich N n m (A P B : matR) x y : wf N n A -> wf N N P -> wf N m B -> length x = n -> length y = m ->
  bil (mmul (mmul (mtr A) P) B) x y = bil P (mapply A x) (mapply B y).
Proof.
  intros HA HP HB Hx Hy. rewrite (bil_mmul n N m) by len. unfold bil.
  rewrite (mapply_mmul n N N) by len. rewrite (vdot_adjoint n N (mtr A)) by len.
  now rewrite (mtr_mtr N n).
Qed.
Lemma bil_sym n (P : matR) u v : wf n n P -> msym P -> length u = n -> length v = n -> bil P u v = bil P v u.
Proof. intros. unfold bil. now apply (vdot_msym n). Qed.
Lemma bil_zero_r n m (M : matR) x : wf n m M -> length x = n -> bil M x (vzero m) = 0.
Proof.
  intros HM Hx. unfold bil, vdot. apply sumn_zero. intros k Hk. rewrite Hx in Hk.
  rewrite (vget_mapply n m) by assumption. mnum.
  rewrite sumn_zero; [lra|]. intros j Hj. unfold vzero. rewrite vget_mkvec by assumption. mnum. lra.
Qed.
Lemma bil_zero_l n m (M : matR) y : wf n m M -> bil M (vzero n) y = 0.
Proof.
  intros HM. unfold bil, vdot. apply sumn_zero. intros k Hk. rewrite length_vzero in Hk.
  unfold vzero. rewrite vget_mkvec by assumption. mnum. lra.
Qed.
Lemma vdot_zero_r n (x : list R) : length x = n -> vdot x (vzero n) = 0.
Proof.
  intros Hx. unfold vdot. apply sumn_zero. intros k Hk. unfold vzero. rewrite vget_mkvec by lia. mnum. lra.
Qed.

(* expand sums inside vdot / bil, vectors of the two lengths ns, nc *)
Ltac bexp ns nc := repeat first
 [ rewrite (bil_plus_l ns) by len | rewrite (bil_plus_l nc) by len
 | rewrite (bil_plus_r ns ns) by len | rewrite (bil_plus_r ns nc) by len
 | rewrite (bil_plus_r nc ns) by len | rewrite (bil_plus_r nc nc) by len
 | rewrite (vdot_vplus_l' ns) by len | rewrite (vdot_vplus_l' nc) by len
 | rewrite (vdot_vplus_r' ns) by len | rewrite (vdot_vplus_r' nc) by len ].

(* ====================================================================== one Riccati step *)
Section Step.
Variables ns nc : nat.
Variables (Hxx Hxu Hux Huu : matR) (gx gu : list R).
Hypothesis Wxx : wf ns ns Hxx.
Hypothesis Wxu : wf ns nc Hxu.
Hypothesis Wux : wf nc ns Hux.
Hypothesis Wuu : wf nc nc Huu.
Hypothesis Lgx : length gx = ns.
Hypothesis Lgu : length gu = nc.
Hypothesis Sxx : msym Hxx.
Hypothesis Suu : msym Huu.
Hypothesis Sux : Hux = mtr Hxu.

(* the joint quadratic form and the quadratic function *)
Definition jform (dx du : list R) : R :=
  bil Hxx dx dx + bil Hxu dx du + bil Hux du dx + bil Huu du du.
Definition Phi (dx du : list R) : R := vdot gx dx + vdot gu du + 1 / 2 * jform dx du.

(* the gains as lqr.py forms them from the two cholesky_solve results X (matrix) and y (vector) *)
Variables (X : matR) (y : list R).
Hypothesis WX : wf nc ns X.
Hypothesis Ly : length y = nc.
Hypothesis SX : mmul Huu X = Hux.
Hypothesis Sy : mapply Huu y = gu.
Definition gK : matR := mscale (-1) X.
Definition gk : list R := vscal (-1) y.
Definition gV : matR := madd (madd (madd Hxx (mmul Hxu gK)) (mmul (mtr gK) Hux)) (mmul (mmul (mtr gK) Huu) gK).
Definition gv : list R :=
  vplus (vplus (vplus gx (mapply Hxu gk)) (mapply (mtr gK) gu)) (mapply (mmul (mtr gK) Huu) gk).

Lemma WK : wf nc ns gK. Proof. unfold gK. len. Qed.
Lemma Lk : length gk = nc. Proof. unfold gk. len. Qed.
Lemma WV : wf ns ns gV. Proof. pose proof WK. unfold gV. len. Qed.
Lemma Lv : length gv = ns. Proof. unfold gv. len. Qed.
Hint Resolve WK Lk WV Lv : len.

Lemma bil_ux_xu a b : length a = nc -> length b = ns -> bil Hux a b = bil Hxu b a.
Proof. intros Ha Hb. rewrite Sux. now apply (bil_mtr ns nc). Qed.

(* Huu (K b) = - Hux b and Huu k = - gu, as bilinear facts *)
Lemma solve_K e b : length e = nc -> length b = ns -> bil Huu e (mapply gK b) = - bil Hux e b.
Proof.
  intros He Hb. rewrite <- (bil_mmul nc nc ns) by len. unfold gK.
  rewrite (mmul_mscale_r nc nc ns) by assumption. rewrite SX.
  rewrite (bil_mscale nc ns) by assumption. lra.
Qed.
Lemma solve_k e : length e = nc -> bil Huu e gk = - vdot gu e.
Proof.
  intros He. unfold gk. rewrite (bil_scal_r nc nc) by assumption. unfold bil. rewrite Sy.
  rewrite (vdot_comm e gu) by congruence. lra.
Qed.

(* the value of the closed loop: V, v as coded (no property of K, k is used besides shapes) *)
Lemma jform_closed dx : length dx = ns -> bil gV dx dx = jform dx (mapply gK dx).
Proof.
  intros Hd. pose proof WK as HK. unfold gV, jform.
  rewrite !(bil_madd ns ns) by len.
  rewrite (bil_mmul ns nc ns) by len.
  rewrite (bil_mmul ns nc ns (mtr gK) Hux) by len.
  rewrite (bil_mtr nc ns gK) by len.
  rewrite (bil_sandwich nc ns ns gK Huu gK) by len.
  rewrite (bil_ux_xu (mapply gK dx) dx) by len.
  assert (E : bil gK (mapply Hux dx) dx = bil Hxu dx (mapply gK dx)).
  { unfold bil at 1. rewrite (vdot_comm' nc (mapply Hux dx)) by len.
    change (bil Hux (mapply gK dx) dx = bil Hxu dx (mapply gK dx)). apply bil_ux_xu; len. }
  lra.
Qed.

Lemma Phi_closed dx : length dx = ns ->
  Phi dx (vplus (mapply gK dx) gk) =
  1 / 2 * bil gV dx dx + vdot gv dx + (vdot gu gk + 1 / 2 * bil Huu gk gk).
Proof.
  intros Hd. pose proof WK as HK. pose proof Lk as HLk.
  rewrite jform_closed by assumption.
  assert (Lw : length (mapply gK dx) = nc) by len.
  assert (Egv : vdot gv dx = vdot gx dx + bil Hxu dx gk + vdot gu (mapply gK dx) + bil Huu (mapply gK dx) gk).
  { unfold gv. rewrite !(vdot_vplus_l' ns) by len.
    rewrite (vdot_mapply_l ns nc Hxu gk dx) by assumption.
    rewrite (vdot_mtr_l nc ns gK gu dx) by assumption.
    rewrite (mapply_mmul ns nc nc) by len.
    rewrite (vdot_mtr_l nc ns gK (mapply Huu gk) dx) by len.
    unfold bil at 2 3. rewrite (vdot_comm' nc (mapply Huu gk) (mapply gK dx)) by len. reflexivity. }
  rewrite Egv. clear Egv. unfold Phi, jform. generalize dependent (mapply gK dx). intros w Lw.
  rewrite (vdot_vplus_r' nc gu w gk) by assumption.
  rewrite (bil_plus_r ns nc Hxu dx w gk) by assumption.
  rewrite (bil_plus_l nc Hux w gk dx) by assumption.
  rewrite (bil_plus_l nc Huu w gk) by assumption.
  rewrite !(bil_plus_r nc nc Huu) by assumption.
  pose proof (bil_ux_xu gk dx HLk Hd) as E1.
  pose proof (bil_sym nc Huu gk w Wuu Suu HLk Lw) as E2.
  lra.
Qed.

(* completion of the square: any other input differs by 1/2 e^T Huu e *)
Lemma Phi_square dx e : length dx = ns -> length e = nc ->
  Phi dx (vplus (vplus (mapply gK dx) gk) e) = Phi dx (vplus (mapply gK dx) gk) + 1 / 2 * bil Huu e e.
Proof.
  intros Hd He. pose proof WK as HK. pose proof Lk as HLk.
  assert (Lw : length (mapply gK dx) = nc) by len.
  assert (E3 : bil Huu e (vplus (mapply gK dx) gk) = - bil Hux e dx - vdot gu e).
  { rewrite (bil_plus_r nc nc Huu e (mapply gK dx) gk) by assumption.
    rewrite solve_K, solve_k by assumption. lra. }
  assert (Ld : length (vplus (mapply gK dx) gk) = nc) by len.
  clear Lw. generalize dependent (vplus (mapply gK dx) gk). intros d E3 Ld.
  unfold Phi, jform.
  rewrite (vdot_vplus_r' nc gu d e) by assumption.
  rewrite (bil_plus_r ns nc Hxu dx d e) by assumption.
  rewrite (bil_plus_l nc Hux d e dx) by assumption.
  rewrite (bil_plus_l nc Huu d e) by assumption.
  rewrite !(bil_plus_r nc nc Huu) by assumption.
  pose proof (bil_ux_xu e dx He Hd) as E1.
  pose proof (bil_sym nc Huu d e Wuu Suu Ld He) as E2.
  lra.
Qed.

(* V is symmetric *)
Lemma gV_sym : msym gV.
Proof.
  pose proof WK as HK. unfold msym, gV.
  rewrite !(mtr_madd ns ns) by len.
  rewrite (mtr_mmul ns nc ns) by len. rewrite (mtr_mmul ns nc ns (mtr gK) Hux) by len.
  rewrite (mtr_mmul ns nc ns (mmul (mtr gK) Huu) gK) by len.
  rewrite (mtr_mmul ns nc nc (mtr gK) Huu) by len.
  rewrite (mtr_mtr nc ns) by len. rewrite Sxx, Suu.
  replace (mtr Hxu) with Hux by exact Sux. replace (mtr Hux) with Hxu by (rewrite Sux; symmetry; apply (mtr_mtr ns nc); len).
  rewrite <- (mmul_assoc ns nc nc ns) by len.
  rewrite (madd_assoc ns ns Hxx) by len. rewrite (madd_comm ns ns (mmul (mtr gK) Hux)) by len.
  rewrite <- (madd_assoc ns ns Hxx) by len. reflexivity.
Qed.

(* V is positive semidefinite when the joint form is *)
Lemma gV_PSD : (forall dx du, length dx = ns -> length du = nc -> 0 <= jform dx du) -> PSD ns gV.
Proof.
  intros HJ dx Hd. change (qform gV dx) with (bil gV dx dx). rewrite jform_closed by assumption.
  apply HJ; [assumption|]. pose proof WK. len.
Qed.
End Step.
