(* More proofs for property C07:
   Part M (R): the linearised model J delta, parameter by parameter: the sum over the trainable parameters of
               (its modjac block) x (the slice update_parameter hands to it).
   Part N (R): the weight of a GN step enters squared: the normal equations of (W J, -W R) are
               J^T (W^T W) J delta = -J^T (W^T W) R, while LM's undamped system is J^T W J delta = -J^T W R;
               a witness where the two differ.
   Part O: the column-layout hypotheses on a concrete problem. *)
From Coq Require Import ZArith Reals Lra Lia List Arith Bool.
Import ListNotations.
From PV Require Import Base.Num Base.Mat Model.LieGroup Model.LieExp Model.Optim Proofs.Optim Proofs.Optim2 Proofs.Optim3 Proofs.Optim4.
#[local] Remove Hints NumQ NumZ : typeclass_instances.
Local Open Scope R_scope.

Lemma sumnat_app (a b : list nat) : sumnat (a ++ b) = (sumnat a + sumnat b)%nat.
Proof. unfold sumnat. induction a as [|x a IH]; cbn; [reflexivity|]. rewrite IH. lia. Qed.

Section ByParameter.
Notation param := (@param R).
Notation pdflt := (@pdflt R).

(* sum over the trainable parameters i and the positions c inside parameter i *)
Definition by_param (ps : list param) (g : nat -> nat -> R) : R :=
  sumn (length ps) (fun i => if preq (nth i ps pdflt) then sumn (pnumel (nth i ps pdflt)) (g i) else 0).

Lemma by_param_ext (ps : list param) g g' :
  (forall i c, (i < length ps)%nat -> preq (nth i ps pdflt) = true -> (c < pnumel (nth i ps pdflt))%nat -> g i c = g' i c) ->
  by_param ps g = by_param ps g'.
Proof.
  intros H. unfold by_param. apply sumn_ext. intros i Hi.
  destruct (preq (nth i ps pdflt)) eqn:E; [|reflexivity]. apply sumn_ext. intros c Hc. now apply H.
Qed.

Lemma toffset_app_lt (ps : list param) p i : (i <= length ps)%nat -> toffset (ps ++ [p]) i = toffset ps i.
Proof.
  intros Hi. unfold toffset. rewrite firstn_app. replace (i - length ps)%nat with 0%nat by lia.
  cbn [firstn]. now rewrite app_nil_r.
Qed.
Lemma toffset_all (ps : list param) : toffset ps (length ps) = sumnat (map (@pnumel R) (filter (@preq R) ps)).
Proof. unfold toffset. now rewrite firstn_all. Qed.

(* a sum over the entries of the step = the sum over the trainable parameters of the sums over their slices *)
Lemma sumn_by_param : forall (ps : list param) (f : nat -> R),
  sumn (sumnat (map (@pnumel R) (filter (@preq R) ps))) f = by_param ps (fun i c => f (toffset ps i + c)%nat).
Proof.
  induction ps as [|p ps IH] using rev_ind; intros f; [reflexivity|].
  unfold by_param. rewrite app_length. cbn [length]. rewrite Nat.add_1_r. cbn [sumn].
  rewrite app_nth2 by lia. rewrite Nat.sub_diag. cbn [nth].
  rewrite toffset_app_lt by lia. rewrite toffset_all.
  rewrite filter_app, map_app, sumnat_app.
  assert (Hpre : sumn (length ps)
            (fun i => if preq (nth i (ps ++ [p]) pdflt)
                      then sumn (pnumel (nth i (ps ++ [p]) pdflt)) (fun c => f (toffset (ps ++ [p]) i + c)%nat) else 0)
          = by_param ps (fun i c => f (toffset ps i + c)%nat)).
  { unfold by_param. apply sumn_ext. intros i Hi. rewrite app_nth1 by lia. rewrite toffset_app_lt by lia. reflexivity. }
  rewrite Hpre, <- IH. cbn [filter]. destruct (preq p); cbn [map sumnat fold_right add NumR].
  - rewrite Nat.add_0_r. apply sumn_split.
  - rewrite Nat.add_0_r. lra.
Qed.

(* MAIN: row r of J delta, parameter by parameter.  J = the flattened Jacobian of one residual (n elements),
   delta = a step with one entry per trainable parameter element: the predicted change of residual element r is
   the sum over the trainable parameters i of  (row r of modjac's block i) . (the slice update_parameter hands to
   parameter i) -- the split of the step and the column layout of the Jacobian agree, for any number of
   parameters, any sizes, frozen parameters anywhere *)
Lemma linear_model_by_parameter (Jr : list (list R)) (ps : list param) n (delta : list R) r :
  length Jr = length ps -> (0 < n)%nat ->
  (forall k, (k < length ps)%nat -> preq (nth k ps pdflt) = true ->
     (0 < pnumel (nth k ps pdflt))%nat /\ length (nth k Jr []) = (n * pnumel (nth k ps pdflt))%nat) ->
  (exists k, (k < length ps)%nat /\ preq (nth k ps pdflt) = true) ->
  (r < n)%nat ->
  vget (mapply (flatten_row_jacobian Jr ps) delta) r =
  by_param ps (fun i c => nth (r * pnumel (nth i ps pdflt) + c) (nth i Jr []) 0 * vget (slice_of ps i delta) c).
Proof.
  intros HL Hn Hblk Hex Hr.
  destruct (flatten_column_layout Jr ps n HL Hn Hblk Hex) as [Hwf Hlay].
  rewrite (vget_mapply n _ _ _ _ Hwf Hr). rewrite sumn_by_param. apply by_param_ext.
  intros i c Hi Hq Hc. cbn [mul NumR]. rewrite (Hlay r i c Hr Hi Hq Hc). f_equal.
  unfold vget. now rewrite slice_nth.
Qed.
End ByParameter.

(* ===================================================================================== *)
(*  Part N: the weight of a GN step enters squared                                        *)
(* ===================================================================================== *)
Section WeightSquared.
Implicit Types A J : @mat R.

Lemma mapply_vneg n m A (v : list R) : wf n m A -> length v = m -> mapply A (vneg v) = vneg (mapply A v).
Proof.
  intros HA Hv. apply (vec_ext n); [now apply (length_mapply n m) | rewrite length_vneg; now apply (length_mapply n m) |].
  intros i Hi. rewrite vget_vneg by (now rewrite (length_mapply n m)). rewrite !(vget_mapply n m) by assumption.
  cbn [mul NumR].
  transitivity (sumn m (fun k => -1 * (mget A i k * vget v k))).
  - apply sumn_ext. intros k Hk. rewrite vget_vneg by lia. ring.
  - rewrite (sumn_scal_l m (-1)). ring.
Qed.

(* the normal equations of the GN system (W J, -W R) in terms of J, R:  J^T (W^T W) J d = -J^T (W^T W) R *)
Lemma gn_normal_eq_weight_squared N m (W J : @mat R) (Rv D : list R) :
  wf N N W -> wf N m J -> length Rv = N -> length D = m ->
  mapply (mtr (mmul W J)) (mapply (mmul W J) D) = mapply (mtr (mmul W J)) (mapply (mneg W) Rv) ->
  mapply (mmul (mmul (mtr J) (mmul (mtr W) W)) J) D = vneg (mapply (mmul (mtr J) (mmul (mtr W) W)) Rv).
Proof.
  intros HW HJ HR HD H.
  assert (HJt : wf m N (mtr J)) by eauto with wf. assert (HWt : wf N N (mtr W)) by eauto with wf.
  rewrite (mtr_mmul N N m) in H by assumption.
  rewrite (mapply_mneg N N) in H by assumption.
  rewrite (mapply_vneg m N) in H by (eauto with wf; now apply (length_mapply N N)).
  rewrite <- (mapply_mmul m N m (mmul (mtr J) (mtr W)) (mmul W J)) in H by eauto with wf.
  rewrite <- (mapply_mmul m N N (mmul (mtr J) (mtr W)) W) in H by eauto with wf.
  rewrite <- (mmul_assoc m N N m (mmul (mtr J) (mtr W)) W J) in H by eauto with wf.
  rewrite (mmul_assoc m N N N (mtr J) (mtr W) W) in H by assumption.
  exact H.
Qed.

(* witness: two residual items r = (x + 1, x), weights (1, 2): GN's normal equations give the step -1/5 (the
   minimiser of sum w^2 r^2), LM's undamped, unclamped system J^T W J d = -J^T W R gives -1/3 (the minimiser of
   sum w r^2, the documented objective) *)
Definition sqJ : @mat R := [[1]; [1]].
Definition sqW : @mat R := [[1; 0]; [0; 2]].
Definition sqR : list R := [1; 0].
Lemma gn_lm_weight_witness (d : R) :
  (mapply (mtr (mmul sqW sqJ)) (mapply (mmul sqW sqJ) [d]) = mapply (mtr (mmul sqW sqJ)) (mapply (mneg sqW) sqR) -> d = -1/5) /\
  (mapply (mmul (mmul (mtr sqJ) sqW) sqJ) [d] = mapply (mneg (mmul (mtr sqJ) sqW)) sqR -> d = -1/3).
Proof.
  split; intros H;
    cbv [mapply mmul mtr mneg mscale sqJ sqW sqR mkmat mkvec mrows mcols map seq length sumn mget vget nth
         add mul zero one opp NumR] in H;
    injection H; intros; lra.
Qed.
End WeightSquared.

(* ===================================================================================== *)
(*  Part O: the hypotheses of the column-layout theorems on the weighted instance           *)
(* ===================================================================================== *)
Lemma wpb_layout_hyps (r0 r1 a1 a2 a3 b1 b2 b3 : R) :
  let pb := wpb r0 r1 a1 a2 a3 b1 b2 b3 in
  let Jr := [[1; 1]; [a1; a2; a3; 0; b1; b2; b3; 0]] in
  pbJ pb = [Jr] /\ length Jr = length (pbP pb) /\ (0 < 2)%nat /\
  (forall k, (k < length (pbP pb))%nat -> preq (nth k (pbP pb) pdflt) = true ->
     (0 < pnumel (nth k (pbP pb) pdflt))%nat /\ length (nth k Jr []) = (2 * pnumel (nth k (pbP pb) pdflt))%nat) /\
  (exists k, (k < length (pbP pb))%nat /\ preq (nth k (pbP pb) pdflt) = true) /\
  flatten_row_jacobian Jr (pbP pb) = [[1; a1; a2; a3; 0]; [1; b1; b2; b3; 0]] /\
  toffset (pbP pb) 1 = 1%nat.
Proof.
  cbv zeta. split; [reflexivity|]. split; [reflexivity|]. split; [lia|]. split; [|split; [|split; reflexivity]].
  - intros k Hk _. destruct k as [|[|k]]; cbn in Hk; try lia; cbn; split; lia.
  - exists 0%nat. cbn. split; [lia | reflexivity].
Qed.

(* ===================================================================================== *)
(*  Part P: a solver that satisfies a contract for ALL systems and answers a given one       *)
(* ===================================================================================== *)
Section PointSolver.
Definition vec_eq_dec : forall u v : list R, {u = v} + {u <> v} := list_eq_dec Req_EM_T.
Definition mat_eq_dec : forall A B : @mat R, {A = B} + {A <> B} := list_eq_dec vec_eq_dec.
(* answers x0 on the system (A0, b0), raises on every other system *)
Definition point_solver (A0 : @mat R) (b0 x0 : list R) (A : @mat R) (b : list R) : option (list R) :=
  if mat_eq_dec A A0 then if vec_eq_dec b b0 then Some x0 else None else None.
Lemma point_solver_hit A0 b0 x0 : point_solver A0 b0 x0 A0 b0 = Some x0.
Proof.
  unfold point_solver. destruct (mat_eq_dec A0 A0); [|congruence]. destruct (vec_eq_dec b0 b0); congruence.
Qed.
Lemma point_solver_contract (P : @mat R -> list R -> list R -> Prop) A0 b0 x0 : P A0 b0 x0 ->
  forall A b x, point_solver A0 b0 x0 A b = Some x -> P A b x.
Proof.
  intros H A b x. unfold point_solver. destruct (mat_eq_dec A A0); [|discriminate].
  destruct (vec_eq_dec b b0); [|discriminate]. intros E. inversion E; subst. exact H.
Qed.

(* GN: the weighted instance with a = b = 0: J = [[1 0 0 0 0] [1 0 0 0 0]], W = diag(2, 3); the least-squares
   (and minimum-norm) answer moves only the Euclidean scalar, by -(4 r0 + 9 r1) / 13 *)
Lemma wpb_full_instance corr gexp (r0 r1 : R) :
  let pb := wpb r0 r1 0 0 0 0 0 0 in
  let x0 := [- (4 * r0 + 9 * r1) / 13; 0; 0; 0; 0] in
  exists solver : @mat R -> list R -> option (list R),
    (forall A b x, solver A b = Some x -> mapply (mtr A) (mapply A x) = mapply (mtr A) b) /\
    exists o, gn_step corr gexp solver pb = Some o /\ tD o = x0.
Proof.
  intros pb x0.
  set (J := [[1; 0; 0; 0; 0]; [1; 0; 0; 0; 0]] : @mat R). set (W := [[2; 0]; [0; 3]] : @mat R).
  exists (point_solver (mmul W J) (mapply (mneg W) [r0; r1]) x0). split.
  - apply (point_solver_contract (fun A b x => mapply (mtr A) (mapply A x) = mapply (mtr A) b)).
    subst x0 J W.
    cbv [mapply mmul mtr mneg mscale mkmat mkvec mrows mcols map seq length sumn mget vget nth
         add mul zero one opp NumR].
    repeat (apply f_equal2; [field_simplify; try lra; reflexivity|]); reflexivity.
  - destruct (wpb_steps corr gexp (point_solver (mmul W J) (mapply (mneg W) [r0; r1]) x0) r0 r1 0 0 0 0 0 0
                        (- (4 * r0 + 9 * r1) / 13) 0 0 0 0) as (o & Ho & _); [apply point_solver_hit|].
    exists o. split; [exact Ho|].
    unfold gn_step, gn_step_gen in Ho. rewrite wpb_assemble in Ho. cbn [gn_system] in Ho.
    fold J W in Ho. rewrite point_solver_hit in Ho.
    destruct (update_parameter gexp (pbP (wpb r0 r1 0 0 0 0 0 0)) x0); inversion Ho; reflexivity.
Qed.

(* LM: free_pb with the active clamp, first trial: 4 x + y = -1, x + 4 y = -1 *)
Lemma lm_instance_first_system : mapply (lm_A lmA0 [1]) [-1/5; -1/5] = lm_b lmJT [1].
Proof.
  assert (Hw : wf 2 2 (lm_A lmA0 [1])).
  { apply wf_lm_A. unfold lmA0, lm_A0. apply wf_map_diag. apply lm_instance_JTJ. }
  assert (HJT : wf 2 1 lmJT) by (repeat split; cbn; try lia; repeat constructor).
  unfold lm_b. rewrite (mapply_mneg 2 1) by assumption.
  apply (vec_ext 2); [now apply (length_mapply 2 2) | reflexivity |].
  intros i Hi. rewrite (vget_mapply 2 2) by assumption. cbn [sumn].
  rewrite !lm_instance_entries by lia.
  destruct i as [|[|i]]; try lia;
    cbv [Nat.eqb prodR map fold_right vget nth vneg mapply lmJT lmJ mtr mkmat mkvec mrows mcols seq length sumn mget
         add mul zero opp NumR]; lra.
Qed.
Lemma lm_full_instance gexp :
  exists solver : @mat R -> list R -> option (list R),
    (forall A b x, solver A b = Some x -> mapply A x = b) /\
    exists o, lm_chain gexp solver lmA0 lmJT [1] [(1, pbP free_pb)] [o] /\ tD o = [-1/5; -1/5].
Proof.
  exists (point_solver (lm_A lmA0 [1]) (lm_b lmJT [1]) [-1/5; -1/5]). split.
  - apply (point_solver_contract (fun A b x => mapply A x = b)). exact lm_instance_first_system.
  - assert (HL : length [-1/5; -1/5] = sumnat (map (@pnumel R) (filter (@preq R) (pbP free_pb)))) by reflexivity.
    destruct (update_split gexp (pbP free_pb) _ HL) as (ps' & HU & _).
    exists {| tA := lm_A lmA0 [1]; tb := lm_b lmJT [1]; tD := [-1/5; -1/5]; tP := ps' |}.
    split; [|reflexivity]. cbn [lm_chain]. split; [|exact I].
    unfold lm_trial, lm_trial_gen. change (lm_damp 1 lmA0) with (lm_A lmA0 [1]).
    rewrite point_solver_hit. now rewrite HU.
Qed.
End PointSolver.

(* ===================================================================================== *)
(*  Part Q: when a GN step / an LM trial happens                                            *)
(* ===================================================================================== *)
Section Outcomes.
Variable corr : cid -> @tensor R -> @mat R -> @tensor R * @mat R.
Variable gexp : nat -> list R -> list R.
Variable solver : @mat R -> list R -> option (list R).

Lemma lm_trial_outcomes Aprev JT Rv lam (ps : list (@param R)) :
  let A := lm_damp lam Aprev in let b := lm_b JT Rv in
  let m := sumnat (map (@pnumel R) (filter (@preq R) ps)) in
  (lm_trial gexp solver Aprev JT Rv lam ps = TSolverFailed <-> solver A b = None) /\
  (lm_trial gexp solver Aprev JT Rv lam ps = TRaise <-> exists D, solver A b = Some D /\ length D <> m) /\
  (forall o, lm_trial gexp solver Aprev JT Rv lam ps = TDone o <->
     tA o = A /\ tb o = b /\ solver A b = Some (tD o) /\ length (tD o) = m /\
     update_parameter gexp ps (tD o) = Some (tP o)).
Proof.
  cbv zeta. unfold lm_trial, lm_trial_gen.
  destruct (solver (lm_damp lam Aprev) (lm_b JT Rv)) as [D|] eqn:ED.
  - destruct (update_parameter gexp ps D) as [ps'|] eqn:EU.
    + assert (HL : length D = sumnat (map (@pnumel R) (filter (@preq R) ps))) by (apply (update_returns_iff gexp); eauto).
      split; [split; discriminate|]. split.
      * split; [discriminate|]. intros [D' [E Hne]]. inversion E; subst. contradiction.
      * intros o. split.
        -- intros E. inversion E; subst; clear E. cbn. auto.
        -- intros (H1 & H2 & H3 & H4 & H5). destruct o as [oA ob oD oP]. cbn in *. inversion H3; subst.
           rewrite EU in H5. inversion H5; subst. reflexivity.
    + assert (HL : length D <> sumnat (map (@pnumel R) (filter (@preq R) ps))).
      { intros E. apply (update_returns_iff gexp) in E. destruct E as [ps' E]. congruence. }
      split; [split; discriminate|]. split.
      * split; [intros _; eauto | reflexivity].
      * intros o. split; [discriminate|]. intros (_ & _ & H3 & H4 & _). inversion H3; subst. contradiction.
  - split; [split; reflexivity|]. split.
    + split; [discriminate|]. intros [D [E _]]. discriminate.
    + intros o. split; [discriminate|]. intros (_ & _ & H3 & _). discriminate.
Qed.

Lemma gn_step_returns_iff (pb : @problem R) :
  (exists o, gn_step corr gexp solver pb = Some o) <->
  exists Rv W J D, assemble corr pb = Some (Rv, W, J) /\
    solver (fst (gn_system Rv W J)) (snd (gn_system Rv W J)) = Some D /\
    length D = sumnat (map (@pnumel R) (filter (@preq R) (pbP pb))).
Proof.
  split.
  - intros [o H]. destruct (gn_step_system corr gexp solver pb o H) as (Rv & W & J & Ha & HA & Hb & HD & HU).
    exists Rv, W, J, (tD o). split; [exact Ha|]. split.
    + rewrite <- HD. destruct W; cbn [gn_system fst snd]; now rewrite HA, Hb.
    + apply (update_returns_iff gexp). eauto.
  - intros (Rv & W & J & D & Ha & Hs & HL).
    destruct (gn_step_returns corr gexp solver pb Rv W J D Ha Hs HL) as (o & Ho & _). eauto.
Qed.
End Outcomes.

(* ===================================================================================== *)
(*  Part R: leading extents 1 of the weight are torch's broadcast too                       *)
(* ===================================================================================== *)
Lemma bidx_ones : forall (ones rest : list nat) t, Forall (fun w => w = 1%nat) ones -> bidx rest ones t = 0%nat.
Proof.
  induction ones as [|w ones IH]; intros rest t H; [destruct rest; reflexivity|].
  inversion H as [|? ? Hw H']; subst. destruct rest as [|r rest]; [reflexivity|].
  cbn [bidx Nat.eqb]. rewrite IH by assumption. lia.
Qed.
Lemma bidx_prefix_ones : forall (l ones rest : list nat) t, (0 < prodn l)%nat -> Forall (fun w => w = 1%nat) ones ->
  bidx (l ++ rest) (l ++ ones) t = (t mod prodn l)%nat.
Proof.
  induction l as [|a l IH]; intros ones rest t H Ho.
  - cbn [app prodn fold_right]. rewrite bidx_ones by assumption. now rewrite Nat.mod_1_r.
  - cbn [app bidx]. change (prodn (a :: l)) with (a * prodn l)%nat in *.
    assert (a <> 0 /\ prodn l <> 0)%nat as [Ha Hl] by nia.
    rewrite IH by (try assumption; lia). rewrite Nat.mod_mul_r by assumption.
    destruct (Nat.eqb a 1) eqn:E; [|reflexivity]. apply Nat.eqb_eq in E. subst a. now rewrite Nat.mod_1_r.
Qed.
(* weight batch shape 1*..*1*suf against residual batch shape pre ++ suf: torch's broadcast index is t mod |suf| *)
Lemma torch_bcast_index_leading_ones (pre suf : list nat) k t : (0 < prodn suf)%nat ->
  torch_bcast_index (pre ++ suf) (repeat 1%nat k ++ suf) t = (t mod prodn suf)%nat /\
  prodn (repeat 1%nat k ++ suf) = prodn suf.
Proof.
  intros H. split.
  - unfold torch_bcast_index. rewrite !rev_app_distr.
    rewrite bidx_prefix_ones; [now rewrite prodn_rev | now rewrite prodn_rev |].
    apply Forall_forall. intros w Hin. apply in_rev in Hin. now apply repeat_spec in Hin.
  - rewrite prodn_app. replace (prodn (repeat 1%nat k)) with 1%nat; [lia|].
    induction k as [|k IH]; [reflexivity|]. cbn [repeat]. change (prodn (1%nat :: repeat 1%nat k)) with (1 * prodn (repeat 1%nat k))%nat. lia.
Qed.
