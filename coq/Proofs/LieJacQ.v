(* C04: executable facts over Q about the modelled backward functions *)
From Coq Require Import ZArith QArith List Bool.
Import ListNotations.
From PV Require Import Base.Num Model.LieGroup Model.LieJac.
Close Scope Q_scope.

(* ---------- the AdjT backward before the repair was wrong for SE3 (gradient w.r.t. a) ----------
   AdjT(X, a) = Adj(X^-1) a is linear in a, so its exact gradient w.r.t. a for a cotangent g is
   g @ Adj(X^-1).  The old formula returned Adj(X) g. *)
Definition adjT_true_a_grad (g : nat) (X gz : list Q) : list Q := lvm gz (AdjM g (g_inv g X)) (adim g).
Lemma adjT_old_refuted_SE3 : exists X a gz : list Q,
  Qlist_eqb (snd (adjT_bwd_old 1 X a gz)) (adjT_true_a_grad 1 X gz) = false /\
  Qlist_eqb (snd (adjT_bwd 1 X a gz)) (adjT_true_a_grad 1 X gz) = true.
Proof.
  exists [1; 2; 3; 1#2; 1#2; 1#2; 1#2]%Q, [1; 1#2; -1; 1#4; 2; 1]%Q, [1; 2; 3; 4; 5; 6]%Q.
  split; vm_compute; reflexivity.
Qed.
