(* C19 (metrics): order of the error statistics, RPE invariance under left multiplication, zero
   statistics for identical trajectories, APE alignment invariance (relative to the svdstf
   contract), range and symmetry of the geodesic loss. *)
From Coq Require Import Reals Lra Psatz List ZArith Lia.
From Interval Require Import Tactic.
Import ListNotations.
From PV Require Import Base.Num Base.RTac Base.ListAux Model.LieGroup Model.LieExp Model.LieLog Model.Spline Model.Metric
  Proofs.LieGroup Proofs.LieExp Proofs.LieLog Proofs.Spline.
Local Open Scope R_scope.
#[local] Remove Hints NumQ NumZ : typeclass_instances.

(* ================================================================== statistics *)
Lemma maxF_l (a b : R) : a <= maxF a b.
Proof. unfold maxF. cbn. unfold Rltb. destruct (Rlt_dec a b); lra. Qed.
Lemma maxF_r (a b : R) : b <= maxF a b.
Proof. unfold maxF. cbn. unfold Rltb. destruct (Rlt_dec a b); lra. Qed.
Lemma minF_l (a b : R) : minF a b <= a.
Proof. unfold minF. cbn. unfold Rltb. destruct (Rlt_dec b a); lra. Qed.
Lemma minF_r (a b : R) : minF a b <= b.
Proof. unfold minF. cbn. unfold Rltb. destruct (Rlt_dec b a); lra. Qed.
Lemma minF_ge (a b c : R) : c <= a -> c <= b -> c <= minF a b.
Proof. unfold minF. cbn. unfold Rltb. destruct (Rlt_dec b a); lra. Qed.

Lemma lmax_ge l : forall (x : R), x <= lmax x l /\ forall y, In y l -> y <= lmax x l.
Proof.
  induction l as [|a l IH]; intros x; cbn [lmax fold_left]; [split; [lra|intros y []]|].
  destruct (IH (maxF x a)) as [H1 H2]. fold (lmax (maxF x a) l) in *. split.
  - pose proof (maxF_l x a). lra.
  - intros y [->|Hy]; [pose proof (maxF_r x y); lra|now apply H2].
Qed.
Lemma lmin_le l : forall (x : R), lmin x l <= x /\ forall y, In y l -> lmin x l <= y.
Proof.
  induction l as [|a l IH]; intros x; cbn [lmin fold_left]; [split; [lra|intros y []]|].
  destruct (IH (minF x a)) as [H1 H2]. fold (lmin (minF x a) l) in *. split.
  - pose proof (minF_l x a). lra.
  - intros y [->|Hy]; [pose proof (minF_r x y); lra|now apply H2].
Qed.
Lemma lmin_ge l : forall (x c : R), c <= x -> (forall y, In y l -> c <= y) -> c <= lmin x l.
Proof.
  induction l as [|a l IH]; intros x c Hx Hl; cbn [lmin fold_left]; [assumption|].
  fold (lmin (minF x a) l). apply IH; [apply minF_ge; [assumption|apply Hl; now left]|].
  intros y Hy. apply Hl. now right.
Qed.

Lemma lenF_R (l : list R) : lenF l = INR (length l).
Proof. unfold lenF. cbn. now rewrite <- INR_IZR_INZ. Qed.

Lemma lsum_ge (l : list R) m : (forall x, In x l -> m <= x) -> INR (length l) * m <= lsum l.
Proof.
  induction l as [|a l IH]; intros H; [cbn; lra|].
  change (lsum (a :: l)) with (a + lsum l). cbn [length]. rewrite S_INR.
  pose proof (H a ltac:(now left)). pose proof (IH ltac:(intros x Hx; apply H; now right)). lra.
Qed.
Lemma lsum_sq_le (l : list R) M : (forall x, In x l -> 0 <= x <= M) ->
  lsum (map (fun x => x * x) l) <= INR (length l) * (M * M).
Proof.
  induction l as [|a l IH]; intros H; [cbn; lra|].
  cbn [map length]. change (lsum (a * a :: map (fun x => x * x) l)) with (a * a + lsum (map (fun x => x * x) l)).
  rewrite S_INR. pose proof (H a ltac:(now left)) as Ha. pose proof (IH ltac:(intros x Hx; apply H; now right)).
  assert (a * a <= M * M) by (apply Rmult_le_compat; lra). lra.
Qed.
(* Cauchy-Schwarz against the constant vector, in the form used for RMSE >= Mean; the
   induction carries the auxiliary inequality 2 x sum <= sumsq + n x^2 for every x *)
Lemma cs_aux (l : list R) : forall x, 2 * x * lsum l <= lsum (map (fun y => y * y) l) + INR (length l) * (x * x).
Proof.
  induction l as [|a l IH]; intros x; [cbn; lra|].
  cbn [map length]. change (lsum (a :: l)) with (a + lsum l).
  change (lsum (a * a :: map (fun y => y * y) l)) with (a * a + lsum (map (fun y => y * y) l)).
  rewrite S_INR. specialize (IH x). pose proof (Rle_0_sqr (a - x)) as Hq. unfold Rsqr in Hq. lra.
Qed.
Lemma cauchy_schwarz_sum (l : list R) :
  lsum l * lsum l <= INR (length l) * lsum (map (fun y => y * y) l).
Proof.
  induction l as [|a l IH]; [cbn; lra|].
  cbn [map length]. change (lsum (a :: l)) with (a + lsum l).
  change (lsum (a * a :: map (fun y => y * y) l)) with (a * a + lsum (map (fun y => y * y) l)).
  rewrite S_INR. pose proof (cs_aux l a). lra.
Qed.
Lemma lsum_sq_abs (l : list R) :
  lsum (map (fun e => e * e) l) = lsum (map (fun y => y * y) (map absF l)).
Proof.
  induction l as [|a l IH]; [reflexivity|]. cbn [map].
  change (a * a + lsum (map (fun e => e * e) l) = absF a * absF a + lsum (map (fun y => y * y) (map absF l))).
  rewrite IH, absF_R. f_equal. rewrite <- Rabs_mult. apply eq_sym, Rabs_pos_eq. nra.
Qed.

Definition stats_ordered (s : @stats R) : Prop :=
  st_max s >= st_rmse s /\ st_rmse s >= st_mean s /\ st_mean s >= st_min s /\ st_min s >= 0.

(* Max >= RMSE >= Mean >= Min >= 0 for every non-empty list of errors, of any length *)
Theorem stats_order (err : list R) : err <> [] ->
  exists s, compute_stats sqrt err = Some s /\ stats_ordered s.
Proof.
  intros Hne. unfold compute_stats.
  destruct err as [|e0 err]; [congruence|]. cbn [map].
  set (a := absF e0). set (r := map absF err). set (ab := a :: r).
  eexists; split; [reflexivity|]. unfold stats_ordered. cbn [st_max st_rmse st_mean st_min].
  set (sq := (e0 * e0 :: map (fun e => e * e) err)).
  assert (Hsq : lsum sq = lsum (map (fun y => y * y) ab)) by (exact (lsum_sq_abs (e0 :: err))).
  assert (Hpos : forall x, In x ab -> 0 <= x).
  { intros x [<-|Hx]; [unfold a; rewrite absF_R; apply Rabs_pos|].
    unfold r in Hx. apply in_map_iff in Hx. destruct Hx as (y & <- & _). rewrite absF_R. apply Rabs_pos. }
  rewrite lenF_R. set (n := INR (length ab)).
  assert (Hn : 1 <= n) by (unfold n, ab; cbn [length]; rewrite S_INR; pose proof (pos_INR (length r)); lra).
  destruct (lmax_ge r a) as [Hmx1 Hmx2]. destruct (lmin_le r a) as [Hmn1 Hmn2].
  set (Mx := lmax a r) in *. set (Mn := lmin a r) in *.
  assert (HMn0 : 0 <= Mn).
  { apply lmin_ge; [apply Hpos; now left|]. intros y Hy. apply Hpos. now right. }
  assert (HMx : forall x, In x ab -> 0 <= x <= Mx).
  { intros x Hx. split; [now apply Hpos|]. destruct Hx as [<-|Hx]; [assumption|now apply Hmx2]. }
  assert (HMnle : forall x, In x ab -> Mn <= x).
  { intros x [<-|Hx]; [assumption|now apply Hmn2]. }
  assert (HMx0 : 0 <= Mx) by (pose proof (HMx a ltac:(now left)); lra).
  pose proof (lsum_ge ab Mn HMnle) as H1. fold n in H1.
  pose proof (lsum_sq_le ab Mx HMx) as H2. fold n in H2.
  pose proof (cauchy_schwarz_sum ab) as H3. fold n in H3.
  assert (Hs0 : 0 <= lsum ab) by (assert (0 <= n * Mn) by (apply Rmult_le_pos; lra); lra).
  assert (Hmean : Mn <= lsum ab / n).
  { apply (Rmult_le_reg_r n); [lra|]. unfold Rdiv. rewrite Rmult_assoc, Rinv_l by lra. lra. }
  assert (Hmean0 : 0 <= lsum ab / n) by lra.
  assert (Hms : (lsum ab / n) * (lsum ab / n) <= lsum sq / n).
  { rewrite Hsq. apply (Rmult_le_reg_r (n * n)); [apply Rmult_lt_0_compat; lra|].
    replace (lsum ab / n * (lsum ab / n) * (n * n)) with (lsum ab * lsum ab) by (field; lra).
    replace (lsum (map (fun y => y * y) ab) / n * (n * n)) with (n * lsum (map (fun y => y * y) ab)) by (field; lra).
    exact H3. }
  assert (Hsm : lsum sq / n <= Mx * Mx).
  { rewrite Hsq. apply (Rmult_le_reg_r n); [lra|]. unfold Rdiv. rewrite Rmult_assoc, Rinv_l by lra. lra. }
  repeat split.
  - apply Rle_ge. rewrite <- (sqrt_square Mx) by assumption. now apply sqrt_le_1_alt.
  - apply Rle_ge. rewrite <- (sqrt_square (lsum ab / n)) by assumption. now apply sqrt_le_1_alt.
  - apply Rle_ge. exact Hmean.
  - lra.
Qed.

(* ================================================================== SE3 helper laws *)
Lemma SE3_rel_left (g a b : se3R) : valid_SE3 g -> valid_SE3 a ->
  SE3_mul (SE3_inv (SE3_mul g a)) (SE3_mul g b) = SE3_mul (SE3_inv a) b.
Proof.
  intros Hg Ha. unfold valid_SE3 in *.
  assert (Hia : unitq (snd (SE3_inv a))) by (now apply valid_SE3_inv).
  assert (Hga : unitq (snd (SE3_mul g a))) by (now apply valid_SE3_mul).
  assert (Higa : unitq (snd (SE3_inv (SE3_mul g a)))) by (now apply valid_SE3_inv).
  assert (E : SE3_mul g b = SE3_mul (SE3_mul g a) (SE3_mul (SE3_inv a) b)).
  { rewrite SE3_mul_assoc by assumption. rewrite <- (SE3_mul_assoc a) by assumption.
    rewrite SE3_inv_r by assumption. now rewrite SE3_id_l. }
  rewrite E, <- SE3_mul_assoc by assumption. rewrite SE3_inv_l by assumption. apply SE3_id_l.
Qed.

Lemma sumsq3 (x y z : R) : sumsq [x; y; z] = x * x + y * y + z * z.
Proof. unfold sumsq. cbn. ring. Qed.
Lemma sumsq_act (q : quatR) (v : vec3R) : unitq q -> sumsq (v3_l (SO3_act q v)) = sumsq (v3_l v).
Proof.
  intros H. rewrite (act_eq_h q v H).
  assert (E : sumsq (v3_l (act_h q v)) = qnorm2 q * qnorm2 q * sumsq (v3_l v)).
  { unfold act_h, v3_l. rewrite !sumsq3. destruct q as [[[a b] c] w], v as [[x y] z]. lie_unfold. ring. }
  rewrite E, H. ring.
Qed.
Definition se3_tr (g : se3R) (t : vec3R) : vec3R := vadd (fst g) (SO3_act (snd g) t).
Lemma se3_tr_norm sqrtF (g : se3R) (a b : vec3R) : valid_SE3 g ->
  vnormS sqrtF (vsub (se3_tr g a) (se3_tr g b)) = vnormS sqrtF (vsub a b).
Proof.
  intros H. unfold vnormS. f_equal.
  replace (vsub (se3_tr g a) (se3_tr g b)) with (SO3_act (snd g) (vsub a b)) by (unfold se3_tr; lie_ring).
  now apply sumsq_act.
Qed.
Lemma map_fst_lmul (g : se3R) (traj : list se3R) :
  map fst (map (SE3_mul g) traj) = map (se3_tr g) (map fst traj).
Proof. rewrite !map_map. reflexivity. Qed.

(* ================================================================== list plumbing *)
Lemma gather_map {A B} (f : A -> B) (l : list A) ids : gather (map f l) ids = option_map (map f) (gather l ids).
Proof.
  induction ids as [|i ids IH]; [reflexivity|]. cbn [gather]. rewrite nth_error_map, IH.
  destruct (nth_error l i); [|reflexivity]. destruct (gather l ids); reflexivity.
Qed.
Lemma gather_Forall {A} (P : A -> Prop) (l : list A) : Forall P l -> forall ids r, gather l ids = Some r -> Forall P r.
Proof.
  intros Hl. induction ids as [|i ids IH]; intros r H; cbn [gather] in H.
  - injection H as <-. constructor.
  - destruct (nth_error l i) as [a|] eqn:Ea; [|discriminate]. destruct (gather l ids) as [t|]; [|discriminate].
    injection H as <-. constructor; [|now apply IH].
    apply nth_error_In in Ea. rewrite Forall_forall in Hl. now apply Hl.
Qed.
Lemma combine_map_r {A B C} (f : B -> C) (l : list A) (l' : list B) :
  combine l (map f l') = map (fun p => (fst p, f (snd p))) (combine l l').
Proof. revert l'. induction l as [|a l IH]; intros [|b l']; cbn; try reflexivity. now rewrite IH. Qed.
Lemma combine_map_both {A B C D} (f : A -> C) (h : B -> D) (l : list A) (l' : list B) :
  combine (map f l) (map h l') = map (fun p => (f (fst p), h (snd p))) (combine l l').
Proof. revert l'. induction l as [|a l IH]; intros [|b l']; cbn; try reflexivity. now rewrite IH. Qed.
Lemma tl_map {A B} (f : A -> B) l : tl (map f l) = map f (tl l).
Proof. now destruct l. Qed.

(* ================================================================== pairing is invariant *)
Section Pairing.
Variable sqrtF : R -> R.
Variable g : se3R.
Hypothesis Hg : valid_SE3 g.

Lemma step_norms_left ts : step_norms sqrtF (map (se3_tr g) ts) = step_norms sqrtF ts.
Proof.
  unfold step_norms. rewrite tl_map, combine_map_both, map_map. apply map_ext.
  intros [a b]. cbn [fst snd]. now apply se3_tr_norm.
Qed.
Lemma walk_left ts : forall prev path i delta,
  walk sqrtF (map (se3_tr g) ts) (se3_tr g prev) path i delta = walk sqrtF ts prev path i delta.
Proof.
  induction ts as [|t ts IH]; intros prev path i delta; [reflexivity|].
  cbn [map walk]. rewrite se3_tr_norm by assumption. rewrite !IH. reflexivity.
Qed.
Lemma pair_id_left traj bd delta di rtol all :
  pair_id sqrtF (map (SE3_mul g) traj) bd delta di rtol all = pair_id sqrtF traj bd delta di rtol all.
Proof.
  unfold pair_id. rewrite map_length, map_fst_lmul. destruct bd; [|reflexivity]. f_equal. destruct all.
  - unfold pairs_dist_all, acc_distances. now rewrite step_norms_left.
  - unfold pairs_dist_seq. destruct (map fst traj) as [|t0 ts]; [reflexivity|].
    cbn [map]. change (se3_tr g t0 :: map (se3_tr g) ts) with (map (se3_tr g) (t0 :: ts)). now rewrite walk_left.
Qed.
End Pairing.

Lemma rel_poses_left (g : se3R) traj src tar : valid_SE3 g -> Forall valid_SE3 traj ->
  rel_poses (map (SE3_mul g) traj) src tar = rel_poses traj src tar.
Proof.
  intros Hg Ht. unfold rel_poses. rewrite !gather_map.
  destruct (gather traj src) as [a|] eqn:Ea; [|reflexivity].
  destruct (gather traj tar) as [b|] eqn:Eb; [|reflexivity]. cbn [option_map]. f_equal.
  pose proof (gather_Forall _ _ Ht _ _ Ea) as Ha. clear Ea Eb.
  revert b. induction a as [|x a IH]; intros [|y b]; try reflexivity.
  cbn [map combine fst snd]. inversion Ha as [|? ? Hx Ha']; subst. f_equal; [now apply SE3_rel_left|now apply IH].
Qed.

(* ================================================================== association *)
Definition on_pose (f : se3R -> se3R) (tp : R * se3R) : R * se3R := (fst tp, f (snd tp)).
Lemma mk_stamped_map (f : se3R -> se3R) st P :
  mk_stamped st (map f P) = option_map (map (on_pose f)) (mk_stamped st P).
Proof.
  unfold mk_stamped. destruct P as [|p P]; [reflexivity|]. cbn [map]. change (f p :: map f P) with (map f (p :: P)).
  rewrite map_length. destruct (negb _); [reflexivity|]. destruct (negb _); [reflexivity|].
  cbn [option_map]. f_equal. apply combine_map_r.
Qed.
Lemma map_fst_on_pose f (l : list (R * se3R)) : map fst (map (on_pose f) l) = map fst l.
Proof. rewrite map_map. reflexivity. Qed.
Lemma map_snd_on_pose f (l : list (R * se3R)) : map snd (map (on_pose f) l) = map f (map snd l).
Proof. rewrite !map_map. reflexivity. Qed.

Lemma associate_map (fr fe : se3R -> se3R) rt et diff off :
  associate (map (on_pose fr) rt) (map (on_pose fe) et) diff off
  = option_map (fun p => (map fr (fst p), map fe (snd p))) (associate rt et diff off).
Proof.
  unfold associate, stamped. cbv zeta. rewrite !map_length.
  destruct (length rt <? length et)%nat; cbv iota.
  - rewrite !map_fst_on_pose, !map_snd_on_pose, !gather_map.
    destruct (matching _ _ _ _) as [|m0 m]; [reflexivity|].
    repeat match goal with |- context [gather ?l ?i] => destruct (gather l i) end; reflexivity.
  - rewrite !map_fst_on_pose, !map_snd_on_pose, !gather_map.
    destruct (matching _ _ _ _) as [|m0 m]; [reflexivity|].
    repeat match goal with |- context [gather ?l ?i] => destruct (gather l i) end; reflexivity.
Qed.
Lemma associate_valid rt et diff off rp ep :
  Forall valid_SE3 (map snd rt) -> Forall valid_SE3 (map snd et) ->
  associate rt et diff off = Some (rp, ep) -> Forall valid_SE3 rp /\ Forall valid_SE3 ep.
Proof.
  intros Hr He. unfold associate, stamped. cbv zeta.
  destruct (length rt <? length et)%nat; cbv iota; destruct (matching _ _ _ _) as [|m0 m]; intros H; try discriminate;
    repeat match type of H with context [gather ?l ?i] =>
      let E := fresh "E" in destruct (gather l i) eqn:E end; try discriminate;
    injection H as <- <-; split;
    first [eapply (gather_Forall _ _ Hr); eassumption | eapply (gather_Forall _ _ He); eassumption].
Qed.
Lemma map_snd_combine {A B} (l : list A) (l' : list B) : length l = length l' -> map snd (combine l l') = l'.
Proof.
  revert l'. induction l as [|a l IH]; intros [|b l'] H; try discriminate; [reflexivity|].
  cbn. f_equal. apply IH. now injection H.
Qed.
Lemma mk_stamped_snd st P tr : mk_stamped st P = Some tr -> map snd tr = P.
Proof.
  unfold mk_stamped. destruct P as [|p P]; [discriminate|]. cbv beta iota zeta.
  set (ts := match st with Some t => t | None => map ofZ (zrange 0 (length (p :: P))) end).
  destruct (Nat.eqb (length ts) (length (p :: P))) eqn:El; [|discriminate]. cbn [negb].
  destruct (negb (sortedb ts)); [discriminate|].
  intros H. injection H as <-. apply Nat.eqb_eq in El. now apply map_snd_combine.
Qed.

Lemma align_pose_id (X : se3R) : align_pose Sim3_id X = X.
Proof. unfold align_pose, se3_to_sim3, sim3_to_se3. destruct X as [t q]. lie_ring. Qed.

(* ================================================================== rpe_left_invariant *)
Section RpeLeft.
Variable angleF : @mat3 R -> R.
Variable rad2degF : R -> R.
Variable svdstf : list vec3R -> list vec3R -> bool -> sim3R.
Local Notation rpeR := (rpe sqrt angleF rad2degF svdstf).

(* rpe (default alignment options) is unchanged when the reference trajectory is left-multiplied
   by gr and the estimate by ge, for every error type and every pairing option *)
Theorem rpe_left_invariant (gr ge : se3R) rstamp rpose estamp epose et diff off bd delta di rtol all rpair :
  valid_SE3 gr -> valid_SE3 ge -> Forall valid_SE3 rpose -> Forall valid_SE3 epose ->
  rpeR rstamp (map (SE3_mul gr) rpose) estamp (map (SE3_mul ge) epose) et diff off false false false bd delta di rtol all rpair
  = rpeR rstamp rpose estamp epose et diff off false false false bd delta di rtol all rpair.
Proof.
  intros Hgr Hge Hr He. unfold rpe. rewrite !mk_stamped_map.
  destruct (mk_stamped rstamp rpose) as [rt|] eqn:Ert; [|reflexivity].
  destruct (mk_stamped estamp epose) as [etr|] eqn:Eet; [|reflexivity]. cbn [option_map].
  rewrite associate_map.
  destruct (associate rt etr diff off) as [[rp ep]|] eqn:Ea; [|reflexivity]. cbn [option_map fst snd].
  apply mk_stamped_snd in Ert. apply mk_stamped_snd in Eet.
  destruct (associate_valid rt etr diff off rp ep ltac:(now rewrite Ert) ltac:(now rewrite Eet) Ea) as [Hrp Hep].
  cbn [trans_of orb].
  assert (Eid : forall l : list se3R, map (align_pose Sim3_id) l = l)
    by (intros l; rewrite <- (map_id l) at 2; apply map_ext, align_pose_id).
  rewrite !Eid.
  assert (Epair : pair_id sqrt (if rpair then map (SE3_mul gr) rp else map (SE3_mul ge) ep) bd delta di rtol all
                  = pair_id sqrt (if rpair then rp else ep) bd delta di rtol all)
    by (destruct rpair; now apply pair_id_left).
  rewrite Epair. clear Epair. destruct (pair_id sqrt _ bd delta di rtol all) as [[src tar]|]; [|reflexivity].
  now rewrite !rel_poses_left.
Qed.
End RpeLeft.

(* ================================================================== zero statistics *)
Definition zero_stats (s : @stats R) : Prop :=
  st_max s = 0 /\ st_min s = 0 /\ st_mean s = 0 /\ st_median s = 0 /\ st_rmse s = 0 /\ st_sse s = 0 /\
  (st_std s = None \/ st_std s = Some 0).

Lemma all_zero_repeat (l : list R) : (forall x, In x l -> x = 0) -> l = repeat 0 (length l).
Proof.
  induction l as [|a l IH]; intros H; [reflexivity|]. cbn [length repeat].
  rewrite (H a) by (now left). f_equal. apply IH. intros x Hx. apply H. now right.
Qed.
Lemma lsum_repeat0 n : lsum (repeat 0 n) = 0.
Proof. induction n as [|n IH]; [reflexivity|]. cbn [repeat]. change (0 + lsum (repeat 0 n) = 0). rewrite IH. ring. Qed.
Lemma lmax_repeat0 n : lmax 0 (repeat 0 n) = 0.
Proof.
  induction n as [|n IH]; [reflexivity|]. cbn [repeat]. unfold lmax in *. cbn [fold_left].
  replace (maxF 0 0) with 0; [exact IH|]. unfold maxF. cbn. unfold Rltb. destruct (Rlt_dec 0 0); reflexivity.
Qed.
Lemma lmin_repeat0 n : lmin 0 (repeat 0 n) = 0.
Proof.
  induction n as [|n IH]; [reflexivity|]. cbn [repeat]. unfold lmin in *. cbn [fold_left].
  replace (minF 0 0) with 0; [exact IH|]. unfold minF. cbn. unfold Rltb. destruct (Rlt_dec 0 0); reflexivity.
Qed.
Lemma lsort_repeat0 n : lsort (repeat 0 n) = repeat 0 n.
Proof.
  induction n as [|n IH]; [reflexivity|]. cbn [repeat]. unfold lsort in *. cbn [fold_right]. rewrite IH.
  destruct n as [|n]; [reflexivity|]. cbn [repeat insert].
  replace (leb 0 0) with true; [reflexivity|]. symmetry. cbn. apply Rleb_true. lra.
Qed.
Lemma nth_repeat0 n k : nth k (repeat 0 n) 0 = 0.
Proof. revert k. induction n as [|n IH]; intros [|k]; cbn; auto. Qed.
Lemma map_repeat0 (f : R -> R) n : f 0 = 0 -> map f (repeat 0 n) = repeat 0 n.
Proof. intros H. induction n as [|n IH]; [reflexivity|]. cbn. now rewrite H, IH. Qed.

Lemma compute_stats_zeros (l : list R) : l <> [] -> (forall x, In x l -> x = 0) ->
  exists s, compute_stats sqrt l = Some s /\ zero_stats s.
Proof.
  intros Hne H. rewrite (all_zero_repeat l H). destruct (length l) as [|m] eqn:E; [destruct l; [congruence|discriminate]|].
  clear. unfold compute_stats.
  assert (Ha : absF 0 = 0) by (rewrite absF_R; apply Rabs_R0).
  rewrite (map_repeat0 absF (S m) Ha). cbn [repeat].
  change (0 :: repeat 0 m) with (repeat 0 (S m)). num_unfold.
  rewrite (map_repeat0 (fun e => e * e) (S m)) by ring.
  rewrite lsum_repeat0. rewrite lsort_repeat0, nth_repeat0, lmax_repeat0, lmin_repeat0.
  assert (Hd : forall c : R, 0 / c = 0) by (intros c; unfold Rdiv; ring).
  rewrite !Hd, sqrt_0.
  eexists; split; [reflexivity|]. unfold zero_stats. cbn [st_max st_min st_mean st_median st_rmse st_sse st_std].
  repeat (split; [reflexivity|]).
  destruct m as [|m]; [now left|right]. change (0 :: repeat 0 (S m)) with (repeat 0 (S (S m))).
  rewrite (map_repeat0 (fun x => (x - 0) * (x - 0))) by ring. now rewrite lsum_repeat0, Hd, sqrt_0.
Qed.

(* ---- the per-pose error of a pose against itself *)
Section SameError.
Variable angleF : @mat3 R -> R.
Variable rad2degF : R -> R.
Hypothesis angle_id : angleF mid3 = 0.
Hypothesis deg_zero : rad2degF 0 = 0.

Lemma se3_matrix_id : se3_matrix (F:=R) SE3_id = m4_id.
Proof. unfold se3_matrix, m4_id. lie_unfold. split_pairs; ring. Qed.
Lemma err_of_E_id et : err_of_E sqrt angleF rad2degF et m4_id = 0.
Proof.
  destruct et; unfold err_of_E.
  - unfold vnormS, m4_t, m4_id, v3_l. cbn [fst snd vx vy vz]. rewrite sumsq3. num_unfold.
    replace (0 * 0 + 0 * 0 + 0 * 0) with 0 by ring. apply sqrt_0.
  - replace (sumsq (m3_sub_id (m4_R m4_id))) with 0; [apply sqrt_0|].
    unfold sumsq, m3_sub_id, m4_R, m4_id, m3_l, v3_l, mid3. cbn. ring.
  - replace (sumsq (m4_sub_id m4_id)) with 0; [apply sqrt_0|].
    unfold sumsq, m4_sub_id, m4_id, m4_l, v4_l, v3_l. cbn. ring.
  - exact angle_id.
  - change (m4_R m4_id) with (mid3 (F:=R)). now rewrite angle_id.
Qed.
Lemma ape_error_same et (r : se3R) : valid_SE3 r -> ape_error sqrt angleF rad2degF et r r = 0.
Proof.
  intros H. unfold ape_error.
  assert (E : err_of_E sqrt angleF rad2degF et (se3_matrix (SE3_mul (SE3_inv r) r)) = 0)
    by (rewrite SE3_inv_l by assumption; rewrite se3_matrix_id; apply err_of_E_id).
  destruct et; try exact E.
  unfold vnormS. replace (sumsq (v3_l (vsub (fst r) (fst r)))) with 0; [apply sqrt_0|].
  destruct r as [[[x y] z] q]. unfold v3_l. rewrite sumsq3. lie_unfold. ring.
Qed.
Lemma rpe_error_same et (r : se3R) : valid_SE3 r -> rpe_error sqrt angleF rad2degF et r r = 0.
Proof.
  intros H. unfold rpe_error. rewrite SE3_inv_l by assumption. rewrite se3_matrix_id. apply err_of_E_id.
Qed.
Lemma errors_same ape et (P : list se3R) : Forall valid_SE3 P ->
  forall x, In x (errors sqrt angleF rad2degF ape et P P) -> x = 0.
Proof.
  intros HP x Hx. unfold errors in Hx. apply in_map_iff in Hx. destruct Hx as ((a, b) & <- & Hab).
  assert (a = b /\ In a P) as [<- Ha].
  { clear -Hab. induction P as [|p P IH]; [destruct Hab|]. destruct Hab as [E|Hab].
    - injection E as <- <-. split; [reflexivity|now left].
    - destruct (IH Hab). split; [assumption|now right]. }
  rewrite Forall_forall in HP. cbn [fst snd]. destruct ape; [apply ape_error_same|apply rpe_error_same]; now apply HP.
Qed.
End SameError.

(* ---- association of a trajectory with itself *)
Lemma argmin_from_spec (l : list R) : forall i bi bv j v, argmin_from l i bi bv = (j, v) ->
  v <= bv /\ (forall y, In y l -> v <= y) /\
  ((j = bi /\ v = bv) \/ ((i <= j < i + length l)%nat /\ nth (j - i) l 0 = v)).
Proof.
  induction l as [|a l IH]; intros i bi bv j v H; cbn [argmin_from] in H.
  - injection H as <- <-. split; [lra|]. split; [intros y []|]. now left.
  - destruct (ltb a bv) eqn:E.
    + cbn in E. apply Rltb_true in E. apply IH in H. destruct H as (H1 & H2 & H3). split; [lra|]. split.
      * intros y [<-|Hy]; [assumption|now apply H2].
      * right. destruct H3 as [[-> ->]|[H3 H4]].
        -- split; [cbn [length]; lia|]. now rewrite Nat.sub_diag.
        -- split; [cbn [length]; lia|]. replace (j - i)%nat with (S (j - S i)) by lia. exact H4.
    + cbn in E. apply Rltb_false in E. apply IH in H. destruct H as (H1 & H2 & H3). split; [lra|]. split.
      * intros y [<-|Hy]; [lra|now apply H2].
      * destruct H3 as [H3|[H3 H4]]; [now left|right].
        split; [cbn [length]; lia|]. replace (j - i)%nat with (S (j - S i)) by lia. exact H4.
Qed.
Lemma argmin_spec (l : list R) j v : argmin l = Some (j, v) ->
  (j < length l)%nat /\ nth j l 0 = v /\ forall y, In y l -> v <= y.
Proof.
  destruct l as [|a l]; [discriminate|]. cbn [argmin]. intros H. injection H as H.
  apply argmin_from_spec in H. destruct H as (H1 & H2 & H3). split; [|split].
  - destruct H3 as [[-> _]|[H3 _]]; cbn [length]; lia.
  - destruct H3 as [[-> ->]|[H3 H4]]; [reflexivity|].
    replace j with (S (j - 1)) by lia. exact H4.
  - intros y [<-|Hy]; [assumption|now apply H2].
Qed.

Lemma flat_map_singleton {A B} (f : A -> list B) (h : A -> B) l :
  (forall x, In x l -> f x = [h x]) -> flat_map f l = map h l.
Proof.
  induction l as [|a l IH]; intros H; [reflexivity|]. cbn. rewrite (H a) by (now left). cbn. f_equal.
  apply IH. intros x Hx. apply H. now right.
Qed.
Lemma in_combine_seq {A} (l : list A) d : forall a x i, In (x, i) (combine l (seq a (length l))) ->
  (a <= i < a + length l)%nat /\ nth (i - a) l d = x.
Proof.
  induction l as [|y l IH]; intros a x i H; [destruct H|]. cbn [length seq combine] in H. destruct H as [E|H].
  - injection E as <- <-. split; [cbn [length]; lia|]. now rewrite Nat.sub_diag.
  - apply IH in H. destruct H as [H1 H2]. split; [cbn [length]; lia|].
    replace (i - a)%nat with (S (i - S a)) by lia. exact H2.
Qed.
Lemma map_snd_combine_seq {A} (l : list A) a : map snd (combine l (seq a (length l))) = seq a (length l).
Proof. apply map_snd_combine. now rewrite seq_length. Qed.

Lemma matching_self (ss : list R) (diff o : R) : NoDup ss -> 0 < diff -> o = 0 ->
  matching ss ss diff o = map (fun p : R * nat => (snd p, snd p)) (combine ss (seq 0 (length ss))).
Proof.
  intros Hnd Hd ->. unfold matching. apply flat_map_singleton. intros [x i] Hin.
  apply (in_combine_seq ss 0) in Hin. destruct Hin as [Hi Hx]. rewrite Nat.sub_0_r in Hx. cbn [fst snd].
  match goal with |- context [argmin ?d] => set (D := d) end.
  assert (HlenD : length D = length ss) by (unfold D; now rewrite !map_length).
  assert (HD : forall k, (k < length ss)%nat -> nth k D 0 = Rabs (x - nth k ss 0)).
  { intros k Hk. unfold D. rewrite map_map. rewrite (nth_map_d _ _ _ _ 0) by assumption.
    rewrite absF_R. num_unfold. f_equal. ring. }
  destruct (argmin D) as [[j v]|] eqn:Ea.
  - apply argmin_spec in Ea. destruct Ea as (Hj & Hv & Hmin). rewrite HlenD in Hj.
    assert (Hv0 : v = 0).
    { assert (H1 : v <= 0).
      { pose proof (Hmin (nth i D 0) ltac:(apply nth_In; lia)) as H. rewrite HD in H by lia.
        rewrite Hx in H. replace (x - x) with 0 in H by ring. now rewrite Rabs_R0 in H. }
      assert (H2 : 0 <= v) by (rewrite <- Hv, HD by assumption; apply Rabs_pos).
      lra. }
    assert (Hji : j = i).
    { pose proof Hv0 as Hv1. rewrite <- Hv, HD in Hv1 by assumption.
      assert (nth j ss 0 = nth i ss 0).
      { rewrite Hx. destruct (Req_dec (x - nth j ss 0) 0) as [E|E]; [lra|]. apply Rabs_no_R0 in E. lra. }
      apply (NoDup_nth ss 0); try assumption; lia. }
    subst j. rewrite Hv0. replace (ltb 0 diff) with true; [reflexivity|]. symmetry. cbn. now apply Rltb_true.
  - destruct D; [cbn in HlenD; lia|discriminate].
Qed.

Lemma gather_seq {A} (l : list A) : forall pre, gather (pre ++ l) (seq (length pre) (length l)) = Some l.
Proof.
  induction l as [|a l IH]; intros pre; [reflexivity|]. cbn [length seq gather].
  rewrite nth_error_app2 by lia. rewrite Nat.sub_diag. cbn [nth_error].
  specialize (IH (pre ++ [a])). rewrite <- app_assoc, app_length in IH. cbn [length app] in IH.
  replace (length pre + 1)%nat with (S (length pre)) in IH by lia. now rewrite IH.
Qed.

Lemma associate_self (tr : list (R * se3R)) diff : tr <> [] -> NoDup (map fst tr) -> 0 < diff ->
  associate tr tr diff 0 = Some (map snd tr, map snd tr).
Proof.
  intros Hne Hnd Hd. unfold associate. cbv zeta. rewrite Nat.ltb_irrefl.
  rewrite matching_self by (try assumption; cbn; ring).
  rewrite map_length.
  set (m := map (fun p : R * nat => (snd p, snd p)) (combine (map fst tr) (seq 0 (length tr)))).
  assert (Hs : map fst m = seq 0 (length tr) /\ map snd m = seq 0 (length tr)).
  { unfold m. rewrite !map_map. cbn [fst snd].
    split; apply (map_snd_combine (map fst tr) (seq 0 (length tr))); now rewrite map_length, seq_length. }
  destruct Hs as [-> ->].
  assert (Hm : m <> []).
  { unfold m. destruct tr as [|t tr]; [congruence|]. cbn. discriminate. }
  destruct m as [|m0 m']; [congruence|].
  rewrite <- (map_length snd tr). pose proof (gather_seq (map snd tr) []) as Hg. cbn [app length] in Hg.
  rewrite Hg. reflexivity.
Qed.

Lemma mk_stamped_ne st P tr : mk_stamped st P = Some tr -> tr <> [].
Proof.
  intros H E. pose proof (mk_stamped_snd _ _ _ H) as Hs. subst tr. cbn in Hs. subst P. cbn in H. discriminate.
Qed.

Lemma rel_poses_valid traj src tar rr : Forall valid_SE3 traj -> rel_poses traj src tar = Some rr -> Forall valid_SE3 rr.
Proof.
  intros Ht. unfold rel_poses.
  destruct (gather traj src) as [a|] eqn:Ea; [|discriminate]. destruct (gather traj tar) as [b|] eqn:Eb; [|discriminate].
  intros H. injection H as <-.
  pose proof (gather_Forall _ _ Ht _ _ Ea) as Ha. pose proof (gather_Forall _ _ Ht _ _ Eb) as Hb. clear Ea Eb.
  revert b Hb. induction Ha as [|x a Hx Ha IH]; intros [|y b] Hb; cbn; constructor.
  - inversion Hb; subst. apply valid_SE3_mul; [now apply valid_SE3_inv|assumption].
  - apply IH. now inversion Hb.
Qed.

(* ================================================================== identical trajectories *)
Section Identical.
Variable angleF : @mat3 R -> R.
Variable rad2degF : R -> R.
Variable svdstf : list vec3R -> list vec3R -> bool -> sim3R.
Hypothesis angle_id : angleF mid3 = 0.
Hypothesis deg_zero : rad2degF 0 = 0.

Lemma trans_of_same origin (P : list se3R) : P <> [] -> Forall valid_SE3 P ->
  trans_of svdstf false false origin P P = Some Sim3_id.
Proof.
  intros Hne HP. unfold trans_of. cbn [orb]. destruct origin; [|reflexivity].
  destruct P as [|p P']; [congruence|]. rewrite SE3_inv_r by (now inversion HP). reflexivity.
Qed.
Lemma map_align_id (l : list se3R) : map (align_pose Sim3_id) l = l.
Proof. rewrite <- (map_id l) at 2. apply map_ext, align_pose_id. Qed.

(* ape of a trajectory against itself (distinct stamps, no SVD alignment): every statistic is 0 *)
Theorem ape_identical_zero st P tr et diff origin :
  mk_stamped st P = Some tr -> NoDup (map fst tr) -> Forall valid_SE3 P -> 0 < diff ->
  exists s, ape sqrt angleF rad2degF svdstf st P st P et diff 0 false false origin = Some s /\ zero_stats s.
Proof.
  intros Hm Hnd HP Hd. unfold ape. rewrite Hm.
  rewrite (associate_self tr diff (mk_stamped_ne _ _ _ Hm) Hnd Hd). rewrite (mk_stamped_snd _ _ _ Hm).
  assert (Hne : P <> []) by (intros ->; cbn in Hm; discriminate).
  rewrite trans_of_same by assumption. rewrite map_align_id.
  apply compute_stats_zeros; [|now apply errors_same].
  destruct P as [|p P']; [congruence|]. discriminate.
Qed.

(* rpe of a trajectory against itself: whenever it returns (i.e. the pairing option selects at
   least one pair), every statistic is 0 - for every error type and every pairing option *)
Theorem rpe_identical_zero st P tr et diff origin bd delta di rtol all rpair s :
  mk_stamped st P = Some tr -> NoDup (map fst tr) -> Forall valid_SE3 P -> 0 < diff ->
  rpe sqrt angleF rad2degF svdstf st P st P et diff 0 false false origin bd delta di rtol all rpair = Some s ->
  zero_stats s.
Proof.
  intros Hm Hnd HP Hd. unfold rpe. rewrite Hm.
  rewrite (associate_self tr diff (mk_stamped_ne _ _ _ Hm) Hnd Hd). rewrite (mk_stamped_snd _ _ _ Hm).
  assert (Hne : P <> []) by (intros ->; cbn in Hm; discriminate).
  rewrite trans_of_same by assumption. rewrite map_align_id.
  replace (if rpair then P else P) with P by (now destruct rpair).
  destruct (pair_id sqrt P bd delta di rtol all) as [[src tar]|]; [|discriminate].
  destruct (rel_poses P src tar) as [rr|] eqn:Er; [|discriminate].
  pose proof (rel_poses_valid _ _ _ _ HP Er) as Hrr. intros H.
  destruct rr as [|r0 rr']; [discriminate|].
  destruct (compute_stats_zeros (errors sqrt angleF rad2degF false et (r0 :: rr') (r0 :: rr'))) as (s' & Hs' & Hz).
  - discriminate.
  - now apply errors_same.
  - rewrite Hs' in H. now injection H as <-.
Qed.
End Identical.

(* the angle oracle at the identity *)
Lemma vnorm_vzero : vnorm (F:=R) vzero = 0.
Proof. unfold vnorm. cbn [tsqrt TransR]. replace (vdot (F:=R) vzero vzero) with 0 by (lie_unfold; ring). apply sqrt_0. Qed.
Lemma angle_of_id (eps : R) (m2q : @mat3 R -> quatR) : qv (m2q mid3) = vzero -> angle_of eps m2q mid3 = 0.
Proof.
  intros H. unfold angle_of, SO3_log. rewrite H, vnorm_scale, vnorm_vzero. ring.
Qed.
Lemma rad2deg_0 : rad2deg (F:=R) 0 = 0.
Proof. unfold rad2deg. num_simpl. unfold Rdiv. ring. Qed.

(* ================================================================== geodesic loss *)
Lemma lsum_le (l : list R) m : (forall x, In x l -> x <= m) -> lsum l <= INR (length l) * m.
Proof.
  induction l as [|a l IH]; intros H; [cbn; lra|].
  change (lsum (a :: l)) with (a + lsum l). cbn [length]. rewrite S_INR.
  pose proof (H a ltac:(now left)). pose proof (IH ltac:(intros x Hx; apply H; now right)). lra.
Qed.

Lemma SO3_log_norm_regime3 (eps : R) (q : quatR) : unitq q -> vnorm (qv q) <= eps -> 0 <= eps <= 1 / 2 ->
  vnorm (SO3_log eps q) <= PI.
Proof.
  intros Hu Hv He. unfold SO3_log, SO3_log_factor.
  assert (Hb : ltb eps (vnorm (qv q)) = false) by (exact (proj2 (Rltb_false _ _) Hv)).
  rewrite Hb. rewrite vnorm_scale.
  set (vn := vnorm (qv q)) in *. set (w := qw q).
  assert (Hvn0 : 0 <= vn) by apply vnorm_nonneg.
  assert (Hw2 : w * w = 1 - vn * vn).
  { unfold vn. rewrite vnorm_sq. unfold unitq, qnorm2 in Hu. fold w in Hu. num_unfold. lra. }
  assert (Hw2' : 3 / 4 <= w * w) by nra.
  assert (Hw0 : w <> 0) by (intros E; rewrite E in Hw2'; lra).
  num_simpl.
  match goal with |- Rabs ?X * vn <= PI =>
    replace (Rabs X * vn) with (Rabs (X * vn)) by (rewrite Rabs_mult, (Rabs_pos_eq vn) by assumption; reflexivity) end.
  replace (2 * (1 / w - vn * vn / (3 * (w * w * w))) * vn)
    with (2 * (vn * / w) - 2 / 3 * (vn * / w) * (vn * / w) * (vn * / w)) by (field; assumption).
  assert (Hs : - (2 / 3) <= vn * / w <= 2 / 3).
  { destruct (Rlt_le_dec 0 w) as [Hp|Hn].
    - assert (3 / 4 <= w) by nra.
      assert (0 < / w <= 4 / 3).
      { split; [now apply Rinv_0_lt_compat|]. replace (4 / 3) with (/ (3 / 4)) by field. apply Rinv_le_contravar; lra. }
      split; nra.
    - assert (Hn' : w < 0) by lra. assert (3 / 4 <= - w) by nra.
      assert (0 < / (- w) <= 4 / 3).
      { split; [apply Rinv_0_lt_compat; lra|]. replace (4 / 3) with (/ (3 / 4)) by field. apply Rinv_le_contravar; lra. }
      replace (/ w) with (- / (- w)) by (field; assumption). split; nra. }
  set (s := vn * / w) in *. assert (H3 : 3 < PI) by interval.
  apply Rle_trans with (r2 := 3); [|lra]. interval.
Qed.

Definition m3trace (M : @mat3 R) : R := vx (mr0 M) + vy (mr1 M) + vz (mr2 M).
Lemma trace_SO3_matrix (q : quatR) : unitq q -> (m3trace (SO3_matrix q) - 1) / 2 = 2 * (qw q * qw q) - 1.
Proof.
  unfold unitq. destruct q as [[[a b] c] w]. unfold m3trace. lie_unfold. intros H. nra.
Qed.
Lemma cos_Rabs (z : R) : cos (Rabs z) = cos z.
Proof. unfold Rabs. destruct (Rcase_abs z); [apply cos_neg|reflexivity]. Qed.

(* in the generic regime the value of the geodesic loss is THE rotation angle: it lies in [0, pi) and
   its cosine is (trace R - 1) / 2 *)
Lemma SO3_log_norm_is_angle (eps : R) (q : quatR) : unitq q -> eps < vnorm (qv q) -> eps < Rabs (qw q) -> 0 <= eps ->
  cos (vnorm (SO3_log eps q)) = (m3trace (SO3_matrix q) - 1) / 2.
Proof.
  intros Hu Hv Hw He. rewrite trace_SO3_matrix by assumption.
  unfold SO3_log, SO3_log_factor. branch_true. rewrite absF_R. branch_true.
  rewrite vnorm_scale. set (vn := vnorm (qv q)) in *. set (w := qw q) in *. num_simpl.
  assert (Hvn : 0 < vn) by lra.
  assert (Hw0 : w <> 0) by (intros E; rewrite E, Rabs_R0 in Hw; lra).
  assert (Hu' : vn * vn + w * w = 1).
  { unfold vn. rewrite vnorm_sq. unfold unitq, qnorm2 in Hu. fold w in Hu. num_unfold. lra. }
  replace (Rabs (IZR 2 * atan (vn / w) / vn) * vn) with (Rabs (2 * atan (vn / w))).
  2:{ symmetry. replace (IZR 2 * atan (vn / w) / vn) with ((2 * atan (vn / w)) * / vn) by (field; lra).
      rewrite Rabs_mult, (Rabs_pos_eq (/ vn)) by (left; now apply Rinv_0_lt_compat).
      rewrite Rmult_assoc, Rinv_l by lra. ring. }
  rewrite cos_Rabs, cos_2a_cos, cos_atan.
  assert (Hpos : 0 < 1 + (vn / w)²) by (unfold Rsqr; nra).
  replace (2 * (1 / sqrt (1 + (vn / w)²)) * (1 / sqrt (1 + (vn / w)²))) with (2 / (sqrt (1 + (vn / w)²) * sqrt (1 + (vn / w)²)))
    by (field; apply Rgt_not_eq, sqrt_lt_R0; assumption).
  rewrite sqrt_sqrt by lra. unfold Rsqr. field_simplify_eq; [|split; [assumption|nra]]. nra.
Qed.

Theorem geodesic_theta_range (eps : R) (x y : quatR) : 0 <= eps <= 1 / 2 -> unitq x -> unitq y ->
  0 <= geodesic_theta eps x y <= PI.
Proof.
  intros He Hx Hy. unfold geodesic_theta. split; [apply vnorm_nonneg|].
  set (q := SO3_mul x (SO3_inv y)).
  assert (Hq : unitq q) by (apply unitq_mul; [assumption|now apply unitq_inv]).
  destruct (Rlt_le_dec eps (vnorm (qv q))) as [Hv|Hv].
  - destruct (Rlt_le_dec eps (Rabs (qw q))) as [Hw|Hw].
    + left. apply SO3_log_norm_regime1; lra.
    + right. apply SO3_log_norm_regime2; lra.
  - now apply SO3_log_norm_regime3.
Qed.
(* the value is the rotation angle of x y^-1 (generic regime): its cosine is (trace R - 1) / 2 *)
Theorem geodesic_theta_is_angle (eps : R) (x y : quatR) : 0 <= eps -> unitq x -> unitq y ->
  let q := SO3_mul x (SO3_inv y) in eps < vnorm (qv q) -> eps < Rabs (qw q) ->
  cos (geodesic_theta eps x y) = (m3trace (SO3_matrix q) - 1) / 2.
Proof.
  intros He Hx Hy q Hv Hw. unfold geodesic_theta. fold q. apply SO3_log_norm_is_angle; try assumption.
  apply unitq_mul; [assumption|now apply unitq_inv].
Qed.
Theorem geodesic_theta_sym (eps : R) (x y : quatR) : geodesic_theta eps x y = geodesic_theta eps y x.
Proof.
  unfold geodesic_theta.
  replace (SO3_mul y (SO3_inv x)) with (SO3_inv (SO3_mul x (SO3_inv y))) by lie_ring.
  now rewrite SO3_log_inv, vnorm_neg.
Qed.

Lemma geodesic_thetas_sym eps (xs ys : list quatR) :
  map (fun p => geodesic_theta eps (fst p) (snd p)) (combine xs ys)
  = map (fun p => geodesic_theta eps (fst p) (snd p)) (combine ys xs).
Proof.
  revert ys. induction xs as [|x xs IH]; intros [|y ys]; try reflexivity.
  cbn [combine map fst snd]. now rewrite geodesic_theta_sym, IH.
Qed.
Theorem geodesic_loss_sym eps red (xs ys : list quatR) : geodesic_loss eps red xs ys = geodesic_loss eps red ys xs.
Proof. unfold geodesic_loss. now rewrite geodesic_thetas_sym. Qed.

Lemma geodesic_thetas_range eps (xs ys : list quatR) : 0 <= eps <= 1 / 2 -> Forall unitq xs -> Forall unitq ys ->
  forall t, In t (map (fun p => geodesic_theta eps (fst p) (snd p)) (combine xs ys)) -> 0 <= t <= PI.
Proof.
  intros He Hx Hy t Ht. apply in_map_iff in Ht. destruct Ht as ((x, y) & <- & Hin).
  rewrite Forall_forall in Hx, Hy. apply geodesic_theta_range; [assumption| |].
  - apply Hx. eapply in_combine_l; eauto.
  - apply Hy. eapply in_combine_r; eauto.
Qed.

(* range under each reduction: 'none' every entry in [0, pi]; 'mean' in [0, pi]; 'sum' in [0, n pi] *)
Theorem geodesic_loss_range eps red (xs ys : list quatR) :
  0 <= eps <= 1 / 2 -> Forall unitq xs -> Forall unitq ys -> combine xs ys <> [] ->
  forall v, In v (geodesic_loss eps red xs ys) ->
    0 <= v <= match red with Rsum => INR (length (combine xs ys)) * PI | _ => PI end.
Proof.
  intros He Hx Hy Hne v Hv. unfold geodesic_loss in Hv.
  set (th := map (fun p => geodesic_theta eps (fst p) (snd p)) (combine xs ys)) in *.
  pose proof (geodesic_thetas_range eps xs ys He Hx Hy) as Hr. fold th in Hr.
  assert (Hlen : length th = length (combine xs ys)) by (unfold th; now rewrite map_length).
  assert (Hlo : INR (length th) * 0 <= lsum th) by (apply lsum_ge; intros t Ht; apply Hr, Ht).
  assert (Hhi : lsum th <= INR (length th) * PI) by (apply lsum_le; intros t Ht; apply Hr, Ht).
  destruct red.
  - now apply Hr.
  - destruct Hv as [<-|[]]. rewrite lenF_R.
    assert (Hn : 1 <= INR (length th)).
    { rewrite Hlen. destruct (combine xs ys); [congruence|]. cbn [length]. rewrite S_INR. pose proof (pos_INR (length l)). lra. }
    num_unfold. split.
    + apply Rmult_le_pos; [lra|]. left. apply Rinv_0_lt_compat. lra.
    + apply (Rmult_le_reg_r (INR (length th))); [lra|]. unfold Rdiv. rewrite Rmult_assoc, Rinv_l by lra. lra.
  - destruct Hv as [<-|[]]. rewrite <- Hlen. lra.
Qed.

(* ================================================================== APE: alignment invariance *)
Lemma align_pose_mul (A B : sim3R) (X : se3R) : unitq (fst (snd A)) -> unitq (fst (snd B)) ->
  align_pose (Sim3_mul A B) X = align_pose A (align_pose B X).
Proof.
  intros HA HB. destruct A as [tA [qA sA]], B as [tB [qB sB]], X as [t q]. cbn [fst snd] in *.
  unfold align_pose, se3_to_sim3, sim3_to_se3, Sim3_mul, RxSO3_mul, RxSO3_act. cbn [fst snd].
  apply pair_eq; [|apply SO3_mul_assoc].
  rewrite SO3_act_mul by assumption. generalize (SO3_act qB t). intros u. lie_ring.
Qed.
Lemma fst_align_pose (S : sim3R) (X : se3R) : fst (align_pose S X) = Sim3_act S (fst X).
Proof. destruct S as [tS [qS sS]], X as [t q]. unfold align_pose, se3_to_sim3, sim3_to_se3. lie_ring. Qed.

Lemma on_pose_id (l : list (R * se3R)) : map (on_pose (fun x => x)) l = l.
Proof. rewrite <- (map_id l) at 2. apply map_ext. now intros [t p]. Qed.
Lemma associate_map_e (fe : se3R -> se3R) rt et diff off :
  associate rt (map (on_pose fe) et) diff off
  = option_map (fun p => (fst p, map fe (snd p))) (associate rt et diff off).
Proof.
  rewrite <- (on_pose_id rt) at 1. rewrite associate_map. destruct (associate rt et diff off) as [[a b]|]; [|reflexivity].
  cbn [option_map fst snd]. now rewrite map_id.
Qed.

Section ApeAlign.
Variable angleF : @mat3 R -> R.
Variable rad2degF : R -> R.
Variable svdstf : list vec3R -> list vec3R -> bool -> sim3R.
Variable S : sim3R.
Variable sc : bool.
Hypothesis HS : valid_Sim3 S.
(* contract of the alignment oracle used here: its result is a similarity with a unit quaternion,
   and transforming the source cloud by S composes the result with S^-1 (Umeyama's solution is
   unique for non-degenerate clouds; S must be rigid when the scale is not estimated) *)
Hypothesis svd_valid : forall ets rts, unitq (fst (snd (svdstf ets rts sc))).
Hypothesis svd_equivariant : forall ets rts,
  svdstf (map (Sim3_act S) ets) rts sc = Sim3_mul (svdstf ets rts sc) (Sim3_inv S).

Theorem ape_align_invariant_partial rstamp rpose estamp epose et diff off al origin : (al || sc)%bool = true ->
  ape sqrt angleF rad2degF svdstf rstamp rpose estamp (map (align_pose S) epose) et diff off al sc origin
  = ape sqrt angleF rad2degF svdstf rstamp rpose estamp epose et diff off al sc origin.
Proof.
  intros Hflag. unfold ape. rewrite mk_stamped_map.
  destruct (mk_stamped rstamp rpose) as [rt|]; [|reflexivity].
  destruct (mk_stamped estamp epose) as [etr|]; [|reflexivity]. cbn [option_map].
  rewrite associate_map_e. destruct (associate rt etr diff off) as [[rp ep]|]; [|reflexivity].
  cbn [option_map fst snd]. unfold trans_of. rewrite Hflag.
  replace (map fst (map (align_pose S) ep)) with (map (Sim3_act S) (map fst ep))
    by (rewrite !map_map; apply map_ext; intros X; symmetry; apply fst_align_pose).
  rewrite svd_equivariant. set (T := svdstf (map fst ep) (map fst rp) sc).
  assert (HT : unitq (fst (snd T))) by apply svd_valid.
  destruct HS as [HSu HSs].
  assert (HSi : valid_Sim3 (Sim3_inv S)) by (now apply valid_Sim3_inv).
  assert (HTS : unitq (fst (snd (Sim3_mul T (Sim3_inv S)))))
    by (unfold Sim3_mul, RxSO3_mul; cbn [fst snd]; apply unitq_mul; [exact HT|apply HSi]).
  rewrite map_map. f_equal. f_equal. apply map_ext. intros X.
  rewrite <- align_pose_mul by assumption.
  rewrite Sim3_mul_assoc by (try assumption; apply HSi). rewrite Sim3_inv_l by (try assumption; apply Rgt_not_eq, HSs).
  now rewrite Sim3_id_r.
Qed.
End ApeAlign.
