(* C17, fourth part: the hypotheses of the ICP theorems are satisfiable (no vacuity).
   (1) a reference knn that meets the contract [knn_ok] on EVERY query cloud and every non-empty target;
   (2) a concrete run (3-point source, target = source shifted by (1/10, 0, 0), constant SVD oracle,
       reference knn, any stepper) on which every hypothesis of icp_forward_monotone and
       icp_forward_recovers holds and the conclusion is a non-trivial transform. *)
From Coq Require Import Reals Lra Psatz List Nsatz ZArith Bool Arith.
Import ListNotations.
From PV Require Import Base.Num Base.RTac Model.LieGroup Model.Controller Model.Align Proofs.LieGroup
  Proofs.Align Proofs.Align2 Proofs.Align3.
Local Open Scope R_scope.
#[local] Remove Hints NumQ NumZ : typeclass_instances.

(* ---------------------------------------------------------------- reference knn, k = 1 *)
Definition sqd3 (p q : vec3R) : R := sqnorm (vsub q p).
(* index of a closest point of l to p *)
Fixpoint amin (p : vec3R) (l : cloudR) : nat :=
  match l with
  | [] => O
  | q :: r =>
      match r with
      | [] => O
      | _ => let j := amin p r in if Rle_dec (sqd3 p q) (sqd3 p (nth j r vzero)) then O else S j
      end
  end.
Lemma amin_spec p : forall l, l <> [] ->
  (amin p l < length l)%nat /\ forall q, In q l -> sqd3 p (nth (amin p l) l vzero) <= sqd3 p q.
Proof.
  induction l as [|x l IH]; intros Hne; [contradiction|].
  destruct l as [|y l].
  - cbn [amin length nth]. split; [lia|]. intros q [<- | []]. apply Rle_refl.
  - specialize (IH ltac:(discriminate)). destruct IH as [IH1 IH2].
    change (amin p (x :: y :: l)) with
      (if Rle_dec (sqd3 p x) (sqd3 p (nth (amin p (y :: l)) (y :: l) vzero)) then O else S (amin p (y :: l))).
    set (j := amin p (y :: l)) in *. clearbody j.
    destruct (Rle_dec (sqd3 p x) (sqd3 p (nth j (y :: l) vzero))) as [Hle | Hgt].
    + split; [cbn; lia|]. intros q [<- | Hq]; cbn [nth]; [apply Rle_refl|].
      specialize (IH2 q Hq). eapply Rle_trans; [exact Hle | exact IH2].
    + split; [cbn [length] in *; lia|]. intros q [<- | Hq]; cbn [nth].
      * apply Rlt_le. apply Rnot_le_lt. exact Hgt.
      * exact (IH2 q Hq).
Qed.
Definition knn_ref (P T : cloudR) : list (R * nat) :=
  map (fun p => (sqrt (sqd3 p (nth (amin p T) T vzero)), amin p T)) P.
(* the contract is met on every query cloud: the global knn hypothesis is satisfiable *)
Theorem knn_ref_ok (P T : cloudR) : T <> [] -> knn_ok P T (map snd (knn_ref P T)).
Proof.
  intros HT. unfold knn_ok, knn_ref. rewrite map_map. cbn [snd].
  induction P as [|p P IH]; cbn [map]; constructor; [|exact IH].
  destruct (amin_spec p T HT) as [H1 H2]. split; [exact H1|]. exact H2.
Qed.

(* ---------------------------------------------------------------- general: a cloud of target points *)
(* knn on a cloud made of target points returns (indices of) those very points *)
Lemma knn_on_target (Q tgt : cloudR) idx idx0 : knn_ok Q tgt idx ->
  Forall (fun i => (i < length tgt)%nat) idx0 -> Q = gather3 tgt idx0 -> gather3 tgt idx = Q.
Proof.
  intros Hk Hr EQ.
  assert (HL0 : length idx0 = length Q) by (rewrite EQ; unfold gather3; now rewrite map_length).
  pose proof (cpd_best Q tgt _ idx0 Hk Hr HL0) as Hle.
  assert (E0 : cpd Q tgt idx0 = 0).
  { unfold cpd. rewrite <- EQ. rewrite <- (map_id Q) at 2. apply (resid_self (fun p => p)). }
  pose proof (cpd_nonneg Q tgt idx) as Hge.
  assert (H0 : cpd Q tgt idx = 0) by lra. unfold cpd in H0.
  assert (HL : length Q = length (gather3 tgt idx))
    by (unfold gather3; now rewrite map_length, (knn_ok_length _ _ _ Hk)).
  symmetry. exact (Forall2_eq_id _ _ (resid_zero (fun p => p) _ _ HL H0)).
Qed.

(* ---------------------------------------------------------------- the concrete run *)
Definition ex_shift : vec3R := (1 / 10, 0, 0).
Definition ex_src : cloudR := wit_src.
Definition ex_tgt : cloudR := map (rigid_apply mid3 ex_shift) wit_src.
Definition ex_svd : mat3R -> mat3R * vec3R * mat3R := fun _ => (wit_U, wit_S, wit_Vh).

Lemma ex_tgt_eq : ex_tgt = [(2 + 1 / 10, 0, 0); (-1 + 1 / 10, 1, 0); (-1 + 1 / 10, -1, 0)].
Proof. unfold ex_tgt, wit_src, ex_shift. cbn [map]. f_equal; [|f_equal; [|f_equal]]; al_ring. Qed.

Ltac ex_compute :=
  cbv [map crosscov length centroid vsum3 fold_right ofN Z.of_nat Pos.of_succ_nat Pos.succ vdivs];
  al_unfold; split_pairs; field.
Lemma ex_M1 : svdtf_M ex_src ex_tgt = svdtf_M wit_src wit_src.
Proof. rewrite ex_tgt_eq. unfold svdtf_M, ex_src, wit_src, centered. ex_compute. Qed.
Lemma ex_M2 : svdtf_M ex_tgt ex_tgt = svdtf_M wit_src wit_src.
Proof. rewrite ex_tgt_eq. unfold svdtf_M, wit_src, centered. ex_compute. Qed.

(* the closest target point of every source point is its own shifted image (1/100 against > 7) *)
Lemma ex_matching idx : knn_ok ex_src ex_tgt idx -> gather3 ex_tgt idx = ex_tgt.
Proof.
  rewrite ex_tgt_eq. unfold ex_src, wit_src, knn_ok. intros H.
  inversion H as [|p0 i0 P0 I0 [Hi0 Hb0] H1]; subst. inversion H1 as [|p1 i1 P1 I1 [Hi1 Hb1] H2]; subst.
  inversion H2 as [|p2 i2 P2 I2 [Hi2 Hb2] H3]; subst. inversion H3; subst. clear H H1 H2 H3.
  specialize (Hb0 (2 + 1 / 10, 0, 0) ltac:(cbn; auto)).
  specialize (Hb1 (-1 + 1 / 10, 1, 0) ltac:(cbn; auto)).
  specialize (Hb2 (-1 + 1 / 10, -1, 0) ltac:(cbn; auto)).
  cbn [length] in Hi0, Hi1, Hi2.
  assert (E0 : i0 = 0%nat).
  { destruct i0 as [|[|[|]]]; [reflexivity | exfalso | exfalso | lia]; cbn [nth] in Hb0; al_unfold; lra. }
  assert (E1 : i1 = 1%nat).
  { destruct i1 as [|[|[|]]]; [exfalso | reflexivity | exfalso | lia]; cbn [nth] in Hb1; al_unfold; lra. }
  assert (E2 : i2 = 2%nat).
  { destruct i2 as [|[|[|]]]; [exfalso | exfalso | reflexivity | lia]; cbn [nth] in Hb2; al_unfold; lra. }
  subst. reflexivity.
Qed.

Lemma ex_tgt_nonempty : ex_tgt <> [].
Proof. rewrite ex_tgt_eq. discriminate. Qed.
Lemma ex_pass_ok_src : pass_ok ex_svd knn_ref ex_tgt ex_src.
Proof.
  pose proof (knn_ref_ok ex_src ex_tgt ex_tgt_nonempty) as Hk. split; [exact Hk|].
  unfold idxs. rewrite (ex_matching _ Hk). unfold svd_contract, ex_svd. rewrite ex_M1. apply wit_contract.
Qed.
Lemma ex_pass_ok_tgt : pass_ok ex_svd knn_ref ex_tgt ex_tgt.
Proof.
  pose proof (knn_ref_ok ex_tgt ex_tgt ex_tgt_nonempty) as Hk. split; [exact Hk|].
  unfold idxs.
  assert (E : gather3 ex_tgt (map snd (knn_ref ex_tgt ex_tgt)) = ex_tgt).
  { apply (knn_on_target _ _ _ (seq 0 (length ex_tgt)) Hk).
    - apply Forall_forall. intros i Hi. apply in_seq in Hi. lia.
    - rewrite ex_tgt_eq. reflexivity. }
  rewrite E. unfold svd_contract, ex_svd. rewrite ex_M2. apply wit_contract.
Qed.

(* every hypothesis of icp_forward_recovers holds on the run (init = None, any stepper), with the
   non-trivial true transform p |-> p + (1/10, 0, 0) and a non-collinear source *)
Theorem icp_example_recovers :
  ex_src <> [] /\ rot mid3 /\ noncollinear ex_src /\
  gather3 ex_tgt (idxs knn_ref ex_tgt (icp_start None ex_src)) = map (rigid_apply mid3 ex_shift) ex_src /\
  pass_ok ex_svd knn_ref ex_tgt (icp_start None ex_src) /\
  pass_ok ex_svd knn_ref ex_tgt (map (rigid_apply mid3 ex_shift) ex_src) /\
  svd_contract ex_svd (svdtf_M ex_src (map (rigid_apply mid3 ex_shift) ex_src)).
Proof.
  split; [discriminate|]. split; [apply rot_mid3|]. split; [apply wit_noncollinear|].
  cbn [icp_start]. change (map (rigid_apply mid3 ex_shift) ex_src) with ex_tgt. split; [|split; [exact ex_pass_ok_src | split; [exact ex_pass_ok_tgt|]]].
  - unfold idxs. apply ex_matching. apply knn_ref_ok, ex_tgt_nonempty.
  - unfold svd_contract, ex_svd. rewrite ex_M1. apply wit_contract.
Qed.

(* every hypothesis of icp_forward_monotone holds on the same run: the only clouds the loop can
   visit are the source and the target *)
Lemma ex_reach Q : icp_reach ex_svd knn_ref ex_tgt ex_src Q -> Q = ex_src \/ Q = ex_tgt.
Proof.
  induction 1 as [|Q err Q' HR IH Hb]; [now left|]. right. destruct IH as [-> | ->].
  - apply (body_matched ex_svd knn_ref ex_tgt ex_src err Q' mid3 ex_shift); try assumption.
    + discriminate. + exact ex_pass_ok_src. + apply rot_mid3.
    + unfold idxs. apply ex_matching. apply knn_ref_ok, ex_tgt_nonempty.
  - apply (body_fixed ex_svd knn_ref ex_tgt ex_tgt err Q' ex_tgt_nonempty ex_pass_ok_tgt); [|exact Hb].
    apply (cpdk_on_target knn_ref ex_tgt ex_tgt (seq 0 (length ex_tgt)) (proj1 ex_pass_ok_tgt)).
    + apply Forall_forall. intros i Hi. apply in_seq in Hi. lia.
    + rewrite ex_tgt_eq. reflexivity.
Qed.
Theorem icp_example_monotone :
  ex_src <> [] /\
  (forall Q, icp_reach ex_svd knn_ref ex_tgt (icp_start None ex_src) Q -> pass_ok ex_svd knn_ref ex_tgt Q) /\
  (forall Q, icp_reach ex_svd knn_ref ex_tgt (icp_start None ex_src) Q -> svd_contract ex_svd (svdtf_M ex_src Q)).
Proof.
  split; [discriminate|]. cbn [icp_start]. split; intros Q HR; destruct (ex_reach Q HR) as [-> | ->].
  - exact ex_pass_ok_src. - exact ex_pass_ok_tgt.
  - unfold svd_contract, ex_svd. apply wit_contract.
  - unfold svd_contract, ex_svd. rewrite ex_M1. apply wit_contract.
Qed.

(* ---------------------------------------------------------------- the MEAN squared distance *)
(* mean over the cloud of the squared distance to the closest target point (what the property names) *)
Definition mean_cpd (knn : cloudR -> cloudR -> list (R * nat)) (target P : cloudR) : R :=
  cpdk knn target P / INR (length P).
Theorem icp_forward_mean_monotone svd knn target (cfg : rtb_cfg) (st0 : rtb_state) (init : option se3R) (source : cloudR) :
  source <> [] ->
  (forall T, init = Some T -> unitq (snd T)) ->
  (forall Q, icp_reach svd knn target (icp_start init source) Q -> pass_ok svd knn target Q) ->
  (forall Q, icp_reach svd knn target (icp_start init source) Q -> svd_contract svd (svdtf_M source Q)) ->
  exists T st errs,
    icp_forward svd knn cfg st0 init source target = Some (T, st, errs) /\ unitq (snd T) /\
    mean_cpd knn target (se3_cloud T source) <= mean_cpd knn target (icp_start init source).
Proof.
  intros Hne Hinit Hok Hfin.
  destruct (icp_forward_monotone svd knn target cfg st0 init source Hne Hinit Hok Hfin) as (T & st & errs & E & Hq & _ & Hle).
  exists T, st, errs. split; [exact E|]. split; [exact Hq|]. unfold mean_cpd.
  assert (EL : length (se3_cloud T source) = length (icp_start init source)).
  { unfold se3_cloud, icp_start. destruct init; unfold se3_cloud; now rewrite !map_length. }
  rewrite EL. apply Rmult_le_compat_r; [|exact Hle].
  apply Rlt_le, Rinv_0_lt_compat, lt_0_INR.
  unfold icp_start, se3_cloud. destruct init; try rewrite map_length; destruct source; try contradiction; cbn; lia.
Qed.
