(* C13, fifth file: particle generation (prior N(x, nP)), sharpness of the UKF centre-weight condition,
   concrete instances showing that the hypotheses of the C13 theorems are jointly satisfiable. *)
From Coq Require Import Reals Lra Lia List Arith ZArith Psatz.
From PV Require Import Base.Num Base.Mat Model.Filter Proofs.Filter Proofs.Filter2 Proofs.Filter3.
Import ListNotations.
#[local] Remove Hints NumQ NumZ : typeclass_instances.
Local Open Scope R_scope.

(* ================================================================== PF.generate_particles *)
(* particles = x + L eps_t  with  L L^T = n P :  the deviations from x are  eps L^T,  their scatter is
   L (eps^T eps) L^T;  so standard-normal draws with sample second moment  eps^T eps = c I  give
   scatter  c n P  -- the documented prior N(x, nP) *)
Section Particles.
Variable msqrt : matR -> matR.
Variables n N : nat.
Hypothesis msqrt_spec : factor_ok n msqrt.
Variable x : list R.
Variable P eps : matR.
Hypothesis Hx : length x = n.
Hypothesis HP : SPD n P.
Hypothesis Heps : wf N n eps.

Let L := msqrt (mscale (ofnat n) P).
Let xp := pf_particles msqrt x P eps.
Let D := map (fun p => vminus p x) xp.

Lemma part_n_pos : (0 < n)%nat. Proof. destruct HP as (W & _). eapply wf_pos_r; exact W. Qed.

Lemma part_L : wf n n L /\ mmul L (mtr L) = mscale (ofnat n) P.
Proof. apply msqrt_spec. apply SPD_mscale; [apply ofnat_pos; exact part_n_pos | assumption]. Qed.

Lemma particles_shape : length xp = N /\ (forall p, In p xp -> length p = n).
Proof.
  split.
  - unfold xp, pf_particles. rewrite map_length. now destruct Heps as (_ & _ & -> & _).
  - intros p Hp. unfold xp, pf_particles in Hp. apply in_map_iff in Hp. destruct Hp as [e [<- _]].
    now rewrite length_vplus.
Qed.

Theorem particle_deviations : D = mmul eps (mtr L).
Proof.
  destruct part_L as (WL & _). assert (Hn := part_n_pos).
  assert (HN : (0 < N)%nat) by (eapply wf_pos_r; exact Heps).
  assert (Leps : length eps = N) by now destruct Heps as (_ & _ & -> & _).
  assert (WD : wf N n D).
  { unfold D, xp, pf_particles. rewrite map_map. apply wf_map_rows; try assumption.
    intros e _. now rewrite length_vminus, length_vplus. }
  apply (mat_ext N n); [assumption | eauto with wf |].
  intros t j Ht Hj.
  rewrite (mget_mmul N n n) by eauto with wf.
  unfold D, xp, pf_particles. rewrite map_map. unfold mget at 1.
  rewrite (nth_map_lt _ eps t [] []) by lia.
  change (nth j (vminus (vplus x (mapply (msqrt (mscale (ofnat (length x)) P)) (nth t eps []))) x) zero)
    with (vget (vminus (vplus x (mapply (msqrt (mscale (ofnat (length x)) P)) (nth t eps []))) x) j).
  rewrite Hx. fold L.
  rewrite vget_vminus by (rewrite length_vplus; lia).
  rewrite vget_vplus by lia.
  rewrite (vget_mapply n n) by assumption.
  replace (vget x j + sumn n (fun k => mul (mget L j k) (vget (nth t eps []) k)) - vget x j)
    with (sumn n (fun k => mul (mget L j k) (vget (nth t eps []) k))) by (mnum; lra).
  apply sumn_ext. intros k Hk. rewrite (mget_mtr n n) by assumption. rewrite vget_row. mnum. lra.
Qed.

Theorem particle_scatter : mmul (mtr D) D = mmul (mmul L (mmul (mtr eps) eps)) (mtr L).
Proof.
  destruct part_L as (WL & _).
  rewrite particle_deviations.
  rewrite (mtr_mmul N n n) by eauto with wf. rewrite (mtr_mtr n n) by assumption.
  symmetry.
  rewrite (mmul_assoc n n n n L (mmul (mtr eps) eps) (mtr L)) by eauto with wf.
  rewrite (mmul_assoc n N n n (mtr eps) eps (mtr L)) by eauto with wf.
  rewrite <- (mmul_assoc n n N n L (mtr eps) (mmul eps (mtr L))) by eauto with wf.
  reflexivity.
Qed.

(* identity sample second moment  eps^T eps = c I  (c = N for exact unit covariance): scatter = c n P *)
Corollary particle_scatter_identity c : mmul (mtr eps) eps = mscale c (mid n) ->
  mmul (mtr D) D = mscale (c * ofnat n) P.
Proof.
  intros HE. destruct part_L as (WL & EL). assert (Hn := part_n_pos).
  destruct HP as (WP & _).
  rewrite particle_scatter, HE.
  rewrite (mmul_mscale_r n n n) by eauto with wf.
  rewrite (mmul_mid_r n n) by assumption.
  rewrite (mmul_mscale_l n n n) by eauto with wf.
  rewrite EL. now apply (mscale_mscale n n).
Qed.
End Particles.

(* ================================================================== UKF: the centre-weight condition is sharp *)
(* n = 1, k = -1/2 (admissible: k > -n, centre weight k/(n+k) = -1 < 0), f(x) = x^2, x = 0, P = 2, Q = 1:
   sigma points 0, 1, -1 with weights -1, 1, 1; predicted mean 2, predicted covariance 1 - 4 + 1 + 1 = -1.
   The real torch.linalg.cholesky then raises in the second sigma_weight_points. *)
Definition sq_system : @system R :=
  {| sf := fun p _ => [vget p 0 * vget p 0]; sh := fun p _ => p;
     sA := fun _ _ => [[0]]; sC := fun _ _ => [[1]] |}.

Lemma not_PSD_neg1 : ~ PSD 1 [[-1]].
Proof.
  intros H. specialize (H [1] eq_refl). revert H. unfold qform. mcbv. lra.
Qed.

Theorem ukf_negative_centre_weight_witness msqrt : cholesky_ok 1 msqrt ->
  ukf_predict msqrt sq_system [[1]] [0] [0] [[2]] (-1/2) = Some ([2], [[-1]]).
Proof.
  intros Hc.
  assert (H1 : msqrt [[1]] = [[1]]).
  { replace 1 with (1 * 1) at 1 by lra. apply cholesky_value_1x1; [assumption | lra]. }
  unfold ukf_predict, ukf_predict_gen.
  assert (E1 : sigma_points_gen msqrt true [0] [[2]] (-1/2) = Some ([[0]; [1]; [-1]], [-1; 1; 1])).
  { unfold sigma_points_gen. cbv zeta.
    match goal with |- context [msqrt ?M] => replace M with [[1]] by (symmetry; mcompute) end.
    rewrite H1. mcompute2. }
  rewrite E1. mcompute2.
Qed.

Theorem ukf_negative_centre_weight_cov_refuted :
  exists (s : @system R) (Q P : matR) (x u : list R) (k : R),
    SPD 1 Q /\ SPD 1 P /\ length x = 1%nat /\ - 1 < k < 0 /\
    (forall p u, length p = 1%nat -> length (sf s p u) = 1%nat) /\
    forall msqrt, cholesky_ok 1 msqrt ->
      exists xe Pm, ukf_predict msqrt s Q x u P k = Some (xe, Pm) /\ ~ PSD 1 Pm.
Proof.
  exists sq_system, [[1]], [[2]], [0], [0], (-1/2).
  split; [apply SPD_lit_1x1; lra|]. split; [apply SPD_lit_1x1; lra|]. split; [reflexivity|].
  split; [lra|]. split; [intros; reflexivity|].
  intros msqrt Hc. exists [2], [[-1]]. split; [now apply ukf_negative_centre_weight_witness | exact not_PSD_neg1].
Qed.

(* ================================================================== the hypotheses are jointly satisfiable *)
(* a 2 x 2 inverse oracle *)
Definition inv2 (M : matR) : matR :=
  let a := mget M 0 0 in let b := mget M 0 1 in let c := mget M 1 0 in let d := mget M 1 1 in
  let det := a * d - b * c in [[d / det; - b / det]; [- c / det; a / det]].

Example pinv_ok_2_satisfiable : pinv_ok 2 inv2.
Proof.
  intros S ((_ & _ & Hl & Hf) & SS & PS).
  destruct S as [|r0 [|r1 [|? ?]]]; try discriminate.
  inversion Hf as [|? ? Hr0 Hf']. inversion Hf' as [|? ? Hr1 _].
  destruct r0 as [|a [|b' [|? ?]]]; try discriminate.
  destruct r1 as [|b [|d [|? ?]]]; try discriminate.
  assert (Eb : b' = b). { unfold msym in SS. revert SS. mcbv. intros SS. injection SS. intros. lra. }
  subst b'.
  assert (Ha : 0 < a).
  { specialize (PS [1; 0] eq_refl). unfold qform in PS. revert PS. mcbv. intros PS.
    assert (0 < 0 + 1 * (0 + a * 1 + b * 0) + 0 * (0 + b * 1 + d * 0)); [|lra].
    apply PS. exists 0%nat. split; [cbn; lia | unfold vget; cbn; lra]. }
  assert (Hdet : 0 < a * d - b * b).
  { specialize (PS [- b; a] eq_refl). unfold qform in PS. revert PS. mcbv. intros PS.
    assert (0 < 0 + - b * (0 + a * - b + b * a) + a * (0 + b * - b + d * a)).
    { apply PS. exists 1%nat. split; [cbn; lia | unfold vget; cbn; lra]. }
    assert (0 < a * (a * d - b * b)) by lra.
    apply (Rmult_lt_reg_l a); [assumption | lra]. }
  unfold inv2, mget. cbn [nth].
  split; [apply wf_lit_2x2|]. split; mcbv; list_eq; field; lra.
Qed.

Lemma SPD_I2 : SPD 2 I2.
Proof. split; [apply wf_lit_2x2 | split; [reflexivity | apply PD_2x2; lra]]. Qed.

(* a nonlinear 2-state / 2-observation system:  f(p) = (p0 + p1^2, p1),  h(p) = (p0 p1, p1) *)
Definition nl2_system : @system R :=
  {| sf := fun p _ => [vget p 0 + vget p 1 * vget p 1; vget p 1];
     sh := fun p _ => [vget p 0 * vget p 1; vget p 1];
     sA := fun p _ => [[1; 2 * vget p 1]; [0; 1]];
     sC := fun p _ => [[vget p 1; vget p 0]; [0; 1]] |}.

(* every hypothesis of the EKF / UKF / PF covariance and run theorems holds for this instance *)
Example C13_hypotheses_satisfiable :
  pinv_ok 2 inv2 /\ cholesky_ok 2 chol2 /\ factor_ok 2 chol2 /\
  (forall x u, wf 2 2 (sA nl2_system x u)) /\ (forall x u, wf 2 2 (sC nl2_system x u)) /\
  (forall p u, length p = 2%nat -> length (sf nl2_system p u) = 2%nat) /\
  (forall p u, length p = 2%nat -> length (sh nl2_system p u) = 2%nat) /\
  SPD 2 Q2 /\ SPD 2 I2 /\ SPD 2 P2 /\ 0 <= 1 /\ 0 < IZR (Z.of_nat 2) + 1 /\
  pf_input_ok ([0; 0], [0], [[1; 0]; [0; 1]], [1/2; 1/3]).
Proof.
  split; [exact pinv_ok_2_satisfiable|]. split; [exact cholesky_ok_2_satisfiable|].
  split; [exact (cholesky_ok_factor_ok 2 chol2 cholesky_ok_2_satisfiable)|].
  split; [intros; apply wf_lit_2x2|]. split; [intros; apply wf_lit_2x2|].
  split; [intros; reflexivity|]. split; [intros; reflexivity|].
  split; [exact SPD_Q2|]. split; [exact SPD_I2|]. split; [exact SPD_P2|].
  split; [lra|]. split; [cbn; lra|].
  split; [discriminate|]. split; [discriminate|].
  intros ri [<-|[<-|[]]]; lra.
Qed.
