(* Proofs for Model/Filter.v over R (property C13).  The [_old] definitions are the code before the
   repairs 8375f2f / 7981b02 / b057b94; their refutations are kept as history. *)
From Coq Require Import Reals Lra Lia List Arith ZArith Psatz.
From PV Require Import Base.Num Base.Mat Model.Filter.
Import ListNotations.
#[local] Remove Hints NumQ NumZ : typeclass_instances.
Local Open Scope R_scope.

Notation matR := (@mat R).

(* ------------------------------------------------------------------ contracts of the oracles *)
(* torch.linalg.pinv on a symmetric positive definite m x m matrix is its inverse *)
Definition pinv_ok (m : nat) (pinv : matR -> matR) : Prop :=
  forall S, SPD m S -> wf m m (pinv S) /\ mmul S (pinv S) = mid m /\ mmul (pinv S) S = mid m.
(* shape only *)
Definition msqrt_shape (n : nat) (msqrt : matR -> matR) : Prop :=
  forall M, wf n n M -> wf n n (msqrt M).
(* the default msqrt = torch.linalg.cholesky: lower triangular, positive diagonal, L L^T = M *)
Definition lower_tri (n : nat) (L : matR) : Prop :=
  forall i j, (i < n)%nat -> (j < n)%nat -> (i < j)%nat -> mget L i j = 0.
Definition diag_pos (n : nat) (L : matR) : Prop := forall i, (i < n)%nat -> 0 < mget L i i.
Definition cholesky_ok (n : nat) (msqrt : matR -> matR) : Prop :=
  forall M, SPD n M -> wf n n (msqrt M) /\ lower_tri n (msqrt M) /\ diag_pos n (msqrt M) /\
                       mmul (msqrt M) (mtr (msqrt M)) = M.

(* ------------------------------------------------------------------ small helpers *)
Lemma qform_vminus n P u v : wf n n P -> msym P -> length u = n -> length v = n ->
  qform P (vminus u v) = qform P u - 2 * vdot u (mapply P v) + qform P v.
Proof.
  intros HP SP Hu Hv. unfold qform.
  rewrite (mapply_vminus n n) by assumption.
  assert (L1 : length (mapply P u) = n) by now apply (length_mapply n n).
  assert (L2 : length (mapply P v) = n) by now apply (length_mapply n n).
  rewrite vdot_vminus_l by congruence.
  rewrite !vdot_vminus_r by (rewrite ?length_vminus; congruence).
  rewrite (vdot_msym n P v u) by assumption. lra.
Qed.

Lemma SPD_of_psd_plus_pd n A B : wf n n A -> wf n n B -> msym A -> msym B -> PSD n A -> PD n B ->
  SPD n (madd A B).
Proof.
  intros HA HB SA SB PA PB. split; [eauto 8 with wf|]. split.
  - now apply (msym_madd n).
  - now apply PD_madd_r.
Qed.

(* ================================================================== EKF: covariance *)
Section EKFcov.
Variable pinv : matR -> matR.
Variables n m : nat.
Hypothesis pinv_spec : pinv_ok m pinv.

Variables A P Q C R : matR.
Hypothesis HA : wf n n A.
Hypothesis HC : wf m n C.
Hypothesis HP : wf n n P.
Hypothesis HQ : wf n n Q.
Hypothesis HR : wf m m R.
Hypothesis SP : msym P.
Hypothesis SQ : msym Q.
Hypothesis SR : msym R.
Hypothesis PP : PSD n P.
Hypothesis PQ : PSD n Q.
Hypothesis PR : PD m R.

Let Pm := madd (mmul (mmul A P) (mtr A)) Q.
Let S := madd (mmul (mmul C Pm) (mtr C)) R.
Let K := mmul (mmul Pm (mtr C)) (pinv S).
Let Pp := mmul (msub (mid n) (mmul K C)) Pm.

Lemma ekf_Pm_wf : wf n n Pm. Proof. unfold Pm. eauto 8 with wf. Qed.
Lemma ekf_Pm_sym : msym Pm.
Proof. unfold Pm. apply (msym_madd n); eauto 8 with wf. now apply (msym_congr n n). Qed.
Lemma ekf_Pm_psd : PSD n Pm.
Proof. unfold Pm. apply PSD_madd; eauto 8 with wf. now apply (PSD_congr n n). Qed.
Lemma ekf_S_spd : SPD m S.
Proof.
  unfold S. assert (H := ekf_Pm_wf).
  apply SPD_of_psd_plus_pd; try assumption.
  - eauto 8 with wf.
  - apply (msym_congr m n); [assumption | assumption | apply ekf_Pm_sym].
  - apply (PSD_congr m n); [assumption | assumption | apply ekf_Pm_psd].
Qed.

Lemma ekf_post_cov_decomp :
  wf n n Pp /\ Pp = msub Pm (mmul (mmul (mtr (mmul C Pm)) (pinv S)) (mtr (mtr (mmul C Pm)))).
Proof.
  assert (HPm := ekf_Pm_wf). assert (SPm := ekf_Pm_sym).
  assert (Hn : (0 < n)%nat) by (eapply wf_pos_r; exact HP).
  destruct (pinv_spec S ekf_S_spd) as (HSi & _ & _).
  assert (HK : wf n m K) by (unfold K; eauto 8 with wf).
  assert (HG : wf m n (mmul C Pm)) by eauto 8 with wf.
  split; [unfold Pp; eauto 8 with wf|].
  unfold Pp. rewrite (mmul_msub_l n n n) by eauto 8 with wf.
  rewrite (mmul_mid_l n n) by assumption. f_equal.
  rewrite (mtr_mtr m n) by assumption.
  rewrite (mtr_mmul m n n) by assumption. rewrite SPm.
  rewrite (mmul_assoc n m n n) by assumption. reflexivity.
Qed.

Theorem ekf_post_cov_symmetric : msym Pp.
Proof.
  assert (HPm := ekf_Pm_wf). assert (SPm := ekf_Pm_sym).
  destruct (pinv_spec S ekf_S_spd) as (HSi & HI1 & HI2).
  destruct ekf_S_spd as (HS & SS & _).
  assert (SSi : msym (pinv S)) by now apply (minv_sym m S).
  assert (HG : wf m n (mmul C Pm)) by eauto 8 with wf.
  destruct ekf_post_cov_decomp as [_ ->].
  apply (msym_msub n); [assumption | eauto 8 with wf | assumption |].
  apply (msym_congr n m); eauto 8 with wf.
Qed.

Theorem ekf_post_cov_psd : PSD n Pp.
Proof.
  assert (HPm := ekf_Pm_wf). assert (SPm := ekf_Pm_sym). assert (PPm := ekf_Pm_psd).
  destruct (pinv_spec S ekf_S_spd) as (HSi & HI1 & HI2).
  destruct ekf_S_spd as (HS & SS & PS).
  assert (HG : wf m n (mmul C Pm)) by eauto 8 with wf.
  assert (HCt : wf n m (mtr C)) by eauto 8 with wf.
  destruct ekf_post_cov_decomp as [_ ->].
  intros x Hx.
  rewrite (qform_msub n) by eauto 8 with wf.
  rewrite (qform_congr n m) by eauto 8 with wf.
  rewrite (mtr_mtr m n) by assumption.
  set (b := mapply (mmul C Pm) x).
  assert (Lb : length b = m) by (unfold b; now apply (length_mapply m n)).
  set (z := mapply (pinv S) b).
  assert (Lz : length z = m) by (unfold z; now apply (length_mapply m m)).
  (* S z = b *)
  assert (HSz : mapply S z = b).
  { unfold z. rewrite <- (mapply_mmul m m m) by assumption. rewrite HI1.
    apply mapply_mid; [eapply wf_pos_r; eassumption | assumption]. }
  (* qform (pinv S) b = z . b *)
  assert (E1 : qform (pinv S) b = vdot z b).
  { unfold qform. fold z. apply vdot_comm. congruence. }
  (* z . b = qform S z = qform Pm (C^T z) + qform R z *)
  set (w := mapply (mtr C) z).
  assert (Lw : length w = n) by (unfold w; now apply (length_mapply n m)).
  assert (E2 : vdot z b = qform Pm w + qform R z).
  { rewrite <- HSz. change (vdot z (mapply S z)) with (qform S z). unfold S.
    rewrite (qform_madd m) by eauto 8 with wf.
    rewrite (qform_congr m n) by assumption. reflexivity. }
  (* x . (Pm w) = b . z *)
  assert (E3 : vdot x (mapply Pm w) = vdot z b).
  { unfold w. rewrite <- (mapply_mmul n n m) by assumption.
    rewrite (vdot_adjoint n m) by (eauto 8 with wf).
    rewrite (mtr_mmul n n m) by assumption. rewrite (mtr_mtr m n) by assumption. rewrite SPm.
    fold b. apply vdot_comm. congruence. }
  assert (E4 := qform_vminus n Pm x w HPm SPm Hx Lw).
  assert (G1 : 0 <= qform Pm (vminus x w)) by (apply PPm; rewrite length_vminus; assumption).
  assert (G2 : 0 <= qform R z) by (apply (PD_PSD m R HR PR); assumption).
  rewrite E1. lra.
Qed.

End EKFcov.

(* the covariance returned by the model, for an arbitrary (nonlinear) system *)
Theorem ekf_cov_symmetric_psd (pinv : matR -> matR) (n m : nat) (s : @system R) (Q Rm : matR)
  (x y u : list R) (P : matR) (at_pred : bool) :
  pinv_ok m pinv ->
  wf n n (sA s x u) -> wf m n (sC s x u) ->
  wf n n P -> wf n n Q -> wf m m Rm -> msym P -> msym Q -> msym Rm -> PSD n P -> PSD n Q -> PD m Rm ->
  let P' := snd (ekf_forward_gen pinv at_pred s Q Rm x y u P) in
  wf n n P' /\ msym P' /\ PSD n P'.
Proof.
  intros Hpinv HA HC HP HQ HR SP SQ SR PP PQ PR. cbn zeta.
  unfold ekf_forward_gen. cbn [snd]. rewrite (wf_cols n n P HP).
  split; [|split].
  - apply (ekf_post_cov_decomp pinv n m Hpinv); assumption.
  - apply (ekf_post_cov_symmetric pinv n m Hpinv); assumption.
  - apply (ekf_post_cov_psd pinv n m Hpinv); assumption.
Qed.

(* ================================================================== EKF = KF ? *)
(* the documented recursion (innovation at the predicted state) on a linear system IS the Kalman
   filter -- for every dimension; and the covariance of the code as it is equals it too *)
Theorem ekf_documented_linear_is_kf (pinv : matR -> matR) A B C D c1 c2 Q Rm x y u (P : matR) n :
  wf n n A -> wf n n P ->
  ekf_forward_gen pinv true (lin_system A B C D c1 c2) Q Rm x y u P = kf_step pinv A B C D c1 c2 Q Rm x y u P.
Proof.
  intros HA HP. unfold ekf_forward_gen, kf_step, kf_predict, kf_update. cbn [sf sh sA sC lin_system].
  rewrite (wf_cols n n P HP).
  rewrite (wf_rows n n (madd (mmul (mmul A P) (mtr A)) Q)) by eauto 8 with wf.
  reflexivity.
Qed.

(* ================================================================== UKF: covariance *)

Lemma mapply_rowscale N n (w : list R) (E : matR) x i : wf N n E -> (i < N)%nat ->
  vget (mapply (rowscale w E) x) i = vget w i * vget (mapply E x) i.
Proof.
  intros HE Hi. rewrite !(vget_mapply N n) by eauto with wf.
  rewrite <- sumn_scal_l. apply sumn_ext. intros k Hk.
  rewrite (mget_rowscale N n) by assumption. mnum. lra.
Qed.

Lemma msym_wgram N n (w : list R) (E : matR) : wf N n E -> msym (mmul (mtr (rowscale w E)) E).
Proof.
  intros HE. apply (msym_of_mget n); [eauto 8 with wf|].
  intros i j Hi Hj. rewrite !(mget_mmul n N n) by eauto 8 with wf.
  apply sumn_ext. intros k Hk.
  rewrite !(mget_mtr N n) by eauto with wf.
  rewrite !(mget_rowscale N n) by assumption. mnum. lra.
Qed.

(* x^T ((wE)^T E') z = sum_i w_i (E x)_i (E' z)_i *)
Lemma vdot_wgram N n m (w : list R) (E E' : matR) x z : wf N n E -> wf N m E' -> length x = n -> length z = m ->
  vdot x (mapply (mmul (mtr (rowscale w E)) E') z) =
  sumn N (fun i => vget w i * vget (mapply E x) i * vget (mapply E' z) i).
Proof.
  intros HE HE' Hx Hz. rewrite (vdot_gram N n m) by eauto with wf.
  unfold vdot. rewrite (length_mapply N n) by eauto with wf.
  apply sumn_ext. intros i Hi. rewrite (mapply_rowscale N n) by assumption. mnum. lra.
Qed.

Section UKFcore.
Variable pinv : matR -> matR.
Variables n m N : nat.
Hypothesis pinv_spec : pinv_ok m pinv.
Variables Ex Ey Q Rm : matR.
Variable w : list R.
Hypothesis HEx : wf N n Ex.
Hypothesis HEy : wf N m Ey.
Hypothesis HQ : wf n n Q.
Hypothesis HR : wf m m Rm.
Hypothesis SQ : msym Q.
Hypothesis SR : msym Rm.
Hypothesis PQ : PSD n Q.
Hypothesis PR : PD m Rm.
Hypothesis Hw : forall i, (i < N)%nat -> 0 <= vget w i.

Let Pm := wcov Ex Ex w (Some Q).
Let Py := wcov Ey Ey w (Some Rm).
Let Pxy := wcov Ex Ey w None.
Let K := mmul Pxy (pinv Py).
Let Pp := msub Pm (mmul (mmul K Py) (mtr K)).

Lemma ukf_Pm_wf : wf n n Pm. Proof. unfold Pm, wcov. eauto with wf. Qed.
Lemma ukf_Py_wf : wf m m Py. Proof. unfold Py, wcov. eauto with wf. Qed.
Lemma ukf_Pxy_wf : wf n m Pxy. Proof. unfold Pxy, wcov. eauto 8 with wf. Qed.
Lemma ukf_Pm_sym : msym Pm.
Proof. unfold Pm, wcov. apply (msym_madd n); eauto 8 with wf. now apply (msym_wgram N n). Qed.
Lemma ukf_Py_sym : msym Py.
Proof. unfold Py, wcov. apply (msym_madd m); eauto 8 with wf. now apply (msym_wgram N m). Qed.

Lemma ukf_qform_Pm x : length x = n ->
  qform Pm x = qform Q x + sumn N (fun i => vget w i * vget (mapply Ex x) i * vget (mapply Ex x) i).
Proof.
  intros Hx. unfold Pm, wcov. rewrite (qform_madd n) by eauto 8 with wf. f_equal.
  unfold qform. now apply (vdot_wgram N n n).
Qed.
Lemma ukf_qform_Py z : length z = m ->
  qform Py z = qform Rm z + sumn N (fun i => vget w i * vget (mapply Ey z) i * vget (mapply Ey z) i).
Proof.
  intros Hz. unfold Py, wcov. rewrite (qform_madd m) by eauto 8 with wf. f_equal.
  unfold qform. now apply (vdot_wgram N m m).
Qed.

Lemma ukf_Py_spd : SPD m Py.
Proof.
  split; [apply ukf_Py_wf | split; [apply ukf_Py_sym|]].
  intros z Hz Hnz. rewrite ukf_qform_Py by assumption.
  assert (0 < qform Rm z) by now apply PR.
  assert (0 <= sumn N (fun i => vget w i * vget (mapply Ey z) i * vget (mapply Ey z) i)).
  { apply sumn_nonneg. intros i Hi. specialize (Hw i Hi).
    assert (0 <= vget (mapply Ey z) i * vget (mapply Ey z) i) by nra. nra. }
  lra.
Qed.

Theorem ukf_core_wf : wf n n Pp.
Proof. unfold Pp. assert (H := ukf_Pm_wf). eauto with wf. Qed.

Theorem ukf_core_symmetric : msym Pp.
Proof.
  assert (HPm := ukf_Pm_wf). assert (HPy := ukf_Py_wf). assert (HPxy := ukf_Pxy_wf).
  destruct (pinv_spec Py ukf_Py_spd) as (HSi & _ & _).
  assert (HK : wf n m K) by (unfold K; eauto with wf).
  unfold Pp. apply (msym_msub n); [assumption | eauto 8 with wf | apply ukf_Pm_sym |].
  apply (msym_congr n m); [assumption | assumption | apply ukf_Py_sym].
Qed.

(* x^T P' x = x^T Pm x - z^T Py z  with  z = K^T x, and that difference is a sum of squares *)
Lemma ukf_core_decomp x : length x = n ->
  exists z S2, length z = m /\ 0 <= S2 /\
    qform Pp x = qform Pm x - qform Py z /\
    qform Pm x - qform Py z = qform Q x + qform Rm z + S2.
Proof.
  assert (HPm := ukf_Pm_wf). assert (HPy := ukf_Py_wf). assert (HPxy := ukf_Pxy_wf).
  destruct (pinv_spec Py ukf_Py_spd) as (HSi & HI1 & HI2).
  destruct ukf_Py_spd as (_ & SPy & _).
  assert (SSi : msym (pinv Py)) by now apply (minv_sym m Py).
  assert (HK : wf n m K) by (unfold K; eauto with wf).
  intros Hx.
  set (z := mapply (mtr K) x).
  assert (Lz : length z = m) by (unfold z; apply (length_mapply m n); eauto with wf).
  set (b := mapply (mtr Pxy) x).
  assert (Lb : length b = m) by (unfold b; apply (length_mapply m n); eauto with wf).
  assert (Ez : z = mapply (pinv Py) b).
  { unfold z, b, K. rewrite (mtr_mmul n m m) by assumption. rewrite SSi.
    apply (mapply_mmul m m n); eauto with wf. }
  assert (EPyz : mapply Py z = b).
  { rewrite Ez. rewrite <- (mapply_mmul m m m) by assumption. rewrite HI1.
    apply mapply_mid; [eapply wf_pos_r; eassumption | assumption]. }
  assert (E0 : qform Pp x = qform Pm x - qform Py z).
  { unfold Pp. rewrite (qform_msub n) by eauto 8 with wf. now rewrite (qform_congr n m) by assumption. }
  (* T := qform Py z = z . b = x . (Pxy z) = cross sum *)
  assert (E1 : qform Py z = vdot x (mapply Pxy z)).
  { unfold qform. rewrite EPyz. unfold b.
    rewrite (vdot_adjoint m n) by (eauto with wf).
    rewrite (mtr_mtr n m) by assumption. apply vdot_comm.
    rewrite (length_mapply n m) by assumption. congruence. }
  assert (E2 : vdot x (mapply Pxy z) =
               sumn N (fun i => vget w i * vget (mapply Ex x) i * vget (mapply Ey z) i)).
  { unfold Pxy, wcov. now apply (vdot_wgram N n m). }
  assert (E4 := ukf_qform_Pm x Hx).
  assert (E3 := ukf_qform_Py z Lz).
  set (a := mapply Ex x) in *. set (c := mapply Ey z) in *.
  assert (G : 0 <= sumn N (fun i => vget w i * (vget a i - vget c i) * (vget a i - vget c i))).
  { apply sumn_nonneg. intros i Hi. specialize (Hw i Hi).
    assert (0 <= (vget a i - vget c i) * (vget a i - vget c i)) by (pose proof (Rle_0_sqr (vget a i - vget c i)) as HH; unfold Rsqr in HH; exact HH).
    rewrite Rmult_assoc. apply Rmult_le_pos; assumption. }
  assert (G' : sumn N (fun i => vget w i * (vget a i - vget c i) * (vget a i - vget c i)) =
               sumn N (fun i => vget w i * vget a i * vget a i)
               - 2 * sumn N (fun i => vget w i * vget a i * vget c i)
               + sumn N (fun i => vget w i * vget c i * vget c i)).
  { rewrite <- sumn_scal_l, <- sumn_minus, <- sumn_plus. apply sumn_ext. intros i _. ring. }
  exists z, (sumn N (fun i => vget w i * (vget a i - vget c i) * (vget a i - vget c i))).
  split; [exact Lz|]. split; [exact G|]. split; [exact E0|]. lra.
Qed.

Theorem ukf_core_psd : PSD n Pp.
Proof.
  intros x Hx. destruct (ukf_core_decomp x Hx) as (z & S2 & Lz & HS2 & E0 & E1).
  assert (0 <= qform Q x) by now apply PQ.
  assert (0 <= qform Rm z) by (apply (PD_PSD m Rm HR PR); assumption).
  lra.
Qed.

(* strictly positive when the predicted covariance is *)
Theorem ukf_core_pd : PD n Pm -> PD n Pp.
Proof.
  intros PPm x Hx Hnz. destruct (ukf_core_decomp x Hx) as (z & S2 & Lz & HS2 & E0 & E1).
  assert (0 <= qform Q x) by now apply PQ.
  destruct (nonzero_dec z) as [Hz|Hz].
  - assert (0 < qform Rm z) by now apply PR. lra.
  - assert (qform Py z = 0) by (apply (qform_zero_vec m); [apply ukf_Py_wf | assumption | assumption]).
    assert (0 < qform Pm x) by now apply PPm. lra.
Qed.
End UKFcore.

(* ------------------------------------------------------------------ the model's forward *)
Lemma wf_map_rows {X} N c (g : X -> list R) (l : list X) : (0 < N)%nat -> (0 < c)%nat -> length l = N ->
  (forall r, In r l -> length (g r) = c) -> wf N c (map g l).
Proof.
  intros HN Hc Hl H. repeat split; try assumption.
  - now rewrite map_length.
  - apply Forall_forall. intros row Hin. apply in_map_iff in Hin. destruct Hin as [r [<- Hr]]. now apply H.
Qed.

Definition ukf_weights (n : nat) (k : R) : list R :=
  [k / (IZR (Z.of_nat n) + k)] ++ repeat (1 / (2 * (IZR (Z.of_nat n) + k))) n
                               ++ repeat (1 / (2 * (IZR (Z.of_nat n) + k))) n.

Lemma ukf_weights_nonneg n k i : 0 <= k -> 0 < IZR (Z.of_nat n) + k -> 0 <= vget (ukf_weights n k) i.
Proof.
  intros Hk Hnk. unfold vget.
  assert (H : forall a, In a (ukf_weights n k) -> 0 <= a).
  { intros a Ha. unfold ukf_weights in Ha. cbn in Ha. destruct Ha as [<-|Ha].
    - apply Rmult_le_pos; [assumption | apply Rlt_le, Rinv_0_lt_compat; assumption].
    - apply in_app_or in Ha. assert (a = 1 / (2 * (IZR (Z.of_nat n) + k))) as ->
        by (destruct Ha as [Ha|Ha]; now apply repeat_spec in Ha).
      apply Rlt_le. apply Rmult_lt_0_compat; [lra | apply Rinv_0_lt_compat; lra]. }
  change (0 <= nth i (ukf_weights n k) 0). destruct (nth_in_or_default i (ukf_weights n k) 0) as [Hin|Hd]; [now apply H | rewrite Hd; lra].
Qed.

Section UKFforward.
Variable pinv : matR -> matR.
Variable msqrt : matR -> matR.
Variables n m : nat.
Hypothesis pinv_spec : pinv_ok m pinv.
Hypothesis msqrt_spec : msqrt_shape n msqrt.
Hypothesis Hn : (0 < n)%nat.
Hypothesis Hm : (0 < m)%nat.

Lemma sigma_points_spec by_cols x (P : matR) k : wf n n P -> length x = n ->
  exists rest, sigma_points_gen msqrt by_cols x P k = Some (x :: rest, ukf_weights n k) /\
               length rest = (n + n)%nat /\ (forall r, In r rest -> length r = n).
Proof.
  intros HP Hx. unfold sigma_points_gen. cbv zeta.
  rewrite (wf_cols n n P HP), (wf_rows n n P HP), Hx, !Nat.eqb_refl. cbn [andb negb].
  set (xr0 := msqrt (mscale (add (ofnat n) k) P)).
  assert (Hxr0 : wf n n xr0) by (apply msqrt_spec; eauto with wf).
  set (xr := if by_cols then mtr xr0 else xr0).
  assert (Hxr : wf n n xr) by (unfold xr; destruct by_cols; eauto with wf).
  rewrite (wf_rows n n xr Hxr).
  exists (map (fun row => vplus x row) xr ++ map (fun row => vminus x row) xr).
  split; [reflexivity|]. split.
  - rewrite app_length, !map_length. destruct Hxr as (_ & _ & -> & _). reflexivity.
  - intros r Hr. apply in_app_or in Hr. destruct Hr as [Hr|Hr]; apply in_map_iff in Hr;
      destruct Hr as [row [<- _]]; [rewrite length_vplus | rewrite length_vminus]; assumption.
Qed.

Variable s : @system R.
Variable u : list R.
Hypothesis Hf : forall p, length p = n -> length (sf s p u) = n.
Hypothesis Hh : forall p, length p = n -> length (sh s p u) = m.
Variables Q Rm : matR.
Hypothesis HQ : wf n n Q.
Hypothesis HR : wf m m Rm.
Hypothesis SQ : msym Q.
Hypothesis SR : msym Rm.
Hypothesis PQ : PSD n Q.
Hypothesis PR : PD m Rm.

Theorem ukf_old_cov_symmetric_psd by_cols x y (P : matR) k :
  wf n n P -> length x = n -> 0 <= k -> 0 < IZR (Z.of_nat n) + k ->
  exists x' P', ukf_forward_gen pinv msqrt by_cols false s Q Rm x y u P k = Some (x', P') /\
                length x' = n /\ wf n n P' /\ msym P' /\ PSD n P'.
Proof.
  intros HP Hx Hk Hnk. unfold ukf_forward_gen.
  destruct (sigma_points_spec by_cols x P k HP Hx) as (rest & -> & Lr & Hrest).
  set (w := ukf_weights n k).
  set (xs := map (fun p => sf s p u) (x :: rest)).
  set (N := S (n + n)).
  assert (HN : (0 < N)%nat) by (unfold N; lia).
  assert (Hxs : wf N n xs).
  { unfold xs. apply wf_map_rows; try assumption; [cbn; now rewrite Lr|].
    intros r [<-|Hr]; apply Hf; [assumption | now apply Hrest]. }
  set (xe := wsum_rows w xs).
  assert (Lxe : length xe = n) by (unfold xe, wsum_rows; rewrite length_mkvec; eapply wf_cols; eassumption).
  set (ex := dev_rows xe xs).
  assert (Hex : wf N n ex).
  { unfold ex, dev_rows. apply wf_map_rows; try assumption; [now destruct Hxs as (_ & _ & -> & _)|].
    intros r _. now rewrite length_vminus. }
  set (Pm := wcov ex ex w (Some Q)).
  assert (HPm : wf n n Pm) by (unfold Pm, wcov; eauto with wf).
  destruct (sigma_points_spec by_cols xe Pm k HPm Lxe) as (rest2 & -> & Lr2 & Hrest2).
  fold w. cbv zeta.
  set (ys := map (fun p => sh s p u) (xe :: rest2)).
  assert (Hys : wf N m ys).
  { unfold ys. apply wf_map_rows; try assumption; [cbn; now rewrite Lr2|].
    intros r [<-|Hr]; apply Hh; [assumption | now apply Hrest2]. }
  set (ye := wsum_rows w ys).
  assert (Lye : length ye = m) by (unfold ye, wsum_rows; rewrite length_mkvec; eapply wf_cols; eassumption).
  set (ey := dev_rows ye ys).
  assert (Hey : wf N m ey).
  { unfold ey, dev_rows. apply wf_map_rows; try assumption; [now destruct Hys as (_ & _ & -> & _)|].
    intros r _. now rewrite length_vminus. }
  eexists. eexists. split; [reflexivity|].
  assert (Hw : forall i, (i < N)%nat -> 0 <= vget w i) by (intros i _; now apply ukf_weights_nonneg).
  split; [now rewrite length_vplus|]. split; [|split].
  - eapply ukf_core_wf; eassumption.
  - eapply ukf_core_symmetric; eassumption.
  - eapply ukf_core_psd; eassumption.
Qed.
End UKFforward.

(* ================================================================== concrete witnesses *)

Ltac mcbv := cbv -[Rplus Rminus Rmult Rdiv Ropp Rinv IZR Rlt Rle Rgt Rge sqrt exp].
Ltac list_eq := repeat match goal with
  | |- (_ :: _) = (_ :: _) => apply (f_equal2 (@cons _))
  | |- [] = [] => reflexivity end.
Ltac mcompute := mcbv; list_eq; try lra; try (field; lra).

Lemma wf_lit_1x1 (a : R) : wf 1 1 [[a]].
Proof. repeat split; try lia. repeat constructor. Qed.
Lemma wf_lit_2x2 (a b c d : R) : wf 2 2 [[a; b]; [c; d]].
Proof. repeat split; try lia. repeat constructor. Qed.
Lemma wf_lit_1x2 (a b : R) : wf 1 2 [[a; b]].
Proof. repeat split; try lia. repeat constructor. Qed.
Lemma wf_lit_2x1 (a b : R) : wf 2 1 [[a]; [b]].
Proof. repeat split; try lia. repeat constructor. Qed.

Lemma PD_1x1 a : 0 < a -> PD 1 [[a]].
Proof.
  unfold PD, nonzero. intros Ha x Hx [i [Hi Hne]]. unfold qform. destruct x as [|t [|? ?]]; try discriminate.
  cbn in Hi. assert (i = 0)%nat by lia. subst i. unfold vget in Hne. cbn in Hne.
  assert (0 < t * t) by (apply (Rsqr_pos_lt t); exact Hne).
  mcbv. nra.
Qed.
Lemma PD_2x2 a b d : 0 < a -> 0 < a * d - b * b -> PD 2 [[a; b]; [b; d]].
Proof.
  unfold PD, nonzero. intros Ha Hdet x Hx [i [Hi Hne]]. destruct x as [|s [|t [|? ?]]]; try discriminate.
  mcbv. unfold vget in Hne.
  assert (E : a * (0 + s * (0 + a * s + b * t) + t * (0 + b * s + d * t)) = (a * s + b * t) * (a * s + b * t) + (a * d - b * b) * (t * t)) by ring.
  pose proof (Rle_0_sqr (a * s + b * t)) as H1; unfold Rsqr in H1.
  assert (0 < (a * s + b * t) * (a * s + b * t) + (a * d - b * b) * (t * t)).
  { destruct (Req_dec t 0) as [Ht|Ht].
    - subst t. assert (s <> 0). { destruct i as [|[|i]]; cbn in Hne; try lra. cbn in Hi. lia. }
      assert (a * s <> 0) by (apply Rmult_integral_contrapositive_currified; lra).
      pose proof (Rsqr_pos_lt (a * s) H0) as H2; unfold Rsqr in H2.
      replace (a * s + b * 0) with (a * s) by ring. lra.
    - pose proof (Rsqr_pos_lt t Ht) as H2; unfold Rsqr in H2.
      pose proof (Rmult_lt_0_compat _ _ Hdet H2). lra. }
  assert (0 < a * (0 + s * (0 + a * s + b * t) + t * (0 + b * s + d * t))) by lra.
  apply (Rmult_lt_reg_l a); [assumption|]. lra.
Qed.
Lemma msym_lit_2x2 (a b d : R) : msym [[a; b]; [b; d]].
Proof. reflexivity. Qed.
Lemma msym_lit_1x1 (a : R) : msym [[a]].
Proof. reflexivity. Qed.

Lemma pinv_value m pinv S T : pinv_ok m pinv -> SPD m S -> wf m m T ->
  mmul S T = mid m -> pinv S = T.
Proof.
  intros Hp HS HT H1. destruct (Hp S HS) as (HX & _ & HX2). destruct HS as (HS & _ & _).
  now apply (minv_unique m S).
Qed.

Definition AW : matR := [[1; 1]; [0; 1]].
Definition BW : matR := [[0]; [1]].
Definition CW : matR := [[1; 0]].
Definition DW : matR := [[0]].
Definition QW : matR := [[1; 1/2]; [1/2; 1]].
Definition RW : matR := [[1]].
Definition PW : matR := [[2; 1]; [1; 2]].
Definition xW : list R := [1; 1].
Definition uW : list R := [0].
Definition yW : list R := [0].
Definition c1W : list R := [0; 0].
Definition c2W : list R := [0].

Lemma ekf_witness_values pinv : pinv_ok 1 pinv ->
  fst (ekf_forward_old pinv (lin_system AW BW CW DW c1W c2W) QW RW xW yW uW PW) = [9/8; 9/16] /\
  fst (kf_step pinv AW BW CW DW c1W c2W QW RW xW yW uW PW) = [1/4; 1/8].
Proof.
  intros Hp.
  assert (HS : madd (mmul (mmul CW (madd (mmul (mmul AW PW) (mtr AW)) QW)) (mtr CW)) RW = [[8]]) by mcompute.
  assert (Hinv : pinv [[8]] = [[/8]]).
  { apply (pinv_value 1); [assumption | | apply wf_lit_1x1 | mcompute].
    split; [apply wf_lit_1x1 | split; [reflexivity | apply PD_1x1; lra]]. }
  split.
  - unfold ekf_forward_old, ekf_forward_gen. cbn [lin_system sf sh sA sC fst]. rewrite HS, Hinv. mcompute.
  - unfold kf_step, kf_predict, kf_update. cbn [fst]. rewrite HS, Hinv. mcompute.
Qed.

Ltac list_eq2 := repeat match goal with
  | |- (_ :: _) = (_ :: _) => apply (f_equal2 (@cons _))
  | |- [] = [] => reflexivity
  | |- Some _ = Some _ => apply f_equal
  | |- (_, _) = (_, _) => apply (f_equal2 (@pair _ _)) end.
Ltac mcompute2 := mcbv; list_eq2; try lra; try (field; lra).

Lemma chol_1x1 L a : wf 1 1 L -> diag_pos 1 L -> mmul L (mtr L) = [[a * a]] -> 0 < a -> L = [[a]].
Proof.
  intros (_ & _ & Hl & Hf) Hd H Ha.
  destruct L as [|r [|? ?]]; try discriminate. inversion Hf as [|? ? Hr _]. 
  destruct r as [|l0 [|? ?]]; try discriminate.
  specialize (Hd 0%nat ltac:(lia)). unfold mget in Hd. cbn in Hd.
  revert H. mcbv. intros H. injection H as H.
  assert (l0 = a) by nra. now subst.
Qed.

Lemma cholesky_value_1x1 msqrt a : cholesky_ok 1 msqrt -> 0 < a -> msqrt [[a * a]] = [[a]].
Proof.
  intros Hc Ha. destruct (Hc [[a * a]]) as (HL & _ & Hd & HLL).
  { split; [apply wf_lit_1x1 | split; [reflexivity | apply PD_1x1; nra]]. }
  now apply chol_1x1.
Qed.

Definition A1 : matR := [[1]].
Definition B1 : matR := [[0]].
Definition Q1 : matR := [[3]].
Definition R1 : matR := [[1]].
Definition P1 : matR := [[1]].
Definition z1 : list R := [0].
Definition y1 : list R := [1].

Lemma ukf_witness1_values pinv msqrt : pinv_ok 1 pinv -> cholesky_ok 1 msqrt ->
  ukf_forward_old pinv msqrt (lin_system A1 B1 A1 B1 z1 z1) Q1 R1 z1 y1 z1 P1 3 = Some ([2/5], [[16/5]]) /\
  kf_step pinv A1 B1 A1 B1 z1 z1 Q1 R1 z1 y1 z1 P1 = ([4/5], [[4/5]]).
Proof.
  intros Hp Hc.
  assert (H1 : msqrt [[4]] = [[2]]).
  { replace 4 with (2 * 2) by lra. apply cholesky_value_1x1; [assumption | lra]. }
  assert (H2 : msqrt [[16]] = [[4]]).
  { replace 16 with (4 * 4) by lra. apply cholesky_value_1x1; [assumption | lra]. }
  assert (Hi5 : pinv [[5]] = [[/5]]).
  { apply (pinv_value 1); [assumption | | apply wf_lit_1x1 | mcompute].
    split; [apply wf_lit_1x1 | split; [reflexivity | apply PD_1x1; lra]]. }
  assert (Hi4 : pinv [[5]] = [[/5]]) by exact Hi5.
  split.
  - unfold ukf_forward_old, ukf_forward_gen.
    assert (E1 : sigma_points_gen msqrt false z1 P1 3 = Some ([[0]; [2]; [-2]], [3/4; 1/8; 1/8])).
    { unfold sigma_points_gen. cbv zeta.
      match goal with |- context [msqrt ?M] => replace M with [[4]] by (symmetry; mcompute) end.
      rewrite H1. mcompute2. }
    rewrite E1. cbn [lin_system sf sh].
    match goal with |- context [sigma_points_gen msqrt false ?xe ?Pm ?k] =>
      assert (E2 : sigma_points_gen msqrt false xe Pm k = Some ([[0]; [4]; [-4]], [3/4; 1/8; 1/8])) end.
    { unfold sigma_points_gen. cbv zeta.
      match goal with |- context [msqrt ?M] => replace M with [[16]] by (symmetry; mcompute) end.
      rewrite H2. mcompute2. }
    rewrite E2. cbv zeta.
    match goal with |- context [pinv ?M] => replace M with [[5]] by (symmetry; mcompute) end.
    rewrite Hi5. mcompute2.
  - unfold kf_step, kf_predict, kf_update.
    match goal with |- context [pinv ?M] => replace M with [[5]] by (symmetry; mcompute) end.
    rewrite Hi5. mcompute2.
Qed.

Lemma chol_2x2 L a c d : wf 2 2 L -> lower_tri 2 L -> diag_pos 2 L ->
  mmul L (mtr L) = [[a * a; a * c]; [a * c; c * c + d * d]] -> 0 < a -> 0 < d -> L = [[a; 0]; [c; d]].
Proof.
  intros (_ & _ & Hl & Hf) Hlo Hd H Ha Hdd.
  destruct L as [|r0 [|r1 [|? ?]]]; try discriminate.
  inversion Hf as [|? ? Hr0 Hf']. inversion Hf' as [|? ? Hr1 _].
  destruct r0 as [|l00 [|l01 [|? ?]]]; try discriminate.
  destruct r1 as [|l10 [|l11 [|? ?]]]; try discriminate.
  pose proof (Hlo 0%nat 1%nat ltac:(lia) ltac:(lia) ltac:(lia)) as E01. unfold mget in E01. cbn in E01.
  pose proof (Hd 0%nat ltac:(lia)) as D0. pose proof (Hd 1%nat ltac:(lia)) as D1.
  unfold mget in D0, D1. cbn in D0, D1. subst l01.
  revert H. mcbv. intros H. injection H as E1 E2 E3 E4.
  assert (l00 = a) by nra. subst l00.
  assert (l10 = c) by nra. subst l10.
  assert (l11 = d) by nra. now subst.
Qed.

Definition I2 : matR := [[1; 0]; [0; 1]].
Definition B2 : matR := [[0]; [0]].
Definition Q2 : matR := [[1; 1/2]; [1/2; 1]].
Definition P2 : matR := [[1; 1/2]; [1/2; 1/2]].
Definition z2 : list R := [0; 0].

Lemma ukf_witness2_values msqrt : cholesky_ok 2 msqrt ->
  ukf_predict_old msqrt (lin_system I2 B2 I2 B2 z2 z2) Q2 z2 [0] P2 2 = Some ([0; 0], [[9/4; 3/4]; [3/4; 5/4]]) /\
  kf_predict I2 B2 z2 Q2 z2 [0] P2 = ([0; 0], [[2; 1]; [1; 3/2]]).
Proof.
  intros Hc.
  assert (H1 : msqrt [[4; 2]; [2; 2]] = [[2; 0]; [1; 1]]).
  { destruct (Hc [[4; 2]; [2; 2]]) as (HL & Hlo & Hd & HLL).
    { split; [apply wf_lit_2x2 | split; [reflexivity | apply PD_2x2; lra]]. }
    apply (chol_2x2 _ 2 1 1); try assumption; try lra. rewrite HLL. list_eq; lra. }
  split.
  - unfold ukf_predict_old, ukf_predict_gen.
    assert (E1 : sigma_points_gen msqrt false z2 P2 2 =
                 Some ([[0; 0]; [2; 0]; [1; 1]; [-2; 0]; [-1; -1]], [1/2; 1/8; 1/8; 1/8; 1/8])).
    { unfold sigma_points_gen. cbv zeta.
      match goal with |- context [msqrt ?M] => replace M with [[4; 2]; [2; 2]] by (symmetry; mcompute) end.
      rewrite H1. mcompute2. }
    rewrite E1. mcompute2.
  - unfold kf_predict. mcompute2.
Qed.


(* ================================================================== PF: covariance *)
Lemma ofnat_pos N : (0 < N)%nat -> 0 < ofnat (F:=R) N.
Proof. intros H. unfold ofnat. cbn. apply IZR_lt. lia. Qed.

Theorem pf_cov_valid n (ex Q : matR) N : wf N n ex -> wf n n Q -> msym Q -> PSD n Q ->
  wf n n (pf_cov ex Q) /\ msym (pf_cov ex Q) /\ PSD n (pf_cov ex Q).
Proof.
  intros Hex HQ SQ PQ. unfold pf_cov. rewrite (wf_rows N n ex Hex).
  assert (HN : (0 < N)%nat) by (eapply wf_pos_r; eassumption).
  assert (HG : wf n n (mmul (mtr ex) ex)) by eauto with wf.
  split; [eauto with wf|]. split.
  - apply (msym_madd n); eauto with wf. apply (msym_mscale n); [assumption|]. now apply (msym_gram N n).
  - apply PSD_madd; eauto with wf. intros x Hx. rewrite (qform_mscale n) by assumption.
    assert (0 <= qform (mmul (mtr ex) ex) x) by (now apply (PSD_gram N n)).
    assert (0 < ofnat (F:=R) N) by now apply ofnat_pos.
    mnum. apply Rmult_le_pos; [|assumption]. apply Rlt_le. apply Rmult_lt_0_compat; [lra | now apply Rinv_0_lt_compat].
Qed.

Theorem pf_estimate_cov_valid n (q : list R) (xs : matR) (r : list R) (Q : matR) x' P' :
  (forall p, In p xs -> length p = n) -> (0 < n)%nat -> r <> [] ->
  wf n n Q -> msym Q -> PSD n Q ->
  pf_estimate q xs r Q = Some (x', P') -> wf n n P' /\ msym P' /\ PSD n P'.
Proof.
  intros Hxs Hn Hr HQ SQ PQ. unfold pf_estimate.
  set (idx := map (searchsorted (cumsum q)) r).
  destruct (existsb (fun i => Nat.leb (length xs) i) idx) eqn:E; [discriminate|].
  intros H. injection H as _ <-.
  set (xr := map (fun i => nth i xs []) idx).
  assert (Hidx : forall i, In i idx -> (i < length xs)%nat).
  { intros i Hi. destruct (Nat.leb (length xs) i) eqn:El.
    - assert (existsb (fun i => Nat.leb (length xs) i) idx = true) by (apply existsb_exists; eauto). congruence.
    - apply Nat.leb_gt in El. exact El. }
  assert (Lidx : length idx = length r) by (unfold idx; now rewrite map_length).
  assert (HN : (0 < length r)%nat) by (destruct r; [congruence | cbn; lia]).
  apply (pf_cov_valid n _ Q (length r)); try assumption.
  apply wf_map_rows; try assumption.
  - unfold xr. now rewrite map_length.
  - intros p Hp. rewrite length_vminus. unfold xr in Hp. apply in_map_iff in Hp.
    destruct Hp as [i [<- Hi]]. apply Hxs. apply nth_In. now apply Hidx.
Qed.

(* ================================================================== softmax / normalising constant *)
Lemma fold_add_scale (e : list R) t acc :
  fold_left add (map (fun a => a * t) e) (acc * t) = fold_left add e acc * t.
Proof.
  revert acc. induction e as [|a e IH]; intros acc; [reflexivity|]. cbn [map fold_left].
  replace (add (acc * t) (a * t)) with ((add acc a) * t) by (mnum; ring). apply IH.
Qed.
Lemma fold_add_pos (e : list R) acc : (forall a, In a e -> 0 < a) -> 0 <= acc -> e <> [] -> 0 < fold_left add e acc.
Proof.
  revert acc. induction e as [|a e IH]; intros acc H Hacc Hne; [congruence|]. cbn [fold_left].
  assert (0 < a) by (apply H; now left).
  destruct e as [|b e]; [cbn; mnum; lra|].
  apply IH; [intros c Hc; apply H; now right | mnum; lra | discriminate].
Qed.

Theorem softmax_shift (l : list R) c : softmax (map (fun a => a - c) l) = softmax l.
Proof.
  destruct l as [|a0 l0]; [reflexivity|]. set (l := a0 :: l0).
  unfold softmax. cbn [texp TransR]. rewrite !map_map.
  set (t := exp (- c)).
  assert (Ht : 0 < t) by apply exp_pos.
  assert (E : forall a, exp (a - c) = exp a * t) by (intros a; unfold t; rewrite <- exp_plus; f_equal; lra).
  assert (Es : fold_left add (map (fun x => exp (x - c)) l) zero = fold_left add (map exp l) zero * t).
  { rewrite <- fold_add_scale. rewrite map_map. mnum. rewrite Rmult_0_l.
    f_equal. apply map_ext. intros a. apply E. }
  rewrite Es.
  assert (Hs : 0 < fold_left add (map exp l) zero).
  { apply fold_add_pos; [| mnum; lra | discriminate].
    intros a Ha. apply in_map_iff in Ha. destruct Ha as [b [<- _]]. apply exp_pos. }
  apply map_ext. intros a. rewrite E. mnum. field. split; lra.
Qed.

Theorem pf_forward_lognorm_irrelevant (pinv msqrt : matR -> matR) (ln1 ln2 : matR -> R) (at_prop : bool)
  (s : @system R) Q Rm x y u P eps r :
  pf_forward_gen pinv msqrt ln1 at_prop s Q Rm x y u P eps r = pf_forward_gen pinv msqrt ln2 at_prop s Q Rm x y u P eps r.
Proof.
  unfold pf_forward_gen. f_equal. unfold pf_loglik.
  set (base := fun yi : list R => (zero - half * qform (pinv Rm) (vminus y yi))%num).
  set (ye := map (fun p => sh s p u) _).
  transitivity (softmax (map base ye)).
  - rewrite <- (softmax_shift (map base ye) (ln1 Rm)). rewrite map_map. reflexivity.
  - rewrite <- (softmax_shift (map base ye) (ln2 Rm)) at 1. rewrite map_map. reflexivity.
Qed.

Theorem softmax_positive_sums_to_one (l : list R) : l <> [] ->
  (forall a, In a (softmax l) -> 0 < a) /\ fold_left add (softmax l) zero = 1.
Proof.
  intros Hl. unfold softmax. cbn [texp TransR].
  set (e := map exp l). set (s := fold_left add e zero).
  assert (Hs : 0 < s).
  { apply fold_add_pos; [| mnum; lra | unfold e; destruct l; [congruence | discriminate]].
    intros a Ha. apply in_map_iff in Ha. destruct Ha as [b [<- _]]. apply exp_pos. }
  split.
  - intros a Ha. apply in_map_iff in Ha. destruct Ha as [b [<- Hb]].
    apply in_map_iff in Hb. destruct Hb as [c [<- _]]. mnum.
    apply Rmult_lt_0_compat; [apply exp_pos | now apply Rinv_0_lt_compat].
  - change (fun a : R => (a / s)%num) with (fun a : R => a * / s).
    replace (@zero R NumR) with (@zero R NumR * / s) by (mnum; ring).
    rewrite fold_add_scale. fold s. mnum. field. lra.
Qed.

(* ================================================================== runs *)
Theorem ekf_run_app (pinv : matR -> matR) (s : @system R) Q Rm st l1 l2 :
  ekf_run pinv s Q Rm st (l1 ++ l2) = ekf_run pinv s Q Rm (ekf_run pinv s Q Rm st l1) l2.
Proof. unfold ekf_run. apply fold_left_app. Qed.
Theorem ekf_run_cons (pinv : matR -> matR) (s : @system R) Q Rm st yu l :
  ekf_run pinv s Q Rm st (yu :: l) =
  ekf_run pinv s Q Rm (ekf_forward pinv s Q Rm (fst st) (fst yu) (snd yu) (snd st)) l.
Proof. reflexivity. Qed.
Theorem ukf_run_app (pinv msqrt : matR -> matR) (s : @system R) Q Rm k st l1 l2 :
  ukf_run pinv msqrt s Q Rm k st (l1 ++ l2) = ukf_run pinv msqrt s Q Rm k (ukf_run pinv msqrt s Q Rm k st l1) l2.
Proof. unfold ukf_run. apply fold_left_app. Qed.

(* every run of any length keeps the covariance valid *)
Theorem ekf_run_cov_valid (pinv : matR -> matR) n m (s : @system R) Q Rm :
  pinv_ok m pinv ->
  (forall x u, wf n n (sA s x u)) -> (forall x u, wf m n (sC s x u)) ->
  wf n n Q -> wf m m Rm -> msym Q -> msym Rm -> PSD n Q -> PD m Rm ->
  forall steps x P, wf n n P -> msym P -> PSD n P ->
  let P' := snd (ekf_run pinv s Q Rm (x, P) steps) in wf n n P' /\ msym P' /\ PSD n P'.
Proof.
  intros Hp HA HC HQ HR SQ SR PQ PR steps.
  induction steps as [|yu steps IH]; intros x P HP SP PP; cbn zeta.
  - cbn. auto.
  - rewrite ekf_run_cons. cbn [fst snd].
    destruct (ekf_cov_symmetric_psd pinv n m s Q Rm x (fst yu) (snd yu) P true Hp (HA _ _) (HC _ _) HP HQ HR SP SQ SR PP PQ PR)
      as (W & S' & P'').
    unfold ekf_forward.
    destruct (ekf_forward_gen pinv true s Q Rm x (fst yu) (snd yu) P) as [x1 P1] eqn:E. cbn [snd] in *.
    apply (IH x1 P1); assumption.
Qed.

(* ================================================================== contracts are satisfiable *)
Example pinv_ok_1_satisfiable : pinv_ok 1 (fun M => [[1 / mget M 0 0]]).
Proof.
  intros S ((_ & _ & Hl & Hf) & _ & PS).
  destruct S as [|r [|? ?]]; try discriminate. inversion Hf as [|? ? Hr _].
  destruct r as [|a [|? ?]]; try discriminate.
  assert (Ha : 0 < a).
  { specialize (PS [1] eq_refl). unfold qform in PS. revert PS. mcbv. intros PS.
    assert (0 < 0 + 1 * (0 + a * 1)); [|lra]. apply PS. exists 0%nat. split; [cbn; lia | unfold vget; cbn; lra]. }
  split; [apply wf_lit_1x1|]. split; mcbv; list_eq; field; lra.
Qed.

Example cholesky_ok_1_satisfiable : cholesky_ok 1 (fun M => [[sqrt (mget M 0 0)]]).
Proof.
  intros S ((_ & _ & Hl & Hf) & _ & PS).
  destruct S as [|r [|? ?]]; try discriminate. inversion Hf as [|? ? Hr _].
  destruct r as [|a [|? ?]]; try discriminate.
  assert (Ha : 0 < a).
  { specialize (PS [1] eq_refl). unfold qform in PS. revert PS. mcbv. intros PS.
    assert (0 < 0 + 1 * (0 + a * 1)); [|lra]. apply PS. exists 0%nat. split; [cbn; lia | unfold vget; cbn; lra]. }
  split; [apply wf_lit_1x1|]. split; [|split].
  - intros i j Hi Hj Hij. lia.
  - intros i Hi. assert (i = 0)%nat by lia. subst. unfold mget. cbn. now apply sqrt_lt_R0.
  - unfold mget. cbn [nth]. mcbv. list_eq. rewrite Rplus_0_l. apply sqrt_sqrt. lra.
Qed.

Definition chol2 (M : matR) : matR :=
  let a := mget M 0 0 in let b := mget M 1 0 in let d := mget M 1 1 in
  [[sqrt a; 0]; [b / sqrt a; sqrt (d - b * b / a)]].

Example cholesky_ok_2_satisfiable : cholesky_ok 2 chol2.
Proof.
  intros S ((_ & _ & Hl & Hf) & SS & PS).
  destruct S as [|r0 [|r1 [|? ?]]]; try discriminate.
  inversion Hf as [|? ? Hr0 Hf']. inversion Hf' as [|? ? Hr1 _].
  destruct r0 as [|a [|b' [|? ?]]]; try discriminate.
  destruct r1 as [|b [|d [|? ?]]]; try discriminate.
  assert (Eb : b' = b). { unfold msym in SS. revert SS. mcbv. intros SS. injection SS. intros. lra. }
  subst b'.
  assert (Ha : 0 < a).
  { specialize (PS [1; 0] eq_refl). unfold qform in PS. revert PS. mcbv. intros PS.
    assert (0 < 0 + 1 * (0 + a * 1 + b * 0) + 0 * (0 + b * 1 + d * 0)); [|lra].
    apply PS. exists 0%nat. split; [cbn; lia | unfold vget; cbn; lra]. }
  assert (Hdet : 0 < a * d - b * b).
  { specialize (PS [- b; a] eq_refl). unfold qform in PS. revert PS. mcbv. intros PS.
    assert (0 < 0 + - b * (0 + a * - b + b * a) + a * (0 + b * - b + d * a)).
    { apply PS. exists 1%nat. split; [cbn; lia | unfold vget; cbn; lra]. }
    assert (0 < a * (a * d - b * b)) by lra.
    apply (Rmult_lt_reg_l a); [assumption | lra]. }
  assert (Hs : 0 < d - b * b / a).
  { apply (Rmult_lt_reg_l a); [assumption|]. replace (a * (d - b * b / a)) with (a * d - b * b) by (field; lra). lra. }
  assert (Hsa : 0 < sqrt a) by now apply sqrt_lt_R0.
  unfold chol2, mget. cbn [nth].
  split; [apply wf_lit_2x2|]. split; [|split].
  - intros i j Hi Hj Hij. assert (i = 0 /\ j = 1)%nat as [-> ->] by lia. reflexivity.
  - intros i Hi. destruct i as [|[|i]]; [cbn; assumption | cbn; now apply sqrt_lt_R0 | lia].
  - mcbv. list_eq.
    + rewrite Rplus_0_l, Rmult_0_l, Rplus_0_r. apply sqrt_sqrt. lra.
    + field; lra.
    + field; lra.
    + assert (E1 : sqrt a * sqrt a = a) by (apply sqrt_sqrt; lra).
      assert (E2 : sqrt (d - b * b / a) * sqrt (d - b * b / a) = d - b * b / a) by (apply sqrt_sqrt; lra).
      rewrite Rplus_0_l, E2.
      replace (b / sqrt a * (b / sqrt a)) with (b * b / (sqrt a * sqrt a)) by (field; lra).
      rewrite E1. field. lra.
Qed.

(* ================================================================== the clauses, and the refutations of the OLD code *)
(* EKF = KF on linear systems (the clause as the property states it), for a given forward function *)
Definition ekf_linear_is_kf_for
  (fwd : (matR -> matR) -> @system R -> matR -> matR -> list R -> list R -> list R -> matR -> list R * matR) : Prop :=
  forall (n m p : nat) (pinv : matR -> matR) (A B C D : matR) (c1 c2 : list R) (Q Rm : matR)
         (x y u : list R) (P : matR),
    pinv_ok m pinv -> wf n n A -> wf n p B -> wf m n C -> wf m p D -> length c1 = n -> length c2 = m ->
    SPD n Q -> SPD m Rm -> SPD n P -> length x = n -> length y = m -> length u = p ->
    fwd pinv (lin_system A B C D c1 c2) Q Rm x y u P = kf_step pinv A B C D c1 c2 Q Rm x y u P.
Definition ekf_linear_is_kf : Prop := ekf_linear_is_kf_for (@ekf_forward R NumR).
Definition ekf_old_linear_is_kf : Prop := ekf_linear_is_kf_for (@ekf_forward_old R NumR).

Theorem ekf_linear_is_kf_holds : ekf_linear_is_kf.
Proof.
  intros n m p pinv A B C D c1 c2 Q Rm x y u P _ HA _ _ _ _ _ _ _ (HP & _) _ _ _.
  exact (ekf_documented_linear_is_kf pinv A B C D c1 c2 Q Rm x y u P n HA HP).
Qed.

Lemma SPD_QW : SPD 2 QW.
Proof. split; [apply wf_lit_2x2 | split; [reflexivity | apply PD_2x2; lra]]. Qed.
Lemma SPD_PW : SPD 2 PW.
Proof. split; [apply wf_lit_2x2 | split; [reflexivity | apply PD_2x2; lra]]. Qed.
Lemma SPD_RW : SPD 1 RW.
Proof. split; [apply wf_lit_1x1 | split; [reflexivity | apply PD_1x1; lra]]. Qed.

Theorem ekf_old_linear_witness :
  wf 2 2 AW /\ wf 2 1 BW /\ wf 1 2 CW /\ wf 1 1 DW /\ SPD 2 QW /\ SPD 1 RW /\ SPD 2 PW /\
  forall pinv, pinv_ok 1 pinv ->
    fst (ekf_forward_old pinv (lin_system AW BW CW DW c1W c2W) QW RW xW yW uW PW) = [9/8; 9/16] /\
    fst (kf_step pinv AW BW CW DW c1W c2W QW RW xW yW uW PW) = [1/4; 1/8].
Proof.
  split; [apply wf_lit_2x2|]. split; [apply wf_lit_2x1|]. split; [apply wf_lit_1x2|]. split; [apply wf_lit_1x1|].
  split; [apply SPD_QW|]. split; [apply SPD_RW|]. split; [apply SPD_PW|]. exact ekf_witness_values.
Qed.

Theorem ekf_old_linear_is_kf_refuted : ~ ekf_old_linear_is_kf.
Proof.
  intros H.
  specialize (H 2%nat 1%nat 1%nat _ AW BW CW DW c1W c2W QW RW xW yW uW PW pinv_ok_1_satisfiable
                (wf_lit_2x2 _ _ _ _) (wf_lit_2x1 _ _) (wf_lit_1x2 _ _) (wf_lit_1x1 _) eq_refl eq_refl
                SPD_QW SPD_RW SPD_PW eq_refl eq_refl eq_refl).
  destruct (ekf_witness_values _ pinv_ok_1_satisfiable) as [E1 E2].
  rewrite H in E1. rewrite E1 in E2. injection E2. intros. lra.
Qed.

(* the five equations of the EKF documentation, spelled out *)
Definition ekf_documented (pinv : matR -> matR) (s : @system R) (Q Rm : matR) (x y u : list R) (P : matR)
  : list R * matR :=
  let A := sA s x u in
  let C := sC s x u in
  let xm := sf s x u in                                                                     (* 1 *)
  let Pm := madd (mmul (mmul A P) (mtr A)) Q in                                             (* 2 *)
  let K := mmul (mmul Pm (mtr C)) (pinv (madd (mmul (mmul C Pm) (mtr C)) Rm)) in            (* 3 *)
  (vplus xm (mapply K (vminus y (sh s xm u))),                                              (* 4 *)
   mmul (msub (mid (mcols P)) (mmul K C)) Pm).                                              (* 5 *)

Theorem ekf_nonlinear_is_documented_recursion (pinv : matR -> matR) (s : @system R) Q Rm x y u P :
  ekf_forward pinv s Q Rm x y u P = ekf_documented pinv s Q Rm x y u P.
Proof. reflexivity. Qed.

Definition ekf_old_is_documented_recursion : Prop :=
  forall (n m p : nat) (pinv : matR -> matR) (s : @system R) (Q Rm : matR) (x y u : list R) (P : matR),
    pinv_ok m pinv -> wf n n (sA s x u) -> wf m n (sC s x u) -> SPD n Q -> SPD m Rm -> SPD n P ->
    length x = n -> length y = m -> length u = p ->
    ekf_forward_old pinv s Q Rm x y u P = ekf_documented pinv s Q Rm x y u P.

Theorem ekf_old_is_documented_recursion_refuted : ~ ekf_old_is_documented_recursion.
Proof.
  intros H.
  specialize (H 2%nat 1%nat 1%nat _ (lin_system AW BW CW DW c1W c2W) QW RW xW yW uW PW pinv_ok_1_satisfiable
                (wf_lit_2x2 _ _ _ _) (wf_lit_1x2 _ _) SPD_QW SPD_RW SPD_PW eq_refl eq_refl eq_refl).
  rewrite <- ekf_nonlinear_is_documented_recursion in H.
  unfold ekf_forward in H.
  rewrite (ekf_documented_linear_is_kf _ AW BW CW DW c1W c2W QW RW xW yW uW PW 2
             (wf_lit_2x2 _ _ _ _) (wf_lit_2x2 _ _ _ _)) in H.
  destruct (ekf_witness_values _ pinv_ok_1_satisfiable) as [E1 E2].
  rewrite H in E1. rewrite E1 in E2. injection E2. intros. lra.
Qed.

(* the old code had the documented covariance; only the innovation differed *)
Theorem ekf_old_covariance_is_documented (pinv : matR -> matR) (s : @system R) Q Rm x y u P :
  snd (ekf_forward_old pinv s Q Rm x y u P) = snd (ekf_documented pinv s Q Rm x y u P).
Proof. reflexivity. Qed.

(* UKF = KF on linear systems *)
Definition ukf_linear_is_kf_for
  (fwd : (matR -> matR) -> (matR -> matR) -> @system R -> matR -> matR -> list R -> list R -> list R -> matR -> R
         -> option (list R * matR)) : Prop :=
  forall (n m p : nat) (pinv msqrt : matR -> matR) (A B C D : matR) (c1 c2 : list R) (Q Rm : matR)
         (x y u : list R) (P : matR) (k : R),
    pinv_ok m pinv -> cholesky_ok n msqrt ->
    wf n n A -> wf n p B -> wf m n C -> wf m p D -> length c1 = n -> length c2 = m ->
    SPD n Q -> SPD m Rm -> SPD n P -> length x = n -> length y = m -> length u = p ->
    - IZR (Z.of_nat n) < k ->
    fwd pinv msqrt (lin_system A B C D c1 c2) Q Rm x y u P k =
    Some (kf_step pinv A B C D c1 c2 Q Rm x y u P).
Definition ukf_linear_is_kf : Prop := ukf_linear_is_kf_for (@ukf_forward R NumR).
Definition ukf_old_linear_is_kf : Prop := ukf_linear_is_kf_for (@ukf_forward_old R NumR).

Lemma SPD_lit_1x1 a : 0 < a -> SPD 1 [[a]].
Proof. intros. split; [apply wf_lit_1x1 | split; [reflexivity | now apply PD_1x1]]. Qed.

Theorem ukf_old_linear_is_kf_refuted : ~ ukf_old_linear_is_kf.
Proof.
  intros H.
  assert (E := H 1%nat 1%nat 1%nat _ _ A1 B1 A1 B1 z1 z1 Q1 R1 z1 y1 z1 P1 3
                pinv_ok_1_satisfiable cholesky_ok_1_satisfiable
                (wf_lit_1x1 _) (wf_lit_1x1 _) (wf_lit_1x1 _) (wf_lit_1x1 _) eq_refl eq_refl
                (SPD_lit_1x1 3 ltac:(lra)) (SPD_lit_1x1 1 ltac:(lra)) (SPD_lit_1x1 1 ltac:(lra))
                eq_refl eq_refl eq_refl ltac:(cbn; lra)).
  destruct (ukf_witness1_values _ _ pinv_ok_1_satisfiable cholesky_ok_1_satisfiable) as [E1 E2].
  rewrite E1, E2 in E. injection E. intros. lra.
Qed.

(* predicted mean and covariance = Kalman prediction *)
Definition ukf_predict_linear_is_kf_predict_for
  (prd : (matR -> matR) -> @system R -> matR -> list R -> list R -> matR -> R -> option (list R * matR)) : Prop :=
  forall (n m p : nat) (msqrt : matR -> matR) (A B C D : matR) (c1 c2 : list R) (Q : matR)
         (x u : list R) (P : matR) (k : R),
    cholesky_ok n msqrt -> wf n n A -> wf n p B -> wf m n C -> wf m p D -> length c1 = n -> length c2 = m ->
    SPD n Q -> SPD n P -> length x = n -> length u = p -> - IZR (Z.of_nat n) < k ->
    prd msqrt (lin_system A B C D c1 c2) Q x u P k = Some (kf_predict A B c1 Q x u P).
Definition ukf_predict_linear_is_kf_predict : Prop := ukf_predict_linear_is_kf_predict_for (@ukf_predict R NumR).
Definition ukf_old_predict_linear_is_kf_predict : Prop := ukf_predict_linear_is_kf_predict_for (@ukf_predict_old R NumR).

Lemma SPD_Q2 : SPD 2 Q2.
Proof. split; [apply wf_lit_2x2 | split; [reflexivity | apply PD_2x2; lra]]. Qed.
Lemma SPD_P2 : SPD 2 P2.
Proof. split; [apply wf_lit_2x2 | split; [reflexivity | apply PD_2x2; lra]]. Qed.

Theorem ukf_old_predict_linear_is_kf_predict_refuted : ~ ukf_old_predict_linear_is_kf_predict.
Proof.
  intros H.
  assert (E := H 2%nat 2%nat 1%nat _ I2 B2 I2 B2 z2 z2 Q2 z2 [0] P2 2 cholesky_ok_2_satisfiable
                (wf_lit_2x2 _ _ _ _) (wf_lit_2x1 _ _) (wf_lit_2x2 _ _ _ _) (wf_lit_2x1 _ _) eq_refl eq_refl
                SPD_Q2 SPD_P2 eq_refl eq_refl ltac:(cbn; lra)).
  destruct (ukf_witness2_values _ cholesky_ok_2_satisfiable) as [E1 E2].
  rewrite E1, E2 in E. injection E. intros. lra.
Qed.

(* ================================================================== the repaired UKF is the Kalman filter *)
(* sigma points = mean +- COLUMNS of the factor, Pxy from the deviations of the SECOND sigma set
   (ukf_forward_gen true true); any factor with L L^T = M will do *)

(* ---------- list / sum helpers ---------- *)
Lemma sumn_S_first N (f : nat -> R) : sumn (S N) f = f 0%nat + sumn N (fun i => f (S i)).
Proof.
  induction N as [|N IH]; [cbn; mnum; lra|].
  change (sumn (S (S N)) f) with (add (sumn (S N) f) (f (S N))). rewrite IH. cbn. mnum. lra.
Qed.
Lemma sumn_app n m (f : nat -> R) : sumn (n + m) f = sumn n f + sumn m (fun i => f (n + i)%nat).
Proof.
  induction m as [|m IH]; [rewrite Nat.add_0_r; cbn; mnum; lra|].
  rewrite Nat.add_succ_r. cbn [sumn]. rewrite IH. mnum. lra.
Qed.
Lemma sumn_split3 n (f : nat -> R) :
  sumn (S (n + n)) f = f 0%nat + sumn n (fun i => f (S i)) + sumn n (fun i => f (S (n + i))).
Proof. rewrite sumn_S_first, sumn_app. lra. Qed.
Lemma sumn_const n (c : R) : sumn n (fun _ => c) = IZR (Z.of_nat n) * c.
Proof.
  induction n as [|n IH]; [cbn; mnum; lra|]. cbn [sumn]. rewrite IH. mnum.
  rewrite Nat2Z.inj_succ, succ_IZR. lra.
Qed.

Lemma rows_of_S {X} N (f : nat -> X) : map f (seq 0 (S N)) = f 0%nat :: map (fun i => f (S i)) (seq 0 N).
Proof. cbn. f_equal. rewrite <- seq_shift, map_map. reflexivity. Qed.
Lemma rows_of_app {X} n m (f : nat -> X) :
  map f (seq 0 (n + m)) = map f (seq 0 n) ++ map (fun i => f (n + i)%nat) (seq 0 m).
Proof.
  rewrite seq_app, map_app. f_equal. cbn.
  replace (seq n m) with (map (fun i => (n + i)%nat) (seq 0 m)); [now rewrite map_map|].
  clear. revert n. induction m as [|m IH]; intros n; [reflexivity|].
  cbn. rewrite Nat.add_0_r. f_equal. rewrite <- seq_shift, map_map. rewrite <- (IH (S n)).
  apply map_ext. intros. lia.
Qed.
Lemma map_as_rows_of {X Y} (h : X -> Y) (l : list X) (d : X) :
  map h l = map (fun i => h (nth i l d)) (seq 0 (length l)).
Proof.
  induction l as [|a l IH]; [reflexivity|]. cbn [length]. rewrite rows_of_S. cbn [nth map]. f_equal. exact IH.
Qed.

(* the (repaired) sigma points as a function of the row index *)
Definition sigma_fun (n : nat) (x : list R) (X : matR) (i : nat) : list R :=
  match i with
  | O => x
  | S i' => if Nat.ltb i' n then vplus x (nth i' X []) else vminus x (nth (i' - n) X [])
  end.
Lemma sigma_pts_rows_of n x (X : matR) : length X = n ->
  [x] ++ map (fun row => vplus x row) X ++ map (fun row => vminus x row) X = rows_of (S (n + n)) (sigma_fun n x X).
Proof.
  intros HX. unfold rows_of. rewrite rows_of_S. cbn [app sigma_fun]. f_equal.
  rewrite rows_of_app. f_equal.
  - rewrite (map_as_rows_of _ X []), HX. apply map_ext_in. intros i Hi. apply in_seq in Hi.
    replace (Nat.ltb i n) with true by (symmetry; apply Nat.ltb_lt; lia). reflexivity.
  - rewrite (map_as_rows_of _ X []), HX. apply map_ext_in. intros i Hi. apply in_seq in Hi.
    replace (Nat.ltb (n + i) n) with false by (symmetry; apply Nat.ltb_ge; lia).
    replace (n + i - n)%nat with i by lia. reflexivity.
Qed.

(* ---------- stacked matrices  (c ; c + s U ; c - s U)  ---------- *)
Definition stack_spec (n r : nat) (sgn : R) (c : list R) (U : matR) (gf : nat -> list R) : Prop :=
  (forall i, (i < S (n + n))%nat -> length (gf i) = r) /\
  (forall j, (j < r)%nat -> vget (gf 0%nat) j = vget c j) /\
  (forall i j, (i < n)%nat -> (j < r)%nat -> vget (gf (S i)) j = vget c j + sgn * mget U i j) /\
  (forall i j, (i < n)%nat -> (j < r)%nat -> vget (gf (S (n + i))) j = vget c j - sgn * mget U i j).

Lemma stack_wf n r sgn c U gf : (0 < r)%nat -> stack_spec n r sgn c U gf -> wf (S (n + n)) r (rows_of (S (n + n)) gf).
Proof. intros Hr (H & _). apply wf_rows_of; [lia | assumption | exact H]. Qed.

Lemma ukf_weights_0 n k : vget (ukf_weights n k) 0 = k / (IZR (Z.of_nat n) + k).
Proof. reflexivity. Qed.
Lemma ukf_weights_lo n k i : (i < n)%nat -> vget (ukf_weights n k) (S i) = 1 / (2 * (IZR (Z.of_nat n) + k)).
Proof.
  intros Hi. unfold ukf_weights, vget. cbn [app nth]. rewrite app_nth1 by (now rewrite repeat_length).
  apply (repeat_spec n). apply nth_In. now rewrite repeat_length.
Qed.
Lemma ukf_weights_hi n k i : (i < n)%nat -> vget (ukf_weights n k) (S (n + i)) = 1 / (2 * (IZR (Z.of_nat n) + k)).
Proof.
  intros Hi. unfold ukf_weights, vget. cbn [app nth]. rewrite app_nth2 by (rewrite repeat_length; lia).
  rewrite repeat_length. replace (n + i - n)%nat with i by lia.
  apply (repeat_spec n). apply nth_In. now rewrite repeat_length.
Qed.

(* weighted mean of a stack = its centre *)
Lemma stack_mean n r c U gf k : (0 < r)%nat -> length c = r -> IZR (Z.of_nat n) + k <> 0 ->
  stack_spec n r 1 c U gf ->
  wsum_rows (ukf_weights n k) (rows_of (S (n + n)) gf) = c.
Proof.
  intros Hr Hc Hnk HS. assert (HW := stack_wf n r 1 c U gf Hr HS).
  destruct HS as (HL & H0 & H1 & H2).
  unfold wsum_rows. rewrite (wf_cols _ _ _ HW), (wf_rows _ _ _ HW).
  apply (vec_ext r); [apply length_mkvec | assumption |].
  intros j Hj. rewrite vget_mkvec by assumption.
  rewrite sumn_split3.
  rewrite (sumn_ext n (fun i => mul (vget (ukf_weights n k) (S i)) (mget (rows_of (S (n + n)) gf) (S i) j))
                      (fun i => 1 / (2 * (IZR (Z.of_nat n) + k)) * vget c j + 1 / (2 * (IZR (Z.of_nat n) + k)) * mget U i j)).
  2:{ intros i Hi. rewrite ukf_weights_lo by assumption. rewrite mget_rows_of by lia. rewrite H1 by assumption. mnum. lra. }
  rewrite (sumn_ext n (fun i => mul (vget (ukf_weights n k) (S (n + i))) (mget (rows_of (S (n + n)) gf) (S (n + i)) j))
                      (fun i => 1 / (2 * (IZR (Z.of_nat n) + k)) * vget c j - 1 / (2 * (IZR (Z.of_nat n) + k)) * mget U i j)).
  2:{ intros i Hi. rewrite ukf_weights_hi by assumption. rewrite mget_rows_of by lia. rewrite H2 by assumption. mnum. lra. }
  rewrite sumn_plus, sumn_minus, !sumn_const, !sumn_scal_l.
  rewrite ukf_weights_0, mget_rows_of by lia. rewrite H0 by assumption. mnum. field. exact Hnk.
Qed.

(* weighted cross "covariance" of two zero-centred stacks *)
Lemma stack_gram n r s s1 s2 (U V : matR) dxf dyf k : (0 < n)%nat -> (0 < r)%nat -> (0 < s)%nat ->
  wf n r U -> wf n s V ->
  stack_spec n r s1 (vzero r) U dxf -> stack_spec n s s2 (vzero s) V dyf ->
  mmul (mtr (rowscale (ukf_weights n k) (rows_of (S (n + n)) dxf))) (rows_of (S (n + n)) dyf) =
  mscale (2 * (1 / (2 * (IZR (Z.of_nat n) + k))) * s1 * s2) (mmul (mtr U) V).
Proof.
  intros Hn Hr Hs HU HV HX HY.
  assert (WX := stack_wf n r s1 _ U dxf Hr HX). assert (WY := stack_wf n s s2 _ V dyf Hs HY).
  destruct HX as (_ & X0 & X1 & X2). destruct HY as (_ & Y0 & Y1 & Y2).
  set (N := S (n + n)) in *. set (w := ukf_weights n k).
  assert (Z0 : forall d j, (j < d)%nat -> vget (vzero d) j = 0) by (intros d j Hj; unfold vzero; now rewrite vget_mkvec).
  apply (mat_ext r s); [eauto 8 with wf | eauto 8 with wf |].
  intros a b Ha Hb.
  rewrite (mget_mmul r N s) by eauto 8 with wf.
  rewrite (mget_mscale r s) by eauto 8 with wf.
  rewrite (mget_mmul r n s) by eauto 8 with wf.
  unfold N. rewrite sumn_split3.
  rewrite (sumn_ext n (fun i => mul (mget (mtr (rowscale w (rows_of (S (n + n)) dxf))) a (S i)) (mget (rows_of (S (n + n)) dyf) (S i) b))
                      (fun i => 1 / (2 * (IZR (Z.of_nat n) + k)) * s1 * s2 * (mget (mtr U) a i * mget V i b))).
  2:{ intros i Hi. rewrite (mget_mtr (S (n + n)) r) by (eauto with wf; lia).
      rewrite (mget_rowscale (S (n + n)) r) by (assumption || lia).
      rewrite !mget_rows_of by lia. rewrite X1, Y1 by assumption. rewrite !Z0 by assumption.
      unfold w. rewrite ukf_weights_lo by assumption. rewrite (mget_mtr n r) by assumption. mnum. ring. }
  rewrite (sumn_ext n (fun i => mul (mget (mtr (rowscale w (rows_of (S (n + n)) dxf))) a (S (n + i))) (mget (rows_of (S (n + n)) dyf) (S (n + i)) b))
                      (fun i => 1 / (2 * (IZR (Z.of_nat n) + k)) * s1 * s2 * (mget (mtr U) a i * mget V i b))).
  2:{ intros i Hi. rewrite (mget_mtr (S (n + n)) r) by (eauto with wf; lia).
      rewrite (mget_rowscale (S (n + n)) r) by (assumption || lia).
      rewrite !mget_rows_of by lia. rewrite X2, Y2 by assumption. rewrite !Z0 by assumption.
      unfold w. rewrite ukf_weights_hi by assumption. rewrite (mget_mtr n r) by assumption. mnum. ring. }
  rewrite !sumn_scal_l.
  rewrite (mget_mtr (S (n + n)) r) by (eauto with wf; lia).
  rewrite (mget_rowscale (S (n + n)) r) by (assumption || lia).
  rewrite !mget_rows_of by lia. rewrite X0, Y0 by assumption. rewrite !Z0 by assumption.
  mnum. ring.
Qed.

(* ---------- scalars ---------- *)
Lemma mscale_mscale n m a b (A : matR) : wf n m A -> mscale a (mscale b A) = mscale (a * b) A.
Proof.
  intros HA. apply (mat_ext n m); [eauto with wf | eauto with wf |].
  intros i j Hi Hj. rewrite !(mget_mscale n m) by eauto with wf. mnum. ring.
Qed.
Lemma mscale_one n m (A : matR) : wf n m A -> mscale 1 A = A.
Proof.
  intros HA. apply (mat_ext n m); [eauto with wf | assumption |].
  intros i j Hi Hj. rewrite (mget_mscale n m) by assumption. mnum. ring.
Qed.
Lemma SPD_mscale n a (M : matR) : 0 < a -> SPD n M -> SPD n (mscale a M).
Proof.
  intros Ha (HM & SM & PM). split; [eauto with wf|]. split; [now apply (msym_mscale n)|].
  intros x Hx Hnz. rewrite (qform_mscale n) by assumption. apply Rmult_lt_0_compat; [assumption | now apply PM].
Qed.

(* ---------- the factor contract and the repaired sigma points ---------- *)
Definition factor_ok (n : nat) (msqrt : matR -> matR) : Prop :=
  forall M, SPD n M -> wf n n (msqrt M) /\ mmul (msqrt M) (mtr (msqrt M)) = M.

Lemma cholesky_ok_factor_ok n msqrt : cholesky_ok n msqrt -> factor_ok n msqrt.
Proof. intros H M HM. destruct (H M HM) as (W & _ & _ & E). now split. Qed.

Lemma gram_fact n r s (L M1 M2 : matR) : wf n n L -> wf r n M1 -> wf s n M2 ->
  mmul (mtr (mmul (mtr L) (mtr M1))) (mmul (mtr L) (mtr M2)) = mmul (mmul M1 (mmul L (mtr L))) (mtr M2).
Proof.
  intros HL H1 H2.
  rewrite (mtr_mmul n n r) by eauto with wf. rewrite (mtr_mtr r n), (mtr_mtr n n) by assumption.
  rewrite (mmul_assoc r n n s) by eauto 8 with wf.
  rewrite <- (mmul_assoc n n n s L) by eauto 8 with wf.
  rewrite <- (mmul_assoc r n n s) by eauto 8 with wf. reflexivity.
Qed.
Lemma gram_fact_id n s (L M2 : matR) : wf n n L -> wf s n M2 ->
  mmul (mtr (mtr L)) (mmul (mtr L) (mtr M2)) = mmul (mmul L (mtr L)) (mtr M2).
Proof.
  intros HL H2. rewrite (mtr_mtr n n) by assumption.
  rewrite <- (mmul_assoc n n n s) by eauto 8 with wf. reflexivity.
Qed.

Section Repaired.
Variable msqrt : matR -> matR.
Variables n : nat.
Hypothesis Hn : (0 < n)%nat.
Hypothesis msqrt_spec : factor_ok n msqrt.
Variable k : R.
Hypothesis Hnk : 0 < IZR (Z.of_nat n) + k.
Let nk := IZR (Z.of_nat n) + k.
Let N := S (n + n).
Let w := ukf_weights n k.

Variable x : list R.
Variable P : matR.
Hypothesis Hx : length x = n.
Hypothesis HP : SPD n P.
Let L := msqrt (mscale nk P).
Let X := mtr L.
Let pts := rows_of N (sigma_fun n x X).

Lemma rep_L : wf n n L /\ mmul L (mtr L) = mscale nk P.
Proof. apply msqrt_spec. apply SPD_mscale; assumption. Qed.
Lemma rep_X_wf : wf n n X. Proof. unfold X. destruct rep_L. eauto with wf. Qed.

Lemma sigma_points_repaired : sigma_points_gen msqrt true x P k = Some (pts, w).
Proof.
  destruct HP as (WP & _ & _). unfold sigma_points_gen. cbv zeta.
  rewrite (wf_cols n n P WP), (wf_rows n n P WP), Hx, !Nat.eqb_refl. cbn [andb negb].
  change (msqrt (mscale (add (ofnat n) k) P)) with L. fold X.
  assert (WX := rep_X_wf). rewrite (wf_rows n n X WX).
  unfold pts, N. rewrite <- sigma_pts_rows_of by (now destruct WX as (_ & _ & -> & _)).
  reflexivity.
Qed.

(* the points themselves are a stack around x with U = X *)
Lemma pts_stack : stack_spec n n 1 x X (sigma_fun n x X).
Proof.
  assert (WX := rep_X_wf).
  assert (LR : forall i, (i < n)%nat -> length (nth i X []) = n) by (intros; now apply (wf_row_length n n X)).
  split; [|split; [|split]].
  - intros [|i] Hi; [exact Hx|]. cbn [sigma_fun]. destruct (Nat.ltb i n); [now rewrite length_vplus | now rewrite length_vminus].
  - reflexivity.
  - intros i j Hi Hj. cbn [sigma_fun]. replace (Nat.ltb i n) with true by (symmetry; apply Nat.ltb_lt; lia).
    rewrite vget_vplus by lia. rewrite vget_row. mnum. lra.
  - intros i j Hi Hj. cbn [sigma_fun]. replace (Nat.ltb (n + i) n) with false by (symmetry; apply Nat.ltb_ge; lia).
    replace (n + i - n)%nat with i by lia. rewrite vget_vminus by lia. rewrite vget_row. mnum. lra.
Qed.

(* an affine map of the points is a stack around its value at x with U = X M^T *)
Lemma affine_stack r p (M Bm : matR) (c u : list R) : wf r n M -> wf r p Bm -> length c = r -> length u = p ->
  stack_spec n r 1 (lin_f M Bm c x u) (mmul X (mtr M)) (fun i => lin_f M Bm c (sigma_fun n x X i) u).
Proof.
  intros HM HB Hc Hu. assert (WX := rep_X_wf). destruct pts_stack as (PL & P0 & P1 & P2).
  assert (LF : forall q, length (lin_f M Bm c q u) = r).
  { intros q. unfold lin_f. rewrite !length_vplus. now apply (length_mapply r n). }
  assert (EF : forall q j, (j < r)%nat -> vget (lin_f M Bm c q u) j = vget (mapply M q) j + vget (mapply Bm u) j + vget c j).
  { intros q j Hj. unfold lin_f. rewrite !vget_vplus; rewrite ?length_vplus, ?(length_mapply r n) by assumption; try lia. reflexivity. }
  assert (EU : forall i j, (i < n)%nat -> (j < r)%nat -> mget (mmul X (mtr M)) i j = vget (mapply M (nth i X [])) j).
  { intros i j Hi Hj. rewrite (mget_mmul n n r) by eauto with wf. rewrite (vget_mapply r n) by assumption.
    apply sumn_ext. intros c0 Hc0. rewrite (mget_mtr r n) by assumption. rewrite vget_row. mnum. lra. }
  assert (LR : forall i, (i < n)%nat -> length (nth i X []) = n) by (intros; now apply (wf_row_length n n X)).
  split; [|split; [|split]].
  - intros i _. apply LF.
  - reflexivity.
  - intros i j Hi Hj. rewrite !EF by assumption. rewrite EU by assumption.
    cbn [sigma_fun]. replace (Nat.ltb i n) with true by (symmetry; apply Nat.ltb_lt; lia).
    rewrite (mapply_vplus r n) by (try assumption; now apply LR).
    rewrite vget_vplus by (rewrite (length_mapply r n) by assumption; lia). mnum. lra.
  - intros i j Hi Hj. rewrite !EF by assumption. rewrite EU by assumption.
    cbn [sigma_fun]. replace (Nat.ltb (n + i) n) with false by (symmetry; apply Nat.ltb_ge; lia).
    replace (n + i - n)%nat with i by lia.
    rewrite (mapply_vminus r n) by (try assumption; now apply LR).
    rewrite vget_vminus by (rewrite (length_mapply r n) by assumption; lia). mnum. lra.
Qed.

(* deviations of a stack from its centre *)
Lemma dev_stack r c U gf : length c = r -> stack_spec n r 1 c U gf ->
  stack_spec n r (-1) (vzero r) U (fun i => vminus c (gf i)).
Proof.
  intros Hc (SL & S0 & S1 & S2).
  assert (Z0 : forall j, (j < r)%nat -> vget (vzero r) j = 0) by (intros j Hj; unfold vzero; now rewrite vget_mkvec).
  split; [|split; [|split]].
  - intros i _. now rewrite length_vminus.
  - intros j Hj. rewrite vget_vminus by lia. rewrite S0, Z0 by assumption. mnum. lra.
  - intros i j Hi Hj. rewrite vget_vminus by lia. rewrite S1, Z0 by assumption. mnum. lra.
  - intros i j Hi Hj. rewrite vget_vminus by lia. rewrite S2, Z0 by assumption. mnum. lra.
Qed.

Lemma map_rows_of {Y} (g : list R -> Y) f : map g (rows_of N f) = map (fun i => g (f i)) (seq 0 N).
Proof. unfold rows_of. now rewrite map_map. Qed.

(* moments of an affine image of the sigma points *)
Lemma repaired_mean r p (M Bm : matR) (c u : list R) : (0 < r)%nat -> wf r n M -> wf r p Bm -> length c = r -> length u = p ->
  wsum_rows w (map (fun q => lin_f M Bm c q u) pts) = lin_f M Bm c x u.
Proof.
  intros Hr HM HB Hc Hu. unfold pts. rewrite map_rows_of.
  apply (stack_mean n r _ (mmul X (mtr M))); try assumption.
  - unfold lin_f. rewrite !length_vplus. now apply (length_mapply r n).
  - unfold nk in Hnk. lra.
  - now apply (affine_stack r p).
Qed.

Lemma two_wr : 2 * (1 / (2 * nk)) * -1 * -1 * nk = 1.
Proof. unfold nk in *. field. lra. Qed.

Lemma repaired_cov r s p (M1 B1 M2 B2 : matR) (c1 c2 u : list R) :
  (0 < r)%nat -> (0 < s)%nat -> wf r n M1 -> wf r p B1 -> length c1 = r -> wf s n M2 -> wf s p B2 -> length c2 = s -> length u = p ->
  mmul (mtr (rowscale w (dev_rows (lin_f M1 B1 c1 x u) (map (fun q => lin_f M1 B1 c1 q u) pts))))
       (dev_rows (lin_f M2 B2 c2 x u) (map (fun q => lin_f M2 B2 c2 q u) pts))
  = mmul (mmul M1 P) (mtr M2).
Proof.
  intros Hr Hs H1 HB1 Hc1 H2 HB2 Hc2 Hu. destruct rep_L as (WL & EL). assert (WX := rep_X_wf).
  destruct HP as (WP & _ & _).
  unfold pts, dev_rows. rewrite !map_rows_of. rewrite !map_map.
  assert (L1 : length (lin_f M1 B1 c1 x u) = r) by (unfold lin_f; rewrite !length_vplus; now apply (length_mapply r n)).
  assert (L2 : length (lin_f M2 B2 c2 x u) = s) by (unfold lin_f; rewrite !length_vplus; now apply (length_mapply s n)).
  change (map (fun i => vminus (lin_f M1 B1 c1 x u) (lin_f M1 B1 c1 (sigma_fun n x X i) u)) (seq 0 N))
    with (rows_of N (fun i => vminus (lin_f M1 B1 c1 x u) (lin_f M1 B1 c1 (sigma_fun n x X i) u))).
  change (map (fun i => vminus (lin_f M2 B2 c2 x u) (lin_f M2 B2 c2 (sigma_fun n x X i) u)) (seq 0 N))
    with (rows_of N (fun i => vminus (lin_f M2 B2 c2 x u) (lin_f M2 B2 c2 (sigma_fun n x X i) u))).
  unfold N, w.
  rewrite (stack_gram n r s (-1) (-1) (mmul X (mtr M1)) (mmul X (mtr M2))); try assumption; eauto with wf.
  2:{ apply (dev_stack r _ _ (fun i => lin_f M1 B1 c1 (sigma_fun n x X i) u) L1). now apply (affine_stack r p). }
  2:{ apply (dev_stack s _ _ (fun i => lin_f M2 B2 c2 (sigma_fun n x X i) u) L2). now apply (affine_stack s p). }
  unfold X. rewrite (gram_fact n r s) by assumption. rewrite EL.
  rewrite (mmul_mscale_r r n n) by assumption.
  rewrite (mmul_mscale_l r n s) by eauto with wf.
  rewrite (mscale_mscale r s) by eauto 8 with wf.
  fold nk. rewrite two_wr. apply (mscale_one r s). eauto 8 with wf.
Qed.

Lemma repaired_cross s p (M2 B2 : matR) (c2 u : list R) :
  (0 < s)%nat -> wf s n M2 -> wf s p B2 -> length c2 = s -> length u = p ->
  mmul (mtr (rowscale w (dev_rows x pts)))
       (dev_rows (lin_f M2 B2 c2 x u) (map (fun q => lin_f M2 B2 c2 q u) pts))
  = mmul P (mtr M2).
Proof.
  intros Hs H2 HB2 Hc2 Hu. destruct rep_L as (WL & EL). assert (WX := rep_X_wf).
  destruct HP as (WP & _ & _).
  unfold pts, dev_rows. rewrite !map_rows_of. rewrite !map_map.
  assert (L2 : length (lin_f M2 B2 c2 x u) = s) by (unfold lin_f; rewrite !length_vplus; now apply (length_mapply s n)).
  change (map (fun i => vminus x (sigma_fun n x X i)) (seq 0 N))
    with (rows_of N (fun i => vminus x (sigma_fun n x X i))).
  change (map (fun i => vminus (lin_f M2 B2 c2 x u) (lin_f M2 B2 c2 (sigma_fun n x X i) u)) (seq 0 N))
    with (rows_of N (fun i => vminus (lin_f M2 B2 c2 x u) (lin_f M2 B2 c2 (sigma_fun n x X i) u))).
  unfold N, w.
  rewrite (stack_gram n n s (-1) (-1) X (mmul X (mtr M2))); try assumption; eauto with wf.
  2:{ apply (dev_stack n _ _ (sigma_fun n x X) Hx). apply pts_stack. }
  2:{ apply (dev_stack s _ _ (fun i => lin_f M2 B2 c2 (sigma_fun n x X i) u) L2). now apply (affine_stack s p). }
  unfold X. rewrite (gram_fact_id n s) by assumption. rewrite EL.
  rewrite (mmul_mscale_l n n s) by eauto with wf.
  rewrite (mscale_mscale n s) by eauto 8 with wf.
  fold nk. rewrite two_wr. apply (mscale_one n s). eauto 8 with wf.
Qed.
End Repaired.

(* P - K S K^T = (I - K C) P  for the Kalman gain *)
Lemma kf_cov_forms (pinv : matR -> matR) n m (Pm C Rm : matR) : pinv_ok m pinv ->
  wf n n Pm -> msym Pm -> PSD n Pm -> wf m n C -> SPD m Rm ->
  let S := madd (mmul (mmul C Pm) (mtr C)) Rm in
  let K := mmul (mmul Pm (mtr C)) (pinv S) in
  msub Pm (mmul (mmul K S) (mtr K)) = mmul (msub (mid n) (mmul K C)) Pm.
Proof.
  intros Hp HPm SPm PPm HC (HR & SR & PR) S K.
  assert (Hn : (0 < n)%nat) by (eapply wf_pos_r; exact HPm).
  assert (HS : SPD m S).
  { unfold S. apply SPD_of_psd_plus_pd; try assumption; [eauto 8 with wf | now apply (msym_congr m n) | now apply (PSD_congr m n)]. }
  destruct (Hp S HS) as (HSi & HI1 & HI2). destruct HS as (WS & SS & _).
  assert (SSi : msym (pinv S)) by now apply (minv_sym m S).
  assert (HK : wf n m K) by (unfold K; eauto 8 with wf).
  rewrite (mmul_msub_l n n n) by eauto 8 with wf. rewrite (mmul_mid_l n n) by assumption. f_equal.
  assert (EKt : mtr K = mmul (pinv S) (mmul C Pm)).
  { unfold K. rewrite (mtr_mmul n m m) by eauto 8 with wf. rewrite SSi.
    rewrite (mtr_mmul n n m) by eauto with wf. rewrite (mtr_mtr m n) by assumption. now rewrite SPm. }
  rewrite EKt.
  rewrite (mmul_assoc n m m n) by eauto 8 with wf.
  rewrite <- (mmul_assoc m m m n S) by eauto 8 with wf. rewrite HI1.
  rewrite (mmul_mid_l m n) by eauto with wf.
  symmetry. apply (mmul_assoc n m n n); eauto with wf.
Qed.

Theorem ukf_repaired_linear_is_kf (n m p : nat) (pinv msqrt : matR -> matR) (A B C D : matR) (c1 c2 : list R)
  (Q Rm : matR) (x y u : list R) (P : matR) (k : R) :
  pinv_ok m pinv -> factor_ok n msqrt ->
  wf n n A -> wf n p B -> wf m n C -> wf m p D -> length c1 = n -> length c2 = m ->
  SPD n Q -> SPD m Rm -> SPD n P -> length x = n -> length u = p ->
  0 < IZR (Z.of_nat n) + k ->
  ukf_forward_gen pinv msqrt true true (lin_system A B C D c1 c2) Q Rm x y u P k =
  Some (kf_step pinv A B C D c1 c2 Q Rm x y u P).
Proof.
  intros Hp Hs HA HB HC HD Hc1 Hc2 HQ HR HP Hx Hu Hnk.
  assert (Hn : (0 < n)%nat) by (eapply wf_pos_r; exact HA).
  assert (Hm : (0 < m)%nat) by (eapply wf_pos_r; exact HC).
  destruct HQ as (WQ & SQ & PQ). destruct HP as (WP & SP & PP).
  set (xm := lin_f A B c1 x u).
  assert (Lxm : length xm = n) by (unfold xm, lin_f; rewrite !length_vplus; now apply (length_mapply n n)).
  set (Pm := madd (mmul (mmul A P) (mtr A)) Q).
  assert (PSDP : PSD n P) by now apply PD_PSD.
  assert (HPm : SPD n Pm).
  { unfold Pm. apply SPD_of_psd_plus_pd; try assumption; [eauto 8 with wf | now apply (msym_congr n n) | now apply (PSD_congr n n)]. }
  unfold ukf_forward_gen.
  rewrite (sigma_points_repaired msqrt n Hs k Hnk x P Hx (conj WP (conj SP PP))).
  cbv zeta. cbn [lin_system sf sh].
  rewrite (repaired_mean msqrt n Hn Hs k Hnk x P Hx (conj WP (conj SP PP)) n p A B c1 u Hn HA HB Hc1 Hu).
  unfold wcov.
  rewrite (repaired_cov msqrt n Hn Hs k Hnk x P Hx (conj WP (conj SP PP)) n n p A B A B c1 c1 u Hn Hn HA HB Hc1 HA HB Hc1 Hu).
  rewrite (madd_comm n n Q) by eauto 8 with wf. fold Pm. fold xm.
  rewrite (sigma_points_repaired msqrt n Hs k Hnk xm Pm Lxm HPm).
  rewrite (repaired_mean msqrt n Hn Hs k Hnk xm Pm Lxm HPm m p C D c2 u Hm HC HD Hc2 Hu).
  unfold wcov.
  rewrite (repaired_cov msqrt n Hn Hs k Hnk xm Pm Lxm HPm m m p C D C D c2 c2 u Hm Hm HC HD Hc2 HC HD Hc2 Hu).
  rewrite (repaired_cross msqrt n Hn Hs k Hnk xm Pm Lxm HPm m p C D c2 u Hm HC HD Hc2 Hu).
  destruct HPm as (WPm & SPm & PPm).
  rewrite (madd_comm m m Rm) by (destruct HR as (WR & _); eauto 8 with wf).
  unfold kf_step, kf_predict, kf_update. fold xm Pm.
  rewrite (wf_rows n n Pm WPm).
  f_equal. f_equal.
  apply (kf_cov_forms pinv n m Pm C Rm); try assumption. now apply PD_PSD.
Qed.


(* ================================================================== the clauses hold for the current code *)
Theorem ukf_linear_is_kf_holds : ukf_linear_is_kf.
Proof.
  intros n m p pinv msqrt A B C D c1 c2 Q Rm x y u P k Hp Hc HA HB HC HD Hc1 Hc2 HQ HR HP Hx _ Hu Hk.
  unfold ukf_forward. apply (ukf_repaired_linear_is_kf n m p); try assumption; [now apply cholesky_ok_factor_ok | lra].
Qed.

Theorem ukf_predict_linear_is_kf_predict_holds : ukf_predict_linear_is_kf_predict.
Proof.
  intros n m p msqrt A B C D c1 c2 Q x u P k Hc HA HB HC HD Hc1 Hc2 (WQ & SQ & PQ) HP Hx Hu Hk.
  assert (Hs := cholesky_ok_factor_ok n msqrt Hc).
  assert (Hn : (0 < n)%nat) by (eapply wf_pos_r; exact HA).
  assert (Hnk : 0 < IZR (Z.of_nat n) + k) by lra.
  unfold ukf_predict, ukf_predict_gen, kf_predict.
  rewrite (sigma_points_repaired msqrt n Hs k Hnk x P Hx HP).
  cbv zeta. cbn [lin_system sf].
  rewrite (repaired_mean msqrt n Hn Hs k Hnk x P Hx HP n p A B c1 u Hn HA HB Hc1 Hu).
  unfold wcov.
  rewrite (repaired_cov msqrt n Hn Hs k Hnk x P Hx HP n n p A B A B c1 c1 u Hn Hn HA HB Hc1 HA HB Hc1 Hu).
  destruct HP as (WP & _). rewrite (madd_comm n n Q) by eauto 8 with wf. reflexivity.
Qed.

(* ================================================================== UKF covariance of the current code *)
Lemma PSD_wgram N n (w : list R) (E : matR) : wf N n E -> (forall i, (i < N)%nat -> 0 <= vget w i) ->
  PSD n (mmul (mtr (rowscale w E)) E).
Proof.
  intros HE Hw x Hx. unfold qform. rewrite (vdot_wgram N n n) by assumption.
  apply sumn_nonneg. intros i Hi. specialize (Hw i Hi).
  pose proof (Rle_0_sqr (vget (mapply E x) i)) as HH. unfold Rsqr in HH.
  rewrite Rmult_assoc. now apply Rmult_le_pos.
Qed.
Lemma PD_madd_l n (A B : matR) : wf n n A -> wf n n B -> PD n A -> PSD n B -> PD n (madd A B).
Proof.
  intros HA HB PA PB x Hx Hn. rewrite (qform_madd n) by assumption.
  specialize (PA x Hx Hn). specialize (PB x Hx). lra.
Qed.
(* the zero matrix, as 0 * I *)
Definition Zm (n : nat) : matR := mscale 0 (mid n).
Lemma Zm_wf n : (0 < n)%nat -> wf n n (Zm n). Proof. intros. unfold Zm. eauto with wf. Qed.
Lemma Zm_sym n : (0 < n)%nat -> msym (Zm n).
Proof. intros H. unfold Zm. apply (msym_mscale n); [eauto with wf | now apply mtr_mid]. Qed.
Lemma Zm_psd n : (0 < n)%nat -> PSD n (Zm n).
Proof. intros H x Hx. unfold Zm. rewrite (qform_mscale n) by eauto with wf. lra. Qed.
Lemma Zm_madd n (G : matR) : wf n n G -> madd (Zm n) G = G.
Proof.
  intros HG. assert (Hn : (0 < n)%nat) by (eapply wf_pos_r; exact HG).
  apply (mat_ext n n); [apply wf_madd; now apply Zm_wf | assumption |].
  intros i j Hi Hj. rewrite (mget_madd n n) by (try assumption; now apply Zm_wf).
  unfold Zm. rewrite (mget_mscale n n) by eauto with wf. mnum. lra.
Qed.

(* sample covariance of the (column) sigma points about their centre = the matrix they were built from *)
Lemma repaired_self msqrt n (Hn : (0 < n)%nat) (Hs : factor_ok n msqrt) k (Hnk : 0 < IZR (Z.of_nat n) + k)
  x (P : matR) (Hx : length x = n) (HP : SPD n P) :
  let pts := rows_of (S (n + n)) (sigma_fun n x (mtr (msqrt (mscale (IZR (Z.of_nat n) + k) P)))) in
  mmul (mtr (rowscale (ukf_weights n k) (dev_rows x pts))) (dev_rows x pts) = P.
Proof.
  cbv zeta. destruct (rep_L msqrt n Hs k Hnk P HP) as (WL & EL).
  assert (WX := rep_X_wf msqrt n Hs k Hnk P HP).
  set (X := mtr (msqrt (mscale (IZR (Z.of_nat n) + k) P))) in *.
  assert (WP : wf n n P) by (destruct HP; assumption).
  unfold dev_rows, rows_of. rewrite !map_map.
  change (map (fun i => vminus x (sigma_fun n x X i)) (seq 0 (S (n + n))))
    with (rows_of (S (n + n)) (fun i => vminus x (sigma_fun n x X i))).
  assert (DS : stack_spec n n (-1) (vzero n) X (fun i => vminus x (sigma_fun n x X i))).
  { apply (dev_stack n Hn x Hx n x X (sigma_fun n x X) Hx). exact (pts_stack msqrt n Hn Hs k Hnk x P Hx HP). }
  rewrite (stack_gram n n n (-1) (-1) X X _ _ k Hn Hn Hn WX WX DS DS).
  unfold X in *. rewrite (mtr_mtr n n) by assumption. rewrite EL.
  rewrite (mscale_mscale n n) by assumption. rewrite (two_wr n k Hnk). now apply (mscale_one n n).
Qed.

Section UKFnow.
Variable pinv : matR -> matR.
Variable msqrt : matR -> matR.
Variables n m : nat.
Hypothesis pinv_spec : pinv_ok m pinv.
Hypothesis msqrt_spec : factor_ok n msqrt.
Hypothesis Hn : (0 < n)%nat.
Hypothesis Hm : (0 < m)%nat.
Variable s : @system R.
Variable u : list R.
Hypothesis Hf : forall p, length p = n -> length (sf s p u) = n.
Hypothesis Hh : forall p, length p = n -> length (sh s p u) = m.
Variables Q Rm : matR.
Hypothesis HQ : SPD n Q.
Hypothesis HR : SPD m Rm.

(* UKF.forward as coded, any (nonlinear) system, non-negative centre weight: the call returns and the
   covariance is symmetric positive definite *)
Theorem ukf_cov_spd x y (P : matR) k :
  SPD n P -> length x = n -> 0 <= k -> 0 < IZR (Z.of_nat n) + k ->
  exists x' P', ukf_forward pinv msqrt s Q Rm x y u P k = Some (x', P') /\ length x' = n /\ SPD n P'.
Proof.
  intros HP Hx Hk Hnk. destruct HQ as (WQ & SQ & PQ). destruct HR as (WR & SR & PR).
  unfold ukf_forward, ukf_forward_gen.
  rewrite (sigma_points_repaired msqrt n msqrt_spec k Hnk x P Hx HP).
  set (N := S (n + n)). set (w := ukf_weights n k).
  assert (HN : (0 < N)%nat) by (unfold N; lia).
  assert (Hw : forall i, (i < N)%nat -> 0 <= vget w i) by (intros i _; now apply ukf_weights_nonneg).
  set (pts := rows_of N (sigma_fun n x (mtr (msqrt (mscale (IZR (Z.of_nat n) + k) P))))).
  assert (Lpts : length pts = N) by (unfold pts, rows_of; now rewrite map_length, seq_length).
  assert (Rpts : forall r, In r pts -> length r = n).
  { intros r Hr. unfold pts, rows_of in Hr. apply in_map_iff in Hr. destruct Hr as [i [<- Hi]]. apply in_seq in Hi.
    destruct (pts_stack msqrt n Hn msqrt_spec k Hnk x P Hx HP) as (PL & _). apply PL. unfold N in Hi. lia. }
  cbv zeta.
  set (xs := map (fun p => sf s p u) pts).
  assert (Hxs : wf N n xs) by (unfold xs; apply wf_map_rows; try assumption; intros r Hr; apply Hf; now apply Rpts).
  set (xe := wsum_rows w xs).
  assert (Lxe : length xe = n) by (unfold xe, wsum_rows; rewrite length_mkvec; eapply wf_cols; eassumption).
  set (ex := dev_rows xe xs).
  assert (Hex : wf N n ex).
  { unfold ex, dev_rows. apply wf_map_rows; try assumption; [now destruct Hxs as (_ & _ & -> & _)|].
    intros r _. now rewrite length_vminus. }
  set (Pm := wcov ex ex w (Some Q)).
  assert (HPm : SPD n Pm).
  { unfold Pm, wcov. split; [eauto with wf|]. split.
    - apply (msym_madd n); eauto 8 with wf. now apply (msym_wgram N n).
    - apply PD_madd_l; eauto 8 with wf. now apply (PSD_wgram N n). }
  rewrite (sigma_points_repaired msqrt n msqrt_spec k Hnk xe Pm Lxe HPm).
  fold N. fold w.
  set (pts2 := rows_of N (sigma_fun n xe (mtr (msqrt (mscale (IZR (Z.of_nat n) + k) Pm))))).
  assert (Lpts2 : length pts2 = N) by (unfold pts2, rows_of; now rewrite map_length, seq_length).
  assert (Rpts2 : forall r, In r pts2 -> length r = n).
  { intros r Hr. unfold pts2, rows_of in Hr. apply in_map_iff in Hr. destruct Hr as [i [<- Hi]]. apply in_seq in Hi.
    destruct (pts_stack msqrt n Hn msqrt_spec k Hnk xe Pm Lxe HPm) as (PL & _). apply PL. unfold N in Hi. lia. }
  set (ex' := dev_rows xe pts2).
  assert (Hex' : wf N n ex').
  { unfold ex', dev_rows. apply wf_map_rows; try assumption. intros r _. now rewrite length_vminus. }
  set (ys := map (fun p => sh s p u) pts2).
  assert (Hys : wf N m ys) by (unfold ys; apply wf_map_rows; try assumption; intros r Hr; apply Hh; now apply Rpts2).
  set (ye := wsum_rows w ys).
  assert (Lye : length ye = m) by (unfold ye, wsum_rows; rewrite length_mkvec; eapply wf_cols; eassumption).
  set (ey := dev_rows ye ys).
  assert (Hey : wf N m ey).
  { unfold ey, dev_rows. apply wf_map_rows; try assumption; [now destruct Hys as (_ & _ & -> & _)|].
    intros r _. now rewrite length_vminus. }
  eexists. eexists. split; [reflexivity|]. split; [now rewrite length_vplus|].
  (* the predicted covariance is the sample covariance of the second sigma set *)
  assert (EPm : Pm = wcov ex' ex' w (Some (Zm n))).
  { unfold wcov, ex', pts2, w, N.
    rewrite (repaired_self msqrt n Hn msqrt_spec k Hnk xe Pm Lxe HPm).
    symmetry. apply Zm_madd. now destruct HPm. }
  rewrite EPm at 1.
  split; [|split].
  - eapply ukf_core_wf. now apply Zm_wf.
  - eapply ukf_core_symmetric; try eassumption; [now apply Zm_wf | now apply Zm_sym].
  - eapply ukf_core_pd; try eassumption; [now apply Zm_wf | now apply Zm_psd |].
    rewrite <- EPm. now destruct HPm as (_ & _ & ?).
Qed.
End UKFnow.

Theorem ukf_run_cov_valid (pinv msqrt : matR -> matR) n m (s : @system R) Q Rm k :
  pinv_ok m pinv -> factor_ok n msqrt -> (0 < n)%nat -> (0 < m)%nat ->
  (forall p u, length p = n -> length (sf s p u) = n) -> (forall p u, length p = n -> length (sh s p u) = m) ->
  SPD n Q -> SPD m Rm -> 0 <= k -> 0 < IZR (Z.of_nat n) + k ->
  forall steps x P, SPD n P -> length x = n ->
  exists x' P', ukf_run pinv msqrt s Q Rm k (Some (x, P)) steps = Some (x', P') /\ length x' = n /\ SPD n P'.
Proof.
  intros Hp Hs Hn Hm Hf Hh HQ HR Hk Hnk steps.
  induction steps as [|yu steps IH]; intros x P HP Hx.
  - exists x, P. split; [reflexivity|]. split; assumption.
  - unfold ukf_run. cbn [fold_left fst snd].
    destruct (ukf_cov_spd pinv msqrt n m Hp Hs Hn Hm s (snd yu) (fun p => Hf p _) (fun p => Hh p _) Q Rm HQ HR
                x (fst yu) P k HP Hx Hk Hnk) as (x1 & P1 & E & L1 & S1).
    rewrite E. exact (IH x1 P1 S1 L1).
Qed.
