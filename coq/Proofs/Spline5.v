(* C19 (splines, part 5): constant-twist motions on SE3 for PURE TRANSLATIONS xi = (tau, 0) - the other
   closed family of the modelled se3_Exp (Exp (a tau, 0) = (a tau, identity) exactly, for every a and
   every eps >= 0).  Every q < 1, every k, every N >= 4; no regime hypothesis. *)
From Coq Require Import Reals Lra Psatz List ZArith Lia.
Import ListNotations.
From PV Require Import Base.Num Base.RTac Base.ListAux Model.LieGroup Model.LieExp Model.LieLog Model.Spline
  Model.Metric Proofs.LieGroup Proofs.LieExp Proofs.LieLog Proofs.LieLog2 Proofs.Spline Proofs.Metric Proofs.Spline2 Proofs.Spline3.
Local Open Scope R_scope.
#[local] Remove Hints NumQ NumZ : typeclass_instances.

Lemma so3_Jl_at_zero (eps : R) (v : vec3R) : 0 <= eps -> mvmul (so3_Jl eps vzero) v = v.
Proof.
  intros He. unfold so3_Jl, so3_Jl_coef. rewrite vnorm_zero.
  replace (ltb eps 0) with false by (symmetry; cbn; now apply Rltb_false). cbn [fst snd].
  destruct v as [[a b] c]. lie_unfold. split_pairs; ring.
Qed.
Lemma se3_exp_translation (eps : R) (tau : vec3R) (a : R) : 0 <= eps ->
  se3_exp eps (se3_scale a (tau, vzero)) = (vscale a tau, SO3_id).
Proof.
  intros He. unfold se3_exp, se3_scale. cbn [fst snd]. rewrite vscale_zero, so3_Jl_at_zero, so3_exp_zero by assumption.
  reflexivity.
Qed.
Lemma so3_Jl_inv_at_zero (eps : R) (v : vec3R) : mvmul (so3_Jl_inv eps vzero) v = v.
Proof. unfold so3_Jl_inv. destruct v as [[a b] c]. generalize (so3_Jl_inv_coef eps (vnorm vzero)). intros k. lie_unfold. split_pairs; ring. Qed.
Lemma SE3_log_translation (eps : R) (t : vec3R) : SE3_log eps (t, SO3_id) = (t, vzero).
Proof. unfold SE3_log. cbn [fst snd]. rewrite SO3_log_id. now rewrite so3_Jl_inv_at_zero. Qed.

Section TranslationTwist.
Variable eps : R.
Variables (T0 : se3R) (tau : vec3R).
Hypothesis He : 0 <= eps.
Hypothesis HT0 : valid_SE3 T0.
Local Notation E a := (se3_exp eps (se3_scale a (tau, vzero))).

Lemma Et_valid a : valid_SE3 (E a).
Proof. rewrite se3_exp_translation by assumption. apply unitq_id. Qed.
Lemma Et_mul a b : SE3_mul (E a) (E b) = E (a + b).
Proof.
  rewrite !se3_exp_translation by assumption. unfold SE3_mul. cbn [fst snd]. rewrite SO3_act_id, SO3_id_l.
  apply pair_eq; [|reflexivity]. destruct tau as [[x y] z]. lie_unfold. split_pairs; ring.
Qed.
Lemma Et_log1 : SE3_log eps (E 1) = (tau, vzero).
Proof.
  rewrite se3_exp_translation by assumption. rewrite SE3_log_translation. apply pair_eq; [|reflexivity].
  destruct tau as [[x y] z]. lie_unfold. split_pairs; ring.
Qed.
Lemma twist_rel_t (a : R) :
  SE3_log eps (SE3_mul (SE3_inv (SE3_mul T0 (E a))) (SE3_mul T0 (E (a + 1)))) = (tau, vzero).
Proof.
  pose proof (Et_valid a) as Hv. rewrite SE3_rel_left by assumption. rewrite <- Et_mul.
  rewrite <- SE3_mul_assoc by (try assumption; now apply valid_SE3_inv).
  rewrite SE3_inv_l by assumption. rewrite SE3_id_l. apply Et_log1.
Qed.
Lemma bs_seg_SE3_twist_t (i : Z) (w0 w1 w2 : R) :
  bs_seg_SE3 (F:=R) eps (SE3_mul T0 (E (IZR i)), SE3_mul T0 (E (IZR (i + 1))),
                         SE3_mul T0 (E (IZR (i + 1 + 1))), SE3_mul T0 (E (IZR (i + 1 + 1 + 1)))) (w0, w1, w2)
  = SE3_mul T0 (E (IZR i + (w0 + w1 + w2))).
Proof.
  unfold bs_seg_SE3, bs_seg. rewrite !plus_IZR. rewrite !twist_rel_t.
  rewrite !Et_mul. rewrite SE3_mul_assoc by (try assumption; apply Et_valid). now rewrite Et_mul.
Qed.
End TranslationTwist.

Theorem bspline_SE3_constant_translation (eps : R) k q (T0 : se3R) (tau : vec3R) N (d : se3R) :
  0 <= eps -> q < 1 -> (4 <= N)%nat -> valid_SE3 T0 ->
  exists out, bspline_SE3 (F:=R) eps k q false (twist_path_SE3 eps T0 (tau, vzero) N) = Some out /\
    (forall i j, (i + 3 < N)%nat -> (j < k)%nat ->
       nth (i * k + j) out d = SE3_mul T0 (vscale (INR i + 1 + INR j * q) tau, SO3_id)) /\
    nth ((N - 3) * k) out d = SE3_mul T0 (vscale (INR N - 2) tau, SO3_id).
Proof.
  intros He Hq HN HT0. unfold twist_path_SE3, bspline_SE3.
  set (P := twist_path se3R (vec3R * vec3R) SE3_mul (se3_exp eps) se3_scale T0 (tau, vzero) N).
  assert (HlenP : length P = N) by (unfold P, twist_path; now rewrite map_length, length_zrange).
  rewrite bspline_unfold by assumption.
  pose proof (length_windows4 P) as HL. rewrite HlenP in HL.
  destruct (windows4 se3R P) as [|W0 ws] eqn:E; [cbn in HL; lia|]. rewrite <- E in *.
  eexists; split; [reflexivity|].
  assert (Hnth : forall n, (n < N)%nat -> nth n P d = SE3_mul T0 (se3_exp eps (se3_scale (IZR (Z.of_nat n)) (tau, vzero)))).
  { intros n Hn. unfold P, twist_path. rewrite (nth_map_d _ _ _ _ 0%Z) by (now rewrite length_zrange).
    now rewrite nth_zrange. }
  assert (Hwin : forall i, (i + 3 < N)%nat -> forall w0 w1 w2,
     bs_seg_SE3 (F:=R) eps (nth i (windows4 se3R P) W0) (w0, w1, w2)
     = SE3_mul T0 (vscale (INR i + (w0 + w1 + w2)) tau, SO3_id)).
  { intros i Hi w0 w1 w2. rewrite (nth_windows4 P i d W0) by (rewrite HlenP; lia).
    rewrite !Hnth by lia.
    replace (Z.of_nat (i + 1)) with (Z.of_nat i + 1)%Z by lia.
    replace (Z.of_nat (i + 2)) with (Z.of_nat i + 1 + 1)%Z by lia.
    replace (Z.of_nat (i + 3)) with (Z.of_nat i + 1 + 1 + 1)%Z by lia.
    rewrite bs_seg_SE3_twist_t by assumption. rewrite se3_exp_translation by assumption. now rewrite <- INR_IZR_INZ. }
  split.
  - intros i j Hi Hj. rewrite nth_bs_out_inner by lia. fold_seg eps.
    pose proof (bs_w_sum (IZR (Z.of_nat j) * q)) as Hsum.
    destruct (bs_w (IZR (Z.of_nat j) * q)) as [[w0 w1] w2] eqn:Ew. cbn [fst snd] in *.
    rewrite Hwin by assumption. rewrite Hsum. rewrite <- INR_IZR_INZ. do 3 f_equal. ring.
  - rewrite <- HL, nth_bs_out_last, last_nth, HL by lia. fold_seg eps. rewrite bs_wend_val.
    rewrite Hwin by lia. do 3 f_equal. replace (N - 3 - 1)%nat with (N - 4)%nat by lia.
    rewrite minus_INR by lia. change (INR 4) with (1 + 1 + 1 + 1). field.
Qed.
