(* C19 (ape, part 4): alignment invariance with a SATISFIABLE contract for the SVD oracle.
   The contract used by [ape_align_invariant_partial] (Proofs/Metric.v) quantifies over ALL source
   clouds, the empty one included: for ets = [] it reads X = X S^-1, which forces S = identity whenever
   X is invertible - so that theorem says nothing for S <> identity.  Here the equivariance of the
   oracle is required only on the clouds [Q] that can occur (ape only aligns non-empty associated
   clouds; Umeyama's solution is unique on non-degenerate ones), and a toy oracle shows that the
   guarded contract holds for a non-trivial S. *)
From Coq Require Import Reals Lra Psatz List ZArith Lia.
Import ListNotations.
From PV Require Import Base.Num Base.RTac Base.ListAux Model.LieGroup Model.LieExp Model.LieLog Model.Spline Model.Metric
  Proofs.LieGroup Proofs.LieExp Proofs.LieLog Proofs.Spline Proofs.Metric.
Local Open Scope R_scope.
#[local] Remove Hints NumQ NumZ : typeclass_instances.

Lemma gather_length {A} (l : list A) ids r : gather l ids = Some r -> length r = length ids.
Proof.
  revert r. induction ids as [|i ids IH]; intros r H; cbn [gather] in H.
  - now injection H as <-.
  - destruct (nth_error l i); [|discriminate]. destruct (gather l ids) as [t|]; [|discriminate].
    injection H as <-. cbn. now rewrite (IH t eq_refl).
Qed.
Lemma associate_nonempty (rt et : list (R * se3R)) diff off rp ep :
  associate rt et diff off = Some (rp, ep) -> rp <> [] /\ ep <> [].
Proof.
  unfold associate, stamped. cbv zeta.
  destruct (length rt <? length et)%nat; cbv iota; destruct (matching _ _ _ _) as [|m0 m] eqn:Em; intros H; try discriminate;
    repeat match type of H with context [gather ?l ?i] =>
      let E := fresh "E" in destruct (gather l i) eqn:E end; try discriminate;
    injection H as <- <-;
    repeat match goal with E : gather _ _ = Some _ |- _ => apply gather_length in E; cbn [map length] in E end;
    split; intros ->; cbn in *; discriminate.
Qed.

Section ApeAlignGuarded.
Variable angleF : @mat3 R -> R.
Variable rad2degF : R -> R.
Variable svdstf : list vec3R -> list vec3R -> bool -> sim3R.
Variable S : sim3R.
Variable sc : bool.
Variable Q : list vec3R -> list vec3R -> Prop.     (* the clouds on which the oracle's answer is unique *)
Hypothesis HS : valid_Sim3 S.
Hypothesis svd_valid : forall ets rts, unitq (fst (snd (svdstf ets rts sc))).
Hypothesis svd_equivariant : forall ets rts, Q ets rts ->
  svdstf (map (Sim3_act S) ets) rts sc = Sim3_mul (svdstf ets rts sc) (Sim3_inv S).

Theorem ape_align_invariant_guarded rstamp rpose estamp epose et diff off al origin : (al || sc)%bool = true ->
  (forall rt etr rp ep, mk_stamped rstamp rpose = Some rt -> mk_stamped estamp epose = Some etr ->
     associate rt etr diff off = Some (rp, ep) -> Q (map fst ep) (map fst rp)) ->
  ape sqrt angleF rad2degF svdstf rstamp rpose estamp (map (align_pose S) epose) et diff off al sc origin
  = ape sqrt angleF rad2degF svdstf rstamp rpose estamp epose et diff off al sc origin.
Proof.
  intros Hflag HQ. unfold ape. rewrite mk_stamped_map.
  destruct (mk_stamped rstamp rpose) as [rt|] eqn:Er; [|reflexivity].
  destruct (mk_stamped estamp epose) as [etr|] eqn:Ee; [|reflexivity]. cbn [option_map].
  rewrite associate_map_e. destruct (associate rt etr diff off) as [[rp ep]|] eqn:Ea; [|reflexivity].
  cbn [option_map fst snd]. unfold trans_of. rewrite Hflag.
  replace (map fst (map (align_pose S) ep)) with (map (Sim3_act S) (map fst ep))
    by (rewrite !map_map; apply map_ext; intros X; symmetry; apply fst_align_pose).
  rewrite svd_equivariant by (now apply (HQ rt etr)). set (T := svdstf (map fst ep) (map fst rp) sc).
  assert (HT : unitq (fst (snd T))) by apply svd_valid.
  destruct HS as [HSu HSs].
  assert (HSi : valid_Sim3 (Sim3_inv S)) by (now apply valid_Sim3_inv).
  assert (HTS : unitq (fst (snd (Sim3_mul T (Sim3_inv S)))))
    by (unfold Sim3_mul, RxSO3_mul; cbn [fst snd]; apply unitq_mul; [exact HT|apply HSi]).
  rewrite map_map. f_equal. f_equal. apply map_ext. intros X.
  rewrite <- align_pose_mul by assumption.
  rewrite Sim3_mul_assoc by (try assumption; apply HSi). rewrite Sim3_inv_l by (try assumption; apply Rgt_not_eq, HSs).
  now rewrite Sim3_id_r.
Qed.
End ApeAlignGuarded.

(* the guard "non-empty source cloud" always holds inside ape *)
Theorem ape_align_invariant_nonempty angleF rad2degF svdstf (S : sim3R) (sc : bool) :
  valid_Sim3 S ->
  (forall ets rts, unitq (fst (snd (svdstf ets rts sc)))) ->
  (forall ets rts, ets <> [] -> svdstf (map (Sim3_act S) ets) rts sc = Sim3_mul (svdstf ets rts sc) (Sim3_inv S)) ->
  forall rstamp rpose estamp epose et diff off al origin, (al || sc)%bool = true ->
  ape sqrt angleF rad2degF svdstf rstamp rpose estamp (map (align_pose S) epose) et diff off al sc origin
  = ape sqrt angleF rad2degF svdstf rstamp rpose estamp epose et diff off al sc origin.
Proof.
  intros HS Hv He rstamp rpose estamp epose et diff off al origin Hflag.
  apply (ape_align_invariant_guarded angleF rad2degF svdstf S sc (fun ets _ => ets <> []) HS Hv He); [assumption|].
  intros rt etr rp ep _ _ Ha. destruct (associate_nonempty _ _ _ _ _ _ Ha) as [_ Hep].
  intros E. apply Hep. destruct ep; [reflexivity|discriminate].
Qed.

(* the guarded contract is satisfiable for a non-trivial S: S = translation by (1, 2, 3), and the toy
   oracle that translates the first source point to the origin *)
Definition toy_svdstf (ets rts : list vec3R) (sc : bool) : sim3R := (vneg (hd vzero ets), RxSO3_id).
Definition shiftS : sim3R := ((1, 2, 3), RxSO3_id).
Lemma toy_contract :
  valid_Sim3 shiftS /\ shiftS <> Sim3_id /\
  (forall ets rts sc, unitq (fst (snd (toy_svdstf ets rts sc)))) /\
  (forall ets rts sc, ets <> [] ->
     toy_svdstf (map (Sim3_act shiftS) ets) rts sc = Sim3_mul (toy_svdstf ets rts sc) (Sim3_inv shiftS)).
Proof.
  split; [|split; [|split]].
  - unfold valid_Sim3, shiftS, RxSO3_id. cbn [fst snd]. split; [apply unitq_id|]. num_unfold. lra.
  - unfold shiftS, Sim3_id, vzero. intros E. injection E as E _ _. num_unfold. lra.
  - intros. unfold toy_svdstf, RxSO3_id. cbn [fst snd]. apply unitq_id.
  - intros ets rts sc Hne. destruct ets as [|p ets]; [congruence|]. unfold toy_svdstf. cbn [map hd].
    unfold shiftS, RxSO3_id. destruct p as [[x y] z]. lie_unfold. split_pairs; field.
Qed.

(* ... whereas the unguarded contract of [ape_align_invariant_partial] can only hold for S = identity
   (instance ets = []), as soon as the oracle's answer on the empty cloud is invertible *)
Lemma unguarded_contract_forces_identity (svdstf : list vec3R -> list vec3R -> bool -> sim3R) (S : sim3R) (sc : bool) :
  valid_Sim3 S ->
  (forall ets rts, unitq (fst (snd (svdstf ets rts sc)))) ->
  (forall ets rts, svdstf (map (Sim3_act S) ets) rts sc = Sim3_mul (svdstf ets rts sc) (Sim3_inv S)) ->
  snd (snd (svdstf [] [] sc)) <> 0 -> S = Sim3_id.
Proof.
  intros [HSu HSs] Hv He Hs. specialize (He [] []). cbn [map] in He.
  set (X := svdstf [] [] sc) in *. specialize (Hv [] []). fold X in Hv.
  assert (HSi : valid_Sim3 (Sim3_inv S)) by (apply valid_Sim3_inv; now split).
  assert (HXi : unitq (fst (snd (Sim3_inv X)))) by (unfold Sim3_inv, RxSO3_inv; cbn [fst snd]; now apply unitq_inv).
  assert (Hid : Sim3_inv S = Sim3_id).
  { rewrite <- (Sim3_id_l (Sim3_inv S)). rewrite <- (Sim3_inv_l X) by assumption.
    rewrite Sim3_mul_assoc by assumption. rewrite <- He. reflexivity. }
  rewrite <- (Sim3_id_r S). rewrite <- Hid at 1. apply Sim3_inv_r; [assumption|]. now apply Rgt_not_eq.
Qed.
