(* C10, block-sparse product: a concrete instance of the hypotheses of merge_join_correct (strictly
   increasing index segments, one common inner index, one index on each side without partner). *)
From Coq Require Import List Arith Lia Bool.
Import ListNotations.
From PV Require Import Base.Num Model.Solver Model.BSR Proofs.BSR.

Lemma sinc_02 (a b : nat) : a < b -> sinc [a; b] 0 2.
Proof.
  intros H k k' H1 H2 H3. assert (k = 0) by lia. assert (k' = 1) by lia. subst. exact H.
Qed.
(* block row with inner indices {0, 2} against a block column with inner indices {1, 2}: the only
   match is stored position 1 with stored position 1 *)
Example merge_join_example :
  let crow := [0; 2] in let col := [0; 2] in let ccol := [0; 2] in let row := [1; 2] in
  nth 0 crow 0 <= nth 1 crow 0 /\ nth 0 ccol 0 <= nth 1 ccol 0 /\
  sinc col (nth 0 crow 0) (nth 1 crow 0) /\ sinc row (nth 0 ccol 0) (nth 1 ccol 0) /\
  cell_matches crow col ccol row 0 0 = [(1, 1)].
Proof.
  cbn zeta. split; [cbn; lia|]. split; [cbn; lia|]. split; [apply sinc_02; lia|]. split; [apply sinc_02; lia|].
  reflexivity.
Qed.
