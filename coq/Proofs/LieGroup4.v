(* C03 (strengthening): "up to accumulated round-off" under the standard model of floating-point
   arithmetic.  The Hamilton product of SO3_Mul.forward is evaluated with a relative error (1 + delta),
   |delta| <= u, after EVERY multiplication, addition and subtraction (28 of them; any rounding mode; a
   fused multiply-add is the case delta = 0 for the inner operation).  Then
       | |fl(X o Y)|^2 - |X|^2 |Y|^2 |  <=  (4 g + 4 g^2) |X|^2 |Y|^2 ,   g = (1 + u)^4 - 1   (about 16 u),
   and over a history of n rounded products (either side) and exact inverses (sign flips) with factors within
   e of unit norm:   | |q_n|^2 - 1 |  <=  (1 + e0) ((1 + e)(1 + c))^n - 1,  c = 4 g + 4 g^2.
   The rounded product is a definition of this file (it is not part of the tied model); with all errors 0 it
   is the model's SO3_mul. *)
From Coq Require Import Reals Lra Psatz List.
Import ListNotations.
From PV Require Import Base.Num Base.RTac Model.LieGroup Proofs.LieGroup.
Local Open Scope R_scope.
#[local] Remove Hints NumQ NumZ : typeclass_instances.

(* ---------------- elementary facts *)
Lemma prod2_bound (a b al be : R) : 0 <= al -> 0 <= be -> Rabs (a - 1) <= al -> Rabs (b - 1) <= be ->
  Rabs (a * b - 1) <= (1 + al) * (1 + be) - 1.
Proof.
  intros Ha Hb H1 H2. replace (a * b - 1) with ((a - 1) * b + (b - 1)) by ring.
  eapply Rle_trans; [apply Rabs_triang|]. rewrite Rabs_mult.
  assert (Hb' : Rabs b <= 1 + be).
  { replace b with (1 + (b - 1)) by ring. eapply Rle_trans; [apply Rabs_triang|]. rewrite Rabs_R1. lra. }
  pose proof (Rabs_pos (a - 1)). pose proof (Rabs_pos b). nra.
Qed.
Lemma one_plus_bound (u d : R) : Rabs d <= u -> Rabs ((1 + d) - 1) <= u.
Proof. intros H. now replace (1 + d - 1) with d by ring. Qed.
Definition gam (u : R) : R := (1 + u) ^ 4 - 1.
Lemma gam_nonneg u : 0 <= u -> 0 <= gam u.
Proof. intros H. unfold gam. assert (1 <= (1 + u) ^ 4) by (apply pow_R1_Rle; lra). lra. Qed.
(* a product of four factors (1 + d), |d| <= u *)
Lemma prod4_bound (u d1 d2 d3 d4 : R) : 0 <= u -> Rabs d1 <= u -> Rabs d2 <= u -> Rabs d3 <= u -> Rabs d4 <= u ->
  Rabs ((1 + d1) * (1 + d2) * (1 + d3) * (1 + d4) - 1) <= gam u.
Proof.
  intros Hu H1 H2 H3 H4.
  pose proof (prod2_bound _ _ u u Hu Hu (one_plus_bound u d1 H1) (one_plus_bound u d2 H2)) as P2.
  assert (Hu2 : 0 <= (1 + u) * (1 + u) - 1) by nra.
  pose proof (prod2_bound _ _ _ u Hu2 Hu P2 (one_plus_bound u d3 H3)) as P3.
  assert (Hu3 : 0 <= (1 + ((1 + u) * (1 + u) - 1)) * (1 + u) - 1) by nra.
  pose proof (prod2_bound _ _ _ u Hu3 Hu P3 (one_plus_bound u d4 H4)) as P4.
  unfold gam. eapply Rle_trans; [exact P4|]. apply Req_le. ring.
Qed.
Lemma prod3_bound (u d1 d2 d3 : R) : 0 <= u -> Rabs d1 <= u -> Rabs d2 <= u -> Rabs d3 <= u ->
  Rabs ((1 + d1) * (1 + d2) * (1 + d3) - 1) <= gam u.
Proof.
  intros Hu H1 H2 H3. replace ((1 + d1) * (1 + d2) * (1 + d3)) with ((1 + d1) * (1 + d2) * (1 + d3) * (1 + 0)) by ring.
  apply prod4_bound; auto. rewrite Rabs_R0. exact Hu.
Qed.
Lemma prod2_bound' (u d1 d2 : R) : 0 <= u -> Rabs d1 <= u -> Rabs d2 <= u ->
  Rabs ((1 + d1) * (1 + d2) - 1) <= gam u.
Proof.
  intros Hu H1 H2. replace ((1 + d1) * (1 + d2)) with ((1 + d1) * (1 + d2) * (1 + 0)) by ring.
  apply prod3_bound; auto. rewrite Rabs_R0. exact Hu.
Qed.

(* four terms, each carried with a factor p_j within g of 1 *)
Lemma comp_err (t1 t2 t3 t4 p1 p2 p3 p4 g : R) :
  Rabs (p1 - 1) <= g -> Rabs (p2 - 1) <= g -> Rabs (p3 - 1) <= g -> Rabs (p4 - 1) <= g ->
  Rabs ((t1 * p1 + t2 * p2 + t3 * p3 + t4 * p4) - (t1 + t2 + t3 + t4)) <= g * (Rabs t1 + Rabs t2 + Rabs t3 + Rabs t4).
Proof.
  intros H1 H2 H3 H4.
  replace (t1 * p1 + t2 * p2 + t3 * p3 + t4 * p4 - (t1 + t2 + t3 + t4))
    with (t1 * (p1 - 1) + t2 * (p2 - 1) + t3 * (p3 - 1) + t4 * (p4 - 1)) by ring.
  assert (T : forall a b c e, Rabs (a + b + c + e) <= Rabs a + Rabs b + Rabs c + Rabs e).
  { intros a b c e. eapply Rle_trans; [apply Rabs_triang|]. apply Rplus_le_compat_r.
    eapply Rle_trans; [apply Rabs_triang|]. apply Rplus_le_compat_r. apply Rabs_triang. }
  eapply Rle_trans; [apply T|]. rewrite !Rabs_mult.
  assert (M : forall t p, Rabs (p - 1) <= g -> Rabs t * Rabs (p - 1) <= g * Rabs t).
  { intros t p Hp. rewrite (Rmult_comm g). apply Rmult_le_compat_l; [apply Rabs_pos | exact Hp]. }
  pose proof (M t1 p1 H1). pose proof (M t2 p2 H2). pose proof (M t3 p3 H3). pose proof (M t4 p4 H4). lra.
Qed.

(* Cauchy-Schwarz for four terms (Lagrange's identity) *)
Lemma cs4 (a1 a2 a3 a4 b1 b2 b3 b4 : R) :
  (a1 * b1 + a2 * b2 + a3 * b3 + a4 * b4) * (a1 * b1 + a2 * b2 + a3 * b3 + a4 * b4)
  <= (a1 * a1 + a2 * a2 + a3 * a3 + a4 * a4) * (b1 * b1 + b2 * b2 + b3 * b3 + b4 * b4).
Proof.
  assert (L : (a1 * a1 + a2 * a2 + a3 * a3 + a4 * a4) * (b1 * b1 + b2 * b2 + b3 * b3 + b4 * b4)
            - (a1 * b1 + a2 * b2 + a3 * b3 + a4 * b4) * (a1 * b1 + a2 * b2 + a3 * b3 + a4 * b4)
            = (a1 * b2 - a2 * b1) * (a1 * b2 - a2 * b1) + (a1 * b3 - a3 * b1) * (a1 * b3 - a3 * b1)
            + (a1 * b4 - a4 * b1) * (a1 * b4 - a4 * b1) + (a2 * b3 - a3 * b2) * (a2 * b3 - a3 * b2)
            + (a2 * b4 - a4 * b2) * (a2 * b4 - a4 * b2) + (a3 * b4 - a4 * b3) * (a3 * b4 - a4 * b3)) by ring.
  pose proof (Rle_0_sqr (a1 * b2 - a2 * b1)). pose proof (Rle_0_sqr (a1 * b3 - a3 * b1)).
  pose proof (Rle_0_sqr (a1 * b4 - a4 * b1)). pose proof (Rle_0_sqr (a2 * b3 - a3 * b2)).
  pose proof (Rle_0_sqr (a2 * b4 - a4 * b2)). pose proof (Rle_0_sqr (a3 * b4 - a4 * b3)).
  unfold Rsqr in *. lra.
Qed.
(* the sum of |x_a||y_b| over a pairing of the four x's with the four y's *)
Lemma cs4_abs (x1 x2 x3 x4 y1 y2 y3 y4 : R) :
  let S := Rabs (x1 * y1) + Rabs (x2 * y2) + Rabs (x3 * y3) + Rabs (x4 * y4) in
  S * S <= (x1 * x1 + x2 * x2 + x3 * x3 + x4 * x4) * (y1 * y1 + y2 * y2 + y3 * y3 + y4 * y4).
Proof.
  cbv zeta. rewrite !Rabs_mult.
  pose proof (cs4 (Rabs x1) (Rabs x2) (Rabs x3) (Rabs x4) (Rabs y1) (Rabs y2) (Rabs y3) (Rabs y4)) as H.
  assert (Q : forall t, Rabs t * Rabs t = t * t).
  { intros t. rewrite <- Rabs_mult. apply Rabs_pos_eq. apply Rle_0_sqr. }
  rewrite !Q in H. exact H.
Qed.

(* norm of a perturbed 4-vector *)
Lemma sq_le_abs (a b : R) : 0 <= b -> a * a <= b * b -> Rabs a <= b.
Proof. intros Hb H. apply Rabs_le. split; nra. Qed.
Lemma norm_perturb (z1 z2 z3 z4 e1 e2 e3 e4 g N : R) : 0 <= g -> 0 <= N ->
  z1 * z1 + z2 * z2 + z3 * z3 + z4 * z4 = N ->
  e1 * e1 <= g * g * N -> e2 * e2 <= g * g * N -> e3 * e3 <= g * g * N -> e4 * e4 <= g * g * N ->
  Rabs ((z1 + e1) * (z1 + e1) + (z2 + e2) * (z2 + e2) + (z3 + e3) * (z3 + e3) + (z4 + e4) * (z4 + e4) - N)
    <= (4 * g + 4 * (g * g)) * N.
Proof.
  intros Hg HN Hz H1 H2 H3 H4.
  set (E := e1 * e1 + e2 * e2 + e3 * e3 + e4 * e4).
  set (ZE := z1 * e1 + z2 * e2 + z3 * e3 + z4 * e4).
  assert (HE : 0 <= E <= 4 * (g * g) * N).
  { unfold E. pose proof (Rle_0_sqr e1). pose proof (Rle_0_sqr e2). pose proof (Rle_0_sqr e3). pose proof (Rle_0_sqr e4).
    unfold Rsqr in *. lra. }
  assert (HZE : Rabs ZE <= 2 * g * N).
  { apply sq_le_abs; [nra|]. pose proof (cs4 z1 z2 z3 z4 e1 e2 e3 e4) as C. fold ZE E in C. rewrite Hz in C. nra. }
  replace ((z1 + e1) * (z1 + e1) + (z2 + e2) * (z2 + e2) + (z3 + e3) * (z3 + e3) + (z4 + e4) * (z4 + e4) - N)
    with (2 * ZE + E) by (unfold ZE, E; rewrite <- Hz; ring).
  eapply Rle_trans; [apply Rabs_triang|]. rewrite Rabs_mult, (Rabs_pos_eq 2) by lra.
  rewrite (Rabs_pos_eq E) by lra. lra.
Qed.

(* ---------------- the rounded Hamilton product, as SO3_Mul.forward evaluates it:
   Zv = Xw * Yv + Xv * Yw + cross(Xv, Yv);  Zw = Xw * Yw - (Xv * Yv).sum()
   [d k] is the relative error of the k-th arithmetic operation *)
Section Rounded.
Variable d : nat -> R.
Definition rq (k : nat) (x : R) : R := x * (1 + d k).
Definition SO3_mul_fl (X Y : quatR) : quatR :=
  let '((x1, x2, x3), xw) := X in let '((y1, y2, y3), yw) := Y in
  let s1 := rq 6 (rq 0 (xw * y1) + rq 3 (x1 * yw)) in
  let s2 := rq 7 (rq 1 (xw * y2) + rq 4 (x2 * yw)) in
  let s3 := rq 8 (rq 2 (xw * y3) + rq 5 (x3 * yw)) in
  let c1 := rq 15 (rq 9 (x2 * y3) - rq 10 (x3 * y2)) in
  let c2 := rq 16 (rq 11 (x3 * y1) - rq 12 (x1 * y3)) in
  let c3 := rq 17 (rq 13 (x1 * y2) - rq 14 (x2 * y1)) in
  ((rq 18 (s1 + c1), rq 19 (s2 + c2), rq 20 (s3 + c3)),
   rq 27 (rq 21 (xw * yw) - rq 26 (rq 25 (rq 22 (x1 * y1) + rq 23 (x2 * y2)) + rq 24 (x3 * y3)))).
End Rounded.

Lemma SO3_mul_fl_exact (X Y : quatR) : SO3_mul_fl (fun _ => 0) X Y = SO3_mul X Y.
Proof. destruct X as [[[x1 x2] x3] xw], Y as [[[y1 y2] y3] yw]. unfold SO3_mul_fl, rq. lie_unfold. split_pairs; ring. Qed.

Lemma sq_bound (e g S N : R) : 0 <= g -> Rabs e <= g * S -> 0 <= S -> S * S <= N -> e * e <= g * g * N.
Proof.
  intros Hg He HS HN. replace (e * e) with (Rabs e * Rabs e) by (rewrite <- Rabs_mult; apply Rabs_pos_eq, Rle_0_sqr).
  pose proof (Rabs_pos e). nra.
Qed.

Theorem SO3_mul_fl_norm (u : R) (d : nat -> R) (X Y : quatR) : 0 <= u -> (forall k, Rabs (d k) <= u) ->
  Rabs (qnorm2 (SO3_mul_fl d X Y) - qnorm2 X * qnorm2 Y) <= (4 * gam u + 4 * (gam u * gam u)) * (qnorm2 X * qnorm2 Y).
Proof.
  intros Hu Hd. destruct X as [[[x1 x2] x3] xw], Y as [[[y1 y2] y3] yw].
  pose proof (gam_nonneg u Hu) as Hg.
  set (NX := x1 * x1 + x2 * x2 + x3 * x3 + xw * xw). set (NY := y1 * y1 + y2 * y2 + y3 * y3 + yw * yw).
  match goal with |- context [qnorm2 (SO3_mul_fl ?a ?b ?c)] => set (Q := qnorm2 (SO3_mul_fl a b c)) end.
  change (Rabs (Q - NX * NY) <= (4 * gam u + 4 * (gam u * gam u)) * (NX * NY)).
  assert (HN : 0 <= NX * NY).
  { apply Rmult_le_pos; [unfold NX | unfold NY]; nra. }
  (* exact components *)
  set (z1 := xw * y1 + x1 * yw + x2 * y3 + - (x3 * y2)).
  set (z2 := xw * y2 + x2 * yw + x3 * y1 + - (x1 * y3)).
  set (z3 := xw * y3 + x3 * yw + x1 * y2 + - (x2 * y1)).
  set (z4 := xw * yw + - (x1 * y1) + - (x2 * y2) + - (x3 * y3)).
  assert (Hz : z1 * z1 + z2 * z2 + z3 * z3 + z4 * z4 = NX * NY) by (unfold z1, z2, z3, z4, NX, NY; ring).
  (* computed components as sums of the same terms with accumulated factors *)
  set (c1 := xw * y1 * ((1 + d 0%nat) * (1 + d 6%nat) * (1 + d 18%nat)) + x1 * yw * ((1 + d 3%nat) * (1 + d 6%nat) * (1 + d 18%nat))
           + x2 * y3 * ((1 + d 9%nat) * (1 + d 15%nat) * (1 + d 18%nat)) + - (x3 * y2) * ((1 + d 10%nat) * (1 + d 15%nat) * (1 + d 18%nat))).
  set (c2 := xw * y2 * ((1 + d 1%nat) * (1 + d 7%nat) * (1 + d 19%nat)) + x2 * yw * ((1 + d 4%nat) * (1 + d 7%nat) * (1 + d 19%nat))
           + x3 * y1 * ((1 + d 11%nat) * (1 + d 16%nat) * (1 + d 19%nat)) + - (x1 * y3) * ((1 + d 12%nat) * (1 + d 16%nat) * (1 + d 19%nat))).
  set (c3 := xw * y3 * ((1 + d 2%nat) * (1 + d 8%nat) * (1 + d 20%nat)) + x3 * yw * ((1 + d 5%nat) * (1 + d 8%nat) * (1 + d 20%nat))
           + x1 * y2 * ((1 + d 13%nat) * (1 + d 17%nat) * (1 + d 20%nat)) + - (x2 * y1) * ((1 + d 14%nat) * (1 + d 17%nat) * (1 + d 20%nat))).
  set (c4 := xw * yw * ((1 + d 21%nat) * (1 + d 27%nat)) + - (x1 * y1) * ((1 + d 22%nat) * (1 + d 25%nat) * (1 + d 26%nat) * (1 + d 27%nat))
           + - (x2 * y2) * ((1 + d 23%nat) * (1 + d 25%nat) * (1 + d 26%nat) * (1 + d 27%nat))
           + - (x3 * y3) * ((1 + d 24%nat) * (1 + d 26%nat) * (1 + d 27%nat))).
  assert (Hq : Q = c1 * c1 + c2 * c2 + c3 * c3 + c4 * c4).
  { unfold Q, SO3_mul_fl, rq, c1, c2, c3, c4. lie_unfold. ring. }
  rewrite Hq. clear Hq Q.
  (* componentwise errors *)
  assert (E1 : Rabs (c1 - z1) <= gam u * (Rabs (xw * y1) + Rabs (x1 * yw) + Rabs (x2 * y3) + Rabs (- (x3 * y2))))
    by (unfold c1, z1; apply comp_err; apply prod3_bound; auto).
  assert (E2 : Rabs (c2 - z2) <= gam u * (Rabs (xw * y2) + Rabs (x2 * yw) + Rabs (x3 * y1) + Rabs (- (x1 * y3))))
    by (unfold c2, z2; apply comp_err; apply prod3_bound; auto).
  assert (E3 : Rabs (c3 - z3) <= gam u * (Rabs (xw * y3) + Rabs (x3 * yw) + Rabs (x1 * y2) + Rabs (- (x2 * y1))))
    by (unfold c3, z3; apply comp_err; apply prod3_bound; auto).
  assert (E4 : Rabs (c4 - z4) <= gam u * (Rabs (xw * yw) + Rabs (- (x1 * y1)) + Rabs (- (x2 * y2)) + Rabs (- (x3 * y3))))
    by (unfold c4, z4; apply comp_err; [apply prod2_bound' | apply prod4_bound | apply prod4_bound | apply prod3_bound]; auto).
  repeat rewrite Rabs_Ropp in E1. repeat rewrite Rabs_Ropp in E2. repeat rewrite Rabs_Ropp in E3. repeat rewrite Rabs_Ropp in E4.
  (* Cauchy-Schwarz on each component's term sum *)
  pose proof (cs4_abs xw x1 x2 x3 y1 yw y3 y2) as S1. pose proof (cs4_abs xw x2 x3 x1 y2 yw y1 y3) as S2.
  pose proof (cs4_abs xw x3 x1 x2 y3 yw y2 y1) as S3. pose proof (cs4_abs xw x1 x2 x3 yw y1 y2 y3) as S4.
  cbv zeta in S1, S2, S3, S4.
  assert (P : forall a b c e : R, 0 <= Rabs a + Rabs b + Rabs c + Rabs e).
  { intros. pose proof (Rabs_pos a). pose proof (Rabs_pos b). pose proof (Rabs_pos c). pose proof (Rabs_pos e). lra. }
  assert (B1 : (c1 - z1) * (c1 - z1) <= gam u * gam u * (NX * NY)).
  { eapply sq_bound; [exact Hg | exact E1 | apply P |]. eapply Rle_trans; [exact S1|]. unfold NX, NY. apply Req_le. ring. }
  assert (B2 : (c2 - z2) * (c2 - z2) <= gam u * gam u * (NX * NY)).
  { eapply sq_bound; [exact Hg | exact E2 | apply P |]. eapply Rle_trans; [exact S2|]. unfold NX, NY. apply Req_le. ring. }
  assert (B3 : (c3 - z3) * (c3 - z3) <= gam u * gam u * (NX * NY)).
  { eapply sq_bound; [exact Hg | exact E3 | apply P |]. eapply Rle_trans; [exact S3|]. unfold NX, NY. apply Req_le. ring. }
  assert (B4 : (c4 - z4) * (c4 - z4) <= gam u * gam u * (NX * NY)).
  { eapply sq_bound; [exact Hg | exact E4 | apply P |]. eapply Rle_trans; [exact S4|]. unfold NX, NY. apply Req_le. ring. }
  pose proof (norm_perturb z1 z2 z3 z4 (c1 - z1) (c2 - z2) (c3 - z3) (c4 - z4) (gam u) (NX * NY) Hg HN Hz B1 B2 B3 B4) as H.
  replace (z1 + (c1 - z1)) with c1 in H by ring. replace (z2 + (c2 - z2)) with c2 in H by ring.
  replace (z3 + (c3 - z3)) with c3 in H by ring. replace (z4 + (c4 - z4)) with c4 in H by ring.
  exact H.
Qed.

(* ---------------- histories of rounded products and (exact) inverses *)
Inductive fop := FMulL (Y : quatR) (d : nat -> R) | FMulR (Y : quatR) (d : nat -> R) | FInv.
Definition fstep (X : quatR) (o : fop) : quatR :=
  match o with FMulL Y d => SO3_mul_fl d Y X | FMulR Y d => SO3_mul_fl d X Y | FInv => SO3_inv X end.
(* every rounding error within u, every factor within e of unit norm *)
Definition fop_ok (u e : R) (o : fop) : Prop :=
  match o with
  | FMulL Y d | FMulR Y d => (forall k, Rabs (d k) <= u) /\ Rabs (qnorm2 Y - 1) <= e
  | FInv => True
  end.
Fixpoint count_mul (ops : list fop) : nat :=
  match ops with [] => 0 | FInv :: r => count_mul r | _ :: r => S (count_mul r) end.
Definition cc (u : R) : R := 4 * gam u + 4 * (gam u * gam u).

Lemma fl_step_bound (u e e0 : R) (A B : quatR) (d : nat -> R) : 0 <= u -> 0 <= e -> 0 <= e0 ->
  (forall k, Rabs (d k) <= u) -> Rabs (qnorm2 A - 1) <= e0 -> Rabs (qnorm2 B - 1) <= e ->
  Rabs (qnorm2 (SO3_mul_fl d A B) - 1) <= (1 + e0) * ((1 + e) * (1 + cc u)) - 1.
Proof.
  intros Hu He He0 Hd HA HB. pose proof (SO3_mul_fl_norm u d A B Hu Hd) as H. fold (cc u) in H.
  pose proof (gam_nonneg u Hu) as Hg. assert (Hc : 0 <= cc u) by (unfold cc; nra).
  pose proof (prod2_bound _ _ e0 e He0 He HA HB) as HN.
  set (N := qnorm2 A * qnorm2 B) in *. set (Q := qnorm2 (SO3_mul_fl d A B)) in *.
  assert (HNp : Rabs N <= (1 + e0) * (1 + e)).
  { replace N with (1 + (N - 1)) by ring. eapply Rle_trans; [apply Rabs_triang|]. rewrite Rabs_R1. lra. }
  assert (HNn : 0 <= N).
  { unfold N. apply Rmult_le_pos; [destruct A as [[[a b] c] w] | destruct B as [[[a b] c] w]]; lie_unfold; nra. }
  rewrite (Rabs_pos_eq N HNn) in HNp.
  replace (Q - 1) with ((Q - N) + (N - 1)) by ring. eapply Rle_trans; [apply Rabs_triang|]. nra.
Qed.

Theorem fl_history_drift (u e : R) : 0 <= u -> 0 <= e -> forall ops X e0, 0 <= e0 ->
  Rabs (qnorm2 X - 1) <= e0 -> Forall (fop_ok u e) ops ->
  Rabs (qnorm2 (fold_left fstep ops X) - 1) <= (1 + e0) * ((1 + e) * (1 + cc u)) ^ count_mul ops - 1.
Proof.
  intros Hu He. pose proof (gam_nonneg u Hu) as Hg. assert (Hc : 0 <= cc u) by (unfold cc; nra).
  induction ops as [|o ops IH]; intros X e0 He0 HX Hops; cbn [fold_left count_mul].
  - cbn [pow]. lra.
  - inversion Hops as [|? ? Ho Hr]; subst.
    destruct o as [Y d|Y d|]; cbn [fstep].
    + destruct Ho as [Hd HY].
      eapply Rle_trans; [apply IH with (e0 := (1 + e0) * ((1 + e) * (1 + cc u)) - 1); auto|].
      * assert (1 <= (1 + e) * (1 + cc u)) by nra. nra.
      * pose proof (fl_step_bound u e0 e Y X d Hu He0 He Hd HY HX) as H.
        eapply Rle_trans; [exact H|]. apply Req_le. ring.
      * cbn [pow]. apply Req_le. ring.
    + destruct Ho as [Hd HY].
      eapply Rle_trans; [apply IH with (e0 := (1 + e0) * ((1 + e) * (1 + cc u)) - 1); auto|].
      * assert (1 <= (1 + e) * (1 + cc u)) by nra. nra.
      * now apply fl_step_bound.
      * cbn [pow]. apply Req_le. ring.
    + apply IH; auto. now rewrite qnorm2_inv.
Qed.

(* size of the constant: for u <= 2^-10 (every IEEE format of interest) c <= 17 u *)
Lemma cc_small (u : R) : 0 <= u <= 1 / 1024 -> cc u <= 17 * u.
Proof.
  intros Hu. unfold cc, gam.
  assert (H4 : (1 + u) ^ 4 - 1 <= 4 * u + 7 * (u * u)).
  { replace ((1 + u) ^ 4 - 1) with (4 * u + 6 * (u * u) + 4 * (u * u * u) + u * u * u * u) by ring.
    assert (0 <= u * u) by nra. assert (u * u * u <= u * u / 1024) by nra. assert (0 <= u * u * u) by nra.
    assert (u * u * u * u <= u * u * u / 1024) by nra. lra. }
  assert (H0 : 0 <= (1 + u) ^ 4 - 1) by (apply (gam_nonneg u); lra).
  set (g := (1 + u) ^ 4 - 1) in *. assert (g <= 4 * u + 7 * u / 1024) by nra.
  assert (g * g <= g * (5 * u)) by nra. nra.
Qed.

(* non-vacuity: exact arithmetic (all errors 0) and unit factors satisfy the hypotheses for every u, e >= 0 *)
Example fop_ok_example (u e : R) : 0 <= u -> 0 <= e ->
  Forall (fop_ok u e) [FMulL ((3/5, 0, 0), 4/5) (fun _ => 0); FInv; FMulR ((0, 1, 0), 0) (fun k => if Nat.even k then u else - u)].
Proof.
  intros Hu He. repeat (apply Forall_cons); try apply Forall_nil; cbn [fop_ok]; try exact I.
  - split; [intros k; rewrite Rabs_R0; exact Hu|]. replace (qnorm2 _ - 1) with 0 by (lie_unfold; field). rewrite Rabs_R0. exact He.
  - split.
    + intros k. destruct (Nat.even k); [rewrite Rabs_pos_eq by exact Hu | rewrite Rabs_Ropp, Rabs_pos_eq by exact Hu]; lra.
    + replace (qnorm2 _ - 1) with 0 by (lie_unfold; ring). rewrite Rabs_R0. exact He.
Qed.
