(* C13, sixth file: the oracle contracts are satisfiable in EVERY dimension.
   An explicit lower Cholesky factor [cholR n] and an explicit inverse [invR n] of symmetric positive
   definite matrices, both by recursion on the dimension through the Schur complement, so that
     cholesky_ok n (cholR n),  factor_ok n (cholR n),  pinv_ok n (invR n)   for every n
   and no theorem of C13 that assumes these contracts is vacuous in any dimension. *)
From Coq Require Import Reals Lra Lia List Arith ZArith Psatz.
From PV Require Import Base.Num Base.Mat Model.Filter Proofs.Filter.
Import ListNotations.
#[local] Remove Hints NumQ NumZ : typeclass_instances.
Local Open Scope R_scope.

(* ------------------------------------------------------------------ bordered matrices *)
Definition mborder (n : nat) (a : R) (u v : list R) (D : matR) : matR :=
  mkmat (S n) (S n) (fun i j => match i, j with
     | O, O => a | O, S j' => vget u j' | S i', O => vget v i' | S i', S j' => mget D i' j' end).

Lemma wf_mborder n a u v D : wf (S n) (S n) (mborder n a u v D).
Proof. apply wf_mkmat; lia. Qed.

Lemma mget_mborder n a u v D i j : (i < S n)%nat -> (j < S n)%nat ->
  mget (mborder n a u v D) i j =
  match i, j with O, O => a | O, S j' => vget u j' | S i', O => vget v i' | S i', S j' => mget D i' j' end.
Proof. intros Hi Hj. unfold mborder. now rewrite mget_mkmat. Qed.

(* the Schur complement of the (0,0) entry *)
Definition schur (n : nat) (M : matR) : matR :=
  mkmat n n (fun i j => mget M (S i) (S j) - mget M (S i) 0 * mget M (S j) 0 / mget M 0 0).

Lemma vget_cons_0 (a : R) l : vget (a :: l) 0 = a. Proof. reflexivity. Qed.
Lemma vget_cons_S (a : R) l i : vget (a :: l) (S i) = vget l i. Proof. reflexivity. Qed.

Lemma mapply_cons n (M : matR) x0 y i : wf (S n) (S n) M -> (i < S n)%nat ->
  vget (mapply M (x0 :: y)) i = mget M i 0 * x0 + sumn n (fun j => mget M i (S j) * vget y j).
Proof.
  intros HM Hi. rewrite (vget_mapply (S n) (S n)) by assumption. rewrite sumn_S_first.
  rewrite vget_cons_0. mnum. f_equal.
Qed.

Lemma qform_cons n (M : matR) x0 y : wf (S n) (S n) M -> length y = n ->
  qform M (x0 :: y) =
  x0 * (mget M 0 0 * x0 + sumn n (fun j => mget M 0 (S j) * vget y j)) +
  sumn n (fun i => vget y i * (mget M (S i) 0 * x0 + sumn n (fun j => mget M (S i) (S j) * vget y j))).
Proof.
  intros HM Hy. unfold qform, vdot. cbn [length]. rewrite Hy. rewrite sumn_S_first.
  rewrite vget_cons_0. rewrite (mapply_cons n) by (assumption || lia). mnum. f_equal.
  apply sumn_ext. intros i Hi. rewrite vget_cons_S. rewrite (mapply_cons n) by (assumption || lia). reflexivity.
Qed.

Lemma SPD_head_pos n (M : matR) : SPD (S n) M -> 0 < mget M 0 0.
Proof.
  intros (HM & _ & PM).
  assert (E : qform M (1 :: vzero n) = mget M 0 0).
  { rewrite (qform_cons n) by (assumption || apply length_mkvec).
    rewrite (sumn_zero n (fun j => mget M 0 (S j) * vget (vzero n) j)).
    2:{ intros k Hk. unfold vzero. rewrite vget_mkvec by assumption. mnum. lra. }
    rewrite (sumn_zero n (fun i => vget (vzero n) i * _)).
    2:{ intros k Hk. unfold vzero. rewrite vget_mkvec by assumption. mnum. lra. }
    lra. }
  rewrite <- E. apply PM; [cbn [length]; unfold vzero; now rewrite length_mkvec|].
  exists 0%nat. split; [cbn; lia | rewrite vget_cons_0; lra].
Qed.

Lemma schur_spd n (M : matR) : (0 < n)%nat -> SPD (S n) M -> SPD n (schur n M).
Proof.
  intros Hn HS. assert (Ha := SPD_head_pos n M HS). destruct HS as (HM & SM & PM).
  set (a := mget M 0 0) in *.
  assert (Sy : forall i j, (i < S n)%nat -> (j < S n)%nat -> mget M i j = mget M j i)
    by (intros; now apply (msym_mget (S n))).
  split; [unfold schur; now apply wf_mkmat|]. split.
  - apply (msym_of_mget n); [unfold schur; now apply wf_mkmat|].
    intros i j Hi Hj. unfold schur. rewrite !mget_mkmat by assumption.
    rewrite (Sy (S i) (S j)) by lia. fold a. lra.
  - intros y Hy Hnz.
    set (s := sumn n (fun i => mget M (S i) 0 * vget y i)).
    set (T := sumn n (fun i => vget y i * sumn n (fun j => mget M (S i) (S j) * vget y j))).
    assert (E1 : qform (schur n M) y = T - s * s / a).
    { unfold qform, vdot. rewrite Hy. unfold T.
      replace (s * s / a) with (sumn n (fun i => vget y i * (mget M (S i) 0 * (s / a)))).
      2:{ rewrite (sumn_ext n _ (fun i => (mget M (S i) 0 * vget y i) * (s / a))) by (intros; ring).
          rewrite sumn_scal_r. fold s. field. lra. }
      rewrite <- sumn_minus. apply sumn_ext. intros i Hi.
      rewrite (vget_mapply n n) by (unfold schur; now apply wf_mkmat || assumption).
      mnum. rewrite <- Rmult_minus_distr_l. f_equal.
      replace (mget M (S i) 0 * (s / a)) with (sumn n (fun j => mget M (S i) 0 * mget M (S j) 0 / a * vget y j)).
      2:{ rewrite (sumn_ext n _ (fun j => mget M (S i) 0 / a * (mget M (S j) 0 * vget y j))) by (intros; field; lra).
          rewrite sumn_scal_l. fold s. field. lra. }
      rewrite <- sumn_minus. apply sumn_ext. intros j Hj.
      unfold schur. rewrite mget_mkmat by assumption. fold a. ring. }
    set (x0 := - s / a).
    assert (E2 : qform M (x0 :: y) = T - s * s / a).
    { rewrite (qform_cons n) by assumption. fold a.
      rewrite (sumn_ext n (fun j => mget M 0 (S j) * vget y j) (fun j => mget M (S j) 0 * vget y j))
        by (intros j Hj; rewrite (Sy 0%nat (S j)) by lia; reflexivity).
      fold s.
      rewrite (sumn_ext n _ (fun i => (mget M (S i) 0 * vget y i) * x0 +
                                       vget y i * sumn n (fun j => mget M (S i) (S j) * vget y j)))
        by (intros; ring).
      rewrite sumn_plus, sumn_scal_r. fold s T. unfold x0. field. lra. }
    rewrite E1, <- E2. apply PM; [cbn; now rewrite Hy|].
    destruct Hnz as [i [Hi Hne]]. exists (S i). split; [cbn; lia | now rewrite vget_cons_S].
Qed.

(* ================================================================== Cholesky factor, every dimension *)
Fixpoint cholR (n : nat) (M : matR) : matR :=
  match n with
  | O => []
  | S n' =>
    let l := sqrt (mget M 0 0) in
    mborder n' l (vzero n') (mkvec n' (fun i => mget M (S i) 0 / l)) (cholR n' (schur n' M))
  end.

Definition chol_good (n : nat) (L M : matR) : Prop :=
  wf n n L /\ lower_tri n L /\ diag_pos n L /\ mmul L (mtr L) = M.

Lemma chol_step n (M L' : matR) : SPD (S n) M -> (n = 0%nat \/ chol_good n L' (schur n M)) ->
  let l := sqrt (mget M 0 0) in
  chol_good (S n) (mborder n l (vzero n) (mkvec n (fun i => mget M (S i) 0 / l)) L') M.
Proof.
  intros HS HL' l. assert (Ha := SPD_head_pos n M HS). destruct HS as (HM & SM & PM).
  set (a := mget M 0 0) in *.
  assert (Hl : 0 < l) by (unfold l; now apply sqrt_lt_R0).
  assert (Ell : l * l = a) by (unfold l; apply sqrt_sqrt; lra).
  assert (Sy : forall i j, (i < S n)%nat -> (j < S n)%nat -> mget M i j = mget M j i)
    by (intros; now apply (msym_mget (S n))).
  set (v := mkvec n (fun i => mget M (S i) 0 / l)).
  set (L := mborder n l (vzero n) v L').
  assert (WL : wf (S n) (S n) L) by apply wf_mborder.
  assert (Z0 : forall j, (j < n)%nat -> vget (vzero n) j = 0) by (intros j Hj; unfold vzero; now rewrite vget_mkvec).
  assert (Ev : forall i, (i < n)%nat -> vget v i = mget M (S i) 0 / l) by (intros i Hi; unfold v; now rewrite vget_mkvec).
  assert (G : forall i, (i < n)%nat -> chol_good n L' (schur n M)) by (intros i Hi; destruct HL' as [->|H]; [lia | exact H]).
  split; [exact WL|]. split; [|split].
  - intros i j Hi Hj Hij. unfold L. rewrite mget_mborder by assumption.
    destruct i as [|i], j as [|j]; try lia.
    + apply Z0. lia.
    + destruct (G i ltac:(lia)) as (_ & Lo & _). apply Lo; lia.
  - intros i Hi. unfold L. rewrite mget_mborder by assumption. destruct i as [|i]; [exact Hl|].
    destruct (G i ltac:(lia)) as (_ & _ & Dp & _). apply Dp. lia.
  - apply (mat_ext (S n) (S n)); [eauto with wf | assumption |].
    intros i j Hi Hj.
    rewrite (mget_mmul (S n) (S n) (S n)) by eauto with wf.
    rewrite sumn_S_first.
    rewrite (sumn_ext n (fun k => mul (mget L i (S k)) (mget (mtr L) (S k) j)) (fun k => mget L i (S k) * mget L j (S k)))
      by (intros k Hk; rewrite (mget_mtr (S n) (S n)) by (assumption || lia); reflexivity).
    rewrite (mget_mtr (S n) (S n)) by (assumption || lia). mnum.
    unfold L. rewrite !mget_mborder by lia.
    destruct i as [|i], j as [|j].
    + rewrite sumn_zero; [fold a; lra|]. intros k Hk. rewrite mget_mborder by lia. rewrite Z0 by assumption. lra.
    + rewrite sumn_zero.
      2:{ intros k Hk. rewrite !mget_mborder by lia. rewrite Z0 by assumption. lra. }
      rewrite Ev by lia. rewrite (Sy 0%nat (S j)) by lia. field. lra.
    + rewrite sumn_zero.
      2:{ intros k Hk. rewrite !mget_mborder by lia. rewrite Z0 by assumption. lra. }
      rewrite Ev by lia. field. lra.
    + destruct (G i ltac:(lia)) as (WL' & _ & _ & EL').
      rewrite (sumn_ext n _ (fun k => mget L' i k * mget L' j k))
        by (intros k Hk; rewrite !mget_mborder by lia; reflexivity).
      assert (E : sumn n (fun k => mget L' i k * mget L' j k) = mget (schur n M) i j).
      { rewrite <- EL'. rewrite (mget_mmul n n n) by (eauto with wf || lia).
        apply sumn_ext. intros k Hk. rewrite (mget_mtr n n) by (assumption || lia). reflexivity. }
      rewrite E. unfold schur. rewrite mget_mkmat by lia. rewrite !Ev by lia. fold a. rewrite <- Ell. field. lra.
Qed.

Theorem cholR_good n (M : matR) : SPD (S n) M -> chol_good (S n) (cholR (S n) M) M.
Proof.
  revert M. induction n as [|n IH]; intros M HS.
  - cbn [cholR]. apply (chol_step 0 M); [assumption | now left].
  - change (cholR (S (S n)) M) with
      (mborder (S n) (sqrt (mget M 0 0)) (vzero (S n)) (mkvec (S n) (fun i => mget M (S i) 0 / sqrt (mget M 0 0)))
               (cholR (S n) (schur (S n) M))).
    apply (chol_step (S n) M); [assumption | right]. apply IH. apply schur_spd; [lia | assumption].
Qed.

Theorem cholesky_ok_all n : cholesky_ok n (cholR n).
Proof.
  intros M HS. destruct n as [|n]; [destruct HS as ((H & _) & _); lia|].
  exact (cholR_good n M HS).
Qed.

Theorem factor_ok_all n : factor_ok n (cholR n).
Proof. apply cholesky_ok_factor_ok. apply cholesky_ok_all. Qed.

(* ================================================================== inverse, every dimension *)
Fixpoint invR (n : nat) (M : matR) : matR :=
  match n with
  | O => []
  | S n' =>
    let a := mget M 0 0 in
    let w := mkvec n' (fun i => mget M (S i) 0 / a) in
    let X' := invR n' (schur n' M) in
    let t := mapply X' w in
    mborder n' (1 / a + vdot w t) (vscal (-1) t) (vscal (-1) t) X'
  end.

Definition inv_good (n : nat) (X M : matR) : Prop := wf n n X /\ mmul M X = mid n /\ msym X.

Lemma inv_step n (M X' : matR) : SPD (S n) M -> (n = 0%nat \/ inv_good n X' (schur n M)) ->
  let a := mget M 0 0 in
  let w := mkvec n (fun i => mget M (S i) 0 / a) in
  let t := mapply X' w in
  inv_good (S n) (mborder n (1 / a + vdot w t) (vscal (-1) t) (vscal (-1) t) X') M.
Proof.
  intros HS HX' a w t. assert (Ha := SPD_head_pos n M HS). destruct HS as (HM & SM & PM). fold a in Ha.
  assert (Sy : forall i j, (i < S n)%nat -> (j < S n)%nat -> mget M i j = mget M j i)
    by (intros; now apply (msym_mget (S n))).
  set (X := mborder n (1 / a + vdot w t) (vscal (-1) t) (vscal (-1) t) X').
  assert (WX : wf (S n) (S n) X) by apply wf_mborder.
  assert (Lw : length w = n) by apply length_mkvec.
  assert (Ew : forall i, (i < n)%nat -> vget w i = mget M (S i) 0 / a) by (intros i Hi; unfold w; now rewrite vget_mkvec).
  assert (G : forall i, (i < n)%nat -> inv_good n X' (schur n M)) by (intros i Hi; destruct HX' as [->|H]; [lia | exact H]).
  assert (Lt : forall i, (i < n)%nat -> length t = n).
  { intros i Hi. destruct (G i Hi) as (W' & _). unfold t. now apply (length_mapply n n). }
  assert (Et : forall i, (i < n)%nat -> vget (vscal (-1) t) i = - vget t i).
  { intros i Hi. rewrite vget_vscal by (rewrite (Lt i Hi); assumption). mnum. lra. }
  (* t_j = sum_k X'_jk w_k = sum_k w_k X'_kj *)
  assert (Et1 : forall j, (j < n)%nat -> vget t j = sumn n (fun k => mget X' j k * vget w k)).
  { intros j Hj. destruct (G j Hj) as (W' & _). unfold t. now rewrite (vget_mapply n n). }
  assert (Et2 : forall j, (j < n)%nat -> sumn n (fun k => vget w k * mget X' k j) = vget t j).
  { intros j Hj. destruct (G j Hj) as (W' & _ & S'). rewrite Et1 by assumption.
    apply sumn_ext. intros k Hk. rewrite (msym_mget n X' k j) by assumption. ring. }
  (* sum_k schur_ik t_k = w_i *)
  assert (Es : forall i, (i < n)%nat -> sumn n (fun k => mget (schur n M) i k * vget t k) = vget w i).
  { intros i Hi. destruct (G i Hi) as (W' & I' & _).
    assert (WS : wf n n (schur n M)) by (unfold schur; apply wf_mkmat; lia).
    transitivity (vget (mapply (schur n M) t) i); [now rewrite (vget_mapply n n)|].
    unfold t. rewrite <- (mapply_mmul n n n) by assumption. rewrite I'.
    rewrite mapply_mid by (assumption || lia). reflexivity. }
  (* sum_k schur_ik X'_kj = delta_ij *)
  assert (Ei : forall i j, (i < n)%nat -> (j < n)%nat ->
               sumn n (fun k => mget (schur n M) i k * mget X' k j) = if Nat.eqb i j then 1 else 0).
  { intros i j Hi Hj. destruct (G i Hi) as (W' & I' & _).
    assert (WS : wf n n (schur n M)) by (unfold schur; apply wf_mkmat; lia).
    transitivity (mget (mid n) i j); [|now rewrite mget_mid].
    rewrite <- I'. now rewrite (mget_mmul n n n). }
  (* M_(Si,Sk) = schur_ik + c_i w_k *)
  assert (EM : forall i k, (i < n)%nat -> (k < n)%nat ->
               mget M (S i) (S k) = mget (schur n M) i k + mget M (S i) 0 * vget w k).
  { intros i k Hi Hk. unfold schur. rewrite mget_mkmat by assumption. rewrite Ew by assumption. fold a. field. lra. }
  (* vdot w t as a sum *)
  assert (Evd : vdot w t = sumn n (fun k => vget w k * vget t k)) by (unfold vdot; now rewrite Lw).
  split; [exact WX|]. split.
  - apply (mat_ext (S n) (S n)); [eauto with wf | apply wf_mid; lia |].
    intros i j Hi Hj.
    rewrite (mget_mmul (S n) (S n) (S n)) by assumption.
    rewrite sumn_S_first. rewrite mget_mid by assumption. mnum.
    unfold X. rewrite mget_mborder by lia.
    destruct i as [|i], j as [|j].
    + (* (0,0) *)
      rewrite (sumn_ext n _ (fun k => - (a * (vget w k * vget t k)))).
      2:{ intros k Hk. rewrite mget_mborder by lia. rewrite Et by assumption.
          rewrite (Sy 0%nat (S k)) by lia. rewrite Ew by assumption. fold a. field. lra. }
      rewrite Evd. cbn [Nat.eqb]. fold a.
      rewrite (sumn_ext n (fun k => - (a * (vget w k * vget t k))) (fun k => (- a) * (vget w k * vget t k))) by (intros; ring).
      rewrite sumn_scal_l. field. lra.
    + (* (0, S j) *)
      rewrite (sumn_ext n _ (fun k => a * (vget w k * mget X' k j))).
      2:{ intros k Hk. rewrite mget_mborder by lia.
          rewrite (Sy 0%nat (S k)) by lia. rewrite Ew by assumption. fold a. field. lra. }
      rewrite sumn_scal_l. rewrite Et2 by lia. rewrite Et by lia. cbn [Nat.eqb]. fold a. ring.
    + (* (S i, 0) *)
      rewrite (sumn_ext n _ (fun k => - (mget (schur n M) i k * vget t k) - mget M (S i) 0 * (vget w k * vget t k))).
      2:{ intros k Hk. rewrite mget_mborder by lia. rewrite Et by assumption. rewrite EM by lia. ring. }
      rewrite sumn_minus.
      rewrite (sumn_ext n (fun k => - (mget (schur n M) i k * vget t k)) (fun k => (-1) * (mget (schur n M) i k * vget t k)))
        by (intros; ring).
      rewrite !sumn_scal_l. rewrite Es by lia. rewrite Evd. rewrite Ew by lia. cbn [Nat.eqb]. fold a. field. lra.
    + (* (S i, S j) *)
      rewrite (sumn_ext n _ (fun k => mget (schur n M) i k * mget X' k j + mget M (S i) 0 * (vget w k * mget X' k j))).
      2:{ intros k Hk. rewrite mget_mborder by lia. rewrite EM by lia. ring. }
      rewrite sumn_plus, sumn_scal_l. rewrite Ei by lia. rewrite Et2 by lia. rewrite Et by lia.
      cbn [Nat.eqb]. ring.
  - apply (msym_of_mget (S n)); [assumption|].
    intros i j Hi Hj. unfold X. rewrite !mget_mborder by assumption.
    destruct i as [|i], j as [|j]; try reflexivity.
    destruct (G i ltac:(lia)) as (W' & _ & S'). apply (msym_mget n); (assumption || lia).
Qed.

Theorem invR_good n (M : matR) : SPD (S n) M -> inv_good (S n) (invR (S n) M) M.
Proof.
  revert M. induction n as [|n IH]; intros M HS.
  - cbn [invR]. apply (inv_step 0 M); [assumption | now left].
  - change (invR (S (S n)) M) with
      (let a := mget M 0 0 in
       let w := mkvec (S n) (fun i => mget M (S i) 0 / a) in
       let t := mapply (invR (S n) (schur (S n) M)) w in
       mborder (S n) (1 / a + vdot w t) (vscal (-1) t) (vscal (-1) t) (invR (S n) (schur (S n) M))).
    apply (inv_step (S n) M); [assumption | right]. apply IH. apply schur_spd; [lia | assumption].
Qed.

Theorem pinv_ok_all m : pinv_ok m (invR m).
Proof.
  intros S HS. destruct m as [|m]; [destruct HS as ((H & _) & _); lia|].
  destruct (invR_good m S HS) as (WX & I1 & SX). destruct HS as (WS & SS & _).
  split; [exact WX|]. split; [exact I1|].
  (* X S = (S X)^T *)
  rewrite <- SX at 1. rewrite <- SS at 2. rewrite <- (mtr_mmul (Datatypes.S m) (Datatypes.S m) (Datatypes.S m)) by assumption.
  rewrite I1. apply mtr_mid. lia.
Qed.

(* the identity matrix is symmetric positive definite in every dimension, so SPD hypotheses are satisfiable too *)
Lemma SPD_mid n : (0 < n)%nat -> SPD n (mid n).
Proof.
  intros Hn. split; [now apply wf_mid|]. split; [now apply mtr_mid|].
  intros x Hx Hnz. unfold qform. rewrite mapply_mid by assumption. now apply vdot_self_pos.
Qed.

Theorem contracts_satisfiable_every_dimension n : (0 < n)%nat ->
  (exists pinv, pinv_ok n pinv) /\ (exists msqrt, cholesky_ok n msqrt /\ factor_ok n msqrt) /\ (exists M, SPD n M).
Proof.
  intros Hn. split; [exists (invR n); apply pinv_ok_all|].
  split; [exists (cholR n); split; [apply cholesky_ok_all | apply factor_ok_all]|].
  exists (mid n). now apply SPD_mid.
Qed.
