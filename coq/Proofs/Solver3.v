(* C10, conjugate gradients: finite termination in exact arithmetic.
   For a symmetric positive definite A (and an optional symmetric positive definite preconditioner M)
   the loop of CG.forward, as modelled by Model/Solver.v [cg_loop] (same update order, divisions
   guarded by [divo]), never divides by zero and its tolerance test fires at some iteration k <= n:
     - the residuals r_0, r_1, ... are pairwise M-orthogonal, the directions p_j are A-conjugate
       (induction over the iterations; no bound on n or k),
     - n + 1 non-zero pairwise M-orthogonal vectors of length n do not exist (Proofs/Solver2.v).
   Hence CG returns, through the tolerance test, an x with |b - A x| < tol |b| whenever
   maxiter > n; the default maxiter = 10 n is such a value. *)
From Coq Require Import Reals Lra List Arith Lia Bool ZArith Psatz.
Import ListNotations.
From PV Require Import Base.Num Base.RTac Model.Solver Proofs.Solver Proofs.Solver2.
Local Open Scope R_scope.
#[local] Remove Hints NumQ NumZ : typeclass_instances.

(* ------------------------------------------------------------------------------------------ *)
(* a symmetric matrix is self-adjoint for the dot product *)
Lemma transp_sym n (A : matR) : wf_mat n n A ->
  (forall i j, (i < n)%nat -> (j < n)%nat -> entry A i j = entry A j i) -> transp n A = A.
Proof.
  intros (HA1 & HA2) Hs. unfold transp.
  transitivity (map (fun j => nth j A []) (seq 0 n)); [|rewrite <- HA1; apply map_nth_seq].
  apply map_ext_in. intros j Hj. apply in_seq in Hj.
  rewrite Forall_forall in HA2.
  assert (Hlj : length (nth j A []) = n) by (apply HA2; apply nth_In; lia).
  apply (nth_ext _ _ 0 0).
  - unfold col. now rewrite map_length, Hlj.
  - intros k Hk. unfold col in Hk. rewrite map_length in Hk.
    unfold col.
    transitivity (nth k (map (fun row : list R => nth j row 0) A) ((fun row : list R => nth j row 0) [])).
    { apply nth_indep. rewrite map_length. lia. }
    rewrite (map_nth (fun row : list R => nth j row 0)). exact (Hs k j ltac:(lia) ltac:(lia)).
Qed.
Lemma SPD_self_adjoint n (A : matR) : SPD n A ->
  forall u v : vecR, length u = n -> length v = n -> dotR u (mvR A v) = dotR (mvR A u) v.
Proof.
  intros (Hwf & Hs & _) u v Hu Hv.
  rewrite (adjoint n A u v); [|apply Hwf|destruct Hwf; lia|exact Hv].
  now rewrite (transp_sym n A Hwf Hs).
Qed.
Lemma allzero_dec (u : vecR) : {allzero u} + {~ allzero u}.
Proof. apply Forall_dec. intros t. apply Req_EM_T. Qed.

Lemma divo_some (a d : R) : d <> 0 -> divo a d = Some (a / d).
Proof. intros H. unfold divo. cbn. replace (Reqb d 0) with false; [reflexivity|]. symmetry. now apply Reqb_false. Qed.

Lemma divo_inv (a d q : R) : divo a d = Some q -> d <> 0 /\ q = a / d.
Proof.
  unfold divo. cbn. destruct (Reqb d 0) eqn:E; [discriminate|]. intros H. inversion H.
  split; [now apply Reqb_false|reflexivity].
Qed.
Lemma divo_zero (a : R) : divo a 0 = None.
Proof. unfold divo. cbn. replace (Reqb 0 0) with true; [reflexivity|]. symmetry. now apply Reqb_true. Qed.
Lemma allzero_vadd : forall u v : vecR, allzero u -> allzero v -> allzero (vaddR u v).
Proof.
  induction u as [|a u IH]; intros [|c v] Hu Hv; cbn; try constructor.
  - inversion Hu; inversion Hv; subst. num_unfold. lra.
  - inversion Hu; inversion Hv; subst. now apply IH.
Qed.
Lemma allzero_vscale0 (p : vecR) : allzero (vscaleR 0 p).
Proof. induction p as [|a p IH]; cbn; constructor; auto. num_unfold. ring. Qed.
Lemma cg_iter_snoc A M conv : forall k s,
  cg_iter A M conv (S k) s = match cg_iter A M conv k s with Some s' => cg_step A M conv s' | None => None end.
Proof.
  induction k as [|k IH]; intros s.
  - cbn. destruct (cg_step A M conv s); reflexivity.
  - change (cg_iter A M conv (S (S k)) s) with (match cg_step A M conv s with Some s' => cg_iter A M conv (S k) s' | None => None end).
    change (cg_iter A M conv (S k) s) with (match cg_step A M conv s with Some s' => cg_iter A M conv k s' | None => None end).
    destruct (cg_step A M conv s) as [s'|]; [apply IH|reflexivity].
Qed.

(* ------------------------------------------------------------------------------------------ *)
Section CGTermination.
Variable n : nat.
Variable A : matR.
Variable M : option matR.
Hypothesis HA : length A = n.
(* the preconditioner as an operator: z = M r, or z = r *)
Definition Mop (r : vecR) : vecR := match M with Some Mm => mvR Mm r | None => r end.
Hypothesis Asym : forall u v : vecR, length u = n -> length v = n -> dotR u (mvR A v) = dotR (mvR A u) v.
Hypothesis Apos : forall u : vecR, length u = n -> ~ allzero u -> 0 < dotR u (mvR A u).
Hypothesis Mlen : forall u : vecR, length u = n -> length (Mop u) = n.
Hypothesis Msym : forall u v : vecR, length u = n -> length v = n -> dotR u (Mop v) = dotR (Mop u) v.
Hypothesis Mpos : forall u : vecR, length u = n -> ~ allzero u -> 0 < dotR u (Mop u).

Variables xi ri : vecR.          (* the state before the first iteration *)
Hypothesis Hxi : length xi = n.
Hypothesis Hri : length ri = n.

(* the iterates as total sequences (x_k, r_k, p_k, rho_k): p_k and rho_k are the direction and the
   value r_k . z_k that iteration k computes from r_k; plain real division (every use below is under
   a proof that the divisor is non-zero, and the link to the model [cg_body] is under such proofs) *)
Definition cg_nxt (s : vecR * vecR * vecR * R) : vecR * vecR * vecR * R :=
  let '(x, r, p, rho) := s in
  let q := mvR A p in
  let alpha := rho / dotR p q in
  let r' := vsubR r (vscaleR alpha q) in
  let z' := Mop r' in
  let rho' := dotR r' z' in
  (vaddR x (vscaleR alpha p), r', vaddR (vscaleR (rho' / rho) p) z', rho').
Fixpoint cgt (k : nat) : vecR * vecR * vecR * R :=
  match k with
  | O => (xi, ri, Mop ri, dotR ri (Mop ri))
  | S k' => cg_nxt (cgt k')
  end.
Definition xs k : vecR := fst (fst (fst (cgt k))).
Definition rs k : vecR := snd (fst (fst (cgt k))).
Definition ps k : vecR := snd (fst (cgt k)).
Definition rhos k : R := snd (cgt k).
Definition dd k : R := dotR (ps k) (mvR A (ps k)).
Definition alphas k : R := rhos k / dd k.

Lemma xs_S k : xs (S k) = vaddR (xs k) (vscaleR (alphas k) (ps k)).
Proof. unfold xs, alphas, dd, ps, rhos. cbn [cgt]. destruct (cgt k) as [[[x r] p] rho]. reflexivity. Qed.
Lemma rs_S k : rs (S k) = vsubR (rs k) (vscaleR (alphas k) (mvR A (ps k))).
Proof. unfold rs, alphas, dd, ps, rhos. cbn [cgt]. destruct (cgt k) as [[[x r] p] rho]. reflexivity. Qed.
Lemma rhos_eq k : rhos k = dotR (rs k) (Mop (rs k)).
Proof. unfold rs, rhos. destruct k; cbn [cgt]; [reflexivity|]. destruct (cgt k) as [[[x r] p] rho]. reflexivity. Qed.
Lemma ps_0 : ps 0 = Mop (rs 0).
Proof. reflexivity. Qed.
Lemma ps_S k : ps (S k) = vaddR (vscaleR (rhos (S k) / rhos k) (ps k)) (Mop (rs (S k))).
Proof. unfold rs, ps, rhos. cbn [cgt]. destruct (cgt k) as [[[x r] p] rho]. reflexivity. Qed.

Lemma cgt_lengths k : length (xs k) = n /\ length (rs k) = n /\ length (ps k) = n.
Proof.
  induction k as [|k (Hx & Hr & Hp)].
  - cbn. repeat split; auto.
  - assert (Hr' : length (rs (S k)) = n).
    { rewrite rs_S, vsub_length, vscale_length, mv_length. lia. }
    split; [|split; [exact Hr'|]].
    + rewrite xs_S, vadd_length, vscale_length. lia.
    + rewrite ps_S, vadd_length, vscale_length, Mlen by exact Hr'. lia.
Qed.
Lemma len_x k : length (xs k) = n. Proof. apply cgt_lengths. Qed.
Lemma len_r k : length (rs k) = n. Proof. apply cgt_lengths. Qed.
Lemma len_p k : length (ps k) = n. Proof. apply cgt_lengths. Qed.
Lemma len_Ap k : length (mvR A (ps k)) = n. Proof. now rewrite mv_length. Qed.
Lemma len_z k : length (Mop (rs k)) = n. Proof. apply Mlen, len_r. Qed.

(* the recurrences, tested against an arbitrary vector w *)
Lemma rs_S_dot k (w : vecR) : length w = n ->
  dotR (rs (S k)) w = dotR (rs k) w - alphas k * dotR (mvR A (ps k)) w.
Proof.
  intros Hw. rewrite rs_S. rewrite dot_sub_l by (rewrite vscale_length, len_r, len_Ap; reflexivity).
  now rewrite dot_scale_l.
Qed.
Lemma ps_S_dot k (w : vecR) : length w = n ->
  dotR w (ps (S k)) = rhos (S k) / rhos k * dotR w (ps k) + dotR w (Mop (rs (S k))).
Proof.
  intros Hw. rewrite ps_S. rewrite dot_add_r by (rewrite vscale_length, len_p, len_z; reflexivity).
  now rewrite dot_scale_r.
Qed.

(* the invariant of iteration j: orthogonality of the residuals, conjugacy of the directions *)
Definition NZ (j : nat) : Prop := forall i, (i < j)%nat -> ~ allzero (rs i).
Definition cg_orth (j : nat) : Prop :=
  (forall i, (i < j)%nat -> dotR (rs j) (Mop (rs i)) = 0) /\
  (forall i, (i < j)%nat -> dotR (rs j) (ps i) = 0) /\
  (forall i, (i < j)%nat -> dotR (ps j) (mvR A (ps i)) = 0) /\
  dotR (rs j) (ps j) = rhos j /\
  (forall i, (i < j)%nat -> 0 < rhos i /\ 0 < dd i).

Lemma rho_pos k : ~ allzero (rs k) -> 0 < rhos k.
Proof. intros H. rewrite rhos_eq. apply Mpos; [apply len_r|exact H]. Qed.

Theorem cg_orthogonality : forall j, NZ j -> cg_orth j.
Proof.
  induction j as [|j IH]; intros Hnz.
  - split; [intros; lia|]. split; [intros; lia|]. split; [intros; lia|]. split; [|intros; lia].
    rewrite ps_0. now rewrite rhos_eq.
  - assert (Hnzj : NZ j) by (intros i Hi; apply Hnz; lia).
    assert (Hrj : ~ allzero (rs j)) by (apply Hnz; lia).
    destruct (IH Hnzj) as (HR & HP & HC & HE & HT).
    pose proof (rho_pos j Hrj) as Hrho.
    assert (Hd : 0 < dd j).
    { apply Apos; [apply len_p|]. intros Z. rewrite (dot_zero_r (rs j) (ps j) Z) in HE. lra. }
    assert (HT' : forall i, (i < S j)%nat -> 0 < rhos i /\ 0 < dd i).
    { intros i Hi. destruct (Nat.eq_dec i j) as [->|]; [split; assumption|apply HT; lia]. }
    (* r_{j+1} . p_i = 0 *)
    assert (HP' : forall i, (i < S j)%nat -> dotR (rs (S j)) (ps i) = 0).
    { intros i Hi. rewrite rs_S_dot by apply len_p.
      destruct (Nat.eq_dec i j) as [->|Hne].
      - rewrite HE. rewrite (dot_comm (mvR A (ps j)) (ps j)). fold (dd j). unfold alphas. field. lra.
      - rewrite HP by lia. rewrite <- Asym by apply len_p. rewrite HC by lia. ring. }
    (* r_{j+1} . M r_i = 0 *)
    assert (HR' : forall i, (i < S j)%nat -> dotR (rs (S j)) (Mop (rs i)) = 0).
    { intros [|i] Hi.
      - rewrite <- ps_0. apply HP'. lia.
      - pose proof (ps_S_dot i (rs (S j)) (len_r (S j))) as E.
        rewrite (HP' (S i)) in E by lia. rewrite (HP' i) in E by lia. lra. }
    assert (HE' : dotR (rs (S j)) (ps (S j)) = rhos (S j)).
    { rewrite ps_S_dot by apply len_r. rewrite (HP' j) by lia. rewrite <- rhos_eq. ring. }
    split; [exact HR'|]. split; [exact HP'|]. split; [|split; [exact HE'|exact HT']].
    (* p_{j+1} . A p_i = 0 *)
    intros i Hi. rewrite dot_comm. rewrite ps_S_dot by apply len_Ap.
    set (z := Mop (rs (S j))). assert (Hz : length z = n) by apply len_z.
    destruct (HT' i Hi) as (Hrhoi & Hdi).
    pose proof (rs_S_dot i z Hz) as E.
    assert (E0 : dotR (rs i) z = 0).
    { unfold z. rewrite Msym by apply len_r. rewrite dot_comm. apply HR'. exact Hi. }
    rewrite E0 in E.
    destruct (Nat.eq_dec i j) as [->|Hne].
    + assert (E1 : dotR (rs (S j)) z = rhos (S j)) by (unfold z; now rewrite <- rhos_eq).
      rewrite E1 in E. rewrite (dot_comm (mvR A (ps j)) (ps j)). fold (dd j).
      unfold alphas in E.
      assert (Y : dotR (mvR A (ps j)) z = - rhos (S j) * dd j / rhos j).
      { apply (Rmult_eq_reg_l (rhos j / dd j)); [|apply Rgt_not_eq; apply Rdiv_lt_0_compat; lra].
        transitivity (- rhos (S j)); [lra|]. field. lra. }
      rewrite Y. field. lra.
    + assert (E1 : dotR (rs (S i)) z = 0).
      { unfold z. rewrite Msym by apply len_r. rewrite dot_comm. apply HR'. lia. }
      rewrite E1 in E.
      assert (Ha : alphas i <> 0) by (unfold alphas; apply Rgt_not_eq; apply Rdiv_lt_0_compat; lra).
      assert (Y : dotR (mvR A (ps i)) z = 0).
      { apply (Rmult_eq_reg_l (alphas i)); [lra|exact Ha]. }
      rewrite Y. rewrite (dot_comm (mvR A (ps i)) (ps j)). rewrite HC by lia. ring.
Qed.

(* pairwise M-orthogonality of non-zero residuals, in both orders *)
Lemma residuals_orthogonal j : NZ j -> forall i k, (i <= j)%nat -> (k <= j)%nat -> i <> k ->
  dotR (rs i) (Mop (rs k)) = 0.
Proof.
  intros Hnz i k Hi Hk Hne.
  destruct (lt_dec k i) as [Hlt|Hge].
  - assert (Hnzi : NZ i) by (intros t Ht; apply Hnz; lia).
    destruct (cg_orthogonality i Hnzi) as (HR & _). apply HR. exact Hlt.
  - assert (Hnzk : NZ k) by (intros t Ht; apply Hnz; lia).
    destruct (cg_orthogonality k Hnzk) as (HR & _).
    rewrite Msym by apply len_r. rewrite dot_comm. apply HR. lia.
Qed.

(* at most n of the residuals r_0 .. r_n are non-zero *)
Theorem some_residual_vanishes : ~ NZ (S n).
Proof.
  intros Hnz. apply (orth_family_bound n Mop rs).
  - intros i _. apply len_r.
  - intros i _. apply len_z.
  - intros i j Hi Hj Hne. apply (residuals_orthogonal n); auto. intros t Ht. apply Hnz. lia.
  - intros i Hi. rewrite <- rhos_eq. apply Rgt_not_eq. apply rho_pos. apply Hnz. lia.
Qed.

(* ---- link to the model: the loop state before iteration k ---- *)
Definition prevs (k : nat) : cg_prev (F:=R) :=
  match k with O => None | S k' => Some (ps k', rhos k') end.

Lemma cg_body_seq k : NZ (S k) ->
  cg_body A M (xs k) (rs k) (prevs k) = Some (xs (S k), rs (S k), (ps k, rhos k)).
Proof.
  intros Hnz. destruct (cg_orthogonality (S k) Hnz) as (_ & _ & _ & _ & HT).
  destruct (HT k ltac:(lia)) as (Hrho & Hd).
  unfold cg_body. fold (Mop (rs k)). rewrite <- rhos_eq.
  destruct k as [|k]; cbn [prevs].
  - rewrite <- ps_0. fold (dd 0). rewrite divo_some by lra.
    rewrite xs_S, rs_S. reflexivity.
  - destruct (HT k ltac:(lia)) as (Hrho' & _). rewrite divo_some by lra.
    rewrite <- ps_S. fold (dd (S k)). rewrite divo_some by lra.
    rewrite (xs_S (S k)), (rs_S (S k)). reflexivity.
Qed.

(* a loop body that does not divide by zero was entered with a non-zero residual *)
Lemma cg_body_nonzero x r prev y : cg_body A M x r prev = Some y -> ~ allzero r.
Proof.
  intros H Z. unfold cg_body in H. fold (Mop r) in H.
  assert (Zz : allzero (Mop r)).
  { unfold Mop. destruct M as [Mm|]; [now apply mv_zero|exact Z]. }
  rewrite (dot_zero_l (Mop r) r Z) in H.
  assert (K : forall p : vecR, allzero p ->
            match divo 0 (dotR p (mvR A p)) with
            | Some alpha => Some (vaddR x (vscaleR alpha p), vsubR r (vscaleR alpha (mvR A p)), (p, 0))
            | None => None end = Some y -> False).
  { intros p Zp. rewrite (dot_zero_l (mvR A p) p Zp). rewrite divo_zero. discriminate. }
  destruct prev as [[p0 rho0]|].
  - destruct (divo 0 rho0) as [beta|] eqn:E; [|discriminate].
    apply divo_inv in E. destruct E as (_ & ->).
    apply (K (vaddR (vscaleR (0 / rho0) p0) (Mop r))); [|exact H].
    apply allzero_vadd; [|exact Zz]. replace (0 / rho0) with 0 by (unfold Rdiv; ring). apply allzero_vscale0.
  - exact (K (Mop r) Zz H).
Qed.

(* the states visited by the model's loop ARE the sequences, whatever the tolerance test *)
Theorem cg_iter_seq conv : forall k s,
  cg_iter A M conv k (xi, ri, None) = Some s ->
  s = (xs k, rs k, prevs k) /\ NZ k /\ forall i, (i < k)%nat -> conv (rs i) = false.
Proof.
  induction k as [|k IH]; intros s H.
  - cbn in H. inversion H. split; [reflexivity|]. split; intros i Hi; lia.
  - rewrite cg_iter_snoc in H. destruct (cg_iter A M conv k (xi, ri, None)) as [s'|] eqn:E; [|discriminate].
    destruct (IH s' eq_refl) as (-> & Hnz & Hc).
    unfold cg_step in H. destruct (conv (rs k)) eqn:Ec; [discriminate|].
    destruct (cg_body A M (xs k) (rs k) (prevs k)) as [[[x' r'] pr]|] eqn:Eb; [|discriminate].
    pose proof (cg_body_nonzero _ _ _ _ Eb) as Hrk.
    assert (Hnz' : NZ (S k)).
    { intros i Hi. destruct (Nat.eq_dec i k) as [->|]; [exact Hrk|apply Hnz; lia]. }
    rewrite (cg_body_seq k Hnz') in Eb. inversion Eb; subst x' r' pr. inversion H.
    split; [reflexivity|]. split; [exact Hnz'|].
    intros i Hi. destruct (Nat.eq_dec i k) as [->|]; [exact Ec|apply Hc; lia].
Qed.

(* the tolerance test: any test that fires on the zero residual *)
Variable conv : vecR -> bool.
Hypothesis conv_zero : forall r : vecR, allzero r -> conv r = true.

Lemma conv_false_nz j : (forall i, (i < j)%nat -> conv (rs i) = false) -> NZ j.
Proof. intros H i Hi Z. specialize (H i Hi). rewrite (conv_zero _ Z) in H. discriminate. Qed.

(* MAIN LEMMA: started in the state before iteration k, with more than n - k iterations left, the loop
   leaves through the tolerance test at some iteration k' <= n; no division by zero on the way *)
Theorem cg_loop_exits : forall fuel k,
  (forall i, (i < k)%nat -> conv (rs i) = false) -> (n < fuel + k)%nat ->
  exists k', (k <= k')%nat /\ (k' <= n)%nat /\ conv (rs k') = true /\
    cg_loop conv fuel k A M (xs k) (rs k) (prevs k) = CgExit (xs k') (rs k') k'.
Proof.
  induction fuel as [|f IH]; intros k Hc Hf.
  - exfalso. apply some_residual_vanishes. apply conv_false_nz. intros i Hi. apply Hc. lia.
  - cbn [cg_loop]. destruct (conv (rs k)) eqn:Ek.
    + exists k. split; [lia|]. split; [|split; [exact Ek|reflexivity]].
      destruct (le_dec k n) as [Hle|Hgt]; [exact Hle|].
      exfalso. apply some_residual_vanishes. apply conv_false_nz. intros i Hi. apply Hc. lia.
    + assert (Hc' : forall i, (i < S k)%nat -> conv (rs i) = false).
      { intros i Hi. destruct (Nat.eq_dec i k) as [->|]; [exact Ek|apply Hc; lia]. }
      rewrite (cg_body_seq k (conv_false_nz (S k) Hc')).
      destruct (IH (S k) Hc' ltac:(lia)) as (k' & H1 & H2 & H3 & H4).
      exists k'. split; [lia|]. split; [exact H2|]. split; [exact H3|]. exact H4.
Qed.

(* with exactly n - k iterations left the loop may also run out of iterations - then with the zero
   residual in hand (the classical "at most n steps") *)
Theorem cg_loop_ends : forall fuel k,
  (forall i, (i < k)%nat -> conv (rs i) = false) -> (n <= fuel + k)%nat ->
  (exists k', (k <= k')%nat /\ (k' <= n)%nat /\ conv (rs k') = true /\
     cg_loop conv fuel k A M (xs k) (rs k) (prevs k) = CgExit (xs k') (rs k') k') \/
  (cg_loop conv fuel k A M (xs k) (rs k) (prevs k) = CgMaxIter (xs n) (rs n) /\ allzero (rs n)).
Proof.
  induction fuel as [|f IH]; intros k Hc Hf.
  - destruct (Nat.eq_dec k n) as [->|Hne].
    + right. split; [reflexivity|]. destruct (allzero_dec (rs n)) as [Z|NZn]; [exact Z|].
      exfalso. apply some_residual_vanishes. intros i Hi.
      destruct (Nat.eq_dec i n) as [->|]; [exact NZn|]. apply (conv_false_nz n Hc). lia.
    + exfalso. apply some_residual_vanishes. apply conv_false_nz. intros i Hi. apply Hc. lia.
  - destruct (le_lt_dec (S n) (S f + k)) as [Hgt|Hle].
    + left. apply cg_loop_exits; [exact Hc|lia].
    + cbn [cg_loop]. destruct (conv (rs k)) eqn:Ek.
      * left. exists k. split; [lia|]. split; [lia|]. split; [exact Ek|reflexivity].
      * assert (Hc' : forall i, (i < S k)%nat -> conv (rs i) = false).
        { intros i Hi. destruct (Nat.eq_dec i k) as [->|]; [exact Ek|apply Hc; lia]. }
        rewrite (cg_body_seq k (conv_false_nz (S k) Hc')).
        destruct (IH (S k) Hc' ltac:(lia)) as [(k' & H1 & H2 & H3 & H4)|H]; [left|right; exact H].
        exists k'. split; [lia|]. split; [exact H2|]. split; [exact H3|]. exact H4.
Qed.
End CGTermination.

(* ------------------------------------------------------------------------------------------ *)
(* CG.forward *)
Lemma SPD_Mop_none n : forall u v : vecR, length u = n -> length v = n -> dotR u (Mop None v) = dotR (Mop None u) v.
Proof. reflexivity. Qed.
Lemma dot_self_pos (u : vecR) : ~ allzero u -> 0 < dotR u u.
Proof.
  intros H. pose proof (dot_self_nonneg u) as H0. destruct (Req_dec (dotR u u) 0) as [E|E]; [|lra].
  exfalso. apply H. now apply dot_self_zero.
Qed.
Lemma norm2_allzero (r : vecR) : allzero r -> norm2 r = 0.
Proof. intros Z. apply norm2_zero_iff. now apply dot_zero_r. Qed.
Lemma norm2_pos (b : vecR) : ~ allzero b -> 0 < norm2 b.
Proof. intros H. unfold norm2. apply sqrt_lt_R0. now apply dot_self_pos. Qed.

(* the preconditioner argument of forward(): absent, or a symmetric positive definite matrix *)
Definition precond_ok (n : nat) (M : option matR) : Prop := forall Mm, M = Some Mm -> SPD n Mm.

Section CGForward.
Variable n : nat.
Variable A : matR.
Variable M : option matR.
Variable b : vecR.
Hypothesis HA : SPD n A.
Hypothesis HM : precond_ok n M.
Hypothesis Hb : length b = n.

Let HlenA : length A = n. Proof. destruct HA as ((H & _) & _). exact H. Qed.
Let HlenM : forall Mm, M = Some Mm -> length Mm = n.
Proof. intros Mm E. destruct (HM Mm E) as ((H & _) & _). exact H. Qed.

Let Mlen' : forall u : vecR, length u = n -> length (Mop M u) = n.
Proof. intros u Hu. unfold Mop. destruct M as [Mm|] eqn:E; auto. rewrite mv_length. now apply HlenM. Qed.
Let Msym' : forall u v : vecR, length u = n -> length v = n -> dotR u (Mop M v) = dotR (Mop M u) v.
Proof.
  intros u v Hu Hv. unfold Mop. destruct M as [Mm|] eqn:E; auto. apply (SPD_self_adjoint n Mm); auto.
Qed.
Let Mpos' : forall u : vecR, length u = n -> ~ allzero u -> 0 < dotR u (Mop M u).
Proof.
  intros u Hu Hnz. unfold Mop. destruct M as [Mm|] eqn:E; [|now apply dot_self_pos].
  destruct (HM Mm eq_refl) as (_ & _ & Hp). now apply Hp.
Qed.

(* The classical invariants, stated on the states the modelled loop visits (any tolerance test, any
   number of iterations i < j, optional guess): the residuals are pairwise M-orthogonal,
   r_j . (M r_i) = 0  (M = identity without preconditioner), ... *)
Theorem cg_iterates_orthogonal conv x0 i j xi ri pvi xj rj pvj :
  (forall x, x0 = Some x -> length x = n) -> (i < j)%nat ->
  cg_iter A M conv i (cg_x0 b x0, cg_r0 A b x0, None) = Some (xi, ri, pvi) ->
  cg_iter A M conv j (cg_x0 b x0, cg_r0 A b x0, None) = Some (xj, rj, pvj) ->
  dotR rj (Mop M ri) = 0 /\ ~ allzero ri.
Proof.
  intros Hx0 Hij Ei Ej.
  pose proof (cg_init_inv n A b HlenA Hb x0 Hx0) as (Hxi & Hri & _).
  assert (Hri' : length (cg_r0 A b x0) = n) by (rewrite Hri, vsub_length, mv_length; lia).
  pose proof (cg_iter_seq n A M HlenA (SPD_self_adjoint n A HA) (proj2 (proj2 HA)) Mlen' Msym' Mpos'
                (cg_x0 b x0) (cg_r0 A b x0) Hxi Hri' conv) as Hseq.
  destruct (Hseq i _ Ei) as (Es & _ & _). destruct (Hseq j _ Ej) as (Et & Hnz & _).
  inversion Es; subst xi ri pvi. inversion Et; subst xj rj pvj.
  destruct (cg_orthogonality n A M HlenA (SPD_self_adjoint n A HA) (proj2 (proj2 HA)) Mlen' Msym' Mpos'
              (cg_x0 b x0) (cg_r0 A b x0) Hxi Hri' j Hnz) as (HR & _).
  split; [apply HR; exact Hij|apply Hnz; exact Hij].
Qed.
(* ... and the search directions (p_i is the direction stored by iteration i, i.e. in state i + 1)
   are A-conjugate: p_j . (A p_i) = 0 *)
Theorem cg_directions_conjugate conv x0 i j xi ri di rhoi xj rj dj rhoj :
  (forall x, x0 = Some x -> length x = n) -> (i < j)%nat ->
  cg_iter A M conv (S i) (cg_x0 b x0, cg_r0 A b x0, None) = Some (xi, ri, Some (di, rhoi)) ->
  cg_iter A M conv (S j) (cg_x0 b x0, cg_r0 A b x0, None) = Some (xj, rj, Some (dj, rhoj)) ->
  dotR dj (mvR A di) = 0 /\ 0 < dotR di (mvR A di).
Proof.
  intros Hx0 Hij Ei Ej.
  pose proof (cg_init_inv n A b HlenA Hb x0 Hx0) as (Hxi & Hri & _).
  assert (Hri' : length (cg_r0 A b x0) = n) by (rewrite Hri, vsub_length, mv_length; lia).
  pose proof (cg_iter_seq n A M HlenA (SPD_self_adjoint n A HA) (proj2 (proj2 HA)) Mlen' Msym' Mpos'
                (cg_x0 b x0) (cg_r0 A b x0) Hxi Hri' conv) as Hseq.
  destruct (Hseq (S i) _ Ei) as (Es & _ & _). destruct (Hseq (S j) _ Ej) as (Et & Hnz & _).
  cbn [prevs] in Es, Et. inversion Es; subst xi ri di rhoi. inversion Et; subst xj rj dj rhoj.
  assert (Hnzj : NZ A M (cg_x0 b x0) (cg_r0 A b x0) j) by (intros t Ht; apply Hnz; lia).
  destruct (cg_orthogonality n A M HlenA (SPD_self_adjoint n A HA) (proj2 (proj2 HA)) Mlen' Msym' Mpos'
              (cg_x0 b x0) (cg_r0 A b x0) Hxi Hri' j Hnzj) as (_ & _ & HC & _ & HT).
  split; [apply HC; exact Hij|]. destruct (HT i Hij) as (_ & Hd). exact Hd.
Qed.

(* b <> 0, tol > 0, more than n iterations allowed: forward() returns through the tolerance test at
   an iteration k <= n, and the returned x satisfies |b - A x| < tol |b| *)
Theorem cg_terminates_exact tol maxiter x0 :
  ~ allzero b -> 0 < tol ->
  (forall x, x0 = Some x -> length x = n) ->
  (forall mi, maxiter = Some mi -> (n < mi)%nat) ->
  exists x r k, cg norm2 tol maxiter A b x0 M = RetLoop (CgExit x r k) /\ (k <= n)%nat /\
    r = vsubR b (mvR A x) /\ length x = n /\ norm2 (vsubR b (mvR A x)) < tol * norm2 b.
Proof.
  intros Hbnz Htol Hx0 Hmi.
  assert (Hn : (0 < n)%nat).
  { destruct n; [|lia]. destruct b; [|discriminate]. exfalso. apply Hbnz. constructor. }
  pose proof (norm2_pos b Hbnz) as Hnb.
  assert (Ez : eqb (norm2 b) zero = false) by (apply Reqb_false; cbn; lra).
  unfold cg. rewrite (cg_core_unfold A M b _ _ maxiter x0 Ez).
  set (conv := fun r : vecR => ltb (norm2 r) (mul tol (norm2 b))).
  set (fuel := match maxiter with Some k => k | None => (length b * 10)%nat end).
  assert (Hfuel : (n < fuel + 0)%nat).
  { unfold fuel. destruct maxiter as [mi|]; [specialize (Hmi mi eq_refl); lia|lia]. }
  pose proof (cg_init_inv n A b HlenA Hb x0 Hx0) as (Hxi & Hri & _).
  assert (Hri' : length (cg_r0 A b x0) = n) by (rewrite Hri, vsub_length, mv_length; lia).
  destruct (cg_loop_exits n A M HlenA (SPD_self_adjoint n A HA) (proj2 (proj2 HA))) with
    (xi := cg_x0 b x0) (ri := cg_r0 A b x0) (conv := conv) (fuel := fuel) (k := O)
    as (k' & _ & Hk' & Hconv & Hloop); auto.
  - (* conv fires on the zero residual *) intros r Z. unfold conv. apply Rltb_true. rewrite (norm2_allzero r Z). cbn. nra.
  - intros i Hi. lia.
  - cbn [xs rs prevs cgt fst snd] in Hloop.
    eexists _, _, k'. split; [f_equal; exact Hloop|]. split; [exact Hk'|].
    pose proof (cg_returned_residual n A M b HlenA Hb HlenM (fun b => eqb (norm2 b) zero)
                  (fun b r => ltb (norm2 r) (mul tol (norm2 b))) maxiter x0 Hx0) as P.
    rewrite (cg_core_unfold A M b _ _ maxiter x0 Ez) in P. fold conv fuel in P. rewrite Hloop in P.
    destruct P as (P1 & P2 & P3). split; [exact P1|]. split; [exact P3|].
    rewrite <- P1. now apply Rltb_true in P2.
Qed.

(* the clause of the property: whatever b (zero or not), with the default iteration budget 10 n (or
   any budget > n), optional guess and preconditioner, forward() returns a finite x with
   |b - A x| <= tol |b| *)
Theorem cg_tolerance tol maxiter x0 :
  0 < tol ->
  (forall x, x0 = Some x -> length x = n) ->
  (forall mi, maxiter = Some mi -> (n < mi)%nat) ->
  exists x, cg_value (cg norm2 tol maxiter A b x0 M) = Some x /\ length x = n /\
    norm2 (vsubR b (mvR A x)) <= tol * norm2 b.
Proof.
  intros Htol Hx0 Hmi. destruct (allzero_dec b) as [Z|Hnz].
  - rewrite (cg_zero_rhs A M b tol maxiter x0 Z). exists b. split; [reflexivity|]. split; [exact Hb|].
    assert (E : vsubR b (mvR A b) = b).
    { apply vsub_zero_r; [rewrite mv_length; lia|]. now apply mv_zero. }
    rewrite E, (norm2_allzero b Z). lra.
  - destruct (cg_terminates_exact tol maxiter x0 Hnz Htol Hx0 Hmi) as (x & r & k & E & _ & _ & Hl & Hres).
    exists x. rewrite E. split; [reflexivity|]. split; [exact Hl|lra].
Qed.

(* the classical bound: a budget of n iterations is enough (the loop may then end by exhaustion, with
   the zero residual) *)
Theorem cg_tolerance_n tol maxiter x0 :
  0 < tol ->
  (forall x, x0 = Some x -> length x = n) ->
  (forall mi, maxiter = Some mi -> (n <= mi)%nat) ->
  exists x, cg_value (cg norm2 tol maxiter A b x0 M) = Some x /\ length x = n /\
    norm2 (vsubR b (mvR A x)) <= tol * norm2 b.
Proof.
  intros Htol Hx0 Hmi. destruct (allzero_dec b) as [Z|Hbnz].
  - rewrite (cg_zero_rhs A M b tol maxiter x0 Z). exists b. split; [reflexivity|]. split; [exact Hb|].
    assert (E : vsubR b (mvR A b) = b).
    { apply vsub_zero_r; [rewrite mv_length; lia|]. now apply mv_zero. }
    rewrite E, (norm2_allzero b Z). lra.
  - assert (Hn : (0 < n)%nat).
    { destruct n; [|lia]. destruct b; [|discriminate]. exfalso. apply Hbnz. constructor. }
    pose proof (norm2_pos b Hbnz) as Hnb.
    assert (Ez : eqb (norm2 b) zero = false) by (apply Reqb_false; cbn; lra).
    pose proof (cg_returned_residual n A M b HlenA Hb HlenM (fun b => eqb (norm2 b) zero)
                  (fun b r => ltb (norm2 r) (mul tol (norm2 b))) maxiter x0 Hx0) as P.
    unfold cg. rewrite (cg_core_unfold A M b _ _ maxiter x0 Ez) in *.
    set (conv := fun r : vecR => ltb (norm2 r) (mul tol (norm2 b))) in *.
    set (fuel := match maxiter with Some k => k | None => (length b * 10)%nat end) in *.
    assert (Hfuel : (n <= fuel + 0)%nat).
    { unfold fuel. destruct maxiter as [mi|]; [specialize (Hmi mi eq_refl); lia|lia]. }
    pose proof (cg_init_inv n A b HlenA Hb x0 Hx0) as (Hxi & Hri & _).
    assert (Hri' : length (cg_r0 A b x0) = n) by (rewrite Hri, vsub_length, mv_length; lia).
    destruct (cg_loop_ends n A M HlenA (SPD_self_adjoint n A HA) (proj2 (proj2 HA)) Mlen' Msym' Mpos'
                (cg_x0 b x0) (cg_r0 A b x0) Hxi Hri' conv) with (fuel := fuel) (k := O)
      as [(k' & _ & Hk' & Hconv & Hloop)|(Hloop & Zr)]; auto.
    + intros r Z. unfold conv. apply Rltb_true. rewrite (norm2_allzero r Z). cbn. nra.
    + intros i Hi. lia.
    + cbn [xs rs prevs cgt fst snd] in Hloop. rewrite Hloop in P. rewrite Hloop.
      destruct P as (P1 & P2 & P3). eexists. split; [reflexivity|]. split; [exact P3|].
      rewrite <- P1. apply Rltb_true in P2. cbn in P2. lra.
    + cbn [xs rs prevs cgt fst snd] in Hloop. rewrite Hloop in P. rewrite Hloop.
      destruct P as (P1 & P3). eexists. split; [reflexivity|]. split; [exact P3|].
      rewrite <- P1. rewrite (norm2_allzero _ Zr). nra.
Qed.
End CGForward.

(* non-vacuity: a 2 x 2 SPD system with an SPD (Jacobi) preconditioner *)
Definition A2 : matR := [[2; 1]; [1; 2]].
Definition M2 : matR := [[1/2; 0]; [0; 1/2]].
Lemma SPD_2x2 (a c d : R) : 0 < a -> 0 < a * d - c * c -> SPD 2 [[a; c]; [c; d]].
Proof.
  intros Ha Hdet. split; [split; [reflexivity|repeat constructor]|split].
  - intros i j Hi Hj. destruct i as [|[|]], j as [|[|]]; try lia; reflexivity.
  - intros x Hx Hnz. destruct x as [|s [|t [|]]]; try discriminate. cbn. num_unfold.
    assert (Hst : s <> 0 \/ t <> 0).
    { destruct (Req_dec s 0) as [->|]; [|now left]. destruct (Req_dec t 0) as [->|]; [|now right].
      exfalso. apply Hnz. repeat constructor. }
    replace (s * (a * s + (c * t + 0)) + (t * (c * s + (d * t + 0)) + 0))
      with (((a * s + c * t) * (a * s + c * t) + (a * d - c * c) * (t * t)) / a) by (field; lra).
    apply Rdiv_lt_0_compat; [|exact Ha].
    assert (sq_pos : forall y : R, y <> 0 -> 0 < y * y).
    { intros y Hy. destruct (Rtotal_order y 0) as [H|[H|H]]; [nra|contradiction|nra]. }
    destruct (Req_dec t 0) as [->|Ht].
    + destruct Hst as [Hs|Hs]; [|lra].
      assert (0 < (a * s) * (a * s)) by (apply sq_pos; apply Rmult_integral_contrapositive_currified; lra).
      replace (a * s + c * 0) with (a * s) by ring. lra.
    + pose proof (sq_pos t Ht) as H1. pose proof (Rle_0_sqr (a * s + c * t)) as H2. unfold Rsqr in H2.
      pose proof (Rmult_lt_0_compat _ _ Hdet H1) as H3. lra.
Qed.
Lemma A2_SPD : SPD 2 A2.
Proof. apply SPD_2x2; lra. Qed.
Lemma M2_SPD : SPD 2 M2.
Proof. apply SPD_2x2; lra. Qed.
Lemma precond_none n : precond_ok n None.
Proof. intros Mm E. discriminate. Qed.
Lemma precond_some n Mm : SPD n Mm -> precond_ok n (Some Mm).
Proof. intros H Mm' E. inversion E; subst. exact H. Qed.
(* every hypothesis of cg_terminates_exact at once: SPD A, SPD preconditioner, a non-zero guess, a
   non-zero right-hand side, the default iteration budget *)
Example cg_terminates_example :
  exists x r k, cg norm2 (1 / 100000) None A2 [1; 0] (Some [1; 1]) (Some M2) = RetLoop (CgExit x r k) /\ (k <= 2)%nat /\
    r = vsubR [1; 0] (mvR A2 x) /\ length x = 2%nat /\ norm2 (vsubR [1; 0] (mvR A2 x)) < 1 / 100000 * norm2 [1; 0].
Proof.
  apply (cg_terminates_exact 2 A2 (Some M2) [1; 0] A2_SPD (precond_some 2 M2 M2_SPD) eq_refl).
  - intros Z. inversion Z. lra.
  - lra.
  - intros x E. inversion E. reflexivity.
  - intros mi E. discriminate.
Qed.
