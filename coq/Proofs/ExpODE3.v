(* C01: the rxso3 and sim3 exponentials.  Generator of (phi, sigma): G = [phi]x + sigma I (3x3), and for
   sim3 the 4x4 matrix [[G, tau],[0,0]].  "E is the matrix exponential" is the initial value problem
   E' = G E, E(0) = I  and  p' = G p + tau, p(0) = 0  (block form of Y' = [[G,tau],[0,0]] Y, Y(0) = I).
   Existence and uniqueness, reduced to the so3 / se3 results by the integrating factor exp(-t sigma). *)
From Coq Require Import Reals Lra Psatz List Nsatz.
From Coquelicot Require Import Coquelicot.
Import ListNotations.
From PV Require Import Base.Num Base.RTac Model.LieGroup Model.LieExp Proofs.LieGroup Proofs.LieExp
  Proofs.ExpODE Proofs.ExpODE2.
Local Open Scope R_scope.
#[local] Remove Hints NumQ NumZ : typeclass_instances.

Definition gen3 (x : vec3R) (sg : R) : @mat3 R := madd3 (skew x) (mscale3 sg mid3).

(* ---- the rotation-scale block: E(t) = exp(t sigma) Rodrigues(t phi) *)
Definition srod_th (sg th : R) (x : vec3R) (t : R) : @mat3 R := mscale3 (exp (t * sg)) (rod_th th x t).

Lemma srod_0 sg th x : th <> 0 -> srod_th sg th x 0 = mid3.
Proof.
  intros H. unfold srod_th, rod_th. rewrite !Rmult_0_l, sin_0, cos_0, exp_0.
  destruct x as [[a b] c]. lie_unfold. split_pairs; field; auto.
Qed.
Lemma srod_ode sg a b c th : th <> 0 -> a * a + b * b + c * c = th * th ->
  forall t i j, (i < 3)%nat -> (j < 3)%nat ->
  is_derive (fun t => m3get (srod_th sg th (a, b, c) t) i j) t
            (m3get (mmul3 (gen3 (a, b, c) sg) (srod_th sg th (a, b, c) t)) i j).
Proof.
  intros Hn Hs' t i j Hi Hj.
  destruct i as [|[|[|i]]]; try lia; destruct j as [|[|[|j]]]; try lia;
  unfold srod_th, rod_th, gen3, m3get; lie_unfold; auto_derive; auto;
  set (S := sin (t * th)); set (C := cos (t * th)); set (E := exp (t * sg)); clearbody S C E;
  field_simplify_eq; auto; clear - Hs'; cbn [Rpow_def.pow]; nsatz.
Qed.

(* integrating factor: if Y' = (K + sg I) Y entrywise then (exp(-t sg) Y)' = K (exp(-t sg) Y) *)
Section Factor.
Variables a b c sg : R.
Variables y00 y01 y02 y10 y11 y12 y20 y21 y22 : R -> R.
Notation Y := (Ym y00 y01 y02 y10 y11 y12 y20 y21 y22).
Definition GY (t : R) : @mat3 R := mmul3 (gen3 (a, b, c) sg) (Y t).
Hypothesis D00 : forall t, is_derive y00 t (m3get (GY t) 0 0).
Hypothesis D01 : forall t, is_derive y01 t (m3get (GY t) 0 1).
Hypothesis D02 : forall t, is_derive y02 t (m3get (GY t) 0 2).
Hypothesis D10 : forall t, is_derive y10 t (m3get (GY t) 1 0).
Hypothesis D11 : forall t, is_derive y11 t (m3get (GY t) 1 1).
Hypothesis D12 : forall t, is_derive y12 t (m3get (GY t) 1 2).
Hypothesis D20 : forall t, is_derive y20 t (m3get (GY t) 2 0).
Hypothesis D21 : forall t, is_derive y21 t (m3get (GY t) 2 1).
Hypothesis D22 : forall t, is_derive y22 t (m3get (GY t) 2 2).

Definition sc (f : R -> R) (t : R) : R := exp (- t * sg) * f t.
Notation Ys := (Ym (sc y00) (sc y01) (sc y02) (sc y10) (sc y11) (sc y12) (sc y20) (sc y21) (sc y22)).

Lemma sc_derive (f : R -> R) (d k : R) t : is_derive f t d -> k = exp (- t * sg) * (d - sg * f t) ->
  is_derive (sc f) t k.
Proof.
  intros Hf ->. unfold sc. assert (Ef : ex_derive f t) by (eexists; apply Hf).
  auto_derive; [auto|]. change (Derive (fun x => f x) t) with (Derive f t).
  rewrite (is_derive_unique _ _ _ Hf). ring.
Qed.
Lemma scaled_ode i j : (i < 3)%nat -> (j < 3)%nat -> forall t,
  is_derive (fun t => m3get (Ys t) i j) t (m3get (mmul3 (skew (a, b, c)) (Ys t)) i j).
Proof.
  intros Hi Hj t.
  destruct i as [|[|[|i]]]; try lia; destruct j as [|[|[|j]]]; try lia; unfold Ym, m3get; lie_unfold;
  [ apply (sc_derive _ _ _ _ (D00 t)) | apply (sc_derive _ _ _ _ (D01 t)) | apply (sc_derive _ _ _ _ (D02 t))
  | apply (sc_derive _ _ _ _ (D10 t)) | apply (sc_derive _ _ _ _ (D11 t)) | apply (sc_derive _ _ _ _ (D12 t))
  | apply (sc_derive _ _ _ _ (D20 t)) | apply (sc_derive _ _ _ _ (D21 t)) | apply (sc_derive _ _ _ _ (D22 t)) ];
  unfold GY, gen3, Ym, m3get, sc; lie_unfold; ring.
Qed.
End Factor.

Lemma exp_cancel t sg : exp (t * sg) * exp (- t * sg) = 1.
Proof. rewrite <- exp_plus. replace (t * sg + - t * sg) with 0 by ring. apply exp_0. Qed.

Definition is_mexp_rxso3 (x : vec3R) (sg : R) (E : @mat3 R) : Prop :=
  exists Yf : R -> @mat3 R,
    Yf 0 = mid3 /\
    (forall t i j, (i < 3)%nat -> (j < 3)%nat ->
        is_derive (fun t => m3get (Yf t) i j) t (m3get (mmul3 (gen3 x sg) (Yf t)) i j)) /\
    Yf 1 = E.

Lemma vnorm_prod (x : vec3R) : vnorm x <> 0 ->
  let th := vnorm x in vx x * vx x + vy x * vy x + vz x * vz x = th * th.
Proof. intros H th. pose proof (vnorm_sq x) as Hs. fold th in Hs. revert Hs. destruct x as [[a b] c]. lie_unfold. intros; lra. Qed.

Lemma rxso3_solution_unique (x : vec3R) (sg : R) (Yf : R -> @mat3 R) : vnorm x <> 0 ->
  Yf 0 = mid3 ->
  (forall t i j, (i < 3)%nat -> (j < 3)%nat ->
      is_derive (fun t => m3get (Yf t) i j) t (m3get (mmul3 (gen3 x sg) (Yf t)) i j)) ->
  forall t, Yf t = srod_th sg (vnorm x) x t.
Proof.
  intros Hx H0 Hd t. pose proof (vnorm_prod x Hx) as Hn. cbv zeta in Hn.
  set (th := vnorm x) in *. clearbody th. destruct x as [[a b] c]. cbn [vx vy vz fst snd] in Hn.
  set (g := fun i j t => m3get (Yf t) i j).
  assert (HY : forall t, Yf t = Ym (g 0 0)%nat (g 0 1)%nat (g 0 2)%nat (g 1 0)%nat (g 1 1)%nat (g 1 2)%nat
                                   (g 2 0)%nat (g 2 1)%nat (g 2 2)%nat t).
  { intros u. unfold Ym, g, m3get. destruct (Yf u) as [[[[p0 p1] p2] [[q0 q1] q2]] [[r0 r1] r2]]. reflexivity. }
  assert (Dg : forall i j, (i < 3)%nat -> (j < 3)%nat -> forall u,
             is_derive (g i j) u (m3get (GY a b c sg (g 0 0)%nat (g 0 1)%nat (g 0 2)%nat (g 1 0)%nat (g 1 1)%nat (g 1 2)%nat
                                           (g 2 0)%nat (g 2 1)%nat (g 2 2)%nat u) i j)).
  { intros i j Hi Hj u. unfold GY. rewrite <- HY. apply Hd; lia. }
  pose proof (scaled_ode a b c sg _ _ _ _ _ _ _ _ _
     (Dg 0 0 ltac:(lia) ltac:(lia))%nat (Dg 0 1 ltac:(lia) ltac:(lia))%nat (Dg 0 2 ltac:(lia) ltac:(lia))%nat
     (Dg 1 0 ltac:(lia) ltac:(lia))%nat (Dg 1 1 ltac:(lia) ltac:(lia))%nat (Dg 1 2 ltac:(lia) ltac:(lia))%nat
     (Dg 2 0 ltac:(lia) ltac:(lia))%nat (Dg 2 1 ltac:(lia) ltac:(lia))%nat (Dg 2 2 ltac:(lia) ltac:(lia))%nat) as Hsc.
  (* the scaled solution is Rodrigues' curve *)
  assert (Hs : Ym (sc sg (g 0 0)%nat) (sc sg (g 0 1)%nat) (sc sg (g 0 2)%nat) (sc sg (g 1 0)%nat) (sc sg (g 1 1)%nat)
                  (sc sg (g 1 2)%nat) (sc sg (g 2 0)%nat) (sc sg (g 2 1)%nat) (sc sg (g 2 2)%nat) t
               = rod_th th (a, b, c) t).
  { apply (ode_solution_unique a b c th Hx Hn).
    - intros u. exact (Hsc 0%nat 0%nat ltac:(lia) ltac:(lia) u).
    - intros u. exact (Hsc 0%nat 1%nat ltac:(lia) ltac:(lia) u).
    - intros u. exact (Hsc 0%nat 2%nat ltac:(lia) ltac:(lia) u).
    - intros u. exact (Hsc 1%nat 0%nat ltac:(lia) ltac:(lia) u).
    - intros u. exact (Hsc 1%nat 1%nat ltac:(lia) ltac:(lia) u).
    - intros u. exact (Hsc 1%nat 2%nat ltac:(lia) ltac:(lia) u).
    - intros u. exact (Hsc 2%nat 0%nat ltac:(lia) ltac:(lia) u).
    - intros u. exact (Hsc 2%nat 1%nat ltac:(lia) ltac:(lia) u).
    - intros u. exact (Hsc 2%nat 2%nat ltac:(lia) ltac:(lia) u).
    - rewrite HY in H0. unfold Ym in H0 |- *. unfold sc. replace (- 0 * sg) with 0 by ring. rewrite exp_0.
      rewrite !Rmult_1_l. exact H0. }
  rewrite HY. unfold srod_th. rewrite <- Hs. unfold Ym, sc, mscale3. lie_unfold.
  pose proof (exp_cancel t sg) as He. set (e1 := exp (t * sg)) in *. set (e2 := exp (- t * sg)) in *.
  clearbody e1 e2. split_pairs; rewrite <- Rmult_assoc, He; ring.
Qed.

Theorem rxso3_exponential (x : vec3R) (sg : R) (E : @mat3 R) : vnorm x <> 0 ->
  (is_mexp_rxso3 x sg E <-> E = mscale3 (exp sg) (rodrigues x)).
Proof.
  intros Hx. split.
  - intros (Yf & H0 & Hd & H1). subst E. rewrite (rxso3_solution_unique x sg Yf Hx H0 Hd 1).
    unfold srod_th. rewrite Rmult_1_l. fold (rod_t x 1). now rewrite rod_t_1.
  - intros ->. exists (srod_th sg (vnorm x) x). split; [now apply srod_0|]. split.
    + intros t i j Hi Hj. pose proof (vnorm_prod x Hx) as Hn. cbv zeta in Hn.
      set (th := vnorm x) in *. clearbody th. destruct x as [[a b] c]. cbn [vx vy vz fst snd] in Hn.
      now apply srod_ode.
    + unfold srod_th. rewrite Rmult_1_l. fold (rod_t x 1). now rewrite rod_t_1.
Qed.

(* the model: on the closed-form rotation branch the matrix of rxso3 Exp is exp(sigma) Rodrigues(phi) *)
Lemma rxso3_exp_matrix (eps : R) (phi : vec3R) (sg : R) : 0 <= eps -> eps < vnorm phi ->
  RxSO3_matrix (rxso3_exp eps (phi, sg)) = mscale3 (exp sg) (rodrigues phi).
Proof.
  intros He H. rewrite RxSO3_matrix_blocks. unfold rxso3_exp. cbn [fst snd texp TransR].
  now rewrite so3_matrix_rodrigues.
Qed.

(* ---- the translation column of sim3: p(t) = W(t) tau with W = A K + B K^2 + C I, the coefficients of
   rxso3_Ws on its closed-form branch evaluated along t (phi, sigma) and multiplied by t *)
Definition Ws_th (sg th : R) (x : vec3R) (t : R) : @mat3 R :=
  let a := exp (t * sg) * sin (t * th) in
  let b := exp (t * sg) * cos (t * th) in
  let c := th * th + sg * sg in
  let C := (exp (t * sg) - 1) / sg in
  let A := (a * sg + (1 - b) * th) / (th * c) in
  let B := (C - ((b - 1) * sg + a * th) / c) / (th * th) in
  madd3 (madd3 (mscale3 A (skew x)) (mscale3 B (mmul3 (skew x) (skew x)))) (mscale3 C mid3).
Definition sptraj (sg th : R) (x tau : vec3R) (t : R) : vec3R := mvmul (Ws_th sg th x t) tau.

Lemma sq_sum_pos th sg : th <> 0 -> th * th + sg * sg <> 0.
Proof. intros H. nra. Qed.

Lemma sptraj_0 sg th x tau : th <> 0 -> sg <> 0 -> sptraj sg th x tau 0 = vzero.
Proof.
  intros H Hs. pose proof (sq_sum_pos th sg H) as Hc. unfold sptraj, Ws_th.
  rewrite !Rmult_0_l, sin_0, cos_0, exp_0.
  destruct x as [[a b] c], tau as [[u v] w]. lie_unfold. split_pairs; field; auto.
Qed.
Lemma sptraj_ode sg a b c th tau : th <> 0 -> sg <> 0 -> a * a + b * b + c * c = th * th -> forall t i, (i < 3)%nat ->
  is_derive (fun t => vc i (sptraj sg th (a, b, c) tau t)) t
            (vc i (vadd (mvmul (gen3 (a, b, c) sg) (sptraj sg th (a, b, c) tau t)) tau)).
Proof.
  intros Hth Hsg Hn t i Hi. pose proof (sq_sum_pos th sg Hth) as Hc. destruct tau as [[u v] w].
  destruct i as [|[|[|i]]]; try lia;
  (unfold sptraj, Ws_th, gen3, vc; lie_unfold; auto_derive; auto;
   set (S := sin (t * th)); set (C := cos (t * th)); set (E := exp (t * sg)); clearbody S C E;
   field_simplify_eq; auto; cbn [Rpow_def.pow]; clear - Hn; nsatz).
Qed.

(* integrating factor for the difference of two solutions of y' = (K + sg I) y + tau *)
Section Factor2.
Variables a b c sg : R.
Variable tau : vec3R.
Variables f0 f1 f2 g0 g1 g2 : R -> R.
Definition srhs (h0 h1 h2 : R -> R) (t : R) : vec3R := vadd (mvmul (gen3 (a, b, c) sg) (h0 t, h1 t, h2 t)) tau.
Hypothesis F0 : forall t, is_derive f0 t (vc 0 (srhs f0 f1 f2 t)).
Hypothesis F1 : forall t, is_derive f1 t (vc 1 (srhs f0 f1 f2 t)).
Hypothesis F2 : forall t, is_derive f2 t (vc 2 (srhs f0 f1 f2 t)).
Hypothesis G0 : forall t, is_derive g0 t (vc 0 (srhs g0 g1 g2 t)).
Hypothesis G1 : forall t, is_derive g1 t (vc 1 (srhs g0 g1 g2 t)).
Hypothesis G2 : forall t, is_derive g2 t (vc 2 (srhs g0 g1 g2 t)).

Definition sd (f g : R -> R) (t : R) : R := exp (- t * sg) * (f t - g t).
Lemma sd_derive (f g : R -> R) (df dg k : R) t : is_derive f t df -> is_derive g t dg ->
  k = exp (- t * sg) * ((df - dg) - sg * (f t - g t)) -> is_derive (sd f g) t k.
Proof.
  intros Hf Hg ->. unfold sd.
  assert (Ef : ex_derive f t) by (eexists; apply Hf). assert (Eg : ex_derive g t) by (eexists; apply Hg).
  auto_derive; [auto|].
  change (Derive (fun x => f x) t) with (Derive f t). change (Derive (fun x => g x) t) with (Derive g t).
  rewrite (is_derive_unique _ _ _ Hf), (is_derive_unique _ _ _ Hg). ring.
Qed.
Lemma sd_ode0 t : is_derive (sd f0 g0) t (vc 0 (rhs a b c vzero (sd f0 g0) (sd f1 g1) (sd f2 g2) t)).
Proof. apply (sd_derive _ _ _ _ _ _ (F0 t) (G0 t)). destruct tau as [[u v] w]. unfold rhs, srhs, yv, gen3, vc, sd. lie_unfold. ring. Qed.
Lemma sd_ode1 t : is_derive (sd f1 g1) t (vc 1 (rhs a b c vzero (sd f0 g0) (sd f1 g1) (sd f2 g2) t)).
Proof. apply (sd_derive _ _ _ _ _ _ (F1 t) (G1 t)). destruct tau as [[u v] w]. unfold rhs, srhs, yv, gen3, vc, sd. lie_unfold. ring. Qed.
Lemma sd_ode2 t : is_derive (sd f2 g2) t (vc 2 (rhs a b c vzero (sd f0 g0) (sd f1 g1) (sd f2 g2) t)).
Proof. apply (sd_derive _ _ _ _ _ _ (F2 t) (G2 t)). destruct tau as [[u v] w]. unfold rhs, srhs, yv, gen3, vc, sd. lie_unfold. ring. Qed.
End Factor2.

Lemma ptraj_zero_tau th x t : ptraj th x vzero t = vzero.
Proof. unfold ptraj. apply mvmul_zero. Qed.

(* two solutions of y' = (K + sg I) y + tau with the same initial value coincide *)
Lemma sim3_translation_coincide a b c th sg tau (f0 f1 f2 g0 g1 g2 : R -> R) :
  th <> 0 -> a * a + b * b + c * c = th * th ->
  (forall t, is_derive f0 t (vc 0 (srhs a b c sg tau f0 f1 f2 t))) ->
  (forall t, is_derive f1 t (vc 1 (srhs a b c sg tau f0 f1 f2 t))) ->
  (forall t, is_derive f2 t (vc 2 (srhs a b c sg tau f0 f1 f2 t))) ->
  (forall t, is_derive g0 t (vc 0 (srhs a b c sg tau g0 g1 g2 t))) ->
  (forall t, is_derive g1 t (vc 1 (srhs a b c sg tau g0 g1 g2 t))) ->
  (forall t, is_derive g2 t (vc 2 (srhs a b c sg tau g0 g1 g2 t))) ->
  (f0 0, f1 0, f2 0) = (g0 0, g1 0, g2 0) ->
  forall t, (f0 t, f1 t, f2 t) = (g0 t, g1 t, g2 t).
Proof.
  intros Hth Hn F0 F1 F2 G0 G1 G2 H0 t.
  pose proof (translation_unique a b c th Hth Hn vzero (sd sg f0 g0) (sd sg f1 g1) (sd sg f2 g2)
     (sd_ode0 a b c sg tau f0 f1 f2 g0 g1 g2 F0 G0) (sd_ode1 a b c sg tau f0 f1 f2 g0 g1 g2 F1 G1)
     (sd_ode2 a b c sg tau f0 f1 f2 g0 g1 g2 F2 G2)) as Hu.
  assert (Hz : yv (sd sg f0 g0) (sd sg f1 g1) (sd sg f2 g2) 0 = vzero).
  { unfold yv, sd. inversion H0 as [[E0 E1 E2]]. rewrite E0, E1, E2. lie_unfold. split_pairs; ring. }
  specialize (Hu Hz t). rewrite ptraj_zero_tau in Hu. unfold yv, sd in Hu. revert Hu. lie_unfold. intros Hu.
  inversion Hu as [[E0 E1 E2]].
  pose proof (exp_pos (- t * sg)) as Hp. set (e := exp (- t * sg)) in *. clearbody e.
  split_pairs; nra.
Qed.

(* packaged: (E, p) is the matrix exponential of the sim3 generator [[ [phi]x + sigma I, tau],[0,0]] *)
Definition is_mexp_sim3 (tau phi : vec3R) (sg : R) (E : @mat3 R) (p : vec3R) : Prop :=
  is_mexp_rxso3 phi sg E /\
  exists yf : R -> vec3R,
    yf 0 = vzero /\
    (forall t i, (i < 3)%nat ->
        is_derive (fun t => vc i (yf t)) t (vc i (vadd (mvmul (gen3 phi sg) (yf t)) tau))) /\
    yf 1 = p.
Definition Ws1 (phi : vec3R) (sg : R) : @mat3 R := Ws_th sg (vnorm phi) phi 1.

Theorem sim3_exponential (tau phi : vec3R) (sg : R) (E : @mat3 R) (p : vec3R) : vnorm phi <> 0 -> sg <> 0 ->
  (is_mexp_sim3 tau phi sg E p <-> E = mscale3 (exp sg) (rodrigues phi) /\ p = mvmul (Ws1 phi sg) tau).
Proof.
  intros Hx Hsg. pose proof (vnorm_prod phi Hx) as Hn. cbv zeta in Hn. unfold is_mexp_sim3, Ws1.
  rewrite (rxso3_exponential phi sg E Hx).
  set (th := vnorm phi) in *. clearbody th. destruct phi as [[a b] c]. cbn [vx vy vz fst snd] in Hn.
  split.
  - intros [HE (yf & H0 & Hd & H1)]. split; [exact HE|]. subst p. fold (sptraj sg th (a, b, c) tau 1).
    set (f := fun i t => vc i (yf t)). set (g := fun i t => vc i (sptraj sg th (a, b, c) tau t)).
    assert (HY : forall t, yf t = (f 0%nat t, f 1%nat t, f 2%nat t)).
    { intros t. unfold f, vc. destruct (yf t) as [[u v] w]. reflexivity. }
    assert (HG : forall t, sptraj sg th (a, b, c) tau t = (g 0%nat t, g 1%nat t, g 2%nat t)).
    { intros t. unfold g, vc. destruct (sptraj sg th (a, b, c) tau t) as [[u v] w]. reflexivity. }
    rewrite HY, HG.
    apply (sim3_translation_coincide a b c th sg tau (f 0%nat) (f 1%nat) (f 2%nat) (g 0%nat) (g 1%nat) (g 2%nat) Hx Hn).
    1-3: intros t; unfold srhs; rewrite <- HY; apply Hd; lia.
    1-3: intros t; unfold srhs; rewrite <- HG; apply sptraj_ode; auto; lia.
    rewrite <- HY, <- HG, H0, sptraj_0; auto.
  - intros [-> ->]. split; [reflexivity|].
    exists (sptraj sg th (a, b, c) tau). split; [now apply sptraj_0|]. split; [|reflexivity].
    intros t i Hi. now apply sptraj_ode.
Qed.

(* the model: on the closed-form branch (theta > eps and |sigma| > eps) rxso3_Ws is Ws1, and the 4x4 matrix
   of sim3 Exp is [[exp(sigma) rodrigues phi, Ws1 tau],[0,1]] *)
Lemma rxso3_Ws_is_Ws1 (eps : R) (phi : vec3R) (sg : R) : 0 <= eps -> eps < vnorm phi -> eps < Rabs sg ->
  rxso3_Ws eps (phi, sg) = Ws1 phi sg.
Proof.
  intros He H Hs. unfold rxso3_Ws, rxso3_Ws_coef, Ws1, Ws_th. cbn [fst snd].
  replace (ltb eps (vnorm phi)) with true by (symmetry; cbn; now apply Rltb_true).
  replace (ltb eps (absF sg)) with true.
  2:{ symmetry. unfold absF. cbn [ltb NumR zero opp]. apply Rltb_true.
      unfold Rltb. destruct (Rlt_dec sg 0) as [Hl|Hl]; [rewrite Rabs_left in Hs by lra | rewrite Rabs_right in Hs by lra]; lra. }
  set (t := vnorm phi) in *. assert (Ht : t <> 0) by lra.
  assert (Hsg : sg <> 0) by (intros ->; rewrite Rabs_R0 in Hs; lra).
  pose proof (sq_sum_pos t sg Ht) as Hc. clearbody t.
  rewrite !Rmult_1_l. cbn [texp tsin tcos TransR]. destruct phi as [[a b] c]. lie_unfold. num_simpl.
  split_pairs; field; auto.
Qed.
Lemma sim3_exp_matrix (eps : R) (tau phi : vec3R) (sg : R) : 0 <= eps -> eps < vnorm phi -> eps < Rabs sg ->
  matrix4 Sim3_act4 (sim3_exp eps (tau, (phi, sg))) = block4 (mscale3 (exp sg) (rodrigues phi)) (mvmul (Ws1 phi sg) tau).
Proof.
  intros He H Hs. rewrite Sim3_matrix_blocks. unfold sim3_exp. cbn [fst snd].
  rewrite rxso3_Ws_is_Ws1 by assumption. unfold rxso3_exp. cbn [fst snd texp TransR].
  now rewrite so3_matrix_rodrigues.
Qed.
