(* C04: the list-level matrices used by the modelled backward functions of SE3, RxSO3 and Sim3 (AdjM, adjM, act_jac,
   rows of sR) applied to a vector are the tuple-level maps L of Proofs/LieJac2.v / LieJac3.v. *)
From Coq Require Import Reals Lra List Lia.
Import ListNotations.
From PV Require Import Base.Num Base.RTac Model.LieGroup Model.LieExp Model.LieJac Proofs.LieGroup Proofs.LieExp Proofs.LieJac
  Proofs.LieJac2 Proofs.LieJac3.
Local Open Scope R_scope.
#[local] Remove Hints NumQ NumZ : typeclass_instances.

Lemma cons_eq (a b : R) (l l' : list R) : a = b -> l = l' -> a :: l = b :: l'.
Proof. intros -> ->. reflexivity. Qed.
Ltac list_ring := repeat (apply cons_eq; [ring|]); try reflexivity.
Ltac list_unfold :=
  cbv [lmv ldot map SE3_AdjM RxSO3_AdjM Sim3_AdjM se3_adjM rxso3_adjM sim3_adjM act_jac hcat m3rows lzm lzeros lid colv
       seq Nat.eqb app firstn skipn nth l_v3 v3_l l_pair3 adim sR_of].

Definition v6_l (a : v6) : list R := v3_l (fst a) ++ v3_l (snd a).
Definition v4_l (a : v4) : list R := v3_l (fst a) ++ [snd a].
Definition v7_l (a : v7) : list R := v6_l (fst a) ++ [snd a].
Definition l_v4a (l : list R) : v4 := (l_v3 l, nth 3 l 0).
Definition l_v7 (l : list R) : v7 := ((l_v3 l, l_v3 (skipn 3 l)), nth 6 l 0).

Lemma m3rows_is_mvmul (M : @mat3 R) (d : list R) : length d = 3%nat -> lmv (m3rows M) d = v3_l (mvmul M (l_v3 d)).
Proof.
  intros H. destruct d as [|d1 [|d2 [|d3 [|d4 d]]]]; try discriminate.
  destruct M as [[[[a b] c] [[e f] g]] [[h i] j]]. list_unfold. lie_unfold. list_ring.
Qed.

(* ---------- SE3 *)
Lemma SE3_AdjM_is_Adj (X : se3R) (d : list R) : length d = 6%nat ->
  lmv (SE3_AdjM X) d = v6_l (SE3_AdjXa X (l_pair3 d)).
Proof.
  intros H. destruct d as [|d1 [|d2 [|d3 [|d4 [|d5 [|d6 [|d7 d]]]]]]]; try discriminate.
  destruct X as [[[t1 t2] t3] [[[a b] c] w]]. unfold v6_l. list_unfold. lie_unfold. list_ring.
Qed.
Lemma se3_adjM_is_ad (x d : list R) : length d = 6%nat ->
  lmv (se3_adjM x) d = v6_l (se3_ad (l_pair3 x) (l_pair3 d)).
Proof.
  intros H. destruct d as [|d1 [|d2 [|d3 [|d4 [|d5 [|d6 [|d7 d]]]]]]]; try discriminate.
  unfold v6_l, se3_ad. list_unfold. generalize (nth 0 x zero) (nth 1 x zero) (nth 2 x zero). intros x1 x2 x3.
  lie_unfold. list_ring.
Qed.
Lemma act_jac_SE3_is_L (p d : list R) : length d = 6%nat ->
  lmv (act_jac 1 p) d = v3_l (vadd (fst (l_pair3 d)) (mvmul (skew (vneg (l_v3 p))) (snd (l_pair3 d)))).
Proof.
  intros H. destruct d as [|d1 [|d2 [|d3 [|d4 [|d5 [|d6 [|d7 d]]]]]]]; try discriminate.
  list_unfold. generalize (nth 0 p zero) (nth 1 p zero) (nth 2 p zero). intros p1 p2 p3. lie_unfold. list_ring.
Qed.

(* ---------- RxSO3 *)
Lemma RxSO3_AdjM_is_Adj (X : rxso3R) (d : list R) : length d = 4%nat ->
  lmv (RxSO3_AdjM X) d = v4_l (RxSO3_AdjXa X (l_v4a d)).
Proof.
  intros H. destruct d as [|d1 [|d2 [|d3 [|d4 [|d5 d]]]]]; try discriminate.
  destruct X as [[[[a b] c] w] s]. unfold v4_l, l_v4a. list_unfold. lie_unfold. list_ring.
Qed.
Lemma rxso3_adjM_is_ad (x d : list R) : length d = 4%nat ->
  lmv (rxso3_adjM x) d = v4_l (rxso3_ad (l_v4a x) (l_v4a d)).
Proof.
  intros H. destruct d as [|d1 [|d2 [|d3 [|d4 [|d5 d]]]]]; try discriminate.
  unfold v4_l, l_v4a, rxso3_ad. list_unfold. generalize (nth 0 x zero) (nth 1 x zero) (nth 2 x zero). intros x1 x2 x3.
  lie_unfold. list_ring.
Qed.
Lemma act_jac_RxSO3_is_L (p d : list R) : length d = 4%nat -> length p = 3%nat ->
  lmv (act_jac 2 p) d = v3_l (vadd (mvmul (skew (vneg (l_v3 p))) (fst (l_v4a d))) (vscale (snd (l_v4a d)) (l_v3 p))).
Proof.
  intros H Hp. destruct d as [|d1 [|d2 [|d3 [|d4 [|d5 d]]]]]; try discriminate.
  destruct p as [|p1 [|p2 [|p3 [|p4 p]]]]; try discriminate.
  unfold l_v4a. list_unfold. lie_unfold. list_ring.
Qed.

(* ---------- Sim3 *)
Lemma Sim3_AdjM_is_Adj (X : sim3R) (d : list R) : length d = 7%nat ->
  lmv (Sim3_AdjM X) d = v7_l (Sim3_AdjXa X (l_v7 d)).
Proof.
  intros H. destruct d as [|d1 [|d2 [|d3 [|d4 [|d5 [|d6 [|d7 [|d8 d]]]]]]]]; try discriminate.
  destruct X as [[[t1 t2] t3] [[[[a b] c] w] s]]. unfold v7_l, v6_l, l_v7. list_unfold. lie_unfold. list_ring.
Qed.
Lemma sim3_adjM_is_ad (x d : list R) : length d = 7%nat ->
  lmv (sim3_adjM x) d = v7_l (sim3_ad (l_v7 x) (l_v7 d)).
Proof.
  intros H. destruct d as [|d1 [|d2 [|d3 [|d4 [|d5 [|d6 [|d7 [|d8 d]]]]]]]]; try discriminate.
  unfold v7_l, v6_l, l_v7, sim3_ad. list_unfold.
  generalize (nth 0 x zero) (nth 1 x zero) (nth 2 x zero) (nth 6 x zero). intros x1 x2 x3 x7.
  generalize (nth 0 (skipn 3 x) zero) (nth 1 (skipn 3 x) zero) (nth 2 (skipn 3 x) zero). intros x4 x5 x6.
  lie_unfold. list_ring.
Qed.
Lemma act_jac_Sim3_is_L (p d : list R) : length d = 7%nat -> length p = 3%nat ->
  lmv (act_jac 3 p) d =
  v3_l (vadd (vadd (fst (fst (l_v7 d))) (mvmul (skew (vneg (l_v3 p))) (snd (fst (l_v7 d))))) (vscale (snd (l_v7 d)) (l_v3 p))).
Proof.
  intros H Hp. destruct d as [|d1 [|d2 [|d3 [|d4 [|d5 [|d6 [|d7 [|d8 d]]]]]]]]; try discriminate.
  destruct p as [|p1 [|p2 [|p3 [|p4 p]]]]; try discriminate.
  unfold l_v7. list_unfold. lie_unfold. list_ring.
Qed.
