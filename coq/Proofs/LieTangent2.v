(* C05 (extension): the Adj / AdjT identities for SE3 and Sim3, Exp(-a) = Inv(Exp(a)) for se3, rxso3, sim3
   (over R, about the models of Model/LieGroup.v and Model/LieExp.v). *)
From Coq Require Import Reals Lra Psatz List Nsatz.
Import ListNotations.
From PV Require Import Base.Num Base.RTac Model.LieGroup Model.LieExp Model.LieLog Model.LieJac Model.LieTangent
  Proofs.LieGroup Proofs.LieExp Proofs.LieLog Proofs.LieTangent.
Local Open Scope R_scope.
#[local] Remove Hints NumQ NumZ : typeclass_instances.

(* ---------------- small linear algebra over vec3 / mat3 *)
Lemma skew_is_cross (x v : vec3R) : mvmul (skew x) v = vcross x v.
Proof. lie_ring. Qed.
Lemma skew2_is_cross (x v : vec3R) : mvmul (mmul3 (skew x) (skew x)) v = vcross x (vcross x v).
Proof. lie_ring. Qed.
Lemma mvmul_skew_mat (t : vec3R) (M : @mat3 R) (v : vec3R) : mvmul (mmul3 (skew t) M) v = vcross t (mvmul M v).
Proof. lie_ring. Qed.
Lemma mvmul_vadd (M : @mat3 R) (u v : vec3R) : mvmul M (vadd u v) = vadd (mvmul M u) (mvmul M v).
Proof. lie_ring. Qed.
Lemma mvmul_vscale (M : @mat3 R) (k : R) (u : vec3R) : mvmul M (vscale k u) = vscale k (mvmul M u).
Proof. lie_ring. Qed.
Lemma mvmul_vneg (M : @mat3 R) (u : vec3R) : mvmul M (vneg u) = vneg (mvmul M u).
Proof. lie_ring. Qed.

(* the polynomial I + c1 K + c2 K^2 applied to a vector, in cross-product form *)
Definition poly2 (c0 c1 c2 : R) (x v : vec3R) : vec3R :=
  vadd (vadd (vscale c0 v) (vscale c1 (vcross x v))) (vscale c2 (vcross x (vcross x v))).
Lemma so3_Jl_poly2 (eps : R) (x v : vec3R) :
  mvmul (so3_Jl eps x) v = poly2 1 (fst (so3_Jl_coef eps (vnorm x))) (snd (so3_Jl_coef eps (vnorm x))) x v.
Proof.
  unfold so3_Jl, poly2. generalize (so3_Jl_coef eps (vnorm x)). intros [c1 c2]. cbn [fst snd].
  destruct x as [[a b] c], v as [[p q] r]. lie_unfold. split_pairs; ring.
Qed.

(* rotations: R(u x v) = Ru x Rv, R linear *)
Lemma rot_cross (X : quatR) (u v : vec3R) : unitq X ->
  SO3_AdjXa X (vcross u v) = vcross (SO3_AdjXa X u) (SO3_AdjXa X v).
Proof.
  unfold unitq. destruct X as [[[x y] z] w], u as [[u1 u2] u3], v as [[v1 v2] v3]. lie_unfold. intros H.
  split_pairs; nsatz.
Qed.
Lemma rot_vadd (X : quatR) (u v : vec3R) : SO3_AdjXa X (vadd u v) = vadd (SO3_AdjXa X u) (SO3_AdjXa X v).
Proof. lie_ring. Qed.
Lemma rot_vscale (X : quatR) (k : R) (u : vec3R) : SO3_AdjXa X (vscale k u) = vscale k (SO3_AdjXa X u).
Proof. lie_ring. Qed.
Lemma rot_vneg (X : quatR) (u : vec3R) : SO3_AdjXa X (vneg u) = vneg (SO3_AdjXa X u).
Proof. lie_ring. Qed.
Lemma act_is_AdjXa (X : quatR) (p : vec3R) : unitq X -> SO3_act X p = SO3_AdjXa X p.
Proof. intros H. unfold SO3_AdjXa. rewrite SO3_Adj_is_matrix by assumption. apply SO3_act_is_matrix. Qed.

Lemma rot_poly2 (X : quatR) (c0 c1 c2 : R) (x v : vec3R) : unitq X ->
  SO3_AdjXa X (poly2 c0 c1 c2 x v) = poly2 c0 c1 c2 (SO3_AdjXa X x) (SO3_AdjXa X v).
Proof.
  intros H. unfold poly2. rewrite !rot_vadd, !rot_vscale, !rot_cross by assumption. reflexivity.
Qed.

(* Jl(R phi) R = R Jl(phi), both branches of the coefficients (|R phi| = |phi| exactly) *)
Lemma so3_Jl_conj (eps : R) (X : quatR) (phi v : vec3R) : unitq X ->
  mvmul (so3_Jl eps (SO3_AdjXa X phi)) (SO3_AdjXa X v) = SO3_AdjXa X (mvmul (so3_Jl eps phi) v).
Proof.
  intros H. rewrite !so3_Jl_poly2, rot_norm by assumption. symmetry. now apply rot_poly2.
Qed.

(* Exp(psi) = I + Jl(psi) [psi]x on the closed-form branch *)
Lemma so3_exp_act_Jl (eps : R) (psi t : vec3R) : 0 <= eps -> eps < vnorm psi ->
  SO3_act (so3_exp eps psi) t = vadd t (mvmul (so3_Jl eps psi) (vcross psi t)).
Proof.
  intros He H. rewrite SO3_act_is_matrix, so3_matrix_rodrigues by assumption.
  pose proof (vnorm_sq psi) as Hs. unfold rodrigues, so3_Jl, so3_Jl_coef.
  replace (ltb eps (vnorm psi)) with true by (symmetry; cbn; now apply Rltb_true).
  cbn [fst snd]. set (th := vnorm psi) in *. assert (Ht : th <> 0) by lra. clearbody th.
  destruct psi as [[a b] c], t as [[p q] r].
  assert (Hn : a * a + b * b + c * c = th * th) by (revert Hs; lie_unfold; intros; lra).
  num_simpl. set (S := sin th). set (C := cos th). clearbody S C. clear Hs He H. lie_unfold.
  split_pairs; field_simplify_eq; auto; cbn [Rpow_def.pow]; clear Ht; nsatz.
Qed.

(* ---------------- SE3 *)
(* general form (every twist, both branches): the rotation parts agree, the translation parts agree
   up to the defect of "Exp(psi) = I + Jl(psi)[psi]x" at psi = R phi, which vanishes on the closed-form branch *)
Lemma adj_SE3_translation (eps : R) (X : se3R) (a : vec3R * vec3R) : unitq (snd X) ->
  let psi := SO3_AdjXa (snd X) (snd a) in
  fst (SE3_mul (se3_exp eps (SE3_AdjXa X a)) X) =
  vadd (fst (SE3_mul X (se3_exp eps a)))
       (vsub (SO3_act (so3_exp eps psi) (fst X)) (vadd (fst X) (mvmul (so3_Jl eps psi) (vcross psi (fst X))))).
Proof.
  intros Hu psi. destruct X as [t q], a as [tau phi]. cbn [fst snd] in *.
  unfold SE3_mul, se3_exp, SE3_AdjXa. cbn [fst snd].
  fold (SO3_AdjXa q phi). fold psi. fold (SO3_AdjXa q tau).
  rewrite mvmul_vadd, mvmul_skew_mat. fold (SO3_AdjXa q phi). fold psi.
  rewrite (act_is_AdjXa q) by assumption. unfold psi at 1. rewrite so3_Jl_conj by assumption.
  generalize (SO3_AdjXa q (mvmul (so3_Jl eps phi) tau)). intros U.
  generalize (SO3_act (so3_exp eps psi) t). intros E.
  generalize (so3_Jl eps psi). intros J. clearbody psi. clear.
  destruct J as [[[[j00 j01] j02] [[j10 j11] j12]] [[j20 j21] j22]], U as [[u0 u1] u2], E as [[e0 e1] e2],
    t as [[t0 t1] t2], psi as [[p0 p1] p2].
  lie_unfold. split_pairs; ring.
Qed.

Theorem adj_identity_SE3 (eps : R) (X : se3R) (a : vec3R * vec3R) : unitq (snd X) -> 0 <= eps ->
  eps < vnorm (snd a) ->
  SE3_mul X (se3_exp eps a) = SE3_mul (se3_exp eps (SE3_AdjXa X a)) X.
Proof.
  intros Hu He Hb.
  assert (Hr : snd (SE3_mul X (se3_exp eps a)) = snd (SE3_mul (se3_exp eps (SE3_AdjXa X a)) X)).
  { unfold SE3_mul, se3_exp, SE3_AdjXa. cbn [fst snd]. apply adj_identity_SO3. assumption. }
  pose proof (adj_SE3_translation eps X a Hu) as Ht. cbv zeta in Ht.
  rewrite so3_exp_act_Jl in Ht by (auto; rewrite rot_norm; assumption).
  rewrite (surjective_pairing (SE3_mul X (se3_exp eps a))), (surjective_pairing (SE3_mul (se3_exp eps (SE3_AdjXa X a)) X)).
  apply pair_eq; [|exact Hr]. rewrite Ht.
  generalize (fst (SE3_mul X (se3_exp eps a))). intros u.
  match goal with |- context [vsub ?w ?w] => generalize w end. intros w.
  destruct u as [[u0 u1] u2], w as [[w0 w1] w2]. lie_unfold. split_pairs; ring.
Qed.

(* Adj(X, Adj(X^-1, a)) = a *)
Lemma SE3_AdjXa_expand (X : se3R) (a : vec3R * vec3R) :
  SE3_AdjXa X a = (vadd (SO3_AdjXa (snd X) (fst a)) (vcross (fst X) (SO3_AdjXa (snd X) (snd a))), SO3_AdjXa (snd X) (snd a)).
Proof. unfold SE3_AdjXa. cbv zeta. rewrite mvmul_skew_mat. reflexivity. Qed.
Lemma SE3_AdjXa_inv (X : se3R) (a : vec3R * vec3R) : unitq (snd X) -> SE3_AdjXa X (SE3_AdjXa (SE3_inv X) a) = a.
Proof.
  intros Hu. rewrite (SE3_AdjXa_expand X), (SE3_AdjXa_expand (SE3_inv X)). destruct X as [t q], a as [tau phi].
  unfold SE3_inv. cbn [fst snd] in *.
  rewrite (act_is_AdjXa (SO3_inv q)) by (now apply unitq_inv).
  rewrite rot_vadd, rot_cross, rot_vneg, !AdjXa_inv by assumption.
  destruct t as [[t0 t1] t2], tau as [[u0 u1] u2], phi as [[p0 p1] p2]. lie_unfold. split_pairs; ring.
Qed.
Lemma SE3_AdjTXa_rot_norm (X : se3R) (a : vec3R * vec3R) : unitq (snd X) ->
  vnorm (snd (SE3_AdjTXa X a)) = vnorm (snd a).
Proof.
  intros Hu. unfold SE3_AdjTXa. rewrite SE3_AdjXa_expand. cbn [fst snd]. unfold SE3_inv. cbn [fst snd].
  apply rot_norm. now apply unitq_inv.
Qed.
Theorem adjT_identity_SE3 (eps : R) (X : se3R) (a : vec3R * vec3R) : unitq (snd X) -> 0 <= eps ->
  eps < vnorm (snd a) ->
  SE3_mul (se3_exp eps a) X = SE3_mul X (se3_exp eps (SE3_AdjTXa X a)).
Proof.
  intros Hu He Hb. rewrite (adj_identity_SE3 eps X _ Hu He) by (rewrite SE3_AdjTXa_rot_norm; assumption).
  unfold SE3_AdjTXa. rewrite SE3_AdjXa_inv by assumption. reflexivity.
Qed.

(* pure translations (phi = 0): exact as well (Exp is the identity rotation, Jl = I) *)
Lemma vnorm_zero : vnorm (F:=R) vzero = 0.
Proof. unfold vnorm. cbn [tsqrt TransR]. replace (vdot (F:=R) vzero vzero) with 0 by (lie_unfold; ring). apply sqrt_0. Qed.
Lemma rot_zero (X : quatR) : SO3_AdjXa X vzero = vzero.
Proof. lie_ring. Qed.
Lemma so3_exp_zero (eps : R) : 0 <= eps -> so3_exp eps vzero = SO3_id.
Proof.
  intros He. unfold so3_exp, so3_exp_coef. rewrite vnorm_zero.
  replace (ltb eps 0) with false by (symmetry; cbn; now apply Rltb_false).
  cbn [fst snd]. lie_unfold. split_pairs; field.
Qed.
Theorem adj_identity_SE3_translation (eps : R) (X : se3R) (tau : vec3R) : unitq (snd X) -> 0 <= eps ->
  SE3_mul X (se3_exp eps (tau, vzero)) = SE3_mul (se3_exp eps (SE3_AdjXa X (tau, vzero))) X.
Proof.
  intros Hu He.
  assert (Hr : snd (SE3_mul X (se3_exp eps (tau, vzero))) = snd (SE3_mul (se3_exp eps (SE3_AdjXa X (tau, vzero))) X)).
  { unfold SE3_mul, se3_exp, SE3_AdjXa. cbn [fst snd]. apply adj_identity_SO3. assumption. }
  pose proof (adj_SE3_translation eps X (tau, vzero) Hu) as Ht. cbv zeta in Ht. cbn [snd] in Ht.
  rewrite rot_zero, so3_exp_zero in Ht by assumption.
  rewrite (surjective_pairing (SE3_mul X _)), (surjective_pairing (SE3_mul (se3_exp eps (SE3_AdjXa X (tau, vzero))) X)).
  apply pair_eq; [|exact Hr]. rewrite Ht.
  generalize (fst (SE3_mul X (se3_exp eps (tau, vzero)))). intros u. generalize (so3_Jl eps vzero). intros J.
  destruct X as [[[t0 t1] t2] q]. cbn [fst snd].
  destruct J as [[[[j00 j01] j02] [[j10 j11] j12]] [[j20 j21] j22]], u as [[u0 u1] u2].
  lie_unfold. split_pairs; ring.
Qed.

(* Taylor branch of se3 Exp (|phi| <= eps): "Exp(psi) = I + Jl(psi)[psi]x" holds up to an explicit defect of
   order |psi|^6 |t| *)
Definition taylor_defect (psi t : vec3R) : vec3R :=
  let s := vdot psi psi in
  vadd (vscale (s * s * s * (s - 128) / 737280) (vcross psi t))
       (vscale (s * s * (s * s - 160 * s + 10240) / 7372800) (vcross psi (vcross psi t))).
Lemma so3_exp_act_Jl_taylor (eps : R) (psi t : vec3R) : vnorm psi <= eps ->
  vsub (SO3_act (so3_exp eps psi) t) (vadd t (mvmul (so3_Jl eps psi) (vcross psi t))) = taylor_defect psi t.
Proof.
  intros H. pose proof (vnorm_sq psi) as Hs. unfold taylor_defect, so3_exp, so3_exp_coef, so3_Jl, so3_Jl_coef.
  replace (ltb eps (vnorm psi)) with false by (symmetry; cbn; now apply Rltb_false).
  cbv zeta. cbn [fst snd]. set (th := vnorm psi) in *. clearbody th. clear H.
  destruct psi as [[a b] c], t as [[p q] r].
  assert (Hn : th * th = a * a + b * b + c * c) by (revert Hs; lie_unfold; intros; lra). clear Hs.
  lie_unfold. set (s := th * th) in *. clearbody s. subst s. split_pairs; field.
Qed.
Theorem adj_identity_SE3_taylor (eps : R) (X : se3R) (a : vec3R * vec3R) : unitq (snd X) -> vnorm (snd a) <= eps ->
  snd (SE3_mul X (se3_exp eps a)) = snd (SE3_mul (se3_exp eps (SE3_AdjXa X a)) X) /\
  fst (SE3_mul (se3_exp eps (SE3_AdjXa X a)) X) =
    vadd (fst (SE3_mul X (se3_exp eps a))) (taylor_defect (SO3_AdjXa (snd X) (snd a)) (fst X)).
Proof.
  intros Hu Hb. split.
  - unfold SE3_mul, se3_exp, SE3_AdjXa. cbn [fst snd]. apply adj_identity_SO3. assumption.
  - rewrite <- (so3_exp_act_Jl_taylor eps) by (rewrite rot_norm; assumption).
    apply (adj_SE3_translation eps X a Hu).
Qed.

(* ---------------- Sim3 *)
Lemma rxso3_Ws_poly2 (eps : R) (x : vec3R) (sg : R) (v : vec3R) :
  mvmul (rxso3_Ws eps (x, sg)) v =
  let '(A, B, C) := rxso3_Ws_coef eps (vnorm x) sg in poly2 C A B x v.
Proof.
  unfold rxso3_Ws, poly2. cbn [fst snd]. generalize (rxso3_Ws_coef eps (vnorm x) sg). intros [[A B] C].
  destruct x as [[a b] c], v as [[p q] r]. lie_unfold. split_pairs; ring.
Qed.
(* Ws(R phi, sigma) R = R Ws(phi, sigma), all four regimes *)
Lemma rxso3_Ws_conj (eps : R) (X : quatR) (phi : vec3R) (sg : R) (v : vec3R) : unitq X ->
  mvmul (rxso3_Ws eps (SO3_AdjXa X phi, sg)) (SO3_AdjXa X v) = SO3_AdjXa X (mvmul (rxso3_Ws eps (phi, sg)) v).
Proof.
  intros H. rewrite !rxso3_Ws_poly2, rot_norm by assumption.
  destruct (rxso3_Ws_coef eps (vnorm phi) sg) as [[A B] C]. symmetry. now apply rot_poly2.
Qed.
Lemma absF_lt (eps sg : R) : eps < Rabs sg -> ltb eps (absF sg) = true.
Proof. intros H. rewrite absF_R. cbn. now apply Rltb_true. Qed.

(* exp(sigma) Exp(psi) = I + Ws(psi, sigma) ([psi]x + sigma I) on the closed-form branch *)
Lemma sim3_exp_act_Ws (eps : R) (psi : vec3R) (sg : R) (t : vec3R) : 0 <= eps -> eps < vnorm psi -> eps < Rabs sg ->
  vscale (exp sg) (SO3_act (so3_exp eps psi) t) =
  vadd t (mvmul (rxso3_Ws eps (psi, sg)) (vadd (vcross psi t) (vscale sg t))).
Proof.
  intros He H Hsg. rewrite SO3_act_is_matrix, so3_matrix_rodrigues by assumption.
  pose proof (vnorm_sq psi) as Hs. unfold rodrigues, rxso3_Ws, rxso3_Ws_coef. cbn [fst snd].
  rewrite absF_lt by assumption.
  replace (ltb eps (vnorm psi)) with true by (symmetry; cbn; now apply Rltb_true).
  set (th := vnorm psi) in *. assert (Ht : th <> 0) by lra.
  assert (Hs0 : sg <> 0) by (intros ->; rewrite Rabs_R0 in Hsg; lra).
  assert (Hc : th * th + sg * sg <> 0) by nra. clearbody th.
  destruct psi as [[a b] c], t as [[p q] r].
  assert (Hn : a * a + b * b + c * c = th * th) by (revert Hs; lie_unfold; intros; lra).
  num_simpl. set (S := sin th). set (C := cos th). set (E := exp sg). clearbody S C E. clear Hs He H Hsg. lie_unfold.
  split_pairs; field_simplify_eq; auto; cbn [Rpow_def.pow]; clear Ht Hs0 Hc; nsatz.
Qed.

Definition sim3_arg (a : vec3R * vec3R * R) : vec3R * (vec3R * R) := (fst (fst a), (snd (fst a), snd a)).
Lemma Sim3_AdjXa_expand (X : sim3R) (tau phi : vec3R) (sg : R) :
  Sim3_AdjXa X (tau, phi, sg) =
  (vadd (vadd (vscale (snd (snd X)) (SO3_AdjXa (fst (snd X)) tau)) (vcross (fst X) (SO3_AdjXa (fst (snd X)) phi)))
        (vscale sg (vneg (fst X))), SO3_AdjXa (fst (snd X)) phi, sg).
Proof.
  unfold Sim3_AdjXa. cbv zeta. rewrite mvmul_skew_mat.
  replace (mvmul (mscale3 (snd (snd X)) (SO3_Adj (fst (snd X)))) tau) with (vscale (snd (snd X)) (SO3_AdjXa (fst (snd X)) tau))
    by (unfold SO3_AdjXa; generalize (SO3_Adj (fst (snd X))); intros M; destruct tau as [[u0 u1] u2]; lie_ring).
  reflexivity.
Qed.

Lemma adj_Sim3_translation (eps : R) (X : sim3R) (tau phi : vec3R) (sg : R) : unitq (fst (snd X)) ->
  let psi := SO3_AdjXa (fst (snd X)) phi in
  fst (Sim3_mul (sim3_exp eps (sim3_arg (Sim3_AdjXa X (tau, phi, sg)))) X) =
  vadd (fst (Sim3_mul X (sim3_exp eps (tau, (phi, sg)))))
       (vsub (vscale (exp sg) (SO3_act (so3_exp eps psi) (fst X)))
             (vadd (fst X) (mvmul (rxso3_Ws eps (psi, sg)) (vadd (vcross psi (fst X)) (vscale sg (fst X)))))).
Proof.
  intros Hu psi. rewrite Sim3_AdjXa_expand. destruct X as [t [q s]]. cbn [fst snd] in *. fold psi.
  unfold Sim3_mul, sim3_exp, sim3_arg, rxso3_exp, RxSO3_act. cbn [fst snd texp TransR].
  rewrite !mvmul_vadd, !mvmul_vscale.
  rewrite (act_is_AdjXa q) by assumption. unfold psi at 1. rewrite rxso3_Ws_conj by assumption.
  generalize (SO3_AdjXa q (mvmul (rxso3_Ws eps (phi, sg)) tau)). intros U.
  generalize (SO3_act (so3_exp eps psi) t). intros E.
  generalize (rxso3_Ws eps (psi, sg)). intros J. clearbody psi. generalize (exp sg). intros e. clear.
  destruct J as [[[[j00 j01] j02] [[j10 j11] j12]] [[j20 j21] j22]], U as [[u0 u1] u2], E as [[e0 e1] e2],
    t as [[t0 t1] t2], psi as [[p0 p1] p2].
  lie_unfold. split_pairs; ring.
Qed.

Theorem adj_identity_Sim3 (eps : R) (X : sim3R) (tau phi : vec3R) (sg : R) : unitq (fst (snd X)) -> 0 <= eps ->
  eps < vnorm phi -> eps < Rabs sg ->
  Sim3_mul X (sim3_exp eps (tau, (phi, sg))) = Sim3_mul (sim3_exp eps (sim3_arg (Sim3_AdjXa X (tau, phi, sg)))) X.
Proof.
  intros Hu He Hb Hsg.
  assert (Hr : snd (Sim3_mul X (sim3_exp eps (tau, (phi, sg)))) =
               snd (Sim3_mul (sim3_exp eps (sim3_arg (Sim3_AdjXa X (tau, phi, sg)))) X)).
  { rewrite Sim3_AdjXa_expand. unfold Sim3_mul, sim3_exp, sim3_arg. cbn [fst snd].
    apply (adj_identity_RxSO3 eps (snd X) (phi, sg)). assumption. }
  pose proof (adj_Sim3_translation eps X tau phi sg Hu) as Ht. cbv zeta in Ht.
  rewrite sim3_exp_act_Ws in Ht by (auto; rewrite rot_norm; assumption).
  rewrite (surjective_pairing (Sim3_mul X _)), (surjective_pairing (Sim3_mul (sim3_exp eps _) X)).
  apply pair_eq; [|exact Hr]. rewrite Ht.
  generalize (fst (Sim3_mul X (sim3_exp eps (tau, (phi, sg))))). intros u.
  match goal with |- context [vsub ?w ?w] => generalize w end. intros w.
  destruct u as [[u0 u1] u2], w as [[w0 w1] w2]. lie_unfold. split_pairs; ring.
Qed.

(* Adj(X, Adj(X^-1, a)) = a for Sim3 (unit rotation, non-zero scale) *)
Lemma Sim3_AdjXa_inv (X : sim3R) (tau phi : vec3R) (sg : R) : unitq (fst (snd X)) -> snd (snd X) <> 0 ->
  Sim3_AdjXa X (Sim3_AdjXa (Sim3_inv X) (tau, phi, sg)) = (tau, phi, sg).
Proof.
  intros Hu Hs. rewrite (Sim3_AdjXa_expand (Sim3_inv X)), (Sim3_AdjXa_expand X). destruct X as [t [q s]].
  unfold Sim3_inv, RxSO3_inv, RxSO3_act. cbn [fst snd] in *.
  rewrite (act_is_AdjXa (SO3_inv q)) by (now apply unitq_inv).
  rewrite !rot_vadd, !rot_vscale, rot_cross, !rot_vneg, !rot_vscale, !AdjXa_inv by assumption.
  destruct t as [[t0 t1] t2], tau as [[u0 u1] u2], phi as [[p0 p1] p2]. lie_unfold. split_pairs; field; assumption.
Qed.
Lemma Sim3_AdjTXa_expand (X : sim3R) (tau phi : vec3R) (sg : R) :
  Sim3_AdjTXa X (tau, phi, sg) =
  (fst (fst (Sim3_AdjTXa X (tau, phi, sg))), SO3_AdjXa (SO3_inv (fst (snd X))) phi, sg).
Proof. unfold Sim3_AdjTXa. rewrite Sim3_AdjXa_expand. reflexivity. Qed.
Theorem adjT_identity_Sim3 (eps : R) (X : sim3R) (tau phi : vec3R) (sg : R) : unitq (fst (snd X)) -> snd (snd X) <> 0 ->
  0 <= eps -> eps < vnorm phi -> eps < Rabs sg ->
  Sim3_mul (sim3_exp eps (tau, (phi, sg))) X = Sim3_mul X (sim3_exp eps (sim3_arg (Sim3_AdjTXa X (tau, phi, sg)))).
Proof.
  intros Hu Hs He Hb Hsg. pose proof (Sim3_AdjXa_inv X tau phi sg Hu Hs) as Hi. fold (Sim3_AdjTXa X (tau, phi, sg)) in Hi.
  rewrite Sim3_AdjTXa_expand in Hi |- *. unfold sim3_arg at 1. cbn [fst snd].
  rewrite (adj_identity_Sim3 eps X _ _ sg Hu He) by (auto; rewrite rot_norm; auto using unitq_inv).
  rewrite Hi. reflexivity.
Qed.

(* ---- the exact regimes beyond the closed-form branch: phi = 0 (pure translation / scale) and sigma = 0 *)
Lemma absF_zero_branch (eps : R) : 0 <= eps -> ltb eps (absF 0) = false.
Proof. intros H. rewrite absF_R, Rabs_R0. cbn. now apply Rltb_false. Qed.
Lemma sim3_exp_act_Ws_gen (eps : R) (psi : vec3R) (sg : R) (t : vec3R) : 0 <= eps ->
  eps < vnorm psi \/ psi = vzero -> eps < Rabs sg \/ sg = 0 ->
  vscale (exp sg) (SO3_act (so3_exp eps psi) t) =
  vadd t (mvmul (rxso3_Ws eps (psi, sg)) (vadd (vcross psi t) (vscale sg t))).
Proof.
  intros He [H| ->] [Hsg| ->].
  - now apply sim3_exp_act_Ws.
  - (* sigma = 0, closed-form rotation: Ws = Jl *)
    rewrite SO3_act_is_matrix, so3_matrix_rodrigues by assumption. rewrite exp_0.
    pose proof (vnorm_sq psi) as Hs. unfold rodrigues, rxso3_Ws, rxso3_Ws_coef. cbn [fst snd].
    rewrite absF_zero_branch by assumption.
    replace (ltb eps (vnorm psi)) with true by (symmetry; cbn; now apply Rltb_true).
    set (th := vnorm psi) in *. assert (Ht : th <> 0) by lra. clearbody th.
    destruct psi as [[a b] c], t as [[p q] r].
    assert (Hn : a * a + b * b + c * c = th * th) by (revert Hs; lie_unfold; intros; lra).
    num_simpl. set (S := sin th). set (C := cos th). clearbody S C. clear Hs He H. lie_unfold.
    split_pairs; field_simplify_eq; auto; cbn [Rpow_def.pow]; clear Ht; nsatz.
  - (* phi = 0, |sigma| > eps *)
    rewrite so3_exp_zero by assumption. unfold rxso3_Ws, rxso3_Ws_coef. cbn [fst snd].
    rewrite absF_lt by assumption. rewrite vnorm_zero.
    replace (ltb eps 0) with false by (symmetry; cbn; now apply Rltb_false).
    assert (Hs0 : sg <> 0) by (intros ->; rewrite Rabs_R0 in Hsg; lra).
    num_simpl. set (E := exp sg). clearbody E. destruct t as [[p q] r]. lie_unfold. split_pairs; field; auto.
  - rewrite so3_exp_zero by assumption. rewrite exp_0. unfold rxso3_Ws, rxso3_Ws_coef. cbn [fst snd].
    rewrite absF_zero_branch by assumption. rewrite vnorm_zero.
    replace (ltb eps 0) with false by (symmetry; cbn; now apply Rltb_false).
    num_simpl. destruct t as [[p q] r]. lie_unfold. split_pairs; field.
Qed.
Lemma rot_eq_zero (X : quatR) (phi : vec3R) : phi = vzero -> SO3_AdjXa X phi = vzero.
Proof. intros ->. apply rot_zero. Qed.
Theorem adj_identity_Sim3_gen (eps : R) (X : sim3R) (tau phi : vec3R) (sg : R) : unitq (fst (snd X)) -> 0 <= eps ->
  eps < vnorm phi \/ phi = vzero -> eps < Rabs sg \/ sg = 0 ->
  Sim3_mul X (sim3_exp eps (tau, (phi, sg))) = Sim3_mul (sim3_exp eps (sim3_arg (Sim3_AdjXa X (tau, phi, sg)))) X.
Proof.
  intros Hu He Hb Hsg.
  assert (Hr : snd (Sim3_mul X (sim3_exp eps (tau, (phi, sg)))) =
               snd (Sim3_mul (sim3_exp eps (sim3_arg (Sim3_AdjXa X (tau, phi, sg)))) X)).
  { rewrite Sim3_AdjXa_expand. unfold Sim3_mul, sim3_exp, sim3_arg. cbn [fst snd].
    apply (adj_identity_RxSO3 eps (snd X) (phi, sg)). assumption. }
  pose proof (adj_Sim3_translation eps X tau phi sg Hu) as Ht. cbv zeta in Ht.
  assert (Hb' : eps < vnorm (SO3_AdjXa (fst (snd X)) phi) \/ SO3_AdjXa (fst (snd X)) phi = vzero)
    by (destruct Hb as [Hb|Hb]; [left; rewrite rot_norm; assumption | right; now apply rot_eq_zero]).
  rewrite sim3_exp_act_Ws_gen in Ht by assumption.
  rewrite (surjective_pairing (Sim3_mul X _)), (surjective_pairing (Sim3_mul (sim3_exp eps _) X)).
  apply pair_eq; [|exact Hr]. rewrite Ht.
  generalize (fst (Sim3_mul X (sim3_exp eps (tau, (phi, sg))))). intros u.
  match goal with |- context [vsub ?w ?w] => generalize w end. intros w.
  destruct u as [[u0 u1] u2], w as [[w0 w1] w2]. lie_unfold. split_pairs; ring.
Qed.
Lemma rot_zero_iff (X : quatR) (phi : vec3R) : unitq X -> SO3_AdjXa (SO3_inv X) phi = vzero -> phi = vzero.
Proof. intros Hu H. rewrite <- (AdjXa_inv X phi Hu), H. apply rot_zero. Qed.
Theorem adjT_identity_Sim3_gen (eps : R) (X : sim3R) (tau phi : vec3R) (sg : R) : unitq (fst (snd X)) -> snd (snd X) <> 0 ->
  0 <= eps -> eps < vnorm phi \/ phi = vzero -> eps < Rabs sg \/ sg = 0 ->
  Sim3_mul (sim3_exp eps (tau, (phi, sg))) X = Sim3_mul X (sim3_exp eps (sim3_arg (Sim3_AdjTXa X (tau, phi, sg)))).
Proof.
  intros Hu Hs He Hb Hsg. pose proof (Sim3_AdjXa_inv X tau phi sg Hu Hs) as Hi. fold (Sim3_AdjTXa X (tau, phi, sg)) in Hi.
  rewrite Sim3_AdjTXa_expand in Hi |- *. unfold sim3_arg at 1. cbn [fst snd].
  assert (Hb' : eps < vnorm (SO3_AdjXa (SO3_inv (fst (snd X))) phi) \/ SO3_AdjXa (SO3_inv (fst (snd X))) phi = vzero)
    by (destruct Hb as [Hb|Hb]; [left; rewrite rot_norm; auto using unitq_inv | right; now apply rot_eq_zero]).
  rewrite (adj_identity_Sim3_gen eps X _ _ sg Hu He Hb' Hsg). rewrite Hi. reflexivity.
Qed.

(* SE3: closed-form branch or phi = 0 *)
Theorem adj_identity_SE3_gen (eps : R) (X : se3R) (a : vec3R * vec3R) : unitq (snd X) -> 0 <= eps ->
  eps < vnorm (snd a) \/ snd a = vzero ->
  SE3_mul X (se3_exp eps a) = SE3_mul (se3_exp eps (SE3_AdjXa X a)) X.
Proof.
  intros Hu He [Hb|Hb]; [now apply adj_identity_SE3|]. destruct a as [tau phi]. cbn [snd] in Hb. subst phi.
  now apply adj_identity_SE3_translation.
Qed.
Theorem adjT_identity_SE3_gen (eps : R) (X : se3R) (a : vec3R * vec3R) : unitq (snd X) -> 0 <= eps ->
  eps < vnorm (snd a) \/ snd a = vzero ->
  SE3_mul (se3_exp eps a) X = SE3_mul X (se3_exp eps (SE3_AdjTXa X a)).
Proof.
  intros Hu He Hb. rewrite (adj_identity_SE3_gen eps X _ Hu He).
  - unfold SE3_AdjTXa. rewrite SE3_AdjXa_inv by assumption. reflexivity.
  - destruct Hb as [Hb|Hb]; [left; rewrite SE3_AdjTXa_rot_norm; assumption|right].
    unfold SE3_AdjTXa. rewrite SE3_AdjXa_expand. cbn [snd]. rewrite Hb. apply rot_zero.
Qed.
