(* C14, third layer (Model/LQR.v, dimension 1, any horizon):
   - "zero gradient with respect to every input": along EVERY line through the returned inputs the
     cost is  c + h e^2  with h >= 0 - no first-order term -, hence its derivative at 0 is 0;
   - the forward pass abstracted over the transition function (what MPC runs on a nonlinear system):
     for ANY gains and nominal trajectory the returned states follow the dynamics and the returned
     cost is the sum of the stage costs; on a linear system it is the model's forward pass. *)
From Coq Require Import ZArith QArith List Bool Arith Lia Reals Lra Psatz.
From Coquelicot Require Import Coquelicot.
Import ListNotations.
From PV Require Import Base.Num Model.Dynamics Model.Controller Model.LQR Proofs.LQR Proofs.LQR2.
Close Scope Q_scope.
#[local] Remove Hints NumQ NumZ : typeclass_instances.

(* ====================================================================== forward pass, any dynamics *)
Section FwdAny.
Context {F : Type} {NF : Num F}.
Local Open Scope num_scope.
Variable f : Z -> F -> F -> F.          (* system(x, u) called when the counter is t *)

Fixpoint fwdG (tm : Z) (x : F) (l : list (stage (F:=F) * F * F * (F * F))) (cost : F)
  : list F * list F * F * Z :=
  match l with
  | [] => ([], [], cost, tm)
  | (st, xb, ub, (K, k)) :: r =>
      let dx := x - xb in
      let du := K * dx + k in
      let u := du + ub in
      let x' := f tm x u in
      let c := cost + stage_cost st x u in
      let '(xs, us, cf, tmf) := fwdG (tm + 1)%Z x' r c in
      (x' :: xs, u :: us, cf, tmf)
  end.
Fixpoint trajG (t : Z) (x : F) (us : list F) : list F :=
  match us with [] => [] | u :: r => let x' := f t x u in x' :: trajG (t + 1)%Z x' r end.
(* the running sum, in the order the code accumulates it *)
Fixpoint JaccG (t : Z) (x : F) (prob : list (stage (F:=F))) (us : list F) (acc : F) : F :=
  match prob, us with
  | st :: pr, u :: ur => JaccG (t + 1)%Z (f t x u) pr ur (acc + stage_cost st x u)
  | _, _ => acc
  end.

Lemma fwdG_spec : forall l tm x c xs us cf tmf,
  fwdG tm x l c = (xs, us, cf, tmf) ->
  xs = trajG tm x us /\ length us = length l /\ tmf = (tm + Z.of_nat (length l))%Z /\
  cf = JaccG tm x (map (fun it => fst (fst (fst it))) l) us c.
Proof.
  induction l as [|[[[st xb] ub] [K k]] r IH]; intros tm x c xs us cf tmf H.
  - cbn in H. inversion H. cbn. repeat split. lia.
  - cbn [fwdG] in H. cbv zeta in H.
    destruct (fwdG (tm + 1)%Z _ r _) as [[[xs' us'] cf'] tmf'] eqn:E.
    inversion H; subst. apply IH in E. destruct E as (E1 & E2 & E3 & E4).
    cbn [trajG length map JaccG fst]. split; [now rewrite E1|]. split; [lia|]. split; [lia|exact E4].
Qed.
End FwdAny.

Section FwdLin.
Context {F : Type} {NF : Num F}.
Lemma fwd_is_fwdG (s : ssys (F:=F)) : forall l tm x c, fwd s tm x l c = fwdG (s_next s) tm x l c.
Proof.
  induction l as [|[[[st xb] ub] [K k]] r IH]; intros tm x c; [reflexivity|].
  cbn [fwd fwdG]. rewrite tick_eq. cbv zeta. now rewrite IH.
Qed.
End FwdLin.

(* ====================================================================== the cost along a line *)
Section Grad.
Open Scope R_scope.
Notation sysR := (ssys (F:=R)).
Notation stageR := (stage (F:=R)).
Ltac nu := cbn [add sub mul div opp zero one ofZ half ltb NumR] in *.

Fixpoint line (us ds : list R) (e : R) : list R :=
  match us, ds with u :: ur, d :: dr => (u + e * d) :: line ur dr e | _, _ => [] end.
Lemma line_0 : forall us ds, length ds = length us -> line us ds 0 = us.
Proof.
  induction us as [|u ur IH]; intros ds H; [reflexivity|]. destruct ds as [|d dr]; [discriminate|].
  cbn [line]. rewrite IH by (now injection H). f_equal. ring.
Qed.
Lemma line_len : forall us ds e, length ds = length us -> length (line us ds e) = length us.
Proof.
  induction us as [|u ur IH]; intros ds e H; [reflexivity|]. destruct ds as [|d dr]; [discriminate|].
  cbn [line length]. f_equal. apply IH. now injection H.
Qed.

(* the cost along a line in (state, inputs) space is a quadratic polynomial of the parameter *)
Lemma Jcost_line_quadratic (s : sysR) : forall prob t x dx us ds, exists g h, forall e,
  Jcost s t (x + e * dx) prob (line us ds e) = Jcost s t x prob (line us ds 0) + g * e + h * (e * e).
Proof.
  induction prob as [|st pr IH]; intros t x dx us ds.
  - exists 0, 0. intros e. cbn [Jcost]. nu. ring.
  - destruct us as [|u ur]; [exists 0, 0; intros e; cbn [line Jcost]; nu; ring|].
    destruct ds as [|d dr]; [exists 0, 0; intros e; cbn [line Jcost]; nu; ring|].
    destruct (IH (t + 1)%Z (s_next s t x (u + 0 * d)) (cA s t * dx + cB s t * d) ur dr) as (g' & h' & H').
    exists (1 / 2 * ((dx * qxx st + d * qux st) * x + (x * qxx st + u * qux st) * dx
                     + (dx * qxu st + d * quu st) * u + (x * qxu st + u * quu st) * d)
            + (dx * px st + d * pu st) + g'),
           (1 / 2 * ((dx * qxx st + d * qux st) * dx + (dx * qxu st + d * quu st) * d) + h').
    intros e. cbn [line Jcost]. nu.
    replace (s_next s t (x + e * dx) (u + e * d))
      with (s_next s t x (u + 0 * d) + e * (cA s t * dx + cB s t * d)) by (rewrite !s_next_R; ring).
    rewrite H', !stage_cost_R. ring.
Qed.

Lemma no_linear_term c g h : (forall e, c <= c + g * e + h * (e * e)) -> g = 0 /\ 0 <= h.
Proof.
  intros H.
  assert (Hh : 0 <= h).
  { destruct (Rle_or_lt 0 h) as [|Hn]; [assumption|]. exfalso.
    (* h < 0: take e large *)
    pose proof (H ((Rabs g + 1) / - h)) as H1. pose proof (H (- ((Rabs g + 1) / - h))) as H2.
    assert (Hp : 0 < (Rabs g + 1) / - h).
    { apply Rdiv_lt_0_compat; [pose proof (Rabs_pos g); lra|lra]. }
    set (E := (Rabs g + 1) / - h) in *.
    assert (HE : h * E = - (Rabs g + 1)) by (unfold E; field; lra).
    assert (A1 : h * (E * E) = - (Rabs g + 1) * E) by (rewrite <- Rmult_assoc, HE; ring).
    assert (A2 : h * (- E * - E) = - (Rabs g + 1) * E) by (replace (- E * - E) with (E * E) by ring; exact A1).
    rewrite A1 in H1. rewrite A2 in H2.
    assert (Hg : g <= Rabs g /\ - g <= Rabs g) by (split; [apply Rle_abs|rewrite <- Rabs_Ropp; apply Rle_abs]).
    clearbody E. nra. }
  split; [|exact Hh].
  destruct (Req_dec g 0) as [|Hg]; [assumption|]. exfalso.
  pose proof (H (- g / (h + 1))) as H1.
  assert (Hp : 0 < h + 1) by lra.
  assert (E1 : g * (- g / (h + 1)) + h * (- g / (h + 1) * (- g / (h + 1))) = - (g * g) / ((h + 1) * (h + 1))).
  { field. lra. }
  assert (0 < g * g) by nra.
  assert (0 < (g * g) / ((h + 1) * (h + 1))) by (apply Rdiv_lt_0_compat; nra).
  assert (E2 : - (g * g) / ((h + 1) * (h + 1)) = - ((g * g) / ((h + 1) * (h + 1)))) by (field; lra).
  lra.
Qed.

(* zero gradient: along every direction d of the input space the cost has no first-order term at
   the returned inputs *)
Theorem lqr_no_first_order (s : sysR) dt prob x0 un tm xs us c tm' :
  Forall pd prob -> coherent s dt ->
  lqr_solve s dt prob x0 un tm = Some (xs, us, c, tm') ->
  forall d, length d = length prob -> exists h, 0 <= h /\
    forall e, Jcost s 0 x0 prob (line us d e) = c + h * (e * e).
Proof.
  intros Hpd Hok H d Hd.
  destruct (lqr_optimal_unique _ _ _ _ _ _ _ _ _ _ Hpd Hok H) as (L1 & _ & L3 & L4 & _).
  destruct (Jcost_line_quadratic s prob 0%Z x0 0 us d) as (g & h & Hq).
  assert (Hq' : forall e, Jcost s 0 x0 prob (line us d e) = c + g * e + h * (e * e)).
  { intros e. specialize (Hq e). rewrite Rmult_0_r, Rplus_0_r in Hq. rewrite Hq.
    rewrite line_0 by congruence. now rewrite <- L3. }
  destruct (no_linear_term c g h) as [Hg Hh].
  { intros e. rewrite <- Hq'. apply L4. rewrite line_len; congruence. }
  exists h. split; [exact Hh|]. intros e. rewrite Hq', Hg. ring.
Qed.

Theorem lqr_gradient_zero (s : sysR) dt prob x0 un tm xs us c tm' :
  Forall pd prob -> coherent s dt ->
  lqr_solve s dt prob x0 un tm = Some (xs, us, c, tm') ->
  forall d, length d = length prob ->
    is_derive (fun e => Jcost s 0 x0 prob (line us d e)) 0 0.
Proof.
  intros Hpd Hok H d Hd.
  destruct (lqr_no_first_order s dt prob x0 un tm xs us c tm' Hpd Hok H d Hd) as (h & _ & Hq).
  apply (is_derive_ext (fun e => c + h * (e * e))); [intros e; symmetry; apply Hq|].
  auto_derive; [exact I|ring].
Qed.

(* the unit direction of input i: partial derivative with respect to u_i *)
Definition unit_dir (n i : nat) : list R := map (fun k => if Nat.eqb k i then 1 else 0) (seq 0 n).
Lemma unit_dir_len n i : length (unit_dir n i) = n.
Proof. unfold unit_dir. now rewrite map_length, seq_length. Qed.
End Grad.
