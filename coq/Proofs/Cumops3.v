(* C12 (strengthening):
   - the scan theorem for operations that are associative only on a subset P closed under the operation
     (the SE3 / Sim3 products of pypose are associative on elements with unit quaternion only), with all
     outputs in P; instances for the four group products, both orders;
   - the stride count of the model is the source's (L-1).bit_length();
   - associativity cannot be dropped (witness). *)
From Coq Require Import List Arith Lia PeanoNat ZArith.
Import ListNotations.
From PV Require Import Base.ListAux Model.Cumops Proofs.Cumops.

Section ScanOn.
Variable A : Type.
Variable op : A -> A -> A.
Variable P : A -> Prop.
Hypothesis P_op : forall a b, P a -> P b -> P (op a b).
Hypothesis op_assoc_on : forall a b c, P a -> P b -> P c -> op (op a b) c = op a (op b c).
Variable d : A.
Hypothesis P_d : P d.

Lemma nth_P (x : list A) i : Forall P x -> P (nth i x d).
Proof.
  intros H. destruct (Nat.lt_ge_cases i (length x)) as [Hi|Hi].
  - rewrite Forall_forall in H. apply H. now apply nth_In.
  - now rewrite nth_overflow.
Qed.
Lemma segp_P (x : list A) lo len : Forall P x -> P (segp A op d x lo len).
Proof. intros H. induction len as [|l IH]; cbn [segp]; [now apply nth_P | apply P_op; [exact IH | now apply nth_P]]. Qed.

Lemma segp_split_on x lo l1 l2 : Forall P x ->
  segp A op d x lo (l1 + S l2) = op (segp A op d x lo l1) (segp A op d x (lo + S l1) l2).
Proof.
  intros HP. induction l2 as [|l2 IH].
  - replace (l1 + 1) with (S l1) by lia. cbn [segp]. reflexivity.
  - replace (l1 + S (S l2)) with (S (l1 + S l2)) by lia. cbn [segp].
    rewrite IH, op_assoc_on by (auto using segp_P, nth_P). do 2 f_equal. f_equal. lia.
Qed.

Lemma inv_pass_on x v w : Forall P x -> 0 < w -> w <= length x -> Inv A op d x v w ->
  exists v', pass op w v = Some v' /\ Inv A op d x v' (2 * w).
Proof.
  intros HP Hw Hwl [Hlen Hv].
  destruct (pass_some A op d w v) as (v' & Hp & Hl' & Hn); [lia|].
  exists v'. split; [exact Hp|]. split; [lia|].
  intros i Hi. rewrite Hn by lia.
  destruct (w <=? i) eqn:E.
  - apply Nat.leb_le in E.
    rewrite (Hv (i - w)) by lia. rewrite (Hv i) by lia.
    replace (Nat.min (i + 1) w) with w by lia.
    set (m := Nat.min (i - w + 1) w).
    assert (Hm : 1 <= m <= w) by (unfold m; lia).
    replace (Nat.min (i + 1) (2 * w)) with (m + w) by (unfold m; lia).
    replace (m + w - 1) with ((m - 1) + S (w - 1)) by lia.
    rewrite segp_split_on by assumption.
    f_equal; f_equal; lia.
  - apply Nat.leb_gt in E. rewrite (Hv i) by lia.
    f_equal; lia.
Qed.

Lemma inv_scan_on x : Forall P x -> forall k v w, 0 < w -> 2 ^ k * w < 2 * length x -> Inv A op d x v w ->
  exists v', scan op (pows k w) v = Some v' /\ Inv A op d x v' (2 ^ k * w).
Proof.
  intros HP. induction k as [|k IH]; intros v w Hw Hk HI; cbn [pows scan].
  - exists v. split; [reflexivity|]. now rewrite Nat.pow_0_r, Nat.mul_1_l.
  - assert (Hwl : w <= length x).
    { cbn [Nat.pow] in Hk. assert (1 <= 2 ^ k) by (apply Nat.neq_0_lt_0, Nat.pow_nonzero; lia). nia. }
    destruct (inv_pass_on x v w HP Hw Hwl HI) as (v1 & Hp & HI1). rewrite Hp.
    replace (2 ^ S k * w) with (2 ^ k * (2 * w)) by (cbn [Nat.pow]; lia).
    apply IH; [lia | cbn [Nat.pow] in Hk; lia | exact HI1].
Qed.

Theorem cumops_correct_on (x : list A) : 1 <= length x -> Forall P x ->
  exists r, cumops_model op x = Some r /\ length r = length x /\ Forall P r /\
            forall i, i < length x -> nth i r d = prefix A op d x i.
Proof.
  intros HL HP. unfold cumops_model, strides, nstrides.
  destruct (log2_up_bounds (length x) HL) as [Hlo Hhi].
  destruct (inv_scan_on x HP (Nat.log2_up (length x)) x 1 ltac:(lia) ltac:(lia) (inv_init A op d x))
    as (r & Hs & Hlen & Hr).
  assert (Hpre : forall i, i < length x -> nth i r d = prefix A op d x i).
  { intros i Hi. rewrite Hr by assumption. rewrite Nat.mul_1_r.
    replace (Nat.min (i + 1) (2 ^ Nat.log2_up (length x))) with (i + 1) by lia.
    unfold prefix. f_equal; lia. }
  exists r. split; [exact Hs|]. split; [exact Hlen|]. split; [|exact Hpre].
  apply Forall_forall. intros a Ha. destruct (In_nth r a d Ha) as (i & Hi & <-).
  rewrite Hpre by lia. unfold prefix. now apply segp_P.
Qed.
End ScanOn.

(* left / right wrappers on a closed subset *)
Section WrappersOn.
Variable A : Type.
Variable mul : A -> A -> A.
Variable P : A -> Prop.
Hypothesis P_mul : forall a b, P a -> P b -> P (mul a b).
Hypothesis mul_assoc_on : forall a b c, P a -> P b -> P c -> mul (mul a b) c = mul a (mul b c).
Variable d : A.
Hypothesis P_d : P d.

Theorem cumprod_left_correct_on (x : list A) : 1 <= length x -> Forall P x ->
  exists r, cumprod_model mul true x = Some r /\ length r = length x /\ Forall P r /\
            forall i, i < length x -> nth i r d = lprefix A mul d x i.
Proof.
  intros HL HP.
  destruct (cumops_correct_on A (flip_op mul) P) with (d := d) (x := x) as (r & H1 & H2 & H3 & H4); auto.
  - intros a b Ha Hb. unfold flip_op. now apply P_mul.
  - intros a b c Ha Hb Hc. unfold flip_op. symmetry. now apply mul_assoc_on.
  - exists r. repeat split; auto. intros i Hi. rewrite H4 by assumption. apply prefix_flip.
Qed.
Theorem cumprod_right_correct_on (x : list A) : 1 <= length x -> Forall P x ->
  exists r, cumprod_model mul false x = Some r /\ length r = length x /\ Forall P r /\
            forall i, i < length x -> nth i r d = rprefix A mul d x i.
Proof.
  intros HL HP.
  destruct (cumops_correct_on A mul P P_mul mul_assoc_on d P_d x HL HP) as (r & H1 & H2 & H3 & H4).
  exists r. repeat split; auto. intros i Hi. rewrite H4 by assumption. apply prefix_right.
Qed.
End WrappersOn.

(* ---------------- the stride count is the source's (L-1).bit_length() *)
Definition bit_length (n : nat) : nat := match n with O => 0 | _ => S (Nat.log2 n) end.
Lemma bit_length_spec n : 0 < n -> 2 ^ (bit_length n - 1) <= n < 2 ^ bit_length n.
Proof.
  intros Hn. unfold bit_length. destruct n as [|m]; [lia|].
  replace (S (Nat.log2 (S m)) - 1) with (Nat.log2 (S m)) by lia. apply Nat.log2_spec. lia.
Qed.
Lemma nstrides_is_bit_length L : 1 <= L -> nstrides L = bit_length (L - 1).
Proof.
  intros HL. unfold nstrides, bit_length, Nat.log2_up.
  destruct L as [|[|m]]; [lia | reflexivity |]. cbn [Nat.compare Nat.pred]. replace (S (S m) - 1) with (S m) by lia. reflexivity.
Qed.
(* the passes use the strides 1, 2, 4, ..., 2^(k-1) with k = (L-1).bit_length(): all < L, and the next one >= L *)
Lemma pows_nth k s i : i < k -> nth i (pows k s) 0 = 2 ^ i * s.
Proof.
  revert s i. induction k as [|k IH]; intros s i Hi; [lia|]. destruct i as [|i]; cbn [pows nth].
  - cbn. lia.
  - rewrite IH by lia. cbn [Nat.pow]. lia.
Qed.
Lemma pows_length k s : length (pows k s) = k.
Proof. revert s. induction k as [|k IH]; intros s; cbn; auto. Qed.
Lemma strides_spec L : 1 <= L ->
  length (strides L) = bit_length (L - 1) /\
  (forall i, i < length (strides L) -> nth i (strides L) 0 = 2 ^ i /\ 2 ^ i < L) /\
  L <= 2 ^ length (strides L).
Proof.
  intros HL. unfold strides. rewrite pows_length. split; [now apply nstrides_is_bit_length|].
  destruct (log2_up_bounds L HL) as [Hlo Hhi]. unfold nstrides. split; [|exact Hlo].
  intros i Hi. rewrite pows_nth by assumption. split; [lia|].
  assert (2 ^ S i <= 2 ^ Nat.log2_up L) by (apply Nat.pow_le_mono_r; lia). cbn [Nat.pow] in H. lia.
Qed.

(* ---------------- associativity is needed: subtraction on Z, L = 4 *)
Lemma assoc_needed :
  cumops_model Z.sub [1; 2; 3; 4]%Z = Some [1; -1; 2; 0]%Z /\
  prefix Z Z.sub 0%Z [1; 2; 3; 4]%Z 3 = (-8)%Z.
Proof. split; vm_compute; reflexivity. Qed.
