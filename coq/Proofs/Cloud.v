(* Proofs for C18 (point-cloud filters and camera helpers), over R. *)
From Coq Require Import QArith.
Close Scope Q_scope.
From Coq Require Import ZArith Reals Lra Lia List Bool Arith Permutation Sorted Psatz.
Import ListNotations.
From PV Require Import Base.Num Model.LieGroup Model.Cloud.
#[local] Remove Hints NumQ NumZ : typeclass_instances.

(* ====================================================================== generic list facts *)
Section Lists.
Context {A B C : Type}.

Lemma map2_length (f : A -> B -> C) : forall a b, length (map2 f a b) = Nat.min (length a) (length b).
Proof. induction a as [|x a IH]; intros [|y b]; cbn; auto. Qed.

Lemma map2_map_same (f : A -> A -> C) (l : list A) : map2 f l l = map (fun x => f x x) l.
Proof. induction l; cbn; congruence. Qed.

Lemma map2_map_l {A'} (g : A' -> A) (f : A -> B -> C) : forall a b, map2 f (map g a) b = map2 (fun x y => f (g x) y) a b.
Proof. induction a as [|x a IH]; intros [|y b]; cbn; auto. now rewrite IH. Qed.

Lemma mask_select_map (f : A -> bool) (l : list A) : mask_select l (map f l) = filter f l.
Proof. induction l as [|x l IH]; cbn; auto. destruct (f x); now rewrite IH. Qed.

Lemma mask_select_map2 (f : A -> bool) (g : A -> B) (l : list A) :
  mask_select (map g l) (map f l) = map g (filter f l).
Proof. induction l as [|x l IH]; cbn; auto. destruct (f x); cbn; now rewrite IH. Qed.

Lemma countZ_filter (f : A -> bool) (l : list A) : countZ f l = Z.of_nat (length (filter f l)).
Proof.
  induction l as [|x l IH]; cbn; auto. unfold countZ in *. cbn. rewrite IH.
  destruct (f x); cbn [length]; lia.
Qed.

Lemma filter_perm_length (f : A -> bool) (l l' : list A) :
  Permutation l l' -> length (filter f l) = length (filter f l').
Proof.
  intros H. apply Permutation_length. induction H; cbn.
  - constructor.
  - destruct (f x); auto.
  - destruct (f x), (f y); auto using perm_swap.
  - eauto using perm_trans.
Qed.

Lemma filter_perm (f : A -> bool) (l l' : list A) : Permutation l l' -> Permutation (filter f l) (filter f l').
Proof.
  intros H. induction H; cbn.
  - constructor.
  - destruct (f x); auto.
  - destruct (f x), (f y); auto using perm_swap.
  - eauto using perm_trans.
Qed.

Lemma gather_spec (d : A) (l : list A) : forall idx,
  (forall i, In i idx -> i < length l) -> gather l idx = Some (map (fun i => nth i l d) idx).
Proof.
  induction idx as [|i t IH]; intros H; cbn; auto.
  rewrite IH by (intros; apply H; now right).
  destruct (nth_error l i) eqn:E.
  - now rewrite (nth_error_nth _ _ d E).
  - apply nth_error_None in E. specialize (H i (or_introl eq_refl)). lia.
Qed.

Lemma gather_oob (l : list A) : forall idx i, In i idx -> length l <= i -> gather l idx = None.
Proof.
  induction idx as [|j t IH]; intros i Hin Hi; [destruct Hin|].
  destruct Hin as [->|Hin]; cbn.
  - apply nth_error_None in Hi. now rewrite Hi.
  - destruct (nth_error l j); auto. now rewrite (IH i Hin Hi).
Qed.

Lemma all_some_map (f : A -> option B) (g : A -> B) (l : list A) :
  (forall x, In x l -> f x = Some (g x)) -> all_some (map f l) = Some (map g l).
Proof.
  induction l as [|x l IH]; intros H; cbn; auto.
  rewrite (H x (or_introl eq_refl)), IH; auto. intros; apply H; now right.
Qed.

Lemma fold_left_perm (f : B -> A -> B) :
  (forall a x y, f (f a x) y = f (f a y) x) ->
  forall l l', Permutation l l' -> forall a, fold_left f l a = fold_left f l' a.
Proof.
  intros Hc l l' H. induction H; intros a; cbn; auto.
  - now rewrite Hc.
  - now rewrite IHPermutation1.
Qed.
End Lists.

Lemma In_skipn' {A} (x : A) : forall k l, In x (skipn k l) -> In x l.
Proof. induction k; intros [|y l] H; cbn in *; auto. Qed.
Lemma In_firstn' {A} (x : A) : forall k l, In x (firstn k l) -> In x l.
Proof. induction k; intros [|y l] H; cbn in *; try contradiction. destruct H; auto. Qed.

Lemma nth_upd {A} (f : A -> A) (d : A) : forall l j k,
  nth k (upd f j l) d = if Nat.eqb j k then (if Nat.ltb k (length l) then f (nth k l d) else d) else nth k l d.
Proof.
  induction l as [|x l IH]; intros j k; cbn.
  - destruct j, k; cbn; try reflexivity. destruct (Nat.eqb j k); reflexivity.
  - destruct j, k; cbn; auto. rewrite IH. destruct (Nat.eqb j k); auto.
Qed.
Lemma upd_length {A} (f : A -> A) : forall l j, length (upd f j l) = length l.
Proof. induction l; intros [|j]; cbn; auto. Qed.

(* ====================================================================== insertion sort *)
Section SortFacts.
Context {A : Type} (le : A -> A -> bool).
Let leP a b := le a b = true.

Lemma insert_perm x l : Permutation (insert le x l) (x :: l).
Proof.
  induction l as [|y l IH]; cbn; auto. destruct (le x y); auto.
  eapply perm_trans; [apply perm_skip, IH | apply perm_swap].
Qed.
Lemma isort_perm l : Permutation (isort le l) l.
Proof.
  induction l as [|x l IH]; cbn; auto.
  eapply perm_trans; [apply insert_perm | now apply perm_skip].
Qed.

Hypothesis le_total : forall a b, le a b = true \/ le b a = true.
Hypothesis le_trans : forall a b c, le a b = true -> le b c = true -> le a c = true.

Lemma insert_sorted x l : StronglySorted leP l -> StronglySorted leP (insert le x l).
Proof.
  induction 1 as [|y l Hs IH Hy]; cbn.
  - repeat constructor.
  - destruct (le x y) eqn:E.
    + constructor; [constructor; auto|]. constructor; auto.
      eapply Forall_impl; [|exact Hy]. intros z Hz. eapply le_trans; eauto.
    + constructor; auto.
      assert (Hyx : le y x = true) by (destruct (le_total x y); congruence).
      eapply Permutation_Forall; [apply Permutation_sym, insert_perm|]. constructor; auto.
Qed.
Lemma isort_sorted l : StronglySorted leP (isort le l).
Proof. induction l; cbn; [constructor | now apply insert_sorted]. Qed.

Lemma sorted_firstn_skipn l : StronglySorted leP l -> forall k a b,
  In a (firstn k l) -> In b (skipn k l) -> le a b = true.
Proof.
  induction 1 as [|y l Hs IH Hy]; intros [|k] a b Ha Hb; cbn in *; try contradiction.
  destruct Ha as [->|Ha].
  - rewrite Forall_forall in Hy. apply Hy. eapply In_skipn'; eauto.
  - eapply IH; eauto.
Qed.
End SortFacts.

(* sorting commutes with an order-preserving map of the elements *)
Lemma insert_map {A B} (le : A -> A -> bool) (le' : B -> B -> bool) (g : A -> B) x l :
  (forall y, In y l -> le' (g x) (g y) = le x y) ->
  insert le' (g x) (map g l) = map g (insert le x l).
Proof.
  induction l as [|y l IH]; intros H; cbn; auto.
  rewrite (H y (or_introl eq_refl)). destruct (le x y); cbn; auto.
  rewrite IH; auto. intros; apply H; now right.
Qed.
Lemma isort_map_mono {A B} (le : A -> A -> bool) (le' : B -> B -> bool) (g : A -> B) l :
  (forall x y, In x l -> In y l -> le' (g x) (g y) = le x y) ->
  isort le' (map g l) = map g (isort le l).
Proof.
  induction l as [|x l IH]; intros H; auto.
  change (insert le' (g x) (isort le' (map g l)) = map g (insert le x (isort le l))).
  rewrite IH by (intros; apply H; now right).
  apply insert_map. intros y Hy. apply H; [now left|].
  right. eapply Permutation_in; [apply isort_perm | exact Hy].
Qed.

(* ====================================================================== more list facts *)
Lemma map_snd_combine {A B} : forall (a : list A) (b : list B), length a = length b -> map snd (combine a b) = b.
Proof. induction a; intros [|y b] H; cbn in *; try discriminate; auto. f_equal. apply IHa. lia. Qed.
Lemma map_fst_combine {A B} : forall (a : list A) (b : list B), length a = length b -> map fst (combine a b) = a.
Proof. induction a; intros [|y b] H; cbn in *; try discriminate; auto. f_equal. apply IHa. lia. Qed.
Lemma NoDup_firstn {A} : forall k (l : list A), NoDup l -> NoDup (firstn k l).
Proof.
  induction k; intros [|x l] H; cbn; try constructor.
  - inversion H; subst. intros Hin. apply In_firstn' in Hin. contradiction.
  - inversion H; auto.
Qed.
Lemma map_nth_seq {A} (d : A) : forall l, map (fun j => nth j l d) (seq 0 (length l)) = l.
Proof.
  induction l as [|x l IH]; cbn; auto. f_equal.
  rewrite <- seq_shift, map_map. exact IH.
Qed.
Lemma In_combine_seq {A} (d : A) : forall (l : list A) a v j,
  In (v, j) (combine l (seq a (length l))) <-> (a <= j < a + length l /\ v = nth (j - a) l d).
Proof.
  induction l as [|x l IH]; intros a v j; cbn [combine length seq In].
  - split; [contradiction | lia].
  - rewrite IH. split.
    + intros [E | [Hj Hv]].
      * inversion E; subst. split; [lia|]. now rewrite Nat.sub_diag.
      * split; [lia|]. replace (j - a) with (S (j - S a)) by lia. exact Hv.
    + intros [Hj Hv]. destruct (Nat.eq_dec j a) as [->|Hne].
      * left. rewrite Nat.sub_diag in Hv. cbn in Hv. now subst.
      * right. split; [lia|]. replace (j - a) with (S (j - S a)) in Hv by lia. exact Hv.
Qed.
Lemma StronglySorted_firstn {A} (R : A -> A -> Prop) : forall k l, StronglySorted R l -> StronglySorted R (firstn k l).
Proof.
  induction k; intros [|x l] H; cbn; try constructor.
  - apply IHk. now inversion H.
  - inversion H; subst. rewrite Forall_forall in *. intros y Hy. apply H3. eapply In_firstn'; eauto.
Qed.
Lemma StronglySorted_map {A B} (R : A -> A -> Prop) (R' : B -> B -> Prop) (f : A -> B) l :
  (forall a b, R a b -> R' (f a) (f b)) -> StronglySorted R l -> StronglySorted R' (map f l).
Proof.
  intros HR. induction 1; cbn; constructor; auto.
  rewrite Forall_map. eapply Forall_impl; [|eassumption]. auto.
Qed.
Lemma filter_none {A} (f : A -> bool) l : (forall x, In x l -> f x = false) -> filter f l = [].
Proof. induction l; cbn; intros H; auto. rewrite (H a) by now left. apply IHl. intros; apply H; now right. Qed.

(* ====================================================================== reals *)
Local Open Scope R_scope.
Notation vecR := (list R).
Notation cloudR := (list (list R)).

Lemma absF_R (x : R) : absF x = Rabs x.
Proof. unfold absF; cbn. unfold Rltb. destruct (Rlt_dec x 0); unfold Rabs; destruct (Rcase_abs x); lra. Qed.
Lemma maxF_R (a b : R) : maxF a b = Rmax a b.
Proof. unfold maxF; cbn. unfold Rltb, Rmax. destruct (Rlt_dec a b), (Rle_dec a b); lra. Qed.
Lemma minF_R (a b : R) : minF a b = Rmin a b.
Proof. unfold minF; cbn. unfold Rltb, Rmin. destruct (Rlt_dec b a), (Rle_dec a b); lra. Qed.

Lemma sumF_nonneg (l : vecR) : Forall (fun x => 0 <= x) l -> 0 <= sumF l.
Proof. unfold sumF. induction 1; cbn in *; lra. Qed.
Lemma maxfold_nonneg (l : vecR) : 0 <= fold_right maxF 0 l.
Proof. induction l; cbn; [lra|]. rewrite maxF_R. eapply Rle_trans; [exact IHl | apply Rmax_r]. Qed.

Lemma dmeas_nonneg o (a b : vecR) : 0 <= dmeas o a b.
Proof.
  unfold dmeas. destruct o.
  - apply sumF_nonneg. rewrite Forall_map. apply Forall_forall. intros x _. rewrite absF_R. apply Rabs_pos.
  - apply sumF_nonneg. rewrite Forall_map. apply Forall_forall. intros x _. cbn. nra.
  - apply maxfold_nonneg.
Qed.
Lemma dmeas_self o (a : vecR) : dmeas o a a = 0.
Proof.
  unfold dmeas, vsubl. rewrite map2_map_same.
  assert (E : map (fun x : R => sub x x) a = map (fun _ => 0) a) by (apply map_ext; intros; cbn; lra).
  rewrite E. clear E.
  destruct o; rewrite map_map; unfold sumF; induction a as [|x a IH]; cbn [map fold_right]; auto.
  - rewrite IH, absF_R, Rabs_R0. cbn; lra.
  - rewrite IH. cbn; lra.
  - rewrite IH, absF_R, Rabs_R0, maxF_R. apply Rmax_left; lra.
Qed.

(* the norm itself *)
Definition Rdist (o : ord) (a b : vecR) : R :=
  match o with L2 => sqrt (dmeas L2 a b) | _ => dmeas o a b end.
Definition Rpdist (o : ord) (pd : nat) (p q : vecR) : R := Rdist o (firstn pd p) (firstn pd q).

Lemma meas_le_true o m r : 0 <= m ->
  meas_le o m r = true <-> (match o with L2 => sqrt m | _ => m end) <= r.
Proof.
  intros Hm. destruct o; cbn; try apply Rleb_true.
  rewrite andb_true_iff, !Rleb_true. split.
  - intros [Hr Hle]. rewrite <- (sqrt_square r Hr). now apply sqrt_le_1_alt.
  - intros H. assert (0 <= r) by (eapply Rle_trans; [apply sqrt_pos | exact H]).
    split; auto. rewrite <- (sqrt_sqrt m Hm). apply Rmult_le_compat; auto using sqrt_pos.
Qed.
(* the radius test of the model decides  ||p - q|| <= r  for the true norm *)
Lemma within_spec o pd r (p q : vecR) : within o pd r p q = true <-> Rpdist o pd p q <= r.
Proof.
  unfold within, pdist, Rpdist, Rdist. rewrite meas_le_true by apply dmeas_nonneg. destruct o; reflexivity.
Qed.
Lemma within_self o pd r (p : vecR) : 0 <= r -> within o pd r p p = true.
Proof.
  intros Hr. apply within_spec. unfold Rpdist, Rdist. rewrite !dmeas_self. destruct o; try lra. now rewrite sqrt_0.
Qed.

(* ====================================================================== topk / knn *)
Lemma le_fst_total (a b : R * nat) : le_fst a b = true \/ le_fst b a = true.
Proof. unfold le_fst; cbn. rewrite !Rleb_true. lra. Qed.
Lemma le_fst_trans (a b c : R * nat) : le_fst a b = true -> le_fst b c = true -> le_fst a c = true.
Proof. unfold le_fst; cbn. rewrite !Rleb_true. lra. Qed.

(* what dist.topk(k, largest=False, sorted=True) promises for one row *)
Definition topk_contract (row : vecR) (k : nat) (res : list (R * nat)) : Prop :=
  length res = k /\ NoDup (map snd res) /\
  (forall v j, In (v, j) res -> (j < length row)%nat /\ v = nth j row 0) /\
  StronglySorted Rle (map fst res) /\
  (forall v j j', In (v, j) res -> (j' < length row)%nat -> ~ In j' (map snd res) -> v <= nth j' row 0).

Lemma indexed_length (row : vecR) : length (indexed row) = length row.
Proof. unfold indexed. rewrite combine_length, seq_length. lia. Qed.
Lemma sort_row_perm (row : vecR) : Permutation (sort_row row) (indexed row).
Proof. apply isort_perm. Qed.
Lemma sort_row_length (row : vecR) : length (sort_row row) = length row.
Proof. rewrite (Permutation_length (sort_row_perm row)). apply indexed_length. Qed.
Lemma In_indexed (row : vecR) v j : In (v, j) (indexed row) <-> ((j < length row)%nat /\ v = nth j row 0).
Proof. unfold indexed. rewrite (In_combine_seq 0). rewrite Nat.sub_0_r. intuition lia. Qed.
Lemma sort_row_snd (row : vecR) : Permutation (map snd (sort_row row)) (seq 0 (length row)).
Proof.
  eapply perm_trans; [apply Permutation_map, sort_row_perm|].
  unfold indexed. rewrite map_snd_combine; auto. now rewrite seq_length.
Qed.

Lemma topk_sort_contract (row : vecR) k : (k <= length row)%nat -> topk_contract row k (firstn k (sort_row row)).
Proof.
  intros Hk. set (s := sort_row row).
  assert (Hs : StronglySorted (fun a b => le_fst a b = true) s)
    by (apply isort_sorted; [apply le_fst_total | apply le_fst_trans]).
  assert (Hin : forall vj, In vj s -> In vj (indexed row))
    by (intros vj; apply Permutation_in, sort_row_perm).
  split; [|split; [|split; [|split]]].
  - apply firstn_length_le. unfold s. now rewrite sort_row_length.
  - rewrite <- firstn_map. apply NoDup_firstn.
    eapply Permutation_NoDup; [apply Permutation_sym, sort_row_snd | apply seq_NoDup].
  - intros v j H. apply In_indexed, Hin. eapply In_firstn'; eauto.
  - rewrite <- firstn_map. apply StronglySorted_firstn.
    eapply StronglySorted_map; [|exact Hs]. intros a b. unfold le_fst; cbn. now rewrite Rleb_true.
  - intros v j j' Hv Hj' Hnot.
    assert (Hj's : In (nth j' row 0, j') s).
    { eapply Permutation_in; [apply Permutation_sym, sort_row_perm|]. apply In_indexed. auto. }
    rewrite <- (firstn_skipn k s) in Hj's. apply in_app_or in Hj's. destruct Hj's as [H1|H2].
    + exfalso. apply Hnot. apply in_map_iff. exists (nth j' row 0, j'). auto.
    + pose proof (sorted_firstn_skipn le_fst s Hs k _ _ Hv H2) as Hle.
      unfold le_fst in Hle; cbn in Hle. now apply Rleb_true in Hle.
Qed.

Lemma topk_some (row : vecR) k : (k <= length row)%nat -> topk k row = Some (firstn k (sort_row row)).
Proof. intros H. unfold topk. destruct (Nat.ltb_spec (length row) k); [lia | reflexivity]. Qed.
Lemma topk_none (row : vecR) k : (length row < k)%nat -> topk k row = None.
Proof. intros H. unfold topk. destruct (Nat.ltb_spec (length row) k); [reflexivity | lia]. Qed.

(* knn: for EVERY reference point the k smallest distances, ascending, with the indices attaining
   them; raises exactly when k exceeds the number of neighbours.  [d] is any distance function. *)
Lemma knn_spec (d : vecR -> vecR -> R) (ref nbr : cloudR) (k : nat) :
  ((k <= length nbr)%nat ->
     exists res, knn_gen d ref nbr k = Some res /\
                 Forall2 (fun r row => topk_contract (map (d r) nbr) k row) ref res) /\
  ((length nbr < k)%nat -> ref <> [] -> knn_gen d ref nbr k = None).
Proof.
  split.
  - intros Hk. exists (map (fun r => firstn k (sort_row (map (d r) nbr))) ref). split.
    + unfold knn_gen. apply all_some_map. intros r _. apply topk_some. now rewrite map_length.
    + induction ref; cbn; constructor; auto. apply topk_sort_contract. now rewrite map_length.
  - intros Hk Hne. destruct ref as [|r ref]; [congruence|]. unfold knn_gen. cbn.
    rewrite topk_none; auto. now rewrite map_length.
Qed.

(* sorting by the squared distance = sorting by the distance (norm 2 on the exact route) *)
Lemma Rleb_sqrt (a b : R) : 0 <= a -> 0 <= b -> Rleb (sqrt a) (sqrt b) = Rleb a b.
Proof.
  intros Ha Hb. destruct (Rleb a b) eqn:E.
  - apply Rleb_true. apply Rleb_true in E. now apply sqrt_le_1_alt.
  - apply Rleb_false. apply Rleb_false in E. apply sqrt_lt_1_alt. lra.
Qed.
Definition sqrt_fst (vj : R * nat) : R * nat := (sqrt (fst vj), snd vj).
Lemma sort_row_sqrt (row : vecR) : Forall (fun x => 0 <= x) row ->
  sort_row (map sqrt row) = map sqrt_fst (sort_row row).
Proof.
  intros Hpos. unfold sort_row.
  assert (E : indexed (map sqrt row) = map sqrt_fst (indexed row)).
  { unfold indexed. rewrite map_length. generalize (seq 0 (length row)). clear.
    induction row; intros [|j s]; cbn; auto. unfold sqrt_fst at 1; cbn. now rewrite IHrow. }
  rewrite E. apply isort_map_mono. intros [v j] [v' j'] H1 H2. unfold le_fst, sqrt_fst; cbn.
  rewrite Forall_forall in Hpos.
  apply Rleb_sqrt; apply Hpos; [apply In_indexed in H1 | apply In_indexed in H2];
    match goal with H : _ /\ ?x = nth _ _ _ |- In ?x _ => destruct H as [? ->]; now apply nth_In end.
Qed.
Lemma knn_norm2_via_squares (ref nbr : cloudR) k :
  knn_gen (Rdist L2) ref nbr k =
  option_map (map (map sqrt_fst)) (knn_gen (dmeas L2) ref nbr k).
Proof.
  unfold knn_gen. induction ref as [|r ref IH]; cbn; auto.
  rewrite IH. unfold topk at 1 3. rewrite !map_length.
  destruct (Nat.ltb (length nbr) k); cbn; auto.
  replace (map (Rdist L2 r) nbr) with (map sqrt (map (dmeas L2 r) nbr)) by (now rewrite map_map).
  rewrite sort_row_sqrt by (rewrite Forall_map; apply Forall_forall; intros; apply dmeas_nonneg).
  rewrite firstn_map.
  destruct (all_some (map (fun r0 => topk k (map (dmeas L2 r0) nbr)) ref)); reflexivity.
Qed.

(* ====================================================================== nbr_filter *)
Definition nbr_keep (o : ord) (pd : nat) (pts : cloudR) (nbr : Z) (r : R) (p : vecR) : bool :=
  (nbr <=? nbr_count o pd pts r p)%Z.

Lemma nbr_filter_eq o pd (pts : cloudR) nbr r :
  nbr_filter o pd pts nbr r = (filter (nbr_keep o pd pts nbr r) pts, map (nbr_keep o pd pts nbr r) pts).
Proof. unfold nbr_filter, nbr_mask. now rewrite mask_select_map. Qed.

(* the brute-force definition: number of OTHER points of the cloud within the radius (true norm) *)
Definition n_within (o : ord) (pd : nat) (r : R) (p : vecR) (others : cloudR) : nat :=
  length (filter (fun q => Rleb (Rpdist o pd p q) r) others).

Lemma within_Rleb o pd r (p q : vecR) : within o pd r p q = Rleb (Rpdist o pd p q) r.
Proof.
  destruct (Rleb (Rpdist o pd p q) r) eqn:E.
  - apply within_spec. now apply Rleb_true.
  - destruct (within o pd r p q) eqn:E2; auto. apply within_spec in E2. apply Rleb_false in E. lra.
Qed.

(* for EVERY position of the cloud (pts = pre ++ p :: post): p is kept iff at least [nbr] of the
   other points lie within the radius *)
Lemma nbr_keep_spec o pd (pre post : cloudR) (p : vecR) nbr r : 0 <= r ->
  nbr_keep o pd (pre ++ p :: post) nbr r p = true <-> (nbr <= Z.of_nat (n_within o pd r p (pre ++ post)))%Z.
Proof.
  intros Hr. unfold nbr_keep, nbr_count, n_within. rewrite Z.leb_le, countZ_filter.
  rewrite (filter_ext _ _ (within_Rleb o pd r p)).
  rewrite !filter_app. cbn [filter]. rewrite <- within_Rleb, within_self by auto.
  rewrite !app_length. cbn [length]. lia.
Qed.

Lemma nbr_keep_perm o pd (pts pts' : cloudR) nbr r p :
  Permutation pts pts' -> nbr_keep o pd pts nbr r p = nbr_keep o pd pts' nbr r p.
Proof.
  intros H. unfold nbr_keep, nbr_count. rewrite !countZ_filter.
  now rewrite (filter_perm_length _ _ _ H).
Qed.
Lemma nbr_filter_perm o pd (pts pts' : cloudR) nbr r :
  Permutation pts pts' -> Permutation (fst (nbr_filter o pd pts nbr r)) (fst (nbr_filter o pd pts' nbr r)).
Proof.
  intros H. rewrite !nbr_filter_eq. cbn [fst].
  rewrite (filter_ext _ _ (fun p => nbr_keep_perm o pd pts pts' nbr r p H)).
  now apply filter_perm.
Qed.

(* ====================================================================== knn_filter *)
Lemma vaddl_comm3 (a x y : vecR) : vaddl (vaddl a x) y = vaddl (vaddl a y) x.
Proof.
  unfold vaddl. revert x y. induction a as [|u a IH]; intros [|v x] [|w y]; cbn [map2]; auto.
  f_equal; [cbn; lra | apply IH].
Qed.
Lemma vsum_perm D (l l' : cloudR) : Permutation l l' -> vsum D l = vsum D l'.
Proof. intros H. unfold vsum. apply fold_left_perm; auto. apply vaddl_comm3. Qed.
Lemma vmean_perm D (l l' : cloudR) : Permutation l l' -> vmean D l = vmean D l'.
Proof. intros H. unfold vmean. now rewrite (vsum_perm D _ _ H), (Permutation_length H). Qed.

(* rank of x in l: number of elements with a strictly smaller key *)
Definition rank {A} (key : A -> R) (l : list A) (x : A) : nat :=
  length (filter (fun y => Rltb (key y) (key x)) l).
Lemma rank_perm {A} (key : A -> R) l l' x : Permutation l l' -> rank key l x = rank key l' x.
Proof. intros H. unfold rank. now apply filter_perm_length. Qed.

Lemma firstn_rank {A} (key : A -> R) (l : list A) :
  StronglySorted (fun a b => key a < key b) l ->
  forall n, firstn n l = filter (fun x => Nat.ltb (rank key l x) n) l.
Proof.
  induction 1 as [|a t Hs IH Ha]; intros n; [now destruct n|].
  rewrite Forall_forall in Ha.
  assert (Ra : rank key (a :: t) a = 0%nat).
  { unfold rank. cbn [filter]. replace (Rltb (key a) (key a)) with false by (symmetry; apply Rltb_false; lra).
    rewrite filter_none; auto. intros y Hy. apply Rltb_false. specialize (Ha y Hy). lra. }
  assert (Rt : forall x, In x t -> rank key (a :: t) x = S (rank key t x)).
  { intros x Hx. unfold rank. cbn [filter].
    replace (Rltb (key a) (key x)) with true by (symmetry; apply Rltb_true; auto). reflexivity. }
  destruct n as [|n].
  - cbn [firstn]. symmetry. apply filter_none. intros; apply Nat.ltb_ge; lia.
  - cbn [firstn filter]. rewrite Ra. cbn [Nat.ltb Nat.leb]. f_equal. rewrite IH.
    apply filter_ext_in. intros x Hx. rewrite (Rt x Hx). reflexivity.
Qed.

Lemma sorted_le_nodup_lt (l : vecR) : StronglySorted Rle l -> NoDup l -> StronglySorted Rlt l.
Proof.
  induction 1 as [|a t Hs IH Ha]; intros Hn; constructor; inversion Hn; subst; auto.
  rewrite Forall_forall in *. intros x Hx. specialize (Ha x Hx).
  destruct (Req_dec a x) as [->|]; [contradiction | lra].
Qed.
Lemma StronglySorted_unmap {A B} (R' : B -> B -> Prop) (f : A -> B) l :
  StronglySorted R' (map f l) -> StronglySorted (fun a b => R' (f a) (f b)) l.
Proof.
  induction l; cbn; intros H; constructor; inversion H; subst; auto.
  now rewrite Forall_map in H3.
Qed.

(* the points selected for p: gather(points, topk(k+1) indices of p's distance row) *)
Definition knn_sel (d : vecR -> vecR -> R) (pts : cloudR) (k : nat) (p : vecR) : cloudR :=
  map (fun j => nth j pts []) (map snd (firstn (S k) (sort_row (map (d p) pts)))).
(* brute force: the points with fewer than k+1 points strictly closer to p, i.e. p and its k nearest *)
Definition knn_nbhd (d : vecR -> vecR -> R) (k : nat) (pts : cloudR) (p : vecR) : cloudR :=
  filter (fun q => Nat.ltb (rank (d p) pts q) (S k)) pts.

Lemma knn_sel_nbhd d (pts : cloudR) k p : NoDup (map (d p) pts) ->
  Permutation (knn_sel d pts k p) (knn_nbhd d k pts p).
Proof.
  intros Hnd. set (row := map (d p) pts). set (s := sort_row row).
  set (P := map (fun vj : R * nat => nth (snd vj) pts []) s).
  assert (Hlen : length row = length pts) by apply map_length.
  assert (HP : Permutation P pts).
  { unfold P. rewrite <- (map_map snd (fun j => nth j pts [])).
    eapply perm_trans; [apply Permutation_map, sort_row_snd|]. rewrite Hlen. now rewrite map_nth_seq. }
  assert (Hkey : map (d p) P = map fst s).
  { unfold P. rewrite map_map. apply map_ext_in. intros [v j] Hin. cbn.
    apply (Permutation_in _ (sort_row_perm row)) in Hin. apply In_indexed in Hin. destruct Hin as [Hj ->].
    rewrite Hlen in Hj. unfold row. rewrite (nth_indep _ 0 (d p [])) by (now rewrite map_length).
    now rewrite map_nth. }
  assert (Hsorted : StronglySorted (fun a b => d p a < d p b) P).
  { apply (StronglySorted_unmap Rlt). apply sorted_le_nodup_lt.
    - rewrite Hkey. eapply StronglySorted_map; [|apply (isort_sorted le_fst); [apply le_fst_total | apply le_fst_trans]].
      intros a b. unfold le_fst; cbn. now rewrite Rleb_true.
    - eapply Permutation_NoDup; [apply Permutation_map, Permutation_sym, HP | exact Hnd]. }
  assert (Hsel : knn_sel d pts k p = firstn (S k) P).
  { unfold knn_sel, P. fold row. fold s. rewrite map_map. now rewrite firstn_map. }
  rewrite Hsel, (firstn_rank (d p) P Hsorted). unfold knn_nbhd.
  rewrite (filter_ext _ (fun q => Nat.ltb (rank (d p) pts q) (S k))).
  - now apply filter_perm.
  - intros q. now rewrite (rank_perm _ _ _ q HP).
Qed.

Lemma knn_sel_idx_lt (d : vecR -> vecR -> R) (pts : cloudR) k (p : vecR) i :
  In i (map snd (firstn (S k) (sort_row (map (d p) pts)))) -> (i < length pts)%nat.
Proof.
  intros H. apply in_map_iff in H. destruct H as [[v j] [<- Hin]]. cbn.
  apply In_firstn' in Hin. apply (Permutation_in _ (sort_row_perm _)) in Hin.
  apply In_indexed in Hin. rewrite map_length in Hin. tauto.
Qed.

(* no radius: the model returns, for every point, the mean of the gathered selection *)
Lemma knn_means_eq d (pts : cloudR) k :
  (S k <= length pts)%nat ->
  knn_means d pts k = Some (map (fun p => vmean (length p) (knn_sel d pts k p)) pts).
Proof.
  intros Hk. unfold knn_means.
  destruct (Nat.ltb_spec (length pts) (S k)); [lia|].
  apply all_some_map. intros p _.
  rewrite (gather_spec []); [reflexivity|]. intros i Hi. eapply knn_sel_idx_lt; eauto.
Qed.
Lemma knn_filter_gen_none d le_r (pts : cloudR) k : knn_filter_gen d le_r pts k None = knn_means d pts k.
Proof. unfold knn_filter_gen. destruct (knn_means d pts k); reflexivity. Qed.
Lemma knn_filter_none_eq d le_r (pts : cloudR) k :
  (S k <= length pts)%nat ->
  knn_filter_gen d le_r pts k None = Some (map (fun p => vmean (length p) (knn_sel d pts k p)) pts).
Proof. intros Hk. rewrite knn_filter_gen_none. now apply knn_means_eq. Qed.
Lemma knn_filter_raises d le_r (pts : cloudR) k r : (length pts < S k)%nat -> knn_filter_gen d le_r pts k r = None.
Proof.
  intros H. unfold knn_filter_gen, knn_means. destruct (Nat.ltb_spec (length pts) (S k)); [|lia].
  destruct r; reflexivity.
Qed.

Lemma Forall2_map_self {A B} (P : A -> B -> Prop) (f : A -> B) l : (forall x, P x (f x)) -> Forall2 P l (map f l).
Proof. intros H. induction l; cbn; constructor; auto. Qed.
(* ties allowed: every output row is the mean of a selection satisfying the topk contract *)
Lemma knn_filter_spec_ties d le_r (pts : cloudR) k : (S k <= length pts)%nat ->
  exists out, knn_filter_gen d le_r pts k None = Some out /\
    Forall2 (fun p o => exists res, topk_contract (map (d p) pts) (S k) res /\
                                    o = vmean (length p) (map (fun j => nth j pts []) (map snd res))) pts out.
Proof.
  intros Hk. eexists. split; [apply knn_filter_none_eq; auto|].
  apply Forall2_map_self. intros p.
  eexists. split; [apply topk_sort_contract; now rewrite map_length | reflexivity].
Qed.

(* no ties: every output row is the mean of the point and its k nearest neighbours *)
Lemma knn_filter_spec d le_r (pts : cloudR) k :
  (S k <= length pts)%nat -> (forall p, In p pts -> NoDup (map (d p) pts)) ->
  knn_filter_gen d le_r pts k None = Some (map (fun p => vmean (length p) (knn_nbhd d k pts p)) pts).
Proof.
  intros Hk Hnd. rewrite knn_filter_none_eq by auto. f_equal.
  apply map_ext_in. intros p Hp. apply vmean_perm, knn_sel_nbhd; auto.
Qed.
Lemma knn_nbhd_length d (pts : cloudR) k p : (S k <= length pts)%nat -> NoDup (map (d p) pts) ->
  length (knn_nbhd d k pts p) = S k.
Proof.
  intros Hk Hnd. rewrite <- (Permutation_length (knn_sel_nbhd d pts k p Hnd)).
  unfold knn_sel. rewrite !map_length. apply firstn_length_le. now rewrite sort_row_length, map_length.
Qed.
Lemma knn_nbhd_self d (pts : cloudR) k p : In p pts -> (forall q, d p p <= d p q) -> In p (knn_nbhd d k pts p).
Proof.
  intros Hp Hmin. unfold knn_nbhd. apply filter_In. split; auto. apply Nat.ltb_lt.
  unfold rank. rewrite filter_none; [cbn; lia|]. intros q _. apply Rltb_false. apply Hmin.
Qed.

Lemma knn_nbhd_perm d (pts pts' : cloudR) k p : Permutation pts pts' ->
  Permutation (knn_nbhd d k pts p) (knn_nbhd d k pts' p).
Proof.
  intros H. unfold knn_nbhd.
  rewrite (filter_ext _ (fun q => Nat.ltb (rank (d p) pts' q) (S k))).
  - now apply filter_perm.
  - intros q. now rewrite (rank_perm _ _ _ q H).
Qed.
(* permutation equivariance (no ties) *)
Lemma knn_filter_perm d le_r (pts pts' : cloudR) k :
  (S k <= length pts)%nat -> (forall p, In p pts -> NoDup (map (d p) pts)) -> Permutation pts pts' ->
  exists out out', knn_filter_gen d le_r pts k None = Some out /\
                   knn_filter_gen d le_r pts' k None = Some out' /\ Permutation out out'.
Proof.
  intros Hk Hnd HP. do 2 eexists. split; [apply knn_filter_spec; auto|]. split.
  - apply knn_filter_spec.
    + now rewrite <- (Permutation_length HP).
    + intros p Hp. eapply Permutation_NoDup; [apply Permutation_map, HP|].
      apply Hnd. eapply Permutation_in; [apply Permutation_sym, HP | exact Hp].
  - rewrite (map_ext _ (fun p => vmean (length p) (knn_nbhd d k pts' p))).
    + now apply Permutation_map.
    + intros p. apply vmean_perm, knn_nbhd_perm, HP.
Qed.

(* ---- the radius branch.  HISTORY: before fix c6053fe it indexed the FILTERED cloud with indices of
   the unfiltered one: refuted on the old model (evaluated over Q; the same input raised on /repo);
   the current model returns what the property asks for *)
Lemma knn_filter_radius_refuted :
  exists (pts : list (list Q)) (k : nat) (r : Q),
    knn_filter_old (NF:=NumQ) L1 1 pts k (Some r) = None /\
    knn_filter (NF:=NumQ) L1 1 pts k (Some r) = Some [[Qmake 1 2]; [Qmake 1 2]].
Proof. exists [[100%Q]; [0%Q]; [1%Q]], 1%nat, 5%Q. split; vm_compute; reflexivity. Qed.
(* when every retained point preceded every removed one the indices coincided: the docstring cloud *)
Example knn_filter_radius_docstring :
  knn_filter_old (NF:=NumQ) L2 3 [[0;0;0];[1;0;0];[0;1;0];[0;1;1];[10;1;1];[10;1;10]]%Q 2 (Some 5%Q)
  = knn_filter (NF:=NumQ) L2 3 [[0;0;0];[1;0;0];[0;1;0];[0;1;1];[10;1;1];[10;1;10]]%Q 2 (Some 5%Q).
Proof. vm_compute. reflexivity. Qed.

Lemma countZ_map {A B} (f : B -> bool) (g : A -> B) l : countZ f (map g l) = countZ (fun x => f (g x)) l.
Proof. unfold countZ. induction l; cbn; auto. now rewrite IHl. Qed.

(* the radius branch: the retained points are those with at least k others within the radius
   (nbr_keep_spec), each replaced by the mean of itself and its k nearest *)
Lemma knn_filter_radius_spec o pd (pts : cloudR) k r :
  (S k <= length pts)%nat -> (forall p, In p pts -> NoDup (map (pdist o pd p) pts)) ->
  knn_filter o pd pts k (Some r) =
  Some (map (fun p => vmean (length p) (knn_nbhd (pdist o pd) k pts p))
            (filter (nbr_keep o pd pts (Z.of_nat k) r) pts)).
Proof.
  intros Hk Hnd. unfold knn_filter, knn_filter_gen.
  rewrite <- (knn_filter_gen_none (pdist o pd) (meas_le o)), knn_filter_spec by auto. f_equal.
  rewrite (map_ext _ (nbr_keep o pd pts (Z.of_nat k) r)).
  - apply mask_select_map2.
  - intros p. unfold nbr_keep, nbr_count. now rewrite countZ_map.
Qed.

(* rank / no-tie hypotheses on the true norm instead of the measure *)
Lemma Rltb_sqrt (a b : R) : 0 <= a -> 0 <= b -> Rltb (sqrt a) (sqrt b) = Rltb a b.
Proof.
  intros Ha Hb. destruct (Rltb a b) eqn:E.
  - apply Rltb_true. apply Rltb_true in E. apply sqrt_lt_1_alt. lra.
  - apply Rltb_false. apply Rltb_false in E. now apply sqrt_le_1_alt.
Qed.
Lemma Rpdist_pdist o pd (p q : vecR) :
  Rpdist o pd p q = match o with L2 => sqrt (pdist o pd p q) | _ => pdist o pd p q end.
Proof. unfold Rpdist, Rdist, pdist. destruct o; reflexivity. Qed.
Lemma knn_nbhd_Rpdist o pd k (pts : cloudR) p :
  knn_nbhd (Rpdist o pd) k pts p = knn_nbhd (pdist o pd) k pts p.
Proof.
  unfold knn_nbhd. apply filter_ext. intros q. f_equal. unfold rank. f_equal.
  apply filter_ext. intros y. rewrite !Rpdist_pdist. destruct o; auto.
  apply Rltb_sqrt; apply dmeas_nonneg.
Qed.
Lemma nodup_Rpdist o pd (pts : cloudR) p :
  NoDup (map (Rpdist o pd p) pts) -> NoDup (map (pdist o pd p) pts).
Proof.
  destruct o; try (intros H; exact H).
  intros H. apply (NoDup_map_inv sqrt). rewrite map_map.
  erewrite map_ext; [exact H|]. intros q. now rewrite Rpdist_pdist.
Qed.

(* ====================================================================== voxel_filter *)
(* --- lexicographic order on integer rows *)
Definition lex_lt (a b : list Z) : Prop := lexZ a b = Lt.
Definition lZ_eqb (a b : list Z) : bool := match lexZ a b with Eq => true | _ => false end.
Lemma lexZ_eq : forall a b, lexZ a b = Eq <-> a = b.
Proof.
  induction a as [|x a IH]; intros [|y b]; cbn; split; intros H; try discriminate; auto.
  - destruct (Z.compare_spec x y); try discriminate. subst. f_equal. now apply IH.
  - inversion H; subst. rewrite Z.compare_refl. now apply IH.
Qed.
Lemma lZ_eqb_true a b : lZ_eqb a b = true <-> a = b.
Proof. unfold lZ_eqb. rewrite <- lexZ_eq. destruct (lexZ a b); split; congruence. Qed.
Lemma lex_lt_irrefl a : ~ lex_lt a a.
Proof. unfold lex_lt. rewrite (proj2 (lexZ_eq a a) eq_refl). discriminate. Qed.
Lemma lex_lt_trans : forall a b c, lex_lt a b -> lex_lt b c -> lex_lt a c.
Proof.
  unfold lex_lt. induction a as [|x a IH]; intros [|y b] [|z c]; cbn; try discriminate; auto.
  destruct (Z.compare_spec x y), (Z.compare_spec y z); try discriminate; subst; intros H1 H2.
  - rewrite Z.compare_refl. eauto.
  - now rewrite (proj2 (Z.compare_lt_iff _ _) H0).
  - now rewrite (proj2 (Z.compare_lt_iff _ _) H).
  - now rewrite (proj2 (Z.compare_lt_iff _ _) (Z.lt_trans _ _ _ H H0)).
Qed.
Lemma lexZ_antisym : forall a b, lexZ a b = Gt -> lexZ b a = Lt.
Proof.
  induction a as [|x a IH]; intros [|y b]; cbn; try discriminate; auto.
  rewrite (Z.compare_antisym x y). destruct (Z.compare_spec x y); cbn; try discriminate; auto.
Qed.

Lemma sorted_strict_nodup {A} (R : A -> A -> Prop) l :
  (forall a, ~ R a a) -> StronglySorted R l -> NoDup l.
Proof.
  intros Hirr. induction 1; constructor; auto.
  intros Hin. rewrite Forall_forall in H0. exact (Hirr a (H0 a Hin)).
Qed.
Lemma sorted_strict_unique {A} (R : A -> A -> Prop) :
  (forall a, ~ R a a) -> (forall a b c, R a b -> R b c -> R a c) ->
  forall l1 l2, StronglySorted R l1 -> StronglySorted R l2 -> (forall x, In x l1 <-> In x l2) -> l1 = l2.
Proof.
  intros Hirr Htr. induction l1 as [|a t1 IH]; intros [|b t2] H1 H2 Heq; auto.
  - exfalso. apply (proj2 (Heq b)). now left.
  - exfalso. apply (proj1 (Heq a)). now left.
  - inversion H1 as [|? ? Hs1 Ha]; inversion H2 as [|? ? Hs2 Hb]; subst.
    rewrite Forall_forall in Ha, Hb.
    assert (a = b).
    { destruct (proj1 (Heq a) (or_introl eq_refl)) as [|Hin]; auto.
      destruct (proj2 (Heq b) (or_introl eq_refl)) as [|Hin']; auto.
      exfalso. apply (Hirr a). eapply Htr; [apply Ha, Hin' | apply Hb, Hin]. }
    subst b. f_equal. apply IH; auto. intros x. split; intros Hx.
    + destruct (proj1 (Heq x) (or_intror Hx)) as [->|]; auto. exfalso. exact (Hirr _ (Ha _ Hx)).
    + destruct (proj2 (Heq x) (or_intror Hx)) as [->|]; auto. exfalso. exact (Hirr _ (Hb _ Hx)).
Qed.

(* --- what torch.unique(dim=-2, return_inverse=True) is assumed to return *)
Definition uniq_contract (unique : list (list Z) -> list (list Z) * list nat) : Prop :=
  forall rows, StronglySorted lex_lt (fst (unique rows)) /\
               (forall k, In k (fst (unique rows)) <-> In k rows) /\
               Forall2 (fun i r => nth_error (fst (unique rows)) i = Some r) (snd (unique rows)) rows.

(* the executable instance satisfies it *)
Lemma uinsert_in x l k : In k (uinsert x l) <-> k = x \/ In k l.
Proof.
  induction l as [|y l IH]; cbn; [intuition|].
  destruct (lexZ x y) eqn:E; cbn.
  - apply lexZ_eq in E. subst. intuition.
  - intuition.
  - rewrite IH. intuition.
Qed.
Lemma uinsert_sorted x l : StronglySorted lex_lt l -> StronglySorted lex_lt (uinsert x l).
Proof.
  induction 1 as [|y l Hs IH Hy]; cbn; [repeat constructor|].
  destruct (lexZ x y) eqn:E.
  - now constructor.
  - constructor; [now constructor|]. constructor; auto.
    eapply Forall_impl; [|exact Hy]. intros z Hz. eapply lex_lt_trans; eauto.
  - constructor; auto. apply Forall_forall. intros z Hz. apply uinsert_in in Hz.
    destruct Hz as [->|Hz]; [now apply lexZ_antisym | rewrite Forall_forall in Hy; auto].
Qed.
Lemma ukeys_in rows k : In k (ukeys rows) <-> In k rows.
Proof. induction rows; cbn; [tauto|]. rewrite uinsert_in, IHrows. intuition. Qed.
Lemma ukeys_sorted rows : StronglySorted lex_lt (ukeys rows).
Proof. induction rows; cbn; [constructor | now apply uinsert_sorted]. Qed.
Lemma index_of_spec x l : In x l -> nth_error l (index_of x l) = Some x.
Proof.
  induction l as [|y l IH]; cbn; [tauto|]. intros H.
  destruct (lexZ x y) eqn:E; cbn.
  - apply lexZ_eq in E. now subst.
  - apply IH. destruct H as [->|]; auto. rewrite (proj2 (lexZ_eq x x) eq_refl) in E. discriminate.
  - apply IH. destruct H as [->|]; auto. rewrite (proj2 (lexZ_eq x x) eq_refl) in E. discriminate.
Qed.
Lemma unique_sort_contract : uniq_contract unique_sort.
Proof.
  intros rows. unfold unique_sort; cbn [fst snd]. split; [apply ukeys_sorted|]. split; [apply ukeys_in|].
  assert (H : forall r, In r rows -> In r (ukeys rows)) by (intros; now apply ukeys_in).
  revert H. generalize (ukeys rows) as ks. induction rows; intros ks H; cbn; constructor.
  - apply index_of_spec, H. now left.
  - apply IHrows. intros; apply H; now right.
Qed.

Lemma Forall2_len {A B} (P : A -> B -> Prop) l l' : Forall2 P l l' -> length l = length l'.
Proof. induction 1; cbn; auto. Qed.
(* --- index_add / counts *)
Fixpoint sel {A} (k : nat) (inv : list nat) (rows : list A) : list A :=
  match inv, rows with
  | i :: inv', r :: rows' => if Nat.eqb i k then r :: sel k inv' rows' else sel k inv' rows'
  | _, _ => []
  end.
Lemma index_add_length : forall inv (rows acc : cloudR), length (index_add acc inv rows) = length acc.
Proof. induction inv; intros [|r rows] acc; cbn; auto. now rewrite IHinv, upd_length. Qed.
Lemma nth_index_add : forall inv (rows acc : cloudR) k, (k < length acc)%nat ->
  nth k (index_add acc inv rows) [] = fold_left vaddl (sel k inv rows) (nth k acc []).
Proof.
  induction inv as [|i inv IH]; intros [|r rows] acc k Hk; cbn [index_add sel fold_left]; auto.
  rewrite IH by (now rewrite upd_length). rewrite nth_upd.
  destruct (Nat.eqb i k); cbn [fold_left]; auto.
  destruct (Nat.ltb_spec k (length acc)); [reflexivity | lia].
Qed.
Lemma index_count_length : forall inv (acc : vecR), length (index_count acc inv) = length acc.
Proof. induction inv; intros acc; cbn; auto. now rewrite IHinv, upd_length. Qed.
Lemma nth_index_count {A} : forall inv (rows : list A) (acc : vecR) k, (k < length acc)%nat -> length rows = length inv ->
  nth k (index_count acc inv) 0 = nth k acc 0 + INR (length (sel k inv rows)).
Proof.
  induction inv as [|i inv IH]; intros [|r rows] acc k Hk Hl; try discriminate; cbn [index_count sel length].
  - cbn. lra.
  - rewrite (IH rows) by (rewrite ?upd_length; cbn in Hl; lia). rewrite nth_upd.
    destruct (Nat.eqb i k).
    + destruct (Nat.ltb_spec k (length acc)); [|lia]. cbn [length]. rewrite S_INR. cbn. lra.
    + reflexivity.
Qed.

Lemma sel_filter {A} (keys : list (list Z)) (k : nat) (g : A -> list Z) :
  NoDup keys -> (k < length keys)%nat ->
  forall inv (pts : list A), Forall2 (fun i r => nth_error keys i = Some r) inv (map g pts) ->
  sel k inv pts = filter (fun p => lZ_eqb (g p) (nth k keys [])) pts.
Proof.
  intros Hnd Hk. induction inv as [|i inv IH]; intros [|p pts] H; inversion H; subst; cbn; auto.
  rewrite IH by auto.
  assert (Hkk : nth_error keys k = Some (nth k keys [])) by (now apply nth_error_nth').
  destruct (Nat.eqb_spec i k) as [->|Hne].
  - replace (lZ_eqb (g p) (nth k keys [])) with true; auto.
    symmetry. apply lZ_eqb_true. congruence.
  - replace (lZ_eqb (g p) (nth k keys [])) with false; auto.
    symmetry. destruct (lZ_eqb (g p) (nth k keys [])) eqn:E; auto. apply lZ_eqb_true in E.
    exfalso. apply Hne. eapply (proj1 (NoDup_nth_error keys) Hnd); [|congruence].
    apply nth_error_Some. congruence.
Qed.

Lemma nth_map2 {A B C} (f : A -> B -> C) da db dc : forall a b k, (k < length a)%nat -> (k < length b)%nat ->
  nth k (map2 f a b) dc = f (nth k a da) (nth k b db).
Proof. induction a; intros [|y b] [|k] Ha Hb; cbn in *; try lia; auto. apply IHa; lia. Qed.
Lemma nth_repeat' {A} (x d : A) n k : (k < n)%nat -> nth k (repeat x n) d = x.
Proof. revert k. induction n; intros [|k] H; cbn; try lia; auto. apply IHn. lia. Qed.

(* members of a voxel (brute force): the rows whose integer voxel index is [key] *)
Definition vox_minp (pts : cloudR) (voxel : vecR) : vecR := col_min (map (firstn (length voxel)) pts).
Definition vox_of (pts : cloudR) (voxel : vecR) (p : vecR) : list Z := vox_index (vox_minp pts voxel) voxel p.
Definition vox_members (pts : cloudR) (voxel : vecR) (key : list Z) : cloudR :=
  filter (fun p => lZ_eqb (vox_of pts voxel p) key) pts.

Lemma voxel_ok_true (pts : cloudR) (voxel : vecR) :
  pts <> [] -> Forall (fun v => v <> 0) voxel -> voxel_ok pts voxel = true.
Proof.
  intros Hne Hv. unfold voxel_ok. destruct pts; [congruence|].
  apply forallb_forall. intros v Hin. rewrite Forall_forall in Hv. cbn.
  apply negb_true_iff. apply Reqb_false. auto.
Qed.

(* one output row per occupied voxel, in the order of [unique]; each row is the centroid (all D
   channels) of the points whose voxel index is that key *)
Lemma voxel_filter_spec unique (Hu : uniq_contract unique) (pts : cloudR) (voxel : vecR) :
  pts <> [] -> Forall (fun v => v <> 0) voxel ->
  let keys := fst (unique (map (vox_of pts voxel) pts)) in
  voxel_filter unique pts voxel =
    Some (map (fun key => vmean (length (hd [] pts)) (vox_members pts voxel key)) keys) /\
  StronglySorted lex_lt keys /\
  (forall key, In key keys <-> exists p, In p pts /\ vox_of pts voxel p = key).
Proof.
  intros Hne Hv keys.
  destruct (Hu (map (vox_of pts voxel) pts)) as [Hs [Hin Hinv]]. fold keys in Hs, Hin, Hinv.
  split; [|split; auto].
  2:{ intros key. rewrite Hin, in_map_iff. split; intros [p [H1 H2]]; exists p; auto. }
  unfold voxel_filter. rewrite (voxel_ok_true pts voxel Hne Hv). cbn [negb].
  change (vox_keys_of pts voxel) with (map (vox_of pts voxel) pts).
  destruct (unique (map (vox_of pts voxel) pts)) as [ks inv] eqn:E. cbn [fst snd] in *. subst keys.
  assert (Hnd : NoDup ks) by (eapply sorted_strict_nodup; [apply lex_lt_irrefl | exact Hs]).
  assert (Hlen : length inv = length pts) by (apply Forall2_len in Hinv; now rewrite map_length in Hinv).
  set (D := length (hd [] pts)). f_equal.
  apply (nth_ext _ _ [] []).
  - rewrite map2_length, index_add_length, index_count_length, !repeat_length, map_length. lia.
  - intros k Hk. rewrite map2_length, index_add_length, index_count_length, !repeat_length in Hk.
    assert (Hk' : (k < length ks)%nat) by lia.
    rewrite (nth_map2 _ [] 0 []) by (rewrite ?index_add_length, ?index_count_length, repeat_length; lia).
    rewrite nth_index_add by (now rewrite repeat_length).
    rewrite (nth_index_count inv pts) by (rewrite ?repeat_length; auto).
    rewrite !nth_repeat' by auto.
    rewrite (sel_filter ks k (vox_of pts voxel) Hnd Hk' inv pts Hinv).
    rewrite (nth_indep _ [] (vmean D (vox_members pts voxel []))) by (now rewrite map_length).
    rewrite (map_nth (fun key => vmean D (vox_members pts voxel key))).
    unfold vmean, vox_members, vsum, ofN. rewrite <- INR_IZR_INZ. cbn [zero NumR]. now rewrite Rplus_0_l.
Qed.

(* --- permutation invariance: the centroid output does not depend on the order of the points *)
Lemma map2_minF_comm (x y : vecR) : map2 minF x y = map2 minF y x.
Proof. revert y. induction x; intros [|b y]; cbn; auto. rewrite IHx, !minF_R, Rmin_comm. reflexivity. Qed.
Lemma map2_minF_comm3 (a x y : vecR) : map2 minF (map2 minF a x) y = map2 minF (map2 minF a y) x.
Proof.
  revert x y. induction a as [|u a IH]; intros [|v x] [|w y]; cbn [map2]; auto.
  f_equal; [|apply IH]. rewrite !minF_R. rewrite <- !Rmin_assoc. f_equal. apply Rmin_comm.
Qed.
Lemma col_min_perm (l l' : cloudR) : Permutation l l' -> col_min l = col_min l'.
Proof.
  induction 1; cbn [col_min fold_left].
  - reflexivity.
  - apply fold_left_perm; auto. apply map2_minF_comm3.
  - now rewrite (map2_minF_comm y x).
  - congruence.
Qed.
Lemma vox_of_perm (pts pts' : cloudR) voxel p : Permutation pts pts' -> vox_of pts voxel p = vox_of pts' voxel p.
Proof. intros H. unfold vox_of, vox_minp. now rewrite (col_min_perm _ _ (Permutation_map _ H)). Qed.
Lemma vox_members_perm (pts pts' : cloudR) voxel key : Permutation pts pts' ->
  Permutation (vox_members pts voxel key) (vox_members pts' voxel key).
Proof.
  intros H. unfold vox_members.
  rewrite (filter_ext _ (fun p => lZ_eqb (vox_of pts' voxel p) key)).
  - now apply filter_perm.
  - intros p. now rewrite (vox_of_perm _ _ voxel p H).
Qed.
Lemma hd_length_rect D (pts : cloudR) : pts <> [] -> Forall (fun p => length p = D) pts -> length (hd [] pts) = D.
Proof. destruct pts; [congruence|]. intros _ H. now inversion H. Qed.

Lemma voxel_filter_perm unique (Hu : uniq_contract unique) (pts pts' : cloudR) (voxel : vecR) D :
  pts <> [] -> Forall (fun v => v <> 0) voxel -> Forall (fun p => length p = D) pts ->
  Permutation pts pts' -> voxel_filter unique pts voxel = voxel_filter unique pts' voxel.
Proof.
  intros Hne Hv Hrect HP.
  assert (Hne' : pts' <> []) by (intros ->; apply Permutation_sym, Permutation_nil in HP; auto).
  assert (Hrect' : Forall (fun p => length p = D) pts') by (eapply Permutation_Forall; eauto).
  destruct (voxel_filter_spec unique Hu pts voxel Hne Hv) as [E [Hs Hin]].
  destruct (voxel_filter_spec unique Hu pts' voxel Hne' Hv) as [E' [Hs' Hin']].
  rewrite E, E'. rewrite !(hd_length_rect D) by auto. f_equal.
  assert (Hk : fst (unique (map (vox_of pts voxel) pts)) = fst (unique (map (vox_of pts' voxel) pts'))).
  { apply (sorted_strict_unique lex_lt lex_lt_irrefl lex_lt_trans); auto.
    intros key. rewrite Hin, Hin'. split; intros [p [H1 H2]]; exists p; split.
    - eapply Permutation_in; eauto.
    - now rewrite <- (vox_of_perm _ _ voxel p HP).
    - eapply Permutation_in; [apply Permutation_sym|]; eauto.
    - now rewrite (vox_of_perm _ _ voxel p HP). }
  rewrite <- Hk. apply map_ext. intros key. apply vmean_perm, vox_members_perm, HP.
Qed.

(* meaning of the centroid: channel j of vsum is the sum of channel j over the rows *)
Lemma nth_vaddl (a b : vecR) j : length a = length b -> nth j (vaddl a b) 0 = nth j a 0 + nth j b 0.
Proof.
  unfold vaddl. revert b j. induction a; intros [|y b] [|j] H; cbn in *; try discriminate; try lra; auto.
Qed.
Lemma vaddl_length (a b : vecR) : length a = length b -> length (vaddl a b) = length a.
Proof. intros H. unfold vaddl. rewrite map2_length. lia. Qed.
Lemma nth_vsum D (rows : cloudR) j : Forall (fun p => length p = D) rows ->
  nth j (vsum D rows) 0 = fold_right Rplus 0 (map (fun p => nth j p 0) rows).
Proof.
  intros H. unfold vsum.
  assert (G : forall acc : vecR, length acc = D ->
            nth j (fold_left vaddl rows acc) 0 = nth j acc 0 + fold_right Rplus 0 (map (fun p => nth j p 0) rows)).
  { induction H as [|p rows Hp Hr IH]; intros acc Ha; cbn; [lra|].
    rewrite IH by (rewrite vaddl_length; congruence). rewrite nth_vaddl by congruence. lra. }
  rewrite G by apply repeat_length. unfold vzeros.
  replace (nth j (repeat zero D) 0) with 0; [lra|].
  clear. revert j. induction D; intros [|j]; cbn; auto.
Qed.

(* HISTORY: the random=True branch before fix 104c370 (two squeeze() calls), refuted for a single
   occupied voxel; the current model returns the (1 x D) result *)
Lemma voxel_random_single_refuted :
  (exists (pts : list (list Q)) (voxel : list Q), length pts = 1%nat /\
      voxel_filter_random_old (NF:=NumQ) unique_sort argsort_ins [0%nat] pts voxel = VRaise /\
      voxel_filter_random (NF:=NumQ) unique_sort argsort_ins [0%nat] pts voxel = Some pts) /\
  (exists (pts : list (list Q)) (voxel : list Q) r, length pts = 2%nat /\
      voxel_filter_random_old (NF:=NumQ) unique_sort argsort_ins [1%nat] pts voxel = VRow r /\
      voxel_filter_random (NF:=NumQ) unique_sort argsort_ins [1%nat] pts voxel = Some [r]).
Proof.
  split.
  - exists [[1%Q; 2%Q; 3%Q]], [1%Q; 1%Q; 1%Q]. split; [reflexivity | split; vm_compute; reflexivity].
  - exists [[1%Q; 2%Q]; [2%Q; 3%Q]], [5%Q], [2%Q; 3%Q]. split; [reflexivity | split; vm_compute; reflexivity].
Qed.
Example voxel_random_example :
  voxel_filter_random (NF:=NumQ) unique_sort argsort_ins [1%nat; 0%nat; 0%nat]
    [[1;2];[4;5];[7;8];[10;11];[13;14]]%Q [5%Q] = Some [[4;5];[7;8];[13;14]]%Q.
Proof. vm_compute. reflexivity. Qed.

(* ====================================================================== random_filter *)
Lemma random_filter_spec (perm : list nat) (pts : cloudR) num :
  Permutation perm (seq 0 (length pts)) ->
  ((num <= length pts)%nat ->
     random_filter perm pts num = Some (map (fun i => nth i pts []) (firstn num perm)) /\
     NoDup (firstn num perm) /\ length (firstn num perm) = num /\
     (forall i, In i (firstn num perm) -> (i < length pts)%nat)) /\
  ((length pts < num)%nat -> random_filter perm pts num = None).
Proof.
  intros HP. split.
  - intros Hn. unfold random_filter. destruct (Nat.ltb_spec (length pts) num); [lia|].
    assert (Hlt : forall i, In i (firstn num perm) -> (i < length pts)%nat).
    { intros i Hi. apply In_firstn' in Hi. apply (Permutation_in _ HP) in Hi. apply in_seq in Hi. lia. }
    split; [now apply gather_spec|]. split; [|split; auto].
    + apply NoDup_firstn. eapply Permutation_NoDup; [apply Permutation_sym, HP | apply seq_NoDup].
    + apply firstn_length_le. rewrite (Permutation_length HP), seq_length. exact Hn.
  - intros Hn. unfold random_filter. destruct (Nat.ltb_spec (length pts) num); [reflexivity | lia].
Qed.
(* equivariance: sampling the permuted cloud with RNG output [perm] is sampling the original cloud
   with RNG output sigma o perm, again a permutation *)
Lemma random_filter_equiv (sigma perm : list nat) (pts : cloudR) num :
  Permutation sigma (seq 0 (length pts)) -> Permutation perm (seq 0 (length pts)) ->
  random_filter perm (map (fun i => nth i pts []) sigma) num =
    random_filter (map (fun i => nth i sigma 0%nat) perm) pts num /\
  Permutation (map (fun i => nth i sigma 0%nat) perm) (seq 0 (length pts)).
Proof.
  intros Hs Hp.
  assert (Hls : length sigma = length pts) by (rewrite (Permutation_length Hs); apply seq_length).
  assert (HP2 : Permutation (map (fun i => nth i sigma 0%nat) perm) (seq 0 (length pts))).
  { eapply perm_trans; [apply Permutation_map, Hp|]. rewrite <- Hls, map_nth_seq, Hls. exact Hs. }
  split; auto.
  destruct (Nat.le_gt_cases num (length pts)) as [Hn|Hn].
  - assert (Hp' : Permutation perm (seq 0 (length (map (fun i => nth i pts []) sigma))))
      by (now rewrite map_length, Hls).
    destruct (random_filter_spec perm _ num Hp') as [H1 _].
    destruct (random_filter_spec _ pts num HP2) as [H2 _].
    rewrite map_length, Hls in H1. destruct (H1 Hn) as [E1 [_ [_ Hlt]]]. destruct (H2 Hn) as [E2 _].
    rewrite E1, E2. f_equal. rewrite firstn_map, map_map. apply map_ext_in. intros i Hi.
    specialize (Hlt i Hi).
    rewrite (nth_indep _ [] (nth 0 pts [])) by (now rewrite map_length, Hls).
    now rewrite (map_nth (fun i => nth i pts [])).
  - unfold random_filter. rewrite map_length, Hls.
    destruct (Nat.ltb_spec (length pts) num); [reflexivity | lia].
Qed.

(* ====================================================================== camera helpers *)
Lemma pm_R (w : R) : pm w * Rabs w = w.
Proof.
  unfold pm; cbn. unfold Rltb. destruct (Rlt_dec w 0).
  - rewrite Rabs_left by auto. lra.
  - rewrite Rabs_right by lra. lra.
Qed.
Lemma homo2cart_den tiny (w : R) : tiny <= Rabs w -> (pm w * maxF (absF w) tiny)%num = w.
Proof.
  intros H. rewrite absF_R, maxF_R, Rmax_left by auto. apply pm_R.
Qed.

Lemma homo_cart_roundtrip tiny (p : vecR) : 0 < tiny <= 1 -> homo2cart tiny (cart2homo p) = p.
Proof.
  intros Ht. unfold homo2cart, cart2homo. rewrite last_last, removelast_last.
  rewrite homo2cart_den by (cbn; rewrite Rabs_R1; lra).
  rewrite <- (map_id p) at 2. apply map_ext. intros x. cbn. field.
Qed.

Lemma homo2cart3 tiny (a b w : R) : tiny <= Rabs w -> homo2cart tiny [a; b; w] = [a / w; b / w].
Proof. intros H. unfold homo2cart. cbn [List.last removelast map]. now rewrite homo2cart_den. Qed.

Lemma point2pixel1_pinhole tiny fx fy cx cy (x y z : R) : tiny <= Rabs z ->
  point2pixel1 tiny (pinhole fx fy cx cy) None [x; y; z] = [(fx * x + cx * z) / z; (fy * y + cy * z) / z].
Proof.
  intros H. unfold point2pixel1, extr_act, matvec, pinhole, dot, sumF. cbn [map map2 fold_right].
  replace (fx * x + (zero * y + (cx * z + zero)))%num with (fx * x + cx * z) by (cbn; ring).
  replace (zero * x + (fy * y + (cy * z + zero)))%num with (fy * y + cy * z) by (cbn; ring).
  replace (zero * x + (zero * y + (one * z + zero)))%num with z by (cbn; ring).
  now apply homo2cart3.
Qed.

Lemma tiny_nonzero tiny (z : R) : 0 < tiny -> tiny <= Rabs z -> z <> 0.
Proof. intros Ht H ->. rewrite Rabs_R0 in H. lra. Qed.

(* pixel -> point -> pixel *)
Lemma pixel_point_pixel tiny fx fy cx cy (u v z : R) :
  0 < tiny -> tiny <= Rabs z -> fx <> 0 -> fy <> 0 ->
  point2pixel1 tiny (pinhole fx fy cx cy) None (pixel2point1 (pinhole fx fy cx cy) [u; v] z) = [u; v].
Proof.
  intros Ht Hz Hfx Hfy. pose proof (tiny_nonzero tiny z Ht Hz) as Hz0.
  unfold pixel2point1, kij, pinhole. cbn [nth]. fold (pinhole fx fy cx cy).
  rewrite point2pixel1_pinhole by auto. cbn. f_equal; [|f_equal]; field; auto.
Qed.
(* point -> pixel -> point (depth = the point's z) *)
Lemma point_pixel_point tiny fx fy cx cy (x y z : R) :
  0 < tiny -> tiny <= Rabs z -> fx <> 0 -> fy <> 0 ->
  pixel2point1 (pinhole fx fy cx cy) (point2pixel1 tiny (pinhole fx fy cx cy) None [x; y; z]) z = [x; y; z].
Proof.
  intros Ht Hz Hfx Hfy. pose proof (tiny_nonzero tiny z Ht Hz) as Hz0.
  rewrite point2pixel1_pinhole by auto.
  unfold pixel2point1, kij, pinhole. cbn. f_equal; [|f_equal]; field; auto.
Qed.
Lemma pixel2point_some fx fy cx cy (pix : cloudR) (depth : vecR) : fx <> 0 -> fy <> 0 ->
  pixel2point (pinhole fx fy cx cy) pix depth = Some (map2 (pixel2point1 (pinhole fx fy cx cy)) pix depth).
Proof.
  intros Hfx Hfy. unfold pixel2point, kij, pinhole. cbn [nth].
  replace (fx =? zero)%num with false by (symmetry; apply Reqb_false; auto).
  replace (fy =? zero)%num with false by (symmetry; apply Reqb_false; auto). reflexivity.
Qed.
Lemma pixel2point_raises fx fy cx cy (pix : cloudR) (depth : vecR) : fx = 0 \/ fy = 0 ->
  pixel2point (pinhole fx fy cx cy) pix depth = None.
Proof.
  intros H. unfold pixel2point, kij, pinhole. cbn [nth].
  destruct H as [-> | ->].
  - replace (0 =? zero)%num with true by (symmetry; apply Reqb_true; reflexivity). reflexivity.
  - replace (0 =? zero)%num with true by (symmetry; apply Reqb_true; reflexivity). now rewrite orb_true_r.
Qed.

(* batched versions *)
Lemma pixel_point_inverse tiny fx fy cx cy : 0 < tiny -> fx <> 0 -> fy <> 0 ->
  let K := pinhole fx fy cx cy in
  (forall (pix : cloudR) (depth : vecR),
      Forall (fun px => length px = 2%nat) pix -> length depth = length pix ->
      Forall (fun z => tiny <= Rabs z) depth ->
      exists pts, pixel2point K pix depth = Some pts /\ point2pixel tiny K None pts = pix) /\
  (forall pts : cloudR,
      Forall (fun p => length p = 3%nat /\ tiny <= Rabs (nth 2 p 0)) pts ->
      pixel2point K (point2pixel tiny K None pts) (map (fun p => nth 2 p 0) pts) = Some pts).
Proof.
  intros Ht Hfx Hfy K. split.
  - intros pix depth Hpix Hlen Hd. eexists. split; [now apply pixel2point_some|].
    revert depth Hlen Hd. induction Hpix as [|px pix Hpx _ IH]; intros [|z depth] Hlen Hd; try discriminate; auto.
    inversion Hd; subst. cbn [map2 point2pixel map]. unfold point2pixel in IH. rewrite IH by (cbn in Hlen; auto; lia).
    destruct px as [|u [|v [|]]]; try discriminate. unfold K. now rewrite pixel_point_pixel.
  - intros pts Hp. unfold K. rewrite pixel2point_some by auto. f_equal.
    induction Hp as [|p pts [Hl Hz] _ IH]; auto.
    cbn [point2pixel map map2]. unfold point2pixel in IH. rewrite IH.
    destruct p as [|x [|y [|z [|]]]]; try discriminate. cbn [nth] in *. now rewrite point_pixel_point.
Qed.

(* reprojection error *)
Lemma vsubl_self (l : vecR) : vsubl l l = map (fun _ => 0) l.
Proof. unfold vsubl. rewrite map2_map_same. apply map_ext. intros; cbn; lra. Qed.
Lemma vsubl_zero (a b : vecR) : length a = length b -> Forall (fun x => x = 0) (vsubl a b) -> b = a.
Proof.
  unfold vsubl. revert b. induction a; intros [|y b] Hl H; cbn in *; try discriminate; auto.
  inversion H; subst. f_equal; [cbn in *; lra | apply IHa; auto].
Qed.
Lemma sumsq_zero (l : vecR) : sumF (map (fun x => x * x)%num l) = 0 -> Forall (fun x => x = 0) l.
Proof.
  unfold sumF. induction l as [|x l IH]; cbn; intros H; constructor.
  - assert (0 <= fold_right Rplus 0 (map (fun x => x * x) l)).
    { clear. induction l; cbn; [lra | nra]. }
    cbn in *. nra.
  - apply IH. assert (0 <= fold_right Rplus 0 (map (fun x => x * x) l)).
    { clear. induction l; cbn; [lra | nra]. }
    cbn in *. nra.
Qed.
Lemma sumsq_nonneg (l : vecR) : 0 <= sumF (map (fun x => x * x)%num l).
Proof. unfold sumF. induction l; cbn in *; [lra | nra]. Qed.

Lemma sumabs_zero (l : vecR) : sumF (map absF l) = 0 -> Forall (fun x => x = 0) l.
Proof.
  unfold sumF. induction l as [|x l IH]; cbn [map fold_right]; intros H; constructor.
  - assert (0 <= fold_right add zero (map absF l)) by (apply (sumF_nonneg (map absF l)); rewrite Forall_map; apply Forall_forall; intros; rewrite absF_R; apply Rabs_pos).
    rewrite absF_R in H. cbn in *. pose proof (Rabs_pos x). destruct (Req_dec x 0); auto.
    pose proof (Rabs_pos_lt x H2). lra.
  - apply IH. assert (0 <= fold_right add zero (map absF l)) by (apply (sumF_nonneg (map absF l)); rewrite Forall_map; apply Forall_forall; intros; rewrite absF_R; apply Rabs_pos).
    rewrite absF_R in H. cbn in *. pose proof (Rabs_pos x). lra.
Qed.
Lemma reproj_zero_of_match tiny K T (p : vecR) :
  let px := point2pixel1 tiny K T p in
  Forall (fun x => x = 0) (reproj_none1 tiny K T p px) /\ reproj_sum1 tiny K T p px = 0 /\
  reproj_norm1 tiny K T p px = 0.
Proof.
  intros px. unfold reproj_norm1, reproj_normsq1, reproj_sum1, reproj_none1. fold px. rewrite vsubl_self.
  split; [|split].
  - rewrite Forall_map. apply Forall_forall. auto.
  - rewrite map_map. unfold sumF. induction px; cbn [map fold_right]; [reflexivity|].
    rewrite IHpx, absF_R, Rabs_R0. cbn. lra.
  - cbn [tsqrt TransR]. rewrite map_map.
    replace (sumF (map (fun _ : R => (0 * 0)%num) px)) with 0; [apply sqrt_0|].
    unfold sumF. induction px; cbn in *; lra.
Qed.
Lemma reproj_match_of_zero tiny K T (p px : vecR) : length px = length (point2pixel1 tiny K T p) ->
  (Forall (fun x => x = 0) (reproj_none1 tiny K T p px) -> px = point2pixel1 tiny K T p) /\
  (reproj_sum1 tiny K T p px = 0 -> px = point2pixel1 tiny K T p) /\
  (reproj_norm1 tiny K T p px = 0 -> px = point2pixel1 tiny K T p).
Proof.
  intros Hl. split; [|split].
  - intros H. apply vsubl_zero; auto.
  - intros H. unfold reproj_sum1 in H. apply sumabs_zero in H. apply vsubl_zero; auto.
  - intros H. unfold reproj_norm1, reproj_normsq1 in H. cbn [tsqrt TransR] in H.
    apply sqrt_eq_0 in H; [|apply sumsq_nonneg]. apply sumsq_zero in H. apply vsubl_zero; auto.
Qed.
(* HISTORY: before fix 9117fdb reduction='sum' was a signed sum, not the documented L1 norm: it
   vanished on pixels that do not match *)
Lemma reproj_sum_refuted tiny : 0 < tiny <= 1 ->
  exists (K : cloudR) (p px : vecR), px <> point2pixel1 tiny K None p /\ reproj_sum1_old tiny K None p px = 0.
Proof.
  intros Ht. exists (pinhole 1 1 0 0), [0; 0; 1], [1; -1].
  assert (E : point2pixel1 tiny (pinhole 1 1 0 0) None [0; 0; 1] = [0; 0]).
  { rewrite point2pixel1_pinhole by (rewrite Rabs_R1; lra). f_equal; [|f_equal]; field. }
  unfold reproj_sum1_old, reproj_none1. rewrite E. split.
  - intros H. inversion H. lra.
  - unfold sumF, vsubl. cbn. lra.
Qed.

(* batched *)
Lemma reprojerr_zero tiny K T (pts : cloudR) :
  let pix := point2pixel tiny K T pts in
  Forall (Forall (fun x => x = 0)) (reprojerr_none tiny K T pts pix) /\
  Forall (fun x => x = 0) (reprojerr_sum tiny K T pts pix) /\
  Forall (fun x => x = 0) (reprojerr_norm tiny K T pts pix).
Proof.
  cbv zeta. unfold reprojerr_none, reprojerr_sum, reprojerr_norm, point2pixel.
  induction pts as [|p pts [IH1 [IH2 IH3]]]; cbn [map map2]; [repeat split; constructor|].
  destruct (reproj_zero_of_match tiny K T p) as [H1 [H2 H3]].
  repeat split; constructor; auto.
Qed.
Lemma reprojerr_zero_only tiny K T (pts pix : cloudR) :
  Forall2 (fun p px => length px = length (point2pixel1 tiny K T p)) pts pix ->
  (Forall (Forall (fun x => x = 0)) (reprojerr_none tiny K T pts pix) -> pix = point2pixel tiny K T pts) /\
  (Forall (fun x => x = 0) (reprojerr_sum tiny K T pts pix) -> pix = point2pixel tiny K T pts) /\
  (Forall (fun x => x = 0) (reprojerr_norm tiny K T pts pix) -> pix = point2pixel tiny K T pts).
Proof.
  unfold reprojerr_none, reprojerr_sum, reprojerr_norm, point2pixel.
  induction 1 as [|p px pts pix Hl _ [IH1 [IH2 IH3]]]; cbn [map map2]; [repeat split; reflexivity|].
  destruct (reproj_match_of_zero tiny K T p px Hl) as [G1 [G2 G3]].
  repeat split; intros Hz; inversion Hz; subst; f_equal; auto.
Qed.
Lemma point2pixel_extr tiny K X (pts : cloudR) :
  point2pixel tiny K (Some X) pts = point2pixel tiny K None (map (extr_act (Some X)) pts).
Proof. unfold point2pixel. rewrite map_map. reflexivity. Qed.

(* ====================================================================== statements on the true norm *)
Lemma knn_filter_spec_R o pd (pts : cloudR) k :
  (S k <= length pts)%nat -> (forall p, In p pts -> NoDup (map (Rpdist o pd p) pts)) ->
  knn_filter o pd pts k None = Some (map (fun p => vmean (length p) (knn_nbhd (Rpdist o pd) k pts p)) pts).
Proof.
  intros Hk Hnd. unfold knn_filter. rewrite knn_filter_spec; auto.
  - f_equal. apply map_ext. intros p. now rewrite knn_nbhd_Rpdist.
  - intros p Hp. apply nodup_Rpdist. auto.
Qed.
Lemma knn_filter_radius_spec_R o pd (pts : cloudR) k r :
  (S k <= length pts)%nat -> (forall p, In p pts -> NoDup (map (Rpdist o pd p) pts)) ->
  knn_filter o pd pts k (Some r) =
  Some (map (fun p => vmean (length p) (knn_nbhd (Rpdist o pd) k pts p))
            (filter (nbr_keep o pd pts (Z.of_nat k) r) pts)).
Proof.
  intros Hk Hnd. rewrite knn_filter_radius_spec; auto.
  - f_equal. apply map_ext. intros p. now rewrite knn_nbhd_Rpdist.
  - intros p Hp. apply nodup_Rpdist. auto.
Qed.
Lemma knn_filter_perm_R o pd (pts pts' : cloudR) k :
  (S k <= length pts)%nat -> (forall p, In p pts -> NoDup (map (Rpdist o pd p) pts)) -> Permutation pts pts' ->
  exists out out', knn_filter o pd pts k None = Some out /\
                   knn_filter o pd pts' k None = Some out' /\ Permutation out out'.
Proof.
  intros Hk Hnd HP. apply knn_filter_perm; auto. intros p Hp. apply nodup_Rpdist. auto.
Qed.
Lemma knn_nbhd_props o pd (pts : cloudR) k p :
  (S k <= length pts)%nat -> In p pts -> NoDup (map (Rpdist o pd p) pts) ->
  length (knn_nbhd (Rpdist o pd) k pts p) = S k /\ In p (knn_nbhd (Rpdist o pd) k pts p) /\
  (forall q q', In q (knn_nbhd (Rpdist o pd) k pts p) -> In q' pts -> ~ In q' (knn_nbhd (Rpdist o pd) k pts p) ->
                Rpdist o pd p q < Rpdist o pd p q').
Proof.
  intros Hk Hp Hnd. split; [now apply knn_nbhd_length|]. split.
  - apply knn_nbhd_self; auto. intros q. unfold Rpdist, Rdist.
    destruct o; rewrite dmeas_self; try apply dmeas_nonneg. rewrite sqrt_0. apply sqrt_pos.
  - intros q q' Hq Hq' Hn. unfold knn_nbhd in *. apply filter_In in Hq. destruct Hq as [_ Hq].
    apply Nat.ltb_lt in Hq.
    assert (Hr : (S k <= rank (Rpdist o pd p) pts q')%nat).
    { destruct (Nat.le_gt_cases (S k) (rank (Rpdist o pd p) pts q')); auto.
      exfalso. apply Hn. apply filter_In. split; auto. now apply Nat.ltb_lt. }
    destruct (Rlt_le_dec (Rpdist o pd p q) (Rpdist o pd p q')) as [|Hle]; auto.
    exfalso. assert (rank (Rpdist o pd p) pts q' <= rank (Rpdist o pd p) pts q)%nat; [|lia].
    unfold rank. clear - Hle. induction pts as [|y pts IH]; cbn; auto.
    destruct (Rltb (Rpdist o pd p y) (Rpdist o pd p q')) eqn:E1.
    + apply Rltb_true in E1.
      replace (Rltb (Rpdist o pd p y) (Rpdist o pd p q)) with true by (symmetry; apply Rltb_true; lra).
      cbn. lia.
    + destruct (Rltb (Rpdist o pd p y) (Rpdist o pd p q)); cbn; lia.
Qed.

(* knn values do not depend on the order of the neighbour cloud *)
Lemma sorted_perm_eq (l l' : vecR) : StronglySorted Rle l -> StronglySorted Rle l' -> Permutation l l' -> l = l'.
Proof.
  revert l'. induction l as [|a l IH]; intros l' H1 H2 HP.
  - apply Permutation_nil in HP. now subst.
  - destruct l' as [|b l']; [apply Permutation_sym, Permutation_nil in HP; discriminate|].
    inversion H1 as [|? ? Hs1 Ha]; inversion H2 as [|? ? Hs2 Hb]; subst.
    rewrite Forall_forall in Ha, Hb.
    assert (a = b).
    { assert (In a (b :: l')) as [->|Hin] by (eapply Permutation_in; [exact HP | now left]); auto.
      assert (In b (a :: l)) as [->|Hin'] by (eapply Permutation_in; [apply Permutation_sym, HP | now left]); auto.
      specialize (Ha b Hin'). specialize (Hb a Hin). lra. }
    subst b. f_equal. apply IH; auto. eapply Permutation_cons_inv; eauto.
Qed.
Lemma sort_row_values_perm (row row' : vecR) : Permutation row row' ->
  map fst (sort_row row) = map fst (sort_row row').
Proof.
  intros HP.
  assert (S : forall r : vecR, StronglySorted Rle (map fst (sort_row r))).
  { intros r. eapply StronglySorted_map; [|apply (isort_sorted le_fst); [apply le_fst_total | apply le_fst_trans]].
    intros a b. unfold le_fst; cbn. now rewrite Rleb_true. }
  assert (P : forall r : vecR, Permutation (map fst (sort_row r)) r).
  { intros r. eapply perm_trans; [apply Permutation_map, sort_row_perm|].
    unfold indexed. rewrite map_fst_combine; auto. now rewrite seq_length. }
  apply sorted_perm_eq; auto.
  eapply perm_trans; [apply P|]. eapply perm_trans; [exact HP | apply Permutation_sym, P].
Qed.
Lemma knn_values_perm (d : vecR -> vecR -> R) (ref nbr nbr' : cloudR) k : Permutation nbr nbr' ->
  option_map (map (map fst)) (knn_gen d ref nbr k) = option_map (map (map fst)) (knn_gen d ref nbr' k).
Proof.
  intros HP. unfold knn_gen. induction ref as [|r ref IH]; cbn [map all_some]; auto.
  unfold topk at 1 3. rewrite !map_length, <- (Permutation_length HP).
  destruct (Nat.ltb (length nbr) k); auto.
  destruct (all_some (map (fun r0 => topk k (map (d r0) nbr)) ref)),
           (all_some (map (fun r0 => topk k (map (d r0) nbr')) ref)); cbn in *; try discriminate; auto.
  inversion IH. f_equal. cbn [map]. f_equal; auto.
  rewrite <- !firstn_map. f_equal. apply sort_row_values_perm. now apply Permutation_map.
Qed.

(* the no-tie hypothesis is satisfiable *)
Example no_ties_example :
  forall p, In p [[0]; [1]; [3]; [7]] -> NoDup (map (Rpdist L1 1 p) [[0]; [1]; [3]; [7]]).
Proof.
  assert (A : forall a b : R, Rpdist L1 1 [a] [b] = Rabs (a - b)).
  { intros. unfold Rpdist, Rdist, dmeas, vsubl, sumF. cbn. rewrite absF_R. apply Rplus_0_r. }
  intros p [<-|[<-|[<-|[<-|[]]]]]; cbn [map]; rewrite !A;
    repeat (constructor; [cbn [In]; intros H; repeat destruct H as [H|H]; try contradiction;
                          revert H; unfold Rabs; repeat destruct Rcase_abs; lra|]); constructor.
Qed.


(* ====================================================================== voxel_filter(random=True) *)
Local Open Scope nat_scope.
Definition argsort_contract (argsort : list nat -> list nat) : Prop :=
  forall l, Permutation (argsort l) (seq 0 (length l)) /\
            StronglySorted le (map (fun i => nth i l 0%nat) (argsort l)).

(* in a sorted list the block of positions [#(<k), #(<k) + #(=k)) holds the value k *)
Lemma sorted_block : forall (L : list nat) k i, StronglySorted le L ->
  (length (filter (fun x => Nat.ltb x k) L) <= i < length (filter (fun x => Nat.ltb x k) L) + length (filter (Nat.eqb k) L))%nat ->
  nth i L 0%nat = k.
Proof.
  induction L as [|a t IH]; intros k i Hs Hi; [cbn in Hi; lia|].
  inversion Hs as [|? ? Hst Ha]; subst. rewrite Forall_forall in Ha.
  destruct (Nat.lt_trichotomy a k) as [Hlt | [-> | Hgt]].
  - cbn [filter] in Hi. replace (Nat.ltb a k) with true in Hi by (symmetry; now apply Nat.ltb_lt).
    replace (Nat.eqb k a) with false in Hi by (symmetry; apply Nat.eqb_neq; lia).
    cbn [length] in Hi. destruct i as [|i]; [lia|]. cbn. apply IH; auto. lia.
  - cbn [filter] in Hi. rewrite Nat.ltb_irrefl, Nat.eqb_refl in Hi.
    assert (E : filter (fun x => Nat.ltb x k) t = []).
    { apply filter_none. intros x Hx. apply Nat.ltb_ge. now apply Ha. }
    rewrite E in *. cbn [length] in Hi. destruct i as [|i]; [reflexivity|]. cbn. apply IH; auto. rewrite E. cbn. lia.
  - exfalso. cbn [filter] in Hi. replace (Nat.ltb a k) with false in Hi by (symmetry; apply Nat.ltb_ge; lia).
    replace (Nat.eqb k a) with false in Hi by (symmetry; apply Nat.eqb_neq; lia).
    rewrite (filter_none (fun x => Nat.ltb x k)) in Hi by (intros x Hx; apply Nat.ltb_ge; specialize (Ha x Hx); lia).
    rewrite (filter_none (Nat.eqb k)) in Hi by (intros x Hx; apply Nat.eqb_neq; specialize (Ha x Hx); lia).
    cbn in Hi. lia.
Qed.

Lemma count_lt_S (l : list nat) k :
  length (filter (fun x => Nat.ltb x (S k)) l) = (length (filter (fun x => Nat.ltb x k) l) + length (filter (Nat.eqb k) l))%nat.
Proof.
  induction l as [|a l IH]; cbn [filter]; auto.
  destruct (Nat.ltb_spec a (S k)), (Nat.ltb_spec a k), (Nat.eqb_spec k a); cbn [length]; try lia.
Qed.
Lemma offsets_nth : forall counts a k, (k < length counts)%nat ->
  nth k (offsets a counts) 0%nat = (a + fold_right Nat.add 0 (firstn k counts))%nat.
Proof.
  induction counts as [|c t IH]; intros a k Hk; cbn in Hk; [lia|].
  destruct k as [|k]; cbn; [lia|]. rewrite IH by lia. lia.
Qed.
Lemma offsets_length : forall counts a, length (offsets a counts) = length counts.
Proof. induction counts; intros; cbn; auto. Qed.
Lemma sum_counts (l : list nat) k :
  fold_right Nat.add 0 (map (fun j => length (filter (Nat.eqb j) l)) (seq 0 k)) = length (filter (fun x => Nat.ltb x k) l).
Proof.
  induction k as [|k IH].
  - cbn. rewrite filter_none; auto.
  - rewrite seq_S, map_app. cbn [map Nat.add]. rewrite count_lt_S, <- IH.
    generalize (map (fun j => length (filter (Nat.eqb j) l)) (seq 0 k)). intros L. induction L; cbn; lia.
Qed.
Lemma filter_length_le {A} (f : A -> bool) l : (length (filter f l) <= length l)%nat.
Proof. induction l; cbn; auto. destruct (f a); cbn; lia. Qed.
Lemma firstn_map_seq {B} (f : nat -> B) M k : (k <= M)%nat -> firstn k (map f (seq 0 M)) = map f (seq 0 k).
Proof.
  intros H. rewrite firstn_map. f_equal. replace M with (k + (M - k))%nat by lia.
  rewrite seq_app, firstn_app, seq_length, Nat.sub_diag. cbn [firstn]. rewrite app_nil_r.
  apply firstn_all2. now rewrite seq_length.
Qed.

(* one row per occupied voxel, row k a member of voxel k -- every non-empty cloud, any unique /
   argsort satisfying their contracts and any draws below the voxel counts *)
Lemma nth_map' {A B} (f : A -> B) (d : A) (d' : B) l n : n < length l -> nth n (map f l) d' = f (nth n l d).
Proof. intros H. rewrite (nth_indep _ d' (f d)) by (now rewrite map_length). apply map_nth. Qed.
Lemma voxel_filter_random_spec unique argsort (Hu : uniq_contract unique) (Ha : argsort_contract argsort)
    (draws : list nat) (pts : cloudR) (voxel : vecR) :
  Forall (fun v => v <> 0%R) voxel -> pts <> [] ->
  let keys := fst (unique (map (vox_of pts voxel) pts)) in
  let inv := snd (unique (map (vox_of pts voxel) pts)) in
  length draws = length keys ->
  (forall k, (k < length keys)%nat -> (nth k draws 0 < length (filter (Nat.eqb k) inv))%nat) ->
  exists sel, voxel_filter_random unique argsort draws pts voxel = Some sel /\ length sel = length keys /\
              forall k, (k < length keys)%nat -> In (nth k sel []) (vox_members pts voxel (nth k keys [])).
Proof.
  intros Hv Hne keys inv Hdl Hd.
  destruct (Hu (map (vox_of pts voxel) pts)) as [Hs [Hin Hinv]]. fold keys in Hs, Hin, Hinv. fold inv in Hinv.
  assert (Hlen : length inv = length pts) by (apply Forall2_len in Hinv; now rewrite map_length in Hinv).
  assert (Hinvlt : forall i, (i < length pts)%nat ->
                     nth_error keys (nth i inv 0%nat) = Some (vox_of pts voxel (nth i pts []))).
  { clear - Hinv. revert Hinv. generalize (vox_of pts voxel) as g. generalize inv as iv. generalize pts as ps.
    induction ps as [|p ps IH]; intros iv g H i Hi; [cbn in Hi; lia|].
    destruct iv as [|j iv]; inversion H; subst.
    destruct i as [|i]; cbn; auto. apply IH; auto. cbn in Hi. lia. }
  destruct (Ha inv) as [HsP HsS]. set (s := argsort inv) in *.
  set (counts := map (fun k => length (filter (Nat.eqb k) inv)) (seq 0 (length keys))).
  set (L := map (fun i => nth i inv 0%nat) s) in *.
  assert (HLP : Permutation L inv).
  { unfold L. eapply perm_trans; [apply Permutation_map, HsP|]. now rewrite map_nth_seq. }
  assert (Hslt : forall i, In i s -> (i < length pts)%nat).
  { intros i Hi. apply (Permutation_in _ HsP) in Hi. apply in_seq in Hi. lia. }
  assert (Hsl : length s = length pts) by (rewrite (Permutation_length HsP), seq_length; auto).
  set (selidx := map2 Nat.add draws (offsets 0 counts)).
  assert (Hcl : length counts = length keys) by (unfold counts; now rewrite map_length, seq_length).
  assert (Hsil : length selidx = length keys) by (unfold selidx; rewrite map2_length, offsets_length; lia).
  assert (Hsel : forall k, (k < length keys)%nat ->
            (length (filter (fun x => Nat.ltb x k) L) <= nth k selidx 0 <
             length (filter (fun x => Nat.ltb x k) L) + length (filter (Nat.eqb k) L))%nat).
  { intros k Hk. unfold selidx.
    rewrite (nth_map2 _ 0%nat 0%nat 0%nat) by (rewrite ?offsets_length; lia).
    rewrite offsets_nth by lia. unfold counts. rewrite firstn_map_seq by lia. rewrite sum_counts.
    rewrite !(filter_perm_length _ _ _ HLP). specialize (Hd k Hk). lia. }
  assert (Hsellt : forall i, In i selidx -> (i < length s)%nat).
  { intros i Hi. destruct (In_nth _ _ 0%nat Hi) as [k [Hk <-]]. rewrite Hsil in Hk.
    specialize (Hsel k Hk). rewrite <- count_lt_S in Hsel.
    pose proof (filter_length_le (fun x => Nat.ltb x (S k)) L) as Hle.
    unfold L in Hle at 2. rewrite map_length in Hle. lia. }
  exists (map (fun j => nth j (map (fun i => nth i pts []) s) []) selidx).
  split; [|split].
  - unfold voxel_filter_random. rewrite (voxel_ok_true pts voxel Hne Hv). cbn [negb].
    change (vox_keys_of pts voxel) with (map (vox_of pts voxel) pts).
    destruct (unique (map (vox_of pts voxel) pts)) as [ks iv] eqn:E. cbn [fst snd] in *. subst keys inv.
    fold s. rewrite (gather_spec [] pts s Hslt). fold counts. fold selidx.
    now rewrite (gather_spec []) by (intros i Hi; rewrite map_length; auto).
  - now rewrite map_length.
  - intros k Hk.
    rewrite (nth_map' _ 0%nat) by lia.
    set (j := nth k selidx 0%nat).
    assert (Hj : (j < length s)%nat) by (apply Hsellt, nth_In; lia).
    rewrite (nth_map' _ 0%nat) by auto.
    set (i := nth j s 0%nat).
    assert (Hi : (i < length pts)%nat) by (apply Hslt, nth_In; auto).
    assert (Hval : nth i inv 0%nat = k).
    { pose proof (sorted_block L k j HsS (Hsel k Hk)) as HB. unfold L in HB.
      now rewrite (nth_map' _ 0%nat) in HB by auto. }
    unfold vox_members. apply filter_In. split; [now apply nth_In|].
    apply lZ_eqb_true. specialize (Hinvlt i Hi). rewrite Hval in Hinvlt.
    rewrite (nth_error_nth' keys [] Hk) in Hinvlt. congruence.
Qed.

(* the executable argsort satisfies its contract *)
Lemma argsort_ins_contract : argsort_contract argsort_ins.
Proof.
  intros l. unfold argsort_ins.
  set (le2 := fun a b : nat * nat => Nat.leb (fst a) (fst b)).
  set (ix := combine l (seq 0 (length l))).
  assert (HP : Permutation (isort le2 ix) ix) by apply isort_perm.
  assert (HS : StronglySorted (fun a b => le2 a b = true) (isort le2 ix)).
  { apply isort_sorted; unfold le2; intros.
    - destruct (Nat.leb_spec (fst a) (fst b)), (Nat.leb_spec (fst b) (fst a)); auto; lia.
    - apply Nat.leb_le in H, H0. apply Nat.leb_le. lia. }
  split.
  - eapply perm_trans; [apply Permutation_map, HP|]. unfold ix. rewrite map_snd_combine; auto. now rewrite seq_length.
  - rewrite map_map.
    rewrite (map_ext_in _ fst).
    + eapply StronglySorted_map; [|exact HS]. intros a b. unfold le2. apply Nat.leb_le.
    + intros [v j] Hin. cbn. apply (Permutation_in _ HP) in Hin. unfold ix in Hin.
      apply (In_combine_seq 0%nat) in Hin. rewrite Nat.sub_0_r in Hin. symmetry. tauto.
Qed.
