(* C17, eighth part: an explicit convergence basin for ICP.  If the target is the image of the source
   under a rigid motion (same order) and every point of the initial cloud is displaced from its own
   target point by less than HALF the distance from that target point to any other target point,
   then (triangle inequality) the own target point is the strictly closest one, every knn answer
   meeting the contract is the true correspondence, and ICP.forward returns the true transform --
   for every stepper, every SVD answer meeting the contract. *)
From Coq Require Import Reals Lra Psatz List Nsatz ZArith Bool Arith.
Import ListNotations.
From PV Require Import Base.Num Base.RTac Model.LieGroup Model.Controller Model.Align Proofs.LieGroup
  Proofs.Align Proofs.Align2 Proofs.Align3 Proofs.Align4.
Local Open Scope R_scope.
#[local] Remove Hints NumQ NumZ : typeclass_instances.

(* every point of P is strictly closer to its own point of T than to any other point of T *)
Definition own_closest (P T : cloudR) : Prop :=
  length P = length T /\
  forall i j, (i < length T)%nat -> (j < length T)%nat -> i <> j ->
    sqnorm (vsub (nth i T vzero) (nth i P vzero)) < sqnorm (vsub (nth j T vzero) (nth i P vzero)).
(* 2 |T_i - P_i| < |T_j - T_i|  (squared) *)
Definition within_half_separation (P T : cloudR) : Prop :=
  length P = length T /\
  forall i j, (i < length T)%nat -> (j < length T)%nat -> i <> j ->
    4 * sqnorm (vsub (nth i T vzero) (nth i P vzero)) < sqnorm (vsub (nth j T vzero) (nth i T vzero)).

Lemma cauchy_schwarz3 (u w : vec3R) : vdot u w * vdot u w <= sqnorm u * sqnorm w.
Proof.
  destruct u as [[u1 u2] u3], w as [[w1 w2] w3]. al_unfold.
  pose proof (Rle_0_sqr (u1 * w2 - u2 * w1)). pose proof (Rle_0_sqr (u1 * w3 - u3 * w1)).
  pose proof (Rle_0_sqr (u2 * w3 - u3 * w2)). unfold Rsqr in *. nra.
Qed.
Lemma closer_by_triangle (u w : vec3R) : 4 * sqnorm u < sqnorm w -> sqnorm u < sqnorm (vadd u w).
Proof.
  intros H. pose proof (cauchy_schwarz3 u w) as CS. pose proof (sqnorm_nonneg u) as Hu.
  assert (E : sqnorm (vadd u w) = sqnorm u + 2 * vdot u w + sqnorm w) by al_ring.
  rewrite E. set (a := sqnorm u) in *. set (b := sqnorm w) in *. set (c := vdot u w) in *. clearbody a b c.
  destruct (Rlt_dec 0 (b + 2 * c)) as [Hp | Hn]; [lra | exfalso].
  assert (H1 : b <= - (2 * c)) by lra. assert (Hb : 0 < b) by lra.
  assert (H2 : b * b <= (2 * c) * (2 * c)) by nra.
  assert (H3 : b * b <= 4 * a * b) by nra.
  assert (H4 : b <= 4 * a) by nra. lra.
Qed.
Lemma half_sep_own_closest P T : within_half_separation P T -> own_closest P T.
Proof.
  intros [HL H]. split; [exact HL|]. intros i j Hi Hj Hij. specialize (H i j Hi Hj Hij).
  set (Ti := nth i T vzero) in *. set (Tj := nth j T vzero) in *. set (Pi := nth i P vzero) in *.
  replace (vsub Tj Pi) with (vadd (vsub Ti Pi) (vsub Tj Ti)) by (clearbody Ti Tj Pi; al_ring).
  now apply closer_by_triangle.
Qed.

Lemma Forall2_nth {X Y} (R : X -> Y -> Prop) (dx : X) (dy : Y) : forall l m, Forall2 R l m ->
  forall k, (k < length l)%nat -> R (nth k l dx) (nth k m dy).
Proof.
  induction 1 as [|x y l m Hxy _ IH]; intros k Hk; [cbn in Hk; lia|].
  destruct k as [|k]; [exact Hxy|]. cbn [nth]. apply IH. cbn in Hk. lia.
Qed.
(* the knn answer is forced: it is the own-point correspondence *)
Lemma knn_forced P T idx : own_closest P T -> knn_ok P T idx -> gather3 T idx = T.
Proof.
  intros [HL Hown] Hk. pose proof (knn_ok_length _ _ _ Hk) as HLi.
  unfold gather3. apply (nth_ext _ _ vzero vzero); [rewrite map_length; lia|].
  intros k Hk'. rewrite map_length in Hk'.
  rewrite (nth_indep _ vzero (nth (nth k idx O) T vzero)) by (rewrite map_length; exact Hk').
  rewrite (map_nth (fun i => nth i T vzero) idx (nth k idx O)).
  change (nth k idx (nth k idx O)) with (nth k idx (nth k idx O)).
  rewrite (nth_indep idx (nth k idx O) O) by exact Hk'.
  pose proof (Forall2_nth _ vzero O _ _ Hk k ltac:(lia)) as [Hr Hbest]. cbv beta in Hr, Hbest.
  destruct (Nat.eq_dec (nth k idx O) k) as [-> | Hne]; [reflexivity | exfalso].
  assert (HkT : (k < length T)%nat) by lia.
  specialize (Hbest (nth k T vzero) (nth_In _ _ HkT)).
  specialize (Hown k (nth k idx O) HkT Hr (fun E => Hne (eq_sym E))). lra.
Qed.

Section Basin.
Variable svd : mat3R -> mat3R * vec3R * mat3R.
Variable knn : cloudR -> cloudR -> list (R * nat).

(* ICP.forward inside the basin: target = rigid image of the source, the initial cloud within half
   the separation of the target points; the result is the true transform *)
Theorem icp_forward_recovers_basin (cfg : rtb_cfg) (st0 : rtb_state) (init : option se3R) (source : cloudR) A0 t0 :
  let target := map (rigid_apply A0 t0) source in
  source <> [] -> rot A0 ->
  (forall T, init = Some T -> unitq (snd T)) ->
  within_half_separation (icp_start init source) target ->
  pass_ok svd knn target (icp_start init source) -> pass_ok svd knn target target ->
  svd_contract svd (svdtf_M source target) ->
  exists T st errs,
    icp_forward svd knn cfg st0 init source target = Some (T, st, errs) /\ unitq (snd T) /\
    se3_cloud T source = target /\
    cpdk knn target (se3_cloud T source) = 0 /\
    (noncollinear source -> fst T = t0 /\ SO3_matrix (snd T) = A0).
Proof.
  intros target Hne HA Hinit Hsep Hok HokT Hfin.
  apply (icp_forward_recovers svd knn target cfg st0 init source A0 t0 Hne HA Hinit); try assumption.
  fold target. apply (knn_forced _ _ _ (half_sep_own_closest _ _ Hsep)). exact (proj1 Hok).
Qed.
End Basin.

(* the basin hypothesis is satisfiable: the run of Proofs/Align4.v (displacement 1/10, separations >= 2) *)
Lemma ex_half_sep : within_half_separation ex_src ex_tgt.
Proof.
  rewrite ex_tgt_eq. unfold ex_src, wit_src. split; [reflexivity|]. cbn [length]. intros i j Hi Hj Hij.
  destruct i as [|[|[|]]]; try lia; destruct j as [|[|[|]]]; try lia; try contradiction; cbn [nth]; al_unfold; lra.
Qed.
