(* C14: MPC.forward as a loop over an arbitrary solver (the loop of Model/LQR.v: mpc_loop_gen, with
   the problem data closed over), its termination by the stepper and its invariants; instantiated
   with the matrix LQR of Proofs/LQRMat2.v: MPC on a linear system of any dimension returns exactly
   the LQR result, for every stepper configuration / state, every iteration count. *)
From Coq Require Import ZArith List Bool Arith Lia Reals Lra.
Import ListNotations.
From PV Require Import Base.Num Base.Mat Model.Dynamics Model.Controller Model.LQR.
From PV Require Import Proofs.LQRMat1 Proofs.LQRMat2 Proofs.LQRMat3.
#[local] Remove Hints NumQ NumZ : typeclass_instances.

Section GLoop.
Context {F : Type} {NF : Num F}.
Local Open Scope num_scope.
Variables XS U : Type.
Variable solve : option U -> Z -> option (XS * U * F * Z).

Definition gbetter (c : F) (best : option (XS * U * F)) : bool :=
  match best with None => true | Some (_, _, cb) => c <? cb end.
Fixpoint gloop (fuel : nat) (cfg : rtb_cfg (F:=F)) (st : rtb_state (F:=F)) (u : option U)
  (best : option (XS * U * F)) (tm : Z) : option (rtb_state (F:=F) * option (XS * U * F) * Z * nat) :=
  match fuel with
  | O => Some (st, best, tm, O)
  | S f =>
      if rtb_cont st then
        match solve u tm with
        | None => None
        | Some (xs, us, c, tm') =>
            let st' := rtb_step cfg st [c] in
            let best' := if gbetter c best then Some (xs, us, c) else best in
            match gloop f cfg st' (Some us) best' tm' with
            | Some (a, b, t, n) => Some (a, b, t, S n)
            | None => None
            end
        end
      else Some (st, best, tm, O)
  end.
Definition gforward (cfg : rtb_cfg (F:=F)) (st : rtb_state (F:=F)) (u_init : option U) (tm : Z)
  : option (XS * U * F * Z * rtb_state (F:=F) * nat) :=
  match gloop (mpc_fuel cfg) cfg (rtb_reset st) u_init None tm with
  | None => None
  | Some (st', best, tm', n) =>
      let bu := match best with Some (_, us, _) => Some us | None => u_init end in
      match solve bu tm' with
      | Some (xs, us, c, tm'') => Some (xs, us, c, tm'', st', n)
      | None => None
      end
  end.

Lemma gstep_cont_max (cfg : rtb_cfg (F:=F)) st l :
  rtb_cont (rtb_step cfg st l) = true -> (rtb_steps st + 1 < rtb_max cfg)%Z.
Proof.
  unfold rtb_step. cbn [rtb_cont]. intros H. apply andb_true_iff in H as [_ H].
  apply negb_true_iff in H. apply orb_false_iff in H as [H _]. apply orb_false_iff in H as [_ H].
  apply Z.leb_gt in H. exact H.
Qed.

(* the loop ends because the stepper stops, never by fuel; okU is any invariant of the inputs the
   solver returns *)
Variable okU : U -> Prop.
Definition okopt (u : option U) : Prop := match u with Some x => okU x | None => True end.
Definition okbest (b : option (XS * U * F)) : Prop := match b with Some (_, x, _) => okU x | None => True end.
Hypothesis solve_ok : forall u tm xs us c tm', okopt u -> solve u tm = Some (xs, us, c, tm') -> okU us.

Lemma gloop_ends cfg : forall fuel st u best tm st' best' tm' n,
  (Z.max 1 (rtb_max cfg - rtb_steps st) < Z.of_nat fuel)%Z \/ rtb_cont st = false ->
  okopt u -> okbest best ->
  gloop fuel cfg st u best tm = Some (st', best', tm', n) ->
  rtb_cont st' = false /\ (Z.of_nat n <= Z.max 1 (rtb_max cfg - rtb_steps st))%Z /\
  (rtb_cont st = true -> (1 <= n)%nat /\ best' <> None) /\ okbest best'.
Proof.
  induction fuel as [|f IH]; intros st u best tm st' best' tm' n Hf Hu Hb H.
  - cbn [gloop] in H. injection H as <- <- <- <-. destruct Hf as [Hf|Hf]; [cbn in Hf; lia|].
    split; [exact Hf|]. split; [cbn; lia|]. split; [rewrite Hf; discriminate|exact Hb].
  - cbn [gloop] in H. destruct (rtb_cont st) eqn:Hc.
    + destruct (solve u tm) as [[[[xs us] c] tm1]|] eqn:Es; [|discriminate].
      destruct (gloop f cfg (rtb_step cfg st [c]) (Some us) (if gbetter c best then Some (xs, us, c) else best) tm1)
        as [[[[a b0] t0] n0]|] eqn:E; [|discriminate].
      injection H as <- <- <- <-.
      assert (Hus : okU us) by exact (solve_ok _ _ _ _ _ _ Hu Es).
      assert (Hb' : okbest (if gbetter c best then Some (xs, us, c) else best)).
      { destruct (gbetter c best); [exact Hus|exact Hb]. }
      assert (Hnn : (if gbetter c best then Some (xs, us, c) else best) <> None).
      { destruct best as [b1|]; [destruct (gbetter c (Some b1)); discriminate|]. cbn. discriminate. }
      assert (Hf' : (Z.max 1 (rtb_max cfg - rtb_steps (rtb_step cfg st [c])) < Z.of_nat f)%Z \/
                    rtb_cont (rtb_step cfg st [c]) = false).
      { destruct Hf as [Hf|Hf]; [|congruence].
        destruct (rtb_cont (rtb_step cfg st [c])) eqn:Hc2; [|now right].
        left. apply gstep_cont_max in Hc2. cbn [rtb_step rtb_steps]. lia. }
      destruct (IH (rtb_step cfg st [c]) (Some us) _ tm1 _ _ _ _ Hf' Hus Hb' E) as (I1 & I2 & I3 & I4).
      split; [exact I1|]. split.
      * cbn [rtb_step rtb_steps] in I2.
        destruct (rtb_cont (rtb_step cfg st [c])) eqn:Hc2.
        -- apply gstep_cont_max in Hc2. lia.
        -- destruct f as [|f']; cbn [gloop] in E; [injection E as <- <- <- <-; lia|].
           rewrite Hc2 in E. injection E as <- <- <- <-. lia.
      * split; [|exact I4]. intros _. split; [lia|].
        destruct (rtb_cont (rtb_step cfg st [c])) eqn:Hc2; [exact (proj2 (I3 eq_refl))|].
        destruct f as [|f']; cbn [gloop] in E; [injection E as <- <- <- <-; exact Hnn|].
        rewrite Hc2 in E. injection E as <- <- <- <-. exact Hnn.
    + injection H as <- <- <- <-. split; [exact Hc|]. split; [cbn; lia|]. split; [discriminate|exact Hb].
Qed.

(* what a returning MPC.forward returned: the result of ONE solve whose nominal inputs satisfy the
   invariant; between 1 and max(1, max_steps) loop iterations; stepper stopped *)
Theorem gforward_spec cfg st u0 tm xs us c tm' st' n :
  okopt u0 -> gforward cfg st u0 tm = Some (xs, us, c, tm', st', n) ->
  (exists bu tm1, okopt bu /\ solve bu tm1 = Some (xs, us, c, tm')) /\
  rtb_cont st' = false /\ (1 <= n)%nat /\ (Z.of_nat n <= Z.max 1 (rtb_max cfg))%Z.
Proof.
  intros Hu H. unfold gforward in H.
  destruct (gloop _ _ _ _ _ _) as [[[[st1 best] tm1] n1]|] eqn:E; [|discriminate].
  destruct (solve _ tm1) as [[[[xs1 us1] c1] tm2]|] eqn:Es; [|discriminate]. injection H as <- <- <- <- <- <-.
  assert (Hfu : (Z.max 1 (rtb_max cfg - rtb_steps (rtb_reset st)) < Z.of_nat (mpc_fuel cfg))%Z \/
                rtb_cont (rtb_reset st) = false).
  { left. unfold mpc_fuel. cbn [rtb_steps rtb_reset rtb_init]. lia. }
  destruct (gloop_ends cfg _ _ _ None _ _ _ _ _ Hfu Hu I E) as (I1 & I2 & I3 & I4).
  cbn [rtb_steps rtb_reset rtb_init] in I2. destruct (I3 eq_refl) as [I5 _].
  split; [|split; [exact I1|split; [exact I5|lia]]].
  eexists _, tm1. split; [|exact Es]. destruct best as [[[? ub] ?]|]; [exact I4|exact Hu].
Qed.

(* totality: if every solve from acceptable nominal inputs returns, MPC.forward returns *)
Hypothesis solve_total : forall u tm, okopt u -> exists r, solve u tm = Some r.
Lemma gloop_returns cfg : forall fuel st u best tm, okopt u -> okbest best ->
  exists st' best' tm' n, gloop fuel cfg st u best tm = Some (st', best', tm', n) /\ okbest best' /\
    (best' = None -> best = None).
Proof.
  induction fuel as [|f IH]; intros st u best tm Hu Hb.
  - exists st, best, tm, 0%nat. split; [reflexivity|]. split; [exact Hb|auto].
  - cbn [gloop]. destruct (rtb_cont st).
    + destruct (solve_total u tm Hu) as [[[[xs us] c] tm1] Es]. rewrite Es.
      assert (Hus : okU us) by exact (solve_ok _ _ _ _ _ _ Hu Es).
      destruct (IH (rtb_step cfg st [c]) (Some us) (if gbetter c best then Some (xs, us, c) else best) tm1 Hus)
        as (st' & best' & tm' & n & E2 & L2 & L3).
      { destruct (gbetter c best); [exact Hus|exact Hb]. }
      rewrite E2. exists st', best', tm', (S n). split; [reflexivity|]. split; [exact L2|].
      intros En. specialize (L3 En). destruct (gbetter c best); [discriminate|exact L3].
    + exists st, best, tm, 0%nat. split; [reflexivity|]. split; [exact Hb|auto].
Qed.
Theorem gforward_returns cfg st u0 tm : okopt u0 -> exists r, gforward cfg st u0 tm = Some r.
Proof.
  intros Hu. unfold gforward.
  destruct (gloop_returns cfg (mpc_fuel cfg) (rtb_reset st) u0 None tm Hu I) as (st' & best' & tm' & n & E & L & _).
  rewrite E.
  assert (Hb : okopt (match best' with Some (_, us, _) => Some us | None => u0 end)).
  { destruct best' as [[[? ub] ?]|]; [exact L|exact Hu]. }
  destruct (solve_total _ tm' Hb) as [[[[xs us] c] tm2] Es]. rewrite Es. eexists. reflexivity.
Qed.
End GLoop.

(* the loop of Model/LQR.v is this loop with the problem data closed over *)
Section ModelLoop.
Context {F : Type} {NF : Num F}.
Lemma mpc_loop_is_gloop (solve : solver (F:=F)) s dt prob x0 cfg : forall fuel st u best tm,
  mpc_loop_gen solve fuel s dt prob x0 cfg st u best tm =
  gloop (list F) (list F) (fun u tm => solve s dt prob x0 u tm) fuel cfg st u best tm.
Proof.
  induction fuel as [|f IH]; intros st u best tm; [reflexivity|].
  cbn [mpc_loop_gen gloop]. destruct (rtb_cont st); [|reflexivity].
  destruct (solve s dt prob x0 u tm) as [[[[xs us] c] tm1]|]; [|reflexivity].
  rewrite IH. reflexivity.
Qed.
Theorem mpc_forward_is_gforward (solve : solver (F:=F)) s dt prob x0 cfg st u0 tm :
  mpc_forward_gen solve s dt prob x0 cfg st u0 tm =
  gforward (list F) (list F) (fun u tm => solve s dt prob x0 u tm) cfg st u0 tm.
Proof. unfold mpc_forward_gen, gforward. rewrite mpc_loop_is_gloop. reflexivity. Qed.
End ModelLoop.

(* ====================================================================== MPC with the matrix LQR *)
Section MPCN.
Local Open Scope R_scope.
Variables ns nc : nat.
Variable Lt : Type.
Variable chol : matR -> option Lt.
Variable csm : Lt -> matR -> matR.
Variable csv : Lt -> list R -> list R.
Hypothesis chol_sound : forall Quu L, wf nc nc Quu -> chol Quu = Some L ->
  (forall m M, wf nc m M -> wf nc m (csm L M) /\ mmul Quu (csm L M) = M) /\
  (forall b, length b = nc -> length (csv L b) = nc /\ mapply Quu (csv L b) = b).
Hypothesis chol_complete : forall Quu, SPD nc Quu -> chol Quu <> None.

(* MPC.forward(dt, x_init, u_init) on top of the matrix LQR *)
Definition mpcN_forward (s : sysN) (dt : Z) (prob : list stageN) (x_init : list R)
  (cfg : rtb_cfg (F:=R)) (st : rtb_state (F:=R)) (u_init : option (list (list R))) (tm : Z) :=
  gforward (list (list R)) (list (list R)) (fun u tm => lqrN_solve nc Lt chol csm csv s dt prob x_init u tm) cfg st u_init tm.

Theorem mpcN_linear_is_lqr s dt prob x0 cfg st u0 tm :
  wfsys ns nc s -> coherentN s dt -> Forall (pdN ns nc) prob -> length x0 = ns -> nominalN_ok nc prob u0 ->
  exists xs us c tm' st' n,
    mpcN_forward s dt prob x0 cfg st u0 tm = Some (xs, us, c, tm', st', n) /\
    (forall un tm0, nominalN_ok nc prob un ->
       lqrN_solve nc Lt chol csm csv s dt prob x0 un tm0 = Some (xs, us, c, tm')) /\
    xs = x0 :: trajN s 0 x0 us /\ c = JcostN s 0 x0 prob us /\
    (forall us', length us' = length prob -> Forall (lenc nc) us' -> c <= JcostN s 0 x0 prob us') /\
    rtb_cont st' = false /\ (1 <= n)%nat /\ (Z.of_nat n <= Z.max 1 (rtb_max cfg))%Z.
Proof.
  intros W Hco Hpd Hx Hu0.
  set (okU := fun u : list (list R) => length u = length prob /\ Forall (lenc nc) u).
  set (slv := fun (u : option (list (list R))) (tm : Z) => lqrN_solve nc Lt chol csm csv s dt prob x0 u tm).
  assert (Hok : forall u, okopt (list (list R)) okU u <-> nominalN_ok nc prob u).
  { intros [u|]; cbn; unfold okU; tauto. }
  assert (Hso : forall u tm xs us c tm', okopt _ okU u -> slv u tm = Some (xs, us, c, tm') -> okU us).
  { intros u tm1 xs us c tm' Hu E. apply Hok in Hu.
    destruct (lqrN_optimal ns nc Lt chol csm csv chol_sound _ _ _ _ _ _ _ _ _ _ W Hco Hpd Hx Hu E) as (A1 & A2 & _).
    split; assumption. }
  assert (Hst : forall u tm, okopt (list (list R)) okU u -> exists r, slv u tm = Some r).
  { intros u tm1 H.
    destruct (lqrN_returns ns nc Lt chol csm csv chol_sound chol_complete s dt prob x0 u tm1 W Hpd Hx (proj1 (Hok u) H))
      as (xs & us & c & t1 & E). eexists. exact E. }
  assert (Hu0' : okopt _ okU u0) by (now apply Hok).
  destruct (gforward_returns _ _ slv okU Hso Hst cfg st u0 tm Hu0') as [[[[[[xs us] c] tm'] st'] n] E].
  destruct (gforward_spec _ _ slv okU Hso cfg st u0 tm xs us c tm' st' n Hu0' E) as ((bu & tm1 & Hbu & Es) & I1 & I2 & I3).
  exists xs, us, c, tm', st', n. split; [exact E|].
  apply Hok in Hbu. unfold slv in Es.
  destruct (lqrN_optimal ns nc Lt chol csm csv chol_sound _ _ _ _ _ _ _ _ _ _ W Hco Hpd Hx Hbu Es) as (_ & _ & A2 & _ & A3 & A4 & _).
  split; [|split; [exact A2|split; [exact A3|split; [exact A4|split; [exact I1|split; [exact I2|exact I3]]]]]].
  intros un tm0 Hn. rewrite <- Es.
  apply (lqrN_nominal_independent ns nc Lt chol csm csv chol_sound chol_complete); assumption.
Qed.
End MPCN.

(* ====================================================================== named contracts, history *)
(* contract of torch.linalg.cholesky + torch.cholesky_solve at dimension nc:
   sound: when the factorisation of a well-formed nc x nc matrix succeeds, the two solves return
          solutions of the right shape;  complete: it succeeds on every symmetric positive-definite matrix *)
Definition chol_sound_c (nc : nat) (Lt : Type) (chol : matR -> option Lt) (csm : Lt -> matR -> matR)
  (csv : Lt -> list R -> list R) : Prop :=
  forall Quu L, wf nc nc Quu -> chol Quu = Some L ->
  (forall m M, wf nc m M -> wf nc m (csm L M) /\ mmul Quu (csm L M) = M) /\
  (forall b, length b = nc -> length (csv L b) = nc /\ mapply Quu (csv L b) = b).
Definition chol_complete_c (nc : nat) (Lt : Type) (chol : matR -> option Lt) : Prop :=
  forall Quu, SPD nc Quu -> chol Quu <> None.

(* both passes reset the counter: the result never depends on the counter found *)
Lemma lqrN_history_independent nc Lt chol csm csv s dt prob x0 un tm tm' :
  lqrN_solve nc Lt chol csm csv s dt prob x0 un tm = lqrN_solve nc Lt chol csm csv s dt prob x0 un tm'.
Proof. reflexivity. Qed.
