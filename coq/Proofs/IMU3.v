(* C16, gyro level: the increments the integrator feeds to the recursion are so3(gyro*dt).Exp().
   With the C01 model of so3_Exp (Model/LieExp.v, Proofs/LieExp.v) they are exactly unit quaternions on the
   closed-form branch (|gyro*dt| > eps) and at gyro*dt = 0, so the unit-increment hypothesis of the C16
   theorems is met there; on the Taylor branch (0 < |gyro*dt| <= eps) the modelled Exp deviates from unit norm
   by theta^6 (640 - 60 theta^2 + theta^4)/14745600 > 0 over the reals (about 1e-96 for float64's eps; nothing a
   float can see) - there the rotation / Rij / covariance statements that need no unit norm still apply. *)
From Coq Require Import Reals Lra Psatz List.
From Coquelicot Require Import Coquelicot.
From Interval Require Import Tactic.
Import ListNotations.
From PV Require Import Base.Num Base.RTac Model.LieGroup Model.LieExp Model.IMU Proofs.LieGroup Proofs.LieExp Proofs.IMU.
Local Open Scope R_scope.
#[local] Remove Hints NumQ NumZ : typeclass_instances.

Definition wdt (w : vec3R) (d : R) : vec3R := (vx w * d, vy w * d, vz w * d).
Lemma gyro_inc_is_exp (eps : R) w d : gyro_inc (so3_exp eps) (w, d) = so3_exp eps (wdt w d).
Proof. reflexivity. Qed.

Lemma vnorm_zero : vnorm (@vzero R NumR) = 0.
Proof.
  pose proof (vnorm_sq vzero) as H. pose proof (vnorm_nonneg vzero) as Hp.
  assert (E : vdot (@vzero R NumR) vzero = 0) by (lie_unfold; ring). rewrite E in H. nra.
Qed.

Theorem gyro_inc_unit (eps : R) (w : vec3R) (d : R) : 0 <= eps ->
  eps < vnorm (wdt w d) \/ wdt w d = vzero -> unitq (gyro_inc (so3_exp eps) (w, d)).
Proof.
  intros He H. rewrite gyro_inc_is_exp. unfold unitq. destruct H as [H|H].
  - now apply so3_exp_unit_closed.
  - rewrite H. assert (Hz : vnorm (@vzero R NumR) <= eps) by (rewrite vnorm_zero; exact He).
    pose proof (so3_exp_unit_taylor eps vzero Hz) as HT. cbv zeta in HT.
    assert (E : vdot (@vzero R NumR) vzero = 0) by (lie_unfold; ring). rewrite E in HT. lra.
Qed.

Theorem gyro_inc_taylor_not_unit (eps : R) (w : vec3R) (d : R) : eps <= 1 / 1024 ->
  0 < vnorm (wdt w d) <= eps -> ~ unitq (gyro_inc (so3_exp eps) (w, d)).
Proof.
  intros He (Hp & Ht) HU. rewrite gyro_inc_is_exp in HU. unfold unitq in HU.
  pose proof (so3_exp_unit_taylor eps (wdt w d) Ht) as HT. cbv zeta in HT. rewrite HU in HT.
  rewrite <- (vnorm_sq (wdt w d)) in HT. set (t := vnorm (wdt w d)) in *.
  assert (Hs : 0 < t * t) by nra. assert (Hs2 : t * t <= 1 / 1024 * (1 / 1024)) by nra.
  set (s := t * t) in *.
  assert (Hq : 0 < s * s - 60 * s + 640) by nra.
  assert (Hpos : 0 < s * s * s * (s * s - 60 * s + 640)).
  { apply Rmult_lt_0_compat; [|exact Hq]. apply Rmult_lt_0_compat; [apply Rmult_lt_0_compat|]; assumption. }
  unfold Rdiv in HT. nra.
Qed.

(* a concrete stream: gyro = e_z, dt = 1 (|gyro*dt| = 1 > eps), float64's eps *)
Example gyro_unit_example : unitq (gyro_inc (so3_exp (/ 4503599627370496)) ((0, 0, 1), 1)).
Proof.
  apply gyro_inc_unit; [lra|]. left.
  assert (E : vnorm (wdt (0, 0, 1) 1) = 1).
  { unfold vnorm, wdt. cbn [tsqrt TransR]. lie_unfold. replace (0 * 1 * (0 * 1) + 0 * 1 * (0 * 1) + 1 * 1 * (1 * 1)) with 1 by ring. apply sqrt_1. }
  rewrite E. lra.
Qed.
