(* C11, third part: Euler angles in both directions and on the gimbal branch; rejection by the scaled
   variants; all raises are ValueErrors. *)
From Coq Require Import Reals Lra Psatz List Nsatz Bool.
Import ListNotations.
From PV Require Import Base.Num Base.RTac Model.LieGroup Model.Convert Proofs.LieGroup Proofs.Convert Proofs.Convert2.
Local Open Scope R_scope.
#[local] Remove Hints NumQ NumZ : typeclass_instances.

(* ---------------- an angle of (-pi, pi] is determined by its cosine and sine *)
Lemma angle_unique (t r : R) : - PI < t <= PI -> - PI < r <= PI -> cos t = cos r -> sin t = sin r -> t = r.
Proof.
  intros Ht Hr Hc Hs. pose proof PI_RGT_0 as Hpi.
  set (dl := (t - r) / 2).
  assert (Hd : - PI < dl < PI) by (unfold dl; lra).
  assert (Hc1 : cos (2 * dl) = 1).
  { replace (2 * dl) with (t - r) by (unfold dl; field). rewrite cos_minus, Hc, Hs.
    pose proof (sin2_cos2 r) as H. unfold Rsqr in H. lra. }
  assert (Hs0 : sin dl = 0).
  { rewrite cos_2a_sin in Hc1. nra. }
  assert (dl = 0).
  { destruct (Rle_or_lt 0 dl) as [Hp|Hn].
    - destruct (sin_eq_O_2PI_0 dl Hp) as [E|[E|E]]; lra.
    - assert (Hs1 : sin (- dl) = 0) by (rewrite sin_neg; lra).
      destruct (sin_eq_O_2PI_0 (- dl)) as [E|[E|E]]; lra. }
  unfold dl in *. lra.
Qed.
Lemma atan2F_polar (c r : R) : 0 < c -> - PI < r <= PI -> atan2F (c * sin r) (c * cos r) = r.
Proof.
  intros Hc Hr.
  destruct (atan2F_spec (c * sin r) (c * cos r) c Hc) as [C S].
  { pose proof (sin2_cos2 r) as H. unfold Rsqr in H. nra. }
  apply angle_unique; [apply atan2F_range | exact Hr | |].
  - rewrite C. field. lra.
  - rewrite S. field. lra.
Qed.

(* ---------------- euler (euler2SO3 (roll, pitch, yaw)) = (roll, pitch, yaw) *)
Lemma euler2SO3_tvalues r p y : let q := euler2SO3 (r, p, y) in
  let X := vx (qv q) in let Y := vy (qv q) in let Z := vz (qv q) in let W := qw q in
  X * X + Y * Y + Z * Z + W * W = 1 /\
  2 * (W * X + Y * Z) = cos p * sin r /\ W * W + Z * Z - (X * X + Y * Y) = cos p * cos r /\
  2 * (W * Y - Z * X) = sin p /\
  2 * (W * Z + X * Y) = cos p * sin y /\ W * W + X * X - (Y * Y + Z * Z) = cos p * cos y.
Proof.
  unfold euler2SO3. cbn [vx vy vz qv qw fst snd]. cbv [tcos tsin TransR half]. num_unfold.
  destruct (half_angle r) as [Cr [Sr Hr]]. destruct (half_angle p) as [Cp [Sp Hp]]. destruct (half_angle y) as [Cy [Sy Hy]].
  cbv zeta in *. rewrite Cr, Sr, Cp, Sp, Cy, Sy. clear Cr Sr Cp Sp Cy Sy. revert Hr Hp Hy.
  generalize (sin (r * (1 / 2))) (cos (r * (1 / 2))) (sin (p * (1 / 2))) (cos (p * (1 / 2)))
             (sin (y * (1 / 2))) (cos (y * (1 / 2))).
  intros sr cr sp cp sy cy Hr Hp Hy.
  split; [|split; [|split; [|split; [|split]]]]; nsatz.
Qed.

Theorem euler_of_euler2SO3 eps r p y : 0 <= eps ->
  - PI < r <= PI -> - (PI / 2) <= p <= PI / 2 -> - PI < y <= PI -> Rabs (sin p) < 1 - eps ->
  euler eps (euler2SO3 (r, p, y)) = Some (r, p, y).
Proof.
  intros He Hr Hp Hy Hg.
  pose proof (euler2SO3_tvalues r p y) as T. cbv zeta in T.
  destruct (euler2SO3 (r, p, y)) as [[[X Y] Z] W]. cbn [vx vy vz qv qw fst snd] in T.
  destruct T as [Hn [T0 [T1 [T2 [T3 T4]]]]].
  assert (Hs : -1 < sin p < 1) by (apply Rabs_def2 in Hg; lra).
  assert (Hcp : 0 < cos p).
  { destruct (cos_ge_0 p) as [H|H]; try lra. exfalso.
    pose proof (sin2_cos2 p) as S. unfold Rsqr in S. rewrite <- H in S. nra. }
  unfold euler. cbn [qv qw vx vy vz fst snd]. num_unfold. cbv [eqb NumR]. rewrite Hn.
  destruct (Reqb 1 0) eqn:E0; [apply Reqb_true in E0; lra|]. clear E0.
  replace (2 * (W * Y - Z * X) / 1) with (sin p) by (rewrite <- T2; field).
  rewrite absF_Rabs. cbv [ltb NumR].
  destruct (Rltb (Rabs (sin p)) (1 - eps)) eqn:Ef; [|apply Rltb_false in Ef; lra]. clear Ef.
  rewrite clampF_id by lra. rewrite asinF_asin, T0, T1, T3, T4.
  rewrite !atan2F_polar by assumption. rewrite asin_sin by assumption. reflexivity.
Qed.

(* ---------------- the gimbal branch |sin pitch| >= 1 - eps *)
Lemma pmR (t : R) : pm t = if Rltb t 0 then -1 else 1.
Proof. unfold pm. cbv [ltb zero one opp NumR]. reflexivity. Qed.
Lemma sqrt2_facts : let c := 1 / sqrt 2 in 0 < c /\ c * c = 1 / 2.
Proof.
  assert (H2 : 0 < sqrt 2) by (apply sqrt_lt_R0; lra).
  assert (Hs : sqrt 2 * sqrt 2 = 2) by (apply sqrt_sqrt; lra).
  split; [apply Rdiv_lt_0_compat; lra|]. field_simplify_eq; [|lra]. cbn [Rpow_def.pow]. lra.
Qed.

Lemma sumsq0 (a b : R) : a * a + b * b = 0 -> a = 0 /\ b = 0.
Proof.
  intros H. pose proof (Rle_0_sqr a) as Ha. pose proof (Rle_0_sqr b) as Hb. unfold Rsqr in *.
  assert (Ea : a * a = 0) by lra. assert (Eb : b * b = 0) by lra.
  split; [destruct (Rmult_integral _ _ Ea) | destruct (Rmult_integral _ _ Eb)]; assumption.
Qed.
(* what euler returns on the gimbal branch, for every unit quaternion *)
Lemma euler_gimbal_value eps (q : quatR) : unitq q ->
  let x := vx (qv q) in let y := vy (qv q) in let z := vz (qv q) in let w := qw q in
  let t2 := 2 * (w * y - z * x) in
  1 - eps <= Rabs t2 ->
  euler eps q = Some (0, asin t2, (-2) * (if Rltb t2 0 then -1 else 1) * atan2F x w) /\ -1 <= t2 <= 1.
Proof.
  intros Hu. destruct q as [[[x y] z] w]. cbn [qv qw vx vy vz fst snd]. intros Hg.
  assert (H : x * x + y * y + z * z + w * w = 1).
  { unfold unitq in Hu. revert Hu. lie_unfold. intros <-. ring. }
  clear Hu.
  assert (Hb : -1 <= 2 * (w * y - z * x) <= 1).
  { clear Hg. pose proof (Rle_0_sqr (w - y)). pose proof (Rle_0_sqr (z + x)).
    pose proof (Rle_0_sqr (w + y)). pose proof (Rle_0_sqr (z - x)). unfold Rsqr in *. lra. }
  split; [|exact Hb].
  unfold euler. cbn [qv qw vx vy vz fst snd]. rewrite pmR. num_unfold. cbv [eqb NumR]. rewrite H.
  destruct (Reqb 1 0) eqn:E0; [apply Reqb_true in E0; lra|]. clear E0.
  replace (2 * (w * y - z * x) / 1) with (2 * (w * y - z * x)) by field.
  rewrite absF_Rabs. cbv [ltb NumR].
  destruct (Rltb (Rabs (2 * (w * y - z * x))) (1 - eps)) eqn:Ef; [apply Rltb_true in Ef; lra|]. clear Ef.
  rewrite clampF_id by lra. rewrite asinF_asin. reflexivity.
Qed.

(* exactly at the gimbal lock the quaternion itself is reproduced *)
Theorem euler_gimbal_exact eps (q : quatR) : 0 <= eps -> unitq q ->
  Rabs (2 * (qw q * vy (qv q) - vz (qv q) * vx (qv q))) = 1 ->
  exists e, euler eps q = Some e /\ euler2SO3 e = q /\ vx e = 0 /\ Rabs (vy e) = PI / 2.
Proof.
  intros He Hu Hg.
  destruct (euler_gimbal_value eps q Hu) as [E _]; [rewrite Hg; lra|].
  eexists. split; [exact E|]. clear E.
  destruct q as [[[x y] z] w]. cbn [qv qw vx vy vz fst snd] in *.
  assert (H : x * x + y * y + z * z + w * w = 1).
  { unfold unitq in Hu. revert Hu. lie_unfold. intros <-. ring. }
  clear Hu.
  pose proof sqrt2_facts as F. cbv zeta in F. destruct F as [Hc Hcc].
  pose proof cos_PI4 as P4c. pose proof sin_PI4 as P4s.
  remember (1 / sqrt 2) as c eqn:Ec. clear Ec.
  pose proof PI_RGT_0 as Hpi.
  destruct (Rcase_abs (2 * (w * y - z * x))) as [Hneg|Hpos].
  - (* sin pitch = -1 : y = -w, z = x *)
    rewrite Rabs_left in Hg by assumption.
    destruct (sumsq0 (w + y) (z - x)) as [Ey' Ez']; [clear - H Hg; ring_simplify; ring_simplify in H; ring_simplify in Hg; lra|].
    assert (Ey : y = - w) by lra. assert (Ez : z = x) by lra. clear Ey' Ez'. subst y z.
    assert (Ht : 2 * (w * - w - x * x) = -1) by lra. rewrite Ht.
    destruct (Rltb (-1) 0) eqn:El; [|apply Rltb_false in El; lra]. clear El.
    destruct (atan2F_spec x w c Hc) as [C S]; [nra|].
    replace (-1) with (- (1)) by ring. rewrite asin_opp, asin_1.
    split; [|split; [reflexivity | cbn [vy fst snd]; rewrite Rabs_Ropp, Rabs_pos_eq; lra]].
    unfold euler2SO3. cbn [vx vy vz fst snd]. cbv [tcos tsin TransR half] in *. num_unfold.
    replace (0 * (1 / 2)) with 0 by ring.
    replace (- (PI / 2) * (1 / 2)) with (- (PI / 4)) by field.
    assert (EA : forall A : R, -2 * - (1) * A * (1 / 2) = A) by (clear; intros; lra). rewrite EA. clear EA.
    rewrite cos_0, sin_0, cos_neg, sin_neg, P4c, P4s, C, S.
    clear - Hcc Hc. assert (c <> 0) by lra.
    split_pairs; field_simplify_eq; try assumption; cbn [Rpow_def.pow]; nsatz.
  - (* sin pitch = 1 : y = w, z = -x *)
    rewrite Rabs_pos_eq in Hg by lra.
    destruct (sumsq0 (w - y) (z + x)) as [Ey' Ez']; [clear - H Hg; ring_simplify; ring_simplify in H; ring_simplify in Hg; lra|].
    assert (Ey : y = w) by lra. assert (Ez : z = - x) by lra. clear Ey' Ez'. subst y z.
    assert (Ht : 2 * (w * w - - x * x) = 1) by lra. rewrite Ht.
    destruct (Rltb 1 0) eqn:El; [apply Rltb_true in El; lra|]. clear El.
    destruct (atan2F_spec x w c Hc) as [C S]; [nra|].
    rewrite asin_1.
    split; [|split; [reflexivity | cbn [vy fst snd]; rewrite Rabs_pos_eq; lra]].
    unfold euler2SO3. cbn [vx vy vz fst snd]. cbv [tcos tsin TransR half] in *. num_unfold.
    replace (0 * (1 / 2)) with 0 by ring.
    replace (PI / 2 * (1 / 2)) with (PI / 4) by field.
    assert (EA : forall A : R, -2 * 1 * A * (1 / 2) = - A) by (clear; intros; lra). rewrite EA. clear EA.
    rewrite cos_0, sin_0, cos_neg, sin_neg, P4c, P4s, C, S.
    clear - Hcc Hc. assert (c <> 0) by lra.
    split_pairs; field_simplify_eq; try assumption; cbn [Rpow_def.pow]; nsatz.
Qed.

(* on the gimbal branch the returned roll is 0, so entry (2,1) of the rebuilt matrix is 0: the round
   trip can only be exact for quaternions with y z + x w = 0 *)
Lemma zyx_roll0_entry p y : e3 (mmul3 (Rz y) (mmul3 (Ry p) (Rx 0))) 2 1 = 0.
Proof. unfold Rx, Ry, Rz. rewrite sin_0, cos_0. cbv [e3]. lie_unfold. ring. Qed.
Lemma SO3_matrix_21 (x y z w : R) : e3 (SO3_matrix ((x, y, z), w)) 2 1 = 2 * (y * z + x * w).
Proof. cbv [e3]. lie_unfold. ring. Qed.
Theorem euler_gimbal_same_only_if eps (q : quatR) e : unitq q ->
  1 - eps <= Rabs (2 * (qw q * vy (qv q) - vz (qv q) * vx (qv q))) ->
  euler eps q = Some e -> SO3_matrix (euler2SO3 e) = SO3_matrix q ->
  vy (qv q) * vz (qv q) + vx (qv q) * qw q = 0.
Proof.
  intros Hu Hg E HM. destruct (euler_gimbal_value eps q Hu Hg) as [E' _]. rewrite E' in E. injection E as <-.
  rewrite euler2SO3_is_zyx in HM. destruct q as [[[x y] z] w].
  apply (f_equal (fun M => e3 M 2 1)) in HM. cbv beta in HM. rewrite zyx_roll0_entry in HM.
  pose proof (eq_trans HM (SO3_matrix_21 x y z w)) as H0. cbn [qv qw vx vy vz fst snd]. lra.
Qed.
(* ... and inside the band 1 - eps <= |sin pitch| < 1 it is not (eps = 2e-4, the default) *)
Theorem euler_gimbal_band_refuted : exists q : quatR, unitq q /\
  1 - 1 / 5000 <= Rabs (2 * (qw q * vy (qv q) - vz (qv q) * vx (qv q))) < 1 /\
  forall e, euler (1 / 5000) q = Some e -> SO3_matrix (euler2SO3 e) <> SO3_matrix q.
Proof.
  exists ((1 / 99, 70 / 99, 0), 70 / 99). cbn [qv qw vx vy vz fst snd].
  assert (Hu : unitq ((1 / 99, 70 / 99, 0), 70 / 99)) by (unfold unitq; lie_unfold; field).
  assert (Hv : 2 * (70 / 99 * (70 / 99) - 0 * (1 / 99)) = 9800 / 9801) by field.
  split; [exact Hu|]. rewrite Hv, Rabs_pos_eq by lra. split; [lra|].
  intros e E HM.
  pose proof (euler_gimbal_same_only_if (1 / 5000) _ e Hu) as N. cbn [qv qw vx vy vz fst snd] in N.
  rewrite Hv, Rabs_pos_eq in N by lra. specialize (N ltac:(lra) E HM). lra.
Qed.

(* ranges on the gimbal branch: roll = 0, pitch in [-pi/2, pi/2], yaw in [-2 pi, 2 pi] - and yaw does
   leave the principal range *)
Theorem euler_gimbal_ranges eps (q : quatR) e : unitq q ->
  1 - eps <= Rabs (2 * (qw q * vy (qv q) - vz (qv q) * vx (qv q))) -> euler eps q = Some e ->
  vx e = 0 /\ - (PI / 2) <= vy e <= PI / 2 /\ - (2 * PI) <= vz e <= 2 * PI.
Proof.
  intros Hu Hg E. destruct (euler_gimbal_value eps q Hu Hg) as [E' Hb]. rewrite E' in E. injection E as <-.
  cbn [vx vy vz fst snd]. split; [reflexivity|]. split; [now apply asin_bound|].
  pose proof (atan2F_range (vx (qv q)) (qw q)) as Hr. clear - Hr.
  destruct (Rltb _ 0); lra.
Qed.
Theorem euler_gimbal_yaw_not_principal eps : 0 <= eps ->
  euler eps ((1 / 2, - (1 / 2), - (1 / 2)), - (1 / 2)) = Some (0, PI / 2, - (3 * PI / 2)).
Proof.
  intros He.
  assert (Hu : unitq ((1 / 2, - (1 / 2), - (1 / 2)), - (1 / 2))) by (unfold unitq; lie_unfold; field).
  destruct (euler_gimbal_value eps _ Hu) as [E _]; cbn [qv qw vx vy vz fst snd] in *.
  { replace (2 * (- (1 / 2) * - (1 / 2) - - (1 / 2) * (1 / 2))) with 1 by field. rewrite Rabs_R1. lra. }
  rewrite E. replace (2 * (- (1 / 2) * - (1 / 2) - - (1 / 2) * (1 / 2))) with 1 by field.
  destruct (Rltb 1 0) eqn:El; [apply Rltb_true in El; lra|]. rewrite asin_1.
  rewrite atan2F_neg_pos by lra.
  replace (1 / 2 / - (1 / 2)) with (- (1)) by field. rewrite atan_opp, atan_1.
  f_equal. split_pairs; try reflexivity. field.
Qed.

(* ================= rejection (check=True) by mat2SE3 / mat2Sim3 / mat2RxSO3; kinds of exception *)
Lemma omap_raises {A B} (f : A -> B) (o : outcome A) e : omap f o = Raises e <-> o = Raises e.
Proof. destruct o; cbn; split; intros H; try discriminate; congruence. Qed.
Lemma omap_raises_ex {A B} (f : A -> B) (o : outcome A) : (exists e, omap f o = Raises e) <-> exists e, o = Raises e.
Proof. split; intros [e H]; exists e; now apply (omap_raises f). Qed.

Theorem mat2SE3_check_raises rtol atol (Ms : list (@matin R)) :
  (exists e, mat2SE3 rtol atol true Ms = Raises e) <-> exists m, In m Ms /\ ~ within_tol rtol atol (in_rot m).
Proof.
  unfold mat2SE3. rewrite omap_raises_ex, mat2SO3_check_raises. split.
  - intros [M [HM Hn]]. apply in_map_iff in HM. destruct HM as [m [<- Hm]]. exists m. split; assumption.
  - intros [m [Hm Hn]]. exists (Some (in_rot m)). split; [apply in_map_iff; exists m; auto | exact Hn].
Qed.

(* the rank test: raises exactly on a non-empty batch whose scales are all within the tolerance of 0 *)
Definition all_rank_small (rtol atol : R) (Ms : list (@matin R)) : Prop :=
  Ms <> [] /\ forall m, In m Ms -> rank_small rtol atol (sc_item m) = true.
Lemma scale_stage_cases rtol atol Ms :
  (all_rank_small rtol atol Ms /\ scale_stage rtol atol Ms = Raises (ValueError E_rank)) \/
  (~ all_rank_small rtol atol Ms /\ scale_stage rtol atol Ms = Value (map sc_item Ms)).
Proof.
  destruct Ms as [|m0 Ms'].
  { right. split; [intros [H _]; now apply H | reflexivity]. }
  destruct (forallb (fun m => rank_small rtol atol (sc_item m)) (m0 :: Ms')) eqn:E.
  - left. assert (A : all_rank_small rtol atol (m0 :: Ms')).
    { split; [discriminate|]. now apply forallb_forall. }
    split; [exact A|]. apply scale_stage_allsmall; apply A.
  - right. apply forallb_false_ex in E. destruct E as [m [Hm Hf]]. split.
    + intros [_ A]. rewrite (A m Hm) in Hf. discriminate.
    + apply scale_stage_pass. exists m. split; assumption.
Qed.

Lemma div_items Ms : map (fun ms : @matin R * option R => mdiv3 (in_rot (fst ms)) (snd ms)) (combine Ms (map sc_item Ms)) = map div_item Ms.
Proof. rewrite combine_self_map, map_map. reflexivity. Qed.

Theorem mat2Sim3_check_raises_iff rtol atol (Ms : list (@matin R)) :
  (exists e, mat2Sim3 rtol atol true Ms = Raises e) <->
  all_rank_small rtol atol Ms \/ exists m, In m Ms /\ ~ item_within rtol atol (div_item m).
Proof.
  destruct (scale_stage_cases rtol atol Ms) as [[A E]|[A E]].
  - unfold mat2Sim3. rewrite E. cbn [obind]. split; [intros _; now left | intros _; eexists; reflexivity].
  - rewrite (mat2Sim3_check_raises _ _ _ _ E), div_items. split.
    + intros [M [HM Hn]]. right. apply in_map_iff in HM. destruct HM as [m [<- Hm]]. exists m. split; assumption.
    + intros [H|[m [Hm Hn]]]; [contradiction|]. exists (div_item m). split; [apply in_map_iff; exists m; auto | exact Hn].
Qed.
Lemma mat2RxSO3_check_raises rtol atol Ms ss :
  scale_stage rtol atol Ms = Value ss ->
  ((exists e, mat2RxSO3 rtol atol true Ms = Raises e) <->
   exists M, In M (map (fun ms => mdiv3 (in_rot (fst ms)) (snd ms)) (combine Ms ss)) /\ ~ item_within rtol atol M).
Proof.
  intros Hs. unfold mat2RxSO3. rewrite Hs. cbn [obind]. rewrite <- mat2SO3_check_raises. apply omap_raises_ex.
Qed.
Theorem mat2RxSO3_check_raises_iff rtol atol (Ms : list (@matin R)) :
  (exists e, mat2RxSO3 rtol atol true Ms = Raises e) <->
  all_rank_small rtol atol Ms \/ exists m, In m Ms /\ ~ item_within rtol atol (div_item m).
Proof.
  destruct (scale_stage_cases rtol atol Ms) as [[A E]|[A E]].
  - unfold mat2RxSO3. rewrite E. cbn [obind]. split; [intros _; now left | intros _; eexists; reflexivity].
  - rewrite (mat2RxSO3_check_raises _ _ _ _ E), div_items. split.
    + intros [M [HM Hn]]. right. apply in_map_iff in HM. destruct HM as [m [<- Hm]]. exists m. split; assumption.
    + intros [H|[m [Hm Hn]]]; [contradiction|]. exists (div_item m). split; [apply in_map_iff; exists m; auto | exact Hn].
Qed.

(* every exception is a ValueError with one of the documented messages (never a RuntimeError) *)
Definition is_VE (codes : list nat) (e : exn) : Prop := exists k, e = ValueError k /\ In k codes.
Lemma mat2SO3_raises_VE rtol atol check Ms e : mat2SO3 rtol atol check Ms = Raises e -> check = true /\ is_VE [E_orth; E_det] e.
Proof.
  unfold mat2SO3. destruct check; cbn [andb]; [|discriminate].
  destruct (negb (forallb (lift (orth_ok rtol atol)) Ms)); [intros [= <-]; split; [reflexivity|]; exists E_orth; split; [reflexivity | cbn; tauto]|].
  destruct (negb (forallb (lift (det_ok rtol atol)) Ms)); [intros [= <-]; split; [reflexivity|]; exists E_det; split; [reflexivity | cbn; tauto] | discriminate].
Qed.
Lemma mat2SE3_raises_VE rtol atol check Ms e : mat2SE3 rtol atol check Ms = Raises e -> check = true /\ is_VE [E_orth; E_det] e.
Proof. unfold mat2SE3. rewrite omap_raises. apply mat2SO3_raises_VE. Qed.
Lemma scale_stage_raises_VE rtol atol Ms e : scale_stage rtol atol Ms = Raises e -> e = ValueError E_rank.
Proof. unfold scale_stage. destruct (_ && _); [now intros [= <-] | discriminate]. Qed.
Lemma is_VE_weaken c1 c2 e : (forall k, In k c1 -> In k c2) -> is_VE c1 e -> is_VE c2 e.
Proof. intros H [k [E Hk]]. exists k. auto. Qed.
Lemma mat2Sim3_raises_VE rtol atol check Ms e : mat2Sim3 rtol atol check Ms = Raises e ->
  is_VE [E_rank; E_orth; E_det] e /\ (check = false -> e = ValueError E_rank).
Proof.
  unfold mat2Sim3. destruct (scale_stage rtol atol Ms) as [ss|e'] eqn:E; cbn [obind].
  - rewrite omap_raises. intros H. apply mat2SO3_raises_VE in H. destruct H as [-> H]. split; [|discriminate].
    revert H. apply is_VE_weaken. cbn. tauto.
  - intros [= <-]. apply scale_stage_raises_VE in E. subst e'. split; [exists E_rank; split; [reflexivity | cbn; tauto] | reflexivity].
Qed.
Lemma mat2RxSO3_raises_VE rtol atol check Ms e : mat2RxSO3 rtol atol check Ms = Raises e ->
  is_VE [E_rank; E_orth; E_det] e /\ (check = false -> e = ValueError E_rank).
Proof.
  unfold mat2RxSO3. destruct (scale_stage rtol atol Ms) as [ss|e'] eqn:E; cbn [obind].
  - rewrite omap_raises. intros H. apply mat2SO3_raises_VE in H. destruct H as [-> H]. split; [|discriminate].
    revert H. apply is_VE_weaken. cbn. tauto.
  - intros [= <-]. apply scale_stage_raises_VE in E. subst e'. split; [exists E_rank; split; [reflexivity | cbn; tauto] | reflexivity].
Qed.
Theorem from_matrix_raises_VE rtol atol ltype check rows cols (data : list (list R)) e :
  from_matrix_l rtol atol ltype check rows cols data = Raises e -> is_VE [E_size; E_orth; E_det; E_rank; E_ltype] e.
Proof.
  unfold from_matrix_l, mat2X_l. destruct (negb (accepted rows cols)); [intros [= <-]; exists E_size; split; [reflexivity | cbn; tauto]|].
  destruct (Nat.ltb 3 ltype); [intros [= <-]; exists E_ltype; split; [reflexivity | cbn; tauto]|].
  destruct ltype as [|[|[|[|n]]]]; unfold lmap; rewrite ?omap_raises; intros H.
  - apply mat2SO3_raises_VE in H. destruct H as [_ H]. revert H. apply is_VE_weaken. cbn. tauto.
  - apply mat2SE3_raises_VE in H. destruct H as [_ H]. revert H. apply is_VE_weaken. cbn. tauto.
  - apply mat2RxSO3_raises_VE in H. destruct H as [H _]. revert H. apply is_VE_weaken. cbn. tauto.
  - apply mat2Sim3_raises_VE in H. destruct H as [H _]. revert H. apply is_VE_weaken. cbn. tauto.
  - injection H as <-. exists E_ltype. split; [reflexivity | cbn; tauto].
Qed.
(* check=False: the unscaled conversions never raise *)
Lemma mat2SO3_nocheck_returns rtol atol Ms : exists out, mat2SO3 rtol atol false Ms = Value out.
Proof. eexists. apply mat2SO3_nocheck. Qed.
Lemma mat2SE3_nocheck_returns rtol atol Ms : exists out, mat2SE3 rtol atol false Ms = Value out.
Proof. unfold mat2SE3. rewrite mat2SO3_nocheck. eexists. reflexivity. Qed.

(* ---------------- concrete classes of rejected inputs *)
(* a reflection (orthogonal, det = -1): the determinant test fails as soon as atol + rtol < 2 *)
Lemma reflection_not_within rtol atol (M : @mat3 R) : atol + rtol < 2 -> mdet3 M = -1 -> ~ within_tol rtol atol M.
Proof.
  intros Ht Hd [_ D]. unfold detP, closeP in D. rewrite Hd in D.
  replace (-1 - 1) with (- (2)) in D by ring. rewrite Rabs_Ropp, Rabs_R1, Rabs_pos_eq in D by lra. lra.
Qed.
(* a scaled rotation s R with |s^2 - 1| beyond the tolerance: the orthogonality test fails *)
Lemma mscale3_orth s (A : @mat3 R) : mmul3 (mscale3 s A) (mtrans (mscale3 s A)) = mscale3 (s * s) (mmul3 A (mtrans A)).
Proof. lie_ring. Qed.
Lemma scaled_not_within rtol atol s (M : @mat3 R) : rotation M -> atol + rtol < Rabs (s * s - 1) ->
  ~ within_tol rtol atol (mscale3 s M).
Proof.
  intros [Ho _] Hs [O _]. specialize (O 0%nat 0%nat ltac:(lia) ltac:(lia)). unfold closeP in O.
  rewrite mscale3_orth, Ho in O. cbv [e3 delta Nat.eqb] in O. revert O. lie_unfold. rewrite Rabs_R1.
  replace (s * s * 1) with (s * s) by ring. lra.
Qed.
Theorem mat2SO3_rejects rtol atol (Ms : list (option (@mat3 R))) (M : @mat3 R) : In (Some M) Ms ->
  (atol + rtol < 2 /\ mdet3 M = -1) \/ (exists s R0, M = mscale3 s R0 /\ rotation R0 /\ atol + rtol < Rabs (s * s - 1)) ->
  exists k, mat2SO3 rtol atol true Ms = Raises (ValueError k) /\ (k = E_orth \/ k = E_det).
Proof.
  intros Hin Hbad.
  assert (Hn : ~ item_within rtol atol (Some M)).
  { cbn [item_within]. destruct Hbad as [[Ht Hd]|[s [R0 [-> [HR Hs]]]]]; [now apply reflection_not_within | now apply scaled_not_within]. }
  destruct (proj2 (mat2SO3_check_raises rtol atol Ms)) as [e He]; [exists (Some M); split; assumption|].
  destruct (mat2SO3_raises_VE _ _ _ _ _ He) as [_ [k [-> Hk]]]. exists k. split; [exact He|].
  destruct Hk as [<-|[<-|[]]]; auto.
Qed.

(* ---------------- the rank test on valid inputs: scales <= atol *)
Lemma rank_small_true rtol atol s : 0 < s -> s <= atol -> rank_small rtol atol (Some s) = true.
Proof.
  intros Hp Hs. unfold rank_small, lift. apply close_true. unfold closeP.
  replace (s - 0) with s by ring. rewrite Rabs_R0, Rabs_pos_eq by lra. lra.
Qed.
Theorem mat2Sim3_tiny_scales_raise rtol atol check l (Xs : list sim3R) :
  Xs <> [] -> Forall valid_Sim3 Xs -> (forall X, In X Xs -> snd (snd X) <= atol) ->
  mat2Sim3 rtol atol check (map (fun X => lay_in l (matrix4 Sim3_act4 X)) Xs) = Raises (ValueError E_rank).
Proof.
  intros Hne HX Hs. rewrite Forall_forall in HX. unfold mat2Sim3. rewrite scale_stage_allsmall; [reflexivity | |].
  - destruct Xs; [contradiction | discriminate].
  - intros m Hm. apply in_map_iff in Hm. destruct Hm as [X [<- HXin]]. destruct (HX X HXin) as [Hu Hp].
    rewrite Sim3_matrix_blocks, sc_item_scaled by assumption. apply rank_small_true; auto.
Qed.
Theorem mat2RxSO3_tiny_scales_raise rtol atol check l (Xs : list rxso3R) :
  Xs <> [] -> Forall valid_RxSO3 Xs -> (forall X, In X Xs -> snd X <= atol) ->
  mat2RxSO3 rtol atol check (map (fun X => lay_in l (matrix4 RxSO3_act4 X)) Xs) = Raises (ValueError E_rank).
Proof.
  intros Hne HX Hs. rewrite Forall_forall in HX. unfold mat2RxSO3. rewrite scale_stage_allsmall; [reflexivity | |].
  - destruct Xs; [contradiction | discriminate].
  - intros m Hm. apply in_map_iff in Hm. destruct Hm as [X [<- HXin]]. destruct (HX X HXin) as [Hu Hp].
    rewrite RxSO3_matrix4_blocks, sc_item_scaled by assumption. apply rank_small_true; auto.
Qed.
(* hence, for valid non-empty batches: the call returns iff some scale exceeds atol *)
Theorem mat2Sim3_returns_iff rtol atol check l (Xs : list sim3R) :
  0 <= rtol -> 0 <= atol < 1 -> Xs <> [] -> Forall valid_Sim3 Xs ->
  ((exists out, mat2Sim3 rtol atol check (map (fun X => lay_in l (matrix4 Sim3_act4 X)) Xs) = Value out) <->
   exists X, In X Xs /\ atol < snd (snd X)).
Proof.
  intros Hr Ha Hne HX. split.
  - intros [out E]. destruct (Exists_dec (fun X : sim3R => atol < snd (snd X)) Xs) as [Hex|Hno].
    + intros X. destruct (Rlt_dec atol (snd (snd X))); [now left | now right].
    + apply Exists_exists in Hex. exact Hex.
    + exfalso. rewrite mat2Sim3_tiny_scales_raise in E; [discriminate | assumption | assumption |].
      intros X HXin. destruct (Rle_or_lt (snd (snd X)) atol) as [H|H]; [exact H|].
      exfalso. apply Hno. apply Exists_exists. exists X. split; assumption.
  - intros Hex. destruct (mat2Sim3_roundtrip rtol atol check l Xs Hr Ha HX (or_intror Hex)) as [out [E _]]. now exists out.
Qed.

(* ---------------- from_matrix on ANY batch of 4x4 matrices handed over in layout l *)
Lemma parse_lay_map l (Ms : list (@mat4 R)) :
  map (parse_in (lay_rows l) (lay_cols l)) (map (lay_l l) Ms) = map (lay_in l) Ms.
Proof. rewrite map_map. apply map_ext. intros. apply parse_lay. Qed.
Theorem from_matrix_dispatch rtol atol check l (Ms : list (@mat4 R)) :
  from_matrix_l rtol atol 0 check (lay_rows l) (lay_cols l) (map (lay_l l) Ms) =
    lmap q_l (mat2SO3 rtol atol check (map (fun M => Some (in_rot (lay_in l M))) Ms)) /\
  from_matrix_l rtol atol 1 check (lay_rows l) (lay_cols l) (map (lay_l l) Ms) =
    lmap SE3_l (mat2SE3 rtol atol check (map (lay_in l) Ms)) /\
  from_matrix_l rtol atol 2 check (lay_rows l) (lay_cols l) (map (lay_l l) Ms) =
    lmap RxSO3_l (mat2RxSO3 rtol atol check (map (lay_in l) Ms)) /\
  from_matrix_l rtol atol 3 check (lay_rows l) (lay_cols l) (map (lay_l l) Ms) =
    lmap Sim3_l (mat2Sim3 rtol atol check (map (lay_in l) Ms)).
Proof.
  unfold from_matrix_l, mat2X_l. rewrite accepted_lay. cbn [negb Nat.ltb Nat.leb]. rewrite parse_lay_map, map_map.
  split; [reflexivity|]. split; [reflexivity|]. split; reflexivity.
Qed.

(* end to end: from_matrix on every rigid / similarity transformation matrix, every layout *)
Theorem from_matrix_SO3_rotation rtol atol check l (Ts : list (@mat3 R * vec3R)) :
  0 <= rtol -> 0 <= atol < 1 -> Forall (fun T => rotation (fst T)) Ts ->
  exists out, from_matrix_l rtol atol 0 check (lay_rows l) (lay_cols l) (map (fun T => lay_l l (block4 (fst T) (snd T))) Ts) =
                Value (map (option_map q_l) out) /\
              Forall2 (fun T o => so3_of (fst T) o) Ts out.
Proof.
  intros Hr Ha HT.
  assert (HM : Forall rotation (map fst Ts)) by (apply Forall_map; exact HT).
  destruct (mat2SO3_rotation rtol atol check (map fst Ts) Hr Ha HM) as [out [E F]].
  exists out. split.
  - rewrite <- (map_map (fun T => block4 (fst T) (snd T)) (lay_l l)).
    rewrite (proj1 (from_matrix_dispatch rtol atol check l _)). rewrite map_map.
    assert (E' : map (fun T : @mat3 R * vec3R => Some (in_rot (lay_in l (block4 (fst T) (snd T))))) Ts = map Some (map fst Ts)).
    { rewrite map_map. apply map_ext. intros T. now rewrite lay_block_rot. }
    rewrite E', E. reflexivity.
  - clear - F. remember (map fst Ts) as Ms eqn:EM. revert Ts EM.
    induction F as [|M o Ms out HMo F IH]; intros [|T Ts] EM; try discriminate; constructor.
    + injection EM as -> _. exact HMo.
    + apply IH. now injection EM.
Qed.
Theorem from_matrix_SE3_rotation rtol atol check l (Ts : list (@mat3 R * vec3R)) :
  0 <= rtol -> 0 <= atol < 1 -> Forall (fun T => rotation (fst T)) Ts ->
  exists out, from_matrix_l rtol atol 1 check (lay_rows l) (lay_cols l) (map (fun T => lay_l l (block4 (fst T) (snd T))) Ts) =
                Value (map (option_map SE3_l) out) /\
              Forall2 (se3_of l) Ts out.
Proof.
  intros Hr Ha HT. destruct (mat2SE3_rotation rtol atol check l Ts Hr Ha HT) as [out [E F]].
  exists out. split; [|exact F].
  rewrite <- (map_map (fun T => block4 (fst T) (snd T)) (lay_l l)).
  rewrite (proj1 (proj2 (from_matrix_dispatch rtol atol check l _))). rewrite map_map, E. reflexivity.
Qed.
Theorem from_matrix_Sim3_rotation rtol atol check l (Ts : list (@mat3 R * vec3R * R)) :
  0 <= rtol -> 0 <= atol < 1 -> Forall (fun T => rotation (fst (fst T)) /\ 0 < snd T) Ts ->
  (Ts = [] \/ exists T, In T Ts /\ atol < snd T) ->
  exists out, from_matrix_l rtol atol 3 check (lay_rows l) (lay_cols l)
                (map (fun T => lay_l l (block4 (mscale3 (snd T) (fst (fst T))) (snd (fst T)))) Ts) =
                Value (map (option_map Sim3_l) out) /\
              Forall2 (sim3_of l) Ts out.
Proof.
  intros Hr Ha HT Hs. destruct (mat2Sim3_rotation rtol atol check l Ts Hr Ha HT Hs) as [out [E F]].
  exists out. split; [|exact F].
  rewrite <- (map_map (fun T => block4 (mscale3 (snd T) (fst (fst T))) (snd (fst T))) (lay_l l)).
  rewrite (proj2 (proj2 (proj2 (from_matrix_dispatch rtol atol check l _)))). rewrite map_map, E. reflexivity.
Qed.
Theorem from_matrix_RxSO3_rotation rtol atol check l (Ts : list (@mat3 R * vec3R * R)) :
  0 <= rtol -> 0 <= atol < 1 -> Forall (fun T => rotation (fst (fst T)) /\ 0 < snd T) Ts ->
  (Ts = [] \/ exists T, In T Ts /\ atol < snd T) ->
  exists out, from_matrix_l rtol atol 2 check (lay_rows l) (lay_cols l)
                (map (fun T => lay_l l (block4 (mscale3 (snd T) (fst (fst T))) (snd (fst T)))) Ts) =
                Value (map (option_map RxSO3_l) out) /\
              Forall2 rxso3_of Ts out.
Proof.
  intros Hr Ha HT Hs. destruct (mat2RxSO3_rotation rtol atol check l Ts Hr Ha HT Hs) as [out [E F]].
  exists out. split; [|exact F].
  rewrite <- (map_map (fun T => block4 (mscale3 (snd T) (fst (fst T))) (snd (fst T))) (lay_l l)).
  rewrite (proj1 (proj2 (proj2 (from_matrix_dispatch rtol atol check l _)))). rewrite map_map, E. reflexivity.
Qed.

(* ---------------- the hypotheses are satisfiable (non-trivial instances) *)
(* a proper rotation with no zero entry (angle 60 degrees about (1,1,1)/sqrt 3) and the rotation by exactly pi about y *)
Example rotation_example : rotation ((2/3, -(1/3), 2/3), (2/3, 2/3, -(1/3)), (-(1/3), 2/3, 2/3)).
Proof. unfold rotation. lie_unfold. split; [split_pairs; field | field]. Qed.
Example rotation_pi_about_y : rotation ((-1, 0, 0), (0, 1, 0), (0, 0, -1)).
Proof. unfold rotation. lie_unfold. split; [split_pairs; ring | ring]. Qed.
(* a reflection is rejected, a matrix scaled by 2 is rejected (default tolerances) *)
Example reflection_example : mdet3 ((1, 0, 0), (0, 1, 0), (0, 0, -1)) = -1 /\ 1 / 100000 + 1 / 100000 < 2.
Proof. split; [lie_unfold; ring | lra]. Qed.
Example scaled_example : 1 / 100000 + 1 / 100000 < Rabs (2 * 2 - 1).
Proof. rewrite Rabs_pos_eq; lra. Qed.
(* a unit quaternion off the gimbal branch with all three angles non-zero, for the default eps *)
Example euler_hyp_example : unitq ((1/5, 2/5, 2/5), 4/5) /\
  Rabs (2 * (4/5 * (2/5) - 2/5 * (1/5))) < 1 - 1 / 5000.
Proof. split; [unfold unitq; lie_unfold; field|]. replace (2 * (4/5 * (2/5) - 2/5 * (1/5))) with (12/25) by field. rewrite Rabs_pos_eq; lra. Qed.
(* angles satisfying the hypotheses of euler_of_euler2SO3 *)
Example euler_angles_example : - PI < PI / 4 <= PI /\ - (PI / 2) <= PI / 6 <= PI / 2 /\ - PI < - (PI / 3) <= PI /\
  Rabs (sin (PI / 6)) < 1 - 1 / 5000.
Proof. pose proof PI_RGT_0. rewrite sin_PI6, Rabs_pos_eq by lra. repeat split; lra. Qed.

(* ---------------- the extraction is total: the selected radicand is >= 1 - |atol| for EVERY 3x3 matrix
   (the branch conditions alone imply it), hence positive for -1 < atol < 1: for every matrix (rotation or not), so no item of a returned batch is non-finite; for atol > 1
   the identity matrix selects the branch with radicand 0 (the tolerance is reused as threshold) *)
Theorem disc_bound_any atol (M : @mat3 R) : 1 - Rabs atol <= mat2SO3_disc atol M.
Proof.
  unfold mat2SO3_disc, masks, disc0, disc1, disc2, disc3, comb. cbn [sel_c0 sel_c1 sel_c2 sel_c3].
  generalize (mtrans M). intros T.
  generalize (e3 T 0 0) (e3 T 1 1) (e3 T 2 2). intros t00 t11 t22.
  pose proof (Rle_abs atol) as A1. pose proof (Rle_abs (- atol)) as A2. rewrite Rabs_Ropp in A2.
  cbv [ltb NumR]. num_unfold.
  destruct (Rltb t22 atol) eqn:Hd2; [apply Rltb_true in Hd2 | apply Rltb_false in Hd2].
  - destruct (Rltb t11 t00) eqn:Hd01; [apply Rltb_true in Hd01 | apply Rltb_false in Hd01];
    cbn [andb negb b2f]; num_unfold; lra.
  - destruct (Rltb t00 (- t11)) eqn:Hd0n1; [apply Rltb_true in Hd0n1 | apply Rltb_false in Hd0n1];
    cbn [andb negb b2f]; num_unfold; lra.
Qed.
Lemma core_disc atol (M : @mat3 R) : 0 < mat2SO3_disc atol M -> exists q, mat2SO3_core atol M = Some q.
Proof.
  intros Hp. unfold mat2SO3_core. fold (mat2SO3_disc atol M).
  cbv [leb zero NumR]. destruct (Rleb (mat2SO3_disc atol M) 0) eqn:E; [apply Rleb_true in E; exfalso; exact (Rlt_irrefl _ (Rlt_le_trans _ _ _ Hp E))|].
  eexists. reflexivity.
Qed.
Theorem core_finite atol (M : @mat3 R) : -1 < atol < 1 -> exists q, mat2SO3_core atol M = Some q.
Proof.
  intros Ha. apply core_disc. pose proof (disc_bound_any atol M) as H.
  assert (Rabs atol < 1) by (apply Rabs_def1; lra). lra.
Qed.
Theorem mat2SO3_nocheck_finite rtol atol (Ms : list (@mat3 R)) : -1 < atol < 1 ->
  exists qs, mat2SO3 rtol atol false (map Some Ms) = Value (map Some qs) /\ length qs = length Ms.
Proof.
  intros Ha. rewrite mat2SO3_nocheck. induction Ms as [|M Ms [qs [IH L]]].
  - exists []. split; reflexivity.
  - destruct (core_finite atol M Ha) as [q E]. exists (q :: qs). cbn [map so3_item obindo length]. rewrite E.
    injection IH as IH. rewrite IH. split; [reflexivity | now rewrite L].
Qed.
Theorem core_large_atol_identity atol : 1 < atol -> mat2SO3_core atol (@mid3 R _) = None.
Proof.
  intros Ha. unfold mat2SO3_core, masks, disc0, disc1, disc2, disc3, comb. cbn [sel_c0 sel_c1 sel_c2 sel_c3].
  cbv [e3 mtrans mcol mid3 mr0 mr1 mr2 vx vy vz fst snd]. cbv [ltb leb NumR]. num_unfold.
  destruct (Rltb 1 atol) eqn:E1; [|apply Rltb_false in E1; lra].
  destruct (Rltb 1 1) eqn:E2; [apply Rltb_true in E2; lra|].
  cbn [andb negb b2f]. num_unfold.
  match goal with |- context [Rleb ?r 0] => replace r with 0 by ring end.
  destruct (Rleb 0 0) eqn:E3; [reflexivity | apply Rleb_false in E3; lra].
Qed.

(* ---------------- unit quaternions with the same matrix agree up to sign (exact double cover) *)
Theorem same_matrix_qsame (q1 q2 : quatR) : unitq q1 -> unitq q2 -> SO3_matrix q1 = SO3_matrix q2 -> qsame q1 q2.
Proof.
  intros H1 H2 E.
  destruct (core_roundtrip_same 0 q1 ltac:(lra) H1) as [a [Ea Sa]].
  destruct (core_roundtrip_same 0 q2 ltac:(lra) H2) as [b [Eb Sb]].
  rewrite E in Ea. rewrite Ea in Eb. injection Eb as <-.
  assert (Inv : forall q : quatR, qnegate (qnegate q) = q).
  { intros [[[x y] z] w]. unfold qnegate. lie_unfold. split_pairs; ring. }
  unfold qsame in *. destruct Sa as [-> | ->]; destruct Sb as [Sb | Sb].
  - left. now symmetry.
  - right. rewrite Sb. now rewrite Inv.
  - right. now symmetry.
  - left. rewrite <- (Inv q2), <- Sb. now rewrite Inv.
Qed.
(* hence the Euler round trip returns the quaternion itself up to sign *)
Theorem euler_roundtrip_quat eps (q : quatR) : 0 <= eps -> unitq q ->
  Rabs (2 * (qw q * vy (qv q) - vz (qv q) * vx (qv q))) < 1 - eps ->
  exists e, euler eps q = Some e /\ qsame q (euler2SO3 e).
Proof.
  intros He Hu Hg. destruct (euler_roundtrip eps q He Hu Hg) as [r [p [y [E [HM _]]]]].
  exists (r, p, y). split; [exact E|]. apply same_matrix_qsame; [exact Hu | apply euler2SO3_unit | now symmetry].
Qed.

(* ---------------- mat2SE3 / mat2Sim3 read the 3x3 block and the translation column only (the last row
   of a 4x4 input is ignored - the code only warns about it) *)
Lemma mat2SE3_rot_trans_only rtol atol check (Ms Ms' : list (@matin R)) :
  map in_rot Ms = map in_rot Ms' -> map in_trans Ms = map in_trans Ms' ->
  mat2SE3 rtol atol check Ms = mat2SE3 rtol atol check Ms'.
Proof.
  intros Hr Ht. unfold mat2SE3.
  assert (E1 : forall L : list (@matin R), map (fun m => Some (in_rot m)) L = map Some (map in_rot L)) by (intros; now rewrite map_map).
  rewrite !E1, Hr. destruct (mat2SO3 rtol atol check (map Some (map in_rot Ms'))) as [qs|e]; [|reflexivity]. cbn [omap]. f_equal.
  assert (E2 : forall L : list (@matin R), map (fun mq : @matin R * option quatR => option_map (fun q : quatR => (in_trans (fst mq), q)) (snd mq)) (combine L qs) =
                 map (fun tq : vec3R * option quatR => option_map (fun q : quatR => (fst tq, q)) (snd tq)) (combine (map in_trans L) qs))
    by (intros; rewrite combine_map_l, map_map; reflexivity).
  now rewrite !E2, Ht.
Qed.
Lemma mat2Sim3_rot_trans_only rtol atol check (Ms Ms' : list (@matin R)) :
  map in_rot Ms = map in_rot Ms' -> map in_trans Ms = map in_trans Ms' ->
  mat2Sim3 rtol atol check Ms = mat2Sim3 rtol atol check Ms'.
Proof.
  intros Hr Ht. unfold mat2Sim3. rewrite (scale_stage_rot_only _ _ _ _ Hr).
  destruct (scale_stage rtol atol Ms') as [ss|e]; [|reflexivity]. cbn [obind].
  assert (E : forall L : list (@matin R), map (fun ms => mdiv3 (in_rot (fst ms)) (snd ms)) (combine L ss) =
                     map (fun rs => mdiv3 (fst rs) (snd rs)) (combine (map in_rot L) ss))
    by (intros; rewrite combine_map_l, map_map; reflexivity).
  rewrite !E, Hr. destruct (mat2SO3 rtol atol check _) as [qs|e]; [|reflexivity]. cbn [omap]. f_equal.
  assert (E2 : forall L : list (@matin R),
     map (fun msq : @matin R * option R * option quatR => match msq with (m, s, q) =>
            obindo s (fun s => option_map (fun q : quatR => (in_trans m, (q, s))) q) end) (combine (combine L ss) qs) =
     map (fun tsq : vec3R * option R * option quatR => match tsq with (t, s, q) =>
            obindo s (fun s => option_map (fun q : quatR => (t, (q, s))) q) end) (combine (combine (map in_trans L) ss) qs)).
  { intros L. rewrite (combine_map_l in_trans L ss), combine_map_l, map_map. apply map_ext. intros [[m s] q]. reflexivity. }
  now rewrite !E2, Ht.
Qed.
Theorem last_row_ignored rtol atol check (Rs : list (@mat3 R * vec3R)) (last last' : vec4R) :
  let f (b : vec4R) := map (fun Rt : @mat3 R * vec3R => In44 (fst Rt) (snd Rt) b) Rs in
  mat2SE3 rtol atol check (f last) = mat2SE3 rtol atol check (f last') /\
  mat2Sim3 rtol atol check (f last) = mat2Sim3 rtol atol check (f last') /\
  mat2RxSO3 rtol atol check (f last) = mat2RxSO3 rtol atol check (f last').
Proof.
  intros f. unfold f.
  assert (Er : forall b : vec4R, map in_rot (map (fun Rt : @mat3 R * vec3R => In44 (fst Rt) (snd Rt) b) Rs) = map fst Rs)
    by (intros; rewrite map_map; reflexivity).
  assert (Et : forall b : vec4R, map in_trans (map (fun Rt : @mat3 R * vec3R => In44 (fst Rt) (snd Rt) b) Rs) = map snd Rs)
    by (intros; rewrite map_map; reflexivity).
  split; [|split].
  - apply mat2SE3_rot_trans_only; now rewrite ?Er, ?Et.
  - apply mat2Sim3_rot_trans_only; now rewrite ?Er, ?Et.
  - apply mat2RxSO3_rot_only; now rewrite !Er.
Qed.

(* a valid Sim3 element below the default rank tolerance; a unit quaternion exactly at the gimbal lock *)
Example tiny_scale_example : valid_Sim3 ((1, 2, 3), (((3/5, 0, 0), 4/5), 1 / 200000)) /\ 1 / 200000 <= 1 / 100000.
Proof. split; [|lra]. unfold valid_Sim3, unitq. cbn [fst snd]. split; [lie_unfold; field | lra]. Qed.
Example gimbal_lock_example : unitq ((1 / 2, - (1 / 2), - (1 / 2)), - (1 / 2)) /\
  Rabs (2 * (- (1 / 2) * - (1 / 2) - - (1 / 2) * (1 / 2))) = 1.
Proof.
  split; [unfold unitq; lie_unfold; field|].
  replace (2 * (- (1 / 2) * - (1 / 2) - - (1 / 2) * (1 / 2))) with 1 by field. apply Rabs_R1.
Qed.
