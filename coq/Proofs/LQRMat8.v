(* C14, arbitrary dimensions: zero gradient.  Along every line  us + e ds  through the returned input
   sequence the cost of the matrix transcription (Proofs/LQRMat2.v) is  c + h e^2  with h >= 0, so every
   directional derivative - in particular every partial derivative with respect to a component of an
   input - is 0. *)
From Coq Require Import ZArith List Arith Lia Reals Lra.
From Coquelicot Require Import Coquelicot.
Import ListNotations.
From PV Require Import Base.Num Base.Mat Model.Dynamics Proofs.LQRMat1 Proofs.LQRMat2 Proofs.LQRMat3.
From PV Require Proofs.LQR3.
#[local] Remove Hints NumQ NumZ : typeclass_instances.
Local Open Scope R_scope.

Fixpoint lineN (us ds : list (list R)) (e : R) : list (list R) :=
  match us, ds with u :: ur, d :: dr => vplus u (vscal e d) :: lineN ur dr e | _, _ => [] end.

Section GradN.
Variables ns nc : nat.

Lemma lineN_len : forall us ds e, length ds = length us -> length (lineN us ds e) = length us.
Proof.
  induction us as [|u ur IH]; intros ds e H; [reflexivity|]. destruct ds as [|d dr]; [discriminate|].
  cbn [lineN length]. f_equal. apply IH. now injection H.
Qed.
Lemma lineN_lenc : forall us ds e, Forall (lenc nc) us -> Forall (lenc nc) (lineN us ds e).
Proof.
  induction us as [|u ur IH]; intros ds e H; [constructor|]. destruct ds as [|d dr]; [constructor|].
  cbn [lineN]. constructor; [|apply IH; exact (Forall_inv_tail H)].
  pose proof (Forall_inv H) as Hu. unfold lenc in *. now rewrite length_vplus.
Qed.

(* bilinear and linear forms along a line *)
Lemma bil_scal_l (M : matR) x a y : bil M (vscal a x) y = a * bil M x y.
Proof. unfold bil. apply vdot_vscal_l. Qed.
Lemma bil_line n m (M : matR) a b c d e : wf n m M -> length a = n -> length b = n -> length c = m -> length d = m ->
  bil M (vplus a (vscal e b)) (vplus c (vscal e d)) =
  bil M a c + e * (bil M a d + bil M b c) + e * e * bil M b d.
Proof.
  intros W La Lb Lc Ld.
  rewrite (bil_plus_l n) by len. rewrite !(bil_plus_r n m) by len.
  rewrite !bil_scal_l. rewrite !(bil_scal_r n m) by len. ring.
Qed.
Lemma vdot_line n (a b p : list R) e : length a = n -> length b = n ->
  vdot (vplus a (vscal e b)) p = vdot a p + e * vdot b p.
Proof. intros La Lb. rewrite (vdot_vplus_l' n) by len. now rewrite vdot_vscal_l. Qed.

Lemma stage_cost_line st x dx u d e : wfstage ns nc st ->
  length x = ns -> length dx = ns -> length u = nc -> length d = nc ->
  stage_costN st (vplus x (vscal e dx)) (vplus u (vscal e d)) =
  stage_costN st x u
  + e * (1 / 2 * (bil (Nxx st) x dx + bil (Nxx st) dx x + (bil (Nxu st) x d + bil (Nxu st) dx u)
                  + (bil (Nux st) u dx + bil (Nux st) d x) + (bil (Nuu st) u d + bil (Nuu st) d u))
         + (vdot dx (npx st) + vdot d (npu st)))
  + e * e * (1 / 2 * bqN st dx d).
Proof.
  intros (W1 & W2 & W3 & W4 & L1 & L2) Lx Ldx Lu Ld. unfold stage_costN, bqN.
  rewrite (bil_line ns ns), (bil_line ns nc), (bil_line nc ns), (bil_line nc nc) by assumption.
  rewrite (vdot_line ns), (vdot_line nc) by assumption. ring.
Qed.

Lemma sN_next_line s t x dx u d e : wfsys ns nc s ->
  length x = ns -> length dx = ns -> length u = nc -> length d = nc ->
  sN_next s t (vplus x (vscal e dx)) (vplus u (vscal e d)) =
  vplus (sN_next s t x u) (vscal e (vplus (mapply (nA s t) dx) (mapply (nB s t) d))).
Proof.
  intros W Lx Ldx Lu Ld. destruct (W t) as (WA & WB & WC). unfold sN_next.
  rewrite (mapply_vplus ns ns), (mapply_vplus ns nc) by len.
  rewrite (mapply_vscal ns ns), (mapply_vscal ns nc) by assumption.
  assert (L1 : length (mapply (nA s t) x) = ns) by len. assert (L2 : length (mapply (nA s t) dx) = ns) by len.
  assert (L3 : length (mapply (nB s t) u) = ns) by len. assert (L4 : length (mapply (nB s t) d) = ns) by len.
  destruct (nC s t) as [c|].
  - apply (vec_ext ns); [len|len|]. intros i Hi.
    rewrite !vget_vplus by (rewrite ?length_vplus, ?length_vscal; lia).
    rewrite !vget_vscal by (rewrite ?length_vplus; lia). rewrite !vget_vplus by lia. mnum. ring.
  - apply (vec_ext ns); [len|len|]. intros i Hi.
    rewrite !vget_vplus by (rewrite ?length_vplus, ?length_vscal; lia).
    rewrite !vget_vscal by (rewrite ?length_vplus; lia). rewrite !vget_vplus by lia. mnum. ring.
Qed.

(* the cost along a line in (state, inputs) space is a quadratic polynomial of the parameter *)
Lemma JcostN_line_quadratic s : wfsys ns nc s -> forall prob, Forall (wfstage ns nc) prob ->
  forall t x dx us ds, length x = ns -> length dx = ns -> Forall (lenc nc) us -> Forall (lenc nc) ds ->
  exists g h, forall e,
    JcostN s t (vplus x (vscal e dx)) prob (lineN us ds e) = JcostN s t x prob (lineN us ds 0) + g * e + h * (e * e).
Proof.
  intros W. induction prob as [|st pr IH]; intros Hw t x dx us ds Lx Ldx Hus Hds.
  - exists 0, 0. intros e. cbn [JcostN]. ring.
  - destruct us as [|u ur]; [exists 0, 0; intros e; cbn [lineN JcostN]; ring|].
    destruct ds as [|d dr]; [exists 0, 0; intros e; cbn [lineN JcostN]; ring|].
    pose proof (Forall_inv Hw) as Hst. pose proof (Forall_inv_tail Hw) as Hw'.
    pose proof (Forall_inv Hus) as Lu. pose proof (Forall_inv_tail Hus) as Hus'.
    pose proof (Forall_inv Hds) as Ld. pose proof (Forall_inv_tail Hds) as Hds'. unfold lenc in Lu, Ld.
    destruct (W t) as (WA & WB & _).
    assert (L0 : length (vplus u (vscal 0 d)) = nc) by len.
    destruct (IH Hw' (t + 1)%Z (sN_next s t x (vplus u (vscal 0 d))) (vplus (mapply (nA s t) dx) (mapply (nB s t) d)) ur dr
                ltac:(apply (sN_next_len ns nc); assumption) ltac:(len) Hus' Hds') as (g' & h' & H').
    (* u + e d = (u + 0 d) + e d *)
    assert (Eu : forall e, vplus u (vscal e d) = vplus (vplus u (vscal 0 d)) (vscal e d)).
    { intros e. apply (vec_ext nc); [len|len|]. intros i Hi.
      rewrite !vget_vplus by (rewrite ?length_vplus; lia). rewrite !vget_vscal by lia. mnum. ring. }
    eexists. eexists. intros e. cbn [lineN JcostN].
    rewrite (Eu e) at 1 2. rewrite (sN_next_line s t x dx (vplus u (vscal 0 d)) d e W Lx Ldx L0 Ld).
    rewrite H'. rewrite (stage_cost_line st x dx (vplus u (vscal 0 d)) d e Hst Lx Ldx L0 Ld).
    match goal with |- ?s0 + e * ?a + e * e * ?b + (?j0 + g' * e + h' * (e * e)) = _ =>
      instantiate (1 := b + h'); instantiate (1 := a + g') end.
    ring.
Qed.
End GradN.

Lemma lineN_0 nc : forall us ds, length ds = length us -> Forall (lenc nc) us -> Forall (lenc nc) ds -> lineN us ds 0 = us.
Proof.
  induction us as [|u ur IH]; intros ds H Hu Hd; [reflexivity|]. destruct ds as [|d dr]; [discriminate|].
  cbn [lineN]. rewrite IH; [|now injection H|exact (Forall_inv_tail Hu)|exact (Forall_inv_tail Hd)].
  f_equal. pose proof (Forall_inv Hu) as Lu. pose proof (Forall_inv Hd) as Ld. unfold lenc in *.
  apply (vec_ext nc); [len|assumption|]. intros i Hi.
  rewrite vget_vplus by lia. rewrite vget_vscal by lia. mnum. ring.
Qed.

Section GradSolve.
Variables ns nc : nat.
Variable Lt : Type.
Variable chol : matR -> option Lt.
Variable csm : Lt -> matR -> matR.
Variable csv : Lt -> list R -> list R.
Hypothesis chol_sound : forall Quu L, wf nc nc Quu -> chol Quu = Some L ->
  (forall m M, wf nc m M -> wf nc m (csm L M) /\ mmul Quu (csm L M) = M) /\
  (forall b, length b = nc -> length (csv L b) = nc /\ mapply Quu (csv L b) = b).

Theorem lqrN_no_first_order s dt prob x0 un tm xs us c tm' :
  wfsys ns nc s -> coherentN s dt -> Forall (pdN ns nc) prob -> length x0 = ns -> nominalN_ok nc prob un ->
  lqrN_solve nc Lt chol csm csv s dt prob x0 un tm = Some (xs, us, c, tm') ->
  forall ds, length ds = length prob -> Forall (lenc nc) ds -> exists h, 0 <= h /\
    forall e, JcostN s 0 x0 prob (lineN us ds e) = c + h * (e * e).
Proof.
  intros W Hco Hpd Hx Hn H ds Hl Hd.
  destruct (lqrN_optimal ns nc Lt chol csm csv chol_sound _ _ _ _ _ _ _ _ _ _ W Hco Hpd Hx Hn H) as (L1 & L2 & _ & _ & L3 & L4 & _).
  assert (Hw : Forall (wfstage ns nc) prob).
  { apply Forall_forall. intros st Hst. rewrite Forall_forall in Hpd. exact (proj1 (Hpd st Hst)). }
  destruct (JcostN_line_quadratic ns nc s W prob Hw 0%Z x0 (vzero ns) us ds Hx (length_vzero ns) L2 Hd) as (g & h & Hq).
  assert (E0 : forall e, vplus x0 (vscal e (vzero ns)) = x0).
  { intros e. apply (vec_ext ns); [len|assumption|]. intros i Hi.
    rewrite vget_vplus by lia. rewrite vget_vscal by (rewrite length_vzero; lia).
    unfold vzero. rewrite vget_mkvec by assumption. mnum. ring. }
  assert (Hq' : forall e, JcostN s 0 x0 prob (lineN us ds e) = c + g * e + h * (e * e)).
  { intros e. specialize (Hq e). rewrite E0 in Hq. rewrite Hq.
    rewrite (lineN_0 nc) by (congruence || assumption). now rewrite <- L3. }
  destruct (LQR3.no_linear_term c g h) as [Hg Hh].
  { intros e. rewrite <- Hq'. apply L4; [rewrite lineN_len; congruence|apply lineN_lenc; exact L2]. }
  exists h. split; [exact Hh|]. intros e. rewrite Hq', Hg. ring.
Qed.

Theorem lqrN_gradient_zero s dt prob x0 un tm xs us c tm' :
  wfsys ns nc s -> coherentN s dt -> Forall (pdN ns nc) prob -> length x0 = ns -> nominalN_ok nc prob un ->
  lqrN_solve nc Lt chol csm csv s dt prob x0 un tm = Some (xs, us, c, tm') ->
  forall ds, length ds = length prob -> Forall (lenc nc) ds ->
    is_derive (fun e => JcostN s 0 x0 prob (lineN us ds e)) 0 0.
Proof.
  intros W Hco Hpd Hx Hn H ds Hl Hd.
  destruct (lqrN_no_first_order s dt prob x0 un tm xs us c tm' W Hco Hpd Hx Hn H ds Hl Hd) as (h & _ & Hq).
  apply (is_derive_ext (fun e => c + h * (e * e))); [intros e; symmetry; apply Hq|].
  auto_derive; [exact I|ring].
Qed.
End GradSolve.
