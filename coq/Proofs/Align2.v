(* C17, second part: UNIQUENESS of the recovered transform.  For exact correspondences under a true
   rigid (similarity) transform of a cloud that contains three non-collinear points, the (R, t)
   (the (s, R, t)) that svdtf (svdstf) computes IS the true transform -- for every SVD answer meeting
   the contract; for collinear clouds the transform is not determined by the data (refutation). *)
From Coq Require Import Reals Lra Psatz List Nsatz ZArith Bool Arith.
Import ListNotations.
From PV Require Import Base.Num Base.RTac Model.LieGroup Model.Controller Model.Align Proofs.LieGroup Proofs.Align.
Local Open Scope R_scope.
#[local] Remove Hints NumQ NumZ : typeclass_instances.

(* ---------------------------------------------------------------- linear algebra *)
(* a rotation maps cross products to cross products *)
Lemma rot_cross (A : mat3R) (a b : vec3R) : rot A ->
  mvmul A (vcross a b) = vcross (mvmul A a) (mvmul A b).
Proof.
  intros [H Hd]. pose proof (orth_left A H) as HL.
  destruct_tuples. al_unfold.
  injection H as H1 H2 H3 H4 H5 H6 H7 H8 H9.
  injection HL as L1 L2 L3 L4 L5 L6 L7 L8 L9.
  split_pairs; nsatz.
Qed.

(* reciprocal basis of (d1, d2, d1 x d2) *)
Lemma dual_basis (r d1 d2 : vec3R) :
  let n := vcross d1 d2 in
  vscale (vdot n n) r =
  vadd (vadd (vscale (vdot r d1) (vcross d2 n)) (vscale (vdot r d2) (vcross n d1))) (vscale (vdot r n) n).
Proof. cbv zeta. al_ring. Qed.

Lemma vec_zero_of_dots (r d1 d2 : vec3R) :
  vcross d1 d2 <> vzero ->
  vdot r d1 = 0 -> vdot r d2 = 0 -> vdot r (vcross d1 d2) = 0 -> r = vzero.
Proof.
  intros Hn H1 H2 H3. pose proof (dual_basis r d1 d2) as E. cbv zeta in E.
  rewrite H1, H2, H3 in E.
  assert (Hnn : vdot (vcross d1 d2) (vcross d1 d2) <> 0).
  { intros H0. apply Hn. apply sqnorm_zero. exact H0. }
  set (n := vcross d1 d2) in *. set (k := vdot n n) in *. clearbody k. clearbody n.
  destruct r as [[r1 r2] r3]. destruct n as [[n1 n2] n3]. destruct d1 as [[a1 a2] a3]. destruct d2 as [[b1 b2] b3].
  al_unfold. injection E as E1 E2 E3.
  assert (k * r1 = 0) by lra. assert (k * r2 = 0) by lra. assert (k * r3 = 0) by lra.
  assert (r1 = 0) by (apply (Rmult_eq_reg_l k); [lra | exact Hnn]).
  assert (r2 = 0) by (apply (Rmult_eq_reg_l k); [lra | exact Hnn]).
  assert (r3 = 0) by (apply (Rmult_eq_reg_l k); [lra | exact Hnn]).
  subst. reflexivity.
Qed.

Definition msub3 (A B : mat3R) : mat3R := (vsub (mr0 A) (mr0 B), vsub (mr1 A) (mr1 B), vsub (mr2 A) (mr2 B)).
Lemma mvmul_msub3 A B d : mvmul (msub3 A B) d = vsub (mvmul A d) (mvmul B d).
Proof. unfold msub3. al_ring. Qed.
Lemma vsub_self (a : vec3R) : vsub a a = vzero.
Proof. al_ring. Qed.
Lemma msub3_zero A B : msub3 A B = (vzero, vzero, vzero) -> A = B.
Proof.
  unfold msub3. intros H.
  pose proof (f_equal (fun m : mat3R => mr0 m) H) as H0.
  pose proof (f_equal (fun m : mat3R => mr1 m) H) as H1.
  pose proof (f_equal (fun m : mat3R => mr2 m) H) as H2.
  cbn [mr0 mr1 mr2 fst snd] in H0, H1, H2. clear H.
  apply vsub_zero in H0, H1, H2.
  destruct A as [[a0 a1] a2], B as [[b0 b1] b2]. cbn [mr0 mr1 mr2 fst snd] in *. now subst.
Qed.
(* two linear maps that agree on d1, d2 and d1 x d2 (independent) are equal *)
Lemma mat_eq_on_basis (A B : mat3R) (d1 d2 : vec3R) :
  vcross d1 d2 <> vzero ->
  mvmul A d1 = mvmul B d1 -> mvmul A d2 = mvmul B d2 ->
  mvmul A (vcross d1 d2) = mvmul B (vcross d1 d2) -> A = B.
Proof.
  intros Hn H1 H2 H3. apply msub3_zero.
  assert (E1 : mvmul (msub3 A B) d1 = vzero) by (rewrite mvmul_msub3, H1; apply vsub_self).
  assert (E2 : mvmul (msub3 A B) d2 = vzero) by (rewrite mvmul_msub3, H2; apply vsub_self).
  assert (E3 : mvmul (msub3 A B) (vcross d1 d2) = vzero) by (rewrite mvmul_msub3, H3; apply vsub_self).
  set (M := msub3 A B) in *. clearbody M. destruct M as [[r0 r1] r2].
  unfold mvmul in E1, E2, E3. cbn [mr0 mr1 mr2 fst snd] in E1, E2, E3.
  injection E1 as E10 E11 E12. injection E2 as E20 E21 E22. injection E3 as E30 E31 E32.
  rewrite (vec_zero_of_dots r0 d1 d2 Hn E10 E20 E30).
  rewrite (vec_zero_of_dots r1 d1 d2 Hn E11 E21 E31).
  rewrite (vec_zero_of_dots r2 d1 d2 Hn E12 E22 E32). reflexivity.
Qed.

(* ---------------------------------------------------------------- non-collinear clouds *)
(* the cloud contains three points that are not on one line *)
Definition noncollinear (l : cloudR) : Prop :=
  exists a b c, In a l /\ In b l /\ In c l /\ vcross (vsub b a) (vsub c a) <> vzero.

Lemma mvmul_vsub (A : mat3R) (a b : vec3R) : mvmul A (vsub a b) = vsub (mvmul A a) (mvmul A b).
Proof. al_ring. Qed.
Lemma rigid_diff A t a b : vsub (rigid_apply A t b) (rigid_apply A t a) = mvmul A (vsub b a).
Proof. al_ring. Qed.

(* two rigid transforms that agree on a non-collinear cloud are the same transform *)
Theorem rigid_unique (A B : mat3R) (t u : vec3R) (l : cloudR) :
  rot A -> rot B -> noncollinear l ->
  (forall p, In p l -> rigid_apply A t p = rigid_apply B u p) -> A = B /\ t = u.
Proof.
  intros HA HB (a & b & c & Ia & Ib & Ic & Hn) Heq.
  pose proof (Heq a Ia) as Ea. pose proof (Heq b Ib) as Eb. pose proof (Heq c Ic) as Ec.
  assert (D1 : mvmul A (vsub b a) = mvmul B (vsub b a))
    by (rewrite <- (rigid_diff A t a b), <- (rigid_diff B u a b), Ea, Eb; reflexivity).
  assert (D2 : mvmul A (vsub c a) = mvmul B (vsub c a))
    by (rewrite <- (rigid_diff A t a c), <- (rigid_diff B u a c), Ea, Ec; reflexivity).
  assert (EAB : A = B).
  { apply (mat_eq_on_basis A B _ _ Hn D1 D2). rewrite !rot_cross by assumption. now rewrite D1, D2. }
  split; [exact EAB|]. subst B. clear - Ea.
  unfold rigid_apply in Ea. set (v := mvmul A a) in *. clearbody v.
  destruct v as [[v1 v2] v3], t as [[t1 t2] t3], u as [[u1 u2] u3]. al_unfold.
  injection Ea as E1 E2 E3. split_pairs; lra.
Qed.

Lemma Forall2_map_In {X Y} (f g : X -> Y) : forall l, Forall2 (fun p q => f p = q) l (map g l) ->
  forall p, In p l -> f p = g p.
Proof.
  induction l as [|x l IH]; intros H p Hp; [contradiction|].
  cbn [map] in H. inversion H; subst. destruct Hp as [-> | Hp]; [assumption | now apply IH].
Qed.

Lemma noncollinear_nonempty l : noncollinear l -> l <> [].
Proof. intros (a & _ & _ & Ia & _) ->. contradiction. Qed.

(* ---------------------------------------------------------------- svdtf: the true transform *)
Theorem svdtf_exact_unique (src tgt : cloudR) U S Vh A0 t0 :
  tgt = map (rigid_apply A0 t0) src -> noncollinear src -> rot A0 ->
  svd_ok (svdtf_M src tgt) U S Vh ->
  svdtf_mat src tgt U Vh = (A0, t0).
Proof.
  intros Htgt Hnc HA Hsvd. subst tgt. pose proof Hsvd as (HU & HV & _ & _).
  pose proof (svdtf_exact_recovery src _ U S Vh A0 t0 eq_refl (noncollinear_nonempty _ Hnc) HA Hsvd) as HF.
  pose proof (Forall2_map_In _ _ _ HF) as Hall.
  unfold svdtf_mat in *. cbn [fst snd] in *.
  destruct (rigid_unique _ A0 _ t0 src (svdtf_proper U Vh HU HV) HA Hnc Hall) as [E1 E2].
  now rewrite E2, E1.
Qed.

(* the same for the function AS CALLED: the SE3 element svdtf returns has the true translation and
   a unit quaternion whose rotation matrix is the true rotation *)
Section Called.
Variable svd : mat3R -> mat3R * vec3R * mat3R.
Theorem svdtf_call_exact_unique (src tgt : cloudR) A0 t0 :
  tgt = map (rigid_apply A0 t0) src -> noncollinear src -> rot A0 ->
  svd_contract svd (svdtf_M src tgt) ->
  exists T, svdtf svd src tgt = Some T /\ unitq (snd T) /\ fst T = t0 /\ SO3_matrix (snd T) = A0 /\
            forall p, SE3_act T p = rigid_apply A0 t0 p.
Proof.
  intros Htgt Hnc HA Hc.
  assert (Hs : sizes_ok src tgt = true).
  { unfold sizes_ok. rewrite Htgt, map_length, Nat.eqb_refl.
    pose proof (noncollinear_nonempty _ Hnc). destruct src; [contradiction | reflexivity]. }
  unfold svdtf. rewrite Hs. unfold svd_contract in Hc.
  destruct (svd (svdtf_M src tgt)) as [[U S] Vh].
  rewrite (svdtf_exact_unique src tgt U S Vh A0 t0 Htgt Hnc HA Hc).
  unfold mat2SE3. cbn [fst snd].
  destruct (mat2SO3_rot _ HA) as (q & Eq & Hq & Hm). rewrite Eq.
  eexists. split; [reflexivity|]. cbn [fst snd]. split; [exact Hq|]. split; [reflexivity|].
  split; [exact Hm|]. intros p. now rewrite SE3_act_rigid, Hm.
Qed.
End Called.

(* ---------------------------------------------------------------- collinear clouds: not unique *)
(* the hypothesis is needed: for points on a line the data do not determine the rotation (any
   rotation about the line reproduces the correspondences), so no algorithm can return "the" transform *)
Theorem collinear_not_unique :
  exists (src : cloudR) (A B : mat3R) (t : vec3R),
    (3 <= length src)%nat /\ rot A /\ rot B /\ A <> B /\
    map (rigid_apply A t) src = map (rigid_apply B t) src.
Proof.
  exists [(0, 0, 0); (1, 0, 0); (2, 0, 0)], mid3, ((1, 0, 0), (0, -1, 0), (0, 0, -1)), vzero.
  split; [cbn; lia|]. split; [apply rot_mid3|].
  split; [split; [unfold orth|]; al_ring|].
  split.
  - intros E. unfold mid3 in E. cbn [one zero NumR] in E. injection E as E _. lra.
  - cbn [map]. f_equal; [|f_equal; [|f_equal]]; al_ring.
Qed.

(* ---------------------------------------------------------------- svdstf: the true similarity *)
Lemma sumsq_nonneg (l : cloudR) : 0 <= sumsq l.
Proof.
  unfold sumsq, sumF. induction l as [|p l IH]; cbn [map fold_right]; [cbn; lra|].
  pose proof (sqnorm_nonneg p) as Hp.
  set (r := fold_right add zero (map sqnorm l)) in *. set (y := sqnorm p) in *. clearbody r y.
  cbn [add NumR]. lra.
Qed.
Lemma sumsq_zero (l : cloudR) : sumsq l = 0 -> forall p, In p l -> p = vzero.
Proof.
  unfold sumsq, sumF. induction l as [|x l IH]; intros H p Hp; [contradiction|].
  cbn [map fold_right] in H.
  pose proof (sqnorm_nonneg x) as Hx. pose proof (sumsq_nonneg l) as Hl. unfold sumsq, sumF in Hl.
  set (r := fold_right add zero (map sqnorm l)) in *. set (y := sqnorm x) in *.
  assert (E : y = 0 /\ r = 0) by (clearbody r y; clear - H Hx Hl; cbn [add NumR] in H; lra). destruct E as [Ey Er].
  destruct Hp as [-> | Hp].
  - apply sqnorm_zero. exact Ey.
  - apply IH; [exact Er | exact Hp].
Qed.
Lemma noncollinear_spread (l : cloudR) : noncollinear l -> 0 < sumsq (centered l).
Proof.
  intros (a & b & c & Ia & Ib & Ic & Hn).
  destruct (Rle_lt_or_eq_dec _ _ (sumsq_nonneg (centered l))) as [Hlt | Heq]; [exact Hlt | exfalso].
  symmetry in Heq. pose proof (sumsq_zero _ Heq) as Hz. unfold centered in Hz.
  assert (Hc : forall p, In p l -> p = centroid l).
  { intros p Hp. symmetry. apply vsub_zero. apply Hz. apply in_map_iff. exists p. split; [reflexivity | exact Hp]. }
  apply Hn. rewrite (Hc a Ia), (Hc b Ib). rewrite vsub_self. al_ring.
Qed.

Lemma sim_diff c A t a b : vsub (sim_apply c A t b) (sim_apply c A t a) = vscale c (mvmul A (vsub b a)).
Proof. al_ring. Qed.
Lemma sqnorm_vscale c (v : vec3R) : sqnorm (vscale c v) = c * c * sqnorm v.
Proof. al_ring. Qed.
Lemma vcross_zero_l (b : vec3R) : vcross vzero b = vzero.
Proof. al_ring. Qed.
Lemma vscale_inj c (u v : vec3R) : c <> 0 -> vscale c u = vscale c v -> u = v.
Proof.
  intros Hc. destruct u as [[u1 u2] u3], v as [[v1 v2] v3]. al_unfold. intros E. injection E as E1 E2 E3.
  apply Rmult_eq_reg_l in E1, E2, E3; try exact Hc. now subst.
Qed.

(* two similarity transforms (scale >= 0, rotation, translation) that agree on a non-collinear cloud,
   one of them with positive scale, are the same *)
Theorem sim_unique (s c : R) (A B : mat3R) (t u : vec3R) (l : cloudR) :
  0 <= s -> 0 < c -> rot A -> rot B -> noncollinear l ->
  (forall p, In p l -> sim_apply s A t p = sim_apply c B u p) -> s = c /\ A = B /\ t = u.
Proof.
  intros Hs Hc HA HB Hnc Heq. pose proof Hnc as (a & b & c' & Ia & Ib & Ic & Hn).
  pose proof (Heq a Ia) as Ea. pose proof (Heq b Ib) as Eb. pose proof (Heq c' Ic) as Ec.
  assert (D1 : vscale s (mvmul A (vsub b a)) = vscale c (mvmul B (vsub b a)))
    by (rewrite <- (sim_diff s A t a b), <- (sim_diff c B u a b), Ea, Eb; reflexivity).
  assert (D2 : vscale s (mvmul A (vsub c' a)) = vscale c (mvmul B (vsub c' a)))
    by (rewrite <- (sim_diff s A t a c'), <- (sim_diff c B u a c'), Ea, Ec; reflexivity).
  assert (Hd : 0 < sqnorm (vsub b a)).
  { destruct (Rle_lt_or_eq_dec _ _ (sqnorm_nonneg (vsub b a))) as [H | H]; [exact H | exfalso].
    apply Hn. symmetry in H. apply sqnorm_zero in H. rewrite H. apply vcross_zero_l. }
  assert (Esc : s = c).
  { apply (f_equal sqnorm) in D1. rewrite !sqnorm_vscale, (sqnorm_orth _ _ (proj1 HA)), (sqnorm_orth _ _ (proj1 HB)) in D1.
    remember (sqnorm (vsub b a)) as d eqn:Ed. clear - D1 Hd Hs Hc.
    assert (E : (s - c) * (s + c) * d = 0) by (ring_simplify; ring_simplify in D1; lra).
    apply Rmult_integral in E as [E | E]; [| lra]. apply Rmult_integral in E as [E | E]; lra. }
  subst s. apply vscale_inj in D1, D2; try lra.
  assert (EAB : A = B).
  { apply (mat_eq_on_basis A B _ _ Hn D1 D2). rewrite !rot_cross by assumption. now rewrite D1, D2. }
  split; [reflexivity|]. split; [exact EAB|]. subst B. clear - Ea.
  unfold sim_apply in Ea. set (v := mvmul (mscale3 c A) a) in *. clearbody v.
  destruct v as [[v1 v2] v3], t as [[t1 t2] t3], u as [[u1 u2] u3]. al_unfold.
  injection Ea as E1 E2 E3. split_pairs; lra.
Qed.

Theorem svdstf_exact_unique (src tgt : cloudR) U D V c0 A0 t0 :
  tgt = map (sim_apply c0 A0 t0) src -> 0 < c0 -> rot A0 -> noncollinear src ->
  svd_ok (svdstf_H src tgt) U D V ->
  svdstf_mat true src tgt U D V = (c0, A0, t0).
Proof.
  intros Htgt Hc HA Hnc Hsvd. subst tgt. pose proof Hsvd as (HU & HV & _ & _).
  pose proof (noncollinear_spread _ Hnc) as Hx.
  pose proof (svdstf_exact_recovery src _ U D V c0 A0 t0 eq_refl (Rlt_le _ _ Hc) HA Hsvd Hx) as HF.
  pose proof (Forall2_map_In _ _ _ HF) as Hall.
  assert (Hs : sizes_ok src (map (sim_apply c0 A0 t0) src) = true).
  { unfold sizes_ok. rewrite map_length, Nat.eqb_refl.
    pose proof (noncollinear_nonempty _ Hnc). destruct src; [contradiction | reflexivity]. }
  pose proof (svdstf_optimal src _ U D V Hs Hsvd Hx) as (HR & Hs0 & _).
  destruct (sim_unique _ c0 _ A0 _ t0 src Hs0 Hc HR HA Hnc Hall) as (E1 & E2 & E3).
  set (X := svdstf_mat true src (map (sim_apply c0 A0 t0) src) U D V) in *.
  rewrite (surjective_pairing X), (surjective_pairing (fst X)).
  now rewrite E1, E2, E3.
Qed.

(* the hypothesis of the uniqueness theorems is satisfiable: the witness cloud of Proofs/Align.v *)
Lemma wit_noncollinear : noncollinear wit_src.
Proof.
  exists (2, 0, 0), (-1, 1, 0), (-1, -1, 0). unfold wit_src. cbn [In].
  split; [auto|]. split; [auto|]. split; [auto|].
  al_unfold. intros E. injection E as _ _ E. lra.
Qed.
