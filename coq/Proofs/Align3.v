(* C17, third part: ICP over the WHOLE loop.  For every stepper configuration / state, every number
   of passes, every SVD and knn answer meeting the contracts on the calls the run makes:
   ICP.forward returns (never raises), the returned transform applied to the source IS the last
   cloud of the loop, and its sum (mean) of squared closest-point distances is not larger than that
   of the initial transform; the sequence of clouds is non-increasing at every pass.
   Recovery: once the closest-point matching is the true correspondence of a rigid motion, the next
   pass lands exactly on the target points, every later pass leaves the cloud where it is, and the
   returned transform is the true one (unique for non-collinear sources). *)
From Coq Require Import Reals Lra Psatz List Nsatz ZArith Bool Arith.
Import ListNotations.
From PV Require Import Base.Num Base.RTac Model.LieGroup Model.Controller Model.Align Proofs.LieGroup Proofs.Align Proofs.Align2.
Local Open Scope R_scope.
#[local] Remove Hints NumQ NumZ : typeclass_instances.

(* ---------------------------------------------------------------- rigid maps compose *)
Lemma rot_mmul3 A B : rot A -> rot B -> rot (mmul3 A B).
Proof.
  intros [HA Ha] [HB Hb]. split; [now apply orth_mmul3 | rewrite mdet3_mmul3, Ha, Hb; ring].
Qed.
Lemma rot_mtrans A : rot A -> rot (mtrans A).
Proof. intros [HA Ha]. split; [now apply orth_mtrans | now rewrite mdet3_mtrans]. Qed.
Lemma rigid_compose A t B u p :
  rigid_apply A t (rigid_apply B u p) = rigid_apply (mmul3 A B) (vadd (mvmul A u) t) p.
Proof. al_ring. Qed.
Lemma rigid_id p : rigid_apply mid3 vzero p = p.
Proof. al_ring. Qed.
(* a rigid map has a rigid inverse *)
Lemma rigid_inverse A t p : orth A ->
  rigid_apply (mtrans A) (vneg (mvmul (mtrans A) t)) (rigid_apply A t p) = p.
Proof.
  intros H. apply orth_left in H. rewrite rigid_compose, H.
  assert (E : vadd (mvmul (mtrans A) t) (vneg (mvmul (mtrans A) t)) = vzero)
    by (generalize (mvmul (mtrans A) t); intros v; al_ring).
  rewrite E. apply rigid_id.
Qed.
Lemma unitq_rot (q : quatR) : unitq q -> rot (SO3_matrix q).
Proof.
  unfold unitq. intros H. destruct q as [[[x y] z] w]. split; [unfold orth|]; lie_unfold.
  - split_pairs; nsatz.
  - nsatz.
Qed.
Lemma se3_cloud_rigid (T : se3R) (l : cloudR) :
  se3_cloud T l = map (rigid_apply (SO3_matrix (snd T)) (fst T)) l.
Proof. unfold se3_cloud. apply map_ext. intros p. destruct T as [t q]. apply SE3_act_rigid. Qed.

Lemma Forall2_map_eq {X Y} (f : X -> Y) : forall l m, Forall2 (fun p q => f p = q) l m -> map f l = m.
Proof. induction 1; cbn [map]; [reflexivity | now f_equal]. Qed.
Lemma Forall2_eq_id (l m : cloudR) : Forall2 (fun p q : vec3R => p = q) l m -> l = m.
Proof. induction 1; [reflexivity | now f_equal]. Qed.
Lemma map_eq_In {X Y} (f g : X -> Y) : forall l, map f l = map g l -> forall p, In p l -> f p = g p.
Proof.
  induction l as [|x l IH]; intros H p Hp; [contradiction|]. cbn [map] in H. injection H as H1 H2.
  destruct Hp as [-> | Hp]; [exact H1 | now apply IH].
Qed.
Lemma map_nonempty {X Y} (f : X -> Y) l : l <> [] -> map f l <> [].
Proof. destruct l; [contradiction | discriminate]. Qed.
Lemma sizes_ok_map (f : vec3R -> vec3R) (l : cloudR) : l <> [] -> sizes_ok l (map f l) = true.
Proof. intros H. unfold sizes_ok. rewrite map_length, Nat.eqb_refl. destruct l; [contradiction | reflexivity]. Qed.

(* ---------------------------------------------------------------- svdtf as called on exact pairs *)
Section Called.
Variable svd : mat3R -> mat3R * vec3R * mat3R.
(* for ANY cloud (collinear ones included) the returned SE3 element maps the source ONTO the target *)
Theorem svdtf_call_exact_recovery (src tgt : cloudR) A0 t0 :
  tgt = map (rigid_apply A0 t0) src -> src <> [] -> rot A0 ->
  svd_contract svd (svdtf_M src tgt) ->
  exists T, svdtf svd src tgt = Some T /\ unitq (snd T) /\ se3_cloud T src = tgt.
Proof.
  intros Htgt Hne HA Hc.
  assert (Hs : sizes_ok src tgt = true) by (rewrite Htgt; now apply sizes_ok_map).
  destruct (svdtf_returns svd src tgt Hs Hc) as (T & ET & HqT & HT).
  exists T. split; [exact ET|]. split; [exact HqT|].
  unfold svd_contract in Hc. destruct (svd (svdtf_M src tgt)) as [[U S] Vh]. destruct HT as [_ HT].
  pose proof (svdtf_exact_recovery src tgt U S Vh A0 t0 Htgt Hne HA Hc) as HF.
  unfold se3_cloud. rewrite (map_ext _ _ HT). now apply Forall2_map_eq.
Qed.
End Called.

(* ---------------------------------------------------------------- the loop *)
Lemma cpd_nonneg P tgt idx : 0 <= cpd P tgt idx.
Proof. apply resid_nonneg. Qed.
(* the sum of squared closest-point distances does not depend on how knn breaks ties *)
Lemma cpd_knn_unique P tgt idx idx' : knn_ok P tgt idx -> knn_ok P tgt idx' -> cpd P tgt idx = cpd P tgt idx'.
Proof.
  intros H H'. apply Rle_antisym; apply cpd_best;
    first [assumption | eapply knn_ok_range; eassumption | eapply knn_ok_length; eassumption].
Qed.

Section Loop.
Variable svd : mat3R -> mat3R * vec3R * mat3R.
Variable knn : cloudR -> cloudR -> list (R * nat).
Variable target : cloudR.

Definition idxs (P : cloudR) : list nat := map snd (knn P target).
(* sum over the cloud of the squared distance to the closest target point *)
Definition cpdk (P : cloudR) : R := cpd P target (idxs P).
(* the two oracle calls of one pass at cloud P meet their contracts *)
Definition pass_ok (P : cloudR) : Prop :=
  knn_ok P target (idxs P) /\ svd_contract svd (svdtf_M P (gather3 target (idxs P))).
(* the clouds a run started at P can visit (whatever the stepper decides) *)
Inductive icp_reach (P : cloudR) : cloudR -> Prop :=
| reach_refl : icp_reach P P
| reach_step Q err Q' : icp_reach P Q -> icp_body svd knn Q target = Some (err, Q') -> icp_reach P Q'.

Lemma pass_sizes Q : Q <> [] -> knn_ok Q target (idxs Q) -> sizes_ok Q (gather3 target (idxs Q)) = true.
Proof.
  intros Hne Hk. unfold sizes_ok, gather3. rewrite map_length, (knn_ok_length _ _ _ Hk), Nat.eqb_refl.
  destruct Q; [contradiction | reflexivity].
Qed.
(* one pass never raises and moves the cloud by a proper rigid map *)
Lemma body_returns Q : Q <> [] -> pass_ok Q ->
  exists T, icp_body svd knn Q target = Some (meanF (map fst (knn Q target)), se3_cloud T Q) /\ unitq (snd T).
Proof.
  intros Hne [Hk Hc]. unfold icp_body. fold (idxs Q).
  destruct (svdtf_returns svd Q _ (pass_sizes Q Hne Hk) Hc) as (T & ET & Hq & _).
  rewrite ET. exists T. split; [reflexivity | exact Hq].
Qed.
Lemma body_rigid Q err Q' : Q <> [] -> pass_ok Q -> icp_body svd knn Q target = Some (err, Q') ->
  exists A t, rot A /\ Q' = map (rigid_apply A t) Q.
Proof.
  intros Hne Hok Hb. destruct (body_returns Q Hne Hok) as (T & ET & Hq). rewrite ET in Hb.
  injection Hb as _ <-. exists (SO3_matrix (snd T)), (fst T). split; [now apply unitq_rot | apply se3_cloud_rigid].
Qed.

Section From.
Variable P : cloudR.
Hypothesis HP : P <> [].
Hypothesis Hok : forall Q, icp_reach P Q -> pass_ok Q.

Lemma reach_rigid Q : icp_reach P Q -> exists A t, rot A /\ Q = map (rigid_apply A t) P.
Proof.
  induction 1 as [|Q err Q' HR IH Hb].
  - exists mid3, vzero. split; [apply rot_mid3|]. rewrite (map_ext _ (fun p => p)) by apply rigid_id. now rewrite map_id.
  - destruct IH as (A & t & HA & EQ).
    assert (HQ : Q <> []) by (rewrite EQ; now apply map_nonempty).
    destruct (body_rigid Q err Q' HQ (Hok Q HR) Hb) as (B & u & HB & EQ').
    exists (mmul3 B A), (vadd (mvmul B t) u). split; [now apply rot_mmul3|].
    rewrite EQ', EQ, map_map. apply map_ext. intros p. apply rigid_compose.
Qed.
Lemma reach_nonempty Q : icp_reach P Q -> Q <> [].
Proof. intros HR. destruct (reach_rigid Q HR) as (A & t & _ & ->). now apply map_nonempty. Qed.
Lemma reach_length Q : icp_reach P Q -> length Q = length P.
Proof. intros HR. destruct (reach_rigid Q HR) as (A & t & _ & ->). apply map_length. Qed.

(* EVERY pass: the next cloud is not farther from the target than the current one *)
Lemma step_monotone Q err Q' : icp_reach P Q -> icp_body svd knn Q target = Some (err, Q') -> cpdk Q' <= cpdk Q.
Proof.
  intros HR Hb. pose proof (Hok Q HR) as [Hk Hc].
  pose proof (Hok Q' (reach_step P Q err Q' HR Hb)) as [Hk' _].
  exact (icp_pass_monotone svd knn Q target Q' err (reach_nonempty Q HR) Hk Hk' Hc Hb).
Qed.
(* hence any number of passes *)
Lemma reach_monotone Q : icp_reach P Q -> cpdk Q <= cpdk P.
Proof.
  induction 1 as [|Q err Q' HR IH Hb]; [lra|].
  eapply Rle_trans; [exact (step_monotone Q err Q' HR Hb) | exact IH].
Qed.

(* the loop never raises, for every fuel, configuration and stepper state *)
Lemma loop_returns : forall fuel cfg st Q, icp_reach P Q ->
  exists tm st' errs, icp_loop svd knn fuel cfg st Q target = Some (tm, st', errs) /\ icp_reach P tm.
Proof.
  induction fuel as [|f IH]; intros cfg st Q HR; cbn [icp_loop].
  - exists Q, st, []. split; [reflexivity | exact HR].
  - destruct (rtb_cont st).
    + destruct (body_returns Q (reach_nonempty Q HR) (Hok Q HR)) as (T & ET & _). rewrite ET.
      destruct (IH cfg (rtb_step cfg st [meanF (map fst (knn Q target))]) (se3_cloud T Q)
                  (reach_step P Q _ _ HR ET)) as (tm & st' & errs & E & HR').
      rewrite E. exists tm, st', (meanF (map fst (knn Q target)) :: errs). split; [reflexivity | exact HR'].
    + exists Q, st, []. split; [reflexivity | exact HR].
Qed.
End From.

(* ---------------------------------------------------------------- ICP.forward *)
Definition icp_start (init : option se3R) (source : cloudR) : cloudR :=
  match init with Some T => se3_cloud T source | None => source end.

(* ICP.forward returns; the returned transform applied to the source is the last cloud of the loop,
   a cloud the loop reached from the initial one -- so its sum of squared closest-point distances
   is at most that of the initial transform *)
Theorem icp_forward_monotone (cfg : rtb_cfg) (st0 : rtb_state) (init : option se3R) (source : cloudR) :
  source <> [] ->
  (forall T, init = Some T -> unitq (snd T)) ->
  (forall Q, icp_reach (icp_start init source) Q -> pass_ok Q) ->
  (forall Q, icp_reach (icp_start init source) Q -> svd_contract svd (svdtf_M source Q)) ->
  exists T st errs,
    icp_forward svd knn cfg st0 init source target = Some (T, st, errs) /\ unitq (snd T) /\
    icp_reach (icp_start init source) (se3_cloud T source) /\
    cpdk (se3_cloud T source) <= cpdk (icp_start init source).
Proof.
  intros Hne Hinit Hok Hfin. set (P := icp_start init source) in *.
  assert (HPrig : exists A t, rot A /\ P = map (rigid_apply A t) source).
  { unfold P, icp_start. destruct init as [T0|].
    - exists (SO3_matrix (snd T0)), (fst T0). split; [apply unitq_rot, Hinit; reflexivity | apply se3_cloud_rigid].
    - exists mid3, vzero. split; [apply rot_mid3|]. rewrite (map_ext _ (fun p => p)) by apply rigid_id. now rewrite map_id. }
  destruct HPrig as (A & t & HA & EP).
  assert (HP : P <> []) by (rewrite EP; now apply map_nonempty).
  unfold icp_forward. cbv zeta. fold (icp_start init source). fold P.
  destruct (loop_returns P HP Hok (S (Z.to_nat (rtb_max cfg))) cfg (rtb_reset st0) P (reach_refl P))
    as (tm & st & errs & EL & HR).
  rewrite EL.
  destruct (reach_rigid P HP Hok tm HR) as (B & u & HB & Etm).
  assert (Etm' : tm = map (rigid_apply (mmul3 B A) (vadd (mvmul B t) u)) source).
  { rewrite Etm, EP, map_map. apply map_ext. intros p. apply rigid_compose. }
  destruct (svdtf_call_exact_recovery svd source tm _ _ Etm' Hne (rot_mmul3 _ _ HB HA) (Hfin tm HR))
    as (T & ET & Hq & EC).
  rewrite ET. exists T, st, errs. split; [reflexivity|]. split; [exact Hq|]. rewrite EC.
  split; [exact HR | exact (reach_monotone P HP Hok tm HR)].
Qed.

(* ---------------------------------------------------------------- recovery *)
(* a cloud that lies on target points is a fixed point of the pass *)
Lemma body_fixed Q err Q' : Q <> [] -> pass_ok Q -> cpdk Q = 0 ->
  icp_body svd knn Q target = Some (err, Q') -> Q' = Q.
Proof.
  intros Hne [Hk Hc] H0 Hb. unfold cpdk, cpd in H0.
  assert (HL : length Q = length (gather3 target (idxs Q)))
    by (unfold gather3; now rewrite map_length, (knn_ok_length _ _ _ Hk)).
  pose proof (Forall2_eq_id _ _ (resid_zero (fun p => p) _ _ HL H0)) as EG.
  unfold icp_body in Hb. fold (idxs Q) in Hb. rewrite <- EG in Hb, Hc.
  assert (EQ : Q = map (rigid_apply mid3 vzero) Q)
    by (rewrite (map_ext _ (fun p => p)) by apply rigid_id; now rewrite map_id).
  destruct (svdtf_call_exact_recovery svd Q Q mid3 vzero EQ Hne rot_mid3 Hc) as (T & ET & _ & EC).
  rewrite ET in Hb. injection Hb as _ <-. exact EC.
Qed.
Lemma reach_fixed P : P <> [] -> pass_ok P -> cpdk P = 0 -> forall Q, icp_reach P Q -> Q = P.
Proof.
  intros HP Hok H0. induction 1 as [|Q err Q' HR IH Hb]; [reflexivity|]. subst Q.
  exact (body_fixed P err Q' HP Hok H0 Hb).
Qed.
(* when the closest-point matching is the correspondence of a rigid motion of the cloud, one pass
   puts every point exactly on its target point *)
Lemma body_matched Q err Q' A1 t1 : Q <> [] -> pass_ok Q -> rot A1 ->
  gather3 target (idxs Q) = map (rigid_apply A1 t1) Q ->
  icp_body svd knn Q target = Some (err, Q') -> Q' = map (rigid_apply A1 t1) Q.
Proof.
  intros Hne [Hk Hc] HA EG Hb. unfold icp_body in Hb. fold (idxs Q) in Hb.
  destruct (svdtf_call_exact_recovery svd Q _ A1 t1 EG Hne HA Hc) as (T & ET & _ & EC).
  rewrite ET in Hb. injection Hb as _ <-. now rewrite EC.
Qed.
(* a cloud made of target points has closest-point distance zero *)
Lemma cpdk_on_target Q idx : knn_ok Q target (idxs Q) ->
  Forall (fun i => (i < length target)%nat) idx -> Q = gather3 target idx -> cpdk Q = 0.
Proof.
  intros Hk Hr EQ. apply Rle_antisym; [| apply cpd_nonneg].
  assert (HL : length idx = length Q) by (rewrite EQ; unfold gather3; now rewrite map_length).
  eapply Rle_trans; [exact (cpd_best Q target _ idx Hk Hr HL)|].
  unfold cpd. rewrite <- EQ. rewrite <- (map_id Q) at 2. rewrite (resid_self (fun p => p)). lra.
Qed.

(* the loop from a cloud whose matching is the true one: at least one pass is made (the stepper
   continues), and the loop ends -- after any number of passes -- exactly on the matched target points *)
Theorem icp_loop_recovers fuel cfg st Q A1 t1 :
  Q <> [] -> rot A1 -> rtb_cont st = true ->
  pass_ok Q -> pass_ok (map (rigid_apply A1 t1) Q) ->
  gather3 target (idxs Q) = map (rigid_apply A1 t1) Q ->
  exists st' errs, icp_loop svd knn (S fuel) cfg st Q target = Some (map (rigid_apply A1 t1) Q, st', errs).
Proof.
  intros Hne HA Hcont Hok Hok' EG. set (G := map (rigid_apply A1 t1) Q) in *.
  assert (HG : G <> []) by (now apply map_nonempty).
  assert (H0 : cpdk G = 0).
  { apply (cpdk_on_target G (idxs Q) (proj1 Hok') (knn_ok_range _ _ _ (proj1 Hok))). now symmetry. }
  cbn [icp_loop]. rewrite Hcont.
  destruct (body_returns Q Hne Hok) as (T & ET & _). rewrite ET.
  pose proof (body_matched Q _ _ A1 t1 Hne Hok HA EG ET) as EQ'. fold G in EQ'. rewrite EQ'.
  assert (HokG : forall R, icp_reach G R -> pass_ok R) by (intros R HR; now rewrite (reach_fixed G HG Hok' H0 R HR)).
  destruct (loop_returns G HG HokG fuel cfg (rtb_step cfg st [meanF (map fst (knn Q target))]) G (reach_refl G))
    as (tm & st' & errs & EL & HR).
  rewrite EL, (reach_fixed G HG Hok' H0 tm HR). eauto.
Qed.

(* ICP.forward: when the closest-point matching of the initial cloud is the true correspondence
   (target point matched to T_init p is A0 p + t0), the result maps every source point onto its
   true image; for a non-collinear source it IS the true transform *)
Theorem icp_forward_recovers (cfg : rtb_cfg) (st0 : rtb_state) (init : option se3R) (source : cloudR) A0 t0 :
  source <> [] -> rot A0 ->
  (forall T, init = Some T -> unitq (snd T)) ->
  gather3 target (idxs (icp_start init source)) = map (rigid_apply A0 t0) source ->
  pass_ok (icp_start init source) -> pass_ok (map (rigid_apply A0 t0) source) ->
  svd_contract svd (svdtf_M source (map (rigid_apply A0 t0) source)) ->
  exists T st errs,
    icp_forward svd knn cfg st0 init source target = Some (T, st, errs) /\ unitq (snd T) /\
    se3_cloud T source = map (rigid_apply A0 t0) source /\
    cpdk (se3_cloud T source) = 0 /\
    (noncollinear source -> fst T = t0 /\ SO3_matrix (snd T) = A0).
Proof.
  intros Hne HA Hinit EG Hok HokG Hfin. set (P := icp_start init source) in *.
  set (G := map (rigid_apply A0 t0) source) in *.
  assert (HPrig : exists A t, rot A /\ P = map (rigid_apply A t) source).
  { unfold P, icp_start. destruct init as [T0|].
    - exists (SO3_matrix (snd T0)), (fst T0). split; [apply unitq_rot, Hinit; reflexivity | apply se3_cloud_rigid].
    - exists mid3, vzero. split; [apply rot_mid3|]. rewrite (map_ext _ (fun p => p)) by apply rigid_id. now rewrite map_id. }
  destruct HPrig as (A & t & HA' & EP).
  assert (HP : P <> []) by (rewrite EP; now apply map_nonempty).
  (* G as a rigid image of P *)
  set (A1 := mmul3 A0 (mtrans A)).
  set (t1 := vadd (mvmul A0 (vneg (mvmul (mtrans A) t))) t0).
  assert (EGP : G = map (rigid_apply A1 t1) P).
  { unfold G. rewrite EP, map_map. apply map_ext. intros p. unfold A1, t1.
    rewrite <- rigid_compose, rigid_inverse by apply HA'. reflexivity. }
  assert (HA1 : rot A1) by (apply rot_mmul3; [exact HA | now apply rot_mtrans]).
  pose proof HokG as HokG0. rewrite EGP in EG, HokG.
  destruct (icp_loop_recovers (Z.to_nat (rtb_max cfg)) cfg (rtb_reset st0) P A1 t1 HP HA1 eq_refl Hok HokG EG)
    as (st & errs & EL).
  unfold icp_forward. cbv zeta. fold (icp_start init source). fold P. rewrite EL, <- EGP.
  destruct (svdtf_call_exact_recovery svd source G A0 t0 eq_refl Hne HA Hfin) as (T & ET & Hq & EC).
  rewrite ET. exists T, st, errs. split; [reflexivity|]. split; [exact Hq|]. split; [exact EC|].
  split.
  - rewrite EC. apply (cpdk_on_target G (idxs P) (proj1 HokG0) (knn_ok_range _ _ _ (proj1 Hok))).
    rewrite EG. exact EGP.
  - intros Hnc.
    assert (Hall : forall p, In p source -> rigid_apply (SO3_matrix (snd T)) (fst T) p = rigid_apply A0 t0 p).
    { rewrite se3_cloud_rigid in EC. unfold G in EC. now apply map_eq_In. }
    destruct (rigid_unique _ A0 _ t0 source (unitq_rot _ Hq) HA Hnc Hall) as [E1 E2]. now split.
Qed.
End Loop.
