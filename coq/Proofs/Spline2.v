(* C19 (splines, part 2): bspline on SE3 ITSELF (the instance pypose uses: [bspline_SE3] = the model
   instantiated with SE3_mul / SE3_inv / se3_exp / SE3_log of the C01-C03 models), not on an abstract
   group.  SE3 as modelled is a group only on unit quaternions and its Exp / Log are exact inverses
   only outside the Taylor / angle-pi regimes, so the abstract theorems of Proofs/Spline.v do not
   apply to it as they stand; here the hypotheses are the ones SE3 really needs:
     - left-equivariance: every valid (unit-quaternion) pose list, every eps, no regime hypothesis;
     - extrapolate = True: first sample = first pose for every valid pose list; last sample = last
       pose when the last relative pose is the identity or in the generic regime of Log (up to the
       sign of the quaternion when its w is negative);
     - continuity across segments under the same regime hypothesis on the relative poses. *)
From Coq Require Import Reals Lra Psatz List ZArith Lia.
From Interval Require Import Tactic.
Import ListNotations.
From PV Require Import Base.Num Base.RTac Base.ListAux Model.LieGroup Model.LieExp Model.LieLog Model.Spline
  Model.Metric Proofs.LieGroup Proofs.LieExp Proofs.LieLog Proofs.LieLog2 Proofs.LieLog4 Proofs.Spline Proofs.Metric.
Local Open Scope R_scope.
#[local] Remove Hints NumQ NumZ : typeclass_instances.

(* ------------------------------------------------------------------ a map commuting with the segments *)
Section MapGen.
Context {G A : Type} (gmul : G -> G -> G) (ginv : G -> G) (gexp : A -> G) (glog : G -> A) (ascale : R -> A -> A).
Local Notation seg := (bs_seg G A gmul ginv gexp glog ascale).
Local Notation bspl := (bspline G A gmul ginv gexp glog ascale).
Variable f : G -> G.
Variable P : G -> Prop.
Definition PW (W : win G) : Prop := match W with (a, b, c, d) => P a /\ P b /\ P c /\ P d end.
Hypothesis Hseg : forall a b c d w, P a -> P b -> P c -> P d -> seg (f a, f b, f c, f d) w = f (seg (a, b, c, d) w).

Lemma windows4_Forall (l : list G) : Forall P l -> Forall PW (windows4 G l).
Proof.
  induction l as [|a r IH]; intros H; [constructor|].
  destruct r as [|b [|c [|d r']]]; try constructor.
  - inversion H as [|? ? Ha H1]; subst. inversion H1 as [|? ? Hb H2]; subst.
    inversion H2 as [|? ? Hc H3]; subst. inversion H3 as [|? ? Hd H4]; subst. now repeat split.
  - apply IH. now inversion H.
Qed.
Lemma bs_pad_Forall (data : list G) : Forall P data -> Forall P (bs_pad G data).
Proof.
  intros H. destruct data as [|a r]; [constructor|]. unfold bs_pad.
  assert (Ha : P a) by (now inversion H).
  assert (Hl : P (List.last (a :: r) a)).
  { rewrite Forall_forall in H. apply H. apply last_In. discriminate. }
  constructor; [assumption|]. constructor; [assumption|].
  apply Forall_app. split; [assumption|]. now repeat constructor.
Qed.

Theorem bspline_map_gen k q ex data : Forall P data ->
  bspl k q ex (map f data) = option_map (map f) (bspl k q ex data).
Proof.
  intros HP. unfold bspline. destruct (negb (ltb q one)); [reflexivity|].
  assert (E : (if ex then bs_pad G (map f data) else map f data) = map f (if ex then bs_pad G data else data))
    by (destruct ex; [apply bs_pad_map|reflexivity]).
  rewrite E, windows4_map.
  assert (HW : Forall PW (windows4 G (if ex then bs_pad G data else data)))
    by (apply windows4_Forall; destruct ex; [now apply bs_pad_Forall|assumption]).
  set (ws := windows4 G (if ex then bs_pad G data else data)) in *.
  set (fw := fun W : win G => match W with (a, b, c, d) => (f a, f b, f c, f d) end).
  assert (Hs : forall W w, PW W -> seg (fw W) w = f (seg W w))
    by (intros [[[a b] c] d] w (Ha & Hb & Hc & Hd); now apply Hseg).
  destruct ws as [|W0 ws']; [reflexivity|]. cbn [map option_map]. f_equal.
  rewrite map_app. cbn [map].
  change (fw W0 :: map fw ws') with (map fw (W0 :: ws')).
  rewrite last_map, Hs.
  2:{ rewrite Forall_forall in HW. apply HW. apply last_In. discriminate. }
  f_equal. revert HW. generalize (W0 :: ws'). intros l Hl. induction Hl as [|W l HWl Hl IH]; [reflexivity|].
  cbn [map flat_map]. rewrite map_app, IH. f_equal. rewrite map_map. apply map_ext. intros u. now apply Hs.
Qed.
End MapGen.

(* ------------------------------------------------------------------ SE3 *)
Local Notation segSE3 := (bs_seg_SE3 (F:=R)).
Local Notation bsplSE3 := (bspline_SE3 (F:=R)).
Ltac fold_seg eps :=
  change (bs_seg (@se3elt R) (@vec3 R * @vec3 R) SE3_mul SE3_inv (se3_exp eps) (SE3_log eps) se3_scale)
    with (bs_seg_SE3 (F:=R) eps) in *.

Lemma bs_seg_SE3_left (eps : R) (g P0 P1 P2 P3 : se3R) w :
  valid_SE3 g -> valid_SE3 P0 -> valid_SE3 P1 -> valid_SE3 P2 ->
  segSE3 eps (SE3_mul g P0, SE3_mul g P1, SE3_mul g P2, SE3_mul g P3) w = SE3_mul g (segSE3 eps (P0, P1, P2, P3) w).
Proof.
  intros Hg H0 H1 H2. unfold bs_seg_SE3, bs_seg. destruct w as [[w0 w1] w2].
  rewrite !SE3_rel_left by assumption. now rewrite SE3_mul_assoc by assumption.
Qed.

(* bspline on SE3 commutes with left multiplication by any fixed pose: every list of valid poses,
   every eps, with and without extrapolation - no hypothesis on rotation regimes *)
Theorem bspline_SE3_left_equivariant (eps : R) k q ex (g : se3R) (data : list se3R) :
  valid_SE3 g -> Forall valid_SE3 data ->
  bsplSE3 eps k q ex (map (SE3_mul g) data) = option_map (map (SE3_mul g)) (bsplSE3 eps k q ex data).
Proof.
  intros Hg Hd. unfold bspline_SE3. apply (bspline_map_gen _ _ _ _ _ (SE3_mul g) valid_SE3); [|assumption].
  intros a b c d w Ha Hb Hc _. now apply bs_seg_SE3_left.
Qed.

(* number of samples *)
Theorem bspline_SE3_count (eps : R) k q (data : list se3R) : q < 1 -> (4 <= length data)%nat ->
  exists out, bsplSE3 eps k q false data = Some out /\ length out = ((length data - 3) * k + 1)%nat.
Proof. intros. unfold bspline_SE3. now apply bspline_count. Qed.

(* ------------------------------------------------------------------ Exp / Log facts on SE3 *)
Definition se3_qneg (X : se3R) : se3R := (fst X, qneg (snd X)).
(* the same rigid transformation: equal, or equal up to the sign of the quaternion *)
Definition se3_same (X Y : se3R) : Prop := X = Y \/ X = se3_qneg Y.
Lemma se3_same_matrix (X Y : se3R) : se3_same X Y -> matrix4 SE3_act4 X = matrix4 SE3_act4 Y.
Proof.
  intros [->| ->]; [reflexivity|]. rewrite !SE3_matrix_blocks. unfold se3_qneg. cbn [fst snd].
  now rewrite qneg_same_rotation.
Qed.
Lemma se3_same_refl X : se3_same X X.  Proof. now left. Qed.

Lemma SO3_act_qneg (q : quatR) (p : vec3R) : SO3_act (qneg q) p = SO3_act q p.
Proof. unfold qneg. lie_ring. Qed.
Lemma SO3_mul_qneg_l (a b : quatR) : SO3_mul (qneg a) b = qneg (SO3_mul a b).
Proof. unfold qneg. lie_ring. Qed.
Lemma SO3_mul_qneg_r (a b : quatR) : SO3_mul a (qneg b) = qneg (SO3_mul a b).
Proof. unfold qneg. lie_ring. Qed.
Lemma SE3_mul_qneg_l (X Y : se3R) : SE3_mul (se3_qneg X) Y = se3_qneg (SE3_mul X Y).
Proof. unfold se3_qneg, SE3_mul. cbn [fst snd]. now rewrite SO3_act_qneg, SO3_mul_qneg_l. Qed.
Lemma SE3_mul_qneg_r (X Y : se3R) : SE3_mul X (se3_qneg Y) = se3_qneg (SE3_mul X Y).
Proof. unfold se3_qneg, SE3_mul. cbn [fst snd]. now rewrite SO3_mul_qneg_r. Qed.

Lemma se3_scale_zero (c : R) : se3_scale c ((vzero, vzero) : vec3R * vec3R) = (vzero, vzero).
Proof. unfold se3_scale. cbn [fst snd]. now rewrite vscale_zero. Qed.
Lemma se3_scale_0 (x : vec3R * vec3R) : se3_scale 0 x = (vzero, vzero).
Proof. unfold se3_scale. destruct x as [[[a b] c] [[d e] f]]. lie_unfold. split_pairs; ring. Qed.
Lemma se3_scale_1 (x : vec3R * vec3R) : se3_scale 1 x = x.
Proof. unfold se3_scale. destruct x as [[[a b] c] [[d e] f]]. lie_unfold. split_pairs; ring. Qed.
Lemma se3_exp_zero (eps : R) : 0 <= eps -> se3_exp eps (vzero, vzero) = SE3_id.
Proof.
  intros He. unfold se3_exp, SE3_id. cbn [fst snd]. rewrite mvmul_zero_r. now rewrite so3_exp_zero.
Qed.

(* the relative poses on which Exp (Log Z) is Z exactly (up to the quaternion's sign): the identity
   (Log = 0 exactly) and the generic regime of SO3_Log (|v| > eps, |w| > eps) *)
Definition se3_generic (eps : R) (Z : se3R) : Prop :=
  Z = SE3_id \/ (eps < vnorm (qv (snd Z)) /\ eps < Rabs (qw (snd Z))).

Lemma exp_log_SE3_same (eps : R) (Z : se3R) : 0 <= eps -> valid_SE3 Z -> se3_generic eps Z ->
  se3_same (se3_exp eps (SE3_log eps Z)) Z /\ (0 <= qw (snd Z) -> se3_exp eps (SE3_log eps Z) = Z).
Proof.
  intros He Hu [->|[Hv Hw]].
  - rewrite SE3_log_id, se3_exp_zero by assumption. split; [apply se3_same_refl|reflexivity].
  - destruct (Rle_or_lt 0 (qw (snd Z))) as [Hp|Hn].
    + rewrite Rabs_pos_eq in Hw by assumption. rewrite exp_log_SE3_pos by assumption.
      split; [apply se3_same_refl|reflexivity].
    + rewrite Rabs_left in Hw by assumption. split; [|lra]. right.
      rewrite exp_log_SE3_gen by (try assumption; rewrite Rabs_left; assumption).
      rewrite exp_log_neg_model by (try assumption; lra). reflexivity.
Qed.

(* |Log q| >= 4/3 |v| in regimes 1 and 2: a scaled logarithm c Log q with c >= 3/4 stays on the
   closed-form branch of Exp *)
Lemma atan_ge_23 (x : R) : 0 <= x <= 1 -> 2 / 3 * x <= atan x.
Proof.
  intros Hx. pose proof (atan_cubic_bound x ltac:(lra)) as [H _].
  assert (x ^ 3 <= x) by (replace (x ^ 3) with (x * (x * x)) by ring; nra). lra.
Qed.
Lemma SO3_log_norm_abs (eps : R) (q : quatR) : 0 <= eps -> eps < vnorm (qv q) -> eps < Rabs (qw q) ->
  vnorm (SO3_log eps q) = 2 * atan (vnorm (qv q) / Rabs (qw q)).
Proof.
  intros He Hv Hw. destruct (Rle_or_lt 0 (qw q)) as [Hp|Hn].
  - rewrite Rabs_pos_eq in * by assumption. now apply SO3_log_norm_pos.
  - rewrite Rabs_left in * by assumption. rewrite <- (SO3_log_neg eps q) by (try assumption; rewrite Rabs_left; assumption).
    rewrite SO3_log_norm_pos; unfold qneg; cbn [qv qw fst snd]; rewrite ?vnorm_neg; auto.
Qed.
Lemma SO3_log_norm_lower (eps : R) (q : quatR) : 0 <= eps -> unitq q -> eps < vnorm (qv q) ->
  4 / 3 * vnorm (qv q) <= vnorm (SO3_log eps q).
Proof.
  intros He Hu Hv. pose proof (unitq_prod q Hu) as Hp. pose proof (vnorm_nonneg (qv q)) as Hn.
  set (vn := vnorm (qv q)) in *.
  assert (Hvn1 : vn <= 1) by nra.
  destruct (Rlt_or_le eps (Rabs (qw q))) as [Hw|Hw].
  - rewrite SO3_log_norm_abs by assumption. fold vn.
    assert (Hw1 : Rabs (qw q) <= 1).
    { apply Rabs_le. split; nra. }
    assert (Hle : vn <= vn / Rabs (qw q)).
    { assert (1 <= / Rabs (qw q)) by (rewrite <- Rinv_1; apply Rinv_le_contravar; lra). unfold Rdiv. nra. }
    assert (atan vn <= atan (vn / Rabs (qw q))).
    { destruct Hle as [Hlt|<-]; [left; now apply atan_increasing|right; reflexivity]. }
    pose proof (atan_ge_23 vn ltac:(lra)). lra.
  - rewrite SO3_log_norm_regime2 by assumption. assert (3 < PI) by interval. lra.
Qed.
Lemma so3_exp_scaled_log_unit (eps c : R) (q : quatR) : 0 <= eps -> unitq q -> eps < vnorm (qv q) -> 3 / 4 <= c ->
  unitq (so3_exp eps (vscale c (SO3_log eps q))).
Proof.
  intros He Hu Hv Hc. apply so3_exp_unit_closed; [assumption|].
  rewrite vnorm_scale, Rabs_pos_eq by lra.
  pose proof (SO3_log_norm_lower eps q He Hu Hv). nra.
Qed.

(* ------------------------------------------------------------------ extrapolate = True on SE3 *)
Lemma SE3_cancel_l (P Q : se3R) : valid_SE3 P -> SE3_mul P (SE3_mul (SE3_inv P) Q) = Q.
Proof.
  intros H. rewrite <- SE3_mul_assoc by (try assumption; now apply valid_SE3_inv).
  rewrite SE3_inv_r by assumption. apply SE3_id_l.
Qed.

(* the segment whose first three poses coincide starts (u = 0) at that pose *)
Lemma bs_seg_SE3_start (eps : R) (x y : se3R) (q : R) : 0 <= eps -> valid_SE3 x ->
  segSE3 eps (x, x, x, y) (bs_w (IZR 0 * q)) = x.
Proof.
  intros He Hx. rewrite bs_w_0. unfold bs_seg_SE3, bs_seg.
  rewrite SE3_inv_l by assumption. rewrite SE3_log_id, !se3_scale_zero, se3_scale_0, se3_exp_zero by assumption.
  now rewrite !SE3_id_r.
Qed.
(* the segment whose last three poses coincide ends (row-sum weights) at Exp (Log (y^-1 l)) after y *)
Lemma bs_seg_SE3_end (eps : R) (y l : se3R) : 0 <= eps -> valid_SE3 l ->
  segSE3 eps (y, l, l, l) bs_wend = SE3_mul y (se3_exp eps (SE3_log eps (SE3_mul (SE3_inv y) l))).
Proof.
  intros He Hl. rewrite bs_wend_val. unfold bs_seg_SE3, bs_seg.
  rewrite SE3_inv_l by assumption. rewrite SE3_log_id, !se3_scale_zero, se3_scale_1, se3_exp_zero by assumption.
  now rewrite !SE3_id_r.
Qed.

Theorem bspline_SE3_extrapolate_endpoints (eps : R) k q (data : list se3R) (a : se3R) :
  0 <= eps -> q < 1 -> (1 <= k)%nat -> data <> [] -> Forall valid_SE3 data ->
  exists out, bsplSE3 eps k q true data = Some out /\
    nth 0 out a = hd a data /\
    let Z := SE3_mul (SE3_inv (nth (length data - 2) data a)) (List.last data a) in
    (se3_generic eps Z -> se3_same (List.last out a) (List.last data a) /\
                          (0 <= qw (snd Z) -> List.last out a = List.last data a)).
Proof.
  intros He Hq Hk Hne Hv. unfold bspline_SE3. rewrite bspline_unfold by assumption.
  destruct data as [|x r]; [congruence|]. clear Hne.
  set (l := List.last (x :: r) x).
  set (P := bs_pad se3R (x :: r)).
  assert (HP : P = x :: x :: x :: r ++ [l; l]) by reflexivity.
  assert (HlenP : length P = (length r + 5)%nat) by (rewrite HP; cbn [length]; rewrite app_length; cbn; lia).
  pose proof (length_windows4 P) as HL. rewrite HlenP in HL.
  assert (Hx : valid_SE3 x) by (now inversion Hv).
  assert (Hl : valid_SE3 l).
  { rewrite Forall_forall in Hv. apply Hv. apply last_In. discriminate. }
  destruct (windows4 se3R P) as [|W0 ws] eqn:E; [cbn in HL; lia|]. rewrite <- E in *.
  eexists; split; [reflexivity|]. split.
  - replace 0%nat with (0 * k + 0)%nat by lia. rewrite nth_bs_out_inner by lia.
    rewrite (nth_windows4 P 0 x W0) by lia. rewrite HP. cbn [nth Nat.add Z.of_nat hd].
    fold_seg eps. now apply bs_seg_SE3_start.
  - cbv zeta.
    assert (Hlast : forall (o : list se3R) (z : se3R), List.last (o ++ [z]) a = z).
    { intros o z. induction o as [|y o IH]; [reflexivity|]. cbn [app]. destruct (o ++ [z]) eqn:E2.
      - destruct o; discriminate. - exact IH. }
    unfold bs_out. rewrite Hlast, (last_nth (windows4 se3R P)), HL, (nth_windows4 P _ x W0) by lia.
    assert (Hl1 : nth (length r + 5 - 3 - 1 + 3) P x = l).
    { rewrite HP. replace (length r + 5 - 3 - 1 + 3)%nat with (S (S (S (length r + 1)))) by lia. cbn [nth].
      rewrite app_nth2 by lia. replace (length r + 1 - length r)%nat with 1%nat by lia. reflexivity. }
    assert (Hl2 : nth (length r + 5 - 3 - 1 + 2) P x = l).
    { rewrite HP. replace (length r + 5 - 3 - 1 + 2)%nat with (S (S (S (length r)))) by lia. cbn [nth].
      rewrite app_nth2 by lia. rewrite Nat.sub_diag. reflexivity. }
    assert (Hl3 : nth (length r + 5 - 3 - 1 + 1) P x = l).
    { rewrite HP. replace (length r + 5 - 3 - 1 + 1)%nat with (S (S (length r))) by lia.
      change (x :: x :: x :: r ++ [l; l]) with (x :: x :: (x :: r) ++ [l; l]). cbn [nth].
      rewrite app_nth1 by (cbn; lia). unfold l. rewrite (last_nth (x :: r)). cbn [length].
      replace (S (length r) - 1)%nat with (length r) by lia. reflexivity. }
    assert (Hy : nth (length r + 5 - 3 - 1) P x = nth (length (x :: r) - 2) (x :: r) a).
    { rewrite (nth_indep (x :: r) a x) by (cbn [length]; lia).
      rewrite HP. cbn [length]. destruct r as [|r0 r']; [reflexivity|].
      cbn [length]. replace (S (length r') + 5 - 3 - 1)%nat with (S (S (length r'))) by lia.
      replace (S (S (length r')) - 2)%nat with (length r') by lia.
      change (x :: x :: x :: (r0 :: r') ++ [l; l]) with (x :: x :: (x :: r0 :: r') ++ [l; l]).
      change (nth (S (S (length r'))) (x :: x :: (x :: r0 :: r') ++ [l; l]) x)
        with (nth (length r') ((x :: r0 :: r') ++ [l; l]) x).
      apply app_nth1. cbn [length]. lia. }
    rewrite Hl1, Hl2, Hl3, Hy.
    assert (Hla : List.last (x :: r) a = l) by (unfold l; apply last_indep_ne; discriminate).
    rewrite Hla. set (y := nth (length (x :: r) - 2) (x :: r) a).
    assert (Hyv : valid_SE3 y).
    { rewrite Forall_forall in Hv. apply Hv. apply nth_In. cbn [length]. lia. }
    fold_seg eps. rewrite bs_seg_SE3_end by assumption.
    intros Hgen.
    assert (HZ : valid_SE3 (SE3_mul (SE3_inv y) l)) by (apply valid_SE3_mul; [now apply valid_SE3_inv|assumption]).
    destruct (exp_log_SE3_same eps _ He HZ Hgen) as [Hs Hpos]. split.
    + destruct Hs as [-> | ->].
      * left. now apply SE3_cancel_l.
      * right. rewrite SE3_mul_qneg_r. f_equal. now apply SE3_cancel_l.
    + intros Hw. rewrite (Hpos Hw). now apply SE3_cancel_l.
Qed.

(* ------------------------------------------------------------------ continuity on SE3 *)
(* end (u = 1) of the segment on (P0, P1, P2, P3) = start (u = 0) of the segment on (P1, P2, P3, P4) *)
Lemma bs_seg_SE3_continuous (eps : R) (P0 P1 P2 P3 P4 : se3R) (q : R) : 0 <= eps ->
  valid_SE3 P0 -> valid_SE3 P1 -> valid_SE3 P2 ->
  se3_generic eps (SE3_mul (SE3_inv P0) P1) -> se3_generic eps (SE3_mul (SE3_inv P1) P2) ->
  se3_same (segSE3 eps (P0, P1, P2, P3) (bs_w 1)) (segSE3 eps (P1, P2, P3, P4) (bs_w (IZR 0 * q))) /\
  (0 <= qw (snd (SE3_mul (SE3_inv P0) P1)) ->
   segSE3 eps (P0, P1, P2, P3) (bs_w 1) = segSE3 eps (P1, P2, P3, P4) (bs_w (IZR 0 * q))).
Proof.
  intros He H0 H1 H2 Hg1 Hg2. rewrite bs_w_1, bs_wend_val, bs_w_0. unfold bs_seg_SE3, bs_seg.
  rewrite se3_scale_1, se3_scale_0, se3_exp_zero, SE3_id_r by assumption.
  set (r1 := SE3_mul (SE3_inv P0) P1) in *. set (r2 := SE3_mul (SE3_inv P1) P2) in *.
  set (E2 := se3_exp eps (se3_scale (5 / 6) (SE3_log eps r2))).
  set (E3 := se3_exp eps (se3_scale (1 / 6) (SE3_log eps (SE3_mul (SE3_inv P2) P3)))).
  assert (Hr1 : valid_SE3 r1) by (apply valid_SE3_mul; [now apply valid_SE3_inv|assumption]).
  assert (Hr2 : valid_SE3 r2) by (apply valid_SE3_mul; [now apply valid_SE3_inv|assumption]).
  assert (HE2 : valid_SE3 E2).
  { unfold E2, valid_SE3, se3_exp. cbn [snd]. destruct Hg2 as [->|[Hv _]].
    - rewrite SE3_log_id, se3_scale_zero. cbn [snd]. rewrite so3_exp_zero by assumption. apply unitq_id.
    - unfold se3_scale, SE3_log. cbn [snd]. apply so3_exp_scaled_log_unit; try assumption. lra. }
  assert (Hkey : SE3_mul P0 (SE3_mul (SE3_mul r1 E2) E3) = SE3_mul P1 (SE3_mul E2 E3)).
  { rewrite (SE3_mul_assoc r1 E2 E3) by assumption. rewrite <- (SE3_mul_assoc P0 r1) by assumption.
    unfold r1 at 1. now rewrite SE3_cancel_l. }
  destruct (exp_log_SE3_same eps r1 He Hr1 Hg1) as [Hs Hpos]. split.
  - destruct Hs as [-> | ->]; [left; exact Hkey|right].
    rewrite !SE3_mul_qneg_l, SE3_mul_qneg_r. f_equal. exact Hkey.
  - intros Hw. rewrite (Hpos Hw). exact Hkey.
Qed.

(* on the output of bspline_SE3: when every consecutive relative pose is the identity or generic, the
   value of segment i at u = 1 is (the same rigid transformation as) output sample (i+1) k, the first
   sample of segment i+1; the value of the last segment at u = 1 is the last output sample *)
Theorem bspline_SE3_continuous (eps : R) k q (data : list se3R) (d : se3R) :
  0 <= eps -> q < 1 -> (4 <= length data)%nat -> (1 <= k)%nat -> Forall valid_SE3 data ->
  (forall i, (i + 1 < length data)%nat -> se3_generic eps (SE3_mul (SE3_inv (nth i data d)) (nth (i + 1) data d))) ->
  exists out, bsplSE3 eps k q false data = Some out /\
    (forall i, (i + 4 < length data)%nat ->
       let e := segSE3 eps (nth i data d, nth (i + 1) data d, nth (i + 2) data d, nth (i + 3) data d) (bs_w 1) in
       se3_same e (nth ((i + 1) * k) out d) /\
       (0 <= qw (snd (SE3_mul (SE3_inv (nth i data d)) (nth (i + 1) data d))) -> e = nth ((i + 1) * k) out d)) /\
    segSE3 eps (nth (length data - 4) data d, nth (length data - 3) data d, nth (length data - 2) data d,
                nth (length data - 1) data d) (bs_w 1) = nth ((length data - 3) * k) out d.
Proof.
  intros He Hq HN Hk Hv Hgen. unfold bspline_SE3. rewrite bspline_unfold by assumption.
  pose proof (length_windows4 data) as HL.
  destruct (windows4 se3R data) as [|W0 ws] eqn:E; [cbn in HL; lia|]. rewrite <- E in *.
  eexists; split; [reflexivity|]. split.
  - intros i Hi. cbv zeta. replace ((i + 1) * k)%nat with ((i + 1) * k + 0)%nat by lia.
    rewrite nth_bs_out_inner by lia. rewrite (nth_windows4 data (i + 1) d W0) by lia.
    replace (i + 1 + 1)%nat with (i + 2)%nat by lia. replace (i + 1 + 2)%nat with (i + 3)%nat by lia.
    cbn [Z.of_nat]. rewrite Forall_forall in Hv. fold_seg eps.
    apply bs_seg_SE3_continuous; try assumption; try (apply Hv, nth_In; lia).
    + apply Hgen. lia.
    + replace (i + 2)%nat with (i + 1 + 1)%nat by lia. apply Hgen. lia.
  - rewrite <- HL, nth_bs_out_last, last_nth, HL, (nth_windows4 data _ d W0) by lia.
    rewrite bs_w_1.
    replace (length data - 3 - 1)%nat with (length data - 4)%nat by lia.
    replace (length data - 4 + 1)%nat with (length data - 3)%nat by lia.
    replace (length data - 4 + 2)%nat with (length data - 2)%nat by lia.
    replace (length data - 4 + 3)%nat with (length data - 1)%nat by lia. reflexivity.
Qed.

(* ------------------------------------------------------------------ the hypotheses are satisfiable *)
(* poses alternating between the identity and a rotation by 2 atan(3/4) about x with a translation:
   every consecutive relative pose is generic for the float64 eps, one hemisphere each *)
Definition eps_f64 : R := / 2 ^ 52.
Definition poseB : se3R := ((1, 2, 3), ((3 / 5, 0, 0), 4 / 5)).
Definition demo_path : list se3R := [SE3_id; poseB; SE3_id; poseB; SE3_id].
Lemma vnorm_x00 (a : R) : vnorm ((a, 0, 0) : vec3R) = Rabs a.
Proof.
  unfold vnorm. cbn [tsqrt TransR]. replace (vdot ((a, 0, 0) : vec3R) (a, 0, 0)) with (a²) by (unfold Rsqr; lie_unfold; ring).
  apply sqrt_Rsqr_abs.
Qed.
Lemma demo_path_ok :
  0 <= eps_f64 /\ Forall valid_SE3 demo_path /\
  (forall i, (i + 1 < length demo_path)%nat ->
     se3_generic eps_f64 (SE3_mul (SE3_inv (nth i demo_path SE3_id)) (nth (i + 1) demo_path SE3_id))) /\
  0 <= qw (snd (SE3_mul (SE3_inv (nth 0 demo_path SE3_id)) (nth 1 demo_path SE3_id))).
Proof.
  assert (He : 0 <= eps_f64 /\ eps_f64 < 3 / 5) by (unfold eps_f64; split; interval).
  assert (HB : valid_SE3 poseB) by (unfold valid_SE3, unitq, poseB, qnorm2; lie_unfold; field).
  assert (HI : valid_SE3 SE3_id) by apply unitq_id.
  split; [lra|]. split; [repeat constructor; assumption|]. split.
  - intros i Hi. cbn [demo_path length] in Hi.
    assert (Hg1 : se3_generic eps_f64 (SE3_mul (SE3_inv SE3_id) poseB)).
    { right. replace (snd (SE3_mul (SE3_inv SE3_id) poseB)) with (((3 / 5, 0, 0), 4 / 5) : quatR)
        by (unfold poseB; lie_unfold; split_pairs; field).
      cbn [qv qw fst snd]. rewrite vnorm_x00, !Rabs_pos_eq by lra. lra. }
    assert (Hg2 : se3_generic eps_f64 (SE3_mul (SE3_inv poseB) SE3_id)).
    { right. replace (snd (SE3_mul (SE3_inv poseB) SE3_id)) with (((- (3 / 5), 0, 0), 4 / 5) : quatR)
        by (unfold poseB; lie_unfold; split_pairs; field).
      cbn [qv qw fst snd]. rewrite vnorm_x00, Rabs_Ropp, !Rabs_pos_eq by lra. lra. }
    destruct i as [|[|[|[|i]]]]; cbn [nth demo_path Nat.add]; try assumption. lia.
  - cbn [nth demo_path]. replace (snd (SE3_mul (SE3_inv SE3_id) poseB)) with (((3 / 5, 0, 0), 4 / 5) : quatR)
      by (unfold poseB; lie_unfold; split_pairs; field).
    cbn [qw snd]. lra.
Qed.
