(* C17, ninth part: svdstf AS CALLED -- with_scale=False always returns; exact similarity
   correspondences of a non-collinear cloud give back the true (scale, rotation, translation);
   satisfiability of the svdstf hypotheses (no vacuity). *)
From Coq Require Import Reals Lra Psatz List Nsatz ZArith Bool Arith.
Import ListNotations.
From PV Require Import Base.Num Base.RTac Model.LieGroup Model.Controller Model.Align Proofs.LieGroup
  Proofs.Align Proofs.Align2 Proofs.Align3.
Local Open Scope R_scope.
#[local] Remove Hints NumQ NumZ : typeclass_instances.

Section Called.
Variable svd : mat3R -> mat3R * vec3R * mat3R.

(* with_scale = False: the scale is 1, above mat2Sim3's threshold: the call never raises *)
Theorem svdstf_noscale_returns (src tgt : cloudR) :
  sizes_ok src tgt = true -> svd_contract svd (svdstf_H src tgt) ->
  exists X, svdstf svd false src tgt = Some X /\ unitq (fst (snd X)) /\ snd (snd X) = 1 /\
    rot (SO3_matrix (fst (snd X))) /\
    forall A t, rot A -> resid (Sim3_act X) src tgt <= resid (rigid_apply A t) src tgt.
Proof.
  intros Hs Hc. pose proof (svdstf_returns svd false src tgt Hs Hc) as HR.
  unfold svd_contract in Hc. destruct (svd (svdstf_H src tgt)) as [[U D] V].
  assert (H1 : 1 / 100000 < fst (fst (svdstf_mat false src tgt U D V))) by (cbn [svdstf_mat svdstf_scale fst snd one NumR]; lra).
  destruct (HR H1) as (X & EX & Hq & Esc & Hact). exists X. split; [exact EX|]. split; [exact Hq|].
  split; [exact Esc|]. split; [now apply unitq_rot|].
  intros A t HA. rewrite (resid_ext _ _ Hact).
  exact (proj2 (proj2 (svdstf_noscale_optimal src tgt U D V Hs Hc)) A t HA).
Qed.

(* exact similarity correspondences, non-collinear source, true scale above the 1e-5 threshold:
   the Sim3 element returned IS the true transform *)
Theorem svdstf_call_exact_unique (src tgt : cloudR) c0 A0 t0 :
  tgt = map (sim_apply c0 A0 t0) src -> 1 / 100000 < c0 -> rot A0 -> noncollinear src ->
  svd_contract svd (svdstf_H src tgt) ->
  exists X, svdstf svd true src tgt = Some X /\ unitq (fst (snd X)) /\
    snd (snd X) = c0 /\ fst X = t0 /\ SO3_matrix (fst (snd X)) = A0 /\
    forall p, Sim3_act X p = sim_apply c0 A0 t0 p.
Proof.
  intros Htgt Hc0 HA Hnc Hc.
  assert (Hs : sizes_ok src tgt = true) by (rewrite Htgt; apply sizes_ok_map, noncollinear_nonempty, Hnc).
  pose proof (svdstf_returns svd true src tgt Hs Hc) as HR.
  unfold svd_contract in Hc. destruct (svd (svdstf_H src tgt)) as [[U D] V].
  pose proof (svdstf_exact_unique src tgt U D V c0 A0 t0 Htgt ltac:(lra) HA Hnc Hc) as EM.
  rewrite EM in HR. cbn [fst snd] in HR.
  destruct (HR Hc0) as (X & EX & Hq & Esc & Hact). exists X. split; [exact EX|]. split; [exact Hq|].
  split; [exact Esc|].
  destruct X as [t [q s]]. cbn [fst snd] in *. subst s.
  assert (Hall : forall p, In p src -> sim_apply c0 (SO3_matrix q) t p = sim_apply c0 A0 t0 p)
    by (intros p _; rewrite <- Sim3_act_sim; apply Hact).
  destruct (sim_unique c0 c0 _ A0 _ t0 src ltac:(lra) ltac:(lra) (unitq_rot _ Hq) HA Hnc Hall) as (_ & E2 & E3).
  split; [exact E3|]. split; [exact E2 | exact Hact].
Qed.
End Called.

(* ---------------------------------------------------------------- satisfiability *)
(* the witness cloud against itself: H = M / 3 has the SVD (I, (2, 2/3, 0), diag(1,1,-1)); the source is
   non-degenerate; the Umeyama scale is 1 (above the 1e-5 threshold) although det(U V) = -1 *)
Definition wit_D : vec3R := (2, 2 / 3, 0).
Lemma wit_stf_contract : svd_ok (svdstf_H wit_src wit_src) wit_U wit_D wit_Vh.
Proof.
  unfold svd_ok. split; [apply orth_mid3|].
  split; [unfold wit_Vh; al_unfold; split_pairs; ring|].
  split; [unfold wit_D; al_unfold; lra|].
  unfold svdstf_H, wit_src, centered, wit_U, wit_D, wit_Vh.
  cbv [map crosscov length centroid vsum3 fold_right ofN Z.of_nat Pos.of_succ_nat Pos.succ vdivs].
  al_unfold. split_pairs; field.
Qed.
Lemma wit_spread : 0 < sumsq (centered wit_src).
Proof. apply noncollinear_spread, wit_noncollinear. Qed.
Lemma wit_stf_value : svdstf_mat true wit_src wit_src wit_U wit_D wit_Vh = (1, mid3, vzero).
Proof.
  apply (svdstf_exact_unique wit_src wit_src wit_U wit_D wit_Vh 1 mid3 vzero).
  - rewrite (map_ext _ (fun p => p)) by (intros p; al_ring). now rewrite map_id.
  - lra. - apply rot_mid3. - apply wit_noncollinear. - apply wit_stf_contract.
Qed.
Example svdstf_hyps_satisfiable :
  sizes_ok wit_src wit_src = true /\ svd_ok (svdstf_H wit_src wit_src) wit_U wit_D wit_Vh /\
  0 < sumsq (centered wit_src) /\ mdet3 (mmul3 wit_U wit_Vh) = -1 /\
  1 / 100000 < fst (fst (svdstf_mat true wit_src wit_src wit_U wit_D wit_Vh)).
Proof.
  split; [reflexivity|]. split; [apply wit_stf_contract|]. split; [apply wit_spread|].
  split; [unfold wit_U, wit_Vh; al_ring|]. rewrite wit_stf_value. cbn [fst]. lra.
Qed.
