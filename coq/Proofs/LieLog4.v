(* C02 (part 4): the near-identity regimes.  Log (Exp x) on the Taylor branch of Exp (theta <= eps), and
   Exp (Log q) in regime 3 of SO3_Log (|v| <= eps): explicit error bounds over R (the model is not an exact
   inverse there).  atan / sin / cos remainder bounds from the standard library (MVT, SIN, COS). *)
From Coq Require Import Reals Lra Psatz List Nsatz.
From Coquelicot Require Import Coquelicot.
From Interval Require Import Tactic.
Import ListNotations.
From PV Require Import Proofs.ExpODE Proofs.ExpODE2 Proofs.ExpODE3.
From PV Require Import Base.Num Base.RTac Model.LieGroup Model.LieExp Model.LieLog Proofs.LieGroup Proofs.LieExp
  Proofs.LieLog Proofs.LieLog2 Proofs.LieLog3.
Local Open Scope R_scope.
#[local] Remove Hints NumQ NumZ : typeclass_instances.


(* ---- Log (Exp x) on the Taylor branch of Exp (theta <= eps): x scaled by 1 + r, |r| <= theta^4 / 64 *)
Definition rlog_taylor (t : R) : R :=
  - (t * t * (t * t)) * ((t^10 + 960 * t^8 - 138240 * t^6 + 6860800 * t^4 - 143769600 * t^2 + 1061683200)
                         / (1500 * (t^4 - 48 * t^2 + 384)^3)).
Lemma rlog_taylor_bound (t : R) : 0 <= t <= 1 / 1024 -> Rabs (rlog_taylor t) <= t^4 / 64.
Proof.
  intros Ht. unfold rlog_taylor. rewrite Rabs_mult, Rabs_Ropp.
  rewrite (Rabs_pos_eq (t * t * (t * t))) by nra.
  replace (t^4 / 64) with (t * t * (t * t) * (1 / 64)) by field.
  apply Rmult_le_compat_l; [nra|]. interval.
Qed.
Lemma log_exp_so3_taylor (eps : R) (x : vec3R) : 0 <= eps -> eps <= 1 / 1024 -> vnorm x <= eps ->
  SO3_log eps (so3_exp eps x) = vscale (1 + rlog_taylor (vnorm x)) x.
Proof.
  intros He He2 Hx. pose proof (vnorm_nonneg x) as Hn.
  unfold so3_exp, so3_exp_coef.
  replace (ltb eps (vnorm x)) with false by (symmetry; cbn; now apply Rltb_false).
  cbn [fst snd]. unfold SO3_log, SO3_log_factor. cbn [qv qw fst snd]. rewrite vnorm_scale.
  set (t := vnorm x) in *. clearbody t. num_simpl.
  assert (Ht : 0 <= t <= 1 / 1024) by lra.
  assert (Ht2 : 0 <= t * t <= 1) by nra.
  assert (Hci : 0 < 1 / 2 - 1 / 48 * (t * t) + 1 / 3840 * (t * t * (t * t)) <= 1 / 2) by (split; [interval | nra]).
  rewrite (Rabs_pos_eq (1 / 2 - 1 / 48 * (t * t) + 1 / 3840 * (t * t * (t * t)))) by lra.
  assert (Hle : (1 / 2 - 1 / 48 * (t * t) + 1 / 3840 * (t * t * (t * t))) * t <= eps).
  { apply Rle_trans with (1 / 2 * t); [apply Rmult_le_compat_r; lra | lra]. }
  replace (ltb eps ((1 / 2 - 1 / 48 * (t * t) + 1 / 3840 * (t * t * (t * t))) * t)) with false
    by (symmetry; cbn; apply Rltb_false; exact Hle).
  assert (Hcr : 1 - 1 / 8 * (t * t) + 1 / 384 * (t * t * (t * t)) <> 0) by (apply Rgt_not_eq; interval).
  assert (HD : t^4 - 48 * t^2 + 384 <> 0) by (apply Rgt_not_eq; interval).
  assert (H3 : (8 - t * t) * 384 + t * t * (t * t) * 8 <> 0) by (apply Rgt_not_eq; interval).
  unfold rlog_taylor. clear - Hcr HD H3.
  destruct x as [[a b] c]. lie_unfold. split_pairs; field; split; auto.
Qed.

(* ------------------------------------------------------------------ analytic remainder bounds *)
Lemma INR_fact_vals : INR (fact 3) = 6 /\ INR (fact 5) = 120 /\ INR (fact 7) = 5040 /\ INR (fact 9) = 362880 /\
  INR (fact 2) = 2 /\ INR (fact 4) = 24 /\ INR (fact 6) = 720 /\ INR (fact 8) = 40320.
Proof.
  repeat split; rewrite INR_IZR_INZ; apply f_equal; vm_compute; reflexivity.
Qed.

Lemma sin_taylor5 (u : R) : 0 <= u <= 1 -> u - u^3/6 + u^5/120 - u^7/5040 <= sin u <= u - u^3/6 + u^5/120.
Proof.
  intros Hu. pose proof PI2_3_2 as Hpi. destruct (SIN u ltac:(lra) ltac:(lra)) as [Hl Hh].
  destruct INR_fact_vals as (F3 & F5 & F7 & F9 & _).
  unfold sin_lb, sin_ub, sin_approx in *. cbn [sum_f_R0] in *. unfold sin_term in *. cbn [Nat.mul Nat.add] in *.
  rewrite ?F3, ?F5, ?F7, ?F9 in *.
  change (INR (fact 1)) with 1 in *.
  assert (0 <= u^7) by (apply pow_le; lra).
  assert (Hu2 : 0 <= u * u <= 1) by nra.
  assert (u^9 <= u^7).
  { replace (u^9) with (u^7 * (u*u)) by ring. rewrite <- (Rmult_1_r (u^7)) at 2. apply Rmult_le_compat_l; lra. }

  split; [eapply Rle_trans; [|exact Hl]; right; field | eapply Rle_trans; [exact Hh|]].
  apply Rminus_le. field_simplify. nra.
Qed.

Lemma cos_taylor4 (u : R) : 0 <= u <= 1 -> 1 - u^2/2 + u^4/24 - u^6/720 <= cos u <= 1 - u^2/2 + u^4/24.
Proof.
  intros Hu. pose proof PI2_3_2 as Hpi. destruct (COS u ltac:(lra) ltac:(lra)) as [Hl Hh].
  destruct INR_fact_vals as (_ & _ & _ & _ & F2 & F4 & F6 & F8).
  unfold cos_lb, cos_ub, cos_approx in *. cbn [sum_f_R0] in *. unfold cos_term in *. cbn [Nat.mul Nat.add] in *.
  rewrite ?F2, ?F4, ?F6, ?F8 in *.
  change (INR (fact 0)) with 1 in *.
  assert (0 <= u^6) by (apply pow_le; lra).
  assert (Hu2 : 0 <= u * u <= 1) by nra.
  assert (u^8 <= u^6).
  { replace (u^8) with (u^6 * (u*u)) by ring. rewrite <- (Rmult_1_r (u^6)) at 2. apply Rmult_le_compat_l; lra. }
  split; [eapply Rle_trans; [|exact Hl]; right; field | eapply Rle_trans; [exact Hh|]].
  apply Rminus_le. field_simplify. nra.
Qed.

(* 0 <= atan x - (x - x^3/3) <= x^5 for x >= 0 *)
Lemma atan_cubic_bound (x : R) : 0 <= x -> 0 <= atan x - (x - x^3/3) <= x^5.
Proof.
  intros Hx. destruct (Req_dec x 0) as [->|Hx0].
  { rewrite atan_0. split; right; field. }
  assert (Hp : 0 < x) by lra.
  destruct (MVT_gen (fun y => atan y - (y - y^3/3)) 0 x (fun y => y^4 / (1 + y^2))) as (c & Hc & E).
  - intros y _. auto_derive; [auto|]. field. nra.
  - intros y _. apply derivable_continuous_pt. apply ex_derive_Reals_0. auto_derive. auto.
  - rewrite Rmin_left, Rmax_right in Hc by lra. rewrite atan_0 in E.
    replace (0 - (0 - 0^3/3)) with 0 in E by field. rewrite Rminus_0_r in E. rewrite Rminus_0_r in E. rewrite E.
    assert (Hc4 : 0 <= c^4 <= x^4).
    { split; [apply pow_le; lra|apply pow_incr; lra]. }
    assert (Hq : 0 <= c^4 / (1 + c^2) <= x^4).
    { split; [apply Rmult_le_pos; [lra|left; apply Rinv_0_lt_compat; nra]|].
      apply Rle_trans with (c^4); [|lra]. apply Rle_div_l; [nra|]. nra. }
    replace (x^5) with (x^4 * x) by ring. split; [apply Rmult_le_pos; lra|apply Rmult_le_compat_r; lra].
Qed.

Lemma sin_sq_le (z : R) : sin z * sin z <= z * z.
Proof.
  destruct (Rle_or_lt 0 z) as [H|H].
  - destruct (Req_dec z 0) as [->|Hz]; [rewrite sin_0; lra|].
    pose proof (sin_lt_x z ltac:(lra)). destruct (Rle_or_lt z 1) as [H1|H1].
    + assert (0 < sin z) by (apply sin_gt_0; [lra|pose proof PI2_3_2; lra]). nra.
    + pose proof (SIN_bound z). nra.
  - pose proof (sin_gt_x z H). destruct (Rle_or_lt (-1) z) as [H1|H1].
    + assert (sin z < 0) by (apply sin_lt_0_var; [pose proof PI2_3_2; lra|lra]). nra.
    + pose proof (SIN_bound z). nra.
Qed.
(* chord length on the unit circle <= arc length *)
Lemma chord_le_arc (u a : R) : (sin u - sin a) * (sin u - sin a) + (cos u - cos a) * (cos u - cos a) <= (u - a) * (u - a).
Proof.
  pose proof (sin2_cos2 u) as Hu. pose proof (sin2_cos2 a) as Ha. unfold Rsqr in *.
  pose proof (cos_minus u a) as Hm.
  assert (Hd : cos (u - a) = 1 - 2 * sin ((u - a) / 2) * sin ((u - a) / 2)).
  { replace (u - a) with (2 * ((u - a) / 2)) at 1 by field. apply cos_2a_sin. }
  pose proof (sin_sq_le ((u - a) / 2)). nra.
Qed.

(* ------------------------------------------------------------------ Exp (Log q) in regime 3 (|v| <= eps) *)
Lemma vscale_vscale (k l : R) (v : vec3R) : vscale k (vscale l v) = vscale (k * l) v.
Proof. destruct v as [[a b] c]. lie_unfold. split_pairs; ring. Qed.
Lemma qdist2_scaled (k c : R) (q : quatR) :
  qdist2 (vscale k (qv q), c) q = (k * vnorm (qv q) - vnorm (qv q)) * (k * vnorm (qv q) - vnorm (qv q)) + (c - qw q) * (c - qw q).
Proof.
  unfold qdist2. cbn [qv qw fst snd].
  replace (vdot (vsub (vscale k (qv q)) (qv q)) (vsub (vscale k (qv q)) (qv q))) with ((k - 1) * (k - 1) * vdot (qv q) (qv q))
    by (destruct (qv q) as [[a b] c0]; lie_unfold; ring).
  rewrite <- vnorm_sq. ring.
Qed.
Lemma unit_atan0 (vn w : R) : 0 <= vn -> 0 < w -> vn * vn + w * w = 1 ->
  sin (atan (vn / w)) = vn /\ cos (atan (vn / w)) = w.
Proof.
  intros Hvn Hw Hu.
  assert (Hsq : sqrt (1 + (vn / w)²) = / w).
  { replace (1 + (vn / w)²) with (/ (w * w)) by (unfold Rsqr; field_simplify_eq; [nra|lra]).
    rewrite sqrt_inv_sq by lra. now rewrite Rabs_pos_eq by lra. }
  split.
  - rewrite sin_atan, Hsq. field. lra.
  - rewrite cos_atan, Hsq. field. lra.
Qed.

Lemma exp_log_regime3_pos (eps : R) (q : quatR) : 0 <= eps -> eps <= 1 / 1024 -> unitq q ->
  vnorm (qv q) <= eps -> 0 < qw q ->
  qdist2 (so3_exp eps (SO3_log eps q)) q <= 4 * (vnorm (qv q) / qw q) ^ 10.
Proof.
  intros He He2 Hu Hv Hw. pose proof (unitq_prod q Hu) as Hp. pose proof (vnorm_nonneg (qv q)) as Hn.
  unfold SO3_log, SO3_log_factor.
  replace (ltb eps (vnorm (qv q))) with false by (symmetry; cbn; apply Rltb_false; exact Hv).
  set (vn := vnorm (qv q)) in *. set (w := qw q) in *. num_simpl.
  set (f := IZR 2 * (1 / w - vn * vn / (IZR 3 * (w * w * w)))).
  assert (Hw1 : 99 / 100 <= w) by nra.
  set (x := vn / w).
  assert (Hx : 0 <= x <= 1 / 512).
  { unfold x. split; [apply Rmult_le_pos; [lra|left; apply Rinv_0_lt_compat; lra]|].
    apply Rle_div_l; [lra|]. nra. }
  destruct (unit_atan0 vn w Hn Hw Hp) as [Hsa Hca]. fold x in Hsa, Hca.
  pose proof (atan_cubic_bound x (proj1 Hx)) as Hg.
  set (a := atan x) in *. set (u := x - x ^ 3 / 3) in *.
  assert (Hfu : f * vn = 2 * u) by (unfold f, u, x; field; lra).
  assert (Hu0 : 0 <= u <= x).
  { unfold u. assert (0 <= x ^ 3) by (apply pow_le; lra). assert (x ^ 3 <= x) by (replace (x ^ 3) with (x * (x * x)) by ring; nra).
    lra. }
  assert (Hf0 : 0 < f) by (unfold f; replace (IZR 2 * (1 / w - vn * vn / (IZR 3 * (w * w * w)))) with (2 / w * (1 - x * x / 3)) by (unfold x; field; lra);
    apply Rmult_lt_0_compat; [apply Rdiv_lt_0_compat; lra|nra]).
  assert (Hth : vnorm (vscale f (qv q)) = 2 * u).
  { rewrite vnorm_scale. fold vn. rewrite Rabs_pos_eq by lra. exact Hfu. }
  assert (Hx5 : 0 <= x ^ 5) by (apply pow_le; lra).
  assert (Hx10 : x ^ 10 = x ^ 5 * x ^ 5) by ring.
  pose proof (chord_le_arc u a) as Hch. rewrite Hsa, Hca in Hch.
  assert (Hga : (u - a) * (u - a) <= x ^ 5 * x ^ 5) by nra.
  destruct (Rlt_dec eps (2 * u)) as [Hb|Hb].
  - (* closed-form branch of Exp *)
    rewrite so3_exp_is_cf by (rewrite Hth; exact Hb). unfold so3_exp_cf. rewrite Hth. cbv zeta.
    replace (2 * u / 2) with u by field. rewrite vscale_vscale, qdist2_scaled. fold vn w.
    assert (Hvn0 : vn <> 0) by (intros E; rewrite E in Hfu; lra).
    replace (sin u / (2 * u) * f * vn) with (sin u) by (rewrite <- Hfu; field; split; lra).
    rewrite Hx10. assert (0 <= x ^ 5 * x ^ 5) by (apply Rmult_le_pos; lra). lra.
  - (* Taylor branch of Exp *)
    unfold so3_exp, so3_exp_coef. rewrite Hth.
    replace (ltb eps (2 * u)) with false by (symmetry; cbn; apply Rltb_false; lra).
    cbn [fst snd]. cbv zeta. rewrite vscale_vscale, qdist2_scaled. fold vn w. num_simpl.
    replace ((1 / 2 - 1 / 48 * (2 * u * (2 * u)) + 1 / 3840 * (2 * u * (2 * u) * (2 * u * (2 * u)))) * f * vn)
      with (u - u ^ 3 / 6 + u ^ 5 / 120) by (rewrite (Rmult_assoc _ f vn), Hfu; field).
    replace (1 - 1 / 8 * (2 * u * (2 * u)) + 1 / 384 * (2 * u * (2 * u) * (2 * u * (2 * u))))
      with (1 - u ^ 2 / 2 + u ^ 4 / 24) by field.
    pose proof (sin_taylor5 u ltac:(lra)) as Hs. pose proof (cos_taylor4 u ltac:(lra)) as Hc.
    assert (Hu7 : 0 <= u ^ 7 <= x ^ 5).
    { split; [apply pow_le; lra|]. apply Rle_trans with (x ^ 7); [apply pow_incr; lra|].
      replace (x ^ 7) with (x ^ 5 * (x * x)) by ring. rewrite <- (Rmult_1_r (x ^ 5)) at 2. apply Rmult_le_compat_l; nra. }
    assert (Hu6 : 0 <= u ^ 6 <= x ^ 5).
    { split; [apply pow_le; lra|]. apply Rle_trans with (x ^ 6); [apply pow_incr; lra|].
      replace (x ^ 6) with (x ^ 5 * x) by ring. rewrite <- (Rmult_1_r (x ^ 5)) at 2. apply Rmult_le_compat_l; lra. }
    rewrite Hx10.
    set (Ts := u - u ^ 3 / 6 + u ^ 5 / 120) in *. set (Tc := 1 - u ^ 2 / 2 + u ^ 4 / 24) in *.
    set (X := x ^ 5) in *. set (su := sin u) in *. set (cu := cos u) in *.
    set (e1 := Ts - su). set (d1 := Tc - cu).
    assert (He1 : 0 <= e1 <= X / 5040) by (unfold e1; lra).
    assert (Hd1 : 0 <= d1 <= X / 720) by (unfold d1; lra).
    replace (Ts - vn) with (e1 + (su - vn)) by (unfold e1; ring).
    replace (Tc - w) with (d1 + (cu - w)) by (unfold d1; ring).
    set (e2 := su - vn) in *. set (d2 := cu - w) in *.
    assert (H2 : e2 * e2 + d2 * d2 <= X * X) by lra.
    clearbody e1 d1 e2 d2 X. clear - He1 Hd1 H2 Hx5.
    pose proof (Rle_0_sqr (e1 - e2)) as Q1. pose proof (Rle_0_sqr (d1 - d2)) as Q2. unfold Rsqr in Q1, Q2.
    assert ((e1 + e2) * (e1 + e2) <= 2 * (e1 * e1) + 2 * (e2 * e2)) by nra.
    assert ((d1 + d2) * (d1 + d2) <= 2 * (d1 * d1) + 2 * (d2 * d2)) by nra.
    assert (e1 * e1 <= X / 5040 * (X / 5040)) by nra.
    assert (d1 * d1 <= X / 720 * (X / 720)) by nra.
    nra.
Qed.

(* q and -q have the same Log also in regime 3 (the factor is odd in w) and in regime 2 unless w = 0 exactly;
   at w = 0 (angle exactly pi) Log (-q) = - Log q: both are logarithms of the same half-turn *)
Lemma SO3_log_neg_regime3 (eps : R) (q : quatR) : vnorm (qv q) <= eps -> qw q <> 0 ->
  SO3_log eps (qneg q) = SO3_log eps q.
Proof.
  intros Hv Hw. unfold SO3_log, SO3_log_factor, qneg. cbn [qv qw fst snd]. rewrite vnorm_neg.
  replace (ltb eps (vnorm (qv q))) with false by (symmetry; cbn; apply Rltb_false; exact Hv).
  set (vn := vnorm (qv q)). clearbody vn. num_simpl.
  destruct (qv q) as [[a b] c]. lie_unfold. split_pairs; field; exact Hw.
Qed.
Lemma SO3_log_neg_regime2 (eps : R) (q : quatR) : eps < vnorm (qv q) -> Rabs (qw q) <= eps -> qw q <> 0 ->
  SO3_log eps (qneg q) = SO3_log eps q.
Proof.
  intros Hv Hw Hw0. unfold SO3_log, SO3_log_factor, qneg. cbn [qv qw fst snd]. rewrite vnorm_neg.
  rewrite !absF_R, Rabs_Ropp.
  replace (ltb eps (vnorm (qv q))) with true by (symmetry; cbn; apply Rltb_true; exact Hv).
  replace (ltb eps (Rabs (qw q))) with false by (symmetry; cbn; apply Rltb_false; exact Hw).
  assert (Hpm : pm (- qw q) = - pm (qw q)).
  { destruct (pm_R (qw q)) as [[E H]|[E H]]; destruct (pm_R (- qw q)) as [[E' H']|[E' H']]; rewrite E, E'; lra. }
  rewrite Hpm. set (vn := vnorm (qv q)) in *. assert (Hvn : vn <> 0).
  { pose proof (vnorm_nonneg (qv q)). fold vn in H. intros E. rewrite E in Hv.
    destruct (Rcase_abs (qw q)) as [Hc|Hc]; [rewrite Rabs_left in Hw by lra|rewrite Rabs_right in Hw by lra]; lra. }
  clearbody vn. generalize (pm (qw q)). intros s. num_simpl.
  destruct (qv q) as [[a b] c]. lie_unfold. split_pairs; field; exact Hvn.
Qed.
Lemma SO3_log_neg_at_pi (eps : R) (q : quatR) : 0 <= eps -> eps < vnorm (qv q) -> qw q = 0 ->
  SO3_log eps (qneg q) = vneg (SO3_log eps q).
Proof.
  intros He Hv Hw. unfold SO3_log, SO3_log_factor, qneg. cbn [qv qw fst snd]. rewrite vnorm_neg.
  rewrite Hw, Ropp_0, !absF_R, Rabs_R0.
  replace (ltb eps (vnorm (qv q))) with true by (symmetry; cbn; apply Rltb_true; exact Hv).
  replace (ltb eps 0) with false by (symmetry; cbn; apply Rltb_false; exact He).
  generalize (pm 0 * tpi / vnorm (qv q))%num. intros k.
  destruct (qv q) as [[a b] c]. lie_unfold. split_pairs; ring.
Qed.

(* both hemispheres, bound in |v| alone *)
Lemma exp_log_regime3 (eps : R) (q : quatR) : 0 <= eps -> eps <= 1 / 1024 -> unitq q -> vnorm (qv q) <= eps ->
  qdist2 (so3_exp eps (SO3_log eps q)) (qscale (pm (qw q)) q) <= 5 * vnorm (qv q) ^ 10.
Proof.
  intros He He2 Hu Hv.
  assert (Hpos : forall p : quatR, unitq p -> vnorm (qv p) <= eps -> 0 < qw p ->
             qdist2 (so3_exp eps (SO3_log eps p)) p <= 5 * vnorm (qv p) ^ 10).
  { intros p Hup Hvp Hwp. eapply Rle_trans; [apply exp_log_regime3_pos; auto|].
    pose proof (unitq_prod p Hup) as Hp. pose proof (vnorm_nonneg (qv p)) as Hn.
    set (vn := vnorm (qv p)) in *. set (w := qw p) in *. clearbody vn w.
    assert (Hw1 : 99 / 100 <= w) by nra.
    unfold Rdiv. rewrite Rpow_mult_distr.
    assert (0 <= vn ^ 10) by (apply pow_le; lra).
    assert ((/ w) ^ 10 <= 5 / 4).
    { assert (Hi : 0 <= / w <= 100 / 99).
      { split; [left; apply Rinv_0_lt_compat; lra|]. replace (100 / 99) with (/ (99 / 100)) by field.
        apply Rinv_le_contravar; lra. }
      apply Rle_trans with ((100 / 99) ^ 10); [apply pow_incr; exact Hi|]. interval. }
    nra. }
  pose proof (unitq_prod q Hu) as Hp. pose proof (vnorm_nonneg (qv q)) as Hn.
  assert (Hw0 : qw q <> 0) by (intros E; rewrite E in Hp; nra).
  destruct (pm_R (qw q)) as [[E H]|[E H]]; rewrite E.
  - rewrite qscale_1. apply Hpos; auto. lra.
  - rewrite qscale_m1, <- (SO3_log_neg_regime3 eps q Hv Hw0).
    replace (vnorm (qv q)) with (vnorm (qv (qneg q))) by (unfold qneg; cbn [qv fst]; apply vnorm_neg).
    apply Hpos; [now apply unitq_qneg| |].
    + unfold qneg; cbn [qv fst]. now rewrite vnorm_neg.
    + unfold qneg; cbn [qw snd]. clear - H. lra.
Qed.

(* EVERY unit quaternion: Exp (Log q) is within sqrt 2 eps (quaternion distance) of q resp. -q; exact in regime 1 *)
Lemma qdist2_refl (q : quatR) : qdist2 q q = 0.
Proof. unfold qdist2. destruct q as [[[a b] c] w]. cbn [qv qw fst snd]. lie_unfold. ring. Qed.
Lemma exp_log_SO3_all (eps : R) (q : quatR) : 0 <= eps -> eps <= 1 / 1024 -> unitq q ->
  qdist2 (so3_exp eps (SO3_log eps q)) (qscale (pm (qw q)) q) <= 2 * (eps * eps).
Proof.
  intros He He2 Hu. destruct (Rlt_or_le eps (vnorm (qv q))) as [Hv|Hv].
  - destruct (Rlt_or_le eps (Rabs (qw q))) as [Hw|Hw].
    + assert (0 <= 2 * (eps * eps)) by nra.
      destruct (pm_R (qw q)) as [[E H0]|[E H0]]; rewrite E.
      * rewrite qscale_1, exp_log_pos_model, qdist2_refl; auto. rewrite Rabs_pos_eq in Hw; auto.
      * rewrite qscale_m1, exp_log_neg_model, qdist2_refl; auto. rewrite Rabs_left in Hw; lra.
    + apply exp_log_near_pi; auto. lra.
  - eapply Rle_trans; [apply exp_log_regime3; auto|].
    pose proof (vnorm_nonneg (qv q)) as Hn. set (vn := vnorm (qv q)) in *. clearbody vn.
    assert (vn ^ 10 <= eps ^ 10) by (apply pow_incr; lra).
    assert (eps ^ 10 <= eps * eps / 4).
    { replace (eps ^ 10) with (eps * eps * eps ^ 8) by ring. unfold Rdiv. apply Rmult_le_compat_l; [nra|].
      apply Rle_trans with ((1 / 1024) ^ 8); [apply pow_incr; lra|]. interval. }
    assert (0 <= eps * eps) by nra. lra.
Qed.

(* ------------------------------------------------------------------ Log (Exp x): the two remaining bands of theta < pi *)
Lemma small_half_angle (t : R) : 0 < t -> t < PI -> sin (t / 2) <= 1 / 1024 -> t <= 1.
Proof.
  intros H0 Hpi Hs. destruct (Rle_or_lt t 1) as [H|H]; [exact H|exfalso].
  assert (sin (1 / 2) < sin (t / 2)) by (apply sin_increasing_1; pose proof PI2_3_2; lra).
  assert (1 / 4 < sin (1 / 2)) by interval. lra.
Qed.
(* eps < theta but sin(theta/2) <= eps: closed-form Exp, regime 3 of Log *)
Lemma log_exp_so3_band (eps : R) (x : vec3R) : 0 <= eps -> eps <= 1 / 1024 -> eps < vnorm x -> vnorm x < PI ->
  sin (vnorm x / 2) <= eps ->
  exists r, SO3_log eps (so3_exp eps x) = vscale (1 + r) x /\ Rabs r <= 2 * vnorm x ^ 4 /\ vnorm x <= 4 * eps.
Proof.
  intros He He2 Hx Hpi Hs. rewrite so3_exp_is_cf by exact Hx.
  pose proof (vnorm_qv_exp_cf x ltac:(lra) ltac:(lra)) as Hvn.
  unfold SO3_log, SO3_log_factor. rewrite Hvn.
  replace (ltb eps (sin (vnorm x / 2))) with false by (symmetry; cbn; apply Rltb_false; exact Hs).
  unfold so3_exp_cf. cbn [qv qw fst snd]. cbv zeta.
  set (t := vnorm x) in *. clearbody t. num_simpl.
  assert (Ht1 : t <= 1) by (apply small_half_angle; lra).
  assert (Ht01 : 0 <= t <= 1) by lra.
  assert (Hc : 1 / 2 <= cos (t / 2)) by interval.
  assert (Hs0 : 0 < sin (t / 2)) by (apply sin_gt_0; lra).
  pose proof (sin_lt_x (t / 2) ltac:(lra)) as Hsx.
  pose proof (sin_taylor5 (t / 2) ltac:(lra)) as [Hsl _].
  set (s := sin (t / 2)) in *. set (c := cos (t / 2)) in *.
  set (tn := s / c).
  assert (Htn : 0 <= tn <= t).
  { unfold tn. split; [apply Rmult_le_pos; [lra|left; apply Rinv_0_lt_compat; lra]|].
    apply Rle_div_l; [lra|]. nra. }
  assert (Hat : atan tn = t / 2).
  { unfold tn, s, c. change (sin (t / 2) / cos (t / 2)) with (tan (t / 2)). apply atan_tan. pose proof PI2_3_2. lra. }
  pose proof (atan_cubic_bound tn (proj1 Htn)) as Hg. rewrite Hat in Hg.
  set (g := t / 2 - (tn - tn ^ 3 / 3)) in *.
  exists (- (2 * g / t)). split; [|split].
  - rewrite vscale_vscale. f_equal.
    unfold g, tn. field. lra.
  - rewrite Rabs_Ropp, Rabs_pos_eq by (apply Rmult_le_pos; [lra|left; apply Rinv_0_lt_compat; lra]).
    apply Rle_div_l; [lra|].
    assert (tn ^ 5 <= t ^ 5) by (apply pow_incr; lra).
    replace (2 * t ^ 4 * t) with (2 * t ^ 5) by ring. lra.
  - (* s >= t/4 *)
    assert (Hq : t / 4 <= s).
    { eapply Rle_trans; [|exact Hsl]. set (h := t / 2) in *. assert (0 < h <= 1 / 2) by (unfold h; lra).
      replace (t / 4) with (h / 2) by (unfold h; field).
      assert (0 <= h ^ 5 / 120 - h ^ 7 / 5040).
      { replace (h ^ 5 / 120 - h ^ 7 / 5040) with (h ^ 5 * (1 / 120 - h * h / 5040)) by field.
        apply Rmult_le_pos; [apply pow_le; lra|nra]. }
      replace (h ^ 3) with (h * (h * h)) by ring. nra. }
    lra.
Qed.

(* cos(theta/2) <= eps (theta within 4 eps of pi): regime 2 of Log reports the angle pi exactly *)
Lemma log_exp_so3_near_pi (eps : R) (x : vec3R) : 0 <= eps -> eps <= 1 / 1024 -> eps < vnorm x -> vnorm x < PI ->
  cos (vnorm x / 2) <= eps ->
  SO3_log eps (so3_exp eps x) = vscale (PI / vnorm x) x /\ 0 < PI - vnorm x <= 4 * eps.
Proof.
  intros He He2 Hx Hpi Hc. rewrite so3_exp_is_cf by exact Hx.
  pose proof (vnorm_qv_exp_cf x ltac:(lra) ltac:(lra)) as Hvn.
  unfold SO3_log, SO3_log_factor. rewrite Hvn.
  unfold so3_exp_cf. cbn [qv qw fst snd]. cbv zeta.
  set (t := vnorm x) in *. clearbody t.
  assert (Hc0 : 0 < cos (t / 2)) by (apply cos_gt_0; lra).
  assert (Hs0 : 0 < sin (t / 2)) by (apply sin_gt_0; lra).
  pose proof (sin2_cos2 (t / 2)) as Hsc. unfold Rsqr in Hsc.
  assert (Hs1 : 1 / 2 < sin (t / 2)) by nra.
  replace (ltb eps (sin (t / 2))) with true by (symmetry; cbn; apply Rltb_true; lra).
  rewrite absF_R, (Rabs_pos_eq (cos (t / 2))) by lra.
  replace (ltb eps (cos (t / 2))) with false by (symmetry; cbn; apply Rltb_false; exact Hc).
  destruct (pm_R (cos (t / 2))) as [[E _]|[_ Hn]]; [|lra]. rewrite E. num_simpl.
  split.
  - rewrite vscale_vscale. f_equal. field. lra.
  - split; [lra|].
    set (y := PI / 2 - t / 2). assert (Hy : 0 < y < PI / 2) by (unfold y; lra).
    assert (Hsy : sin y = cos (t / 2)) by (unfold y; apply sin_shift).
    assert (Hy1 : y <= 1).
    { destruct (Rle_or_lt y 1) as [H|H]; [exact H|exfalso].
      assert (sin 1 < sin y) by (apply sin_increasing_1; pose proof PI2_3_2; lra).
      assert (1 / 2 < sin 1) by interval. lra. }
    pose proof (sin_taylor5 y ltac:(lra)) as [Hsl _].
    assert (0 <= y ^ 5 / 120 - y ^ 7 / 5040).
    { replace (y ^ 5 / 120 - y ^ 7 / 5040) with (y ^ 5 * (1 / 120 - y * y / 5040)) by field.
      apply Rmult_le_pos; [apply pow_le; lra|nra]. }
    assert (y / 2 <= sin y) by (replace (y ^ 3) with (y * (y * y)) in Hsl by ring; nra).
    unfold y in *. lra.
Qed.

(* EVERY x with |x| < pi: Log (Exp x) = (1 + r) x with |r| <= 2 eps (r = 0 in regime 1) *)
Lemma log_exp_so3_all (eps : R) (x : vec3R) : 0 <= eps -> eps <= 1 / 1024 -> vnorm x < PI ->
  exists r, SO3_log eps (so3_exp eps x) = vscale (1 + r) x /\ Rabs r <= 2 * eps.
Proof.
  intros He He2 Hpi. pose proof (vnorm_nonneg x) as Hn.
  destruct (Rle_or_lt (vnorm x) eps) as [Hx|Hx].
  - exists (rlog_taylor (vnorm x)). split; [now apply log_exp_so3_taylor|].
    eapply Rle_trans; [apply rlog_taylor_bound; lra|].
    set (t := vnorm x) in *. clearbody t.
    assert (t ^ 4 <= eps ^ 4) by (apply pow_incr; lra).
    assert (eps ^ 4 <= eps).
    { replace (eps ^ 4) with (eps * (eps * eps * eps)) by ring. apply Rle_trans with (eps * 1); [|lra].
      apply Rmult_le_compat_l; [lra|]. assert (0 <= eps * eps <= 1 / 1024) by nra. nra. }
    lra.
  - destruct (Rle_or_lt (sin (vnorm x / 2)) eps) as [Hs|Hs].
    + destruct (log_exp_so3_band eps x He He2 Hx Hpi Hs) as (r & E & Hr & Ht). exists r. split; [exact E|].
      eapply Rle_trans; [exact Hr|]. set (t := vnorm x) in *. clearbody t.
      assert (t ^ 4 <= (4 * eps) ^ 4) by (apply pow_incr; lra).
      assert ((4 * eps) ^ 4 <= eps).
      { replace ((4 * eps) ^ 4) with (eps * (256 * (eps * eps * eps))) by ring.
        apply Rle_trans with (eps * 1); [|lra]. apply Rmult_le_compat_l; [lra|].
        assert (0 <= eps * eps <= 1 / 1024 * (1 / 1024)) by nra. nra. }
      lra.
    + destruct (Rle_or_lt (cos (vnorm x / 2)) eps) as [Hc|Hc].
      * destruct (log_exp_so3_near_pi eps x He He2 Hx Hpi Hc) as [E Hb]. exists (PI / vnorm x - 1). split.
        { rewrite E. f_equal. ring. }
        set (t := vnorm x) in *. clearbody t. assert (Ht3 : 2 <= t) by (pose proof PI2_3_2; lra).
        replace (PI / t - 1) with ((PI - t) / t) by (field; lra).
        rewrite Rabs_pos_eq by (apply Rmult_le_pos; [lra|left; apply Rinv_0_lt_compat; lra]).
        apply Rle_div_l; [lra|]. nra.
      * exists 0. split; [|rewrite Rabs_R0; lra].
        rewrite log_exp_so3_model by auto. destruct x as [[a b] c]. lie_unfold. split_pairs; ring.
Qed.

(* rxso3: Log (Exp x) for every |phi| < pi, every sigma *)
Lemma log_exp_rxso3_all (eps : R) (x : vec3R * R) : 0 <= eps -> eps <= 1 / 1024 -> vnorm (fst x) < PI ->
  exists r, RxSO3_log eps (rxso3_exp eps x) = (vscale (1 + r) (fst x), snd x) /\ Rabs r <= 2 * eps.
Proof.
  intros He He2 Hpi. destruct x as [phi sg]. cbn [fst snd] in *.
  destruct (log_exp_so3_all eps phi He He2 Hpi) as (r & E & Hr). exists r. split; [|exact Hr].
  unfold RxSO3_log, rxso3_exp. cbn [fst snd tln texp TransR]. now rewrite E, ln_exp.
Qed.

(* ------------------------------------------------------------------ SE3 / Sim3: the translation is restored exactly by
   Exp o Log whenever the angle of Log q is in (eps, 2 pi) - regimes 1 AND 2 (angle pi) of SO3_Log; no unit-norm
   hypothesis is needed for this part *)
Lemma exp_log_SE3_transl (eps : R) (X : se3R) : 0 <= eps ->
  eps < vnorm (SO3_log eps (snd X)) -> vnorm (SO3_log eps (snd X)) < 2 * PI ->
  se3_exp eps (SE3_log eps X) = (fst X, so3_exp eps (SO3_log eps (snd X))).
Proof.
  intros He Hlo Hhi. destruct X as [t q]. cbn [fst snd] in *. unfold se3_exp, SE3_log. cbn [fst snd].
  rewrite mvmul_mmul3, (mmul3_inv_comm _ _ (so3_Jl_inv_Jl eps (SO3_log eps q) He Hlo Hhi)), mvmul_id. reflexivity.
Qed.
Lemma exp_log_Sim3_transl (eps : R) (X : sim3R) : 0 <= eps -> 0 < snd (snd X) ->
  eps < vnorm (SO3_log eps (fst (snd X))) -> vnorm (SO3_log eps (fst (snd X))) < 2 * PI ->
  sim3_exp eps (Sim3_log eps X) = (fst X, (so3_exp eps (SO3_log eps (fst (snd X))), snd (snd X))).
Proof.
  intros He Hs Hlo Hhi. destruct X as [t [q s]]. cbn [fst snd] in *. unfold sim3_exp, Sim3_log. cbn [fst snd].
  rewrite (exp_log_RxSO3_gen eps (q, s) Hs). cbn [fst snd].
  rewrite mvmul_mmul3. unfold RxSO3_log. cbn [fst snd].
  rewrite minv3_r, mvmul_id; [reflexivity|]. apply rxso3_Ws_det; auto.
Qed.
(* hence for every unit quaternion with |v| > eps (all angles from the identity regime up to and including pi,
   both hemispheres): translation and scale exact, rotation within sqrt 2 eps of q resp. -q *)
Lemma exp_log_SE3_regime12 (eps : R) (X : se3R) : 0 <= eps -> eps <= 1 / 1024 -> unitq (snd X) -> eps < vnorm (qv (snd X)) ->
  fst (se3_exp eps (SE3_log eps X)) = fst X /\
  qdist2 (snd (se3_exp eps (SE3_log eps X))) (qscale (pm (qw (snd X))) (snd X)) <= 2 * (eps * eps).
Proof.
  intros He He2 Hu Hv. pose proof PI_RGT_0 as Hpi. pose proof PI2_3_2 as Hpi2.
  assert (Hlog : eps < vnorm (SO3_log eps (snd X)) < 2 * PI).
  { destruct (Rlt_or_le eps (Rabs (qw (snd X)))) as [Hw|Hw].
    - pose proof (SO3_log_norm_gt_eps eps _ He Hv Hw Hu). pose proof (SO3_log_norm_regime1 eps _ Hv Hw He). lra.
    - rewrite (SO3_log_norm_regime2 eps _ Hv Hw He). lra. }
  rewrite exp_log_SE3_transl by (auto; lra). cbn [fst snd]. split; [reflexivity|]. now apply exp_log_SO3_all.
Qed.
Lemma exp_log_Sim3_regime12 (eps : R) (X : sim3R) : 0 <= eps -> eps <= 1 / 1024 -> unitq (fst (snd X)) ->
  eps < vnorm (qv (fst (snd X))) -> 0 < snd (snd X) ->
  fst (sim3_exp eps (Sim3_log eps X)) = fst X /\ snd (snd (sim3_exp eps (Sim3_log eps X))) = snd (snd X) /\
  qdist2 (fst (snd (sim3_exp eps (Sim3_log eps X)))) (qscale (pm (qw (fst (snd X)))) (fst (snd X))) <= 2 * (eps * eps).
Proof.
  intros He He2 Hu Hv Hs. pose proof PI_RGT_0 as Hpi. pose proof PI2_3_2 as Hpi2.
  assert (Hlog : eps < vnorm (SO3_log eps (fst (snd X))) < 2 * PI).
  { destruct (Rlt_or_le eps (Rabs (qw (fst (snd X))))) as [Hw|Hw].
    - pose proof (SO3_log_norm_gt_eps eps _ He Hv Hw Hu). pose proof (SO3_log_norm_regime1 eps _ Hv Hw He). lra.
    - rewrite (SO3_log_norm_regime2 eps _ Hv Hw He). lra. }
  rewrite exp_log_Sim3_transl by (auto; lra). cbn [fst snd]. split; [reflexivity|]. split; [reflexivity|].
  now apply exp_log_SO3_all.
Qed.

(* ------------------------------------------------------------------ det rxso3_Ws <> 0 also on the small-angle branches *)
Lemma exp_h_pos (s : R) : s <> 0 -> 0 < 1 + (s - 1) * exp s.
Proof.
  intros Hs. destruct (Rle_or_lt 1 s) as [H1|H1].
  - pose proof (exp_pos s). nra.
  - pose proof (exp_ineq1 (- s) ltac:(lra)) as Hi. rewrite exp_Ropp in Hi.
    pose proof (exp_pos s) as Hp. set (E := exp s) in *. clearbody E.
    assert (Hm : (1 - s) * E < 1).
    { apply Rmult_lt_reg_r with (/ E); [now apply Rinv_0_lt_compat|].
      replace ((1 - s) * E * / E) with (1 - s) by (field; lra). lra. }
    lra.
Qed.
(* C ((C - B n)^2 + A^2 n) <> 0 when C <> 0, A <> 0, n >= 0 - whatever B is *)
Lemma det_form_nonzero (A B C n : R) : C <> 0 -> A <> 0 -> 0 <= n ->
  C * ((C - B * n) * (C - B * n) + A * A * n) <> 0.
Proof.
  intros HC HA Hn. apply Rmult_integral_contrapositive. split; [exact HC|]. apply Rgt_not_eq.
  pose proof (Rle_0_sqr (C - B * n)) as Q. unfold Rsqr in Q.
  destruct (Req_dec n 0) as [->|Hn0].
  - replace (C - B * 0) with C in * by ring. assert (0 < C * C) by nra. nra.
  - assert (0 < A * A * n) by (apply Rmult_lt_0_compat; nra). unfold Rgt. lra.
Qed.
Lemma rxso3_Ws_det_small (eps : R) (phi : vec3R) (sg : R) : 0 <= eps -> vnorm phi <= eps ->
  mdet3 (rxso3_Ws eps (phi, sg)) <> 0.
Proof.
  intros He Hx. pose proof (vnorm_sq phi) as Hn. pose proof (vnorm_nonneg phi) as Hp.
  unfold rxso3_Ws, rxso3_Ws_coef. cbn [fst snd].
  replace (ltb eps (vnorm phi)) with false by (symmetry; cbn; apply Rltb_false; exact Hx).
  set (t := vnorm phi) in *. clearbody t. destruct phi as [[x y] z].
  assert (Hn' : x * x + y * y + z * z = t * t) by (revert Hn; lie_unfold; intros; lra). clear Hn.
  destruct (Rlt_dec eps (Rabs sg)) as [Hs|Hs].
  - rewrite (absF_ltb_true eps sg Hs). rewrite mdet3_poly_K, Hn'. cbn [texp TransR]. num_unfold.
    assert (Hsg : sg <> 0) by (intros ->; rewrite Rabs_R0 in Hs; lra).
    pose proof (exp_neq_1 sg Hsg) as HE. pose proof (exp_h_pos sg Hsg) as Hh.
    set (E := exp sg) in *. clearbody E.
    apply det_form_nonzero.
    + unfold Rdiv. apply Rmult_integral_contrapositive. split; [lra|now apply Rinv_neq_0_compat].
    + apply Rgt_not_eq. apply Rdiv_lt_0_compat; [lra|nra].
    + nra.
  - rewrite (absF_ltb_false eps sg ltac:(lra)). rewrite mdet3_poly_K, Hn'. num_unfold.
    apply Rgt_not_eq. set (n := t * t). assert (0 <= n) by (unfold n; nra). clearbody n.
    replace (1 * ((1 - 1 / 6 * n) * (1 - 1 / 6 * n) + 1 / 2 * (1 / 2) * n)) with ((1 - n / 6) * (1 - n / 6) + n / 4) by field.
    destruct (Rle_or_lt n 1); nra.
Qed.
Lemma rxso3_Ws_det_all (eps : R) (phi : vec3R) (sg : R) : 0 <= eps -> vnorm phi < 2 * PI ->
  mdet3 (rxso3_Ws eps (phi, sg)) <> 0.
Proof.
  intros He Hpi. destruct (Rle_or_lt (vnorm phi) eps) as [H|H].
  - now apply rxso3_Ws_det_small.
  - now apply rxso3_Ws_det.
Qed.

(* Sim3: EVERY unit quaternion (all three regimes), every positive scale, every translation:
   Exp (Log X) restores translation and scale exactly and the quaternion within sqrt 2 eps of q resp. -q *)
Lemma exp_log_Sim3_all (eps : R) (X : sim3R) : 0 <= eps -> eps <= 1 / 1024 -> unitq (fst (snd X)) -> 0 < snd (snd X) ->
  fst (sim3_exp eps (Sim3_log eps X)) = fst X /\ snd (snd (sim3_exp eps (Sim3_log eps X))) = snd (snd X) /\
  qdist2 (fst (snd (sim3_exp eps (Sim3_log eps X)))) (qscale (pm (qw (fst (snd X)))) (fst (snd X))) <= 2 * (eps * eps).
Proof.
  intros He He2 Hu Hs.
  assert (E : sim3_exp eps (Sim3_log eps X) = (fst X, (so3_exp eps (SO3_log eps (fst (snd X))), snd (snd X)))).
  { destruct X as [t [q s]]. cbn [fst snd] in *.
    unfold sim3_exp, Sim3_log. cbn [fst snd]. rewrite (exp_log_RxSO3_gen eps (q, s) Hs). cbn [fst snd].
    rewrite mvmul_mmul3. unfold RxSO3_log. cbn [fst snd].
    rewrite minv3_r, mvmul_id; [reflexivity|]. apply rxso3_Ws_det_all; auto.
    pose proof (SO3_log_norm_le_pi eps q He ltac:(lra) Hu). pose proof PI_RGT_0. lra. }
  rewrite E. cbn [fst snd]. split; [reflexivity|]. split; [reflexivity|]. now apply exp_log_SO3_all.
Qed.
Lemma exp_log_RxSO3_all (eps : R) (X : rxso3R) : 0 <= eps -> eps <= 1 / 1024 -> unitq (fst X) -> 0 < snd X ->
  snd (rxso3_exp eps (RxSO3_log eps X)) = snd X /\
  qdist2 (fst (rxso3_exp eps (RxSO3_log eps X))) (qscale (pm (qw (fst X))) (fst X)) <= 2 * (eps * eps).
Proof.
  intros He He2 Hu Hs. rewrite exp_log_RxSO3_gen by exact Hs. cbn [fst snd]. split; [reflexivity|].
  now apply exp_log_SO3_all.
Qed.

(* ------------------------------------------------------------------ SE3, small angle of Log q (<= eps): Jl and Jl_inv are
   both on their Taylor branches and Jl Jl_inv = I - n^2/1440 K + (n^2/1440 - n/720) K^2, n = theta^2 *)
Lemma Jl_Jl_inv_taylor (eps : R) (x : vec3R) : vnorm x <= eps ->
  let n := vnorm x * vnorm x in
  mmul3 (so3_Jl eps x) (so3_Jl_inv eps x) = polyK x 1 (- (n * n) / 1440) (- n / 720 + n * n / 1440).
Proof.
  intros Hx n. pose proof (vnorm_sq x) as Hn. unfold so3_Jl, so3_Jl_coef, so3_Jl_inv, so3_Jl_inv_coef.
  replace (ltb eps (vnorm x)) with false by (symmetry; cbn; apply Rltb_false; exact Hx).
  cbn [fst snd]. cbv zeta. num_simpl. fold n. fold n in Hn. clearbody n. destruct x as [[a b] c].
  assert (Hn' : a * a + b * b + c * c = n) by (revert Hn; lie_unfold; intros; lra). clear Hn. num_unfold.
  match goal with |- mmul3 ?J ?Ji = _ =>
    replace J with (polyK (a, b, c) 1 (1 / 2 - 1 / 24 * n) (1 / 6 - 1 / 120 * n))
      by (unfold polyK; lie_unfold; split_pairs; ring);
    replace Ji with (polyK (a, b, c) 1 (- (1 / 2)) (1 / 12)) by (unfold polyK; lie_unfold; split_pairs; ring) end.
  rewrite polyK_mul. cbv zeta. rewrite Hn'. apply polyK_ext; field.
Qed.
(* |(alpha K + beta K^2) t|^2 <= (2 alpha^2 n + 2 beta^2 n^2) |t|^2 *)
Lemma polyK_dev_bound (a b c al be : R) (t : vec3R) :
  let n := a * a + b * b + c * c in
  let d := vsub (mvmul (polyK (a, b, c) 1 al be) t) t in
  vdot d d <= (2 * (al * al) * n + 2 * (be * be) * (n * n)) * vdot t t.
Proof.
  cbv zeta. destruct t as [[u v] w]. unfold polyK. lie_unfold.
  set (p1 := b * w - c * v). set (p2 := c * u - a * w). set (p3 := a * v - b * u).
  set (r1 := b * p3 - c * p2). set (r2 := c * p1 - a * p3). set (r3 := a * p2 - b * p1).
  set (dd := a * u + b * v + c * w). set (n := a * a + b * b + c * c).
  apply Rminus_le.
  match goal with |- ?L - ?Rr <= 0 =>
    replace (L - Rr) with (- ((al * p1 - be * r1) * (al * p1 - be * r1) + (al * p2 - be * r2) * (al * p2 - be * r2)
                              + (al * p3 - be * r3) * (al * p3 - be * r3) + 2 * (al * al) * (dd * dd) + 2 * (be * be) * n * (dd * dd)))
      by (unfold r1, r2, r3, p1, p2, p3, dd, n; ring) end.
  assert (0 <= n) by (unfold n; nra).
  pose proof (Rle_0_sqr (al * p1 - be * r1)). pose proof (Rle_0_sqr (al * p2 - be * r2)). pose proof (Rle_0_sqr (al * p3 - be * r3)).
  pose proof (Rle_0_sqr dd). pose proof (Rle_0_sqr al). pose proof (Rle_0_sqr be). unfold Rsqr in *.
  assert (0 <= 2 * (al * al) * (dd * dd)) by (apply Rmult_le_pos; nra).
  assert (0 <= 2 * (be * be) * n * (dd * dd)) by (apply Rmult_le_pos; [apply Rmult_le_pos; nra|nra]).
  lra.
Qed.

(* SE3: EVERY unit quaternion, every translation: Exp (Log X) has the quaternion within sqrt 2 eps of q resp. -q and
   the translation within eps^4/316 |t| of t (exactly t unless the angle of Log q is <= eps) *)
Lemma exp_log_SE3_all (eps : R) (X : se3R) : 0 <= eps -> eps <= 1 / 1024 -> unitq (snd X) ->
  let Y := se3_exp eps (SE3_log eps X) in
  let d := vsub (fst Y) (fst X) in
  vdot d d <= eps ^ 8 / 100000 * vdot (fst X) (fst X) /\
  qdist2 (snd Y) (qscale (pm (qw (snd X))) (snd X)) <= 2 * (eps * eps).
Proof.
  intros He He2 Hu. cbv zeta. destruct X as [t q]. cbn [fst snd] in *. unfold se3_exp, SE3_log. cbn [fst snd].
  split; [|now apply exp_log_SO3_all].
  assert (HT : 0 <= vdot t t) by (destruct t as [[u v] w]; lie_unfold; nra).
  assert (He8 : 0 <= eps ^ 8) by (apply pow_le; lra).
  pose proof (SO3_log_norm_le_pi eps q He ltac:(lra) Hu) as Hpi. pose proof PI_RGT_0 as Hpi0.
  set (phi := SO3_log eps q) in *. clearbody phi. rewrite mvmul_mmul3.
  destruct (Rlt_or_le eps (vnorm phi)) as [Hlo|Hlo].
  - rewrite (mmul3_inv_comm _ _ (so3_Jl_inv_Jl eps phi He Hlo ltac:(lra))), mvmul_id.
    replace (vdot (vsub t t) (vsub t t)) with 0 by (destruct t as [[u v] w]; lie_unfold; ring).
    apply Rmult_le_pos; [|exact HT]. apply Rmult_le_pos; [exact He8|lra].
  - rewrite (Jl_Jl_inv_taylor eps phi Hlo). cbv zeta.
    pose proof (vnorm_sq phi) as Hn. pose proof (vnorm_nonneg phi) as Hp.
    set (n := vnorm phi * vnorm phi) in *.
    assert (Hn0 : 0 <= n <= eps * eps) by (unfold n; nra).
    destruct phi as [[a b] c].
    assert (Hn' : a * a + b * b + c * c = n) by (revert Hn; lie_unfold; intros; lra).
    eapply Rle_trans; [apply polyK_dev_bound|]. rewrite Hn'. apply Rmult_le_compat_r; [exact HT|].
    clearbody n. clear - Hn0 He He2 He8.
    assert (Hn4 : n * n * (n * n) <= eps ^ 8).
    { replace (eps ^ 8) with (eps * eps * (eps * eps) * (eps * eps * (eps * eps))) by ring.
      assert (0 <= n * n <= eps * eps * (eps * eps)) by nra. nra. }
    assert (Hn1 : n <= 1) by nra.
    set (al := - (n * n) / 1440). set (be := - n / 720 + n * n / 1440).
    assert (Hal : al * al * n <= n * n * (n * n) / 2073600).
    { unfold al. replace (- (n * n) / 1440 * (- (n * n) / 1440) * n) with (n * n * (n * n) / 2073600 * n) by field.
      rewrite <- (Rmult_1_r (n * n * (n * n) / 2073600)) at 2. apply Rmult_le_compat_l; [|lra].
      apply Rmult_le_pos; [nra|lra]. }
    assert (Hbe : be * be <= n * n / 518400).
    { assert (- (n / 720) <= be <= 0) by (unfold be; nra). replace (n * n / 518400) with (n / 720 * (n / 720)) by field. nra. }
    assert (Hbe2 : be * be * (n * n) <= n * n * (n * n) / 518400).
    { replace (n * n * (n * n) / 518400) with (n * n / 518400 * (n * n)) by field. apply Rmult_le_compat_r; [nra|exact Hbe]. }
    assert (0 <= n * n * (n * n)) by nra.
    clearbody al be. lra.
Qed.

(* ------------------------------------------------------------------ beyond pi: Log is the PRINCIPAL logarithm.
   For pi < theta < 2 pi, Log (Exp x) is not x but the equivalent rotation vector of angle 2 pi - theta < pi
   about the opposite axis: ((theta - 2 pi)/theta) x *)
Lemma log_exp_so3_beyond_pi (eps : R) (x : vec3R) : 0 <= eps -> eps < vnorm x -> PI < vnorm x -> vnorm x < 2 * PI ->
  eps < sin (vnorm x / 2) -> eps < - cos (vnorm x / 2) ->
  SO3_log eps (so3_exp eps x) = vscale ((vnorm x - 2 * PI) / vnorm x) x /\
  vnorm (SO3_log eps (so3_exp eps x)) = 2 * PI - vnorm x.
Proof.
  intros He Hx Hlo Hhi Hs Hc. rewrite so3_exp_is_cf by exact Hx.
  pose proof (vnorm_qv_exp_cf x ltac:(lra) Hhi) as Hvn.
  assert (E : SO3_log eps (so3_exp_cf x) = vscale ((vnorm x - 2 * PI) / vnorm x) x).
  { unfold SO3_log, SO3_log_factor. rewrite Hvn.
    unfold so3_exp_cf. cbn [qv qw fst snd]. cbv zeta.
    set (t := vnorm x) in *. clearbody t.
    replace (ltb eps (sin (t / 2))) with true by (symmetry; cbn; apply Rltb_true; exact Hs).
    rewrite absF_R, (Rabs_left (cos (t / 2))) by lra.
    replace (ltb eps (- cos (t / 2))) with true by (symmetry; cbn; apply Rltb_true; exact Hc).
    num_simpl.
    assert (Hat : atan (sin (t / 2) / cos (t / 2)) = t / 2 - PI).
    { rewrite <- (atan_tan (t / 2 - PI)) by (split; lra). f_equal. unfold tan.
      replace (t / 2 - PI) with (- (PI - t / 2)) by ring. rewrite sin_neg, cos_neg.
      rewrite sin_PI_x. replace (cos (PI - t / 2)) with (- cos (t / 2)).
      - field. lra.
      - replace (PI - t / 2) with (- (t / 2) + PI) by ring. rewrite neg_cos, cos_neg. reflexivity. }
    rewrite Hat, vscale_vscale. f_equal. field. split; lra. }
  split; [exact E|]. rewrite E, vnorm_scale.
  set (t := vnorm x) in *. clearbody t.
  rewrite Rabs_left.
  - field. lra.
  - apply Ropp_lt_cancel. rewrite Ropp_0.
    replace (- ((t - 2 * PI) / t)) with ((2 * PI - t) / t) by (field; lra). apply Rdiv_lt_0_compat; lra.
Qed.

Lemma hyps_beyond_pi_ok : let x : vec3R := (4, 0, 0) in
  0 <= eps64 /\ eps64 < vnorm x /\ PI < vnorm x /\ vnorm x < 2 * PI /\ eps64 < sin (vnorm x / 2) /\ eps64 < - cos (vnorm x / 2).
Proof. cbv zeta. rewrite vnorm_e1 by lra. unfold eps64. repeat split; interval. Qed.
