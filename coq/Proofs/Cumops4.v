(* C12 (strengthening): cumprod / cummul on the four LieTensor group types.  The SE3 and Sim3 products are
   associative on valid elements only (C03), so the general theorem is used in its closed-subset form:
   for every length L >= 1 and both orders the result holds the ordered product of the first i+1 items, and
   every output is again a valid group element. *)
From Coq Require Import Reals Lra List Arith Lia.
Import ListNotations.
From PV Require Import Base.Num Model.Cumops Model.LieGroup Proofs.Cumops Proofs.Cumops3 Proofs.LieGroup Proofs.LieGroup2.
Local Open Scope R_scope.
#[local] Remove Hints NumQ NumZ : typeclass_instances.

Lemma valid_SO3_id : valid_SO3 SO3_id.  Proof. exact unitq_id. Qed.
Lemma valid_SE3_id : valid_SE3 SE3_id.  Proof. exact unitq_id. Qed.
Lemma valid_RxSO3_id : valid_RxSO3 RxSO3_id.
Proof. split; [exact unitq_id | cbn; lra]. Qed.
Lemma valid_Sim3_id : valid_Sim3 Sim3_id.
Proof. split; [exact unitq_id | cbn; lra]. Qed.

Section Groups.
Variable left : bool.
Let pre {A} (mul : A -> A -> A) (d : A) := if left then lprefix A mul d else rprefix A mul d.

Lemma cum_group {A} (mul : A -> A -> A) (P : A -> Prop) (d : A) :
  (forall a b, P a -> P b -> P (mul a b)) ->
  (forall a b c, P a -> P b -> P c -> mul (mul a b) c = mul a (mul b c)) -> P d ->
  forall x : list A, (1 <= length x)%nat -> Forall P x ->
  exists r, cumprod_model mul left x = Some r /\ length r = length x /\ Forall P r /\
            forall i, (i < length x)%nat -> nth i r d = pre mul d x i.
Proof.
  intros H1 H2 H3 x HL HP. unfold pre. destruct left.
  - now apply cumprod_left_correct_on.
  - now apply cumprod_right_correct_on.
Qed.

Theorem cumprod_SO3 (x : list quatR) : (1 <= length x)%nat -> Forall valid_SO3 x ->
  exists r, cumprod_model SO3_mul left x = Some r /\ length r = length x /\ Forall valid_SO3 r /\
            forall i, (i < length x)%nat -> nth i r SO3_id = pre SO3_mul SO3_id x i.
Proof.
  apply cum_group; [exact unitq_mul | intros; apply SO3_mul_assoc | exact valid_SO3_id].
Qed.
Theorem cumprod_SE3 (x : list se3R) : (1 <= length x)%nat -> Forall valid_SE3 x ->
  exists r, cumprod_model SE3_mul left x = Some r /\ length r = length x /\ Forall valid_SE3 r /\
            forall i, (i < length x)%nat -> nth i r SE3_id = pre SE3_mul SE3_id x i.
Proof.
  apply cum_group; [exact valid_SE3_mul | intros; now apply SE3_mul_assoc | exact valid_SE3_id].
Qed.
Theorem cumprod_RxSO3 (x : list rxso3R) : (1 <= length x)%nat -> Forall valid_RxSO3 x ->
  exists r, cumprod_model RxSO3_mul left x = Some r /\ length r = length x /\ Forall valid_RxSO3 r /\
            forall i, (i < length x)%nat -> nth i r RxSO3_id = pre RxSO3_mul RxSO3_id x i.
Proof.
  apply cum_group; [exact valid_RxSO3_mul | intros; apply RxSO3_mul_assoc | exact valid_RxSO3_id].
Qed.
Theorem cumprod_Sim3 (x : list sim3R) : (1 <= length x)%nat -> Forall valid_Sim3 x ->
  exists r, cumprod_model Sim3_mul left x = Some r /\ length r = length x /\ Forall valid_Sim3 r /\
            forall i, (i < length x)%nat -> nth i r Sim3_id = pre Sim3_mul Sim3_id x i.
Proof.
  apply cum_group; [exact valid_Sim3_mul | | exact valid_Sim3_id].
  intros a b c [Ha _] [Hb _] _. now apply Sim3_mul_assoc.
Qed.
End Groups.

(* the general (unrestricted) theorem does not apply to SE3_mul: it is not associative on all of R^7 *)
Lemma SE3_mul_not_associative : ~ (forall a b c : se3R, SE3_mul (SE3_mul a b) c = SE3_mul a (SE3_mul b c)).
Proof.
  intros H. apply Proofs.LieGroup2.SE3_assoc_needs_unit. cbv zeta. apply H.
Qed.
