(* C13, fourth file: resampling is unbiased.  With r uniform on [0, 1] the particle returned by
   cumulative-sum resampling has, for ANY function g of the particle index,
        E[g(index)] = integral_0^1 g(searchsorted(cumsum q, r)) dr = sum_i q_i g(i),
   so particle i is selected with probability q_i and the expected resampled particle is the weighted
   mean sum_i q_i xs_i (the posterior mean of the documented particle model).  What is NOT proved is
   the Monte-Carlo rate (law of large numbers over the N draws): tie only. *)
From Coq Require Import Reals Lra Lia List Arith ZArith Psatz.
From Coquelicot Require Import Coquelicot.
From PV Require Import Base.Num Base.Mat Model.Filter Proofs.Filter Proofs.Filter3.
Import ListNotations.
#[local] Remove Hints NumQ NumZ : typeclass_instances.
Local Open Scope R_scope.

Lemma is_RInt_csum (q : list R) : (forall b, In b q -> 0 <= b) ->
  forall (g : nat -> R) (a : R),
  is_RInt (fun r => g (searchsorted (csum a q) r)) a (a + psum q (length q))
          (sumn (length q) (fun i => vget q i * g i)).
Proof.
  induction q as [|b q IH]; intros Hq g a.
  - cbn [length]. rewrite psum_0, Rplus_0_r. cbn [sumn]. apply (is_RInt_point (V := R_NormedModule)).
  - assert (Hb : 0 <= b) by (apply Hq; now left).
    assert (Hq' : forall b0, In b0 q -> 0 <= b0) by (intros; apply Hq; now right).
    cbn [length]. rewrite psum_cons, sumn_S_first.
    replace (a + (b + psum q (length q))) with ((a + b) + psum q (length q)) by lra.
    apply (is_RInt_Chasles (V := R_NormedModule) _ a (a + b) (a + b + psum q (length q))).
    + (* on (a, a+b) the index is 0 *)
      apply (is_RInt_ext (V := R_NormedModule) (fun _ => g 0%nat)).
      * intros r Hr. rewrite Rmin_left, Rmax_right in Hr by lra.
        cbn [csum]. rewrite searchsorted_cons.
        replace (Rltb (a + b) r) with false by (symmetry; apply Rltb_false; lra).
        rewrite (searchsorted_all_ge (csum (a + b) q) r); [reflexivity|].
        intros e He. apply (csum_ge (a + b) q e Hq') in He. lra.
      * replace (vget (b :: q) 0 * g 0%nat) with (scal (a + b - a) (g 0%nat)).
        -- apply (is_RInt_const (V := R_NormedModule)).
        -- unfold scal; cbn. unfold mult; cbn. unfold vget. cbn [nth]. ring.
    + (* on (a+b, ...) the index is 1 + the index in the tail *)
      pose proof (psum_nonneg q (length q) Hq') as Hp.
      apply (is_RInt_ext (V := R_NormedModule) (fun r => (fun i => g (S i)) (searchsorted (csum (a + b) q) r))).
      * intros r Hr. rewrite Rmin_left, Rmax_right in Hr by lra.
        cbn [csum]. rewrite searchsorted_cons.
        replace (Rltb (a + b) r) with true by (symmetry; apply Rltb_true; lra). reflexivity.
      * apply (IH Hq' (fun i => g (S i)) (a + b)).
Qed.

Theorem resample_expectation (q : list R) (g : nat -> R) : (forall b, In b q -> 0 <= b) ->
  is_RInt (fun r => g (searchsorted (cumsum q) r)) 0 (fold_left add q 0)
          (sumn (length q) (fun i => vget q i * g i)).
Proof.
  intros Hq. rewrite <- psum_total. rewrite <- (Rplus_0_l (psum q (length q))).
  apply (is_RInt_ext (V := R_NormedModule) (fun r => g (searchsorted (csum 0 q) r))).
  - intros r _. now rewrite cumsum_csum.
  - now apply is_RInt_csum.
Qed.

(* particle i is selected with probability q_i *)
Corollary resample_probability (q : list R) (i : nat) : (forall b, In b q -> 0 <= b) -> (i < length q)%nat ->
  is_RInt (fun r => if Nat.eqb (searchsorted (cumsum q) r) i then 1 else 0) 0 (fold_left add q 0) (vget q i).
Proof.
  intros Hq Hi.
  assert (H := resample_expectation q (fun k => if Nat.eqb k i then 1 else 0) Hq). cbv beta in H.
  rewrite (sumn_delta_r (length q) i (fun k => vget q k) Hi) in H. exact H.
Qed.

(* the expected resampled particle (component j) is the weighted mean of the propagated particles;
   for the weights PF.forward uses (softmax: positive, total 1) the integral is over [0, 1] *)
Corollary resample_expected_particle (l : list R) (xs : matR) (j : nat) : l <> [] ->
  is_RInt (fun r => mget xs (searchsorted (cumsum (softmax l)) r) j) 0 1
          (sumn (length l) (fun i => vget (softmax l) i * mget xs i j)).
Proof.
  intros Hl. destruct (softmax_positive_sums_to_one l Hl) as [Hpos Hsum].
  change (@zero R NumR) with 0 in Hsum. rewrite <- Hsum.
  replace (length l) with (length (softmax l)) by (unfold softmax; now rewrite !map_length).
  apply (resample_expectation (softmax l) (fun i => mget xs i j)).
  intros b Hb. apply Rlt_le. now apply Hpos.
Qed.
