(* C19 (statistics, part 2): Max >= RMSE >= Mean >= Min >= 0 for EVERY output of ape and rpe -
   all arguments, every error type, alignment / pairing option and oracle; and the geodesic loss of two
   SE3 poses is the norm of the rotation part of Log (X Y^-1). *)
From Coq Require Import Reals Lra Psatz List ZArith Lia.
Import ListNotations.
From PV Require Import Base.Num Base.RTac Base.ListAux Model.LieGroup Model.LieExp Model.LieLog Model.Spline Model.Metric
  Proofs.LieGroup Proofs.LieExp Proofs.LieLog Proofs.Spline Proofs.Metric.
Local Open Scope R_scope.
#[local] Remove Hints NumQ NumZ : typeclass_instances.

Lemma compute_stats_ordered (err : list R) s : compute_stats sqrt err = Some s -> stats_ordered s.
Proof.
  intros H. destruct err as [|e err]; [discriminate|].
  destruct (stats_order (e :: err) ltac:(discriminate)) as (s' & Hs' & Ho). rewrite Hs' in H. now injection H as <-.
Qed.

Theorem ape_stats_ordered angleF rad2degF svdstf rstamp rpose estamp epose et diff off al sc origin s :
  ape sqrt angleF rad2degF svdstf rstamp rpose estamp epose et diff off al sc origin = Some s -> stats_ordered s.
Proof.
  unfold ape. destruct (mk_stamped rstamp rpose); [|discriminate]. destruct (mk_stamped estamp epose); [|discriminate].
  destruct (associate _ _ _ _) as [[rp ep]|]; [|discriminate]. destruct (trans_of _ _ _ _ _ _); [|discriminate].
  apply compute_stats_ordered.
Qed.
Theorem rpe_stats_ordered angleF rad2degF svdstf rstamp rpose estamp epose et diff off al sc origin bd delta di rtol all rpair s :
  rpe sqrt angleF rad2degF svdstf rstamp rpose estamp epose et diff off al sc origin bd delta di rtol all rpair = Some s ->
  stats_ordered s.
Proof.
  unfold rpe. destruct (mk_stamped rstamp rpose); [|discriminate]. destruct (mk_stamped estamp epose); [|discriminate].
  destruct (associate _ _ _ _) as [[rp ep]|]; [|discriminate]. destruct (trans_of _ _ _ _ _ _); [|discriminate].
  destruct (pair_id _ _ _ _ _ _ _) as [[src tar]|]; [|discriminate].
  destruct (rel_poses rp src tar); [|discriminate]. destruct (rel_poses _ src tar); [|discriminate].
  apply compute_stats_ordered.
Qed.

(* geodesic_loss of two SE3 poses (it looks at the rotation parts only) *)
Lemma geodesic_theta_SE3 (eps : R) (X Y : se3R) :
  geodesic_theta eps (snd X) (snd Y) = vnorm (snd (SE3_log eps (SE3_mul X (SE3_inv Y)))).
Proof. reflexivity. Qed.
