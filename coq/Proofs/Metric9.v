(* C19 (ape / rpe, part 7): identical POSES with JITTERED time stamps.  The zero-statistics theorems of
   Proofs/Metric.v take the two stamp vectors equal; the property quantifies over "timestamps with jitter
   below the association threshold".  Here the reference stamps s1 and the estimate stamps s2 may differ
   (and an offset may be given): whenever every estimate stamp is strictly closest to the reference stamp
   of the same index and within max_diff of it, association pairs index i with index i and ape / rpe of
   the same poses have all statistics 0. *)
From Coq Require Import Reals Lra Psatz List ZArith Lia.
Import ListNotations.
From PV Require Import Base.Num Base.RTac Base.ListAux Model.LieGroup Model.LieExp Model.LieLog Model.Spline Model.Metric
  Proofs.LieGroup Proofs.LieExp Proofs.LieLog Proofs.Spline Proofs.Metric Proofs.Metric3.
Local Open Scope R_scope.
#[local] Remove Hints NumQ NumZ : typeclass_instances.

(* stamp i of the first list is within diff of stamp i of the second (shifted by o) and strictly closer
   to it than to every other one *)
Definition closest_same_index (s1 s2 : list R) (diff o : R) : Prop :=
  length s1 = length s2 /\
  forall i, (i < length s1)%nat ->
    Rabs (nth i s1 0 - (nth i s2 0 + o)) < diff /\
    forall j, (j < length s2)%nat -> j <> i ->
      Rabs (nth i s1 0 - (nth i s2 0 + o)) < Rabs (nth i s1 0 - (nth j s2 0 + o)).

Lemma matching_closest (s1 s2 : list R) (diff o : R) : closest_same_index s1 s2 diff o ->
  matching s1 s2 diff o = map (fun p : R * nat => (snd p, snd p)) (combine s1 (seq 0 (length s1))).
Proof.
  intros [Hlen Hc]. unfold matching. apply flat_map_singleton. intros [x i] Hin.
  apply (in_combine_seq s1 0) in Hin. destruct Hin as [Hi Hx]. rewrite Nat.sub_0_r in Hx. cbn [fst snd].
  match goal with |- context [argmin ?d] => set (D := d) end.
  assert (HlenD : length D = length s2) by (unfold D; now rewrite !map_length).
  assert (HD : forall k, (k < length s2)%nat -> nth k D 0 = Rabs (x - (nth k s2 0 + o))).
  { intros k Hk. unfold D. rewrite map_map. rewrite (nth_map_d _ _ _ _ 0) by assumption.
    rewrite absF_R. num_unfold. reflexivity. }
  destruct (Hc i ltac:(lia)) as [Hd Hstrict]. rewrite Hx in Hd, Hstrict.
  destruct (argmin D) as [[j v]|] eqn:Ea.
  - apply argmin_spec in Ea. destruct Ea as (Hj & Hv & Hmin). rewrite HlenD in Hj.
    assert (Hji : j = i).
    { destruct (Nat.eq_dec j i) as [E|NE]; [assumption|exfalso].
      pose proof (Hstrict j Hj NE) as Hlt.
      pose proof (Hmin (nth i D 0) ltac:(apply nth_In; lia)) as Hle.
      rewrite HD in Hle by lia. rewrite <- Hv, HD in Hle by assumption. lra. }
    subst j. rewrite <- Hv, HD by lia.
    replace (ltb (Rabs (x - (nth i s2 0 + o))) diff) with true; [reflexivity|]. symmetry. cbn. now apply Rltb_true.
  - destruct D; [cbn in HlenD; lia|discriminate].
Qed.

Lemma associate_closest (rt et : list (R * se3R)) diff off : rt <> [] ->
  closest_same_index (map fst et) (map fst rt) diff (- off) ->
  associate rt et diff off = Some (map snd rt, map snd et).
Proof.
  intros Hne Hc. pose proof (proj1 Hc) as Hlen. rewrite !map_length in Hlen.
  unfold associate, stamped. cbv zeta. replace (length rt <? length et)%nat with false by (symmetry; apply Nat.ltb_ge; lia).
  cbv iota. change (opp off) with (- off). rewrite (matching_closest _ _ _ _ Hc). rewrite map_length.
  set (m := map (fun p : R * nat => (snd p, snd p)) (combine (map fst et) (seq 0 (length et)))).
  assert (Hs : map fst m = seq 0 (length et) /\ map snd m = seq 0 (length et)).
  { unfold m. rewrite !map_map. cbn [fst snd].
    split; apply (map_snd_combine (map fst et) (seq 0 (length et))); now rewrite map_length, seq_length. }
  destruct Hs as [-> ->].
  assert (Hm : m <> []).
  { unfold m. destruct et as [|t et]; [destruct rt; [congruence|cbn in Hlen; lia]|]. cbn. discriminate. }
  destruct m as [|m0 m']; [congruence|].
  pose proof (gather_seq (map snd et) []) as Hg1. cbn [app length] in Hg1. rewrite map_length in Hg1.
  pose proof (gather_seq (map snd rt) []) as Hg2. cbn [app length] in Hg2. rewrite map_length in Hg2.
  rewrite Hg1. rewrite Hlen, Hg2. reflexivity.
Qed.

Section Jitter.
Variable angleF : @mat3 R -> R.
Variable rad2degF : R -> R.
Variable svdstf : list vec3R -> list vec3R -> bool -> sim3R.
Hypothesis angle_id : angleF mid3 = 0.
Hypothesis deg_zero : rad2degF 0 = 0.

Theorem ape_identical_zero_jitter st1 st2 P tr1 tr2 et diff off origin :
  mk_stamped st1 P = Some tr1 -> mk_stamped st2 P = Some tr2 ->
  closest_same_index (map fst tr2) (map fst tr1) diff (- off) -> Forall valid_SE3 P ->
  exists s, ape sqrt angleF rad2degF svdstf st1 P st2 P et diff off false false origin = Some s /\ zero_stats s.
Proof.
  intros Hm1 Hm2 Hc HP. unfold ape. rewrite Hm1, Hm2.
  rewrite (associate_closest tr1 tr2 diff off (mk_stamped_ne _ _ _ Hm1) Hc).
  rewrite (mk_stamped_snd _ _ _ Hm1), (mk_stamped_snd _ _ _ Hm2).
  assert (Hne : P <> []) by (intros ->; cbn in Hm1; discriminate).
  rewrite (trans_of_same svdstf origin P Hne HP). rewrite map_align_id.
  apply compute_stats_zeros; [|now apply errors_same].
  destruct P as [|p P']; [congruence|]. discriminate.
Qed.

Theorem rpe_identical_zero_jitter st1 st2 P tr1 tr2 et diff off origin bd delta di rtol all rpair s :
  mk_stamped st1 P = Some tr1 -> mk_stamped st2 P = Some tr2 ->
  closest_same_index (map fst tr2) (map fst tr1) diff (- off) -> Forall valid_SE3 P ->
  rpe sqrt angleF rad2degF svdstf st1 P st2 P et diff off false false origin bd delta di rtol all rpair = Some s ->
  zero_stats s.
Proof.
  intros Hm1 Hm2 Hc HP. unfold rpe. rewrite Hm1, Hm2.
  rewrite (associate_closest tr1 tr2 diff off (mk_stamped_ne _ _ _ Hm1) Hc).
  rewrite (mk_stamped_snd _ _ _ Hm1), (mk_stamped_snd _ _ _ Hm2).
  assert (Hne : P <> []) by (intros ->; cbn in Hm1; discriminate).
  rewrite (trans_of_same svdstf origin P Hne HP). rewrite map_align_id.
  replace (if rpair then P else P) with P by (now destruct rpair).
  destruct (pair_id sqrt P bd delta di rtol all) as [[src tar]|]; [|discriminate].
  destruct (rel_poses P src tar) as [rr|] eqn:Er; [|discriminate].
  pose proof (rel_poses_valid _ _ _ _ HP Er) as Hrr. intros H.
  destruct rr as [|r0 rr']; [discriminate|].
  destruct (compute_stats_zeros (errors sqrt angleF rad2degF false et (r0 :: rr') (r0 :: rr'))) as (s' & Hs' & Hz).
  - discriminate.
  - now apply errors_same.
  - rewrite Hs' in H. now injection H as <-.
Qed.
End Jitter.

(* the hypothesis is satisfiable with genuinely different stamp vectors and a non-zero offset:
   reference stamps [0; 1], estimate stamps [11/10; 19/10], offset -1, max_diff 1/2 *)
Lemma closest_example : closest_same_index [11 / 10; 19 / 10] [0; 1] (1 / 2) (- (-1)).
Proof.
  split; [reflexivity|]. intros i Hi. cbn [length] in Hi.
  assert (Ha : forall x : R, 0 <= x -> Rabs x = x) by (intros; now apply Rabs_pos_eq).
  assert (Hb : forall x : R, x <= 0 -> Rabs x = - x) by (intros x Hx; destruct Hx as [Hx | ->]; [now apply Rabs_left|rewrite Rabs_R0; lra]).
  destruct i as [|[|i]]; [| |lia]; cbn [nth]; split.
  - rewrite Ha by lra. lra.
  - intros j Hj Hne. cbn [length] in Hj. destruct j as [|[|j]]; [congruence| |lia]. cbn [nth].
    rewrite Ha by lra. rewrite Hb by lra. lra.
  - rewrite Hb by lra. lra.
  - intros j Hj Hne. cbn [length] in Hj. destruct j as [|[|j]]; [|congruence|lia]. cbn [nth].
    rewrite Hb by lra. rewrite Ha by lra. lra.
Qed.
