(* C05 (extension): Jinvp(X, p) is the derivative of Log(Exp(e p) @ X) at e = 0 (SO3, regime 1 of Log), over R. *)
From Coq Require Import Reals Lra Psatz List Nsatz.
From Coquelicot Require Import Coquelicot.
From Interval Require Import Tactic.
Import ListNotations.
From PV Require Import Base.Num Base.RTac Model.LieGroup Model.LieExp Model.LieLog Model.LieJac Model.LieTangent
  Proofs.LieGroup Proofs.LieExp Proofs.LieLog Proofs.LieJac Proofs.LieTangent Proofs.LieTangent2 Proofs.LieTangent5 Proofs.LieTangent6.
Local Open Scope R_scope.
#[local] Remove Hints NumQ NumZ : typeclass_instances.

(* the model's Log in regime 1 *)
Lemma SO3_log_is_cf (eps : R) (q : quatR) : eps < vnorm (qv q) -> eps < Rabs (qw q) -> SO3_log eps q = log_cf q.
Proof.
  intros Hv Hw. unfold SO3_log, SO3_log_factor, log_cf. branch_true. rewrite absF_R. branch_true. reflexivity.
Qed.

(* the perturbed element stays in regime 1 for small e *)
Definition pcurve (p : vec3R) (X : quatR) (e : R) : quatR := SO3_mul (exp0 (vscale e p)) X.
Lemma pcurve_0 p X : pcurve p X 0 = X.
Proof. apply (pertSO3_0 p X). Qed.
Lemma pcurve_vnorm_continuous (p : vec3R) (X : quatR) : 0 < vdot (qv X) (qv X) ->
  continuous (fun e => vnorm (qv (pcurve p X e))) 0.
Proof.
  intros Hp. apply (ex_derive_continuous (fun e => vnorm (qv (pcurve p X e)))).
  destruct X as [[[a b] c] w], p as [[p1 p2] p3]. unfold pcurve, exp0, vnorm. cbn [tsqrt TransR]. revert Hp. lie_unfold. intros Hp.
  auto_derive. zsimp. exact Hp.
Qed.
Lemma pcurve_w_continuous (p : vec3R) (X : quatR) : continuous (fun e => qw (pcurve p X e)) 0.
Proof.
  apply (ex_derive_continuous (fun e => qw (pcurve p X e))).
  destruct X as [[[a b] c] w], p as [[p1 p2] p3]. unfold pcurve, exp0. lie_unfold. auto_derive. exact I.
Qed.
Lemma pcurve_locally_regime1 (eps : R) (p : vec3R) (X : quatR) : 0 <= eps -> eps < vnorm (qv X) -> eps < qw X ->
  locally 0 (fun e => eps < vnorm (qv (pcurve p X e)) /\ eps < Rabs (qw (pcurve p X e))).
Proof.
  intros He Hv Hw.
  assert (Hp : 0 < vdot (qv X) (qv X)) by (rewrite <- vnorm_sq; nra).
  apply filter_and.
  - apply (pcurve_vnorm_continuous p X Hp (fun y => eps < y)). apply (open_gt eps). now rewrite pcurve_0.
  - apply (filter_imp (fun e => eps < qw (pcurve p X e))).
    + intros e H. apply Rlt_le_trans with (1 := H). apply Rle_abs.
    + apply (pcurve_w_continuous p X (fun y => eps < y)). apply (open_gt eps). now rewrite pcurve_0.
Qed.

(* Jl_inv(Log X) in terms of the quaternion: theta = 2 atan(|v|/w), sin(theta/2) = |v|, cos(theta/2) = w *)
Lemma Jl_inv_at_log (eps : R) (v : vec3R) (w : R) : 0 <= eps -> eps < vnorm v -> eps < w -> unitq (v, w) ->
  eps < vnorm (SO3_log eps (v, w)) ->
  so3_Jl_inv eps (SO3_log eps (v, w)) =
  madd3 (madd3 mid3 (mscale3 (- (atan (vnorm v / w) / vnorm v)) (skew v)))
        (mscale3 ((1 - atan (vnorm v / w) * w / vnorm v) / (vnorm v * vnorm v)) (mmul3 (skew v) (skew v))).
Proof.
  intros He Hv Hw Hu Hl. pose proof (vnorm_sq v) as Hs. unfold unitq, qnorm2 in Hu. cbn [qv qw fst snd] in Hu.
  cbn [add mul NumR] in Hu.
  unfold so3_Jl_inv, so3_Jl_inv_coef. branch_true. revert Hl.
  rewrite SO3_log_is_cf by (cbn [qv qw fst snd]; auto; rewrite Rabs_pos_eq; lra).
  unfold log_cf. cbn [qv qw fst snd]. rewrite vnorm_scale.
  set (vn := vnorm v) in *. assert (Hvn : 0 < vn) by lra. assert (Hw0 : 0 < w) by lra.
  set (a := atan (vn / w)).
  assert (Ha : 0 < a < PI / 2).
  { unfold a. pose proof (atan_bound (vn / w)). split; [|lra]. rewrite <- atan_0. apply atan_increasing.
    apply Rdiv_lt_0_compat; lra. }
  assert (Hsq : sqrt (1 + (vn / w)²) = / w).
  { replace (1 + (vn / w)²) with (/ (w * w)) by (unfold Rsqr; field_simplify_eq; [nra|lra]).
    rewrite sqrt_inv_sq by lra. now rewrite Rabs_pos_eq by lra. }
  assert (Hsin : sin a = vn). { unfold a. rewrite sin_atan, Hsq. field. lra. }
  assert (Hcos : cos a = w). { unfold a. rewrite cos_atan, Hsq. field. lra. }
  replace (Rabs (2 * a / vn) * vn) with (2 * a).
  2:{ rewrite Rabs_pos_eq; [field; lra|]. apply Rmult_le_pos; [lra|left; now apply Rinv_0_lt_compat]. }
  intros Hl. num_simpl. replace (1 / 2 * (2 * a)) with a by field. rewrite Hsin, Hcos.
  assert (Ha0 : a <> 0) by lra. assert (Hv0 : vn <> 0) by lra. clearbody a vn. clear - Ha0 Hv0.
  destruct v as [[x y] z]. lie_unfold. split_pairs; field; auto.
Qed.

(* Jinvp(X, p) = Jl_inv(Log X) p is the first-order change of Log(Exp(e p) @ X) at e = 0 *)
Theorem log_left_derivative (eps : R) (X : quatR) (p : vec3R) (i : nat) : 0 < eps -> unitq X ->
  eps < vnorm (qv X) -> eps < qw X -> eps < vnorm (SO3_log eps X) ->
  is_derive (fun e => vc i (SO3_log eps (SO3_mul (so3_exp eps (vscale e p)) X))) 0
            (vc i (mvmul (so3_Jl_inv eps (SO3_log eps X)) p)).
Proof.
  intros He Hu Hv Hw Hl. destruct X as [v w]. cbn [qv qw fst snd] in *.
  rewrite Jl_inv_at_log by (auto; lra).
  apply (is_derive_ext_loc (fun e => vc i (log_cf (pcurve p (v, w) e)))).
  - apply (filter_imp (fun e => vnorm (vscale e p) <= eps /\
                                (eps < vnorm (qv (pcurve p (v, w) e)) /\ eps < Rabs (qw (pcurve p (v, w) e))))).
    + intros e [H1 [H2 H3]]. cbv beta. f_equal. symmetry.
      transitivity (SO3_log eps (pcurve p (v, w) e)); [|now apply SO3_log_is_cf].
      unfold pcurve. f_equal. f_equal. apply exp0_is_model. exact H1.
    + apply filter_and; [now apply scale_locally_small | apply pcurve_locally_regime1; cbn [qv qw fst snd]; auto; lra].
  - pose proof (vnorm_sq v) as Hs. unfold unitq, qnorm2 in Hu. cbn [qv qw fst snd] in Hu. cbn [add mul NumR] in Hu.
    assert (Hpos : 0 < vdot v v) by (rewrite <- Hs; nra). clear Hs Hv Hl.
    unfold pcurve, vnorm. cbn [tsqrt TransR].
    destruct v as [[a b] c], p as [[p1 p2] p3].
    assert (Hd : vdot (F:=R) (a, b, c) (a, b, c) = a * a + b * b + c * c) by (lie_unfold; ring).
    rewrite Hd in *. apply log_cf_left_derivative; lra.
Qed.

(* both hemispheres: q and -q have the same Log in regime 1 *)
Lemma SO3_mul_qneg (E X : quatR) : SO3_mul E (qneg X) = qneg (SO3_mul E X).
Proof. unfold qneg. destruct E as [[[e1 e2] e3] e0], X as [[[a b] c] w]. cbn [qv qw fst snd]. lie_unfold. split_pairs; ring. Qed.
Lemma qneg_invol (X : quatR) : qneg (qneg X) = X.
Proof. unfold qneg. destruct X as [[[a b] c] w]. cbn [qv qw fst snd]. lie_unfold. split_pairs; ring. Qed.
Lemma unitq_qneg (X : quatR) : unitq X -> unitq (qneg X).
Proof. unfold unitq, qneg, qnorm2. destruct X as [[[a b] c] w]. cbn [qv qw fst snd]. lie_unfold. intros H. rewrite <- H. ring. Qed.
Theorem log_left_derivative_gen (eps : R) (X : quatR) (p : vec3R) (i : nat) : 0 < eps -> unitq X ->
  eps < vnorm (qv X) -> eps < Rabs (qw X) -> eps < vnorm (SO3_log eps X) ->
  is_derive (fun e => vc i (SO3_log eps (SO3_mul (so3_exp eps (vscale e p)) X))) 0
            (vc i (mvmul (so3_Jl_inv eps (SO3_log eps X)) p)).
Proof.
  intros He Hu Hv Hw Hl. destruct (Rle_or_lt 0 (qw X)) as [Hp|Hn].
  - rewrite Rabs_pos_eq in Hw by assumption. now apply log_left_derivative.
  - rewrite Rabs_left in Hw by assumption.
    assert (Hv' : eps < vnorm (qv (qneg X))) by (unfold qneg; cbn [qv fst]; now rewrite vnorm_neg).
    assert (Hw' : eps < qw (qneg X)) by (unfold qneg; cbn [qw snd]; lra).
    assert (HL : SO3_log eps (qneg X) = SO3_log eps X) by (apply SO3_log_neg; auto; [rewrite Rabs_left|]; lra).
    rewrite <- HL in Hl |- *.
    pose proof (log_left_derivative eps (qneg X) p i He (unitq_qneg X Hu) Hv' Hw' Hl) as HD.
    eapply is_derive_ext_loc; [|exact HD].
    apply (filter_imp (fun e => vnorm (vscale e p) <= eps /\
                                (eps < vnorm (qv (pcurve p (qneg X) e)) /\ eps < Rabs (qw (pcurve p (qneg X) e))))).
    + intros e [H1 [H2 H3]]. cbv beta. f_equal.
      transitivity (SO3_log eps (pcurve p (qneg X) e)).
      { unfold pcurve. f_equal. f_equal. apply exp0_is_model. exact H1. }
      transitivity (SO3_log eps (qneg (pcurve p (qneg X) e))); [symmetry; apply SO3_log_neg; auto; lra|].
      unfold pcurve. rewrite <- SO3_mul_qneg, qneg_invol. f_equal. f_equal. symmetry. apply exp0_is_model. exact H1.
    + apply filter_and; [now apply scale_locally_small | apply pcurve_locally_regime1; auto; lra].
Qed.

(* the hypotheses of log_left_derivative_gen / jinvp_* are satisfiable (float64 eps, a 74-degree rotation) *)
Example log_hypotheses_satisfiable :
  let eps := / 4503599627370496 in let X : quatR := ((3 / 5, 0, 0), 4 / 5) in
  0 < eps /\ unitq X /\ eps < vnorm (qv X) /\ eps < Rabs (qw X) /\
  eps < vnorm (SO3_log eps X) /\ vnorm (SO3_log eps X) < 2 * PI.
Proof.
  intros eps X.
  assert (H0 : 0 < eps) by (unfold eps; lra).
  assert (Hu : unitq X) by (unfold unitq, X; lie_unfold; field).
  assert (Hn : vnorm (qv X) = 3 / 5).
  { unfold X, vnorm. cbn [qv fst tsqrt TransR]. replace (vdot (F:=R) (3 / 5, 0, 0) (3 / 5, 0, 0)) with ((3 / 5) * (3 / 5)) by (lie_unfold; ring).
    apply sqrt_square. lra. }
  assert (Hv : eps < vnorm (qv X)) by (rewrite Hn; unfold eps; lra).
  assert (Hw : eps < Rabs (qw X)) by (unfold X; cbn [qw snd]; rewrite Rabs_pos_eq; unfold eps; lra).
  assert (HL : vnorm (SO3_log eps X) = 2 * atan (3 / 4)).
  { rewrite SO3_log_is_cf by assumption. unfold log_cf. rewrite vnorm_scale, Hn. unfold X. cbn [qw snd].
    replace (3 / 5 / (4 / 5)) with (3 / 4) by field.
    rewrite Rabs_pos_eq; [field|]. assert (0 < atan (3 / 4)) by interval. apply Rmult_le_pos; lra. }
  repeat split; auto; rewrite HL; unfold eps; interval.
Qed.

(* list-level Jinvp of SO3 in tuple form *)
Lemma jinvp_SO3_tuple (eps : R) (X : quatR) (p : vec3R) :
  l_v3 (jinvp eps 0 (q_l X) (v3_l p)) = mvmul (so3_Jl_inv eps (SO3_log eps X)) p.
Proof.
  unfold jinvp, log_fwd, Jl_invM, so3_Jl_invM, log_l.
  replace (l_q (q_l X)) with X by (destruct X as [[[a b] c] w]; reflexivity).
  replace (l_v3 (v3_l (SO3_log eps X))) with (SO3_log eps X) by (destruct (SO3_log eps X) as [[a b] c]; reflexivity).
  apply lmv_m3rows_v.
Qed.
Theorem jinvp_is_log_derivative_SO3 (eps : R) (X : quatR) (p : vec3R) (i : nat) : 0 < eps -> unitq X ->
  eps < vnorm (qv X) -> eps < Rabs (qw X) -> eps < vnorm (SO3_log eps X) ->
  is_derive (fun e => vc i (SO3_log eps (SO3_mul (so3_exp eps (vscale e p)) X))) 0
            (vc i (l_v3 (jinvp eps 0 (q_l X) (v3_l p)))).
Proof. intros. rewrite jinvp_SO3_tuple. now apply log_left_derivative_gen. Qed.

Example adj_hypotheses_satisfiable :
  let eps := / 4503599627370496 in
  0 <= eps /\ unitq (fst (snd (Sim3_id (F:=R)))) /\ snd (snd (Sim3_id (F:=R))) <> 0 /\
  eps < vnorm (F:=R) (1, 0, 0) /\ eps < Rabs 1.
Proof.
  intros eps. assert (Hn : vnorm (F:=R) (1, 0, 0) = 1).
  { unfold vnorm. cbn [tsqrt TransR]. replace (vdot (F:=R) (1, 0, 0) (1, 0, 0)) with (1 * 1) by (lie_unfold; ring).
    apply sqrt_square. lra. }
  rewrite Hn, Rabs_R1. unfold eps. repeat split; try lra.
  - unfold unitq. lie_unfold. ring.
  - lie_unfold. lra.
Qed.
