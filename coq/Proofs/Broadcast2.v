(* C06, second file: more about Model/Broadcast.v, for ALL shapes.
     1. multi-indices and flat positions correspond one to one (so "the item at every valid
        multi-index" describes every stored item);
     2. torch.broadcast_shapes as modelled is the documented right-aligned rule, dimension by dimension,
        with its algebraic laws; the source index map [bidx] dimension by dimension;
     3. X.matrix() = X.unsqueeze(-2).Act(I).transpose(-1,-2) as coded is, for every lshape (0 extents and
        rank 0 included), the item-wise matrix of Model/LieGroup.v;
     4. Retr (= Exp then Mul), and the last dimension of every result is the dimension of its ltype. *)
From Coq Require Import String.
From Coq Require Import List Arith Bool PeanoNat Lia.
Import ListNotations.
From PV Require Import Base.Num Model.LieGroup Model.Broadcast Proofs.Broadcast.

(* ======================= 1. multi-indices <-> flat positions ======================= *)
Fixpoint unravel (T : shape) (k : nat) : list nat :=
  match T with [] => [] | _ :: T' => (k / numel T') :: unravel T' (k mod numel T') end.

Lemma unravel_spec T : forall k, k < numel T -> valid_idx T (unravel T k) /\ ravel T (unravel T k) = k.
Proof.
  unfold valid_idx, ravel. induction T as [|d T IH]; intros k Hk; simpl in *.
  - split; [constructor|lia].
  - assert (Hm : numel T <> 0) by (intro Z; rewrite Z in Hk; lia).
    destruct (IH (k mod numel T)) as [V R]; [now apply Nat.mod_upper_bound|].
    split.
    + constructor; [|exact V]. apply Nat.div_lt_upper_bound; [exact Hm|lia].
    + rewrite R. pose proof (Nat.div_mod k (numel T) Hm). lia.
Qed.

(* every flat position of a tensor is the position of exactly one valid multi-index *)
Theorem positions_are_indices T k : k < numel T ->
  exists i, valid_idx T i /\ ravel T i = k /\ forall j, valid_idx T j -> ravel T j = k -> j = i.
Proof.
  intros Hk. destruct (unravel_spec T k Hk) as [V R]. exists (unravel T k). split; [exact V|]. split; [exact R|].
  intros j Vj Rj. pose proof (nth_error_indices T j Vj) as A. pose proof (nth_error_indices T _ V) as B.
  rewrite Rj in A. rewrite R in B. congruence.
Qed.

Lemma tget_flat {E} (dE : E) (t : tensor E) k : k < numel (tshape t) ->
  nth k (titems t) dE = tget dE t (unravel (tshape t) k).
Proof. intros Hk. unfold tget. now rewrite (proj2 (unravel_spec _ _ Hk)). Qed.

(* two well-formed tensors of the same shape with the same item at every valid multi-index are equal *)
Theorem tensor_ext {E} (dE : E) (t u : tensor E) : wf t -> wf u ->
  tshape t = tshape u -> tdim t = tdim u ->
  (forall i, valid_idx (tshape t) i -> tget dE t i = tget dE u i) -> t = u.
Proof.
  destruct t as [s d l], u as [s' d' l']. unfold wf. simpl. intros Wt Wu -> -> H. f_equal.
  apply (nth_ext _ _ dE dE); [congruence|]. intros k Hk. rewrite Wt in Hk.
  change (nth k (titems (mkT s' d' l)) dE = nth k (titems (mkT s' d' l')) dE).
  rewrite !tget_flat by exact Hk. apply H. simpl. apply unravel_spec. exact Hk.
Qed.

(* ======================= 2. broadcast_shapes: the documented rule ======================= *)
(* size of dimension number k counted from the right; missing dimensions count as 1 *)
Definition rdim (s : shape) (k : nat) : nat := nth k (rev s) 1.

Lemma rdim_pad n s k : rdim (pad n s) k = rdim s k.
Proof.
  unfold rdim, pad. rewrite rev_app_distr.
  destruct (Nat.lt_ge_cases k (length (rev s))) as [H|H].
  - now rewrite app_nth1.
  - rewrite app_nth2 by exact H. rewrite (nth_overflow (rev s)) by exact H.
    generalize (k - length (rev s)). generalize (n - length s). intros m j.
    assert (G : forall l, (forall y, In y l -> y = 1) -> nth j l 1 = 1).
    { intros l Hl. destruct (nth_in_or_default j l 1) as [I|I]; auto. }
    apply G. intros y Hy. apply in_rev in Hy. now apply repeat_spec in Hy.
Qed.

Lemma rdim_cons x s k : k < length s -> rdim (x :: s) k = rdim s k.
Proof. intros H. unfold rdim. simpl. rewrite app_nth1; [reflexivity|now rewrite rev_length]. Qed.
Lemma rdim_head x s k : k = length s -> rdim (x :: s) k = x.
Proof. intros ->. unfold rdim. simpl. rewrite app_nth2 by (rewrite rev_length; lia). rewrite rev_length, Nat.sub_diag. reflexivity. Qed.

Definition dims_agree (x y : nat) : Prop := x = y \/ x = 1 \/ y = 1.
Lemma bdim_spec x y : (dims_agree x y -> bdim x y = Some (if x =? 1 then y else x)) /\ (~ dims_agree x y -> bdim x y = None).
Proof.
  unfold bdim, dims_agree. destruct (x =? y) eqn:E1, (x =? 1) eqn:E2, (y =? 1) eqn:E3;
    rewrite ?Nat.eqb_eq, ?Nat.eqb_neq in *; split; intros H; try reflexivity; try (f_equal; lia); exfalso; lia.
Qed.

Lemma agree_dec x y : {dims_agree x y} + {~ dims_agree x y}.
Proof.
  unfold dims_agree. destruct (Nat.eq_dec x y); [left; auto|]. destruct (Nat.eq_dec x 1); [left; auto|].
  destruct (Nat.eq_dec y 1); [left; auto|]. right. lia.
Qed.

Lemma bcast_eq_spec : forall a b, length a = length b ->
  match bcast_eq a b with
  | Some o => length o = length a /\
              forall k, k < length a -> dims_agree (rdim a k) (rdim b k) /\
                                        rdim o k = (if rdim a k =? 1 then rdim b k else rdim a k)
  | None => exists k, k < length a /\ ~ dims_agree (rdim a k) (rdim b k)
  end.
Proof.
  induction a as [|x a IH]; intros [|y b] L; simpl in L; try discriminate; simpl.
  - split; [reflexivity|]. intros k Hk. lia.
  - injection L as L. specialize (IH b L).
    destruct (bdim_spec x y) as [Bs Bn].
    destruct (bcast_eq a b) as [r|].
    + destruct IH as [Lr IH].
      destruct (agree_dec x y) as [Ag|Ag].
      * rewrite (Bs Ag). split; [simpl; congruence|]. intros k Hk.
        destruct (Nat.eq_dec k (length a)) as [->|Hne].
        -- rewrite !rdim_head by congruence. auto.
        -- assert (k < length a) by (simpl in Hk; lia).
           rewrite !rdim_cons by lia. auto.
      * rewrite (Bn Ag). exists (length a). split; [simpl; lia|]. now rewrite !rdim_head by congruence.
    + destruct IH as (k & Hk & Hn).
      assert (E : match bdim x y with Some _ => None | None => None end = @None shape) by (destruct (bdim x y); reflexivity).
      rewrite E. exists k. split; [simpl; lia|]. now rewrite !rdim_cons by lia.
Qed.

Lemma rdim_overflow s k : length s <= k -> rdim s k = 1.
Proof. intros H. unfold rdim. apply nth_overflow. now rewrite rev_length. Qed.

(* torch.broadcast_shapes: "starting from the trailing dimension, the sizes must be equal, or one of them is 1,
   or one of them does not exist"; the result has the larger rank and, in each dimension, the size that is not 1 *)
Theorem broadcast_shapes_rule a b :
  match broadcast_shapes a b with
  | Some o => length o = Nat.max (length a) (length b) /\
              forall k, dims_agree (rdim a k) (rdim b k) /\ rdim o k = (if rdim a k =? 1 then rdim b k else rdim a k)
  | None => exists k, ~ dims_agree (rdim a k) (rdim b k)
  end.
Proof.
  unfold broadcast_shapes. set (n := Nat.max (length a) (length b)).
  assert (La : length (pad n a) = n) by (apply pad_length; lia).
  assert (Lb : length (pad n b) = n) by (apply pad_length; lia).
  pose proof (bcast_eq_spec (pad n a) (pad n b) ltac:(congruence)) as H.
  destruct (bcast_eq (pad n a) (pad n b)) as [o|].
  - destruct H as [Lo H]. split; [congruence|]. intros k.
    destruct (Nat.lt_ge_cases k n) as [Hk|Hk].
    + specialize (H k ltac:(lia)). now rewrite !rdim_pad in H.
    + rewrite !rdim_overflow by lia. split; [left; reflexivity|reflexivity].
  - destruct H as (k & Hk & Hn). exists k. now rewrite !rdim_pad in Hn.
Qed.

Lemma bdim_comm x y : bdim x y = bdim y x.
Proof.
  unfold bdim. destruct (x =? y) eqn:E1, (y =? x) eqn:E1', (x =? 1) eqn:E2, (y =? 1) eqn:E3;
    rewrite ?Nat.eqb_eq, ?Nat.eqb_neq in *; try reflexivity; try (f_equal; lia); exfalso; lia.
Qed.
Lemma bcast_eq_comm : forall a b, bcast_eq a b = bcast_eq b a.
Proof. induction a as [|x a IH]; intros [|y b]; simpl; auto. now rewrite bdim_comm, IH. Qed.
Theorem broadcast_shapes_comm a b : broadcast_shapes a b = broadcast_shapes b a.
Proof. unfold broadcast_shapes. now rewrite Nat.max_comm, bcast_eq_comm. Qed.

Lemma bdim_refl x : bdim x x = Some x. Proof. unfold bdim. now rewrite Nat.eqb_refl. Qed.
Lemma bdim_1_r x : bdim x 1 = Some x.
Proof. unfold bdim. destruct (x =? 1) eqn:E; [apply Nat.eqb_eq in E; now subst|]. reflexivity. Qed.
Lemma bdim_1_l x : bdim 1 x = Some x.
Proof. rewrite bdim_comm. apply bdim_1_r. Qed.
Lemma bcast_eq_refl : forall a, bcast_eq a a = Some a.
Proof. induction a; simpl; auto. now rewrite bdim_refl, IHa. Qed.
Theorem broadcast_shapes_same a : broadcast_shapes a a = Some a.
Proof. unfold broadcast_shapes. rewrite Nat.max_id, pad_self. apply bcast_eq_refl. Qed.
Lemma bcast_eq_ones : forall a, bcast_eq a (repeat 1 (length a)) = Some a.
Proof. induction a; simpl; auto. now rewrite bdim_1_r, IHa. Qed.
(* an operand without batch dimensions (a single item) broadcasts against everything *)
Theorem broadcast_shapes_scalar a : broadcast_shapes a [] = Some a /\ broadcast_shapes [] a = Some a.
Proof.
  assert (H : broadcast_shapes a [] = Some a).
  { unfold broadcast_shapes. simpl length. rewrite Nat.max_0_r, pad_self. unfold pad. simpl length.
    rewrite Nat.sub_0_r, app_nil_r. apply bcast_eq_ones. }
  split; [exact H|]. now rewrite broadcast_shapes_comm.
Qed.

(* the source index, dimension by dimension: source dimension k is output dimension (rank difference) + k;
   the index is 0 where the source has size 1 and the output index otherwise *)
Lemma nth_skipn' {X} (d : X) : forall m l k, nth k (skipn m l) d = nth (m + k) l d.
Proof. induction m; intros [|x l] k; simpl; auto. destruct k; reflexivity. Qed.
Lemma bidx_eq_nth : forall s i k, length i = length s ->
  nth k (bidx_eq s i) 0 = if nth k s 1 =? 1 then 0 else nth k i 0.
Proof.
  induction s as [|d s IH]; intros [|j i] k L; simpl in L; try discriminate.
  - destruct k; reflexivity.
  - injection L as L. simpl. destruct k; [destruct (d =? 1); reflexivity|]. now apply IH.
Qed.
Theorem bidx_nth s i k : length s <= length i -> k < length s ->
  nth k (bidx s i) 0 = if nth k s 1 =? 1 then 0 else nth (length i - length s + k) i 0.
Proof.
  intros L Hk. unfold bidx. rewrite nth_skipn'. rewrite bidx_eq_nth by (rewrite pad_length; lia).
  unfold pad. rewrite app_nth2 by (rewrite repeat_length; lia). rewrite repeat_length.
  now replace (length i - length s + k - (length i - length s)) with k by lia.
Qed.

(* ======================= 3. matrix() ======================= *)
Lemma numel_app s t : numel (s ++ t) = numel s * numel t.
Proof. induction s; simpl; [lia|]. rewrite IHs. lia. Qed.

Lemma strides_app s t : strides (s ++ t) = map (fun x => x * numel t) (strides s) ++ strides t.
Proof. induction s; simpl; auto. now rewrite IHs, numel_app. Qed.

Lemma offset_app : forall i j st1 st2, length i = length st1 ->
  offset (i ++ j) (st1 ++ st2) = offset i st1 + offset j st2.
Proof.
  induction i as [|k i IH]; intros j [|t st1] st2 L; simpl in L; try discriminate; simpl; auto.
  rewrite IH by lia. lia.
Qed.
Lemma offset_scale m : forall i st, offset i (map (fun x => x * m) st) = offset i st * m.
Proof. induction i as [|k i IH]; intros [|t st]; simpl; auto. rewrite IH. lia. Qed.

Lemma ravel_app s t i j : length i = length s -> ravel (s ++ t) (i ++ j) = ravel s i * numel t + ravel t j.
Proof.
  intros L. unfold ravel. rewrite strides_app, offset_app by (now rewrite map_length, strides_length).
  now rewrite offset_scale.
Qed.

Lemma valid_idx_length s i : valid_idx s i -> length i = length s.
Proof. apply Forall2_length'. Qed.
Lemma valid_idx_app s t i j : valid_idx s i -> valid_idx t j -> valid_idx (s ++ t) (i ++ j).
Proof. unfold valid_idx. apply Forall2_app. Qed.

Lemma bidx_same_rank s i : length i = length s -> bidx s i = bidx_eq s i.
Proof. intros L. unfold bidx. now rewrite L, Nat.sub_diag, pad_self. Qed.
Lemma bidx_eq_valid_id : forall s i, valid_idx s i -> bidx_eq s i = i.
Proof.
  unfold valid_idx. induction s as [|d s IH]; intros i H; inversion H; subst; simpl; auto.
  rewrite (IH _ H4). destruct (d =? 1) eqn:E; [apply Nat.eqb_eq in E; f_equal; lia|reflexivity].
Qed.
Lemma bidx_eq_app : forall s t i j, length i = length s -> bidx_eq (s ++ t) (i ++ j) = bidx_eq s i ++ bidx_eq t j.
Proof.
  induction s as [|d s IH]; intros t [|k i] j L; simpl in L; try discriminate; simpl; auto.
  now rewrite IH by lia.
Qed.
Lemma bidx_eq_ones : forall i, bidx_eq (repeat 1 (length i)) i = repeat 0 (length i).
Proof. induction i; simpl; auto. now rewrite IHi. Qed.

Lemma bcast_eq_unsq : forall s n, bcast_eq (s ++ [1]) (repeat 1 (length s) ++ [n]) = Some (s ++ [n]).
Proof. induction s; intros n; simpl; [now rewrite bdim_1_l|]. now rewrite bdim_1_r, IHs. Qed.
Lemma broadcast_unsq s n : broadcast_shapes (s ++ [1]) (repeat 1 (length s) ++ [n]) = Some (s ++ [n]).
Proof.
  unfold broadcast_shapes. rewrite !app_length, repeat_length. simpl length. rewrite Nat.max_id.
  rewrite <- (app_length s [1]) at 1. rewrite pad_self.
  replace (length s + 1) with (length (repeat 1 (length s) ++ [n])) by (rewrite app_length, repeat_length; reflexivity).
  rewrite pad_self. apply bcast_eq_unsq.
Qed.

(* chunk = consecutive rows *)
Lemma skipn_skipn' {X} : forall a b (l : list X), skipn a (skipn b l) = skipn (b + a) l.
Proof. induction b; intros l; simpl; auto. destruct l; simpl; [now rewrite skipn_nil|apply IHb]. Qed.
Lemma chunk_rows {X} n : forall k (l : list X),
  chunk k n l = map (fun j => firstn n (skipn (j * n) l)) (seq 0 k).
Proof.
  induction k; intros l; simpl; auto. f_equal. rewrite IHk, <- seq_shift, map_map.
  apply map_ext. intros j. now rewrite skipn_skipn'.
Qed.
Lemma firstn_skipn_nth {X} (d : X) : forall n m (l : list X), m + n <= length l ->
  firstn n (skipn m l) = map (fun c => nth (m + c) l d) (seq 0 n).
Proof.
  induction n; intros m l H; [reflexivity|].
  assert (E : skipn m l = nth m l d :: skipn (S m) l).
  { clear IHn. revert l H. induction m; intros [|x l] H; simpl in *; try lia; auto. apply IHm. lia. }
  rewrite E. cbn [firstn seq map]. rewrite Nat.add_0_r. f_equal. rewrite IHn by lia. rewrite <- seq_shift, map_map.
  apply map_ext. intros c. f_equal. lia.
Qed.
Lemma nth_map_seq {X} (f : nat -> X) d k j : j < k -> nth j (map f (seq 0 k)) d = f j.
Proof.
  intros H. transitivity (nth j (map f (seq 0 k)) (f 0)); [apply nth_indep; now rewrite map_length, seq_length|].
  rewrite (map_nth f). now rewrite seq_nth.
Qed.
Lemma chunk_nth {X} (d : X) k n (l : list X) j : length l = k * n -> j < k ->
  nth j (chunk k n l) [] = map (fun c => nth (j * n + c) l d) (seq 0 n).
Proof.
  intros L Hj. rewrite chunk_rows, nth_map_seq by exact Hj. apply firstn_skipn_nth. nia.
Qed.
Lemma chunk_length {X} n k (l : list X) : length (chunk k n l) = k.
Proof. now rewrite chunk_rows, map_length, seq_length. Qed.

Lemma numel_ones m : numel (repeat 1 m) = 1.
Proof. induction m; [reflexivity|]. change (1 * numel (repeat 1 m) = 1). lia. Qed.

Section Matrix.
Context {F : Type} {NF : Num F}.

Definition mat_n (g : nat) : nat := match g with 0 => 3 | _ => 4 end.
(* the point kernel matrix() goes through: Act on 3-vectors for SO3, on homogeneous 4-vectors otherwise *)
Definition mat_act (g : nat) : list F -> list F -> list F := match g with 0 => g_act 0 | _ => g_act4 g end.

Lemma basis_length n : length (basis (F:=F) n) = n.
Proof. unfold basis. now rewrite map_length, seq_length. Qed.

(* transposing the rows Act(X, e_c) gives the item-wise matrix of Model/LieGroup.v *)
Lemma matrix_item g (xk : list F) :
  transpose_flat (mat_n g) (map (fun c => mat_act g xk (nth c (basis (mat_n g)) [])) (seq 0 (mat_n g))) = g_matrix g xk.
Proof. destruct g as [|[|[|g]]]; reflexivity. Qed.

Lemma lt_act_matrix g (xu I : tensor (list F)) : tdim I = mat_n g ->
  lt_act g xu I = lie_binop [] [] (mat_act g) (mat_n g) (mat_n g) xu I.
Proof. intros E. unfold lt_act. rewrite E. destruct g as [|[|[|g]]]; reflexivity. Qed.

(* X.matrix() for every lshape: the item-wise matrix of every item, same lshape *)
Theorem lt_matrix_spec g (x : tensor (list F)) : wf x -> tdim x <> 0 ->
  lt_matrix g x = Some (lie_unop (g_matrix g) (mat_n g * mat_n g) x).
Proof.
  intros W D. unfold lt_matrix. fold (mat_n g). set (n := mat_n g).
  set (s := tshape x).
  set (xu := mkT (s ++ [1]) (tdim x) (titems x)).
  set (I := mkT (repeat 1 (length s) ++ [n]) n (basis n)).
  assert (Hn : n <> 0 /\ n <> 1) by (unfold n; destruct g; simpl; lia).
  rewrite (lt_act_matrix g xu I eq_refl). fold n.
  assert (Wxu : wf xu) by (unfold wf, xu; simpl; rewrite numel_app; simpl; unfold wf in W; fold s in W; lia).
  assert (WI : wf I).
  { unfold wf, I. simpl. rewrite numel_app, basis_length. simpl.
    rewrite numel_ones. lia. }
  pose proof (lie_binop_spec (A:=list F) (B:=list F) (C:=list F) [] [] [] (mat_act g) n xu I Wxu WI D ltac:(simpl; lia)) as H.
  change (tshape xu) with (s ++ [1]) in H. change (tshape I) with (repeat 1 (length s) ++ [n]) in H.
  rewrite broadcast_unsq in H. destruct H as (r & Er & Sr & Dr & Wr & Hr). rewrite Er.
  unfold lie_unop. fold s. f_equal. f_equal.
  unfold wf in Wr. rewrite Sr, numel_app in Wr. simpl in Wr. rewrite Nat.mul_1_r in Wr.
  apply (nth_ext _ _ [] []).
  { rewrite !map_length, chunk_length. exact (eq_sym W). }
  intros k Hk. rewrite map_length, chunk_length in Hk.
  rewrite (nth_indep _ [] (transpose_flat n [])) by (now rewrite map_length, chunk_length).
  rewrite map_nth. rewrite (chunk_nth [] _ _ _ _ Wr Hk).
  rewrite (nth_indep (map _ _) [] (g_matrix g [])) by (rewrite map_length; unfold wf in W; fold s in W; lia).
  rewrite map_nth. unfold n at 1. rewrite <- matrix_item. fold n. f_equal.
  apply map_ext_in. intros c Hc. apply in_seq in Hc.
  destruct (unravel_spec s k Hk) as [Vi Ri]. set (i := unravel s k) in *.
  pose proof (valid_idx_length _ _ Vi) as Li.
  assert (Vc : valid_idx [n] [c]) by (repeat constructor; lia).
  specialize (Hr (i ++ [c]) (valid_idx_app _ _ _ _ Vi Vc)). destruct Hr as (_ & _ & Hr).
  unfold tget at 1 in Hr. rewrite Sr, ravel_app in Hr by exact Li. simpl in Hr.
  replace (ravel [n] [c]) with c in Hr by (unfold ravel; simpl; lia).
  rewrite Ri, Nat.mul_1_r in Hr. rewrite Hr. f_equal.
  - (* the operand item *)
    unfold tget. change (tshape xu) with (s ++ [1]). change (titems xu) with (titems x).
    rewrite bidx_same_rank by (rewrite !app_length; simpl; lia).
    rewrite bidx_eq_app by exact Li. rewrite (bidx_eq_valid_id _ _ Vi). simpl bidx_eq.
    rewrite ravel_app by exact Li. rewrite Ri. unfold ravel. simpl. f_equal. lia.
  - (* the basis vector *)
    unfold tget. change (tshape I) with (repeat 1 (length s) ++ [n]). change (titems I) with (basis (F:=F) n).
    rewrite bidx_same_rank by (rewrite !app_length, repeat_length; simpl; lia).
    rewrite <- Li. rewrite bidx_eq_app by (now rewrite repeat_length). rewrite bidx_eq_ones. simpl bidx_eq.
    destruct (n =? 1) eqn:E1; [apply Nat.eqb_eq in E1; lia|].
    rewrite ravel_app by (now rewrite !repeat_length). f_equal.
    assert (Z : forall m, ravel (repeat 1 m) (repeat 0 m) = 0) by (unfold ravel; induction m; simpl; auto).
    rewrite Z. unfold ravel. simpl. lia.
Qed.
End Matrix.

(* ======================= 4. Retr; ltype dimensions ======================= *)
Section Retr.
Context {F : Type} {NF : Num F}.

(* Retr(X, a) = a.Exp() * X with any item-wise Exp kernel: at every multi-index the product of the
   exponential of the broadcast algebra item with the broadcast group item *)
Theorem retr_batched g (expk : list F -> list F) (x a : tensor (list F)) :
  wf x -> wf a -> tdim x <> 0 ->
  binop_spec [] [] [] (fun ai xi => g_mul g (expk ai) xi) (gdim g) a x (lt_mul g (lie_unop expk (gdim g) a) x).
Proof.
  intros Wx Wa Dx.
  destruct (lie_unop_spec (C:=list F) [] [] expk (gdim g) a Wa) as (Se & De & We & Ge).
  pose proof (lt_mul_spec g (lie_unop expk (gdim g) a) x We Wx De Dx) as H.
  unfold binop_spec in *. rewrite Se in H.
  destruct (broadcast_shapes (tshape a) (tshape x)) as [o|]; [|exact H].
  destruct H as (r & Er & Sr & Dr & Wr & Hr). exists r. repeat (split; [assumption|]).
  intros i Hi. destruct (Hr i Hi) as (Va & Vx & Hg). repeat (split; [assumption|]).
  rewrite Hg. now rewrite Ge.
Qed.
End Retr.

(* the last dimension every operation produces is the dimension of the ltype it is documented to return
   (so the assertion in LieTensor.__init__ cannot fire); None = plain tensor *)
Theorem result_ltype_dimension g :
  option_map dimension (result_ltype g 0) = Some (gdim g) /\      (* Mul *)
  option_map dimension (result_ltype g 1) = Some (gdim g) /\      (* Inv *)
  option_map dimension (result_ltype g 11) = Some (gdim g) /\     (* Retr *)
  option_map dimension (result_ltype g 12) = Some (gdim g) /\     (* Exp *)
  option_map dimension (result_ltype g 6) = Some 4 /\             (* rotation *)
  option_map dimension (result_ltype g 9) = Some (adim g) /\      (* Adj *)
  option_map dimension (result_ltype g 10) = Some (adim g) /\     (* AdjT *)
  option_map dimension (result_ltype g 13) = Some (adim g) /\     (* Log *)
  option_map dimension (result_ltype g 14) = Some (adim g) /\     (* Jinvp *)
  result_ltype g 2 = None /\ result_ltype g 3 = None /\ result_ltype g 4 = None /\
  result_ltype g 7 = None /\ result_ltype g 8 = None.             (* Act, Act4, matrix, translation, scale *)
Proof. destruct g as [|[|[|g]]]; repeat split; reflexivity. Qed.

(* ======================= 5. "applied item by item", literally ======================= *)
Section ItemByItem.
Context {A B C : Type}.
Variable (dA : A) (dB : B) (dC : C).

(* the un-batched LieTensor (lshape ()) holding the item of t at multi-index j *)
Definition item_of {X} (dX : X) (t : tensor X) (j : list nat) : tensor X := mkT [] (tdim t) [tget dX t j].

Lemma lie_binop_single (op : A -> B -> C) d dx dy a b : dx <> 0 -> dy <> 0 ->
  lie_binop dA dB op d d (mkT [] dx [a]) (mkT [] dy [b]) = Some (mkT [] d [op a b]).
Proof.
  intros Hx Hy. destruct dx as [|dx]; [contradiction|]. destruct dy as [|dy]; [contradiction|].
  unfold lie_binop, broadcast_inputs. simpl. unfold view_last. simpl.
  destruct d as [|d]; [reflexivity|]. simpl Nat.eqb. cbv iota.
  change (fst (Nat.divmod (S d + 0) 0 0 0)) with ((S d + 0) / 1). now rewrite Nat.div_1_r, Nat.add_0_r.
Qed.

(* the batched operation at multi-index i IS the same operation on the two un-batched items that PyTorch
   broadcasting pairs at i *)
Theorem batched_is_itemwise (op : A -> B -> C) d (x : tensor A) (y : tensor B) o :
  wf x -> wf y -> tdim x <> 0 -> tdim y <> 0 -> broadcast_shapes (tshape x) (tshape y) = Some o ->
  exists r, lie_binop dA dB op d d x y = Some r /\ tshape r = o /\ tdim r = d /\ wf r /\
    forall i, valid_idx o i ->
      lie_binop dA dB op d d (item_of dA x (bidx (tshape x) i)) (item_of dB y (bidx (tshape y) i))
      = Some (item_of dC r i).
Proof.
  intros Wx Wy Dx Dy Eo. pose proof (lie_binop_spec dA dB dC op d x y Wx Wy Dx Dy) as H. rewrite Eo in H.
  destruct H as (r & Er & Sr & Dr & Wr & Hr). exists r. repeat (split; [assumption|]).
  intros i Hi. destruct (Hr i Hi) as (_ & _ & G). unfold item_of. rewrite lie_binop_single by assumption.
  now rewrite G, Dr.
Qed.
End ItemByItem.

(* ======================= 6. the table the tie compares with torch ======================= *)
(* [bcast_map] (Model/Broadcast.v) is what the harness evaluates and compares with torch's own broadcasting for
   every pair of lshapes; in closed form it is the pair of flat source positions given by [bidx] *)
Lemma idx_tensor_wf s : wf (idx_tensor s).
Proof. unfold wf, idx_tensor. simpl. apply seq_length. Qed.
Lemma idx_tensor_get s j : valid_idx s j -> tget 0 (idx_tensor s) j = ravel s j.
Proof. intros V. unfold tget, idx_tensor. simpl. rewrite seq_nth; [reflexivity|now apply ravel_lt]. Qed.

Theorem bcast_map_closed_form lx ly :
  match broadcast_shapes lx ly with
  | Some o => bcast_map lx ly = Some (o, map (fun i => (ravel lx (bidx lx i), ravel ly (bidx ly i))) (indices o))
  | None => bcast_map lx ly = None
  end.
Proof.
  unfold bcast_map.
  pose proof (lie_binop_spec (A:=nat) (B:=nat) (C:=nat*nat) 0 0 (0, 0) (fun a b => (a, b)) 1
                (idx_tensor lx) (idx_tensor ly) (idx_tensor_wf lx) (idx_tensor_wf ly)) as H.
  simpl tdim in H. specialize (H ltac:(lia) ltac:(lia)). simpl tshape in H.
  destruct (broadcast_shapes lx ly) as [o|]; [|now rewrite H].
  destruct H as (r & Er & Sr & Dr & Wr & Hr). rewrite Er. f_equal. f_equal; [exact Sr|].
  unfold wf in Wr. rewrite Sr in Wr.
  apply (nth_ext _ _ (0, 0) (0, 0)); [now rewrite map_length, indices_length|].
  intros k Hk. rewrite Wr in Hk. destruct (unravel_spec o k Hk) as [V R].
  destruct (Hr _ V) as (Vx & Vy & G). unfold tget at 1 in G. rewrite Sr, R in G. rewrite G.
  rewrite !idx_tensor_get by assumption.
  pose proof (nth_error_indices o _ V) as N. rewrite R in N.
  apply (map_nth_error (fun i => (ravel lx (bidx lx i), ravel ly (bidx ly i)))) in N.
  symmetry. now apply nth_error_nth.
Qed.
