(* C19 (splines): chspline interpolates, reproduces straight lines and returns (N-1)k+1 samples;
   bspline over an abstract group: continuity, left-equivariance, constant-twist motions,
   extrapolation end points. *)
From Coq Require Import Reals Lra Psatz List ZArith Lia.
Import ListNotations.
From PV Require Import Base.Num Base.RTac Base.ListAux Model.Spline.
Local Open Scope R_scope.
#[local] Remove Hints NumQ NumZ : typeclass_instances.

(* ------------------------------------------------------------------ lists *)
Lemma length_zrange n : forall a, length (zrange a n) = n.
Proof. induction n as [|n IH]; intros a; cbn; [reflexivity|now rewrite IH]. Qed.

Lemma nth_zrange n : forall a i d, (i < n)%nat -> nth i (zrange a n) d = (a + Z.of_nat i)%Z.
Proof.
  induction n as [|n IH]; intros a i d Hi; [lia|].
  destruct i as [|i]; cbn [zrange nth]; [lia|]. rewrite IH by lia. lia.
Qed.

Lemma zrange_snoc n : forall a, zrange a (S n) = zrange a n ++ [(a + Z.of_nat n)%Z].
Proof.
  induction n as [|n IH]; intros a.
  - cbn. f_equal. lia.
  - change (zrange a (S (S n))) with (a :: zrange (a + 1) (S n)). rewrite IH. cbn [zrange app].
    do 3 f_equal. lia.
Qed.

Section FlatMap.
Context {A B : Type} (f : A -> list B) (k : nat).
Hypothesis Hk : forall a, length (f a) = k.
Lemma length_flat_map_uniform l : length (flat_map f l) = (length l * k)%nat.
Proof. induction l as [|a l IH]; cbn; [reflexivity|]. rewrite app_length, Hk, IH. lia. Qed.
Lemma nth_flat_map_uniform l : forall n j d da, (n < length l)%nat -> (j < k)%nat ->
  nth (n * k + j) (flat_map f l) d = nth j (f (nth n l da)) d.
Proof.
  induction l as [|a l IH]; intros n j d da Hn Hj; [cbn in Hn; lia|].
  cbn [flat_map]. destruct n as [|n].
  - cbn [Nat.mul Nat.add nth]. rewrite app_nth1 by (rewrite Hk; lia). reflexivity.
  - rewrite app_nth2 by (rewrite Hk; nia). rewrite Hk.
    replace (S n * k + j - k)%nat with (n * k + j)%nat by nia.
    cbn [nth]. apply IH; [cbn in Hn; lia|assumption].
Qed.
End FlatMap.

Lemma nth_map_d {A B} (f : A -> B) l i d d' : (i < length l)%nat -> nth i (map f l) d = f (nth i l d').
Proof. intros H. rewrite (nth_indep _ d (f d')) by (now rewrite map_length). apply map_nth. Qed.

(* ------------------------------------------------------------------ chspline: the timeline *)
Definition chs_row_t (k : nat) (q : R) (n : Z) : list R := map (fun iv => IZR n + iv) (chs_intervals (F:=R) k q).

Lemma length_chs_intervals k (q : R) : length (chs_intervals k q) = k.
Proof. unfold chs_intervals. now rewrite map_length, length_zrange. Qed.
Lemma length_chs_row_t k q n : length (chs_row_t k q n) = k.
Proof. unfold chs_row_t. now rewrite map_length, length_chs_intervals. Qed.
Lemma nth_chs_row_t k q n j d : (j < k)%nat -> nth j (chs_row_t k q n) d = IZR n + IZR (Z.of_nat j) * q.
Proof.
  intros Hj. unfold chs_row_t, chs_intervals.
  rewrite (nth_map_d _ _ _ _ 0) by (now rewrite map_length, length_zrange).
  rewrite (nth_map_d _ _ _ _ 0%Z) by (now rewrite length_zrange).
  rewrite nth_zrange by assumption. reflexivity.
Qed.

(* the slice [:-(k-1)] removes all of the last row but its first entry *)
Lemma chs_timeline_split (M k1 : nat) (q : R) :
  chs_timeline (S M) (S (S k1)) q
  = flat_map (chs_row_t (S (S k1)) q) (zrange 0 M) ++ [IZR (Z.of_nat M) + IZR 0 * q].
Proof.
  change (drop_last (S (S k1) - 1) (flat_map (chs_row_t (S (S k1)) q) (zrange 0 (S M)))
          = flat_map (chs_row_t (S (S k1)) q) (zrange 0 M) ++ [IZR (Z.of_nat M) + IZR 0 * q]).
  rewrite zrange_snoc, flat_map_app. cbn [flat_map]. rewrite app_nil_r.
  replace (S (S k1) - 1)%nat with (S k1) by lia. cbn [drop_last].
  rewrite app_length, length_chs_row_t.
  replace (length (flat_map (chs_row_t (S (S k1)) q) (zrange 0 M)) + S (S k1) - S k1)%nat
    with (length (flat_map (chs_row_t (S (S k1)) q) (zrange 0 M)) + 1)%nat by lia.
  rewrite firstn_app_2. f_equal.
Qed.

Lemma length_chs_timeline (M k1 : nat) (q : R) :
  length (chs_timeline (S M) (S (S k1)) q) = (M * S (S k1) + 1)%nat.
Proof.
  rewrite chs_timeline_split, app_length, (length_flat_map_uniform _ (S (S k1))), length_zrange by (apply length_chs_row_t).
  reflexivity.
Qed.

Lemma nth_chs_timeline_inner (M k1 : nat) (q : R) n j d : (n < M)%nat -> (j < S (S k1))%nat ->
  nth (n * S (S k1) + j) (chs_timeline (S M) (S (S k1)) q) d = IZR (Z.of_nat n) + IZR (Z.of_nat j) * q.
Proof.
  intros Hn Hj. rewrite chs_timeline_split, app_nth1.
  - rewrite (nth_flat_map_uniform _ (S (S k1)) (length_chs_row_t _ q) _ _ _ _ 0%Z) by (rewrite ?length_zrange; assumption).
    rewrite nth_zrange by assumption. rewrite nth_chs_row_t by assumption. reflexivity.
  - rewrite (length_flat_map_uniform _ (S (S k1))), length_zrange by (apply length_chs_row_t). nia.
Qed.
Lemma nth_chs_timeline_last (M k1 : nat) (q : R) d :
  nth (M * S (S k1)) (chs_timeline (S M) (S (S k1)) q) d = IZR (Z.of_nat M).
Proof.
  rewrite chs_timeline_split, app_nth2;
    rewrite (length_flat_map_uniform _ (S (S k1))), length_zrange by (apply length_chs_row_t); [|lia].
  rewrite Nat.sub_diag. cbn [nth]. lra.
Qed.

(* ------------------------------------------------------------------ searchsorted on 1..N-1 *)
Lemma searchsorted_range (M : nat) : forall (a : Z) (n : nat) (v : R),
  (n <= M)%nat -> ((0 < n)%nat -> IZR a + INR n - 1 < v) -> ((n < M)%nat -> v <= IZR a + INR n) ->
  searchsorted (map IZR (zrange a M)) v = n.
Proof.
  induction M as [|M IH]; intros a n v Hn Hlo Hhi.
  - cbn. lia.
  - cbn [zrange map searchsorted]. destruct n as [|n].
    + replace (ltb (IZR a) v) with false; [reflexivity|].
      symmetry. apply Rltb_false. specialize (Hhi ltac:(lia)). cbn in Hhi. lra.
    + assert (Hn0 : 0 <= INR n) by apply pos_INR.
      replace (ltb (IZR a) v) with true.
      * f_equal. apply IH; [lia| |].
        -- intros _. specialize (Hlo ltac:(lia)). rewrite S_INR in Hlo. rewrite plus_IZR. lra.
        -- intros H. specialize (Hhi ltac:(lia)). rewrite S_INR in Hhi. rewrite plus_IZR. lra.
      * symmetry. apply Rltb_true. specialize (Hlo ltac:(lia)). rewrite S_INR in Hlo. lra.
Qed.

(* ------------------------------------------------------------------ chspline: one point *)
Definition xs_of (N : nat) : list R := map IZR (zrange 0 N).
Lemma nth_xs_of N i : (i < N)%nat -> nth i (xs_of N) 0 = IZR (Z.of_nat i).
Proof.
  intros H. unfold xs_of. rewrite (nth_map_d _ _ _ _ 0%Z) by (now rewrite length_zrange).
  now rewrite nth_zrange.
Qed.
Lemma tl_xs_of M : tl (xs_of (S M)) = map IZR (zrange 1 M).
Proof. reflexivity. Qed.

(* the Hermite combination once the interval index is known *)
Lemma chs_point_idx (ys ms : list R) (M n : nat) (v : R) :
  (n < M)%nat -> searchsorted (map IZR (zrange 1 M)) v = n ->
  chs_point ys ms (xs_of (S M)) v =
    let t := v - INR n in
    (1 - 3 * t * t + 2 * t * t * t) * nth n ys 0 + (t - 2 * t * t + t * t * t) * nth n ms 0
    + (3 * t * t - 2 * t * t * t) * nth (S n) ys 0 + (- t * t + t * t * t) * nth (S n) ms 0.
Proof.
  intros Hn Hs. unfold chs_point. rewrite tl_xs_of, Hs.
  rewrite !nth_xs_of by lia. unfold chs_hh, chs_row. num_unfold.
  rewrite Nat2Z.inj_succ, succ_IZR, <- INR_IZR_INZ. cbv zeta. field. lra.
Qed.

(* ------------------------------------------------------------------ chspline: hypotheses on (k, interval) *)
(* k >= 2 samples per unit interval, all of them inside [0, 1):  (k-1) * interval < 1 *)
Definition chs_kq (k : nat) (q : R) : Prop := (2 <= k)%nat /\ 0 < q /\ INR (k - 1) * q < 1.

Lemma chs_kq_lt1 k q : chs_kq k q -> q < 1.
Proof.
  intros (Hk & Hq & H). assert (1 <= INR (k - 1)) by (change 1 with (INR 1); apply le_INR; lia). nra.
Qed.
Lemma chs_kq_j k q (j : Z) : chs_kq k q -> (0 <= j < Z.of_nat k)%Z -> 0 <= IZR j * q < 1.
Proof.
  intros (Hk & Hq & H) Hj.
  assert (0 <= IZR j) by (apply IZR_le; lia).
  assert (IZR j <= INR (k - 1)) by (rewrite INR_IZR_INZ; apply IZR_le; lia).
  split; nra.
Qed.

Lemma In_zrange n : forall a x, In x (zrange a n) -> (a <= x < a + Z.of_nat n)%Z.
Proof.
  induction n as [|n IH]; intros a x H; [destruct H|].
  destruct H as [<-|H]; [lia|]. apply IH in H. lia.
Qed.

Lemma chspline1_some k q ys : chs_kq k q -> (2 <= length ys)%nat ->
  chspline1 k q ys = Some (map (chs_point ys (chs_tangents ys (xs_of (length ys))) (xs_of (length ys)))
                               (chs_timeline (length ys) k q)).
Proof.
  intros Hkq HN. unfold chspline1.
  replace (ltb q one) with true by (symmetry; cbn; apply Rltb_true; exact (chs_kq_lt1 _ _ Hkq)).
  cbn [negb]. replace (length ys <? 2)%nat with false by (symmetry; apply Nat.ltb_ge; lia).
  reflexivity.
Qed.

(* every time of the timeline lies in [0, N-1] *)
Lemma chs_timeline_range (M k : nat) (q : R) : chs_kq k q ->
  forall v, In v (chs_timeline (S M) k q) -> 0 <= v <= INR M.
Proof.
  intros Hkq v Hv. destruct Hkq as (Hk & Hq & H).
  destruct k as [|[|k1]]; try lia.
  assert (Hkq : chs_kq (S (S k1)) q) by (repeat split; assumption).
  rewrite chs_timeline_split in Hv. apply in_app_or in Hv. destruct Hv as [Hv|[<-|[]]].
  - apply in_flat_map in Hv. destruct Hv as (n & Hn & Hv). apply In_zrange in Hn.
    unfold chs_row_t, chs_intervals in Hv. rewrite map_map in Hv. apply in_map_iff in Hv.
    destruct Hv as (j & <- & Hj). apply In_zrange in Hj.
    pose proof (chs_kq_j _ _ j Hkq Hj) as Hjq. num_unfold.
    assert (0 <= IZR n) by (apply IZR_le; lia).
    assert (IZR n + 1 <= INR M) by (rewrite INR_IZR_INZ, <- plus_IZR; apply IZR_le; lia).
    lra.
  - rewrite <- INR_IZR_INZ. pose proof (pos_INR M). lra.
Qed.

(* ------------------------------------------------------------------ chspline_count *)
Theorem chspline_count k q ys : chs_kq k q -> (2 <= length ys)%nat ->
  exists out, chspline1 k q ys = Some out /\ length out = ((length ys - 1) * k + 1)%nat.
Proof.
  intros Hkq HN. rewrite chspline1_some by assumption. eexists; split; [reflexivity|].
  rewrite map_length. destruct Hkq as (Hk & _). destruct k as [|[|k1]]; try lia.
  destruct (length ys) as [|M]; [lia|]. rewrite length_chs_timeline. f_equal. f_equal. lia.
Qed.

(* ------------------------------------------------------------------ chspline_interpolates *)
Lemma chs_point_at_int (ys ms : list R) (M n : nat) : (n <= M)%nat -> (1 <= M)%nat ->
  chs_point ys ms (xs_of (S M)) (INR n) = nth n ys 0.
Proof.
  intros Hn HM. destruct n as [|n].
  - rewrite (chs_point_idx ys ms M 0) by (try lia; apply searchsorted_range; cbn; intros; try lia; lra).
    cbv zeta. cbn [INR]. ring.
  - rewrite (chs_point_idx ys ms M n).
    + cbv zeta. rewrite S_INR. ring.
    + lia.
    + apply searchsorted_range; [lia| |]; intros; rewrite S_INR; lra.
Qed.

Theorem chspline_interpolates k q ys n d : chs_kq k q -> (2 <= length ys)%nat -> (n < length ys)%nat ->
  exists out, chspline1 k q ys = Some out /\ nth (n * k) out d = nth n ys d.
Proof.
  intros Hkq HN Hn. rewrite chspline1_some by assumption. eexists; split; [reflexivity|].
  destruct (Hkq) as (Hk & _). destruct k as [|[|k1]]; try lia.
  remember (length ys) as N eqn:EN. destruct N as [|M]; [lia|].
  rewrite (nth_indep ys d 0) by lia.
  assert (Hlen := length_chs_timeline M k1 q).
  rewrite (nth_map_d _ _ _ _ 0) by (rewrite Hlen; nia).
  assert (Hv : nth (n * S (S k1)) (chs_timeline (S M) (S (S k1)) q) 0 = INR n).
  { destruct (Nat.eq_dec n M) as [->|Hne].
    - rewrite nth_chs_timeline_last. now rewrite INR_IZR_INZ.
    - replace (n * S (S k1))%nat with (n * S (S k1) + 0)%nat by lia.
      rewrite nth_chs_timeline_inner by lia. rewrite INR_IZR_INZ. cbn. lra. }
  rewrite Hv. apply chs_point_at_int; lia.
Qed.

(* ------------------------------------------------------------------ chspline_linear_exact *)
Lemma diffs_cons2 (x y : R) r : diffs (x :: y :: r) = (y - x) :: diffs (y :: r).
Proof. reflexivity. Qed.
Lemma diffs_map_zrange (f : Z -> R) M : forall a,
  diffs (map f (zrange a (S M))) = map (fun z => f (z + 1)%Z - f z) (zrange a M).
Proof.
  induction M as [|M IH]; intros a; [reflexivity|].
  change (zrange a (S (S M))) with (a :: (a + 1)%Z :: zrange (a + 1 + 1) M).
  cbn [map]. rewrite diffs_cons2. change (f (a + 1)%Z :: map f (zrange (a + 1 + 1) M)) with (map f (zrange (a + 1) (S M))).
  rewrite IH. reflexivity.
Qed.
Lemma combine_map2 {A B C} (g : A -> B) (h : A -> C) l :
  combine (map g l) (map h l) = map (fun z => (g z, h z)) l.
Proof. induction l as [|x l IH]; cbn; [reflexivity|now rewrite IH]. Qed.
Lemma last_In {A} (l : list A) d : l <> [] -> In (List.last l d) l.
Proof.
  induction l as [|x l IH]; [congruence|]. intros _. destruct l as [|y l]; [now left|].
  right. apply IH. discriminate.
Qed.

Definition line_pts (a b : R) (N : nat) : list R := map (fun z => a + IZR z * b) (zrange 0 N).

Lemma line_slopes a b M : forall x, In x (chs_slopes (line_pts a b (S M)) (xs_of (S M))) -> x = b.
Proof.
  intros x. unfold chs_slopes, line_pts, xs_of. rewrite !diffs_map_zrange, combine_map2, map_map.
  intros H. apply in_map_iff in H. destruct H as (z & <- & _). cbn [fst snd]. num_unfold.
  rewrite plus_IZR. field. lra.
Qed.
Lemma length_line_slopes a b M : length (chs_slopes (line_pts a b (S M)) (xs_of (S M))) = M.
Proof.
  unfold chs_slopes, line_pts, xs_of. rewrite !diffs_map_zrange, combine_map2, !map_length. apply length_zrange.
Qed.
Lemma line_tangents a b M i : (1 <= M)%nat -> (i <= M)%nat ->
  nth i (chs_tangents (line_pts a b (S M)) (xs_of (S M))) 0 = b.
Proof.
  intros HM Hi. unfold chs_tangents.
  set (m := chs_slopes (line_pts a b (S M)) (xs_of (S M))).
  assert (Hall : forall x, In x m -> x = b) by apply line_slopes.
  assert (Hlen : length m = M) by apply length_line_slopes.
  assert (Hne : m <> []) by (intros E; rewrite E in Hlen; cbn in Hlen; lia).
  assert (Hall2 : forall x, In x ([hd zero m] ++ map (fun p => div (add (snd p) (fst p)) two) (combine m (tl m)) ++ [List.last m zero]) -> x = b).
  { intros x Hx. apply in_app_or in Hx. destruct Hx as [Hx|Hx].
    - destruct Hx as [<-|[]]. destruct m as [|y r]; [congruence|]. apply Hall. now left.
    - apply in_app_or in Hx. destruct Hx as [Hx|[<-|[]]].
      + apply in_map_iff in Hx. destruct Hx as ((u, w) & <- & Hp). cbn [fst snd].
        pose proof (in_combine_l _ _ _ _ Hp) as Hu. pose proof (in_combine_r _ _ _ _ Hp) as Hw.
        assert (Hw' : In w m) by (destruct m; [destruct Hw|now right]).
        rewrite (Hall u Hu), (Hall w Hw'). num_unfold. field.
      + apply Hall. now apply last_In. }
  apply Hall2. apply nth_In.
  rewrite !app_length, map_length, combine_length. cbn [length].
  assert (length (tl m) = (M - 1)%nat) by (destruct m; cbn in *; lia). lia.
Qed.

Lemma searchsorted_lt (M : nat) : forall (a : Z) (v : R), (1 <= M)%nat -> v <= IZR a + INR M - 1 ->
  (searchsorted (map IZR (zrange a M)) v < M)%nat.
Proof.
  induction M as [|M IH]; intros a v HM Hv; [lia|].
  cbn [zrange map searchsorted]. destruct (ltb (IZR a) v) eqn:E; [|lia].
  apply Rltb_true in E. rewrite S_INR in Hv. destruct M as [|M']; [cbn in Hv; lra|].
  apply -> Nat.succ_lt_mono. apply IH; [lia|]. rewrite plus_IZR. lra.
Qed.

(* uniformly sampled straight lines are reproduced exactly: every output sample is the line
   evaluated at its time *)
Theorem chspline_linear_exact k q (a b : R) N : chs_kq k q -> (2 <= N)%nat ->
  chspline1 k q (line_pts a b N) = Some (map (fun v => a + v * b) (chs_timeline N k q)).
Proof.
  intros Hkq HN.
  assert (HlenN : length (line_pts a b N) = N) by (unfold line_pts; now rewrite map_length, length_zrange).
  rewrite chspline1_some by (rewrite ?HlenN; assumption). rewrite HlenN. f_equal.
  destruct N as [|M]; [lia|]. apply map_ext_in. intros v Hv.
  apply (chs_timeline_range M k q Hkq) in Hv.
  pose proof (searchsorted_lt M 1 v ltac:(lia) ltac:(cbn; lra)) as Hlt.
  set (n := searchsorted (map IZR (zrange 1 M)) v) in *.
  rewrite (chs_point_idx _ _ M n v Hlt eq_refl). cbv zeta.
  rewrite !line_tangents by lia.
  unfold line_pts. rewrite !(nth_map_d _ _ _ _ 0%Z) by (rewrite length_zrange; lia).
  rewrite !nth_zrange by lia. rewrite !Z.add_0_l, Nat2Z.inj_succ, succ_IZR, <- INR_IZR_INZ. ring.
Qed.

(* chs_count a b is the number of multiples of the interval a/b in [0, 1) *)
Theorem chs_count_spec (a b j : Z) : (0 < a)%Z -> (0 < b)%Z -> (0 <= j)%Z ->
  (IZR j * (IZR a / IZR b) < 1 <-> (j < chs_count a b)%Z).
Proof.
  intros Ha Hb Hj. unfold chs_count.
  assert (Hb' : 0 < IZR b) by (apply IZR_lt; lia).
  assert (E : IZR j * (IZR a / IZR b) < 1 <-> (j * a < b)%Z).
  { split; intros H.
    - apply lt_IZR. rewrite mult_IZR. apply (Rmult_lt_compat_r (IZR b)) in H; [|assumption].
      replace (IZR j * (IZR a / IZR b) * IZR b) with (IZR j * IZR a) in H by (field; lra). lra.
    - apply IZR_lt in H. rewrite mult_IZR in H. apply (Rmult_lt_reg_r (IZR b)); [assumption|].
      replace (IZR j * (IZR a / IZR b) * IZR b) with (IZR j * IZR a) by (field; lra). lra. }
  rewrite E. replace (b + a - 1)%Z with ((b - 1) + 1 * a)%Z by lia. rewrite Z.div_add by lia.
  split; intros H.
  - assert (j <= (b - 1) / a)%Z; [|lia]. apply Z.div_le_lower_bound; lia.
  - assert (Hj' : (j <= (b - 1) / a)%Z) by lia.
    pose proof (Z.mul_div_le (b - 1) a ltac:(lia)). nia.
Qed.

(* ================================================================== bspline *)
Lemma bs_w_0 (q : R) : bs_w (IZR 0 * q) = (5 / 6, 1 / 6, 0).
Proof. unfold bs_w, bs_row. num_unfold. split_pairs; field. Qed.
Lemma bs_w_1 : bs_w (F:=R) 1 = bs_wend.
Proof. unfold bs_w, bs_wend, bs_row, bs_rsum. num_unfold. split_pairs; field. Qed.
Lemma bs_wend_val : bs_wend (F:=R) = (1, 5 / 6, 1 / 6).
Proof. unfold bs_wend, bs_rsum. num_unfold. split_pairs; field. Qed.
(* the three weights sum to 1 + u *)
Lemma bs_w_sum (u : R) : fst (fst (bs_w u)) + snd (fst (bs_w u)) + snd (bs_w u) = 1 + u.
Proof. unfold bs_w, bs_row. cbn [fst snd]. num_unfold. field. Qed.

Section Windows.
Context {G : Type}.
Lemma windows4_cons4 (a b c d : G) r : windows4 G (a :: b :: c :: d :: r) = (a, b, c, d) :: windows4 G (b :: c :: d :: r).
Proof. reflexivity. Qed.
Lemma length_windows4 (l : list G) : length (windows4 G l) = (length l - 3)%nat.
Proof.
  induction l as [|a r IH]; [reflexivity|].
  destruct r as [|b [|c [|d r']]]; try reflexivity.
  rewrite windows4_cons4. cbn [length] in *. rewrite IH. lia.
Qed.
Lemma nth_windows4 (l : list G) : forall i d0 dw, (i + 3 < length l)%nat ->
  nth i (windows4 G l) dw = (nth i l d0, nth (i + 1) l d0, nth (i + 2) l d0, nth (i + 3) l d0).
Proof.
  induction l as [|a r IH]; intros i d0 dw Hi; [cbn in Hi; lia|].
  destruct r as [|b [|c [|d r']]]; try (cbn in Hi; lia).
  rewrite windows4_cons4. destruct i as [|i]; [reflexivity|].
  cbn [nth]. rewrite (IH i d0 dw) by (cbn [length] in *; lia).
  replace (S i + 1)%nat with (S (i + 1)) by lia. replace (S i + 2)%nat with (S (i + 2)) by lia.
  replace (S i + 3)%nat with (S (i + 3)) by lia. reflexivity.
Qed.
End Windows.
Lemma windows4_map {G H : Type} (f : G -> H) (l : list G) :
  windows4 H (map f l) = map (fun W : win G => match W with (a, b, c, d) => (f a, f b, f c, f d) end) (windows4 G l).
Proof.
  induction l as [|a r IH]; [reflexivity|].
  destruct r as [|b [|c [|d r']]]; try reflexivity.
  cbn [map] in *. rewrite !windows4_cons4. cbn [map]. now rewrite IH.
Qed.


Lemma last_map {A B} (f : A -> B) l d : List.last (map f l) (f d) = f (List.last l d).
Proof. induction l as [|x [|y l] IH]; try reflexivity. cbn [map List.last] in *. apply IH. Qed.
Lemma last_nth {A} (l : list A) d : List.last l d = nth (length l - 1) l d.
Proof.
  induction l as [|x [|y l] IH]; try reflexivity.
  change (List.last (x :: y :: l) d) with (List.last (y :: l) d). rewrite IH. cbn [length].
  replace (S (S (length l)) - 1)%nat with (S (S (length l) - 1)) by lia. reflexivity.
Qed.

Lemma last_indep_ne {A} (l : list A) d d' : l <> [] -> List.last l d = List.last l d'.
Proof.
  induction l as [|x [|y l] IH]; [congruence|reflexivity|]. intros _.
  change (List.last (y :: l) d = List.last (y :: l) d'). apply IH. discriminate.
Qed.

Section BsplineLaws.
Variables G A : Type.
Variable gmul : G -> G -> G.
Variable ginv : G -> G.
Variable gid : G.
Variable gexp : A -> G.
Variable glog : G -> A.
Variable ascale : R -> A -> A.
Variable azero : A.
(* group laws *)
Hypothesis mul_assoc : forall a b c, gmul (gmul a b) c = gmul a (gmul b c).
Hypothesis mul_id_l : forall a, gmul gid a = a.
Hypothesis mul_id_r : forall a, gmul a gid = a.
Hypothesis inv_l : forall a, gmul (ginv a) a = gid.
Hypothesis inv_r : forall a, gmul a (ginv a) = gid.

Local Notation seg := (bs_seg G A gmul ginv gexp glog ascale).
Local Notation bspl := (bspline G A gmul ginv gexp glog ascale).
Local Infix "<*>" := gmul (at level 40, left associativity).

Lemma inv_unique x y : y <*> x = gid -> y = ginv x.
Proof. intros H. rewrite <- (mul_id_r y), <- (inv_r x), <- mul_assoc, H. apply mul_id_l. Qed.
Lemma inv_mul g a : ginv (g <*> a) = ginv a <*> ginv g.
Proof.
  symmetry. apply inv_unique. rewrite mul_assoc, <- (mul_assoc (ginv g)), inv_l, mul_id_l. apply inv_l.
Qed.
Lemma rel_left g a b : ginv (g <*> a) <*> (g <*> b) = ginv a <*> b.
Proof. rewrite inv_mul, mul_assoc, <- (mul_assoc (ginv g)), inv_l, mul_id_l. reflexivity. Qed.

(* ---- the output as a list of segments *)
Definition bs_out (k : nat) (q : R) (ws : list (win G)) (W0 : win G) : list G :=
  flat_map (fun W => map (fun u => seg W (bs_w u)) (chs_intervals k q)) ws ++ [seg (List.last ws W0) bs_wend].
Lemma bspline_unfold k q ex data : q < 1 ->
  bspl k q ex data =
  match windows4 G (if ex then bs_pad G data else data) with
  | [] => None | W0 :: _ => Some (bs_out k q (windows4 G (if ex then bs_pad G data else data)) W0) end.
Proof.
  intros Hq. unfold bspline.
  replace (ltb q one) with true by (symmetry; cbn; now apply Rltb_true). cbn [negb].
  destruct (windows4 G (if ex then bs_pad G data else data)); reflexivity.
Qed.
Lemma length_bs_out k q ws W0 : length (bs_out k q ws W0) = (length ws * k + 1)%nat.
Proof.
  unfold bs_out. rewrite app_length, (length_flat_map_uniform _ k); [reflexivity|].
  intros W. now rewrite map_length, length_chs_intervals.
Qed.
Lemma nth_bs_out_inner k q ws W0 i j d : (i < length ws)%nat -> (j < k)%nat ->
  nth (i * k + j) (bs_out k q ws W0) d = seg (nth i ws W0) (bs_w (IZR (Z.of_nat j) * q)).
Proof.
  intros Hi Hj. unfold bs_out.
  assert (Hk : forall W, length (map (fun u => seg W (bs_w u)) (chs_intervals k q)) = k)
    by (intros W; now rewrite map_length, length_chs_intervals).
  rewrite app_nth1 by (rewrite (length_flat_map_uniform _ k Hk); nia).
  rewrite (nth_flat_map_uniform _ k Hk _ _ _ _ W0) by assumption.
  rewrite (nth_map_d _ _ _ _ 0) by (now rewrite length_chs_intervals).
  unfold chs_intervals. rewrite (nth_map_d _ _ _ _ 0%Z) by (now rewrite length_zrange).
  rewrite nth_zrange by assumption. reflexivity.
Qed.
Lemma nth_bs_out_last k q ws W0 d :
  nth (length ws * k) (bs_out k q ws W0) d = seg (List.last ws W0) bs_wend.
Proof.
  unfold bs_out.
  assert (Hk : forall W, length (map (fun u => seg W (bs_w u)) (chs_intervals k q)) = k)
    by (intros W; now rewrite map_length, length_chs_intervals).
  rewrite app_nth2; rewrite (length_flat_map_uniform _ k Hk); [|lia]. now rewrite Nat.sub_diag.
Qed.

(* ---- number of samples: (N - 3) k + 1 *)
Theorem bspline_count k q data : q < 1 -> (4 <= length data)%nat ->
  exists out, bspl k q false data = Some out /\ length out = ((length data - 3) * k + 1)%nat.
Proof.
  intros Hq HN. rewrite bspline_unfold by assumption.
  pose proof (length_windows4 data) as HL.
  destruct (windows4 G data) as [|W0 ws] eqn:E; [cbn in HL; lia|].
  eexists; split; [reflexivity|]. rewrite length_bs_out, HL. reflexivity.
Qed.

(* ---- continuity: the end (u = 1) of a segment is the start (u = 0) of the next one *)
Hypothesis exp_log : forall X, gexp (glog X) = X.
Hypothesis scale_one : forall x, ascale 1 x = x.
Hypothesis exp_scale_zero : forall x, gexp (ascale 0 x) = gid.

Lemma bs_seg_continuous (P0 P1 P2 P3 P4 : G) (q : R) :
  seg (P0, P1, P2, P3) (bs_w 1) = seg (P1, P2, P3, P4) (bs_w (IZR 0 * q)).
Proof.
  rewrite bs_w_1, bs_wend_val, bs_w_0. unfold bs_seg.
  rewrite scale_one, exp_log, exp_scale_zero, mul_id_r.
  rewrite !mul_assoc, <- (mul_assoc P0), inv_r, mul_id_l. reflexivity.
Qed.

(* on the output of bspline: for every pair of consecutive segments i, i+1 the value of segment
   i at u = 1 is output sample (i+1) k, and the value of the last segment at u = 1 is the last
   output sample *)
Theorem bspline_continuous k q data (d : G) : q < 1 -> (4 <= length data)%nat -> (1 <= k)%nat ->
  exists out, bspl k q false data = Some out /\
    (forall i, (i + 4 < length data)%nat ->
       seg (nth i data d, nth (i + 1) data d, nth (i + 2) data d, nth (i + 3) data d) (bs_w 1)
       = nth ((i + 1) * k) out d) /\
    seg (nth (length data - 4) data d, nth (length data - 3) data d, nth (length data - 2) data d,
         nth (length data - 1) data d) (bs_w 1) = nth ((length data - 3) * k) out d.
Proof.
  intros Hq HN Hk. rewrite bspline_unfold by assumption.
  pose proof (length_windows4 data) as HL.
  destruct (windows4 G data) as [|W0 ws] eqn:E; [cbn in HL; lia|]. rewrite <- E in *.
  eexists; split; [reflexivity|]. split.
  - intros i Hi. replace ((i + 1) * k)%nat with ((i + 1) * k + 0)%nat by lia.
    rewrite nth_bs_out_inner by lia. rewrite (nth_windows4 data (i + 1) d W0) by lia.
    replace (i + 1 + 1)%nat with (i + 2)%nat by lia. replace (i + 1 + 2)%nat with (i + 3)%nat by lia.
    cbn [Z.of_nat]. apply bs_seg_continuous.
  - rewrite <- HL, nth_bs_out_last, last_nth, HL, (nth_windows4 data _ d W0) by lia.
    rewrite bs_w_1.
    replace (length data - 3 - 1)%nat with (length data - 4)%nat by lia.
    replace (length data - 4 + 1)%nat with (length data - 3)%nat by lia.
    replace (length data - 4 + 2)%nat with (length data - 2)%nat by lia.
    replace (length data - 4 + 3)%nat with (length data - 1)%nat by lia. reflexivity.
Qed.

(* ---- left equivariance *)
Lemma bs_seg_left g P0 P1 P2 P3 w : seg (g <*> P0, g <*> P1, g <*> P2, g <*> P3) w = g <*> seg (P0, P1, P2, P3) w.
Proof. unfold bs_seg. destruct w as [[w0 w1] w2]. rewrite !rel_left, !mul_assoc. reflexivity. Qed.

Lemma bs_pad_map (f : G -> G) data : bs_pad G (map f data) = map f (bs_pad G data).
Proof.
  destruct data as [|a r]; [reflexivity|]. unfold bs_pad. cbn [map].
  change (f a :: map f r) with (map f (a :: r)). rewrite last_map, map_app. reflexivity.
Qed.

Theorem bspline_left_equivariant k q ex g data :
  bspl k q ex (map (gmul g) data) = option_map (map (gmul g)) (bspl k q ex data).
Proof.
  unfold bspline. destruct (negb (ltb q one)); [reflexivity|].
  assert (E : (if ex then bs_pad G (map (gmul g) data) else map (gmul g) data)
              = map (gmul g) (if ex then bs_pad G data else data)) by (destruct ex; [apply bs_pad_map|reflexivity]).
  rewrite E, windows4_map. set (ws := windows4 G (if ex then bs_pad G data else data)).
  set (fw := fun W : win G => match W with (a, b, c, d) => (g <*> a, g <*> b, g <*> c, g <*> d) end).
  assert (Hseg : forall W w, seg (fw W) w = g <*> seg W w) by (intros [[[a b] c] d] w; apply bs_seg_left).
  destruct ws as [|W0 ws']; [reflexivity|]. cbn [map option_map]. f_equal.
  rewrite map_app. cbn [map].
  change (fw W0 :: map fw ws') with (map fw (W0 :: ws')).
  rewrite last_map, Hseg. f_equal.
  generalize (W0 :: ws'). intros l. induction l as [|W l IH]; [reflexivity|].
  cbn [map flat_map]. rewrite map_app, IH. f_equal. rewrite map_map. apply map_ext. intros u. apply Hseg.
Qed.

(* ---- constant-twist motions T0 Exp(t xi) *)
Hypothesis one_param : forall a b x, gexp (ascale a x) <*> gexp (ascale b x) = gexp (ascale (a + b) x).

Lemma exp_inv a x : ginv (gexp (ascale a x)) = gexp (ascale (- a) x).
Proof.
  symmetry. apply inv_unique. rewrite one_param. replace (- a + a) with 0 by ring. apply exp_scale_zero.
Qed.

Definition twist_path (T0 : G) (xi : A) (N : nat) : list G :=
  map (fun j => T0 <*> gexp (ascale (IZR j) xi)) (zrange 0 N).

Lemma bs_seg_twist T0 xi (i : Z) w : glog (gexp xi) = xi ->
  seg (T0 <*> gexp (ascale (IZR i) xi), T0 <*> gexp (ascale (IZR (i + 1)) xi),
       T0 <*> gexp (ascale (IZR (i + 1 + 1)) xi), T0 <*> gexp (ascale (IZR (i + 1 + 1 + 1)) xi)) w
  = T0 <*> gexp (ascale (IZR i + (fst (fst w) + snd (fst w) + snd w)) xi).
Proof.
  intros Hle. destruct w as [[w0 w1] w2]. unfold bs_seg. cbn [fst snd].
  assert (Hd : forall j : Z, glog (ginv (T0 <*> gexp (ascale (IZR j) xi)) <*> (T0 <*> gexp (ascale (IZR (j + 1)) xi))) = xi).
  { intros j. rewrite rel_left, exp_inv, one_param, plus_IZR.
    replace (- IZR j + (IZR j + 1)) with 1 by ring. now rewrite scale_one. }
  rewrite !Hd, !one_param, mul_assoc, one_param. do 2 f_equal; ring.
Qed.

(* sample (i, j) of the spline through T0 Exp(n xi), n = 0..N-1, is T0 Exp((i + 1 + j q) xi);
   the final sample is T0 Exp((N - 2) xi) *)
Theorem bspline_constant_twist k q T0 xi N (d : G) : q < 1 -> (4 <= N)%nat -> glog (gexp xi) = xi ->
  exists out, bspl k q false (twist_path T0 xi N) = Some out /\
    (forall i j, (i + 3 < N)%nat -> (j < k)%nat ->
       nth (i * k + j) out d = T0 <*> gexp (ascale (INR i + 1 + INR j * q) xi)) /\
    nth ((N - 3) * k) out d = T0 <*> gexp (ascale (INR N - 2) xi).
Proof.
  intros Hq HN Hle.
  assert (HlenP : length (twist_path T0 xi N) = N) by (unfold twist_path; now rewrite map_length, length_zrange).
  rewrite bspline_unfold by assumption.
  pose proof (length_windows4 (twist_path T0 xi N)) as HL. rewrite HlenP in HL.
  destruct (windows4 G (twist_path T0 xi N)) as [|W0 ws] eqn:E; [cbn in HL; lia|]. rewrite <- E in *.
  eexists; split; [reflexivity|].
  assert (Hnth : forall n, (n < N)%nat -> nth n (twist_path T0 xi N) d = T0 <*> gexp (ascale (IZR (Z.of_nat n)) xi)).
  { intros n Hn. unfold twist_path. rewrite (nth_map_d _ _ _ _ 0%Z) by (now rewrite length_zrange).
    now rewrite nth_zrange. }
  assert (Hwin : forall i, (i + 3 < N)%nat -> forall w,
     seg (nth i (windows4 G (twist_path T0 xi N)) W0) w
     = T0 <*> gexp (ascale (INR i + (fst (fst w) + snd (fst w) + snd w)) xi)).
  { intros i Hi w. rewrite (nth_windows4 _ i d W0) by (rewrite HlenP; lia).
    rewrite !Hnth by lia.
    replace (Z.of_nat (i + 1)) with (Z.of_nat i + 1)%Z by lia.
    replace (Z.of_nat (i + 2)) with (Z.of_nat i + 1 + 1)%Z by lia.
    replace (Z.of_nat (i + 3)) with (Z.of_nat i + 1 + 1 + 1)%Z by lia.
    rewrite bs_seg_twist by assumption. now rewrite <- INR_IZR_INZ. }
  split.
  - intros i j Hi Hj. rewrite nth_bs_out_inner by lia. rewrite Hwin by assumption.
    rewrite bs_w_sum, <- INR_IZR_INZ. do 3 f_equal. ring.
  - rewrite <- HL, nth_bs_out_last, last_nth, HL, Hwin by lia.
    rewrite <- bs_w_1, bs_w_sum. do 3 f_equal. replace (N - 3 - 1)%nat with (N - 4)%nat by lia.
    rewrite minus_INR by lia. change (INR 4) with (1 + 1 + 1 + 1). ring.
Qed.

(* ---- extrapolate = True: the spline starts at the first and ends at the last pose *)
Hypothesis log_id : glog gid = azero.
Hypothesis scale_azero : forall c, ascale c azero = azero.
Hypothesis exp_azero : gexp azero = gid.

Theorem bspline_extrapolate_endpoints k q data (a : G) : q < 1 -> (1 <= k)%nat -> data <> [] ->
  exists out, bspl k q true data = Some out /\
    nth 0 out a = hd a data /\ List.last out a = List.last data a.
Proof.
  intros Hq Hk Hne. rewrite bspline_unfold by assumption.
  destruct data as [|x r]; [congruence|]. clear Hne.
  set (l := List.last (x :: r) x).
  set (P := bs_pad G (x :: r)).
  assert (HP : P = x :: x :: x :: r ++ [l; l]) by reflexivity.
  assert (HlenP : length P = (length r + 5)%nat) by (rewrite HP; cbn [length]; rewrite app_length; cbn; lia).
  pose proof (length_windows4 P) as HL. rewrite HlenP in HL.
  destruct (windows4 G P) as [|W0 ws] eqn:E; [cbn in HL; lia|]. rewrite <- E in *.
  eexists; split; [reflexivity|]. split.
  - replace 0%nat with (0 * k + 0)%nat by lia. rewrite nth_bs_out_inner by lia.
    rewrite (nth_windows4 P 0 x W0) by lia. rewrite HP. cbn [nth Nat.add Z.of_nat hd].
    rewrite bs_w_0. unfold bs_seg. rewrite inv_l, log_id, !scale_azero, exp_azero, exp_scale_zero.
    now rewrite !mul_id_r.
  - assert (Hlast : forall (o : list G) (z : G), List.last (o ++ [z]) a = z).
    { intros o z. induction o as [|y o IH]; [reflexivity|]. cbn [app]. destruct (o ++ [z]) eqn:E2.
      - destruct o; discriminate. - exact IH. }
    unfold bs_out. rewrite Hlast, last_nth, HL, (nth_windows4 P _ x W0) by lia.
    assert (Hl1 : nth (length r + 5 - 3 - 1 + 3) P x = l).
    { rewrite HP. replace (length r + 5 - 3 - 1 + 3)%nat with (S (S (S (length r + 1)))) by lia. cbn [nth].
      rewrite app_nth2 by lia. replace (length r + 1 - length r)%nat with 1%nat by lia. reflexivity. }
    assert (Hl2 : nth (length r + 5 - 3 - 1 + 2) P x = l).
    { rewrite HP. replace (length r + 5 - 3 - 1 + 2)%nat with (S (S (S (length r)))) by lia. cbn [nth].
      rewrite app_nth2 by lia. rewrite Nat.sub_diag. reflexivity. }
    assert (Hl3 : nth (length r + 5 - 3 - 1 + 1) P x = l).
    { rewrite HP. replace (length r + 5 - 3 - 1 + 1)%nat with (S (S (length r))) by lia.
      change (x :: x :: x :: r ++ [l; l]) with (x :: x :: (x :: r) ++ [l; l]). cbn [nth].
      rewrite app_nth1 by (cbn; lia). unfold l. rewrite (last_nth (x :: r)). cbn [length].
      replace (S (length r) - 1)%nat with (length r) by lia. reflexivity. }
    rewrite Hl1, Hl2, Hl3. set (y := nth (length r + 5 - 3 - 1) P x).
    rewrite bs_wend_val. unfold bs_seg.
    rewrite scale_one, exp_log, inv_l, log_id, !scale_azero, exp_azero, !mul_id_r.
    rewrite <- mul_assoc, inv_r, mul_id_l.
    unfold l. apply last_indep_ne. discriminate.
Qed.
End BsplineLaws.

(* ------------------------------------------------------------------ the hypotheses, bundled *)
Definition group_laws {G : Type} (gmul : G -> G -> G) (ginv : G -> G) (gid : G) : Prop :=
  (forall a b c, gmul (gmul a b) c = gmul a (gmul b c)) /\ (forall a, gmul gid a = a) /\
  (forall a, gmul a gid = a) /\ (forall a, gmul (ginv a) a = gid) /\ (forall a, gmul a (ginv a) = gid).
(* Exp/Log: Exp o Log = id on the group, scalar action with 1 x = x, Exp(0 x) = id, the
   one-parameter-subgroup law, and Log id = 0 with c 0 = 0, Exp 0 = id *)
Definition exp_log_laws {G A : Type} (gmul : G -> G -> G) (gid : G) (gexp : A -> G) (glog : G -> A)
    (ascale : R -> A -> A) (azero : A) : Prop :=
  (forall X, gexp (glog X) = X) /\ (forall x, ascale 1 x = x) /\ (forall x, gexp (ascale 0 x) = gid) /\
  (forall a b x, gmul (gexp (ascale a x)) (gexp (ascale b x)) = gexp (ascale (a + b) x)) /\
  glog gid = azero /\ (forall c, ascale c azero = azero) /\ gexp azero = gid.

Section Bundled.
Context {G A : Type} (gmul : G -> G -> G) (ginv : G -> G) (gid : G) (gexp : A -> G) (glog : G -> A)
  (ascale : R -> A -> A) (azero : A).
Hypothesis HG : group_laws gmul ginv gid.
Hypothesis HE : exp_log_laws gmul gid gexp glog ascale azero.
Local Notation seg := (bs_seg G A gmul ginv gexp glog ascale).
Local Notation bspl := (bspline G A gmul ginv gexp glog ascale).

Lemma bspline_continuous_b k q data (d : G) : q < 1 -> (4 <= length data)%nat -> (1 <= k)%nat ->
  exists out, bspl k q false data = Some out /\
    (forall i, (i + 4 < length data)%nat ->
       seg (nth i data d, nth (i + 1) data d, nth (i + 2) data d, nth (i + 3) data d) (bs_w 1)
       = nth ((i + 1) * k) out d) /\
    seg (nth (length data - 4) data d, nth (length data - 3) data d, nth (length data - 2) data d,
         nth (length data - 1) data d) (bs_w 1) = nth ((length data - 3) * k) out d.
Proof.
  destruct HG as (h1 & h2 & h3 & h4 & h5). destruct HE as (e1 & e2 & e3 & e4 & e5 & e6 & e7).
  now apply (bspline_continuous G A gmul ginv gid gexp glog ascale h1 h2 h3 h5 e1 e2 e3).
Qed.
Lemma bspline_left_equivariant_b k q ex g data :
  bspl k q ex (map (gmul g) data) = option_map (map (gmul g)) (bspl k q ex data).
Proof.
  destruct HG as (h1 & h2 & h3 & h4 & h5). now apply (bspline_left_equivariant G A gmul ginv gid gexp glog ascale h1 h2 h3 h4 h5).
Qed.
Lemma bspline_constant_twist_b k q T0 xi N (d : G) : q < 1 -> (4 <= N)%nat -> glog (gexp xi) = xi ->
  exists out, bspl k q false (twist_path G A gmul gexp ascale T0 xi N) = Some out /\
    (forall i j, (i + 3 < N)%nat -> (j < k)%nat ->
       nth (i * k + j) out d = gmul T0 (gexp (ascale (INR i + 1 + INR j * q) xi))) /\
    nth ((N - 3) * k) out d = gmul T0 (gexp (ascale (INR N - 2) xi)).
Proof.
  destruct HG as (h1 & h2 & h3 & h4 & h5). destruct HE as (e1 & e2 & e3 & e4 & e5 & e6 & e7).
  now apply (bspline_constant_twist G A gmul ginv gid gexp glog ascale h1 h2 h3 h4 h5 e2 e3 e4).
Qed.
Lemma bspline_extrapolate_endpoints_b k q data (a : G) : q < 1 -> (1 <= k)%nat -> data <> [] ->
  exists out, bspl k q true data = Some out /\ nth 0 out a = hd a data /\ List.last out a = List.last data a.
Proof.
  destruct HG as (h1 & h2 & h3 & h4 & h5). destruct HE as (e1 & e2 & e3 & e4 & e5 & e6 & e7).
  now apply (bspline_extrapolate_endpoints G A gmul ginv gid gexp glog ascale azero h1 h2 h3 h4 h5 e1 e2 e3 e5 e6 e7).
Qed.
End Bundled.

(* the hypotheses are satisfiable: the additive group of the reals with Exp = Log = id *)
Lemma laws_instance_R :
  group_laws Rplus Ropp 0 /\ exp_log_laws Rplus 0 (fun x : R => x) (fun x : R => x) Rmult 0 /\
  (forall xi : R, (fun x : R => x) ((fun x : R => x) xi) = xi).
Proof.
  unfold group_laws, exp_log_laws. repeat split; intros; ring.
Qed.

(* ... and by a non-commutative group: the Heisenberg group with its (global) exponential *)
Definition h3 := (R * R * R)%type.
Definition h3_mul (p r : h3) : h3 :=
  let '(a, b, c) := p in let '(a', b', c') := r in (a + a', b + b', c + c' + a * b').
Definition h3_inv (p : h3) : h3 := let '(a, b, c) := p in (- a, - b, - c + a * b).
Definition h3_exp (v : h3) : h3 := let '(x, y, z) := v in (x, y, z + x * y / 2).
Definition h3_log (p : h3) : h3 := let '(a, b, c) := p in (a, b, c - a * b / 2).
Definition h3_scale (s : R) (v : h3) : h3 := let '(x, y, z) := v in (s * x, s * y, s * z).
Lemma laws_instance_Heisenberg :
  group_laws h3_mul h3_inv (0, 0, 0) /\ exp_log_laws h3_mul (0, 0, 0) h3_exp h3_log h3_scale (0, 0, 0) /\
  (forall xi, h3_log (h3_exp xi) = xi) /\ (exists p r, h3_mul p r <> h3_mul r p).
Proof.
  unfold group_laws, exp_log_laws, h3_mul, h3_inv, h3_exp, h3_log, h3_scale.
  repeat split; intros; destruct_tuples; try (split_pairs; field).
  exists (1, 0, 0), (0, 1, 0). intros H. injection H as H. lra.
Qed.
