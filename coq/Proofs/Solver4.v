(* C10, direct solvers:
     - the oracle contracts of PINV and LSTSQ are satisfiable by concrete functions, including on
       rectangular and rank-deficient input (non-vacuity of pinv_wrapper / lstsq_wrapper);
     - the batched PINV clause (every column of every item is the minimum-norm least-squares solution);
     - Cholesky under the contract LAPACK actually offers (it speaks about SYMMETRIC input only, the
       routine reads one triangle): the wrapper theorem holds for symmetric A, and the failure clause
       is refuted for non-symmetric A (silent wrong answer). *)
From Coq Require Import Reals Lra List Arith Lia Bool ZArith Psatz.
Import ListNotations.
From PV Require Import Base.Num Base.RTac Model.Solver Proofs.Solver Proofs.Solver3.
Local Open Scope R_scope.
#[local] Remove Hints NumQ NumZ : typeclass_instances.

Lemma mat11_eq (a c : R) : a = c -> [[a]] = [[c]].
Proof. now intros ->. Qed.
Lemma mat21_eq (a b c d : R) : a = c -> b = d -> [[a]; [b]] = [[c]; [d]].
Proof. now intros -> ->. Qed.
Lemma mat12_eq (a b c d : R) : a = c -> b = d -> [[a; b]] = [[c; d]].
Proof. now intros -> ->. Qed.
Lemma mat22_eq (a b c d a' b' c' d' : R) : a = a' -> b = b' -> c = c' -> d = d' ->
  [[a; b]; [c; d]] = [[a'; b']; [c'; d']].
Proof. now intros -> -> -> ->. Qed.
Lemma wf_mat_2_1 (A : matR) : wf_mat 2 1 A -> exists a b, A = [[a]; [b]].
Proof.
  intros (H1 & H2). destruct A as [|r1 [|r2 [|]]]; try discriminate.
  inversion H2 as [|? ? E1 H3]; subst. inversion H3 as [|? ? E2 _]; subst.
  destruct r1 as [|a [|]]; try discriminate. destruct r2 as [|b [|]]; try discriminate. now exists a, b.
Qed.
Lemma wf_mat_2_2 (A : matR) : wf_mat 2 2 A -> exists a b c d, A = [[a; b]; [c; d]].
Proof.
  intros (H1 & H2). destruct A as [|r1 [|r2 [|]]]; try discriminate.
  inversion H2 as [|? ? E1 H3]; subst. inversion H3 as [|? ? E2 _]; subst.
  destruct r1 as [|a [|b [|]]]; try discriminate. destruct r2 as [|c [|d [|]]]; try discriminate. now exists a, b, c, d.
Qed.
Lemma sumsq_zero (a b : R) : a * a + b * b = 0 -> a = 0 /\ b = 0.
Proof. intros H. split; nra. Qed.

(* ------------------------------------------------------------------------------------------ *)
(* PINV: a function on 2 x 1 matrices (rectangular; rank 1 or rank 0) that satisfies the Penrose
   contract, in matrix form and hence in operator form *)
Definition pinv21 (c : pinv_cfg (F:=R)) (A : matR) : matR :=
  match A with
  | [[a]; [b]] => if Req_EM_T (a * a + b * b) 0 then [[0; 0]] else [[a / (a * a + b * b); b / (a * a + b * b)]]
  | _ => []
  end.
Lemma pinv21_penrose_mat c (A : matR) : wf_mat 2 1 A -> penrose_mat 2 1 A (pinv21 c A).
Proof.
  intros H. destruct (wf_mat_2_1 A H) as (a & b & ->). unfold pinv21.
  destruct (Req_EM_T (a * a + b * b) 0) as [E|E].
  - destruct (sumsq_zero a b E) as (-> & ->).
    split; [split; [reflexivity|repeat constructor]|].
    cbn. num_unfold. split; [apply mat21_eq; ring|]. split; [apply mat12_eq; ring|].
    split; [apply mat22_eq; ring|apply mat11_eq; ring].
  - split; [split; [reflexivity|repeat constructor]|].
    cbn. num_unfold. split; [apply mat21_eq; field; exact E|]. split; [apply mat12_eq; field; exact E|].
    split; [apply mat22_eq; field; exact E|apply mat11_eq; field; exact E].
Qed.
Lemma pinv21_contract : forall c A, wf_mat 2 1 A -> penrose 2 1 A (pinv21 c A).
Proof. intros c A H. apply penrose_mat_op; auto. now apply pinv21_penrose_mat. Qed.

(* batched PINV: every column of every item of the batched result is THE minimum-norm least-squares
   solution of its system *)
Theorem pinv_batch m n k (pinv : pinv_cfg (F:=R) -> matR -> matR) :
  (forall c A, wf_mat m n A -> penrose m n A (pinv c A)) ->
  forall c (As bs : list matR), Forall (wf_mat m n) As -> Forall (wf_mat m k) bs ->
  forall i, (i < length As)%nat -> (i < length bs)%nat -> forall j, (j < ncols (nth i bs []))%nat ->
  is_min_norm_lsq n (nth i As []) (col j (nth i bs [])) (col j (nth i (PINV_batch pinv c As bs) [])).
Proof.
  intros Hc c As bs HA Hb i Hi1 Hi2 j Hj. rewrite pinv_batch_item by assumption.
  rewrite Forall_forall in HA, Hb.
  apply (pinv_wrapper m n pinv Hc c _ _ k j); auto; [apply HA|apply Hb]; now apply nth_In.
Qed.

(* ------------------------------------------------------------------------------------------ *)
(* LSTSQ: a function on 1 x 1 systems (rank 1 or rank 0, any number of right-hand sides) that
   satisfies the contract of lstsq_wrapper *)
Definition lstsq11 (c : lstsq_cfg (F:=R)) (A b : matR) : xmat (F:=R) :=
  match A with
  | [[a]] => inject (map (map (fun v => if Req_EM_T a 0 then 0 else v / a)) b)
  | _ => []
  end.
Lemma lstsq11_contract : forall c A b k, wf_mat 1 1 A -> wf_mat 1 k b ->
  exists X, lstsq11 c A b = inject X /\ forall j, (j < ncols b)%nat -> is_lsq 1 A (col j b) (col j X).
Proof.
  intros c A b k HA Hb. destruct (wf_mat_1_1 A HA) as (a & ->).
  destruct Hb as (Hb1 & Hb2). destruct b as [|row [|]]; try discriminate.
  set (f := fun v : R => if Req_EM_T a 0 then 0 else v / a).
  exists [map f row]. split; [reflexivity|]. intros j Hj. cbn [ncols] in Hj.
  cbn [col map]. change (zero (F:=R)) with 0.
  replace (nth j (map f row) 0) with (f (nth j row 0)).
  2:{ rewrite (nth_indep (map f row) 0 (f 0)) by (now rewrite map_length). symmetry. apply map_nth. }
  set (beta := nth j row 0). split; [reflexivity|].
  intros y Hy. destruct y as [|t [|]]; try discriminate. unfold sqnorm. cbn. num_unfold. unfold f.
  destruct (Req_EM_T a 0) as [->|Ha].
  - apply Req_le. ring.
  - replace (a * (beta / a) + 0 - beta) with 0 by (field; exact Ha).
    pose proof (Rle_0_sqr (a * t + 0 - beta)) as Hsq. unfold Rsqr in Hsq. lra.
Qed.

(* ------------------------------------------------------------------------------------------ *)
(* Cholesky and non-symmetric input.
   LAPACK's potrf (behind torch.linalg.cholesky_ex) reads ONE triangle of A and never looks at the
   other: its answer on A is its answer on the symmetric matrix carried by that triangle.  The
   contract [chol_ex_contract] of Proofs/Solver.v ("A not SPD -> info <> 0" for EVERY square A) is
   therefore more than the routine offers on non-symmetric A.  What it offers: *)
Definition symmetric (n : nat) (A : matR) : Prop :=
  forall i j, (i < n)%nat -> (j < n)%nat -> entry A i j = entry A j i.
Definition chol_ex_contract_sym (n : nat) (cholesky_ex : bool -> matR -> xmat (F:=R) * Z) : Prop :=
  forall up A, wf_mat n n A -> symmetric n A ->
    (SPD n A -> exists L, cholesky_ex up A = (inject L, 0%Z) /\ chol_factor n up L /\ llt up L = A) /\
    (~ SPD n A -> snd (cholesky_ex up A) <> 0%Z).
Lemma chol_ex_contract_weaken n ce : chol_ex_contract n ce -> chol_ex_contract_sym n ce.
Proof. intros H up A Hwf _. now apply H. Qed.

(* the wrapper theorem needs no more than that, for symmetric A: returns the solution when A is
   positive definite, raises when it is not *)
Theorem cholesky_wrapper_sym n cholesky_ex cholesky_solve :
  chol_ex_contract_sym n cholesky_ex -> chol_solve_contract n cholesky_solve ->
  forall up (A b : matR) k, wf_mat n n A -> symmetric n A -> wf_mat n k b ->
  (SPD n A -> exists X, Cholesky cholesky_ex cholesky_solve up A b = Some (inject X) /\ wf_mat n k X /\ mm A X = b) /\
  (~ SPD n A -> Cholesky cholesky_ex cholesky_solve up A b = None).
Proof.
  intros Hex Hsolve up A b k HA Hs Hb. destruct (Hex up A HA Hs) as (Hok & Hfail). split.
  - intros HS. destruct (Hok HS) as (L & E & HL & HLA).
    destruct (Hsolve up b L k Hb HL) as (X & EX & HX & HXb).
    exists X. unfold Cholesky. rewrite E, has_nan_inject, strip_inject, EX. cbn. rewrite HLA in HXb. auto.
  - intros HS. specialize (Hfail HS). unfold Cholesky. destruct (cholesky_ex up A) as [L info]. cbn [snd] in Hfail.
    replace (info =? 0)%Z with false by (symmetry; now apply Z.eqb_neq). cbn. now rewrite orb_true_r.
Qed.

(* the symmetric matrix carried by the lower triangle *)
Definition lower_sym (n : nat) (A : matR) : matR :=
  map (fun i => map (fun j => if (j <=? i)%nat then entry A i j else entry A j i) (seq 0 n)) (seq 0 n).
(* x^T A x > 0 for x <> 0, symmetric or not *)
Definition PD (n : nat) (A : matR) : Prop :=
  forall x : vecR, length x = n -> ~ allzero x -> 0 < dotR x (mvR A x).

Definition Ans : matR := [[1; 5]; [0; 1]].
Definition bns : matR := [[1]; [1]].
Definition I2 : matR := [[1; 0]; [0; 1]].
Lemma I2_SPD : SPD 2 I2.
Proof. apply SPD_2x2; lra. Qed.
Lemma Ans_not_PD : ~ PD 2 Ans.
Proof.
  intros H. specialize (H [1; -1] eq_refl). cbn in H. num_unfold.
  assert (Hz : ~ allzero [1; -1]) by (intros Z; inversion Z; lra). specialize (H Hz). lra.
Qed.
Lemma lower_sym_2 (a b c d : R) : lower_sym 2 [[a; b]; [c; d]] = [[a; c]; [c; d]].
Proof. reflexivity. Qed.
Lemma symmetric_2 (a b c d : R) : symmetric 2 [[a; b]; [c; d]] -> b = c.
Proof. intros H. exact (H 0%nat 1%nat ltac:(lia) ltac:(lia)). Qed.

(* The failure clause fails on non-symmetric A under the contract LAPACK offers: from ANY oracles that
   satisfy the symmetric contract, the oracle that reads only the lower triangle (for lower = the
   default) still satisfies it, and with it forward() returns, for A = [[1,5],[0,1]] (x^T A x = -3
   at x = (1,-1): not positive definite in any sense) and b = (1,1), an X with A X <> b.
   Observed on the implementation: Cholesky()(A, b) returns (1, 1); A (1,1) - b = (5, 0). *)
Theorem cholesky_nonsymmetric_refuted cholesky_ex cholesky_solve :
  chol_ex_contract_sym 2 cholesky_ex -> chol_solve_contract 2 cholesky_solve ->
  exists cholesky_ex',
    chol_ex_contract_sym 2 cholesky_ex' /\
    (forall A, wf_mat 2 2 A -> cholesky_ex' false A = cholesky_ex' false (lower_sym 2 A)) /\
    wf_mat 2 2 Ans /\ ~ PD 2 Ans /\ ~ SPD 2 Ans /\
    exists X, Cholesky cholesky_ex' cholesky_solve false Ans bns = Some (inject X) /\
              X = [[1]; [1]] /\ mm Ans X <> bns.
Proof.
  intros Hex Hsolve.
  set (ce := fun (up : bool) (A : matR) => if up then cholesky_ex up A else cholesky_ex false (lower_sym 2 A)).
  exists ce. split; [|split; [|split; [|split; [exact Ans_not_PD|split]]]].
  - intros up A Hwf Hs. destruct (wf_mat_2_2 A Hwf) as (a & b & c & d & ->).
    pose proof (symmetric_2 a b c d Hs) as ->.
    unfold ce. destruct up; [now apply Hex|]. rewrite lower_sym_2. now apply Hex.
  - intros A Hwf. destruct (wf_mat_2_2 A Hwf) as (a & b & c & d & ->). unfold ce. now rewrite !lower_sym_2.
  - split; [reflexivity|repeat constructor].
  - intros (_ & _ & H). exact (Ans_not_PD H).
  - destruct (Hex false I2 (proj1 I2_SPD) (proj1 (proj2 I2_SPD))) as (Hok & _).
    destruct (Hok I2_SPD) as (L & E & HL & HLA).
    destruct (Hsolve false bns L 1%nat) as (X & EX & (HX1 & HX2) & HXb).
    { split; [reflexivity|repeat constructor]. }
    { exact HL. }
    rewrite HLA in HXb.
    destruct X as [|r1 [|r2 [|]]]; try discriminate. inversion HX2 as [|? ? Hr1 HX3]; subst.
    inversion HX3 as [|? ? Hr2 _]; subst.
    destruct r1 as [|x1 [|]]; try discriminate. destruct r2 as [|x2 [|]]; try discriminate.
    cbn in HXb. unfold bns in HXb. num_unfold. apply col2_inj in HXb. destruct HXb as (H1 & H2).
    assert (x1 = 1) by lra. assert (x2 = 1) by lra. subst x1 x2.
    exists [[1]; [1]]. split; [|split; [reflexivity|]].
    + unfold Cholesky, ce. change (lower_sym 2 Ans) with I2. rewrite E, has_nan_inject, strip_inject. cbn. now rewrite EX.
    + cbn. unfold bns. num_unfold. intros H. apply col2_inj in H. lra.
Qed.
(* the symmetric contract is satisfiable (1 x 1: every matrix is symmetric) *)
Lemma chol1_contract_sym : chol_ex_contract_sym 1 chol1.
Proof. apply chol_ex_contract_weaken. exact chol1_contract. Qed.

(* ------------------------------------------------------------------------------------------ *)
(* PINV: "THE" minimum-norm least-squares solution - it is unique, so the Penrose contract determines
   every column of PINV(A, b) completely *)
Theorem min_norm_lsq_unique m n (A P : matR) (b y : vecR) :
  length A = m -> penrose m n A P -> length b = m -> is_min_norm_lsq n A b y -> y = mvR P b.
Proof.
  intros HA HP Hb (Hy & Hymin).
  pose proof (penrose_min_norm_lsq m n A HA P b HP Hb) as (Hx & _).
  destruct HP as (HPl & P1 & P2 & P3 & P4).
  set (x := mvR P b) in *. assert (Hlx : length x = n) by (unfold x; now rewrite mv_length).
  assert (Ho : forall v : vecR, length v = n -> dotR (mvR A v) (vsubR (mvR A x) b) = 0).
  { intros v Hv. rewrite dot_sub_r by (rewrite mv_length; lia). unfold x.
    rewrite P3 by (rewrite ?mv_length; lia). rewrite P1 by auto. lra. }
  pose proof (lsq_same_image m n A HA b x y Hb Hlx Ho Hy) as Himg.
  specialize (Hymin x Hx). destruct Hy as (Hly & _).
  set (d := vsubR y x). assert (Hd : length d = n) by (unfold d; rewrite vsub_length; lia).
  assert (HAd : allzero (mvR A d)).
  { unfold d. rewrite mv_sub by lia. rewrite Himg. apply vsub_self_allzero. }
  assert (Hxd : dotR x d = 0).
  { assert (Ex : x = mvR P (mvR A x)) by (unfold x; now rewrite P2).
    rewrite Ex. rewrite <- P4 by auto. apply dot_zero_r. now apply mv_zero. }
  unfold sqnorm in Hymin. rewrite <- (vadd_vsub_cancel x y) in Hymin by lia. fold d in Hymin.
  rewrite dot_add_l, !dot_add_r in Hymin by lia. rewrite (dot_comm d x), Hxd in Hymin.
  assert (Z : dotR d d = 0) by (pose proof (dot_self_nonneg d); lra).
  apply dot_self_zero in Z. apply vsub_allzero_eq; [lia|exact Z].
Qed.
Theorem pinv_wrapper_unique m n (pinv : pinv_cfg (F:=R) -> matR -> matR) :
  (forall c A, wf_mat m n A -> penrose m n A (pinv c A)) ->
  forall c (A b : matR) k j y, wf_mat m n A -> wf_mat m k b -> (j < ncols b)%nat ->
  is_min_norm_lsq n A (col j b) y -> y = col j (PINV pinv c A b).
Proof.
  intros Hc c A b k j y HA Hb Hj Hy. unfold PINV. rewrite col_mm by auto.
  apply (min_norm_lsq_unique m n A (pinv c A)); [apply HA|now apply Hc| |exact Hy].
  unfold col. rewrite map_length. apply Hb.
Qed.

(* ------------------------------------------------------------------------------------------ *)
(* Pointwise forms: the wrapper theorems need the oracle contracts only AT THE CALL that is made (this
   is how the correspondence measures them: on the answers torch gave for the sampled inputs), not for
   every matrix. *)
Theorem pinv_wrapper_pointwise m n (pinv : pinv_cfg (F:=R) -> matR -> matR) c (A b : matR) k j :
  wf_mat m n A -> wf_mat m k b -> (j < ncols b)%nat -> penrose m n A (pinv c A) ->
  is_min_norm_lsq n A (col j b) (col j (PINV pinv c A b)) /\
  forall y, is_min_norm_lsq n A (col j b) y -> y = col j (PINV pinv c A b).
Proof.
  intros HA Hb Hj HP. unfold PINV. rewrite col_mm by auto.
  assert (Hl : length (col j b) = m) by (unfold col; rewrite map_length; apply Hb).
  split.
  - apply penrose_min_norm_lsq with (m := m); [apply HA|exact HP|exact Hl].
  - intros y Hy. apply (min_norm_lsq_unique m n A (pinv c A)); [apply HA|exact HP|exact Hl|exact Hy].
Qed.
Theorem lstsq_wrapper_pointwise (lstsq : lstsq_cfg (F:=R) -> matR -> matR -> xmat (F:=R)) c (A b X : matR) :
  lstsq c A b = inject X -> LSTSQ lstsq c A b = Some X.
Proof. intros E. unfold LSTSQ. now rewrite E, has_nan_inject, strip_inject. Qed.
Theorem cholesky_wrapper_pointwise n cholesky_ex cholesky_solve up (A b : matR) k :
  (SPD n A -> exists L, cholesky_ex up A = (inject L, 0%Z) /\ llt up L = A /\
                exists X, cholesky_solve up b L = inject X /\ wf_mat n k X /\ mm (llt up L) X = b) ->
  (~ SPD n A -> snd (cholesky_ex up A) <> 0%Z) ->
  (SPD n A -> exists X, Cholesky cholesky_ex cholesky_solve up A b = Some (inject X) /\ wf_mat n k X /\ mm A X = b) /\
  (~ SPD n A -> Cholesky cholesky_ex cholesky_solve up A b = None).
Proof.
  intros Hok Hfail. split.
  - intros HS. destruct (Hok HS) as (L & E & HLA & X & EX & HX & HXb).
    exists X. unfold Cholesky. rewrite E, has_nan_inject, strip_inject, EX. cbn. rewrite HLA in HXb. auto.
  - intros HS. specialize (Hfail HS). unfold Cholesky. destruct (cholesky_ex up A) as [L info]. cbn [snd] in Hfail.
    replace (info =? 0)%Z with false by (symmetry; now apply Z.eqb_neq). cbn. now rewrite orb_true_r.
Qed.
