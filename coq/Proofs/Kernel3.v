(* C09, third file: the quantities the correctors preserve ARE derivatives of the robust loss.
   - for any differentiable residual function through (R, J), d/dtheta_l sum_i rho(|R_i|^2)
     = 2 sum_i rho'(|R_i|^2) (J_i^T R_i)_l = 2 (J'^T R')_l        (FastTriggs and Triggs)
   - for the linearised residual R + J theta, the derivative of the robust gradient in direction m is
     sum_i rho' J^T J + 2 rho'' (J^T R)(J^T R)^T = (J'^T J')_lm of Triggs on fully masked tensors
   - on any tensor Triggs keeps exactly the positive part of the curvature:
     J'^T J' = sum_i rho' J^T J + 2 max(0, rho'') (J^T R)(J^T R)^T. *)
From Coq Require Import Reals Lra Psatz List Lia Bool.
From Coquelicot Require Import Coquelicot.
Import ListNotations.
From PV Require Import Base.Num Base.RTac Model.Kernel Proofs.Kernel.
Local Open Scope R_scope.
#[local] Remove Hints NumQ NumZ : typeclass_instances.

(* ====================================================================== residual paths *)
(* a residual block moving with a scalar parameter t: one function per component *)
Definition path_at (path : list (R -> R)) (t : R) : list R := map (fun f => f t) path.
(* ... passing through R_i at t = 0 with velocity (column l of J_i) *)
Definition tangent_to (l : nat) (b : blockR) (path : list (R -> R)) : Prop :=
  path_at path 0 = fst b /\ Forall2 (fun f c => is_derive f 0 c) path (col (snd b) l).
(* the robust loss sum_i rho(|R_i|^2) of a list of residual vectors, and along paths *)
Definition robust_loss (rho : R -> R) (Rs : list (list R)) : R :=
  fold_right (fun Rv acc => rho (dot Rv Rv) + acc) 0 Rs.
Definition loss_along (rho : R -> R) (paths : list (list (R -> R))) (t : R) : R :=
  robust_loss rho (map (fun path => path_at path t) paths).

Lemma dot_path_derive (path : list (R -> R)) (cs : list R) (t0 : R) :
  Forall2 (fun f c => is_derive f t0 c) path cs ->
  is_derive (fun t => dot (path_at path t) (path_at path t)) t0 (2 * dot cs (path_at path t0)).
Proof.
  intros H. induction H as [|f c path cs Hf _ IH].
  - cbn. rnum. evar_last; [apply @is_derive_const|]. cbn. ring.
  - change (is_derive (fun t => f t * f t + dot (path_at path t) (path_at path t)) t0
              (2 * (c * f t0 + dot cs (path_at path t0)))).
    evar_last.
    + apply (is_derive_plus (fun t => f t * f t) (fun t => dot (path_at path t) (path_at path t))).
      * apply (is_derive_mult f f t0 c c Hf Hf). exact Rmult_comm.
      * exact IH.
    + unfold plus, mult. cbn. ring.
Qed.

Lemma loss_along_derive (rho rho1 : R -> R) (l : nat) (bs : list blockR) (paths : list (list (R -> R))) :
  (forall x, 0 <= x -> is_derive rho x (rho1 x)) -> Forall2 (tangent_to l) bs paths ->
  is_derive (loss_along rho paths) 0 (2 * robust_grad rho1 bs l).
Proof.
  intros Hc H. induction H as [|b path bs paths [H0 Hd] _ IH].
  - unfold loss_along, robust_grad. cbn. evar_last; [apply @is_derive_const|]. cbn. ring.
  - change (is_derive (fun t => rho (dot (path_at path t) (path_at path t)) + loss_along rho paths t) 0
              (2 * (rho1 (sqnorm b) * JtR b l + robust_grad rho1 bs l))).
    pose proof (dot_path_derive path (col (snd b) l) 0 Hd) as Hdot.
    evar_last.
    + apply (is_derive_plus (fun t => rho (dot (path_at path t) (path_at path t))) (loss_along rho paths)).
      * apply (is_derive_comp rho (fun t => dot (path_at path t) (path_at path t))); [|exact Hdot].
        apply Hc. apply dot_self_nonneg.
      * exact IH.
    + rewrite H0. unfold plus, scal, JtR, sqnorm. cbn. unfold mult. cbn. ring.
Qed.

(* the linear path R + t c *)
Definition lin_path (Rv cs : list R) : list (R -> R) :=
  map (fun rc : R * R => fun t => fst rc + t * snd rc) (combine Rv cs).

Lemma lin_path_at_0 : forall Rv cs : list R, length cs = length Rv -> path_at (lin_path Rv cs) 0 = Rv.
Proof.
  induction Rv as [|r Rv IH]; intros [|c cs] H; cbn in *; try discriminate; auto.
  unfold path_at, lin_path in IH. rewrite IH by lia. f_equal. ring.
Qed.
Lemma lin_path_derive (t0 : R) : forall Rv cs : list R, length cs = length Rv ->
  Forall2 (fun f c => is_derive f t0 c) (lin_path Rv cs) cs.
Proof.
  induction Rv as [|r Rv IH]; intros [|c cs] H; cbn in *; try discriminate; constructor.
  - auto_derive; auto. ring.
  - apply IH. lia.
Qed.
Lemma lin_path_tangent (p l : nat) (b : blockR) : wf_block p b ->
  tangent_to l b (lin_path (fst b) (col (snd b) l)).
Proof.
  intros [Hlen _]. split.
  - apply lin_path_at_0. now rewrite col_length.
  - apply lin_path_derive. now rewrite col_length.
Qed.
Lemma tangent_paths_exist (p l : nat) (bs : list blockR) : Forall (wf_block p) bs ->
  Forall2 (tangent_to l) bs (map (fun b => lin_path (fst b) (col (snd b) l)) bs).
Proof.
  intros H. induction H as [|b bs Hb _ IH]; cbn; constructor; auto. now apply (lin_path_tangent p).
Qed.

(* dot products with R + s c *)
Lemma dot_lin_path (s : R) : forall a Rv cs : list R, length cs = length Rv ->
  dot a (path_at (lin_path Rv cs) s) = dot a Rv + s * dot a cs.
Proof.
  induction a as [|x a IH]; intros [|r Rv] [|c cs] H; cbn in *; try discriminate; rnum; try ring.
  unfold path_at, lin_path in IH. rewrite IH by lia. ring.
Qed.

(* ====================================================================== corrector statements *)
Lemma fasttriggs_descent_is_loss_gradient (rho rho1 : R -> R) (l : nat) (bs bs' : list blockR)
    (paths : list (list (R -> R))) :
  (forall x, 0 <= x -> is_derive rho x (rho1 x)) -> fasttriggs rho1 bs = Some bs' ->
  Forall2 (tangent_to l) bs paths ->
  is_derive (loss_along rho paths) 0 (2 * bsum (fun b => JtR b l) bs').
Proof.
  intros Hc H Hp. rewrite (fasttriggs_grad rho1 bs bs' H). now apply loss_along_derive.
Qed.
Lemma triggs_descent_is_loss_gradient (rho rho1 rho2 : R -> R) (p l : nat) (bs bs' : list blockR)
    (paths : list (list (R -> R))) :
  (forall x, 0 <= x -> is_derive rho x (rho1 x)) -> triggs rho1 rho2 bs = Some bs' ->
  Forall (wf_block p) bs -> (l < p)%nat -> Forall2 (tangent_to l) bs paths ->
  is_derive (loss_along rho paths) 0 (2 * bsum (fun b => JtR b l) bs').
Proof.
  intros Hc H Hwf Hl Hp. rewrite (triggs_grad rho1 rho2 p bs bs' H Hwf l Hl). now apply loss_along_derive.
Qed.

(* ====================================================================== second order *)
(* the block moved by s along parameter m of the linearised model: (R + s J e_m, J) *)
Definition shift_block (m : nat) (s : R) (b : blockR) : blockR :=
  (path_at (lin_path (fst b) (col (snd b) m)) s, snd b).
Definition full_hess (rho1 rho2 : R -> R) (bs : list blockR) (l m : nat) : R :=
  fold_right (fun b acc =>
      rho1 (sqnorm b) * JtJ b l m + 2 * rho2 (sqnorm b) * (JtR b l * JtR b m) + acc) 0 bs.

Lemma shift_block_0 p m b : wf_block p b -> shift_block m 0 b = b.
Proof.
  intros [Hlen _]. unfold shift_block. rewrite lin_path_at_0 by (now rewrite col_length). now destruct b.
Qed.
Lemma shift_block_wf p m s b : wf_block p b -> wf_block p (shift_block m s b).
Proof.
  intros [Hlen HJ]. split; [|exact HJ]. unfold shift_block. cbn [fst snd].
  unfold path_at, lin_path. rewrite !map_length, combine_length, col_length. lia.
Qed.

Lemma robust_grad_block_derive (rho1 rho2 : R -> R) (p l m : nat) (b : blockR) : wf_block p b ->
  is_derive rho1 (sqnorm b) (rho2 (sqnorm b)) ->
  is_derive (fun s => rho1 (sqnorm (shift_block m s b)) * JtR (shift_block m s b) l) 0
            (rho1 (sqnorm b) * JtJ b l m + 2 * rho2 (sqnorm b) * (JtR b l * JtR b m)).
Proof.
  intros [Hlen HJ] Hd. destruct b as [Rv J]. cbn [fst snd] in *.
  assert (Hc : length (col J m) = length Rv) by (now rewrite col_length).
  unfold shift_block, sqnorm, JtR, JtJ. cbn [fst snd].
  pose proof (dot_path_derive (lin_path Rv (col J m)) (col J m) 0 (lin_path_derive 0 Rv (col J m) Hc)) as Hdot.
  rewrite lin_path_at_0 in Hdot by auto.
  evar_last.
  - apply (is_derive_mult (fun s => rho1 (dot (path_at (lin_path Rv (col J m)) s) (path_at (lin_path Rv (col J m)) s)))
             (fun s => dot (col J l) (path_at (lin_path Rv (col J m)) s)) 0).
    + apply (is_derive_comp rho1 (fun s => dot (path_at (lin_path Rv (col J m)) s) (path_at (lin_path Rv (col J m)) s))).
      * rewrite lin_path_at_0 by auto. exact Hd.
      * exact Hdot.
    + apply (is_derive_ext (fun s => dot (col J l) Rv + s * dot (col J l) (col J m))).
      * intros s. now rewrite dot_lin_path.
      * auto_derive; [exact I|]. reflexivity.
    + exact Rmult_comm.
  - rewrite lin_path_at_0 by auto. unfold plus, mult, scal. cbn. unfold mult. cbn. ring.
Qed.

Lemma robust_grad_derive (rho1 rho2 : R -> R) (p l m : nat) (bs : list blockR) :
  Forall (wf_block p) bs -> (forall b, In b bs -> is_derive rho1 (sqnorm b) (rho2 (sqnorm b))) ->
  is_derive (fun s => robust_grad rho1 (map (shift_block m s) bs) l) 0 (full_hess rho1 rho2 bs l m).
Proof.
  intros Hwf. induction Hwf as [|b bs Hb _ IH]; intros Hd.
  - unfold robust_grad, full_hess. cbn. apply @is_derive_const.
  - change (is_derive (fun s => rho1 (sqnorm (shift_block m s b)) * JtR (shift_block m s b) l
                                + robust_grad rho1 (map (shift_block m s) bs) l) 0
              (rho1 (sqnorm b) * JtJ b l m + 2 * rho2 (sqnorm b) * (JtR b l * JtR b m)
               + full_hess rho1 rho2 bs l m)).
    apply (is_derive_plus (fun s => rho1 (sqnorm (shift_block m s b)) * JtR (shift_block m s b) l)
             (fun s => robust_grad rho1 (map (shift_block m s) bs) l)).
    + apply (robust_grad_block_derive rho1 rho2 p); auto. apply Hd. cbn; auto.
    + apply IH. intros b0 Hin. apply Hd. cbn; auto.
Qed.

(* R_i = 0 makes J_i^T R_i vanish, so the mask's `x == 0` clause drops nothing *)
Lemma dot_zeros_r : forall a v : list R, Forall (fun r => r = 0) v -> dot a v = 0.
Proof.
  induction a as [|x a IH]; intros v H; [reflexivity|]. destruct H as [|r v Hr Hv]; [reflexivity|].
  cbn [dot]. rewrite IH by auto. subst r. rnum. ring.
Qed.
Lemma JtR_zero_residual (b : blockR) l : sqnorm b = 0 -> JtR b l = 0.
Proof. intros H. unfold JtR. apply dot_zeros_r. now apply dot_self_zero. Qed.

(* Triggs keeps exactly the positive part of the curvature, on every tensor (mixed regimes included) *)
Lemma triggs_hess_rhs_positive_part (rho1 rho2 : R -> R) (bs : list blockR) l m :
  triggs_hess_rhs rho1 rho2 bs l m = full_hess rho1 (fun x => Rmax 0 (rho2 x)) bs l m.
Proof.
  unfold triggs_hess_rhs, full_hess. induction bs as [|b bs IH]; cbn [fold_right]; [reflexivity|].
  rewrite IH. f_equal. f_equal.
  destruct (triggs_mask (sqnorm b) (rho2 (sqnorm b))) eqn:HM.
  - apply triggs_mask_true in HM as [_ H2]. rewrite Rmax_right by lra. reflexivity.
  - apply triggs_mask_false in HM as [H0|H2].
    + rewrite (JtR_zero_residual b l H0). ring.
    + rewrite Rmax_left by lra. ring.
Qed.
Lemma triggs_hess_positive_part (rho1 rho2 : R -> R) (p : nat) (bs bs' : list blockR) :
  triggs rho1 rho2 bs = Some bs' -> Forall (wf_block p) bs ->
  forall l m, (l < p)%nat -> (m < p)%nat ->
  bsum (fun b => JtJ b l m) bs' = full_hess rho1 (fun x => Rmax 0 (rho2 x)) bs l m.
Proof.
  intros H Hwf l m Hl Hm. rewrite (triggs_hess rho1 rho2 p bs bs' H Hwf l m Hl Hm).
  apply triggs_hess_rhs_positive_part.
Qed.

(* hence wherever rho'' >= 0 on all blocks, J'^T J' is the derivative of the robust gradient of the
   linearised problem (half the Hessian of the linearised robust loss) *)
Lemma full_hess_ext (rho1 f g : R -> R) (bs : list blockR) l m :
  (forall b, In b bs -> f (sqnorm b) = g (sqnorm b)) -> full_hess rho1 f bs l m = full_hess rho1 g bs l m.
Proof.
  intros H. unfold full_hess. induction bs as [|b bs IH]; cbn [fold_right]; [reflexivity|].
  rewrite IH by (intros; apply H; cbn; auto). rewrite (H b) by (cbn; auto). reflexivity.
Qed.
Lemma triggs_hess_is_gradient_derivative (rho1 rho2 : R -> R) (p : nat) (bs bs' : list blockR) :
  triggs rho1 rho2 bs = Some bs' -> Forall (wf_block p) bs ->
  (forall b, In b bs -> 0 <= rho2 (sqnorm b)) ->
  (forall b, In b bs -> is_derive rho1 (sqnorm b) (rho2 (sqnorm b))) ->
  forall l m, (l < p)%nat -> (m < p)%nat ->
  is_derive (fun s => robust_grad rho1 (map (shift_block m s) bs) l) 0 (bsum (fun b => JtJ b l m) bs').
Proof.
  intros H Hwf Hpos Hd l m Hl Hm.
  rewrite (triggs_hess_positive_part rho1 rho2 p bs bs' H Hwf l m Hl Hm).
  rewrite (full_hess_ext rho1 (fun x => Rmax 0 (rho2 x)) rho2 bs l m).
  - now apply (robust_grad_derive rho1 rho2 p).
  - intros b Hb. apply Rmax_right. now apply Hpos.
Qed.

(* the same in terms of the loss itself: L(t, s) = sum_i rho(|R_i + s J_i e_m + t J_i e_l|^2);
   d/dt L(0, 0) = 2 (J'^T R')_l   and   d/ds d/dt L (0, 0) = 2 (J'^T J')_lm *)
Definition lin2_loss (rho : R -> R) (bs : list blockR) (l m : nat) (t s : R) : R :=
  loss_along rho (map (fun b => lin_path (fst (shift_block m s b)) (col (snd b) l)) bs) t.

Lemma lin2_loss_dt (rho rho1 : R -> R) (p l m : nat) (bs : list blockR) (s : R) :
  (forall x, 0 <= x -> is_derive rho x (rho1 x)) -> Forall (wf_block p) bs ->
  is_derive (fun t => lin2_loss rho bs l m t s) 0 (2 * robust_grad rho1 (map (shift_block m s) bs) l).
Proof.
  intros Hc Hwf. unfold lin2_loss.
  pose proof (tangent_paths_exist p l (map (shift_block m s) bs)) as HT.
  rewrite map_map in HT. cbn [shift_block snd] in HT.
  apply (loss_along_derive rho rho1 l (map (shift_block m s) bs)); auto.
  apply HT. apply Forall_forall. intros b' Hin. apply in_map_iff in Hin as [b [<- Hb]].
  apply shift_block_wf. rewrite Forall_forall in Hwf. auto.
Qed.

Lemma triggs_is_newton_on_linearised_loss (rho rho1 rho2 : R -> R) (p : nat) (bs bs' : list blockR) :
  (forall x, 0 <= x -> is_derive rho x (rho1 x)) ->
  triggs rho1 rho2 bs = Some bs' -> Forall (wf_block p) bs ->
  (forall b, In b bs -> 0 <= rho2 (sqnorm b)) ->
  (forall b, In b bs -> is_derive rho1 (sqnorm b) (rho2 (sqnorm b))) ->
  forall l m, (l < p)%nat -> (m < p)%nat ->
  is_derive (fun t => lin2_loss rho bs l m t 0) 0 (2 * bsum (fun b => JtR b l) bs') /\
  is_derive (fun s => Derive (fun t => lin2_loss rho bs l m t s) 0) 0 (2 * bsum (fun b => JtJ b l m) bs').
Proof.
  intros Hc H Hwf Hpos Hd l m Hl Hm. split.
  - pose proof (lin2_loss_dt rho rho1 p l m bs 0 Hc Hwf) as H0.
    rewrite (triggs_grad rho1 rho2 p bs bs' H Hwf l Hl).
    replace (map (shift_block m 0) bs) with bs in H0; [exact H0|].
    clear - Hwf. induction Hwf as [|b bs Hb _ IH]; cbn; [reflexivity|].
    now rewrite (shift_block_0 p m b Hb), <- IH.
  - apply (is_derive_ext (fun s => 2 * robust_grad rho1 (map (shift_block m s) bs) l)).
    + intros s. symmetry. apply is_derive_unique. now apply (lin2_loss_dt rho rho1 p).
    + pose proof (triggs_hess_is_gradient_derivative rho1 rho2 p bs bs' H Hwf Hpos Hd l m Hl Hm) as HG.
      evar_last; [apply (is_derive_scal _ 0 2 _ HG)|]. reflexivity.
Qed.
