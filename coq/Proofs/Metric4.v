(* C19 (ape, part 3): the hypothesis "distinct time stamps" of the zero-statistics theorems is needed.
   StampedSE3 accepts repeated stamps (it only asserts that they are ascending); the association
   (matching_time_indices: FIRST index of the closest stamp) then pairs both poses of a repeated stamp
   with the first one, and ape of the trajectory against itself is not zero. *)
From Coq Require Import Reals Lra Psatz List ZArith Lia.
Import ListNotations.
From PV Require Import Base.Num Base.RTac Base.ListAux Model.LieGroup Model.LieExp Model.LieLog Model.Spline Model.Metric
  Proofs.LieGroup Proofs.LieExp Proofs.LieLog Proofs.Spline Proofs.Metric.
Local Open Scope R_scope.
#[local] Remove Hints NumQ NumZ : typeclass_instances.

Ltac to_R := cbn [add sub mul div opp zero one ofZ ltb leb eqb NumR] in *.
Ltac dec_R :=
  repeat match goal with
  | |- context [Rltb ?a ?b] =>
      first [replace (Rltb a b) with true by (symmetry; apply Rltb_true; lra)
            |replace (Rltb a b) with false by (symmetry; apply Rltb_false; lra)]
  | |- context [Rleb ?a ?b] =>
      first [replace (Rleb a b) with true by (symmetry; apply Rleb_true; lra)
            |replace (Rleb a b) with false by (symmetry; apply Rleb_false; lra)]
  end.

Definition poseA : se3R := SE3_id.
Definition poseB1 : se3R := ((1, 0, 0), SO3_id).
Lemma dup_stamped : mk_stamped (Some [0; 0]) [poseA; poseB1] = Some [(0, poseA); (0, poseB1)].
Proof. unfold mk_stamped. cbn [length Nat.eqb negb sortedb]. to_R. dec_R. reflexivity. Qed.
Lemma dup_matching : matching [0; 0] [0; 0] 1 (- 0) = [(0, 0); (1, 0)]%nat.
Proof.
  unfold matching. cbn [map combine seq length flat_map fst snd argmin argmin_from app]. unfold absF. to_R.
  dec_R. cbn [app]. dec_R. reflexivity.
Qed.
Lemma dup_associate : associate [(0, poseA); (0, poseB1)] [(0, poseA); (0, poseB1)] 1 0 = Some ([poseA; poseA], [poseA; poseB1]).
Proof.
  unfold associate. cbn [length Nat.ltb Nat.leb map fst snd]. to_R. rewrite dup_matching. reflexivity.
Qed.

Lemma dup_errors angleF rad2degF :
  errors sqrt angleF rad2degF true Etrans [poseA; poseA] [poseA; poseB1] = [0; 1].
Proof.
  unfold errors, ape_error, vnormS, v3_l. cbn [map combine fst snd]. rewrite !sumsq3.
  unfold poseA, poseB1, SE3_id. cbn [fst snd]. lie_unfold.
  replace ((0 - 0) * (0 - 0) + (0 - 0) * (0 - 0) + (0 - 0) * (0 - 0)) with 0 by ring.
  replace ((1 - 0) * (1 - 0) + (0 - 0) * (0 - 0) + (0 - 0) * (0 - 0)) with 1 by ring.
  now rewrite sqrt_0, sqrt_1.
Qed.

Theorem ape_identical_duplicate_stamps_refuted (angleF : @mat3 R -> R) (rad2degF : R -> R)
    (svdstf : list vec3R -> list vec3R -> bool -> sim3R) :
  exists (st : option (list R)) (P : list se3R) (tr : list (R * se3R)) (s : @stats R),
    mk_stamped st P = Some tr /\ Forall valid_SE3 P /\
    ape sqrt angleF rad2degF svdstf st P st P Etrans 1 0 false false false = Some s /\ st_max s = 1 /\ ~ zero_stats s.
Proof.
  exists (Some [0; 0]), [poseA; poseB1], [(0, poseA); (0, poseB1)].
  assert (HA : valid_SE3 poseA) by apply unitq_id. assert (HB : valid_SE3 poseB1) by apply unitq_id.
  unfold ape. rewrite dup_stamped, dup_associate. cbn [trans_of orb]. rewrite map_align_id, dup_errors.
  unfold compute_stats. cbn [map]. rewrite !absF_R, Rabs_R0, Rabs_R1.
  eexists. split; [reflexivity|]. split; [repeat constructor; assumption|]. split; [reflexivity|].
  assert (Hmax : lmax 0 [1] = 1).
  { unfold lmax, maxF. cbn [fold_left]. to_R. dec_R. reflexivity. }
  cbn [st_max]. split; [exact Hmax|]. intros (Hz & _). cbn [st_max] in Hz. rewrite Hmax in Hz. lra.
Qed.
