(* C08: the LM accept/reject loop — true loss, monotone unless exhausted, restoration, solver raise,
   trial bound, cache invariant over any number of calls; strategy transitions and bounds. *)
From Coq Require Import Reals Lra List Arith Lia Bool.
Import ListNotations.
From PV Require Import Base.Num Model.LM.
Local Open Scope R_scope.
#[local] Remove Hints NumQ NumZ : typeclass_instances.

Section LMProofs.
Variables Theta Delta : Type.
Variable loss : Theta -> R.
Variable retract : Theta -> Delta -> Theta.
Variable negd : Delta -> Delta.
Variable pred : Theta -> Delta -> R.
Variable solve : nat -> option Delta.
Hypothesis retract_undo : forall t d, retract (retract t d) (negd d) = t.

Notation ostR := (ost (F:=R) Theta).
Notation body := (lm_body Theta Delta loss retract negd pred solve).
Notation loop := (lm_loop Theta Delta loss retract negd pred solve).
Notation step := (lm_step Theta Delta loss retract negd pred solve).
Notation gstep := (gn_step Theta Delta loss retract solve).

Definition cache_ok (s : ostR) : Prop :=
  match cached s with Some l => l = loss (th s) | None => True end.
Lemma cur_loss_true s : cache_ok s -> cur_loss Theta loss s = loss (th s).
Proof. unfold cache_ok, cur_loss. destruct (cached s); auto. Qed.

(* a solver that raises leaves everything as it was before that trial and ends the loop *)
Lemma body_solver_raises c reject th0 (s : ostR) l :
  solve (nsolve s) = None ->
  exists s', body c reject th0 s l = (s', l, false) /\ th s' = th s /\ cached s' = cached s /\ last s' = last s /\
             rej s' = rej s /\ ss s' = ss s.
Proof. intros H. unfold lm_body. rewrite H. eexists. split; [reflexivity|]. cbn. repeat split. Qed.

(* a rejected trial restores the parameters and the loss *)
Lemma body_rejected c reject th0 (s : ostR) l s' l' :
  body c reject th0 s l = (s', l', true) -> th s' = th s /\ l' = last s /\ rej s' = S (rej s) /\ nsolve s' = S (nsolve s).
Proof.
  unfold lm_body. destruct (solve (nsolve s)) as [d|]; [|intros H; inversion H].
  destruct (_ && _); intros H; inversion H; subst; cbn. rewrite retract_undo. auto.
Qed.

(* loop invariant: all trials so far were rejected *)
Definition Inv (reject : nat) (l0 : R) (th0 : Theta) (n0 : nat) (s : ostR) (l : R) : Prop :=
  last s = l0 /\ th s = th0 /\ l = l0 /\ l0 = loss th0 /\ (rej s <= reject)%nat /\ nsolve s = (n0 + rej s)%nat.

Definition Post (reject : nat) (l0 : R) (th0 : Theta) (n0 : nat) (s' : ostR) (l' : R) : Prop :=
  l' = loss (th s') /\                                      (* the true loss of what is left behind *)
  (l' <= l0 \/ rej s' = reject) /\                          (* never worse unless rejections exhausted *)
  (nsolve s' <= n0 + S reject)%nat /\ (n0 <= nsolve s')%nat /\   (* at most reject+1 trials *)
  last s' = l0 /\ (rej s' <= reject)%nat /\
  ((th s' = th0 /\ l' = l0) \/                              (* nothing accepted: restored *)
   (exists d, solve (nsolve s' - 1) = Some d /\ th s' = retract th0 d)).  (* or exactly the last trial is kept *)

Lemma loop_spec c reject l0 th0 n0 : forall fuel (s : ostR) l,
  Inv reject l0 th0 n0 s l -> (reject - rej s < fuel)%nat ->
  exists s' l', loop c reject th0 fuel s l = Some (s', l') /\ Post reject l0 th0 n0 s' l'.
Proof.
  induction fuel as [|f IH]; intros s l (Hl & Hth & Hll & Hl0 & Hr & Hn) Hf; [lia|].
  cbn [lm_loop]. subst l.
  replace (leb (last s) l0) with true by (symmetry; cbn; apply Rleb_true; lra).
  unfold lm_body. destruct (solve (nsolve s)) as [d|] eqn:Es.
  2:{ eexists _, l0. split; [reflexivity|]. unfold Post. cbn [th rej nsolve last].
      refine (conj _ (conj _ (conj _ (conj _ (conj Hl (conj Hr _)))))); [rewrite Hth; exact Hl0 | left; lra | lia | lia |].
      left. split; [exact Hth | reflexivity]. }
  set (th1 := retract (th s) d). set (l1 := loss th1).
  destruct (ltb (last s) l1) eqn:Ew; cbn [andb].
  - destruct (Nat.ltb (rej s) reject) eqn:E.
    + apply Nat.ltb_lt in E. apply IH.
      * unfold Inv; cbn. unfold th1. rewrite retract_undo. repeat split; auto; lia.
      * cbn. lia.
    + apply Nat.ltb_ge in E. eexists _, _; split; [reflexivity|]. unfold Post; cbn [th rej nsolve last].
      refine (conj eq_refl (conj _ (conj _ (conj _ (conj Hl (conj Hr _)))))); [right; lia | lia | lia |].
      right. exists d. replace (S (nsolve s) - 1)%nat with (nsolve s) by lia. split; [exact Es|]. unfold th1. now rewrite Hth.
  - eexists _, _; split; [reflexivity|]. unfold Post; cbn [th rej nsolve last].
    cbn in Ew. apply Rltb_false in Ew.
    refine (conj eq_refl (conj _ (conj _ (conj _ (conj Hl (conj Hr _)))))); [left; unfold l1, th1 in *; lra | lia | lia |].
    right. exists d. replace (S (nsolve s) - 1)%nat with (nsolve s) by lia. split; [exact Es|]. unfold th1. now rewrite Hth.
Qed.

Theorem lm_step_spec c reject (s : ostR) : cache_ok s ->
  exists s' r, step c reject s = Some (s', r) /\ cached s' = Some r /\ cache_ok s' /\
     Post reject (loss (th s)) (th s) (nsolve s) s' r.
Proof.
  intros Hc. unfold lm_step. rewrite (cur_loss_true s Hc).
  destruct (loop_spec c reject (loss (th s)) (th s) (nsolve s) (S (S reject))
              {| th := th s; cached := cached s; last := loss (th s); rej := 0; ss := ss s; nsolve := nsolve s |}
              (loss (th s))) as (s' & l' & Hs & HP).
  - unfold Inv; cbn. repeat split; auto; lia.
  - cbn. lia.
  - rewrite Hs. eexists _, _. split; [reflexivity|]. cbn. split; [reflexivity|].
    destruct HP as (H1 & H2 & H3 & H4 & H5 & H6 & H7). split; [unfold cache_ok; cbn; exact H1|].
    unfold Post; cbn. repeat split; auto.
Qed.

Theorem gn_step_spec (s : ostR) d : cache_ok s -> solve (nsolve s) = Some d ->
  exists s' r, gstep s = Some (s', r) /\ th s' = retract (th s) d /\ r = loss (th s') /\
     cached s' = Some r /\ last s' = loss (th s) /\ cache_ok s'.
Proof.
  intros Hc Hs. unfold gn_step. rewrite Hs, (cur_loss_true s Hc). eexists _, _. split; [reflexivity|].
  cbn. unfold cache_ok; cbn. repeat split; auto.
Qed.

(* any number of calls (LM or GN, any reject values) on the same data: the cache stays exact,
   hence every returned value is the true loss of the parameters left behind *)
Inductive call := CallLM (c : scfg (F:=R)) (reject : nat) | CallGN.
Definition do_call (s : ostR) (k : call) : option (ostR * R) :=
  match k with CallLM c r => step c r s | CallGN => gstep s end.
Fixpoint run_calls (s : ostR) (ks : list call) : option (ostR * list R) :=
  match ks with
  | [] => Some (s, [])
  | k :: r => match do_call s k with
              | None => None
              | Some (s', v) => match run_calls s' r with None => None | Some (s'', vs) => Some (s'', v :: vs) end
              end
  end.
Theorem calls_return_true_loss : forall ks (s : ostR) s' vs, cache_ok s ->
  run_calls s ks = Some (s', vs) -> cache_ok s' /\ (vs <> [] -> List.last vs 0 = loss (th s')).
Proof.
  induction ks as [|k ks IH]; intros s s' vs Hc H; cbn in H.
  - inversion H; subst. split; [assumption|congruence].
  - destruct (do_call s k) as [[s1 v]|] eqn:E; [|discriminate].
    destruct (run_calls s1 ks) as [[s2 vs2]|] eqn:E2; [|discriminate]. inversion H; subst.
    assert (Hc1 : cache_ok s1 /\ v = loss (th s1)).
    { destruct k as [c r|]; cbn in E.
      - destruct (lm_step_spec c r s Hc) as (sa & ra & Ha & _ & Hb & Hp). rewrite Ha in E. inversion E; subst.
        split; [assumption|]. apply Hp.
      - unfold gn_step in E. destruct (solve (nsolve s)) as [d|] eqn:Es; [|discriminate].
        inversion E; subst. cbn. split; [unfold cache_ok; cbn; reflexivity | reflexivity]. }
    destruct Hc1 as [Hc1 Hv]. destruct (IH s1 s' vs2 Hc1 E2) as [Hok Hl]. split; [assumption|].
    intros _. destruct vs2 as [|w ws].
    + destruct ks as [|k2 ks2]; cbn in E2.
      * inversion E2; subst. first [exact Hv | reflexivity | (cbn; congruence)].
      * destruct (do_call s1 k2) as [[sx vx]|]; [|discriminate].
        destruct (run_calls sx ks2) as [[sy vy]|]; discriminate.
    + change (List.last (v :: w :: ws) 0) with (List.last (w :: ws) 0). apply Hl. discriminate.
Qed.
End LMProofs.

(* ---------------- strategies ---------------- *)
Lemma clampF_bounds (lo hi x : R) : lo <= hi -> lo <= clampF lo hi x <= hi.
Proof.
  intros H. unfold clampF. cbn.
  destruct (Rltb hi x) eqn:E1; [apply Rltb_true in E1|apply Rltb_false in E1];
  match goal with |- context [Rltb lo ?m] => destruct (Rltb lo m) eqn:E2; [apply Rltb_true in E2|apply Rltb_false in E2] end; lra.
Qed.
Lemma clampF_id (lo hi x : R) : lo <= x <= hi -> clampF lo hi x = x.
Proof.
  intros H. unfold clampF. cbn.
  destruct (Rltb hi x) eqn:E1; [apply Rltb_true in E1; lra|].
  destruct (Rltb lo x) eqn:E2; [reflexivity|apply Rltb_false in E2; lra].
Qed.

(* documented transition table *)
Theorem constant_unchanged (c : scfg (F:=R)) s l1 l2 p : kind c = SConstant -> supdate c s l1 l2 p = s.
Proof. intros H. unfold supdate. now rewrite H. Qed.
Theorem adaptive_transition (c : scfg (F:=R)) s l1 l2 p : kind c = SAdaptive ->
  damping (supdate c s l1 l2 p) =
    clampF (smin c) (smax c)
      (if qual_gt l1 l2 p (high c) then damping s * down s
       else if qual_gt l1 l2 p (low c) then damping s else damping s * up c)
  /\ down (supdate c s l1 l2 p) = down s.
Proof. intros H. unfold supdate. rewrite H. cbn. split; reflexivity. Qed.
Theorem adaptive_bounds (c : scfg (F:=R)) s l1 l2 p : kind c = SAdaptive -> smin c <= smax c ->
  smin c <= damping (supdate c s l1 l2 p) <= smax c.
Proof. intros H Hm. unfold supdate. rewrite H. cbn [damping]. now apply clampF_bounds. Qed.
Theorem trust_transition (c : scfg (F:=R)) s l1 l2 p : kind c = STrust ->
  let r0 := 1 / damping s in
  radius (supdate c s l1 l2 p) =
    clampF (smin c) (smax c)
      (if qual_gt l1 l2 p (high c) then up c * r0 else if qual_gt l1 l2 p (low c) then r0 else r0 * down s)
  /\ down (supdate c s l1 l2 p) =
    clampF (smin c) (smax c)
      (if qual_gt l1 l2 p (high c) then down0 c else if qual_gt l1 l2 p (low c) then down0 c else down s * factor c)
  /\ damping (supdate c s l1 l2 p) = 1 / radius (supdate c s l1 l2 p).
Proof.
  intros H. unfold supdate. rewrite H. cbn.
  destruct (qual_gt l1 l2 p (high c)); [|destruct (qual_gt l1 l2 p (low c))]; cbn; repeat split; reflexivity.
Qed.
Theorem trust_bounds (c : scfg (F:=R)) s l1 l2 p : kind c = STrust -> smin c <= smax c ->
  smin c <= radius (supdate c s l1 l2 p) <= smax c /\ smin c <= down (supdate c s l1 l2 p) <= smax c.
Proof.
  intros H Hm. destruct (trust_transition c s l1 l2 p H) as (Hr & Hd & _). cbn zeta in Hr.
  rewrite Hr, Hd. split; now apply clampF_bounds.
Qed.
(* quality comparison means what it says when the predicted decrease is non-zero *)
Lemma qual_gt_spec (l1 l2 p h : R) : p <> 0 -> qual_gt l1 l2 p h = true <-> h < (l1 - l2) / p.
Proof.
  intros Hp. unfold qual_gt. cbn. destruct (Reqb p 0) eqn:E; [apply Reqb_true in E; contradiction|].
  apply Rltb_true.
Qed.
(* bounds hold after every update of any history of updates *)
Theorem strategy_bounds_history (c : scfg (F:=R)) : smin c <= smax c -> kind c <> SConstant ->
  forall (upd : list (R * R * R)) s, upd <> [] ->
  let s' := fold_left (fun s u => match u with (a, b, p) => supdate c s a b p end) upd s in
  match kind c with
  | SAdaptive => smin c <= damping s' <= smax c
  | STrust => smin c <= radius s' <= smax c /\ smin c <= down s' <= smax c
  | SConstant => True end.
Proof.
  intros Hm Hk upd. induction upd as [|u upd IH] using rev_ind; intros s Hne; [congruence|].
  cbn zeta. rewrite fold_left_app. cbn [fold_left]. destruct u as [[a b] p].
  destruct (kind c) eqn:K; [congruence| now apply adaptive_bounds | now apply trust_bounds].
Qed.

(* non-vacuity: Euclidean parameters satisfy retract_undo *)
Example retract_undo_R : forall t d : R, (t + d) + (- d) = t.
Proof. intros; ring. Qed.
