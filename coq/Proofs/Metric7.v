(* C19 (ape, part 5): alignment with the REAL svdstf model (Model/Align.v, C17) instead of an abstract
   oracle.  When the estimate is an exact similarity copy S . reference of the reference trajectory,
   ape with scale = True (Umeyama alignment, any align flag, origin on or off) has all translation-error
   statistics equal to 0 - for every similarity S, relative only to the contract of torch.linalg.svd on
   the one matrix it is called with (orthogonal factors, ordered non-negative singular values,
   M = U diag(D) V), a non-degenerate source cloud and mat2Sim3's scale threshold.  No uniqueness
   assumption on Umeyama's solution is needed: C17's exact-recovery theorem gives that the aligned
   estimate translations coincide with the reference translations. *)
From Coq Require Import Reals Lra Psatz List ZArith Lia Nsatz.
Import ListNotations.
From PV Require Import Base.Num Base.RTac Base.ListAux Model.LieGroup Model.LieExp Model.LieLog Model.Spline Model.Metric
  Model.Controller Model.Align Proofs.LieGroup Proofs.LieExp Proofs.LieLog Proofs.Spline Proofs.Metric Proofs.Align.
Local Open Scope R_scope.
#[local] Remove Hints NumQ NumZ : typeclass_instances.

Lemma SO3_matrix_rot (q : quatR) : unitq q -> rot (SO3_matrix q).
Proof.
  unfold unitq, rot, orth. destruct q as [[[x y] z] w]. lie_unfold. intros H. split; [split_pairs; nsatz|nsatz].
Qed.

(* the total oracle seen by ape: the modelled svdstf (None = the call raises; then ape raises too, and
   the identity stands in for the value that is never used in the theorems below) *)
Definition svd_oracle (svd : mat3R -> mat3R * vec3R * mat3R) (ets rts : list vec3R) (sc : bool) : sim3R :=
  match svdstf svd sc ets rts with Some X => X | None => Sim3_id end.

Lemma Forall2_combine_map {A B C} (f : A -> C) (g : B -> C) (l : list A) (l' : list B) :
  Forall2 (fun a b => f a = g b) l l' -> forall p, In p (combine l l') -> f (fst p) = g (snd p).
Proof.
  induction 1 as [|a b l l' Hab H IH]; intros p Hp; [destruct Hp|].
  destruct Hp as [<-|Hp]; [exact Hab|now apply IH].
Qed.

Section SimilarityCopy.
Variable svd : mat3R -> mat3R * vec3R * mat3R.
Variable angleF : @mat3 R -> R.
Variable rad2degF : R -> R.

Theorem ape_similarity_copy_zero st (P : list se3R) tr (S : sim3R) diff al origin :
  mk_stamped st P = Some tr -> NoDup (map fst tr) -> Forall valid_SE3 P -> 0 < diff -> valid_Sim3 S ->
  let src := map fst (map (align_pose S) P) in
  let tgt := map fst P in
  svd_contract svd (svdstf_H src tgt) -> 0 < Proofs.Align.sumsq (centered src) ->
  (let '(U, D, V) := svd (svdstf_H src tgt) in 1 / 100000 < fst (fst (svdstf_mat true src tgt U D V))) ->
  exists s, ape sqrt angleF rad2degF (svd_oracle svd) st P st (map (align_pose S) P) Etrans diff 0 al true origin = Some s /\
            zero_stats s.
Proof.
  intros Hm Hnd HP Hd HS src tgt Hc Hx Hthr.
  assert (HneP : P <> []) by (intros ->; cbn in Hm; discriminate).
  assert (Hlen : length src = length tgt) by (unfold src, tgt; now rewrite !map_length).
  assert (Hs : sizes_ok src tgt = true).
  { unfold sizes_ok. rewrite Hlen, Nat.eqb_refl. unfold tgt. rewrite map_length.
    destruct P; [congruence|reflexivity]. }
  (* the reference translations are the image of the estimate translations under S^-1 *)
  destruct HS as [HSu HSs].
  assert (HSi : valid_Sim3 (Sim3_inv S)) by (apply valid_Sim3_inv; now split).
  destruct (Sim3_inv S) as [t0 [q0 c0]] eqn:ESi. destruct HSi as [Hq0 Hc0]. cbn [fst snd] in Hq0, Hc0.
  assert (Htgt : tgt = map (sim_apply c0 (SO3_matrix q0) t0) src).
  { assert (Hact : forall p, sim_apply c0 (SO3_matrix q0) t0 p = Sim3_act (Sim3_inv S) p)
      by (intros p; rewrite ESi; symmetry; apply Sim3_act_sim).
    unfold tgt, src. rewrite !map_map. apply map_ext. intros X. rewrite fst_align_pose, Hact.
    rewrite <- Sim3_act_mul.
    - rewrite Sim3_inv_l by (try assumption; now apply Rgt_not_eq). now rewrite Sim3_act_id.
    - rewrite ESi. exact Hq0.
    - exact HSu. }
  pose proof (svdstf_returns svd true src tgt Hs Hc) as Hret.
  unfold svd_contract in Hc. revert Hc Hthr Hret. destruct (svd (svdstf_H src tgt)) as [[U D] V]. intros Hc Hthr Hret.
  destruct (Hret Hthr) as (X & HX & HXu & _ & HXact).
  pose proof (svdstf_exact_recovery src tgt U D V c0 (SO3_matrix q0) t0 Htgt ltac:(lra) (SO3_matrix_rot q0 Hq0) Hc Hx) as Hrec.
  (* ape *)
  unfold ape. rewrite mk_stamped_map, Hm. cbn [option_map].
  rewrite associate_map_e. rewrite (associate_self tr diff (mk_stamped_ne _ _ _ Hm) Hnd Hd).
  rewrite (mk_stamped_snd _ _ _ Hm). cbn [option_map fst snd].
  unfold trans_of. rewrite Bool.orb_true_r. unfold svd_oracle. fold src tgt. rewrite HX.
  apply compute_stats_zeros.
  - unfold errors. destruct P as [|p P']; [congruence|]. discriminate.
  - intros x Hin. unfold errors in Hin. apply in_map_iff in Hin. destruct Hin as ([r e] & <- & Hin).
    cbn [fst snd]. unfold ape_error.
    assert (E : fst e = fst r).
    { rewrite map_map in Hin.
      assert (Hin2 : exists Y, In Y P /\ r = Y /\ e = align_pose X (align_pose S Y)).
      { clear - Hin. induction P as [|Y P IH]; [destruct Hin|]. cbn [map combine] in Hin. destruct Hin as [E|Hin].
        - injection E as <- <-. exists Y. split; [now left|]. split; reflexivity.
        - destruct (IH Hin) as (Y' & H1 & H2). exists Y'. split; [now right|exact H2]. }
      destruct Hin2 as (Y & HY & -> & ->). rewrite fst_align_pose, HXact.
      assert (Hp : In (fst (align_pose S Y), fst Y) (combine src tgt)).
      { unfold src, tgt. rewrite map_map. clear - HY. induction P as [|Z P IH]; [destruct HY|].
        cbn [map combine]. destruct HY as [->|HY]; [now left|right; now apply IH]. }
      exact (Forall2_combine_map _ (fun q => q) src tgt Hrec _ Hp). }
    rewrite E. unfold vnormS. replace (Model.Metric.sumsq (v3_l (vsub (fst r) (fst r)))) with 0; [apply sqrt_0|].
    destruct (fst r) as [[x y] z]. unfold v3_l. rewrite sumsq3. lie_unfold. ring.
Qed.
End SimilarityCopy.

(* ------------------------------------------------------------------ the hypotheses are satisfiable *)
(* six poses at (+-3,0,0), (0,+-2,0), (0,0,+-1) with identity rotation, default stamps; the estimate is
   the copy scaled by 2; the cross-covariance is diag(6, 8/3, 2/3), whose SVD is (I, (6, 8/3, 2/3), I);
   Umeyama's scale is 1/2 *)
Definition T6 : list vec3R := [(3, 0, 0); (-3, 0, 0); (0, 2, 0); (0, -2, 0); (0, 0, 1); (0, 0, -1)].
Definition P6 : list se3R := map (fun t => (t, SO3_id)) T6.
Definition S2 : sim3R := (vzero, (SO3_id, 2)).
Definition svd6 (_ : mat3R) : mat3R * vec3R * mat3R := (mid3, (6, 8 / 3, 2 / 3), mid3).
Lemma src6 : map fst (map (align_pose S2) P6) = [(6, 0, 0); (-6, 0, 0); (0, 4, 0); (0, -4, 0); (0, 0, 2); (0, 0, -2)].
Proof.
  rewrite map_map. unfold P6, T6. cbn [map]. rewrite !fst_align_pose. cbn [fst]. unfold S2.
  repeat (apply f_equal2; [lie_unfold; split_pairs; ring|]). reflexivity.
Qed.
Lemma similarity_copy_hyps_ok :
  let st := Some [0; 1; 2; 3; 4; 5] in
  let tr := combine [0; 1; 2; 3; 4; 5] P6 in
  let src := map fst (map (align_pose S2) P6) in
  let tgt := map fst P6 in
  mk_stamped st P6 = Some tr /\ NoDup (map fst tr) /\ Forall valid_SE3 P6 /\ valid_Sim3 S2 /\ S2 <> Sim3_id /\
  svd_contract svd6 (svdstf_H src tgt) /\ 0 < Proofs.Align.sumsq (centered src) /\
  (let '(U, D, V) := svd6 (svdstf_H src tgt) in 1 / 100000 < fst (fst (svdstf_mat true src tgt U D V))).
Proof.
  cbv zeta. rewrite src6.
  assert (Etgt : map fst P6 = T6) by reflexivity. rewrite Etgt.
  split; [|split; [|split; [|split; [|split; [|split; [|split]]]]]].
  - unfold mk_stamped, P6, T6. cbn [map length Nat.eqb negb sortedb].
    repeat match goal with |- context [leb ?a ?b] =>
      replace (leb a b) with true by (symmetry; cbn; apply Rleb_true; lra) end.
    reflexivity.
  - unfold P6, T6. cbn [map combine fst]. repeat constructor; cbn [In]; intuition lra.
  - unfold P6, T6. cbn [map]. repeat constructor; apply unitq_id.
  - unfold valid_Sim3, S2. cbn [fst snd]. split; [apply unitq_id|lra].
  - unfold S2, Sim3_id, RxSO3_id. intros E. injection E as E. num_unfold. lra.
  - unfold svd_contract, svd6, svd_ok. split; [apply orth_mid3|]. split; [apply orth_mid3|].
    split; [cbn [vx vy vz fst snd]; lra|].
    unfold svdstf_H, T6, centered.
    cbv [map crosscov length centroid vsum3 fold_right ofN Z.of_nat Pos.of_succ_nat Pos.succ vdivs mdivs3].
    al_unfold. split_pairs; field.
  - unfold Proofs.Align.sumsq, centered, sumF.
    cbv [map length centroid vsum3 fold_right ofN Z.of_nat Pos.of_succ_nat Pos.succ vdivs].
    al_unfold. lra.
  - unfold svd6, svdstf_mat. cbn [fst snd]. unfold svdstf_scale, umeyama_sign, var_source, meanF, sumF, centered, T6.
    replace (mdet3 (mmul3 (mid3 (F:=R)) mid3)) with 1 by al_ring.
    unfold signF. cbn [ltb NumR zero one].
    replace (Rltb 1 0) with false by (symmetry; apply Rltb_false; lra).
    replace (Rltb 0 1) with true by (symmetry; apply Rltb_true; lra).
    cbv [map length centroid vsum3 fold_right ofN Z.of_nat Pos.of_succ_nat Pos.succ vdivs].
    al_unfold. lra.
Qed.
