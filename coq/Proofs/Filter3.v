(* C13, third file: the particle filter (PF.forward) -- the logic that is not sampling.
     * the call returns (no IndexError) for uniforms <= 1 and its covariance is valid, every run length
     * importance weights = normalised Gaussian likelihoods at the propagated particles
     * resampling = inverse-CDF rule: particle i is selected iff  c_(i-1) < r <= c_i
     * the estimate is the mean of the resampled particles = weighted mean with the empirical weights
   Model: Model/Filter.v (unchanged). *)
From Coq Require Import Reals Lra Lia List Arith ZArith Psatz.
From PV Require Import Base.Num Base.Mat Model.Filter Proofs.Filter.
Import ListNotations.
#[local] Remove Hints NumQ NumZ : typeclass_instances.
Local Open Scope R_scope.

(* ================================================================== cumulative sums *)
Fixpoint csum (a : R) (q : list R) : list R :=
  match q with [] => [] | b :: q' => (a + b) :: csum (a + b) q' end.

Lemma cumsum_fold (q : list R) a l :
  fold_left (fun (acc : R * list R) b => let s := add (fst acc) b in (s, snd acc ++ [s])) q (a, l)
  = (fold_left add q a, l ++ csum a q).
Proof.
  revert a l. induction q as [|b q IH]; intros a l; cbn [fold_left csum].
  - now rewrite app_nil_r.
  - cbn [fst snd]. rewrite IH. mnum. rewrite <- app_assoc. reflexivity.
Qed.

Lemma cumsum_csum (q : list R) : cumsum q = csum 0 q.
Proof. unfold cumsum. rewrite cumsum_fold. reflexivity. Qed.

Lemma length_csum a q : length (csum a q) = length q.
Proof. revert a. induction q as [|b q IH]; intros a; cbn; [reflexivity | now rewrite IH]. Qed.

Lemma csum_total_in a q : q <> [] -> In (fold_left add q a) (csum a q).
Proof.
  revert a. induction q as [|b q IH]; intros a Hq; [congruence|].
  cbn [csum fold_left]. destruct q as [|b' q'].
  - left. reflexivity.
  - right. apply IH. discriminate.
Qed.

(* prefix sums *)
Definition psum (q : list R) (i : nat) : R := sumn i (fun j => vget q j).

Lemma psum_0 q : psum q 0 = 0. Proof. reflexivity. Qed.
Lemma psum_cons b q i : psum (b :: q) (S i) = b + psum q i.
Proof. unfold psum. rewrite sumn_S_first. reflexivity. Qed.
Lemma psum_nonneg q i : (forall a, In a q -> 0 <= a) -> 0 <= psum q i.
Proof.
  intros H. unfold psum. apply sumn_nonneg. intros k _. unfold vget. change (@zero R NumR) with 0.
  destruct (nth_in_or_default k q 0) as [Hin|Hd]; [now apply H | rewrite Hd; lra].
Qed.
Lemma psum_total q : psum q (length q) = fold_left add q 0.
Proof.
  assert (G : forall q a, fold_left add q a = a + psum q (length q)).
  { clear. induction q as [|b q IH]; intros a; [cbn; mnum; lra|].
    cbn [fold_left length]. rewrite IH, psum_cons. mnum. lra. }
  rewrite G. lra.
Qed.

Lemma csum_ge a q e : (forall b, In b q -> 0 <= b) -> In e (csum a q) -> a <= e.
Proof.
  revert a. induction q as [|b q IH]; intros a Hq He; [destruct He|].
  assert (0 <= b) by (apply Hq; now left).
  cbn [csum] in He. destruct He as [<-|He]; [lra|].
  assert (a + b <= e) by (apply IH; [intros; apply Hq; now right | assumption]). lra.
Qed.

Lemma nth_csum a q i d : (i < length q)%nat -> nth i (csum a q) d = a + psum q (S i).
Proof.
  revert a i. induction q as [|b q IH]; intros a i Hi; [cbn in Hi; lia|].
  cbn [csum]. destruct i as [|i].
  - cbn [nth]. rewrite psum_cons, psum_0. lra.
  - cbn [nth]. cbn [length] in Hi. rewrite IH by lia. rewrite (psum_cons b q (S i)). lra.
Qed.

(* ================================================================== searchsorted *)
Lemma length_filter_le {X} (f : X -> bool) l : (length (filter f l) <= length l)%nat.
Proof. induction l as [|a l IH]; cbn; [lia|]. destruct (f a); cbn; lia. Qed.

Lemma searchsorted_lt_length (c : list R) r : (exists a, In a c /\ r <= a) -> (searchsorted c r < length c)%nat.
Proof.
  unfold searchsorted. intros (a & Ha & Hr). induction c as [|b c IH]; [destruct Ha|].
  cbn [filter length]. destruct Ha as [->|Ha].
  - change (ltb a r) with (Rltb a r). replace (Rltb a r) with false by (symmetry; now apply Rltb_false).
    pose proof (length_filter_le (fun a0 : R => ltb a0 r) c). lia.
  - specialize (IH Ha). destruct (ltb b r); cbn [length]; lia.
Qed.

Lemma searchsorted_all_ge (c : list R) r : (forall a, In a c -> r <= a) -> searchsorted c r = 0%nat.
Proof.
  unfold searchsorted. induction c as [|b c IH]; intros H; [reflexivity|].
  cbn [filter]. change (ltb b r) with (Rltb b r).
  replace (Rltb b r) with false by (symmetry; apply Rltb_false; apply H; now left).
  apply IH. intros a Ha. apply H. now right.
Qed.

Lemma searchsorted_cons b (c : list R) r :
  searchsorted (b :: c) r = ((if Rltb b r then 1 else 0) + searchsorted c r)%nat.
Proof. unfold searchsorted. cbn [filter]. change (ltb b r) with (Rltb b r). destruct (Rltb b r); reflexivity. Qed.

(* the inverse-CDF rule: with non-negative weights, index i is returned exactly for
   c_(i-1) < r <= c_i   (c_i = q_0 + ... + q_i; no lower condition for i = 0) *)
Lemma searchsorted_csum_spec (q : list R) r : (forall b, In b q -> 0 <= b) ->
  forall a i, (i < length q)%nat ->
  (searchsorted (csum a q) r = i <-> (i = 0%nat \/ a + psum q i < r) /\ r <= a + psum q (S i)).
Proof.
  induction q as [|b q IH]; intros Hq a i Hi; [cbn in Hi; lia|].
  assert (Hb : 0 <= b) by (apply Hq; now left).
  assert (Hq' : forall b0, In b0 q -> 0 <= b0) by (intros; apply Hq; now right).
  cbn [csum]. rewrite searchsorted_cons.
  destruct (Rltb (a + b) r) eqn:E; cbv beta iota.
  - apply Rltb_true in E. destruct i as [|i].
    + split; [intros H; lia|]. intros [_ H]. rewrite psum_cons, psum_0 in H. lra.
    + cbn [length] in Hi. assert (Hi' : (i < length q)%nat) by lia.
      specialize (IH Hq' (a + b) i Hi'). rewrite !psum_cons.
      split.
      * intros H. assert (H' : searchsorted (csum (a + b) q) r = i) by lia.
        apply IH in H'. destruct H' as [[->|H1] H2].
        -- rewrite psum_0. split; [right; lra | lra].
        -- split; [right; lra | lra].
      * intros [[H0|H1] H2]; [lia|].
        assert (H' : searchsorted (csum (a + b) q) r = i); [|lia].
        apply IH. split; [|lra]. destruct i as [|i]; [now left | right; lra].
  - apply Rltb_false in E.
    rewrite (searchsorted_all_ge (csum (a + b) q) r).
    2:{ intros e He. apply (csum_ge (a + b) q e Hq') in He. lra. }
    destruct i as [|i].
    + split; [|reflexivity]. intros _. rewrite psum_cons, (psum_0 q). split; [now left | lra].
    + split; [intros H; lia|]. intros [[H0|H1] _]; [lia|].
      rewrite psum_cons in H1. pose proof (psum_nonneg q i Hq'). lra.
Qed.

Theorem searchsorted_cumsum_spec (q : list R) r i : (forall b, In b q -> 0 <= b) -> (i < length q)%nat ->
  (searchsorted (cumsum q) r = i <-> (i = 0%nat \/ psum q i < r) /\ r <= psum q (S i)).
Proof.
  intros Hq Hi. rewrite cumsum_csum. rewrite (searchsorted_csum_spec q r Hq 0 i Hi).
  rewrite !Rplus_0_l. reflexivity.
Qed.

(* ================================================================== pf_estimate returns *)
Lemma pf_estimate_some (q : list R) (xs : matR) (r : list R) (Q : matR) :
  q <> [] -> length q = length xs -> (forall ri, In ri r -> ri <= fold_left add q 0) ->
  let idx := map (searchsorted (cumsum q)) r in
  let xr := map (fun i => nth i xs []) idx in
  (forall i, In i idx -> (i < length xs)%nat) /\
  pf_estimate q xs r Q = Some (col_mean xr, pf_cov (map (fun p => vminus p (col_mean xr)) xr) Q).
Proof.
  intros Hq Hl Hr idx xr.
  assert (Hidx : forall i, In i idx -> (i < length xs)%nat).
  { intros i Hi. unfold idx in Hi. apply in_map_iff in Hi. destruct Hi as [ri [<- Hri]].
    rewrite <- Hl, <- (length_csum 0 q), <- cumsum_csum.
    apply searchsorted_lt_length. exists (fold_left add q 0). split; [|now apply Hr].
    rewrite cumsum_csum. now apply csum_total_in. }
  split; [exact Hidx|].
  unfold pf_estimate. fold idx.
  destruct (existsb (fun i => Nat.leb (length xs) i) idx) eqn:E; [|reflexivity].
  apply existsb_exists in E. destruct E as [i [Hi Hle]]. apply Nat.leb_le in Hle.
  specialize (Hidx i Hi). lia.
Qed.

(* ================================================================== PF.forward: returns, covariance valid *)
Lemma PSD_scaled_gram N n (ex : matR) : wf N n ex ->
  PSD n (mscale (1 / ofnat (F:=R) N) (mmul (mtr ex) ex)).
Proof.
  intros Hex x Hx. assert (HN : (0 < N)%nat) by (eapply wf_pos_r; eassumption).
  rewrite (qform_mscale n) by eauto with wf.
  assert (0 <= qform (mmul (mtr ex) ex) x) by (now apply (PSD_gram N n)).
  assert (0 < ofnat (F:=R) N) by now apply ofnat_pos.
  apply Rmult_le_pos; [|assumption]. apply Rlt_le. apply Rmult_lt_0_compat; [lra | now apply Rinv_0_lt_compat].
Qed.

Section PFforward.
Variables pinv msqrt : matR -> matR.
Variable lognorm : matR -> R.
Variable n : nat.
Hypothesis Hn : (0 < n)%nat.
Variable s : @system R.
Variables Q Rm : matR.
Hypothesis HQ : wf n n Q.
Hypothesis SQ : msym Q.
Hypothesis PQ : PSD n Q.

(* particles >= 1 (eps, r non-empty), uniforms r_i <= 1 (torch.rand: [0,1)), f keeps the state dimension;
   NOTHING is needed of pinv / msqrt / P here (the real Cholesky needs P positive definite: see the SPD
   clause, which is what a run feeds back) *)
Theorem pf_forward_returns_valid (x y u : list R) (P : matR) (eps : matR) (r : list R) :
  length x = n -> (forall p, length p = n -> length (sf s p u) = n) ->
  eps <> [] -> r <> [] -> (forall ri, In ri r -> ri <= 1) ->
  exists x' P', pf_forward pinv msqrt lognorm s Q Rm x y u P eps r = Some (x', P') /\
                length x' = n /\ wf n n P' /\ msym P' /\ PSD n P' /\ (PD n Q -> SPD n P').
Proof.
  intros Hx Hf He Hr Hr1. unfold pf_forward, pf_forward_gen.
  set (xp := pf_particles msqrt x P eps).
  set (xs := map (fun p => sf s p u) xp).
  set (ye := map (fun p => sh s p u) xs).
  set (q := softmax (pf_loglik pinv lognorm Rm y ye)).
  assert (Lxs : length xs = length eps) by (unfold xs, xp, pf_particles; now rewrite !map_length).
  assert (Lq : length q = length xs).
  { unfold q, softmax, pf_loglik, ye. now rewrite !map_length. }
  assert (Hl : pf_loglik pinv lognorm Rm y ye <> []).
  { unfold pf_loglik, ye, xs, xp, pf_particles. destruct eps; [congruence | discriminate]. }
  destruct (softmax_positive_sums_to_one _ Hl) as [Hpos Hsum]. fold q in Hpos, Hsum.
  assert (Hq : q <> []).
  { intros E. assert (L0 : length q = 0%nat) by (rewrite E; reflexivity).
    destruct eps; [congruence | cbn [length] in Lxs; lia]. }
  assert (Hxs : forall p, In p xs -> length p = n).
  { intros p Hp. unfold xs in Hp. apply in_map_iff in Hp. destruct Hp as [p0 [<- Hp0]]. apply Hf.
    unfold xp, pf_particles in Hp0. apply in_map_iff in Hp0. destruct Hp0 as [e [<- _]].
    now rewrite length_vplus. }
  destruct (pf_estimate_some q xs r Q Hq Lq) as [Hidx E].
  { intros ri Hri. change (@zero R NumR) with 0 in Hsum. rewrite Hsum. now apply Hr1. }
  set (idx := map (searchsorted (cumsum q)) r) in *.
  set (xr := map (fun i => nth i xs []) idx) in *.
  rewrite E. eexists. eexists. split; [reflexivity|].
  assert (Lidx : length idx = length r) by (unfold idx; now rewrite map_length).
  assert (HN : (0 < length r)%nat) by (destruct r; [congruence | cbn; lia]).
  assert (Hxr : wf (length r) n xr).
  { apply wf_map_rows; try assumption.
    intros i Hi. apply Hxs. apply nth_In. now apply Hidx. }
  set (xm := col_mean xr).
  assert (Lxm : length xm = n).
  { unfold xm, col_mean, wsum_rows. rewrite length_mkvec. exact (wf_cols _ _ _ Hxr). }
  set (ex := map (fun p => vminus p xm) xr).
  assert (Hex : wf (length r) n ex).
  { unfold ex. apply wf_map_rows; try assumption.
    - now destruct Hxr as (_ & _ & -> & _).
    - intros p Hp. rewrite length_vminus. destruct Hxr as (_ & _ & _ & Hall).
      rewrite Forall_forall in Hall. now apply Hall. }
  destruct (pf_cov_valid n ex Q (length r) Hex HQ SQ PQ) as (W & S' & PS).
  split; [exact Lxm|]. split; [exact W|]. split; [exact S'|]. split; [exact PS|].
  intros PDQ. split; [exact W|]. split; [exact S'|].
  unfold pf_cov. rewrite (wf_rows _ _ _ Hex).
  apply PD_madd_l; [assumption | eauto with wf | assumption | now apply (PSD_scaled_gram (length r))].
Qed.
End PFforward.

(* ------------------------------------------------------------------ runs of the particle filter *)
(* one step's data: measurement y, input u, the standard-normal draws eps and the uniform draws r *)
Definition pf_input := (list R * list R * matR * list R)%type.
Definition pf_run (pinv msqrt : matR -> matR) (lognorm : matR -> R) (s : @system R) (Q Rm : matR)
  (st : option (list R * matR)) (steps : list pf_input) : option (list R * matR) :=
  fold_left (fun st (d : pf_input) =>
               match st, d with
               | Some xP, (y, u, eps, r) => pf_forward pinv msqrt lognorm s Q Rm (fst xP) y u (snd xP) eps r
               | None, _ => None
               end) steps st.

Definition pf_input_ok (d : pf_input) : Prop :=
  match d with (_, _, eps, r) => eps <> [] /\ r <> [] /\ (forall ri, In ri r -> ri <= 1) end.

Theorem pf_run_cov_valid (pinv msqrt : matR -> matR) (lognorm : matR -> R) n (s : @system R) (Q Rm : matR) :
  (0 < n)%nat -> (forall p u, length p = n -> length (sf s p u) = n) -> SPD n Q ->
  forall steps x P, length x = n -> SPD n P -> Forall pf_input_ok steps ->
  exists x' P', pf_run pinv msqrt lognorm s Q Rm (Some (x, P)) steps = Some (x', P') /\ length x' = n /\ SPD n P'.
Proof.
  intros Hn Hf (HQ & SQ & PQ) steps.
  induction steps as [|d steps IH]; intros x P Hx HP Hok.
  - exists x, P. split; [reflexivity | split; assumption].
  - apply Forall_cons_iff in Hok. destruct Hok as [Hd Hok].
    destruct d as [[[y u] eps] r]. destruct Hd as (He & Hr & Hr1).
    destruct (pf_forward_returns_valid pinv msqrt lognorm n Hn s Q Rm HQ SQ (PD_PSD n Q HQ PQ)
                x y u P eps r Hx (fun p => Hf p u) He Hr Hr1) as (x1 & P1 & E & L1 & _ & _ & _ & S1).
    unfold pf_run. cbn [fold_left fst snd]. rewrite E.
    exact (IH x1 P1 L1 (S1 PQ) Hok).
Qed.

(* ================================================================== importance weights *)
(* q_i = exp(-1/2 (y - ye_i)^T Ri (y - ye_i)) / sum_j exp(-1/2 (y - ye_j)^T Ri (y - ye_j)),  Ri = pinv R:
   the Gaussian likelihoods of y at the observed propagated particles, normalised *)
Definition gauss_kernel (Ri : matR) (y yi : list R) : R := exp (- (1 / 2) * qform Ri (vminus y yi)).

Theorem pf_weights_are_normalised_likelihoods (pinv : matR -> matR) (lognorm : matR -> R) (Rm : matR)
  (y : list R) (ye : matR) :
  softmax (pf_loglik pinv lognorm Rm y ye) =
  map (fun yi => gauss_kernel (pinv Rm) y yi / fold_left add (map (gauss_kernel (pinv Rm) y) ye) 0) ye.
Proof.
  unfold pf_loglik.
  set (base := fun yi : list R => (zero - half * qform (pinv Rm) (vminus y yi))%num).
  transitivity (softmax (map base ye)).
  - rewrite <- (softmax_shift (map base ye) (lognorm Rm)). rewrite map_map. reflexivity.
  - unfold softmax. cbn [texp TransR]. rewrite !map_map.
    assert (E : forall yi, exp (base yi) = gauss_kernel (pinv Rm) y yi).
    { intros yi. unfold base, gauss_kernel, half. f_equal. mnum. lra. }
    rewrite (map_ext (fun x => exp (base x)) (gauss_kernel (pinv Rm) y) E).
    apply map_ext. intros yi. rewrite E. reflexivity.
Qed.

(* the weights PF.forward uses, spelled out on the model *)
Theorem pf_forward_weights (pinv msqrt : matR -> matR) (lognorm : matR -> R) (s : @system R) (Q Rm : matR)
  (x y u : list R) (P : matR) (eps : matR) (r : list R) :
  let xs := map (fun p => sf s p u) (pf_particles msqrt x P eps) in
  let ye := map (fun p => sh s p u) xs in
  let q := map (fun yi => gauss_kernel (pinv Rm) y yi / fold_left add (map (gauss_kernel (pinv Rm) y) ye) 0) ye in
  pf_forward pinv msqrt lognorm s Q Rm x y u P eps r = pf_estimate q xs r Q.
Proof.
  cbv zeta. unfold pf_forward, pf_forward_gen. now rewrite pf_weights_are_normalised_likelihoods.
Qed.

(* ================================================================== the estimate *)
Lemma vget_repeat (a : R) N t : (t < N)%nat -> vget (repeat a N) t = a.
Proof. intros Ht. unfold vget. apply (repeat_spec N). apply nth_In. now rewrite repeat_length. Qed.

Lemma nth_map_lt {X Y} (f : X -> Y) (l : list X) t d d' : (t < length l)%nat -> nth t (map f l) d = f (nth t l d').
Proof.
  revert t. induction l as [|a l IH]; intros t Ht; [cbn in Ht; lia|].
  destruct t as [|t]; [reflexivity|]. cbn [map nth]. apply IH. cbn in Ht. lia.
Qed.

(* sum over the draws = sum over the particles weighted by how often each was drawn *)
Lemma sum_by_counts (idx : list nat) (M : nat) (g : nat -> R) : (forall i, In i idx -> (i < M)%nat) ->
  sumn (length idx) (fun t => g (nth t idx 0%nat)) =
  sumn M (fun i => INR (count_occ Nat.eq_dec idx i) * g i).
Proof.
  induction idx as [|a idx IH]; intros H.
  - cbn [length sumn]. symmetry. apply sumn_zero. intros k _. cbn. lra.
  - cbn [length]. rewrite sumn_S_first. cbn [nth]. rewrite IH by (intros; apply H; now right).
    assert (Ha : (a < M)%nat) by (apply H; now left).
    rewrite <- (sumn_delta_l M a g Ha). rewrite <- sumn_plus. apply sumn_ext. intros k Hk.
    cbn [count_occ]. destruct (Nat.eq_dec a k) as [->|Hne].
    + rewrite Nat.eqb_refl. rewrite S_INR. lra.
    + replace (Nat.eqb a k) with false by (symmetry; now apply Nat.eqb_neq). lra.
Qed.

Lemma counts_total (idx : list nat) (M : nat) : (forall i, In i idx -> (i < M)%nat) ->
  sumn M (fun i => INR (count_occ Nat.eq_dec idx i)) = INR (length idx).
Proof.
  intros H. rewrite <- (Rmult_1_r (INR (length idx))).
  assert (E := sum_by_counts idx M (fun _ => 1) H). cbv beta in E.
  rewrite (sumn_ext M (fun i => INR (count_occ Nat.eq_dec idx i)) (fun i => INR (count_occ Nat.eq_dec idx i) * 1))
    by (intros; lra).
  rewrite <- E. clear. induction (length idx) as [|k IH]; [cbn; lra|].
  cbn [sumn]. rewrite IH, S_INR. mnum. lra.
Qed.

Lemma ofnat_INR N : ofnat (F:=R) N = INR N.
Proof. unfold ofnat. cbn. now rewrite <- INR_IZR_INZ. Qed.

(* resampling keeps the particle count, only returns existing particles; the estimate is their mean,
   i.e. the weighted mean of ALL propagated particles with the empirical weights count_i / N;
   the covariance is Q + the mean outer product of the deviations *)
Theorem pf_estimate_spec n (q : list R) (xs : matR) (r : list R) (Q : matR) x' P' :
  (forall p, In p xs -> length p = n) -> (0 < n)%nat -> r <> [] -> wf n n Q ->
  pf_estimate q xs r Q = Some (x', P') ->
  let N := length r in
  let idx := map (searchsorted (cumsum q)) r in
  let xr := map (fun i => nth i xs []) idx in
  let cnt := fun i => INR (count_occ Nat.eq_dec idx i) in
  length xr = N /\ (forall p, In p xr -> In p xs) /\
  (forall j, (j < n)%nat -> vget x' j = 1 / INR N * sumn N (fun t => mget xr t j)) /\
  (forall j, (j < n)%nat -> vget x' j = sumn (length xs) (fun i => cnt i / INR N * mget xs i j)) /\
  sumn (length xs) (fun i => cnt i / INR N) = 1 /\
  (forall a b, (a < n)%nat -> (b < n)%nat ->
     mget P' a b = mget Q a b + 1 / INR N * sumn N (fun t => (mget xr t a - vget x' a) * (mget xr t b - vget x' b))).
Proof.
  intros Hxs Hn Hr HQ. unfold pf_estimate. cbv zeta.
  set (idx := map (searchsorted (cumsum q)) r).
  destruct (existsb (fun i => Nat.leb (length xs) i) idx) eqn:E; [discriminate|].
  intros H. injection H as <- <-.
  set (xr := map (fun i => nth i xs []) idx).
  assert (Hidx : forall i, In i idx -> (i < length xs)%nat).
  { intros i Hi. destruct (Nat.leb (length xs) i) eqn:El.
    - assert (existsb (fun i => Nat.leb (length xs) i) idx = true) by (apply existsb_exists; eauto). congruence.
    - apply Nat.leb_gt in El. exact El. }
  assert (Lidx : length idx = length r) by (unfold idx; now rewrite map_length).
  assert (Lxr : length xr = length r) by (unfold xr; now rewrite map_length).
  assert (HN : (0 < length r)%nat) by (destruct r; [congruence | cbn; lia]).
  assert (HNR : 0 < INR (length r)) by (apply lt_0_INR; lia).
  assert (Hin : forall p, In p xr -> In p xs).
  { intros p Hp. unfold xr in Hp. apply in_map_iff in Hp. destruct Hp as [i [<- Hi]]. apply nth_In. now apply Hidx. }
  assert (Hxr : wf (length r) n xr).
  { apply wf_map_rows; try assumption. intros i Hi. apply Hxs. apply nth_In. now apply Hidx. }
  assert (Emean : forall j, (j < n)%nat -> vget (col_mean xr) j = 1 / INR (length r) * sumn (length r) (fun t => mget xr t j)).
  { intros j Hj. unfold col_mean, wsum_rows. rewrite (wf_cols _ _ _ Hxr), (wf_rows _ _ _ Hxr).
    rewrite vget_mkvec by assumption. rewrite <- sumn_scal_l. apply sumn_ext. intros t Ht.
    rewrite vget_repeat by assumption. rewrite ofnat_INR. reflexivity. }
  assert (Ext : forall t j, (t < length r)%nat -> mget xr t j = mget xs (nth t idx 0%nat) j).
  { intros t j Ht. unfold mget at 1. unfold xr.
    rewrite (nth_map_lt _ idx t [] 0%nat) by lia. reflexivity. }
  split; [exact Lxr|]. split; [exact Hin|]. split; [exact Emean|]. split; [|split].
  - intros j Hj. rewrite Emean by assumption.
    rewrite (sumn_ext (length r) (fun t => mget xr t j) (fun t => mget xs (nth t idx 0%nat) j)) by (intros; now apply Ext).
    rewrite <- Lidx at 2. rewrite (sum_by_counts idx (length xs) (fun i => mget xs i j) Hidx).
    rewrite <- sumn_scal_l. apply sumn_ext. intros i _. unfold Rdiv. ring.
  - rewrite (sumn_ext _ (fun i => INR (count_occ Nat.eq_dec idx i) / INR (length r))
                        (fun i => INR (count_occ Nat.eq_dec idx i) * / INR (length r))) by (intros; reflexivity).
    rewrite sumn_scal_r. rewrite (counts_total idx (length xs) Hidx). rewrite Lidx. field. lra.
  - intros a b Ha Hb.
    set (xm := col_mean xr).
    assert (Lxm : length xm = n).
    { unfold xm, col_mean, wsum_rows. rewrite length_mkvec. exact (wf_cols _ _ _ Hxr). }
    set (ex := map (fun p => vminus p xm) xr).
    assert (Hex : wf (length r) n ex).
    { unfold ex. apply wf_map_rows; try assumption.
      intros p Hp. rewrite length_vminus. apply Hxs. now apply Hin. }
    assert (Eex : forall t c, (t < length r)%nat -> (c < n)%nat -> mget ex t c = mget xr t c - vget xm c).
    { intros t c Ht Hc. unfold mget at 1. unfold ex.
      rewrite (nth_map_lt _ xr t [] []) by lia. change (nth c (vminus (nth t xr []) xm) zero) with (vget (vminus (nth t xr []) xm) c).
      rewrite vget_vminus by (rewrite (wf_row_length _ _ _ t Hxr) by assumption; lia).
      rewrite vget_row. reflexivity. }
    unfold pf_cov. rewrite (wf_rows _ _ _ Hex).
    assert (HG : wf n n (mmul (mtr ex) ex)) by eauto with wf.
    rewrite (mget_madd n n) by assumption.
    rewrite (mget_mscale n n) by assumption.
    rewrite (mget_mmul n (length r) n) by eauto with wf.
    rewrite ofnat_INR. mnum. apply Rplus_eq_compat_l. apply Rmult_eq_compat_l.
    apply sumn_ext. intros t Ht.
    rewrite (mget_mtr (length r) n) by assumption.
    rewrite !Eex by assumption. reflexivity.
Qed.
