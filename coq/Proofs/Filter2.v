(* C13, second file: positive DEFINITE posterior covariances, Kalman runs, EKF = Kalman step of the
   linearised system.  Model: Model/Filter.v (unchanged); first file: Proofs/Filter.v. *)
From Coq Require Import Reals Lra Lia List Arith ZArith Psatz.
From PV Require Import Base.Num Base.Mat Model.Filter Proofs.Filter.
Import ListNotations.
#[local] Remove Hints NumQ NumZ : typeclass_instances.
Local Open Scope R_scope.

(* ------------------------------------------------------------------ small vector facts *)
Lemma mapply_zero_vec n m (M : matR) (z : list R) : wf n m M -> length z = m ->
  (forall i, (i < length z)%nat -> vget z i = 0) ->
  forall i, (i < n)%nat -> vget (mapply M z) i = 0.
Proof.
  intros HM Lz Hz i Hi. rewrite (vget_mapply n m) by assumption.
  apply sumn_zero. intros k Hk. rewrite Hz by lia. mnum. lra.
Qed.

Lemma vminus_zero_r n (x w : list R) : length x = n -> length w = n ->
  (forall i, (i < n)%nat -> vget w i = 0) -> vminus x w = x.
Proof.
  intros Hx Hw Hz. apply (vec_ext n); [now rewrite length_vminus | assumption |].
  intros i Hi. rewrite vget_vminus by lia. rewrite Hz by assumption. mnum. lra.
Qed.

(* ================================================================== Kalman posterior: positive definite *)
Section KFpd.
Variable pinv : matR -> matR.
Variables n m : nat.
Hypothesis pinv_spec : pinv_ok m pinv.

Variables A P Q C R : matR.
Hypothesis HA : wf n n A.
Hypothesis HC : wf m n C.
Hypothesis HP : wf n n P.
Hypothesis HQ : wf n n Q.
Hypothesis HR : wf m m R.
Hypothesis SP : msym P.
Hypothesis SQ : msym Q.
Hypothesis SR : msym R.
Hypothesis PP : PSD n P.
Hypothesis PQ : PD n Q.
Hypothesis PR : PD m R.

Let Pm := madd (mmul (mmul A P) (mtr A)) Q.
Let S := madd (mmul (mmul C Pm) (mtr C)) R.
Let K := mmul (mmul Pm (mtr C)) (pinv S).
Let Pp := mmul (msub (mid n) (mmul K C)) Pm.

Let PQ' : PSD n Q := PD_PSD n Q HQ PQ.

Lemma kf_Pm_pd : PD n Pm.
Proof. unfold Pm. apply PD_madd_r; eauto 8 with wf. now apply (PSD_congr n n). Qed.

(* x^T P' x = (x - C^T z)^T Pm (x - C^T z) + z^T R z  with  z = S^-1 C Pm x *)
Theorem kf_post_cov_pd : PD n Pp.
Proof.
  assert (HPm := ekf_Pm_wf n A P Q HA HP).
  assert (SPm := ekf_Pm_sym n A P Q HA HP HQ SP SQ).
  assert (PPm := kf_Pm_pd).
  assert (HSs := ekf_S_spd n m A P Q C R HA HC HP HQ HR SP SQ SR PP PQ' PR).
  fold Pm in HPm, SPm. fold Pm S in HSs.
  destruct (pinv_spec S HSs) as (HSi & HI1 & HI2).
  destruct HSs as (HS & SS & PS).
  assert (HG : wf m n (mmul C Pm)) by eauto 8 with wf.
  assert (HCt : wf n m (mtr C)) by eauto 8 with wf.
  destruct (ekf_post_cov_decomp pinv n m pinv_spec A P Q C R HA HC HP HQ HR SP SQ SR PP PQ' PR) as [_ E].
  fold Pm S K Pp in E. rewrite E.
  intros x Hx Hnz.
  rewrite (qform_msub n) by eauto 8 with wf.
  rewrite (qform_congr n m) by eauto 8 with wf.
  rewrite (mtr_mtr m n) by assumption.
  set (b := mapply (mmul C Pm) x).
  assert (Lb : length b = m) by (unfold b; now apply (length_mapply m n)).
  set (z := mapply (pinv S) b).
  assert (Lz : length z = m) by (unfold z; now apply (length_mapply m m)).
  assert (HSz : mapply S z = b).
  { unfold z. rewrite <- (mapply_mmul m m m) by assumption. rewrite HI1.
    apply mapply_mid; [eapply wf_pos_r; eassumption | assumption]. }
  assert (E1 : qform (pinv S) b = vdot z b).
  { unfold qform. fold z. apply vdot_comm. congruence. }
  set (w := mapply (mtr C) z).
  assert (Lw : length w = n) by (unfold w; now apply (length_mapply n m)).
  assert (E2 : vdot z b = qform Pm w + qform R z).
  { rewrite <- HSz. change (vdot z (mapply S z)) with (qform S z). unfold S.
    rewrite (qform_madd m) by eauto 8 with wf.
    rewrite (qform_congr m n) by assumption. reflexivity. }
  assert (E3 : vdot x (mapply Pm w) = vdot z b).
  { unfold w. rewrite <- (mapply_mmul n n m) by assumption.
    rewrite (vdot_adjoint n m) by (eauto 8 with wf).
    rewrite (mtr_mmul n n m) by assumption. rewrite (mtr_mtr m n) by assumption. rewrite SPm.
    fold b. apply vdot_comm. congruence. }
  assert (E4 := qform_vminus n Pm x w HPm SPm Hx Lw).
  assert (PSPm : PSD n Pm) by now apply PD_PSD.
  assert (G1 : 0 <= qform Pm (vminus x w)) by (apply PSPm; rewrite length_vminus; assumption).
  rewrite E1.
  destruct (nonzero_dec z) as [Hz|Hz].
  - assert (G2 : 0 < qform R z) by now apply PR. lra.
  - assert (G2 : qform R z = 0) by (apply (qform_zero_vec m); assumption).
    assert (Ew : vminus x w = x).
    { apply (vminus_zero_r n); try assumption. intros i Hi. unfold w.
      apply (mapply_zero_vec n m); assumption. }
    rewrite Ew in *. assert (0 < qform Pm x) by now apply PPm. lra.
Qed.

Theorem kf_post_cov_spd : SPD n Pp.
Proof.
  split; [|split].
  - apply (ekf_post_cov_decomp pinv n m pinv_spec A P Q C R); assumption.
  - apply (ekf_post_cov_symmetric pinv n m pinv_spec A P Q C R); assumption.
  - exact kf_post_cov_pd.
Qed.
End KFpd.

(* EKF.forward, arbitrary nonlinear system: positive definite process noise gives a symmetric positive
   DEFINITE posterior covariance (so that it can be factorised / inverted by the next consumer) *)
Theorem ekf_cov_spd (pinv : matR -> matR) (n m : nat) (s : @system R) (Q Rm : matR)
  (x y u : list R) (P : matR) (at_pred : bool) :
  pinv_ok m pinv ->
  wf n n (sA s x u) -> wf m n (sC s x u) ->
  wf n n P -> msym P -> PSD n P -> SPD n Q -> SPD m Rm ->
  SPD n (snd (ekf_forward_gen pinv at_pred s Q Rm x y u P)).
Proof.
  intros Hpinv HA HC HP SP PP (HQ & SQ & PQ) (HR & SR & PR).
  unfold ekf_forward_gen. cbn [snd]. rewrite (wf_cols n n P HP).
  apply (kf_post_cov_spd pinv n m Hpinv); assumption.
Qed.

Lemma SPD_sym_psd n (P : matR) : SPD n P -> wf n n P /\ msym P /\ PSD n P.
Proof. intros (W & S & D). split; [assumption | split; [assumption | now apply PD_PSD]]. Qed.

Theorem ekf_run_cov_spd (pinv : matR -> matR) n m (s : @system R) Q Rm :
  pinv_ok m pinv ->
  (forall x u, wf n n (sA s x u)) -> (forall x u, wf m n (sC s x u)) ->
  SPD n Q -> SPD m Rm ->
  forall steps x P, SPD n P -> SPD n (snd (ekf_run pinv s Q Rm (x, P) steps)).
Proof.
  intros Hp HA HC HQ HR steps.
  induction steps as [|yu steps IH]; intros x P HP.
  - exact HP.
  - rewrite ekf_run_cons. cbn [fst snd].
    destruct (SPD_sym_psd n P HP) as (W & S & D).
    assert (H := ekf_cov_spd pinv n m s Q Rm x (fst yu) (snd yu) P true Hp (HA _ _) (HC _ _) W S D HQ HR).
    unfold ekf_forward.
    destruct (ekf_forward_gen pinv true s Q Rm x (fst yu) (snd yu) P) as [x1 P1] eqn:E. cbn [snd] in H.
    apply (IH x1 P1 H).
Qed.

(* ================================================================== Kalman filter runs *)
Definition kf_run (pinv : matR -> matR) (A B C D : matR) (c1 c2 : list R) (Q Rm : matR)
  (st : list R * matR) (steps : list (list R * list R)) : list R * matR :=
  fold_left (fun st yu => kf_step pinv A B C D c1 c2 Q Rm (fst st) (fst yu) (snd yu) (snd st)) steps st.

Lemma kf_run_cons pinv A B C D c1 c2 Q Rm st yu l :
  kf_run pinv A B C D c1 c2 Q Rm st (yu :: l) =
  kf_run pinv A B C D c1 c2 Q Rm (kf_step pinv A B C D c1 c2 Q Rm (fst st) (fst yu) (snd yu) (snd st)) l.
Proof. reflexivity. Qed.

(* one Kalman step keeps (length x = n, P symmetric positive definite) *)
Theorem kf_step_invariant (pinv : matR -> matR) (n m p : nat) (A B C D : matR) (c1 c2 : list R) (Q Rm : matR)
  (x y u : list R) (P : matR) :
  pinv_ok m pinv -> wf n n A -> wf m n C -> SPD n Q -> SPD m Rm -> SPD n P ->
  length (fst (kf_step pinv A B C D c1 c2 Q Rm x y u P)) = n /\
  SPD n (snd (kf_step pinv A B C D c1 c2 Q Rm x y u P)).
Proof.
  intros Hp HA HC HQ HR HP.
  destruct (SPD_sym_psd n P HP) as (W & S & PS).
  rewrite <- (ekf_documented_linear_is_kf pinv A B C D c1 c2 Q Rm x y u P n HA W).
  split.
  - unfold ekf_forward_gen. cbn [fst lin_system sf]. rewrite length_vplus.
    unfold lin_f. rewrite !length_vplus. now apply (length_mapply n n).
  - apply (ekf_cov_spd pinv n m); try assumption.
Qed.

(* EKF run = Kalman run on every linear system, every run length *)
Theorem ekf_run_linear_is_kf_run (pinv : matR -> matR) (n m : nat) (A B C D : matR) (c1 c2 : list R) (Q Rm : matR) :
  pinv_ok m pinv -> wf n n A -> wf m n C -> SPD n Q -> SPD m Rm ->
  forall steps x P, SPD n P ->
  ekf_run pinv (lin_system A B C D c1 c2) Q Rm (x, P) steps = kf_run pinv A B C D c1 c2 Q Rm (x, P) steps.
Proof.
  intros Hp HA HC HQ HR steps.
  induction steps as [|yu steps IH]; intros x P HP; [reflexivity|].
  rewrite ekf_run_cons, kf_run_cons. cbn [fst snd].
  destruct HP as (W & S & PS).
  unfold ekf_forward. rewrite (ekf_documented_linear_is_kf pinv A B C D c1 c2 Q Rm x (fst yu) (snd yu) P n HA W).
  destruct (kf_step_invariant pinv n m 0 A B C D c1 c2 Q Rm x (fst yu) (snd yu) P Hp HA HC HQ HR (conj W (conj S PS)))
    as [_ H].
  destruct (kf_step pinv A B C D c1 c2 Q Rm x (fst yu) (snd yu) P) as [x1 P1]. cbn [snd] in H.
  apply IH. exact H.
Qed.

(* UKF run = Kalman run on every linear system, every run length, every k > -n, any factor oracle *)
Theorem ukf_run_linear_is_kf_run (pinv msqrt : matR -> matR) (n m p : nat) (A B C D : matR) (c1 c2 : list R)
  (Q Rm : matR) (k : R) :
  pinv_ok m pinv -> factor_ok n msqrt ->
  wf n n A -> wf n p B -> wf m n C -> wf m p D -> length c1 = n -> length c2 = m ->
  SPD n Q -> SPD m Rm -> 0 < IZR (Z.of_nat n) + k ->
  forall steps x P, SPD n P -> length x = n -> Forall (fun yu => length (snd yu) = p) steps ->
  ukf_run pinv msqrt (lin_system A B C D c1 c2) Q Rm k (Some (x, P)) steps =
  Some (kf_run pinv A B C D c1 c2 Q Rm (x, P) steps).
Proof.
  intros Hp Hs HA HB HC HD Hc1 Hc2 HQ HR Hnk steps.
  induction steps as [|yu steps IH]; intros x P HP Hx Hu; [reflexivity|].
  apply Forall_cons_iff in Hu. destruct Hu as [Hu1 Hu2].
  unfold ukf_run. cbn [fold_left fst snd]. unfold ukf_forward.
  rewrite (ukf_repaired_linear_is_kf n m p pinv msqrt A B C D c1 c2 Q Rm x (fst yu) (snd yu) P k
             Hp Hs HA HB HC HD Hc1 Hc2 HQ HR HP Hx Hu1 Hnk).
  rewrite kf_run_cons. cbn [fst snd].
  destruct (kf_step_invariant pinv n m p A B C D c1 c2 Q Rm x (fst yu) (snd yu) P Hp HA HC HQ HR HP) as [L1 S1].
  destruct (kf_step pinv A B C D c1 c2 Q Rm x (fst yu) (snd yu) P) as [x1 P1]. cbn [fst snd] in *.
  exact (IH x1 P1 S1 L1 Hu2).
Qed.

(* so the two filters agree with each other along every run on a linear system *)
Corollary ekf_ukf_runs_agree_linear (pinv msqrt : matR -> matR) (n m p : nat) (A B C D : matR) (c1 c2 : list R)
  (Q Rm : matR) (k : R) :
  pinv_ok m pinv -> factor_ok n msqrt ->
  wf n n A -> wf n p B -> wf m n C -> wf m p D -> length c1 = n -> length c2 = m ->
  SPD n Q -> SPD m Rm -> 0 < IZR (Z.of_nat n) + k ->
  forall steps x P, SPD n P -> length x = n -> Forall (fun yu => length (snd yu) = p) steps ->
  ukf_run pinv msqrt (lin_system A B C D c1 c2) Q Rm k (Some (x, P)) steps =
  Some (ekf_run pinv (lin_system A B C D c1 c2) Q Rm (x, P) steps).
Proof.
  intros Hp Hs HA HB HC HD Hc1 Hc2 HQ HR Hnk steps x P HP Hx Hu.
  rewrite (ekf_run_linear_is_kf_run pinv n m A B C D c1 c2 Q Rm Hp HA HC HQ HR steps x P HP).
  now apply (ukf_run_linear_is_kf_run pinv msqrt n m p).
Qed.

(* ================================================================== EKF = Kalman step of the linearisation *)
(* the affine system with Jacobians A = sA(x,u), C = sC(x,u) (both at the PRIOR mean, as the code sets the
   reference point), passing through (x, f(x,u)) and through (f(x,u), h(f(x,u),u)); B, D arbitrary *)
Definition lin_offset (M Bm : matR) (v x u : list R) : list R := vminus v (vplus (mapply M x) (mapply Bm u)).

Lemma lin_f_offset n (M Bm : matR) (v x u : list R) : wf n (length x) M -> length v = n ->
  lin_f M Bm (lin_offset M Bm v x u) x u = v.
Proof.
  intros HM Hv. unfold lin_f, lin_offset.
  set (t := vplus (mapply M x) (mapply Bm u)).
  assert (Lt : length t = n) by (unfold t; rewrite length_vplus; now apply (length_mapply n (length x))).
  apply (vec_ext n); [now rewrite length_vplus | assumption |].
  intros i Hi. rewrite vget_vplus by lia. rewrite vget_vminus by lia. mnum. lra.
Qed.

Theorem ekf_is_kf_of_linearisation (pinv : matR -> matR) (n m : nat) (s : @system R) (B D Q Rm : matR)
  (x y u : list R) (P : matR) :
  length x = n -> wf n n (sA s x u) -> wf m n (sC s x u) -> wf n n P ->
  length (sf s x u) = n -> length (sh s (sf s x u) u) = m ->
  let A := sA s x u in let C := sC s x u in
  let xm := sf s x u in
  let c1 := lin_offset A B xm x u in
  let c2 := lin_offset C D (sh s xm u) xm u in
  ekf_forward pinv s Q Rm x y u P = kf_step pinv A B C D c1 c2 Q Rm x y u P.
Proof.
  intros Hx HA HC HP Lf Lh A C xm c1 c2.
  assert (E1 : lin_f A B c1 x u = xm).
  { unfold c1. apply (lin_f_offset n); [now rewrite Hx | assumption]. }
  assert (E2 : lin_f C D c2 xm u = sh s xm u).
  { unfold c2. apply (lin_f_offset m); [unfold xm; now rewrite Lf | assumption]. }
  unfold ekf_forward, ekf_forward_gen, kf_step, kf_predict, kf_update.
  fold A C xm. rewrite E1, E2.
  rewrite (wf_cols n n P HP).
  rewrite (wf_rows n n (madd (mmul (mmul A P) (mtr A)) Q)) by eauto 8 with wf.
  reflexivity.
Qed.
