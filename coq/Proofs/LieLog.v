(* C02 (part): properties of the modelled logarithm maps over R. *)
From Coq Require Import Reals Lra Psatz List Nsatz.
From Coquelicot Require Import Coquelicot.
From Interval Require Import Tactic.
Import ListNotations.
From PV Require Import Base.Num Base.RTac Model.LieGroup Model.LieExp Model.LieLog Proofs.LieGroup Proofs.LieExp.
Local Open Scope R_scope.
#[local] Remove Hints NumQ NumZ : typeclass_instances.

Lemma vdot_scale (k : R) (v : vec3R) : vdot (vscale k v) (vscale k v) = k * k * vdot v v.
Proof. destruct v as [[a b] c]. lie_unfold. ring. Qed.
Lemma vnorm_scale (k : R) (v : vec3R) : vnorm (vscale k v) = Rabs k * vnorm v.
Proof.
  unfold vnorm. cbn [tsqrt TransR]. rewrite vdot_scale.
  rewrite sqrt_mult_alt by (apply Rle_0_sqr). f_equal. replace (k * k) with (k²) by reflexivity. apply sqrt_Rsqr_abs.
Qed.
Lemma vnorm_neg (v : vec3R) : vnorm (vneg v) = vnorm v.
Proof. unfold vnorm. f_equal. destruct v as [[a b] c]. lie_unfold. ring. Qed.

Ltac branch_true := match goal with |- context [ltb ?a ?b] =>
  replace (ltb a b) with true by (symmetry; cbn; apply Rltb_true; assumption) end.
Ltac branch_false := match goal with |- context [ltb ?a ?b] =>
  replace (ltb a b) with false by (symmetry; cbn; apply Rltb_false; lra) end.

Lemma absF_R (x : R) : absF x = Rabs x.
Proof.
  unfold absF. cbn. unfold Rltb. destruct (Rlt_dec x 0); [rewrite Rabs_left|rewrite Rabs_pos_eq]; lra.
Qed.

(* ---- |Log| <= pi *)
Lemma SO3_log_norm_regime1 (eps : R) (q : quatR) : eps < vnorm (qv q) -> eps < Rabs (qw q) -> 0 <= eps ->
  vnorm (SO3_log eps q) < PI.
Proof.
  intros Hv Hw He. unfold SO3_log, SO3_log_factor. branch_true. rewrite absF_R. branch_true.
  rewrite vnorm_scale. set (vn := vnorm (qv q)) in *. num_simpl.
  pose proof (atan_bound (vn / qw q)) as Hb.
  replace (IZR 2 * atan (vn / qw q) / vn) with ((2 * atan (vn / qw q)) * / vn) by (field; lra).
  rewrite Rabs_mult, (Rabs_pos_eq (/ vn)) by (left; apply Rinv_0_lt_compat; lra).
  rewrite Rmult_assoc, Rinv_l, Rmult_1_r by lra. apply Rabs_def1; lra.
Qed.
Lemma SO3_log_norm_regime2 (eps : R) (q : quatR) : eps < vnorm (qv q) -> Rabs (qw q) <= eps -> 0 <= eps ->
  vnorm (SO3_log eps q) = PI.
Proof.
  intros Hv Hw He. unfold SO3_log, SO3_log_factor. branch_true. rewrite absF_R. branch_false.
  rewrite vnorm_scale. set (vn := vnorm (qv q)) in *.
  assert (Hpm : pm (qw q) = 1 \/ pm (qw q) = -1).
  { unfold pm. cbn. unfold Rltb. destruct (Rlt_dec (qw q) 0); [right|left]; reflexivity. }
  assert (Hpi := PI_RGT_0).
  destruct Hpm as [E|E]; rewrite E; num_simpl.
  - rewrite Rabs_pos_eq; [field; lra|]. apply Rmult_le_pos; [lra|left; apply Rinv_0_lt_compat; lra].
  - replace (-1 * PI / vn) with (- (PI / vn)) by (field; lra). rewrite Rabs_Ropp.
    rewrite Rabs_pos_eq; [field; lra|]. apply Rmult_le_pos; [lra|left; apply Rinv_0_lt_compat; lra].
Qed.

(* ---- q and -q have the same Log away from angle pi (and away from the identity regime) *)
Definition qneg (q : quatR) : quatR := (vneg (qv q), - qw q).
Lemma SO3_log_neg (eps : R) (q : quatR) : eps < vnorm (qv q) -> eps < Rabs (qw q) -> 0 <= eps ->
  SO3_log eps (qneg q) = SO3_log eps q.
Proof.
  intros Hv Hw He. unfold SO3_log, SO3_log_factor, qneg. cbn [qv qw fst snd]. rewrite vnorm_neg.
  rewrite !absF_R, Rabs_Ropp. repeat branch_true. set (vn := vnorm (qv q)) in *.
  num_simpl.
  assert (Hw0 : qw q <> 0) by (intros E; rewrite E, Rabs_R0 in Hw; lra).
  replace (vn / - qw q) with (- (vn / qw q)) by (field; auto). rewrite atan_opp.
  destruct (qv q) as [[a b] c]. lie_unfold. split_pairs; field; lra.
Qed.

(* ---- Log(Inv q) = - Log q, every regime *)
Lemma SO3_log_inv (eps : R) (q : quatR) : SO3_log eps (SO3_inv q) = vneg (SO3_log eps q).
Proof.
  unfold SO3_log, SO3_inv. cbn [qv qw fst snd]. rewrite vnorm_neg.
  generalize (SO3_log_factor eps (vnorm (qv q)) (qw q)). intros k.
  destruct (qv q) as [[a b] c]. lie_unfold. split_pairs; ring.
Qed.
Lemma RxSO3_log_inv (eps : R) (X : rxso3R) : 0 < snd X ->
  RxSO3_log eps (RxSO3_inv X) = (vneg (fst (RxSO3_log eps X)), - snd (RxSO3_log eps X)).
Proof.
  intros Hs. unfold RxSO3_log, RxSO3_inv. cbn [fst snd]. rewrite SO3_log_inv. apply pair_eq; [reflexivity|].
  cbn [tln TransR]. num_unfold. unfold Rdiv. rewrite Rmult_1_l. apply ln_Rinv. exact Hs.
Qed.

(* ---- Exp(Log q) = +-q for unit q (regime 1), with the closed-form Exp *)
Definition so3_exp_cf (x : vec3R) : quatR :=
  let t := vnorm x in (vscale (sin (t / 2) / t) x, cos (t / 2)).
Lemma so3_exp_is_cf (eps : R) (x : vec3R) : eps < vnorm x -> so3_exp eps x = so3_exp_cf x.
Proof.
  intros H. unfold so3_exp, so3_exp_coef, so3_exp_cf. branch_true. cbn [fst snd]. num_simpl.
  replace (1 / 2 * vnorm x) with (vnorm x / 2) by field. reflexivity.
Qed.

Lemma sqrt_inv_sq (w : R) : w <> 0 -> sqrt (/ (w * w)) = / Rabs w.
Proof.
  intros Hw. replace (/ (w * w)) with ((/ Rabs w) * (/ Rabs w)).
  - apply sqrt_square. left. apply Rinv_0_lt_compat. now apply Rabs_pos_lt.
  - rewrite <- Rinv_mult. f_equal. rewrite <- Rabs_mult. apply Rabs_pos_eq. nra.
Qed.

Lemma exp_log_pos (eps : R) (q : quatR) : 0 <= eps -> eps < vnorm (qv q) -> eps < qw q -> unitq q ->
  so3_exp_cf (SO3_log eps q) = q.
Proof.
  intros He Hv Hw Hu. destruct q as [v w]. cbn [qv qw fst snd] in *.
  pose proof (vnorm_sq v) as Hs. unfold unitq, qnorm2 in Hu. cbn [qv qw fst snd] in Hu.
  unfold SO3_log, SO3_log_factor. cbn [qv qw fst snd]. branch_true. rewrite absF_R, (Rabs_pos_eq w) by lra. branch_true.
  set (vn := vnorm v) in *. num_simpl.
  assert (Hvn : 0 < vn) by lra. assert (Hw0 : 0 < w) by lra.
  set (a := atan (vn / w)).
  assert (Ha : 0 < a < PI / 2).
  { unfold a. pose proof (atan_bound (vn / w)). split; [|lra]. rewrite <- atan_0. apply atan_increasing.
    apply Rdiv_lt_0_compat; lra. }
  assert (Hsq : sqrt (1 + (vn / w)²) = / w).
  { replace (1 + (vn / w)²) with (/ (w * w)) by (unfold Rsqr; field_simplify_eq; [nra|lra]).
    rewrite sqrt_inv_sq by lra. now rewrite Rabs_pos_eq by lra. }
  assert (Hsin : sin a = vn). { unfold a. rewrite sin_atan, Hsq. field. lra. }
  assert (Hcos : cos a = w). { unfold a. rewrite cos_atan, Hsq. field. lra. }
  unfold so3_exp_cf. rewrite vnorm_scale. fold vn.
  replace (Rabs (IZR 2 * a / vn) * vn) with (2 * a).
  2:{ rewrite Rabs_pos_eq; [field; lra|]. apply Rmult_le_pos; [lra|left; now apply Rinv_0_lt_compat]. }
  replace (2 * a / 2) with a by field. rewrite Hsin, Hcos. apply pair_eq; [|reflexivity].
  destruct v as [[x y] z]. lie_unfold. split_pairs; field; lra.
Qed.
(* w < 0: the result is -q (the same rotation) *)
Lemma exp_log_neg (eps : R) (q : quatR) : 0 <= eps -> eps < vnorm (qv q) -> qw q < - eps -> unitq q ->
  so3_exp_cf (SO3_log eps q) = qneg q.
Proof.
  intros He Hv Hw Hu.
  assert (Hq : q = qneg (qneg q)).
  { unfold qneg. destruct q as [[[x y] z] w]. cbn [qv qw fst snd]. lie_unfold. split_pairs; ring. }
  rewrite Hq at 1. rewrite SO3_log_neg.
  - apply exp_log_pos; auto.
    + unfold qneg; cbn [qv fst]. now rewrite vnorm_neg.
    + unfold qneg; cbn [qw snd]. lra.
    + unfold unitq, qneg, qnorm2 in *. cbn [qv qw fst snd] in *. rewrite <- Hu.
      destruct (qv q) as [[x y] z]. lie_unfold. ring.
  - unfold qneg; cbn [qv fst]. now rewrite vnorm_neg.
  - unfold qneg; cbn [qw snd]. rewrite Rabs_pos_eq; lra.
  - exact He.
Qed.
(* -q is the same rotation as q *)
Lemma qneg_same_rotation (q : quatR) : SO3_matrix (qneg q) = SO3_matrix q.
Proof. unfold qneg. destruct q as [[[x y] z] w]. lie_ring. Qed.

(* ---- Log(Exp x) = x for rotation angle below pi *)
Lemma log_exp_so3 (eps : R) (x : vec3R) : 0 <= eps -> eps < vnorm x -> vnorm x < PI ->
  eps < vnorm (qv (so3_exp_cf x)) -> eps < cos (vnorm x / 2) ->
  SO3_log eps (so3_exp_cf x) = x.
Proof.
  intros He Hx Hpi Hv Hw. unfold SO3_log, SO3_log_factor.
  assert (Hqw : qw (so3_exp_cf x) = cos (vnorm x / 2)) by reflexivity.
  assert (Hqv : qv (so3_exp_cf x) = vscale (sin (vnorm x / 2) / vnorm x) x) by reflexivity.
  rewrite Hqw. branch_true. rewrite absF_R, (Rabs_pos_eq (cos (vnorm x / 2))) by lra. branch_true.
  rewrite Hqv in *. rewrite vnorm_scale in *. set (t := vnorm x) in *.
  assert (Ht : 0 < t) by lra.
  assert (Hs : 0 < sin (t / 2)) by (apply sin_gt_0; lra).
  rewrite (Rabs_pos_eq (sin (t / 2) / t)) by (left; apply Rdiv_lt_0_compat; lra).
  replace (sin (t / 2) / t * t) with (sin (t / 2)) by (field; lra).
  num_simpl.
  replace (sin (t / 2) / cos (t / 2)) with (tan (t / 2)) by reflexivity.
  rewrite atan_tan by (split; lra).
  destruct x as [[a b] c]. lie_unfold. split_pairs; field; lra.
Qed.

(* ---- so3_Jl_inv is the inverse of so3_Jl on the closed-form branches (0 < theta < 2 pi) *)
Lemma Jl_inv_Jl_poly (a b c th S C s cc : R) :
  th <> 0 -> s <> 0 -> a * a + b * b + c * c = th * th ->
  S = 2 * s * cc -> C = 1 - 2 * s * s -> s * s + cc * cc = 1 ->
  let K := skew (a, b, c) in
  let Jl := madd3 (madd3 mid3 (mscale3 ((1 - C) / (th * th)) K)) (mscale3 ((th - S) / (th * (th * th))) (mmul3 K K)) in
  let Ji := madd3 (madd3 mid3 (mscale3 (- (1 / 2)) K)) (mscale3 ((1 - th * cc / (2 * s)) / (th * th)) (mmul3 K K)) in
  mmul3 Ji Jl = mid3.
Proof.
  intros Hth Hs Hn HS HC Hsc. cbv zeta. subst S C. lie_unfold.
  split_pairs; field_simplify_eq; auto; cbn [Rpow_def.pow]; clear Hth Hs; nsatz.
Qed.

Lemma so3_Jl_inv_Jl (eps : R) (x : vec3R) : 0 <= eps -> eps < vnorm x -> vnorm x < 2 * PI ->
  mmul3 (so3_Jl_inv eps x) (so3_Jl eps x) = mid3.
Proof.
  intros He Hx Hpi. pose proof (vnorm_sq x) as Hs.
  unfold so3_Jl_inv, so3_Jl_inv_coef, so3_Jl, so3_Jl_coef. repeat branch_true. cbn [fst snd].
  set (t := vnorm x) in *. num_simpl.
  assert (Hsin : 0 < sin (1 / 2 * t)) by (apply sin_gt_0; lra).
  destruct x as [[a b] c].
  assert (Hn : a * a + b * b + c * c = t * t) by (revert Hs; lie_unfold; intros; lra).
  replace (cos t) with (1 - 2 * sin (1 / 2 * t) * sin (1 / 2 * t))
    by (replace t with (2 * (1 / 2 * t)) at 3 by field; symmetry; apply cos_2a_sin).
  replace (sin t) with (2 * sin (1 / 2 * t) * cos (1 / 2 * t))
    by (replace t with (2 * (1 / 2 * t)) at 3 by field; symmetry; apply sin_2a).
  pose proof (sin2_cos2 (1 / 2 * t)) as Hsc. unfold Rsqr in Hsc.
  apply (Jl_inv_Jl_poly a b c t _ _ (sin (1 / 2 * t)) (cos (1 / 2 * t))); auto; lra.
Qed.

(* se3: Log (Exp x) = x for eps < theta < pi (closed-form branches on both sides) *)
Definition se3_exp_cf (x : vec3R * vec3R) (eps : R) : se3R := (mvmul (so3_Jl eps (snd x)) (fst x), so3_exp_cf (snd x)).
Lemma mvmul_mmul3 (A B : @mat3 R) (v : vec3R) : mvmul A (mvmul B v) = mvmul (mmul3 A B) v.
Proof. destruct v as [[a b] c]. lie_ring. Qed.
Lemma mvmul_id (v : vec3R) : mvmul mid3 v = v.
Proof. destruct v as [[a b] c]. lie_ring. Qed.
Lemma log_exp_se3 (eps : R) (x : vec3R * vec3R) : 0 <= eps -> eps < vnorm (snd x) -> vnorm (snd x) < PI ->
  eps < vnorm (qv (so3_exp_cf (snd x))) -> eps < cos (vnorm (snd x) / 2) ->
  SE3_log eps (se3_exp eps x) = x.
Proof.
  intros He Hx Hpi Hv Hw. destruct x as [tau phi]. cbn [fst snd] in *.
  unfold SE3_log, se3_exp. cbn [fst snd]. rewrite (so3_exp_is_cf eps phi Hx).
  rewrite (log_exp_so3 eps phi He Hx Hpi Hv Hw).
  rewrite mvmul_mmul3, so3_Jl_inv_Jl by (auto; pose proof PI_RGT_0; lra). now rewrite mvmul_id.
Qed.
