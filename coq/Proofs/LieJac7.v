(* C04 (part 7): the per-operation curve statements compose (chain rule over a program = product of the L's).
   Two composite programs as worked instances:
     Retr on SO3:  a |-> Exp(a) @ X        gradient w.r.t. a = Jl(a)            (Exp backward, then Mul first argument)
     SE3:          X |-> Act(Inv(X) @ Y, p)   L = act_jac(out) . I . (-Adj(X^-1))   (Inv, Mul first argument, Act) *)
From Coq Require Import Reals Lra Psatz List Nsatz.
From Coquelicot Require Import Coquelicot.
Import ListNotations.
From PV Require Import Base.Num Base.RTac Model.LieGroup Model.LieExp Proofs.LieGroup Proofs.LieExp Proofs.LieJac
  Proofs.LieJac2 Proofs.LieJac3 Proofs.LieJac4 Proofs.LieJac5.
Local Open Scope R_scope.
#[local] Remove Hints NumQ NumZ : typeclass_instances.

Theorem SO3_mul_dX_curve (Q : R -> quatR) (Y : quatR) d : dq4 Q (tanSO3 d (Q 0)) ->
  dq4 (fun e => SO3_mul (Q e) Y) (tanSO3 d (SO3_mul (Q 0) Y)).
Proof.
  intros HQ. pose proof (dq4_mul _ _ _ _ HQ (dq4_const Y)) as H. cbv beta in H.
  now rewrite mul_0_r, qadd_0_r, tan_mul in H.
Qed.
Theorem SO3_mul_dY_curve (X : quatR) (Q : R -> quatR) d : unitq X -> dq4 Q (tanSO3 d (Q 0)) ->
  dq4 (fun e => SO3_mul X (Q e)) (tanSO3 (mvmul (SO3_Adj X) d) (SO3_mul X (Q 0))).
Proof.
  intros Hu HQ. pose proof (dq4_mul _ _ _ _ (dq4_const X) HQ) as H. cbv beta in H.
  now rewrite mul_0_l, qadd_0_l, mul_tan in H.
Qed.
Theorem SO3_inv_curve (Q : R -> quatR) d : unitq (Q 0) -> dq4 Q (tanSO3 d (Q 0)) ->
  dq4 (fun e => SO3_inv (Q e)) (tanSO3 (vneg (mvmul (SO3_Adj (SO3_inv (Q 0))) d)) (SO3_inv (Q 0))).
Proof. intros Hu HQ. pose proof (dq4_inv _ _ HQ) as H. now rewrite SO3_inv_tan in H. Qed.

(* Retr(X, a) = Exp(a) @ X on SO3: the gradient w.r.t. a is Jl(a) (left perturbation of the result), closed-form branch *)
Theorem SO3_retr_da (eps : R) (X : quatR) (a da : vec3R) i : 0 <= eps -> eps < vnorm a ->
  is_derive (fun h => qc i (SO3_mul (so3_exp eps (vadd a (vscale h da))) X)) 0
            (qc i (tanSO3 (mvmul (so3_Jl eps a) da) (SO3_mul (so3_exp eps a) X))).
Proof.
  intros He Ha.
  pose proof (SO3_mul_dX_curve (fun h => so3_exp eps (vadd a (vscale h da))) X (mvmul (so3_Jl eps a) da)) as H.
  cbv beta in H. rewrite vline_0 in H. apply H. intros j. apply (so3_exp_dx eps a da j He Ha).
Qed.
(* ... and w.r.t. X it is Adj(Exp a) *)
Theorem SO3_retr_dX (eps : R) (X : quatR) (a d : vec3R) i : 0 <= eps -> eps < vnorm a ->
  is_derive (fun e => qc i (SO3_mul (so3_exp eps a) (pertSO3 d X e))) 0
            (qc i (tanSO3 (mvmul (SO3_Adj (so3_exp eps a)) d) (SO3_mul (so3_exp eps a) X))).
Proof. intros He Ha. apply SO3_mul_dY. now apply so3_exp_unit_closed. Qed.

(* a three-operation SE3 program: X |-> Act(Inv(X) @ Y, p) *)
Theorem SE3_inv_mul_act_dX (X : R -> se3R) (Y : se3R) p d : unitq (snd (X 0)) -> unitq (snd Y) -> dse3 X (tanSE3 d (X 0)) ->
  let d1 := v6neg (SE3_AdjXa (SE3_inv (X 0)) d) in                     (* Inv:  L = -Adj(X^-1) *)
  let out := SE3_act (SE3_mul (SE3_inv (X 0)) Y) p in
  dv3 (fun e => SE3_act (SE3_mul (SE3_inv (X e)) Y) p)
      (vadd (fst d1) (mvmul (skew (vneg out)) (snd d1))).             (* Mul: L = I;  Act: L = [I, skew(-out)] *)
Proof.
  intros Hu HY HX d1 out.
  pose proof (SE3_inv_curve X d Hu HX) as H1.
  assert (Hi : unitq (snd (SE3_inv (X 0)))) by (apply valid_SE3_inv; exact Hu).
  pose proof (SE3_mul_dX_curve (fun e => SE3_inv (X e)) Y d1 Hi H1) as H2. cbv beta in H2.
  assert (Hm : unitq (snd (SE3_mul (SE3_inv (X 0)) Y))) by (apply valid_SE3_mul; assumption).
  exact (SE3_act_dX_curve (fun e => SE3_mul (SE3_inv (X e)) Y) p d1 Hm H2).
Qed.
