(* C01: the se3 exponential.  The 4x4 matrix of Exp((tau,phi)) is [[R, p],[0,1]]; "is the matrix
   exponential of [[K, tau],[0,0]]" is the initial value problem  R' = K R, R(0) = I,
   p' = K p + tau, p(0) = 0  (the block form of Y' = G Y, Y(0) = I).  Existence and uniqueness. *)
From Coq Require Import Reals Lra Psatz List Nsatz.
From Coquelicot Require Import Coquelicot.
Import ListNotations.
From PV Require Import Base.Num Base.RTac Model.LieGroup Model.LieExp Proofs.LieGroup Proofs.LieExp Proofs.ExpODE.
Local Open Scope R_scope.
#[local] Remove Hints NumQ NumZ : typeclass_instances.

Definition vc (i : nat) (v : vec3R) : R := match i with 0%nat => vx v | 1%nat => vy v | _ => vz v end.

(* V(t) = t Jl(t phi) in closed form:  t I + (1-cos(t th))/th^2 K + (t th - sin(t th))/th^3 K^2 *)
Definition V_th (th : R) (x : vec3R) (t : R) : @mat3 R :=
  madd3 (madd3 (mscale3 t mid3) (mscale3 ((1 - cos (t * th)) / (th * th)) (skew x)))
        (mscale3 ((t * th - sin (t * th)) / (th * (th * th))) (mmul3 (skew x) (skew x))).
Definition ptraj (th : R) (x tau : vec3R) (t : R) : vec3R := mvmul (V_th th x t) tau.

Lemma ptraj_0 th x tau : th <> 0 -> ptraj th x tau 0 = vzero.
Proof.
  intros H. unfold ptraj, V_th. rewrite Rmult_0_l, sin_0, cos_0.
  destruct x as [[a b] c], tau as [[u v] w]. lie_unfold. split_pairs; field; auto.
Qed.
Lemma ptraj_ode a b c th tau : th <> 0 -> a * a + b * b + c * c = th * th -> forall t i, (i < 3)%nat ->
  is_derive (fun t => vc i (ptraj th (a, b, c) tau t)) t
            (vc i (vadd (mvmul (skew (a, b, c)) (ptraj th (a, b, c) tau t)) tau)).
Proof.
  intros Hth Hn t i Hi. destruct tau as [[u v] w].
  destruct i as [|[|[|i]]]; try lia;
  (unfold ptraj, V_th, vc; lie_unfold; auto_derive; auto;
   set (S := sin (t * th)); set (C := cos (t * th)); clearbody S C; field_simplify_eq; auto;
   cbn [Rpow_def.pow]; clear - Hn; nsatz).
Qed.

(* uniqueness of the translation column: any y with y' = K y + tau, y(0) = 0 is ptraj *)
Section UniqP.
Variables a b c th : R.
Hypothesis Hth : th <> 0.
Hypothesis Hn : a * a + b * b + c * c = th * th.
Variable tau : vec3R.
Variables y0 y1 y2 : R -> R.
Definition yv (t : R) : vec3R := (y0 t, y1 t, y2 t).
Definition rhs (t : R) : vec3R := vadd (mvmul (skew (a, b, c)) (yv t)) tau.
Hypothesis D0 : forall t, is_derive y0 t (vc 0 (rhs t)).
Hypothesis D1 : forall t, is_derive y1 t (vc 1 (rhs t)).
Hypothesis D2 : forall t, is_derive y2 t (vc 2 (rhs t)).
Hypothesis Y0 : yv 0 = vzero.

(* d(t) = y(t) - ptraj(t);  q(t) = Z(t) d(t) has zero derivative *)
Definition dv (t : R) : vec3R := vsub (yv t) (ptraj th (a, b, c) tau t).
Definition qv (t : R) : vec3R := mvmul (Zm a b c th t) (dv t).

Lemma qv_const i : (i < 3)%nat -> forall t, is_derive (fun t => vc i (qv t)) t 0.
Proof.
  intros Hi t.
  assert (E0 := fun t => ex_intro _ _ (D0 t)). assert (E1 := fun t => ex_intro _ _ (D1 t)).
  assert (E2 := fun t => ex_intro _ _ (D2 t)).
  destruct tau as [[u v] w].
  destruct i as [|[|[|i]]]; try lia;
  (unfold qv, dv, yv, ptraj, V_th, Zm, rod_th, vc; lie_unfold; auto_derive;
   [ repeat split; first [apply E0 | apply E1 | apply E2 | exact I]
   | repeat match goal with
       | |- context [Derive (fun x => ?f x) ?t] => change (Derive (fun x => f x) t) with (Derive f t)
       end;
     rewrite ?(is_derive_unique _ _ _ (D0 _)), ?(is_derive_unique _ _ _ (D1 _)), ?(is_derive_unique _ _ _ (D2 _));
     unfold rhs, yv, vc; lie_unfold;
     replace (- t * th) with (- (t * th)) by ring; rewrite ?sin_neg, ?cos_neg;
     pose proof (sin2_cos2 (t * th)) as Hsc; unfold Rsqr in Hsc;
     set (S := sin (t * th)) in *; set (C := cos (t * th)) in *; clearbody S C;
     field_simplify_eq; auto; cbn [Rpow_def.pow];
     generalize (y0 t) (y1 t) (y2 t); intros; clear - Hn Hsc; nsatz ]).
Qed.
End UniqP.

Lemma mvmul_mmul3' (A B : @mat3 R) (v : vec3R) : mvmul A (mvmul B v) = mvmul (mmul3 A B) v.
Proof. destruct v as [[p q] r]. lie_ring. Qed.
Lemma mvmul_id' (v : vec3R) : mvmul mid3 v = v.
Proof. destruct v as [[p q] r]. lie_ring. Qed.
Lemma mvmul_zero (A : @mat3 R) : mvmul A vzero = vzero.
Proof. lie_ring. Qed.
Lemma v3_ext (u v : vec3R) : (forall i, (i < 3)%nat -> vc i u = vc i v) -> u = v.
Proof.
  intros H. pose proof (H 0%nat) as H0. pose proof (H 1%nat) as H1. pose proof (H 2%nat) as H2.
  destruct u as [[u0 u1] u2], v as [[v0 v1] v2]. unfold vc in *. lie_unfold.
  rewrite H0, H1, H2 by lia. reflexivity.
Qed.
Lemma vsub_zero (y p : vec3R) : vsub y p = vzero -> y = p.
Proof.
  destruct p as [[p0 p1] p2], y as [[q0 q1] q2]. lie_unfold. intros Hd. inversion Hd.
  split_pairs; lra.
Qed.

Section UniqP2.
Variables a b c th : R.
Hypothesis Hth : th <> 0.
Hypothesis Hn : a * a + b * b + c * c = th * th.
Variable tau : vec3R.
Variables y0 y1 y2 : R -> R.
Notation yvt := (yv y0 y1 y2).
Notation rhst := (rhs a b c tau y0 y1 y2).
Hypothesis D0 : forall t, is_derive y0 t (vc 0 (rhst t)).
Hypothesis D1 : forall t, is_derive y1 t (vc 1 (rhst t)).
Hypothesis D2 : forall t, is_derive y2 t (vc 2 (rhst t)).
Hypothesis Y0 : yvt 0 = vzero.
Notation qvt := (qv a b c th tau y0 y1 y2).
Notation dvt := (dv a b c th tau y0 y1 y2).

Lemma qv_zero t : qvt t = vzero.
Proof.
  assert (H0 : qvt 0 = vzero).
  { unfold qv, dv. rewrite Y0, ptraj_0 by assumption. unfold Zm, rod_th.
    rewrite Ropp_0, Rmult_0_l, sin_0, cos_0. lie_unfold. split_pairs; field; auto. }
  rewrite <- H0. apply v3_ext. intros i Hi.
  apply (zero_derivative_const (fun t => vc i (qvt t))). intros u.
  apply (qv_const a b c th Hth Hn tau y0 y1 y2 D0 D1 D2 i Hi).
Qed.
Theorem translation_unique t : yvt t = ptraj th (a, b, c) tau t.
Proof.
  assert (Hd : dvt t = vzero).
  { rewrite <- (mvmul_id' (dvt t)), <- (W_Z_identity a b c th Hth Hn t), <- mvmul_mmul3'.
    change (mvmul (Zm a b c th t) (dvt t)) with (qvt t). rewrite qv_zero. apply mvmul_zero. }
  unfold dv in Hd. apply vsub_zero. exact Hd.
Qed.
End UniqP2.

(* packaged: (E, p) is the matrix exponential of the se3 generator [[K, tau],[0,0]] *)
Definition is_mexp_se3 (tau phi : vec3R) (E : @mat3 R) (p : vec3R) : Prop :=
  is_mexp_so3 phi E /\
  exists yf : R -> vec3R,
    yf 0 = vzero /\
    (forall t i, (i < 3)%nat -> is_derive (fun t => vc i (yf t)) t (vc i (vadd (mvmul (skew phi) (yf t)) tau))) /\
    yf 1 = p.
Definition V1 (phi : vec3R) : @mat3 R := V_th (vnorm phi) phi 1.
Theorem se3_exponential (tau phi : vec3R) (E : @mat3 R) (p : vec3R) : vnorm phi <> 0 ->
  (is_mexp_se3 tau phi E p <-> E = rodrigues phi /\ p = mvmul (V1 phi) tau).
Proof.
  intros Hx. pose proof (vnorm_sq phi) as Hs. unfold is_mexp_se3, V1.
  set (th := vnorm phi) in *. clearbody th. destruct phi as [[a b] c].
  assert (Hn : a * a + b * b + c * c = th * th) by (revert Hs; lie_unfold; intros; lra).
  split.
  - intros [HE (yf & H0 & Hd & H1)]. split.
    + apply rodrigues_is_the_exponential in HE; auto.
      unfold vnorm. cbn [tsqrt TransR]. intros Hz. apply Hx.
      assert (Hq : th * th = 0) by (rewrite <- Hn; revert Hz; lie_unfold; intros Hz; apply sqrt_eq_0 in Hz; nra).
      nra.
    + subst p. fold (ptraj th (a, b, c) tau 1).
      set (g := fun i t => vc i (yf t)).
      assert (HY : forall t, yf t = yv (g 0%nat) (g 1%nat) (g 2%nat) t).
      { intros t. unfold yv, g, vc. destruct (yf t) as [[u v] w]. reflexivity. }
      rewrite HY.
      apply (translation_unique a b c th Hx Hn tau); try (rewrite <- HY; exact H0);
        intros t; unfold rhs; rewrite <- HY; apply Hd; lia.
  - intros [-> ->]. split.
    + apply rodrigues_is_the_exponential; [|reflexivity].
      unfold vnorm. cbn [tsqrt TransR]. intros Hz. apply Hx.
      assert (Hq : th * th = 0) by (rewrite <- Hn; revert Hz; lie_unfold; intros Hz; apply sqrt_eq_0 in Hz; nra).
      nra.
    + exists (ptraj th (a, b, c) tau). split; [now apply ptraj_0|]. split; [|reflexivity].
      intros t i Hi. now apply ptraj_ode.
Qed.

(* the model: on the closed-form branch the 4x4 matrix of se3 Exp is [[rodrigues phi, V1 phi tau],[0,1]] *)
Lemma so3_Jl_is_V1 (eps : R) (phi : vec3R) : 0 <= eps -> eps < vnorm phi -> so3_Jl eps phi = V1 phi.
Proof.
  intros He H. unfold so3_Jl, so3_Jl_coef, V1, V_th.
  replace (ltb eps (vnorm phi)) with true by (symmetry; cbn; now apply Rltb_true).
  cbn [fst snd]. set (t := vnorm phi) in *. assert (Ht : t <> 0) by lra. clearbody t.
  rewrite !Rmult_1_l. destruct phi as [[a b] c]. lie_unfold. num_simpl. split_pairs; field; auto.
Qed.
Lemma se3_exp_matrix (eps : R) (tau phi : vec3R) : 0 <= eps -> eps < vnorm phi ->
  matrix4 SE3_act4 (se3_exp eps (tau, phi)) = block4 (rodrigues phi) (mvmul (V1 phi) tau).
Proof.
  intros He H. rewrite SE3_matrix_blocks. unfold se3_exp. cbn [fst snd].
  rewrite so3_matrix_rodrigues, so3_Jl_is_V1 by assumption. reflexivity.
Qed.
