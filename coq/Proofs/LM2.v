(* C08 (strengthening):
   - the exact outcome of one LevenbergMarquardt.step for every solver behaviour: first j trials worse
     (j = 0..reject), then the solver raises / returns an acceptable trial / the rejection budget is
     exhausted; with the strategy state (one strategy.update per completed trial, none for a raise);
   - sequences of calls: EVERY returned value is the true loss of the parameters left behind by its call,
     LM-only sequences always terminate, and while no call exhausts its budget the returned losses are
     non-increasing;
   - strategies: quality comparison at zero predicted decrease; TrustRegion never divides by zero and keeps
     damping = 1/radius as a true inverse, documented moves in terms of the previous radius. *)
From Coq Require Import Reals Lra List Arith Lia Bool Sorted.
Import ListNotations.
From PV Require Import Base.Num Model.LM Proofs.LM.
Local Open Scope R_scope.
#[local] Remove Hints NumQ NumZ : typeclass_instances.

Section LM2.
Variables Theta Delta : Type.
Variable loss : Theta -> R.
Variable retract : Theta -> Delta -> Theta.
Variable negd : Delta -> Delta.
Variable pred : Theta -> Delta -> R.
Variable solve : nat -> option Delta.

Notation ostR := (ost (F:=R) Theta).
Notation body := (lm_body Theta Delta loss retract negd pred solve).
Notation loop := (lm_loop Theta Delta loss retract negd pred solve).
Notation step := (lm_step Theta Delta loss retract negd pred solve).
Notation gstep := (gn_step Theta Delta loss retract solve).
Notation cache_ok := (cache_ok Theta loss).
Notation run_calls := (run_calls Theta Delta loss retract negd pred solve).
Notation do_call := (do_call Theta Delta loss retract negd pred solve).

(* strategy state after the trials [ds] of one call (each compared with the loss l0 at the start of the call) *)
Definition strat_after (c : scfg (F:=R)) (th0 : Theta) (l0 : R) (ds : list Delta) (st : sstate) : sstate :=
  fold_left (fun st d => supdate c st l0 (loss (retract th0 d)) (pred th0 d)) ds st.

(* the first [length ds] solves of the call return the steps ds and each trial is worse than l0 *)
Definition worse_trials (th0 : Theta) (l0 : R) (n0 : nat) (ds : list Delta) : Prop :=
  forall i d, nth_error ds i = Some d -> solve (n0 + i) = Some d /\ l0 < loss (retract th0 d).

Lemma worse_trials_tail th0 l0 n0 d ds : worse_trials th0 l0 n0 (d :: ds) ->
  solve n0 = Some d /\ l0 < loss (retract th0 d) /\ worse_trials th0 l0 (S n0) ds.
Proof.
  intros H. destruct (H 0%nat d eq_refl) as [H1 H2]. rewrite Nat.add_0_r in H1.
  split; [exact H1|]. split; [exact H2|]. unfold worse_trials.
  intros i e Hi. replace (S n0 + i)%nat with (n0 + S i)%nat by lia. apply H. exact Hi.
Qed.

(* the loop consumes the worse trials one by one *)
Lemma loop_skips_worse c reject th0 l0 : forall ds fuel cch r st n,
  (forall d, In d ds -> retract (retract th0 d) (negd d) = th0) ->
  worse_trials th0 l0 n ds -> (r + length ds <= reject)%nat -> (length ds < fuel)%nat ->
  loop c reject th0 fuel {| th := th0; cached := cch; last := l0; rej := r; ss := st; nsolve := n |} l0 =
  loop c reject th0 (fuel - length ds)
       {| th := th0; cached := cch; last := l0; rej := (r + length ds)%nat; ss := strat_after c th0 l0 ds st;
          nsolve := (n + length ds)%nat |} l0.
Proof.
  induction ds as [|d ds IH]; intros fuel cch r st n Hu Hw Hr Hf.
  - cbn [length strat_after fold_left]. now rewrite Nat.sub_0_r, !Nat.add_0_r.
  - destruct (worse_trials_tail _ _ _ _ _ Hw) as (Hs & Hl & Hw').
    destruct fuel as [|f]; [cbn in Hf; lia|]. cbn [lm_loop th cached last rej ss nsolve].
    replace (leb l0 l0) with true by (symmetry; cbn; apply Rleb_true; lra).
    unfold lm_body. cbn [th cached last rej ss nsolve]. rewrite Hs.
    replace (ltb l0 (loss (retract th0 d))) with true by (symmetry; cbn; now apply Rltb_true).
    cbn [length] in Hr, Hf.
    replace (Nat.ltb r reject) with true by (symmetry; apply Nat.ltb_lt; lia). cbn [andb].
    rewrite (Hu d) by (left; reflexivity). rewrite IH by (auto; try lia; intros e He; apply Hu; right; exact He).
    cbn [length strat_after fold_left]. f_equal. f_equal; lia.
Qed.

(* EXACT outcome of one LM call.  n0 = number of solves made before the call, l0 = loss given.
   Only the rejected steps need an exact retraction undo (no global retract_undo hypothesis). *)
Theorem lm_step_exact c reject (s : ostR) (ds : list Delta) : cache_ok s ->
  let th0 := th s in let l0 := loss (th s) in let n0 := nsolve s in let j := length ds in
  (forall d, In d ds -> retract (retract th0 d) (negd d) = th0) ->
  worse_trials th0 l0 n0 ds -> (j <= reject)%nat ->
  let stj := strat_after c th0 l0 ds (ss s) in
  (* the solver raises at solve j of the call: parameters and loss as given, no strategy update for that trial *)
  (solve (n0 + j) = None ->
     step c reject s = Some ({| th := th0; cached := Some l0; last := l0; rej := j; ss := stj; nsolve := S (n0 + j) |}, l0)) /\
  (* trial j is kept: it is not worse, or the rejection budget is exhausted *)
  (forall d, solve (n0 + j) = Some d -> loss (retract th0 d) <= l0 \/ j = reject ->
     let l1 := loss (retract th0 d) in
     step c reject s = Some ({| th := retract th0 d; cached := Some l1; last := l0; rej := j;
                               ss := supdate c stj l0 l1 (pred th0 d); nsolve := S (n0 + j) |}, l1)).
Proof.
  intros Hc th0 l0 n0 j Hu Hw Hj stj. subst th0 l0 n0 j stj. unfold lm_step. rewrite (cur_loss_true Theta loss s Hc).
  rewrite (loop_skips_worse c reject (th s) (loss (th s)) ds (S (S reject)) (cached s) 0 (ss s) (nsolve s) Hu Hw) by lia.
  cbn [Nat.add].
  destruct (S (S reject) - length ds)%nat as [|f] eqn:Ef; [lia|]. cbn [lm_loop th cached last rej ss nsolve].
  replace (leb (loss (th s)) (loss (th s))) with true by (symmetry; cbn; apply Rleb_true; lra).
  unfold lm_body. cbn [th cached last rej ss nsolve]. split.
  - intros Hs. rewrite Hs. reflexivity.
  - intros d Hs Hacc. rewrite Hs. set (l1 := loss (retract (th s) d)) in *.
    assert (E : (ltb (loss (th s)) l1 && Nat.ltb (length ds) reject) = false).
    { destruct Hacc as [Hle | Hex].
      - replace (ltb (loss (th s)) l1) with false; [reflexivity|]. symmetry. cbn. now apply Rltb_false.
      - rewrite Hex. rewrite Nat.ltb_irrefl. apply andb_false_r. }
    rewrite E. reflexivity.
Qed.

(* every solver behaviour falls under lm_step_exact: there is always such a prefix of worse trials *)
Lemma worse_prefix_exists (th0 : Theta) (l0 : R) (n0 reject : nat) :
  exists ds, worse_trials th0 l0 n0 ds /\ (length ds <= reject)%nat /\
    (length ds = reject \/ solve (n0 + length ds) = None \/
     exists d, solve (n0 + length ds) = Some d /\ loss (retract th0 d) <= l0).
Proof.
  induction reject as [|r (ds & Hw & Hl & Hc)].
  - exists []. split; [intros i d Hi; destruct i; discriminate|]. cbn. split; [lia | left; reflexivity].
  - destruct Hc as [Hlen | Hstop].
    + destruct (solve (n0 + length ds)) as [d|] eqn:Es.
      * destruct (Rlt_dec l0 (loss (retract th0 d))) as [Hlt|Hge].
        -- exists (ds ++ [d]). rewrite app_length. cbn [length]. split; [|split; [lia | left; lia]].
           intros i e Hi. destruct (Nat.lt_ge_cases i (length ds)) as [Hi'|Hi'].
           ++ rewrite nth_error_app1 in Hi by assumption. now apply Hw.
           ++ rewrite nth_error_app2 in Hi by assumption.
              destruct (i - length ds)%nat as [|k] eqn:Ek; [|destruct k; discriminate].
              cbn in Hi. inversion Hi; subst e. replace i with (length ds) by lia. split; assumption.
        -- exists ds. split; [assumption|]. split; [lia|]. right. right. exists d. split; [assumption | lra].
      * exists ds. split; [assumption|]. split; [lia | right; left; exact Es].
    + exists ds. split; [assumption|]. split; [lia | right; exact Hstop].
Qed.

(* ---------------- sequences of calls: per-call trace *)
Hypothesis retract_undo : forall t d, retract (retract t d) (negd d) = t.
Lemma last_cons_default {A} (l : list A) (a d : A) : List.last (a :: l) d = List.last l a.
Proof.
  revert a d. induction l as [|b l IH]; intros a d; [reflexivity|].
  change (List.last (a :: b :: l) d) with (List.last (b :: l) d). now rewrite !IH.
Qed.
Fixpoint run_trace (s : ostR) (ks : list (call)) : option (list (ostR * R)) :=
  match ks with
  | [] => Some []
  | k :: r => match do_call s k with
              | None => None
              | Some (s', v) => match run_trace s' r with None => None | Some tr => Some ((s', v) :: tr) end
              end
  end.
Lemma run_trace_calls : forall ks s,
  run_calls s ks = match run_trace s ks with
                   | Some tr => Some (List.last (map fst tr) s, map snd tr)
                   | None => None end.
Proof.
  induction ks as [|k ks IH]; intros s; cbn [run_trace Proofs.LM.run_calls]; [reflexivity|].
  destruct (do_call s k) as [[s1 v]|]; [|reflexivity]. rewrite IH.
  destruct (run_trace s1 ks) as [tr|]; [|reflexivity]. cbn [map fst snd]. f_equal. f_equal.
  symmetry. apply last_cons_default.
Qed.
Lemma do_call_true_loss (s : ostR) k s1 v : cache_ok s -> do_call s k = Some (s1, v) ->
  cache_ok s1 /\ v = loss (th s1) /\ cached s1 = Some v.
Proof.
  intros Hc E. destruct k as [c r|]; cbn in E.
  - destruct (lm_step_spec Theta Delta loss retract negd pred solve retract_undo c r s Hc)
      as (sa & ra & Ha & Hca & Hb & Hp). rewrite Ha in E. inversion E; subst.
    split; [assumption|]. split; [apply Hp | assumption].
  - unfold gn_step in E. destruct (solve (nsolve s)) as [d|] eqn:Es; [|discriminate].
    inversion E; subst. cbn. split; [unfold Proofs.LM.cache_ok; cbn; reflexivity | split; reflexivity].
Qed.
(* EVERY value returned during the run is the true (and cached) loss of the parameters its call left behind *)
Theorem all_calls_return_true_loss : forall ks (s : ostR) tr, cache_ok s -> run_trace s ks = Some tr ->
  Forall (fun p => snd p = loss (th (fst p)) /\ cached (fst p) = Some (snd p) /\ cache_ok (fst p)) tr.
Proof.
  induction ks as [|k ks IH]; intros s tr Hc H; cbn in H.
  - inversion H; subst. constructor.
  - destruct (do_call s k) as [[s1 v]|] eqn:E; [|discriminate].
    destruct (run_trace s1 ks) as [tr1|] eqn:E1; [|discriminate]. inversion H; subst.
    destruct (do_call_true_loss s k s1 v Hc E) as (H1 & H2 & H3).
    constructor; [cbn; auto | now apply (IH s1)].
Qed.
(* a sequence of LM calls (any configurations, any solver incl. raising) always runs to completion *)
Definition is_lm (k : call) : Prop := match k with CallLM _ _ => True | CallGN => False end.
Theorem lm_calls_terminate : forall ks (s : ostR), cache_ok s -> Forall is_lm ks ->
  exists tr, run_trace s ks = Some tr /\ length tr = length ks.
Proof.
  induction ks as [|k ks IH]; intros s Hc Hk; [exists []; split; reflexivity|].
  inversion Hk as [|? ? Hk1 Hk2]; subst. destruct k as [c r|]; [|destruct Hk1].
  destruct (lm_step_spec Theta Delta loss retract negd pred solve retract_undo c r s Hc)
    as (sa & ra & Ha & Hca & Hb & Hp).
  destruct (IH sa Hb Hk2) as (tr & Ht & Hlen). exists ((sa, ra) :: tr).
  cbn [run_trace Proofs.LM.do_call]. rewrite Ha, Ht. split; [reflexivity | cbn; now rewrite Hlen].
Qed.
(* the call did not exhaust its rejection budget *)
Definition not_exhausted (k : call) (p : ostR * R) : Prop :=
  match k with CallLM _ r => rej (fst p) <> r | CallGN => False end.
(* while no call exhausts its budget, the returned losses never increase: l0 >= v1 >= v2 >= ... *)
Theorem lm_calls_monotone : forall ks (s : ostR) tr, cache_ok s -> run_trace s ks = Some tr ->
  Forall2 not_exhausted ks tr -> Sorted (fun a b => b <= a) (loss (th s) :: map snd tr).
Proof.
  induction ks as [|k ks IH]; intros s tr Hc H HF; cbn in H.
  - inversion H; subst. repeat constructor.
  - destruct (do_call s k) as [[s1 v]|] eqn:E; [|discriminate].
    destruct (run_trace s1 ks) as [tr1|] eqn:E1; [|discriminate]. inversion H; subst.
    inversion HF as [|? ? ? ? Hne HF']; subst.
    destruct (do_call_true_loss s k s1 v Hc E) as (H1 & H2 & H3).
    assert (Hle : v <= loss (th s)).
    { destruct k as [c r|]; [|destruct Hne]. cbn in E, Hne.
      destruct (lm_step_spec Theta Delta loss retract negd pred solve retract_undo c r s Hc)
        as (sa & ra & Ha & Hca & Hb & Hp). rewrite Ha in E. inversion E; subst.
      destruct Hp as (_ & [Hle | Hex] & _); [exact Hle | contradiction]. }
    specialize (IH s1 tr1 H1 E1 HF'). rewrite <- H2 in IH. cbn [map snd].
    constructor; [exact IH | constructor; exact Hle].
Qed.
End LM2.

(* ---------------- strategies *)
(* zero predicted decrease: the code's quality is +-inf or nan; `quality > h` holds iff the loss decreased *)
Lemma qual_gt_zero_pred (l1 l2 h : R) : qual_gt l1 l2 0 h = true <-> l2 < l1.
Proof.
  unfold qual_gt. cbn. destruct (Reqb 0 0) eqn:E; [|apply Reqb_false in E; congruence].
  rewrite Rltb_true. lra.
Qed.

(* TrustRegion is well formed: with 0 < min <= max and a non-zero damping on entry, no division by zero occurs
   in the update, the new radius is in [min,max] (so positive), damping * radius = 1 afterwards *)
Definition tr_ok (c : scfg (F:=R)) (s : sstate) : Prop :=
  smin c <= radius s <= smax c /\ smin c <= down s <= smax c /\ damping s * radius s = 1 /\ 0 < damping s.
Lemma trust_update_ok (c : scfg (F:=R)) s l1 l2 p : kind c = STrust -> 0 < smin c <= smax c ->
  tr_ok c (supdate c s l1 l2 p).
Proof.
  intros K Hm. destruct (trust_transition c s l1 l2 p K) as (Hr & Hd & Hdm). cbn zeta in Hr.
  assert (Hb : smin c <= radius (supdate c s l1 l2 p) <= smax c) by (rewrite Hr; apply clampF_bounds; lra).
  assert (Hb2 : smin c <= down (supdate c s l1 l2 p) <= smax c) by (rewrite Hd; apply clampF_bounds; lra).
  unfold tr_ok. rewrite Hdm. repeat split; try lra.
  - field. lra.
  - apply Rdiv_lt_0_compat; lra.
Qed.
Theorem trust_history_ok (c : scfg (F:=R)) : kind c = STrust -> 0 < smin c <= smax c ->
  forall (upd : list (R * R * R)) s, 0 < damping s ->
  let step := fun s u => match u with (a, b, p) => supdate c s a b p end in
  (* every state met along the history has a non-zero damping: 1/damping is a true quotient at each update *)
  (forall k, 0 < damping (fold_left step (firstn k upd) s)) /\
  (upd <> [] -> tr_ok c (fold_left step upd s)).
Proof.
  intros K Hm upd s Hs step. split.
  - intros k. destruct (firstn k upd) as [|u l] eqn:E using rev_ind; [exact Hs|].
    rewrite fold_left_app. cbn [fold_left]. destruct u as [[a b] p]. unfold step at 1.
    apply (trust_update_ok c _ a b p K Hm).
  - intros Hne. destruct upd as [|u l] using rev_ind; [congruence|].
    rewrite fold_left_app. cbn [fold_left]. destruct u as [[a b] p]. unfold step at 1.
    apply (trust_update_ok c _ a b p K Hm).
Qed.
(* the documented moves in terms of the previous RADIUS (the code recomputes it as 1/damping) *)
Theorem trust_moves_radius (c : scfg (F:=R)) s l1 l2 p : kind c = STrust ->
  damping s * radius s = 1 ->
  radius (supdate c s l1 l2 p) =
    clampF (smin c) (smax c)
      (if qual_gt l1 l2 p (high c) then up c * radius s else if qual_gt l1 l2 p (low c) then radius s
       else radius s * down s).
Proof.
  intros K Hinv. destruct (trust_transition c s l1 l2 p K) as (Hr & _). cbn zeta in Hr. rewrite Hr.
  assert (Hd : damping s <> 0) by (intros E; rewrite E in Hinv; lra).
  replace (1 / damping s) with (radius s); [reflexivity|].
  apply Rmult_eq_reg_l with (damping s); [|exact Hd]. rewrite Hinv. field. exact Hd.
Qed.

(* ---------------- non-vacuity: a scalar parameter with loss t^2, additive retraction, reject = 2:
   first trial worse, then the solver raises / then an improving trial *)
Definition ex_solve_raise (n : nat) : option R := match n with 0%nat => Some 1 | _ => None end.
Definition ex_solve_ok (n : nat) : option R := match n with 0%nat => Some 1 | _ => Some (-1) end.
Example ex_worse_trials :
  worse_trials R R (fun t => t * t) Rplus ex_solve_raise 1 1 0 [1] /\
  worse_trials R R (fun t => t * t) Rplus ex_solve_ok 1 1 0 [1] /\
  ex_solve_raise (0 + 1) = None /\ ex_solve_ok (0 + 1) = Some (-1) /\ (1 + -1) * (1 + -1) <= 1.
Proof.
  assert (W : forall sv, sv 0%nat = Some 1 -> worse_trials R R (fun t => t * t) Rplus sv 1 1 0 [1]).
  { intros sv H0 i d H. destruct i as [|i]; [|destruct i; discriminate H].
    cbn in H. inversion H; subst d. cbn. split; [exact H0 | lra]. }
  split; [apply W; reflexivity|]. split; [apply W; reflexivity|].
  split; [reflexivity|]. split; [reflexivity | lra].
Qed.
Example ex_trust_ok : tr_ok {| kind := STrust; high := 1/2; low := 1/1000; up := 2; down0 := 1/2; factor := 1/2;
                              smin := 1/1000000; smax := 1000000 |}
                            {| damping := 1/1000; radius := 1000; down := 1/2 |}.
Proof. unfold tr_ok. cbn. repeat split; lra. Qed.
