(* C17, tenth part: the hypotheses of the EPnP theorems are jointly satisfiable (no vacuity):
   the three non-collinear witness points, the standard control points (origin and unit vectors),
   camera 5 units in front (t = (0,0,5), R = I), the null vector given with NEGATIVE factor k = -1/3
   (so the sign fix of _compute_scale is exercised), constant SVD oracle. *)
From Coq Require Import Reals Lra Psatz List Nsatz ZArith Bool Arith.
Import ListNotations.
From PV Require Import Base.Num Base.RTac Model.LieGroup Model.Controller Model.Align Proofs.LieGroup
  Proofs.Align Proofs.Align2 Proofs.Align3 Proofs.Align4 Proofs.Align5 Proofs.Align7.
Local Open Scope R_scope.
#[local] Remove Hints NumQ NumZ : typeclass_instances.

Definition ex_cw : ctrlR := ((0, 0, 0), (1, 0, 0), (0, 1, 0), (0, 0, 1)).
Definition ex_alpha (p : vec3R) : vec4R := (1 - vx p - vy p - vz p, vx p, vy p, vz p).
Definition ex_t : vec3R := (0, 0, 5).
Lemma ex_alpha_ok : forall l : cloudR, Forall2 (alpha_ok ex_cw) (map ex_alpha l) l.
Proof.
  induction l as [|p l IH]; cbn [map]; constructor; [|exact IH].
  destruct p as [[x y] z]. split; [cbn; ring|]. cbv [ctrl_comb ex_alpha ex_cw]. al_unfold. split_pairs; ring.
Qed.
Lemma ex_cam_eq : map (rigid_apply mid3 ex_t) wit_src = [(2, 0, 5); (-1, 1, 5); (-1, -1, 5)].
Proof. unfold wit_src, ex_t. cbn [map]. f_equal; [|f_equal; [|f_equal]]; al_ring. Qed.
Lemma ex_M3 : svdtf_M wit_src (map (rigid_apply mid3 ex_t) wit_src) = svdtf_M wit_src wit_src.
Proof. rewrite ex_cam_eq. unfold svdtf_M, wit_src, centered. ex_compute. Qed.

Example epnp_hyps_satisfiable :
  Forall2 (alpha_ok ex_cw) (map ex_alpha wit_src) wit_src /\ rot mid3 /\ -1 / 3 <> 0 /\
  Forall (fun p => 0 < vz (rigid_apply mid3 ex_t p)) wit_src /\ noncollinear wit_src /\
  svd_contract ex_svd (svdtf_M wit_src
     (snd (fst (epnp_compute_scale (map ex_alpha wit_src) (ctrl_scale (-1 / 3) (ctrl_move mid3 ex_t ex_cw)) wit_src)))).
Proof.
  assert (Hz : Forall (fun p => 0 < vz (rigid_apply mid3 ex_t p)) wit_src).
  { unfold wit_src, ex_t. repeat constructor; al_unfold; lra. }
  split; [apply ex_alpha_ok|]. split; [apply rot_mid3|]. split; [lra|]. split; [exact Hz|].
  split; [apply wit_noncollinear|].
  destruct (epnp_compute_scale_true mid3 ex_t ex_cw (map ex_alpha wit_src) wit_src (-1 / 3)
              (ex_alpha_ok wit_src) rot_mid3 ltac:(lra) Hz (noncollinear_spread _ wit_noncollinear)) as [E _].
  rewrite E. unfold svd_contract, ex_svd. rewrite ex_M3. apply wit_contract.
Qed.
