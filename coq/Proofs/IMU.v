(* C16: IMU preintegration (Model/IMU.v) over R.
   1. the parallel-prefix [integrate] equals the documented sequential recursion, every F;
   2. [forward1] = the world-frame recursion composed with the initial state (unit rotations);
   3. feeding consecutive chunks with reset=False = one call (rot, vel, pos, Rij);
   4. rank normalisation;
   5. the propagated covariance is symmetric positive semidefinite, every F, every history;
   6. history: with the order used before /repo 608b3d9 (cumprod default left=True) the covariance was
      NOT chunking-invariant; with cumprod(..., left=False) (the source now) it is the documented recursion. *)
From Coq Require Import QArith Reals Lra Psatz List Arith Lia.
Import ListNotations.
Close Scope Q_scope.
From PV Require Import Base.Num Base.RTac Base.Mat Model.Cumops Model.LieGroup Model.IMU Proofs.Cumops Proofs.LieGroup.
Local Open Scope R_scope.
#[local] Remove Hints NumQ NumZ : typeclass_instances.

Notation iframeR := (iframe R).
Notation mat3R := (@mat3 R).

(* ------------------------------------------------------------------ generic list facts *)
Lemma length_zip_with {A B C} (f : A -> B -> C) : forall a b, length (zip_with f a b) = Nat.min (length a) (length b).
Proof. induction a as [|x a IH]; intros [|y b]; cbn; auto. Qed.

Lemma zip_with_firstn_l {A B C} (f : A -> B -> C) : forall n a b, (length b <= n)%nat ->
  zip_with f (firstn n a) b = zip_with f a b.
Proof.
  induction n as [|n IH]; intros a b H.
  - destruct b; [|cbn in H; lia]. destruct a; reflexivity.
  - destruct a as [|x a]; [reflexivity|]. destruct b as [|y b]; [reflexivity|].
    cbn [firstn zip_with]. f_equal. apply IH. cbn in H. lia.
Qed.
Lemma combine_firstn_l {A B} : forall n (a : list A) (b : list B), (length b <= n)%nat ->
  combine (firstn n a) b = combine a b.
Proof.
  induction n as [|n IH]; intros a b H.
  - destruct b; [|cbn in H; lia]. destruct a; reflexivity.
  - destruct a as [|x a]; [reflexivity|]. destruct b as [|y b]; [reflexivity|].
    cbn [firstn combine]. f_equal. apply IH. cbn in H. lia.
Qed.
Lemma zip_with_map_same {A B C D} (f : B -> C -> D) (g : A -> B) (h : A -> C) : forall l,
  zip_with f (map g l) (map h l) = map (fun x => f (g x) (h x)) l.
Proof. induction l as [|x l IH]; cbn; [reflexivity|now rewrite IH]. Qed.
Lemma zip_with_cons {A B C} (f : A -> B -> C) x a y b : zip_with f (x :: a) (y :: b) = f x y :: zip_with f a b.
Proof. reflexivity. Qed.
Lemma combine_cons {A B} (x : A) a (y : B) b : combine (x :: a) (y :: b) = (x, y) :: combine a b.
Proof. reflexivity. Qed.
Lemma map_tl {A B} (f : A -> B) l : tl (map f l) = map f (tl l).
Proof. destruct l; reflexivity. Qed.

(* running product: scanl f a [x1..xn] = [a; a.x1; ...; a.x1...xn] *)
Fixpoint scanl1 {A B} (f : A -> B -> A) (a : A) (l : list B) : list A :=
  match l with [] => [] | x :: r => f a x :: scanl1 f (f a x) r end.
Definition scanl {A B} (f : A -> B -> A) (a : A) (l : list B) : list A := a :: scanl1 f a l.
Lemma length_scanl1 {A B} (f : A -> B -> A) : forall l a, length (scanl1 f a l) = length l.
Proof. induction l as [|x l IH]; intros a; cbn; [reflexivity|now rewrite IH]. Qed.
Lemma scanl_step {A} (f : A -> A -> A) (d : A) : forall l a j, (j < length l)%nat ->
  nth (S j) (scanl f a l) d = f (nth j (scanl f a l) d) (nth j l d).
Proof.
  unfold scanl. induction l as [|x l IH]; intros a j Hj; [cbn in Hj; lia|].
  destruct j as [|j]; [reflexivity|].
  cbn [scanl1]. change (nth (S (S j)) (a :: f a x :: scanl1 f (f a x) l) d) with (nth (S j) (f a x :: scanl1 f (f a x) l) d).
  rewrite IH by (cbn in Hj; lia). reflexivity.
Qed.
Lemma rprefix_scanl {A} (f : A -> A -> A) (d : A) l a : forall i, (i <= length l)%nat ->
  rprefix A f d (a :: l) i = nth i (scanl f a l) d.
Proof.
  induction i as [|i IH]; intros Hi; [reflexivity|].
  cbn [rprefix]. rewrite IH by lia. rewrite scanl_step by lia. reflexivity.
Qed.
(* the stride-doubling scan of Model/Cumops.v, seeded with [a], is the running product *)
Lemma cumprod_right_scanl {A} (f : A -> A -> A) (Hassoc : forall a b c, f (f a b) c = f a (f b c)) (a : A) (l : list A) :
  cumprod_model f false (a :: l) = Some (scanl f a l).
Proof.
  destruct (cumprod_right_correct A f Hassoc a (a :: l)) as (r & Hr & Hlen & Hn); [cbn; lia|].
  rewrite Hr. f_equal. apply (nth_ext _ _ a a).
  - rewrite Hlen. unfold scanl. cbn. now rewrite length_scanl1.
  - intros i Hi. rewrite Hlen in Hi. rewrite Hn by assumption. apply rprefix_scanl. cbn in Hi. lia.
Qed.

Lemma cumsum_from_zero l : cumsum Rplus l = cumsum_from Rplus 0 l.
Proof. destruct l as [|x l]; [reflexivity|]. cbn. now rewrite Rplus_0_l. Qed.

(* ------------------------------------------------------------------ 1. integrate = documented recursion *)
Section Integrate.
Variable g : vec3R.
Variable ir : quatR.     (* initial rotation used to integrate the gravity-compensating rotation *)

(* preintegration state (dR, dv, dp, T) *)
Definition pstate := (quatR * vec3R * vec3R * R)%type.
Definition p_R (s : pstate) : quatR := fst (fst (fst s)).
Definition p_v (s : pstate) : vec3R := snd (fst (fst s)).
Definition p_p (s : pstate) : vec3R := snd (fst s).
Definition p_T (s : pstate) : R := snd s.
(* acceleration of the frame with gravity removed: rotation supplied with the frame, else the
   integrated rotation ir * dR * Exp(w dt)  (AFTER the frame's increment, as coded) *)
Definition pre_acc (dR : quatR) (f : iframeR) : vec3R :=
  vsub (i_acc f) (SO3_act (SO3_inv (grav_rot f (SO3_mul ir (SO3_mul dR (i_inc f))))) g).
(*  dR <- dR Exp(w dt),  dv <- dv + dR a dt,  dp <- dp + dv dt + 1/2 dR a dt^2   (old dR, dv on the right) *)
Definition pre_step (s : pstate) (f : iframeR) : pstate :=
  let a := pre_acc (p_R s) f in
  let Ra := SO3_act (p_R s) a in
  (SO3_mul (p_R s) (i_inc f),
   vadd (p_v s) (vscale (i_dt f) Ra),
   vadd (p_p s) (vadd (vscale (i_dt f) (p_v s)) (vscale (i_dt f * i_dt f) (vscale (1 / 2) Ra))),
   p_T s + i_dt f).
Fixpoint pre_run (s : pstate) (fs : list iframeR) : list pstate :=
  match fs with [] => [] | f :: r => let s' := pre_step s f in s' :: pre_run s' r end.
Fixpoint pre_accs (s : pstate) (fs : list iframeR) : list vec3R :=
  match fs with [] => [] | f :: r => pre_acc (p_R s) f :: pre_accs (pre_step s f) r end.
Definition pre_init : pstate := (SO3_id, vzero, vzero, 0).

Lemma length_pre_run : forall fs s, length (pre_run s fs) = length fs.
Proof. induction fs as [|f fs IH]; intros s; cbn; [reflexivity|now rewrite IH]. Qed.
Lemma length_pre_accs : forall fs s, length (pre_accs s fs) = length fs.
Proof. induction fs as [|f fs IH]; intros s; cbn; [reflexivity|now rewrite IH]. Qed.

(* the pipeline of [integrate] after the scan has been replaced by the running product *)
Lemma pipeline : forall (fs : list iframeR) (s : pstate),
  let S1 := scanl1 SO3_mul (p_R s) (map (@i_inc R) fs) in
  let A := zip_with (fun f Rr => vsub (i_acc f) (SO3_act (SO3_inv (grav_rot f Rr)) g)) fs (map (SO3_mul ir) S1) in
  let Ra := zip_with SO3_act (p_R s :: S1) A in
  let Vs := cumsum_from vadd (p_v s) (zip_with (fun x f => vscale (i_dt f) x) Ra fs) in
  let Ps := cumsum_from vadd (p_p s)
              (zip_with (fun (vr : vec3R * vec3R) f => vadd (vscale (i_dt f) (fst vr)) (vscale (i_dt f * i_dt f) (vscale half (snd vr))))
                        (combine (p_v s :: Vs) Ra) fs) in
  let Ts := cumsum_from Rplus (p_T s) (map (@i_dt R) fs) in
  A = pre_accs s fs /\ S1 = map p_R (pre_run s fs) /\ Vs = map p_v (pre_run s fs) /\
  Ps = map p_p (pre_run s fs) /\ Ts = map p_T (pre_run s fs).
Proof.
  induction fs as [|f fs IH]; intros s; [cbn; auto 6|].
  specialize (IH (pre_step s f)). cbv zeta in IH. destruct IH as (IA & IS & IV & IP & IT).
  cbv zeta. cbn [map scanl1 pre_accs pre_run].
  repeat (rewrite zip_with_cons || rewrite combine_cons || (progress cbn [cumsum_from])).
  cbn [fst snd].
  change (p_R (pre_step s f)) with (SO3_mul (p_R s) (i_inc f)) in *.
  change (p_T (pre_step s f)) with (p_T s + i_dt f) in IT.
  change (p_v (pre_step s f)) with (vadd (p_v s) (vscale (i_dt f) (SO3_act (p_R s) (pre_acc (p_R s) f)))) in IV, IP.
  change (p_p (pre_step s f)) with
    (vadd (p_p s) (vadd (vscale (i_dt f) (p_v s)) (vscale (i_dt f * i_dt f) (vscale (1 / 2) (SO3_act (p_R s) (pre_acc (p_R s) f)))))) in IP.
  change (vsub (i_acc f) (SO3_act (SO3_inv (grav_rot f (SO3_mul ir (SO3_mul (p_R s) (i_inc f))))) g)) with (pre_acc (p_R s) f).
  split; [now rewrite IA|]. split; [now rewrite IS|]. split; [now rewrite IV|].
  split; [|now rewrite IT].
  change (@half R NumR) with (1 / 2) in *. rewrite IP. reflexivity.
Qed.

End Integrate.

Definition integ_of (g : vec3R) (ir : quatR) (fs : list iframeR) : integ R :=
  let run := pre_run g ir pre_init fs in
  {| g_a := pre_accs g ir pre_init fs; g_Dp := map p_p run; g_Dv := map p_v run; g_Dr := map p_R run;
     g_Dt := map p_T run; g_w := map (@i_inc R) fs |}.
Definition rot_default (o : option quatR) : quatR := match o with Some r => r | None => SO3_id end.

(* for EVERY number of frames the parallel-prefix integration returns the documented recursion *)
Theorem integrate_is_recursion (g : vec3R) (init_rot : option quatR) (fs : list iframeR) :
  integrate g init_rot fs = Some (integ_of g (rot_default init_rot) fs).
Proof.
  unfold integrate. rewrite (cumprod_right_scanl SO3_mul SO3_mul_assoc).
  unfold scanl, integ_of. f_equal.
  set (ir := match init_rot with Some r => r | None => SO3_id end).
  change (rot_default init_rot) with ir.
  set (S1 := scanl1 SO3_mul SO3_id (map (@i_inc R) fs)).
  assert (HS1 : length S1 = length fs) by (unfold S1; now rewrite length_scanl1, map_length).
  cbn [map tl].
  set (A := zip_with (fun f Rr => vsub (i_acc f) (SO3_act (SO3_inv (grav_rot f Rr)) g)) fs (map (SO3_mul ir) S1)).
  assert (HA : length A = length fs) by (unfold A; rewrite length_zip_with, map_length, HS1; lia).
  rewrite (zip_with_firstn_l SO3_act (length fs) (SO3_id :: S1) A) by (rewrite HA; apply Nat.le_refl).
  set (Ra := zip_with SO3_act (SO3_id :: S1) A).
  assert (HRa : length Ra = length fs) by (unfold Ra; rewrite length_zip_with, HA; cbn [length]; rewrite HS1; lia).
  cbn [cumsum tl].
  set (Vs := cumsum_from vadd vzero (zip_with (fun x f => vscale (i_dt f) x) Ra fs)).
  rewrite (combine_firstn_l (length fs) (vzero :: Vs) Ra) by (rewrite HRa; apply Nat.le_refl).
  rewrite cumsum_from_zero.
  destruct (pipeline g ir fs pre_init) as (PA & PS & PV & PP & PT).
  cbv zeta in PA, PS, PV, PP, PT.
  change (p_R pre_init) with (@SO3_id R NumR) in *. change (p_v pre_init) with (@vzero R NumR) in *.
  change (p_p pre_init) with (@vzero R NumR) in *. change (p_T pre_init) with 0 in *.
  fold S1 in PA, PS, PV, PP. fold A in PA, PV, PP. fold Ra in PV, PP. fold Vs in PV, PP.
  rewrite <- PA, <- PS, <- PV, <- PP, <- PT. reflexivity.
Qed.

(* ------------------------------------------------------------------ facts on the scan that need no associativity *)
Section ScanP.
Variable A : Type.
Variable op : A -> A -> A.
Variable P : A -> Prop.
Hypothesis P_op : forall a b, P a -> P b -> P (op a b).

Lemma zipop_Forall : forall a b, Forall P a -> Forall P b -> Forall P (zipop op a b).
Proof.
  induction a as [|x a IH]; intros [|y b] Ha Hb; cbn; try constructor.
  - inversion Ha; inversion Hb; subst. now apply P_op.
  - inversion Ha; inversion Hb; subst. now apply IH.
Qed.
Lemma Forall_firstn' : forall n (l : list A), Forall P l -> Forall P (firstn n l).
Proof.
  induction n as [|n IH]; intros [|x l] H; cbn; try constructor; inversion H; subst; auto.
Qed.
Lemma Forall_skipn' : forall n (l : list A), Forall P l -> Forall P (skipn n l).
Proof.
  induction n as [|n IH]; intros [|x l] H; cbn; auto. inversion H; subst; auto.
Qed.
Lemma pass_Forall s v v' : pass op s v = Some v' -> Forall P v -> Forall P v'.
Proof.
  unfold pass. destruct (length v <? s)%nat; [discriminate|]. intros E H. inversion E; subst.
  apply Forall_app. split; [now apply Forall_firstn'|]. apply zipop_Forall; [assumption|now apply Forall_skipn'].
Qed.
Lemma scan_Forall : forall strides v v', scan op strides v = Some v' -> Forall P v -> Forall P v'.
Proof.
  induction strides as [|s r IH]; intros v v' E H; cbn in E.
  - inversion E; now subst.
  - destruct (pass op s v) as [v1|] eqn:Ep; [|discriminate]. apply (IH v1 v' E). now apply (pass_Forall s v).
Qed.
End ScanP.

Lemma pass_total {A} (op : A -> A -> A) s v : (s <= length v)%nat ->
  exists v', pass op s v = Some v' /\ length v' = length v.
Proof.
  intros H. unfold pass. destruct (length v <? s)%nat eqn:E; [apply Nat.ltb_lt in E; lia|].
  eexists. split; [reflexivity|]. rewrite app_length, firstn_length, zipop_length, skipn_length. lia.
Qed.
Lemma scan_total {A} (op : A -> A -> A) : forall strides v, Forall (fun s => s <= length v)%nat strides ->
  exists v', scan op strides v = Some v' /\ length v' = length v.
Proof.
  induction strides as [|s r IH]; intros v H; cbn.
  - eauto.
  - inversion H; subst. destruct (pass_total op s v) as (v1 & E1 & L1); [assumption|]. rewrite E1.
    destruct (IH v1) as (v' & E & L); [now rewrite L1|]. exists v'. split; [exact E|lia].
Qed.
Lemma pows_bound L : forall k w, (0 < w)%nat -> (2 ^ k * w < 2 * L)%nat -> Forall (fun s => s <= L)%nat (pows k w).
Proof.
  induction k as [|k IH]; intros w Hw H; cbn [pows]; constructor.
  - cbn [Nat.pow] in H. assert (1 <= 2 ^ k)%nat by (apply Nat.neq_0_lt_0, Nat.pow_nonzero; lia). nia.
  - apply IH; [lia|]. cbn [Nat.pow] in H. lia.
Qed.
(* the scan returns for every non-empty input, whatever the operation *)
Lemma cumops_total {A} (op : A -> A -> A) v : (1 <= length v)%nat ->
  exists r, cumops_model op v = Some r /\ length r = length v.
Proof.
  intros H. unfold cumops_model, strides, nstrides. apply scan_total.
  destruct (log2_up_bounds (length v) H) as [_ Hb]. apply pows_bound; lia.
Qed.
Lemma cumops_Forall {A} (op : A -> A -> A) (P : A -> Prop) (P_op : forall a b, P a -> P b -> P (op a b)) v r :
  cumops_model op v = Some r -> Forall P v -> Forall P r.
Proof. unfold cumops_model. apply scan_Forall. exact P_op. Qed.

(* ------------------------------------------------------------------ 5. covariance: symmetric positive semidefinite *)
Definition mvalid (M : matR) : Prop := wf 9 9 M /\ msym M /\ PSD 9 M.
Definition nonneg3 (v : vec3R) : Prop := 0 <= vx v /\ 0 <= vy v /\ 0 <= vz v.
Definition c_dt (c : cframe R) : R := snd c.

Ltac wf_concrete :=
  unfold cframe in *;
  repeat match goal with x : (_ * _)%type |- _ => destruct x end;
  cbv [cov_A cov_Bg cov_Ba blk9 blockrow vstack3 hcat m3rows diag3];
  cbn [zip_with app];
  repeat split; try lia; repeat constructor.

Lemma wf_cov_A c : wf 9 9 (cov_A c).  Proof. wf_concrete. Qed.
Lemma wf_cov_Bg c : wf 9 3 (cov_Bg c).  Proof. wf_concrete. Qed.
Lemma wf_cov_Ba c : wf 9 3 (cov_Ba c).  Proof. wf_concrete. Qed.
Lemma wf_diag3 v : wf 3 3 (diag3 v).  Proof. wf_concrete. Qed.
Lemma msym_diag3 (v : vec3R) : msym (diag3 v).
Proof. destruct v as [[a b] c]. reflexivity. Qed.
Lemma PSD_diag3 (v : vec3R) : nonneg3 v -> PSD 3 (diag3 v).
Proof.
  destruct v as [[a b] c]. intros (Ha & Hb & Hc) x Hx.
  destruct x as [|x0 [|x1 [|x2 [|]]]]; try discriminate.
  cbv [qform Mat.vdot mapply mkvec mrows mcols diag3 length seq map sumn mget vget nth vx vy vz fst snd] in *.
  num_unfold.
  assert (0 <= a * (x0 * x0)) by (apply Rmult_le_pos; nra).
  assert (0 <= b * (x1 * x1)) by (apply Rmult_le_pos; nra).
  assert (0 <= c * (x2 * x2)) by (apply Rmult_le_pos; nra).
  nra.
Qed.
Lemma PSD_mscale n a M : wf n n M -> 0 <= a -> PSD n M -> PSD n (mscale a M).
Proof. intros HM Ha HP x Hx. rewrite (qform_mscale n) by assumption. specialize (HP x Hx). num_unfold. nra. Qed.
Lemma wf_congr n m M P : wf n m M -> wf m m P -> wf n n (congr M P).
Proof. intros HM HP. unfold congr. eauto with wf. Qed.
Lemma congr_valid9 m M P : wf 9 m M -> wf m m P -> msym P -> PSD m P -> mvalid (congr M P).
Proof.
  intros HM HP HS HD. split; [now apply (wf_congr 9 m)|]. split.
  - now apply (msym_congr 9 m).
  - now apply (PSD_congr 9 m).
Qed.
Lemma madd_valid A B : mvalid A -> mvalid B -> mvalid (madd A B).
Proof.
  intros (HA & SA & PA) (HB & SB & PB). split; [eauto with wf|]. split.
  - now apply (msym_madd 9).
  - now apply (PSD_madd 9).
Qed.
Lemma cov_Q_valid cg ca c : nonneg3 cg -> nonneg3 ca -> 0 < c_dt c -> mvalid (cov_Q cg ca c).
Proof.
  intros Hg Ha Hdt.
  assert (V : mvalid (madd (congr (cov_Bg c) (diag3 cg)) (congr (cov_Ba c) (diag3 ca)))).
  { apply madd_valid; apply (congr_valid9 3); auto using wf_cov_Bg, wf_cov_Ba, wf_diag3, msym_diag3, PSD_diag3. }
  destruct V as (W & S & D).
  destruct c as [[[[Rij Rk] a] jr] dt]. unfold c_dt in Hdt. cbn [snd] in Hdt.
  unfold cov_Q. fold (congr (cov_Bg (Rij, Rk, a, jr, dt)) (diag3 cg)). fold (congr (cov_Ba (Rij, Rk, a, jr, dt)) (diag3 ca)).
  assert (Hs : 0 <= one / dt) by (num_unfold; apply Rlt_le, Rdiv_lt_0_compat; lra).
  split; [eauto with wf|]. split.
  - now apply (msym_mscale 9).
  - now apply PSD_mscale.
Qed.
Lemma mzero_valid : mvalid (mzero 9 9).
Proof.
  assert (W : wf 9 9 (@mzero R NumR 9 9)) by (apply wf_mkmat; lia).
  split; [exact W|]. split.
  - apply (msym_of_mget 9); [exact W|]. intros i j Hi Hj. unfold mzero. now rewrite !mget_mkmat by assumption.
  - intros x Hx. unfold qform, Mat.vdot. apply Req_le. symmetry. apply sumn_zero. intros k Hk.
    rewrite (vget_mapply 9 9) by (try assumption; lia).
    rewrite sumn_zero; [num_unfold; lra|]. intros j Hj. unfold mzero. rewrite mget_mkmat by lia. num_unfold. lra.
Qed.
Lemma mid_valid : wf 9 9 (@mid R NumR 9).
Proof. apply wf_mid. lia. Qed.
Lemma fold_madd_valid : forall l x, mvalid x -> Forall mvalid l -> mvalid (fold_left madd l x).
Proof.
  induction l as [|y l IH]; intros x Hx Hl; cbn; [assumption|].
  inversion Hl; subst. apply IH; [now apply madd_valid|assumption].
Qed.
Lemma msum_valid l : Forall mvalid l -> mvalid (msum l).
Proof.
  destruct l as [|x l]; intros H; cbn; [apply mzero_valid|]. inversion H; subst. now apply fold_madd_valid.
Qed.
Lemma zip_congr_valid : forall Ms Ps, Forall (wf 9 9) Ms -> Forall mvalid Ps -> Forall mvalid (zip_with congr Ms Ps).
Proof.
  induction Ms as [|M Ms IH]; intros [|P Ps] HM HP; cbn; try constructor.
  - pose proof (Forall_inv HM) as WM. destruct (Forall_inv HP) as (W & S & D). now apply (congr_valid9 9).
  - apply IH; [exact (Forall_inv_tail HM)|exact (Forall_inv_tail HP)].
Qed.

(* for EVERY number of frames, either order of the cumulative product: the call returns and the
   result is symmetric positive semidefinite *)
Theorem propagate_cov_valid (left : bool) (cs : list (cframe R)) (init_cov : matR) (cg ca : vec3R) :
  mvalid init_cov -> nonneg3 cg -> nonneg3 ca -> Forall (fun c => 0 < c_dt c) cs ->
  exists C, propagate_cov_gen left cs init_cov cg ca = Some C /\ mvalid C.
Proof.
  intros Hinit Hg Ha Hdt. unfold propagate_cov_gen.
  set (As := map cov_A cs ++ [mid 9]).
  assert (HAs : Forall (wf 9 9) As).
  { unfold As. apply Forall_app. split; [|repeat constructor; apply mid_valid].
    apply Forall_forall. intros M HM. apply in_map_iff in HM. destruct HM as (c & <- & _). apply wf_cov_A. }
  destruct (cumops_total (if left then flip_op mmul else mmul) (rev As)) as (r & Hr & Hlen).
  { rewrite rev_length. unfold As. rewrite app_length. cbn. lia. }
  unfold cumprod_model. rewrite Hr. eexists. split; [reflexivity|].
  apply msum_valid. apply zip_congr_valid.
  - apply Forall_rev.
    apply (cumops_Forall (if left then flip_op mmul else mmul) (wf 9 9)) with (v := rev As); [|exact Hr|now apply Forall_rev].
    intros a b Wa Wb. destruct left; unfold flip_op; eauto with wf.
  - constructor; [assumption|]. apply Forall_forall. intros Q HQ. apply in_map_iff in HQ.
    destruct HQ as (c & <- & Hc). apply cov_Q_valid; try assumption.
    rewrite Forall_forall in Hdt. now apply Hdt.
Qed.

Lemma propagate_cov_total (left : bool) (cs : list (cframe R)) (init_cov : matR) (cg ca : vec3R) :
  exists C, propagate_cov_gen left cs init_cov cg ca = Some C.
Proof.
  unfold propagate_cov_gen.
  destruct (cumops_total (if left then flip_op mmul else mmul) (rev (map cov_A cs ++ [mid 9]))) as (r & Hr & _).
  { rewrite rev_length, app_length. cbn. lia. }
  unfold cumprod_model. rewrite Hr. eauto.
Qed.

(* ------------------------------------------------------------------ 2. forward = world-frame recursion *)
Definition wstate := (quatR * vec3R * vec3R)%type.     (* rotation, velocity, position *)
Definition w_R (s : wstate) : quatR := fst (fst s).
Definition w_v (s : wstate) : vec3R := snd (fst s).
Definition w_p (s : wstate) : vec3R := snd s.

(*  R <- R Exp(w dt),  v <- v + R a dt,  p <- p + v dt + 1/2 R a dt^2,   a = acc - Rg^-1 g,
    Rg = the supplied rotation of the frame, else the new R *)
Definition world_step (g : vec3R) (s : wstate) (f : iframeR) : wstate :=
  let R' := SO3_mul (w_R s) (i_inc f) in
  let a := vsub (i_acc f) (SO3_act (SO3_inv (grav_rot f R')) g) in
  let Ra := SO3_act (w_R s) a in
  (R', vadd (w_v s) (vscale (i_dt f) Ra),
   vadd (w_p s) (vadd (vscale (i_dt f) (w_v s)) (vscale (i_dt f * i_dt f) (vscale (1 / 2) Ra)))).
Fixpoint world_run (g : vec3R) (s : wstate) (fs : list iframeR) : list wstate :=
  match fs with [] => [] | f :: r => let s' := world_step g s f in s' :: world_run g s' r end.

(* predict: composition of a preintegrated state with the initial state *)
Definition compose (r0 : quatR) (v0 p0 : vec3R) (s : pstate) : wstate :=
  (SO3_mul r0 (p_R s), vadd v0 (SO3_act r0 (p_v s)), vadd (vadd p0 (SO3_act r0 (p_p s))) (vscale (p_T s) v0)).

Lemma compose_init r0 v0 p0 : compose r0 v0 p0 pre_init = (r0, v0, p0).
Proof. unfold compose, pre_init, p_R, p_v, p_p, p_T. cbn [fst snd]. lie_ring. Qed.

Lemma compose_step g r0 v0 p0 s f : unitq r0 -> unitq (p_R s) ->
  compose r0 v0 p0 (pre_step g r0 s f) = world_step g (compose r0 v0 p0 s) f.
Proof.
  intros H0 HR. destruct s as [[[dR dv] dp] T].
  unfold compose, pre_step, world_step, pre_acc, p_R, p_v, p_p, p_T, w_R, w_v, w_p. cbn [fst snd].
  rewrite <- (SO3_mul_assoc r0 dR (i_inc f)).
  generalize (vsub (i_acc f) (SO3_act (SO3_inv (grav_rot f (SO3_mul (SO3_mul r0 dR) (i_inc f)))) g)). intros a.
  rewrite (SO3_act_mul r0 dR a H0 HR).
  generalize (SO3_act dR a). intros w. generalize (i_dt f). intros dt. generalize (SO3_mul (SO3_mul r0 dR) (i_inc f)). intros q.
  clear H0 HR f g dR.
  apply pair_eq; [apply pair_eq; [reflexivity|]|]; lie_ring.
Qed.

Lemma compose_run g r0 v0 p0 : forall fs s, unitq r0 -> unitq (p_R s) -> Forall (fun f => unitq (i_inc f)) fs ->
  map (compose r0 v0 p0) (pre_run g r0 s fs) = world_run g (compose r0 v0 p0 s) fs.
Proof.
  induction fs as [|f fs IH]; intros s H0 HR HF; [reflexivity|].
  cbn [pre_run map world_run]. rewrite IH; [now rewrite compose_step by assumption|assumption| |exact (Forall_inv_tail HF)].
  change (p_R (pre_step g r0 s f)) with (SO3_mul (p_R s) (i_inc f)). apply unitq_mul; [assumption|exact (Forall_inv HF)].
Qed.

Lemma world_run_app g : forall a b s, world_run g s (a ++ b) = world_run g s a ++ world_run g (fold_left (world_step g) a s) b.
Proof. induction a as [|f a IH]; intros b s; [reflexivity|]. cbn. now rewrite IH. Qed.
Lemma world_run_last g : forall fs s d, fs <> [] -> List.last (world_run g s fs) d = fold_left (world_step g) fs s.
Proof.
  induction fs as [|f fs IH]; intros s d H; [contradiction|].
  destruct fs as [|f' fs]; [reflexivity|].
  change (world_run g s (f :: f' :: fs)) with (world_step g s f :: world_run g (world_step g s f) (f' :: fs)).
  change (fold_left (world_step g) (f :: f' :: fs) s) with (fold_left (world_step g) (f' :: fs) (world_step g s f)).
  rewrite <- (IH (world_step g s f) d) by discriminate.
  cbn [world_run]. reflexivity.
Qed.
Lemma length_world_run g : forall fs s, length (world_run g s fs) = length fs.
Proof. induction fs as [|f fs IH]; intros s; cbn; [reflexivity|now rewrite IH]. Qed.
Lemma world_unit g : forall fs s, unitq (w_R s) -> Forall (fun f => unitq (i_inc f)) fs -> unitq (w_R (fold_left (world_step g) fs s)).
Proof.
  induction fs as [|f fs IH]; intros s H HF; [assumption|]. cbn [fold_left]. apply IH; [|exact (Forall_inv_tail HF)].
  change (w_R (world_step g s f)) with (SO3_mul (w_R s) (i_inc f)). apply unitq_mul; [assumption|exact (Forall_inv HF)].
Qed.

Lemma last_map {A B} (f : A -> B) : forall l d d', l <> [] -> List.last (map f l) d' = f (List.last l d).
Proof.
  induction l as [|x l IH]; intros d d' H; [contradiction|]. destruct l as [|y l]; [reflexivity|].
  change (List.last (map f (x :: y :: l)) d') with (List.last (map f (y :: l)) d').
  change (List.last (x :: y :: l) d) with (List.last (y :: l) d). apply IH. discriminate.
Qed.
Lemma scanl1_last {A B} (f : A -> B -> A) : forall l a d, l <> [] -> List.last (scanl1 f a l) d = fold_left f l a.
Proof.
  induction l as [|x l IH]; intros a d H; [contradiction|]. destruct l as [|y l]; [reflexivity|].
  change (scanl1 f a (x :: y :: l)) with (f a x :: scanl1 f (f a x) (y :: l)).
  change (fold_left f (x :: y :: l) a) with (fold_left f (y :: l) (f a x)).
  rewrite <- (IH (f a x) d) by discriminate. reflexivity.
Qed.
Lemma mul_fold : forall (l : list quatR) x r, SO3_mul r (fold_left SO3_mul l x) = fold_left SO3_mul l (SO3_mul r x).
Proof. induction l as [|y l IH]; intros x r; [reflexivity|]. cbn. rewrite IH. now rewrite SO3_mul_assoc. Qed.

Definition st_w (st : istate R) : wstate := (s_rot st, s_vel st, s_pos st).
Definition rij_val (st : istate R) : quatR := match s_rij st with Some r => r | None => SO3_id end.

(* one call on one batch item.  Unit initial rotation and unit increments; any covariance inputs. *)
Theorem forward1_world (left : bool) (c : cfg R) (st : istate R) (fs : list iframeR) :
  fs <> [] -> unitq (s_rot st) -> Forall (fun f => unitq (i_inc f)) fs ->
  let W := world_run (c_g c) (st_w st) fs in
  exists o st', forward1_gen left c st fs = Some (o, st') /\
    o_rot o = map w_R W /\ o_vel o = map w_v W /\ o_pos o = map w_p W /\
    (c_prop c = true <-> o_cov o <> None) /\
    (c_reset c = true -> st' = st) /\
    (c_reset c = false -> st_w st' = fold_left (world_step (c_g c)) fs (st_w st) /\
                          rij_val st' = fold_left SO3_mul (map (@i_inc R) fs) (rij_val st) /\
                          (forall C, o_cov o = Some C -> s_cov st' = C)).
Proof.
  intros Hne H0 HF W.
  unfold forward1_gen. destruct fs as [|f0 fs0]; [contradiction|]. set (fs := f0 :: fs0) in *.
  rewrite integrate_is_recursion. cbn [rot_default]. unfold predict, integ_of. cbn [g_Dr g_Dv g_Dp g_Dt g_w g_a].
  set (run := pre_run (c_g c) (s_rot st) pre_init fs).
  assert (HW : map (compose (s_rot st) (s_vel st) (s_pos st)) run = W).
  { unfold run, W. rewrite compose_run; [|assumption|apply unitq_id|assumption]. now rewrite compose_init. }
  assert (Hrots : map (SO3_mul (s_rot st)) (map p_R run) = map w_R W).
  { rewrite <- HW, !map_map. reflexivity. }
  assert (Hvels : map (fun dv => vadd (s_vel st) (SO3_act (s_rot st) dv)) (map p_v run) = map w_v W).
  { rewrite <- HW, !map_map. reflexivity. }
  assert (Hposs : zip_with (fun dp t => vadd (vadd (s_pos st) (SO3_act (s_rot st) dp)) (vscale t (s_vel st))) (map p_p run) (map p_T run) = map w_p W).
  { rewrite zip_with_map_same, <- HW, map_map. reflexivity. }
  rewrite Hrots, Hvels, Hposs.
  assert (HWne : W <> []).
  { intros E. apply (f_equal (@length _)) in E. unfold W in E. rewrite length_world_run in E. discriminate. }
  set (Rij := match s_rij st with Some r => map (SO3_mul r) (map p_R run) | None => map p_R run end).
  assert (HRij : List.last Rij SO3_id = fold_left SO3_mul (map (@i_inc R) fs) (rij_val st)).
  { destruct (pipeline (c_g c) (s_rot st) fs pre_init) as (_ & PS & _). cbv zeta in PS.
    change (p_R pre_init) with (@SO3_id R NumR) in PS. fold run in PS.
    assert (Hn : map (@i_inc R) fs <> []) by discriminate.
    unfold Rij, rij_val. destruct (s_rij st) as [r|]; rewrite <- PS.
    - rewrite (last_map (SO3_mul r) _ SO3_id SO3_id) by (unfold fs; discriminate).
      rewrite scanl1_last by assumption. rewrite mul_fold. now rewrite SO3_id_r.
    - now apply scanl1_last. }
  destruct (c_prop c) eqn:Ep.
  - destruct (propagate_cov_total left (cframes Rij {| g_a := pre_accs (c_g c) (s_rot st) pre_init fs; g_Dp := map p_p run;
        g_Dv := map p_v run; g_Dr := map p_R run; g_Dt := map p_T run; g_w := map (@i_inc R) fs |} fs) (s_cov st) (c_cg c) (c_ca c)) as (C & HC).
    fold Rij. rewrite HC. eexists. eexists. split; [reflexivity|]. cbn [o_rot o_vel o_pos o_cov].
    split; [reflexivity|]. split; [reflexivity|]. split; [reflexivity|].
    split; [split; [discriminate|reflexivity]|].
    split; [intros ->; reflexivity|]. intros ->. cbn [st_w s_rot s_vel s_pos rij_val s_rij s_cov].
    split; [|split; [exact HRij|intros C' E; now inversion E]].
    rewrite (last_map w_R W (st_w st)), (last_map w_v W (st_w st)), (last_map w_p W (st_w st)) by assumption.
    unfold W. rewrite world_run_last by (unfold fs; discriminate).
    destruct (fold_left (world_step (c_g c)) fs (st_w st)) as [[a b] d]. reflexivity.
  - fold Rij. eexists. eexists. split; [reflexivity|]. cbn [o_rot o_vel o_pos o_cov].
    split; [reflexivity|]. split; [reflexivity|]. split; [reflexivity|].
    split; [split; [discriminate|intros H; now elim H]|].
    split; [intros ->; reflexivity|]. intros ->. cbn [st_w s_rot s_vel s_pos rij_val s_rij s_cov].
    split; [|split; [exact HRij|discriminate]].
    rewrite (last_map w_R W (st_w st)), (last_map w_v W (st_w st)), (last_map w_p W (st_w st)) by assumption.
    unfold W. rewrite world_run_last by (unfold fs; discriminate).
    destruct (fold_left (world_step (c_g c)) fs (st_w st)) as [[a b] d]. reflexivity.
Qed.

(* ------------------------------------------------------------------ 3. consecutive chunks with reset=False = one call *)
(* one module object, one batch item, fed the chunks one call after the other *)
Fixpoint run1_gen (left : bool) (c : cfg R) (st : istate R) (chunks : list (list iframeR)) : option (list (out1 R) * istate R) :=
  match chunks with
  | [] => Some ([], st)
  | fs :: r =>
    match forward1_gen left c st fs with
    | None => None
    | Some (o, st') =>
      match run1_gen left c st' r with
      | None => None
      | Some (os, st'') => Some (o :: os, st'')
      end
    end
  end.
Definition run1 := run1_gen true.

Definition unit_frames (fs : list iframeR) : Prop := Forall (fun f => unitq (i_inc f)) fs.

Lemma run1_world (left : bool) (c : cfg R) : c_reset c = false ->
  forall chunks st, Forall (fun fs => fs <> []) chunks -> Forall unit_frames chunks -> unitq (s_rot st) ->
  exists os st', run1_gen left c st chunks = Some (os, st') /\
    concat (map (@o_rot R) os) = map w_R (world_run (c_g c) (st_w st) (concat chunks)) /\
    concat (map (@o_vel R) os) = map w_v (world_run (c_g c) (st_w st) (concat chunks)) /\
    concat (map (@o_pos R) os) = map w_p (world_run (c_g c) (st_w st) (concat chunks)) /\
    st_w st' = fold_left (world_step (c_g c)) (concat chunks) (st_w st) /\
    rij_val st' = fold_left SO3_mul (map (@i_inc R) (concat chunks)) (rij_val st).
Proof.
  intros Hr. induction chunks as [|fs chunks IH]; intros st Hne Hu H0.
  - exists [], st. cbn. auto 6.
  - destruct (forward1_world left c st fs (Forall_inv Hne) H0 (Forall_inv Hu)) as (o & st1 & E & Er & Ev & Ep & _ & _ & Hs).
    destruct (Hs Hr) as (Hw & Hq & _).
    assert (H1 : unitq (s_rot st1)).
    { change (s_rot st1) with (w_R (st_w st1)). rewrite Hw. apply world_unit; [exact H0|exact (Forall_inv Hu)]. }
    destruct (IH st1 (Forall_inv_tail Hne) (Forall_inv_tail Hu) H1) as (os & st2 & E2 & Rr & Rv & Rp & Rw & Rq).
    exists (o :: os), st2. cbn [run1_gen]. rewrite E, E2. split; [reflexivity|].
    cbn [map concat]. rewrite world_run_app, !map_app, fold_left_app, <- Hw, Er, Ev, Ep, Rr, Rv, Rp.
    split; [reflexivity|]. split; [reflexivity|]. split; [reflexivity|]. split; [exact Rw|].
    rewrite Rq, Hq, fold_left_app. reflexivity.
Qed.

(* every split of the frame list into consecutive non-empty chunks: same rot / vel / pos at every
   frame, same final state (pos, rot, vel and the carried rotation Rij) as one call *)
Theorem chunk_invariance (left : bool) (c : cfg R) (st : istate R) (chunks : list (list iframeR)) :
  c_reset c = false -> chunks <> [] -> Forall (fun fs => fs <> []) chunks -> Forall unit_frames chunks -> unitq (s_rot st) ->
  exists os st1 o st2,
    run1_gen left c st chunks = Some (os, st1) /\ forward1_gen left c st (concat chunks) = Some (o, st2) /\
    concat (map (@o_rot R) os) = o_rot o /\ concat (map (@o_vel R) os) = o_vel o /\ concat (map (@o_pos R) os) = o_pos o /\
    st_w st1 = st_w st2 /\ rij_val st1 = rij_val st2.
Proof.
  intros Hr Hc Hne Hu H0.
  destruct (run1_world left c Hr chunks st Hne Hu H0) as (os & st1 & E1 & Rr & Rv & Rp & Rw & Rq).
  assert (Hcne : concat chunks <> []).
  { destruct chunks as [|fs r]; [contradiction|]. pose proof (Forall_inv Hne) as Hf. destruct fs; [contradiction|]. discriminate. }
  assert (Hcu : Forall (fun f => unitq (i_inc f)) (concat chunks)).
  { clear - Hu. induction chunks as [|fs r IH]; [constructor|]. cbn. apply Forall_app. split; [exact (Forall_inv Hu)|apply IH; exact (Forall_inv_tail Hu)]. }
  destruct (forward1_world left c st (concat chunks) Hcne H0 Hcu) as (o & st2 & E2 & Er & Ev & Ep & _ & _ & Hs).
  destruct (Hs Hr) as (Hw & Hq & _).
  exists os, st1, o, st2. rewrite E1, E2, Er, Ev, Ep, Rr, Rv, Rp, Rw, Rq, Hw, Hq. auto 8.
Qed.

(* reset=True: every call starts from the constructor state *)
Lemma forward1_reset (left : bool) (c : cfg R) (st : istate R) fs o st' :
  c_reset c = true -> forward1_gen left c st fs = Some (o, st') -> st' = st.
Proof.
  intros Hr. unfold forward1_gen. destruct fs; [discriminate|].
  destruct (integrate _ _ _); [|discriminate]. destruct (predict _ _ _ _) as [[a b] d].
  destruct (if c_prop c then _ else _); [|discriminate]. rewrite Hr. intros E. now inversion E.
Qed.

(* ------------------------------------------------------------------ covariance through histories of calls *)
Definition cov_inputs_ok (c : cfg R) (fs : list iframeR) : Prop :=
  nonneg3 (c_cg c) /\ nonneg3 (c_ca c) /\ Forall (fun f => 0 < i_dt f) fs.

Lemma cframes_dt : forall Rij G fs, Forall (fun f => 0 < i_dt f) fs -> Forall (fun x => 0 < c_dt x) (cframes Rij G fs).
Proof.
  intros Rij G fs. unfold cframes. generalize (combine (combine Rij (g_w G)) (g_a G)). intros l.
  revert l. induction fs as [|f fs IH]; intros [|x l] H; cbn; try constructor.
  - exact (Forall_inv H).
  - apply IH. exact (Forall_inv_tail H).
Qed.

Theorem forward1_cov_valid (left : bool) (c : cfg R) (st : istate R) (fs : list iframeR) o st' :
  mvalid (s_cov st) -> cov_inputs_ok c fs -> forward1_gen left c st fs = Some (o, st') ->
  (forall C, o_cov o = Some C -> mvalid C) /\ mvalid (s_cov st').
Proof.
  intros Hv (Hg & Ha & Hdt). unfold forward1_gen. destruct fs as [|f0 fs0]; [discriminate|]. set (fs := f0 :: fs0) in *.
  destruct (integrate _ _ _) as [G|]; [|discriminate]. destruct (predict _ _ _ _) as [[rots vels] poss].
  set (Rij := match s_rij st with Some r => map (SO3_mul r) (g_Dr G) | None => g_Dr G end).
  destruct (c_prop c).
  - destruct (propagate_cov_valid left (cframes Rij G fs) (s_cov st) (c_cg c) (c_ca c) Hv Hg Ha (cframes_dt Rij G fs Hdt)) as (C & HC & VC).
    rewrite HC. intros E. inversion E; subst. cbn [o_cov]. split; [intros C' E'; injection E' as <-; exact VC|].
    destruct (c_reset c); [assumption|exact VC].
  - intros E. inversion E; subst. cbn [o_cov]. split; [discriminate|]. destruct (c_reset c); assumption.
Qed.

(* any history of calls on one object: every returned covariance and the carried one stay valid *)
Theorem run1_cov_valid (left : bool) (c : cfg R) : forall chunks st os st',
  mvalid (s_cov st) -> Forall (cov_inputs_ok c) chunks -> run1_gen left c st chunks = Some (os, st') ->
  Forall (fun o => forall C, o_cov o = Some C -> mvalid C) os /\ mvalid (s_cov st').
Proof.
  induction chunks as [|fs r IH]; intros st os st' Hv Hok E; cbn in E.
  - inversion E; subst. split; [constructor|assumption].
  - destruct (forward1_gen left c st fs) as [[o st1]|] eqn:E1; [|discriminate].
    destruct (run1_gen left c st1 r) as [[os2 st2]|] eqn:E2; [|discriminate]. inversion E; subst.
    destruct (forward1_cov_valid left c st fs o st1 Hv (Forall_inv Hok) E1) as (Ho & Hv1).
    destruct (IH st1 os2 st' Hv1 (Forall_inv_tail Hok) E2) as (Hos & Hv2).
    split; [constructor; assumption|assumption].
Qed.
Lemma init_cov_valid pos rot vel : mvalid (s_cov (init_istate (F:=R) pos rot vel)).
Proof. apply mzero_valid. Qed.

(* ------------------------------------------------------------------ 4. rank normalisation *)
Theorem rank_equivalence (left : bool) (c : cfg R) (st : list (istate R)) :
  (forall dt q j a r,
     forward_gen left c st (T1 dt) (T1 q) (T1 j) (T1 a) (option_map T1 r) =
     forward_gen left c st (T3 [[dt]]) (T3 [[q]]) (T3 [[j]]) (T3 [[a]]) (option_map (fun x => T3 [[x]]) r)) /\
  (forall dt q j a r,
     forward_gen left c st (T2 dt) (T2 q) (T2 j) (T2 a) (option_map T2 r) =
     forward_gen left c st (T3 [dt]) (T3 [q]) (T3 [j]) (T3 [a]) (option_map (fun x => T3 [x]) r)).
Proof. split; intros dt q j a [r|]; reflexivity. Qed.


(* ------------------------------------------------------------------ 6. covariance vs chunking: refuted on the faithful model
   The model is polymorphic in the number type; the witness is evaluated over Q (exact rationals).
   Three frames, gyro = 0 (identity increments, Jr = I), dt = 1/2, accelerations e_x, e_y, e_z, no gravity,
   unit sensor covariances, zero initial state: one call vs chunks [2, 1] with reset=False. *)
Definition wfr (a : @vec3 Q) : iframe Q :=
  {| i_dt := (1 # 2)%Q; i_inc := @SO3_id Q NumQ; i_acc := a; i_grot := None; i_jr := @mid3 Q NumQ |}.
Definition wcfg : cfg Q := {| c_g := (0, 0, 0)%Q; c_cg := (1, 1, 1)%Q; c_ca := (1, 1, 1)%Q; c_prop := true; c_reset := false |}.
Definition wst : istate Q := @init_istate Q NumQ (0, 0, 0)%Q (@SO3_id Q NumQ) (0, 0, 0)%Q.
Definition wf1 := wfr (1, 0, 0)%Q.
Definition wf2 := wfr (0, 1, 0)%Q.
Definition wf3 := wfr (0, 0, 1)%Q.
Definition cov_of (r : option (out1 Q * istate Q)) : option (@mat Q) := match r with Some (o, _) => o_cov o | None => None end.
Definition st_of (r : option (out1 Q * istate Q)) : istate Q := match r with Some (_, s) => s | None => wst end.
Definition w_single (left : bool) : option (@mat Q) := cov_of (@forward1_gen Q NumQ left wcfg wst [wf1; wf2; wf3]).
Definition w_chunked (left : bool) : option (@mat Q) :=
  cov_of (@forward1_gen Q NumQ left wcfg (st_of (@forward1_gen Q NumQ left wcfg wst [wf1; wf2])) [wf3]).
Definition entry (m : option (@mat Q)) (i j : nat) : option Q := match m with Some M => Some (@mget Q NumQ M i j) | None => None end.

Theorem cov_chunks_witness :
  entry (w_single true) 8 8 = Some (141 # 128)%Q /\ entry (w_chunked true) 8 8 = Some (149 # 128)%Q /\
  entry (w_single true) 0 7 = Some (-1 # 4)%Q /\ entry (w_chunked true) 0 7 = Some (-1 # 8)%Q.
Proof. vm_compute. auto. Qed.
Theorem cov_chunk_invariance_refuted : w_single true <> w_chunked true.
Proof. intros H. apply (f_equal (fun m => entry m 8 8)) in H. vm_compute in H. discriminate. Qed.
(* with cumprod(..., left=False) the same stream gives the same covariance either way *)
Theorem cov_chunks_witness_fixed : w_single false = w_chunked false /\ w_chunked false = w_chunked true.
Proof. vm_compute. auto. Qed.

Lemma hypotheses_satisfiable :
  let f : iframe R := {| i_dt := 1; i_inc := SO3_id; i_acc := (0, 0, 1); i_grot := None; i_jr := mid3 |} in
  let c : cfg R := {| c_g := (0, 0, 1); c_cg := (1, 1, 1); c_ca := (1, 1, 1); c_prop := true; c_reset := false |} in
  unit_frames [f] /\ cov_inputs_ok c [f] /\ unitq (s_rot (init_istate (0, 0, 0) SO3_id (0, 0, 0))) /\
  mvalid (s_cov (init_istate (F:=R) (0, 0, 0) SO3_id (0, 0, 0))).
Proof.
  cbv zeta. split; [repeat constructor; apply unitq_id|]. split.
  - unfold cov_inputs_ok, nonneg3. cbn [c_cg c_ca vx vy vz fst snd i_dt].
    split; [lra|]. split; [lra|]. constructor; [cbn [i_dt]; lra|constructor].
  - split; [apply unitq_id|apply mzero_valid].
Qed.

(* ------------------------------------------------------------------ 7. the covariance with cumprod(..., left=False)
   is the documented recursion  C <- A_k C A_k^T + Q_k  (hence chunking-invariant), every F.
   Matrix product is associative on well-formed 9x9 matrices only; the C12 theorem wants an
   unconditionally associative operation, so it is applied to [mm9] (product guarded by the
   shape test) and transported back along the well-formedness invariant of the scan. *)
Definition wf9b (M : matR) : bool := Nat.eqb (length M) 9 && forallb (fun r => Nat.eqb (length r) 9) M.
Lemma wf9b_spec M : wf9b M = true <-> wf 9 9 M.
Proof.
  unfold wf9b, wf. rewrite andb_true_iff, Nat.eqb_eq, forallb_forall, Forall_forall. split.
  - intros (HL & HF). repeat split; try lia. intros r Hr. apply Nat.eqb_eq. now apply HF.
  - intros (_ & _ & HL & HF). split; [exact HL|]. intros r Hr. apply Nat.eqb_eq. now apply HF.
Qed.
Lemma wf9b_nil : wf9b [] = false.  Proof. reflexivity. Qed.
Definition mm9 (a b : matR) : matR := if wf9b a && wf9b b then mmul a b else [].
Lemma mm9_wf a b : wf 9 9 a -> wf 9 9 b -> mm9 a b = mmul a b.
Proof. intros Ha Hb. unfold mm9. apply wf9b_spec in Ha, Hb. now rewrite Ha, Hb. Qed.
Lemma mm9_assoc a b c : mm9 (mm9 a b) c = mm9 a (mm9 b c).
Proof.
  unfold mm9. destruct (wf9b a) eqn:Ea; destruct (wf9b b) eqn:Eb; destruct (wf9b c) eqn:Ec; cbn [andb];
    rewrite ?wf9b_nil, ?andb_false_r; cbn [andb]; try reflexivity.
  apply wf9b_spec in Ea, Eb, Ec.
  assert (Hab : wf9b (mmul a b) = true) by (apply wf9b_spec; eauto with wf).
  assert (Hbc : wf9b (mmul b c) = true) by (apply wf9b_spec; eauto with wf).
  rewrite Hab, Hbc. cbn [andb]. now apply (mmul_assoc 9 9 9 9).
Qed.

Section ScanExt.
Variable A : Type.
Variables op1 op2 : A -> A -> A.
Variable P : A -> Prop.
Hypothesis P_op : forall a b, P a -> P b -> P (op1 a b).
Hypothesis ext : forall a b, P a -> P b -> op1 a b = op2 a b.
Lemma zipop_ext : forall a b, Forall P a -> Forall P b -> zipop op1 a b = zipop op2 a b.
Proof.
  induction a as [|x a IH]; intros [|y b] Ha Hb; cbn; try reflexivity.
  rewrite (ext x y (Forall_inv Ha) (Forall_inv Hb)). f_equal. apply IH; [exact (Forall_inv_tail Ha)|exact (Forall_inv_tail Hb)].
Qed.
Lemma pass_ext s v : Forall P v -> pass op1 s v = pass op2 s v.
Proof. intros H. unfold pass. destruct (length v <? s)%nat; [reflexivity|]. now rewrite zipop_ext by (try apply Forall_skipn'; assumption). Qed.
Lemma scan_ext : forall strides v, Forall P v -> scan op1 strides v = scan op2 strides v.
Proof.
  induction strides as [|s r IH]; intros v H; cbn; [reflexivity|].
  rewrite <- (pass_ext s v H). destruct (pass op1 s v) as [v1|] eqn:E; [|reflexivity].
  apply IH. exact (pass_Forall A op1 P P_op s v v1 E H).
Qed.
End ScanExt.

Lemma scanl1_ext {A} (f g : A -> A -> A) (P : A -> Prop) (Pf : forall a b, P a -> P b -> P (f a b))
  (ext : forall a b, P a -> P b -> f a b = g a b) : forall l a, P a -> Forall P l -> scanl1 f a l = scanl1 g a l.
Proof.
  induction l as [|x l IH]; intros a Ha Hl; [reflexivity|]. cbn [scanl1].
  rewrite <- (ext a x Ha (Forall_inv Hl)). f_equal. apply IH; [apply Pf; [assumption|exact (Forall_inv Hl)]|exact (Forall_inv_tail Hl)].
Qed.

(* the scan over well-formed 9x9 matrices, right order, is the running product *)
Lemma cumprod_mmul_scanl (x : matR) (l : list matR) : wf 9 9 x -> Forall (wf 9 9) l ->
  cumprod_model mmul false (x :: l) = Some (scanl mmul x l).
Proof.
  intros Hx Hl. unfold cumprod_model, cumops_model.
  rewrite (scan_ext matR mmul mm9 (wf 9 9)); [| intros; eauto with wf | intros a b Ha Hb; symmetry; now apply mm9_wf | now constructor].
  change (cumprod_model mm9 false (x :: l) = Some (scanl mmul x l)).
  rewrite (cumprod_right_scanl mm9 mm9_assoc). unfold scanl. do 2 f_equal.
  apply (scanl1_ext mm9 mmul (wf 9 9)); try assumption; [|intros; now apply mm9_wf].
  intros a b Ha Hb. rewrite mm9_wf by assumption. eauto with wf.
Qed.

(* suffix products  Phi [A_k; ...; A_{F-1}] = I A_{F-1} ... A_k *)
Definition Phi (l : list matR) : matR := fold_right (fun A acc => mmul acc A) (mid 9) l.
Fixpoint tails {A} (l : list A) : list (list A) :=
  match l with [] => [[]] | x :: r => (x :: r) :: tails r end.
Lemma tails_hd {A} (l : list A) : tails l = l :: tl (tails l).
Proof. destruct l; reflexivity. Qed.
Lemma scanl_snoc {A B} (f : A -> B -> A) : forall l a x, scanl f a (l ++ [x]) = scanl f a l ++ [f (fold_left f l a) x].
Proof.
  unfold scanl. induction l as [|y l IH]; intros a x; [reflexivity|].
  cbn [app scanl1 fold_left]. specialize (IH (f a y) x). cbn [app] in IH. injection IH as IH. now rewrite IH.
Qed.
Lemma fold_left_rev {A B} (f : A -> B -> A) : forall l a, fold_left f (rev l) a = fold_right (fun x acc => f acc x) a l.
Proof. induction l as [|x l IH]; intros a; [reflexivity|]. cbn [rev fold_right]. rewrite fold_left_app. cbn. now rewrite IH. Qed.
Lemma rev_scanl_rev : forall l : list matR, rev (scanl mmul (mid 9) (rev l)) = map Phi (tails l).
Proof.
  induction l as [|x l IH]; [reflexivity|].
  cbn [rev]. rewrite scanl_snoc, rev_app_distr. cbn [rev app tails map]. rewrite IH. f_equal.
  unfold Phi. cbn [fold_right]. f_equal. apply fold_left_rev.
Qed.
Lemma wf_Phi : forall l, Forall (wf 9 9) l -> wf 9 9 (Phi l).
Proof.
  induction l as [|x l IH]; intros H; [apply mid_valid|].
  unfold Phi. cbn [fold_right]. fold (Phi l). pose proof (IH (Forall_inv_tail H)). pose proof (Forall_inv H). eauto with wf.
Qed.

(* the documented recursion *)
Definition cov_step (C : matR) (AQ : matR * matR) : matR := madd (congr (fst AQ) C) (snd AQ).
Definition cov_rec (As Qs : list matR) (C0 : matR) : matR := fold_left cov_step (combine As Qs) C0.

Lemma congr_mid P : wf 9 9 P -> congr (mid 9) P = P.
Proof. intros H. unfold congr. rewrite (mmul_mid_l 9 9) by assumption. rewrite mtr_mid by lia. now apply (mmul_mid_r 9 9). Qed.
Lemma congr_madd M P Q : wf 9 9 M -> wf 9 9 P -> wf 9 9 Q -> congr M (madd P Q) = madd (congr M P) (congr M Q).
Proof.
  intros HM HP HQ. unfold congr. rewrite (mmul_madd_r 9 9 9) by assumption.
  apply (mmul_madd_l 9 9 9); eauto with wf.
Qed.
Lemma congr_congr M A P : wf 9 9 M -> wf 9 9 A -> wf 9 9 P -> congr M (congr A P) = congr (mmul M A) P.
Proof.
  intros HM HA HP. unfold congr. rewrite (mtr_mmul 9 9 9 M A) by assumption.
  rewrite <- (mmul_assoc 9 9 9 9 M (mmul A P) (mtr A)) by eauto with wf.
  rewrite <- (mmul_assoc 9 9 9 9 M A P) by assumption.
  now rewrite (mmul_assoc 9 9 9 9 (mmul (mmul M A) P) (mtr A) (mtr M)) by eauto with wf.
Qed.

Lemma sum_is_recursion : forall (l Qs : list matR) (B0 : matR),
  Forall (wf 9 9) l -> Forall (wf 9 9) Qs -> wf 9 9 B0 -> length Qs = length l ->
  msum (zip_with congr (map Phi (tails l)) (B0 :: Qs)) = cov_rec l Qs B0.
Proof.
  induction l as [|A l IH]; intros Qs B0 Hl HQ HB Hlen.
  - destruct Qs; [|discriminate]. unfold cov_rec, Phi. cbn [tails map zip_with msum fold_right combine fold_left]. now apply congr_mid.
  - destruct Qs as [|Q Qs]; [discriminate|].
    pose proof (Forall_inv Hl) as HA. pose proof (Forall_inv_tail Hl) as Hl'.
    pose proof (Forall_inv HQ) as HQ0. pose proof (Forall_inv_tail HQ) as HQ'.
    pose proof (wf_Phi l Hl') as HP.
    assert (HB' : wf 9 9 (madd (congr A B0) Q)) by (unfold congr; eauto with wf).
    specialize (IH Qs (madd (congr A B0) Q) Hl' HQ' HB' ltac:(cbn in Hlen; lia)).
    unfold cov_rec. cbn [combine fold_left]. unfold cov_step at 2. cbn [fst snd]. fold (cov_rec l Qs (madd (congr A B0) Q)).
    rewrite <- IH. cbn [tails map]. rewrite (tails_hd l). cbn [map zip_with msum].
    cbn [fold_left]. f_equal. symmetry. rewrite congr_madd by (try assumption; unfold congr; eauto with wf).
    rewrite congr_congr by assumption. reflexivity.
Qed.

Lemma wf_cov_Q cg ca c : wf 9 9 (cov_Q cg ca c).
Proof.
  destruct c as [[[[Rij Rk] a] jr] dt]. unfold cov_Q.
  pose proof (wf_cov_Bg (Rij, Rk, a, jr, dt)). pose proof (wf_cov_Ba (Rij, Rk, a, jr, dt)).
  pose proof (wf_diag3 cg). pose proof (wf_diag3 ca). eauto 10 with wf.
Qed.

(* for EVERY frame count: with the right-to-left order the result is the recursion
   C_0 = init_cov,  C_{k+1} = A_k C_k A_k^T + Q_k *)
Theorem propagate_cov_fixed_is_recursion (cs : list (cframe R)) (init_cov : matR) (cg ca : vec3R) :
  wf 9 9 init_cov ->
  propagate_cov_gen false cs init_cov cg ca = Some (cov_rec (map cov_A cs) (map (cov_Q cg ca) cs) init_cov).
Proof.
  intros Hi. unfold propagate_cov_gen.
  assert (HAs : Forall (wf 9 9) (map cov_A cs)).
  { apply Forall_forall. intros M HM. apply in_map_iff in HM. destruct HM as (c & <- & _). apply wf_cov_A. }
  assert (HQs : Forall (wf 9 9) (map (cov_Q cg ca) cs)).
  { apply Forall_forall. intros M HM. apply in_map_iff in HM. destruct HM as (c & <- & _). apply wf_cov_Q. }
  rewrite rev_app_distr. cbn [rev app].
  rewrite cumprod_mmul_scanl; [|apply mid_valid|now apply Forall_rev].
  rewrite rev_scanl_rev. f_equal. apply sum_is_recursion; try assumption. now rewrite !map_length.
Qed.

(* consequently the recursion (and the fixed covariance) composes over consecutive chunks *)
Lemma cov_rec_app : forall As1 Qs1 As2 Qs2 C0, length As1 = length Qs1 ->
  cov_rec (As1 ++ As2) (Qs1 ++ Qs2) C0 = cov_rec As2 Qs2 (cov_rec As1 Qs1 C0).
Proof.
  induction As1 as [|A As1 IH]; intros [|Q Qs1] As2 Qs2 C0 H; try discriminate; [reflexivity|].
  unfold cov_rec in *. cbn [app combine fold_left]. apply IH. cbn in H. lia.
Qed.

(* ---- the covariance inputs of a call as a sequential function of (world rotation, carried Rij) *)
Fixpoint cfr_run (g : vec3R) (Rw Q : quatR) (fs : list iframeR) : list (cframe R) :=
  match fs with
  | [] => []
  | f :: r =>
    let Rw' := SO3_mul Rw (i_inc f) in
    let Q' := SO3_mul Q (i_inc f) in
    (Q', i_inc f, vsub (i_acc f) (SO3_act (SO3_inv (grav_rot f Rw')) g), i_jr f, i_dt f) :: cfr_run g Rw' Q' r
  end.
Lemma cfr_run_app g : forall a b Rw Q,
  cfr_run g Rw Q (a ++ b) = cfr_run g Rw Q a ++ cfr_run g (fold_left SO3_mul (map (@i_inc R) a) Rw) (fold_left SO3_mul (map (@i_inc R) a) Q) b.
Proof. induction a as [|f a IH]; intros b Rw Q; [reflexivity|]. cbn [app cfr_run map fold_left]. now rewrite IH. Qed.

Lemma cframes_pre g ir q0 : forall fs s,
  zip_with (fun (p : quatR * quatR * vec3R) f => (p, i_jr f, i_dt f))
    (combine (combine (map (SO3_mul q0) (map p_R (pre_run g ir s fs))) (map (@i_inc R) fs)) (pre_accs g ir s fs)) fs
  = cfr_run g (SO3_mul ir (p_R s)) (SO3_mul q0 (p_R s)) fs.
Proof.
  induction fs as [|f fs IH]; intros s; [reflexivity|].
  cbn [pre_run pre_accs map combine zip_with cfr_run]. rewrite IH.
  change (p_R (pre_step g ir s f)) with (SO3_mul (p_R s) (i_inc f)).
  unfold pre_acc. rewrite <- !SO3_mul_assoc. reflexivity.
Qed.

Lemma forward1_cov (left : bool) (c : cfg R) (st : istate R) (fs : list iframeR) o st' :
  c_prop c = true -> forward1_gen left c st fs = Some (o, st') ->
  o_cov o = propagate_cov_gen left (cfr_run (c_g c) (s_rot st) (rij_val st) fs) (s_cov st) (c_cg c) (c_ca c).
Proof.
  intros Hp. unfold forward1_gen. destruct fs as [|f0 fs0]; [discriminate|]. set (fs := f0 :: fs0).
  rewrite integrate_is_recursion. cbn [rot_default]. unfold predict, integ_of. cbn [g_Dr g_Dv g_Dp g_Dt g_w g_a]. rewrite Hp.
  set (run := pre_run (c_g c) (s_rot st) pre_init fs).
  assert (HR : match s_rij st with Some r => map (SO3_mul r) (map p_R run) | None => map p_R run end
               = map (SO3_mul (rij_val st)) (map p_R run)).
  { unfold rij_val. destruct (s_rij st); [reflexivity|]. rewrite <- (map_id (map p_R run)) at 1. apply map_ext. intros x. now rewrite SO3_id_l. }
  rewrite HR. unfold cframes. cbn [g_w g_a]. unfold run. rewrite cframes_pre.
  change (p_R pre_init) with (@SO3_id R NumR). rewrite !SO3_id_r.
  destruct (propagate_cov_gen left _ _ _ _); [|discriminate]. intros E. inversion E; subst. reflexivity.
Qed.

Lemma world_R_fold g : forall fs s, w_R (fold_left (world_step g) fs s) = fold_left SO3_mul (map (@i_inc R) fs) (w_R s).
Proof. induction fs as [|f fs IH]; intros s; [reflexivity|]. cbn [fold_left map]. now rewrite IH. Qed.
Lemma wf_cov_rec : forall As Qs C0, Forall (wf 9 9) As -> Forall (wf 9 9) Qs -> wf 9 9 C0 -> wf 9 9 (cov_rec As Qs C0).
Proof.
  unfold cov_rec. induction As as [|A As IH]; intros [|Q Qs] C0 HA HQ HC; cbn [combine fold_left]; try assumption.
  apply IH; [exact (Forall_inv_tail HA)|exact (Forall_inv_tail HQ)|].
  unfold cov_step, congr. cbn [fst snd]. pose proof (Forall_inv HA). pose proof (Forall_inv HQ). eauto with wf.
Qed.
Definition cov_of_frames (cg ca : vec3R) (X : list (cframe R)) (C0 : matR) : matR :=
  cov_rec (map cov_A X) (map (cov_Q cg ca) X) C0.
Lemma wf_cov_of_frames cg ca X C0 : wf 9 9 C0 -> wf 9 9 (cov_of_frames cg ca X C0).
Proof.
  intros H. apply wf_cov_rec; [| |assumption]; apply Forall_forall; intros M HM; apply in_map_iff in HM; destruct HM as (x & <- & _);
    [apply wf_cov_A|apply wf_cov_Q].
Qed.

(* with left = false: after any sequence of chunks the carried covariance is the documented
   recursion over ALL frames fed so far *)
Lemma run1_cov_fixed (c : cfg R) : c_reset c = false -> c_prop c = true ->
  forall chunks st os st', Forall (fun fs => fs <> []) chunks -> Forall unit_frames chunks -> unitq (s_rot st) -> wf 9 9 (s_cov st) ->
  run1_gen false c st chunks = Some (os, st') ->
  s_cov st' = cov_of_frames (c_cg c) (c_ca c) (cfr_run (c_g c) (s_rot st) (rij_val st) (concat chunks)) (s_cov st).
Proof.
  intros Hr Hp. induction chunks as [|fs chunks IH]; intros st os st' Hne Hu H0 Hw E.
  - cbn in E. inversion E; subst. reflexivity.
  - cbn [run1_gen] in E.
    destruct (forward1_world false c st fs (Forall_inv Hne) H0 (Forall_inv Hu)) as (o & st1 & E1 & _ & _ & _ & Hc & _ & Hs).
    rewrite E1 in E. destruct (run1_gen false c st1 chunks) as [[os2 st2]|] eqn:E2; [|discriminate]. inversion E; subst os st'.
    destruct (Hs Hr) as (Hw1 & Hq1 & Hcov).
    pose proof (forward1_cov false c st fs o st1 Hp E1) as Ho. rewrite (propagate_cov_fixed_is_recursion _ _ _ _ Hw) in Ho.
    pose proof (Hcov _ Ho) as Hc1. fold (cov_of_frames (c_cg c) (c_ca c) (cfr_run (c_g c) (s_rot st) (rij_val st) fs) (s_cov st)) in Hc1.
    assert (H1 : unitq (s_rot st1)).
    { change (s_rot st1) with (w_R (st_w st1)). rewrite Hw1. apply world_unit; [exact H0|exact (Forall_inv Hu)]. }
    assert (Hw' : wf 9 9 (s_cov st1)) by (rewrite Hc1; now apply wf_cov_of_frames).
    rewrite (IH st1 os2 st2 (Forall_inv_tail Hne) (Forall_inv_tail Hu) H1 Hw' E2).
    cbn [concat]. rewrite cfr_run_app. unfold cov_of_frames. rewrite !map_app, cov_rec_app by (now rewrite !map_length).
    fold (cov_of_frames (c_cg c) (c_ca c) (cfr_run (c_g c) (s_rot st) (rij_val st) fs) (s_cov st)). rewrite <- Hc1.
    change (s_rot st1) with (w_R (st_w st1)). rewrite Hw1, world_R_fold, Hq1. reflexivity.
Qed.

(* chunk invariance of the covariance for the repaired order (left = false) *)
Theorem cov_chunk_invariance_fixed (c : cfg R) (st : istate R) (chunks : list (list iframeR)) :
  c_reset c = false -> c_prop c = true -> chunks <> [] -> Forall (fun fs => fs <> []) chunks -> Forall unit_frames chunks ->
  unitq (s_rot st) -> wf 9 9 (s_cov st) ->
  exists os st1 o st2,
    run1_gen false c st chunks = Some (os, st1) /\ forward1_gen false c st (concat chunks) = Some (o, st2) /\
    s_cov st1 = s_cov st2 /\ o_cov o = Some (s_cov st1).
Proof.
  intros Hr Hp Hc Hne Hu H0 Hw.
  destruct (chunk_invariance false c st chunks Hr Hc Hne Hu H0) as (os & st1 & o & st2 & E1 & E2 & _).
  exists os, st1, o, st2. split; [exact E1|]. split; [exact E2|].
  pose proof (run1_cov_fixed c Hr Hp chunks st os st1 Hne Hu H0 Hw E1) as C1.
  assert (E2' : run1_gen false c st [concat chunks] = Some ([o], st2)) by (cbn [run1_gen]; now rewrite E2).
  assert (Hcne : concat chunks <> []).
  { destruct chunks as [|fs r]; [contradiction|]. pose proof (Forall_inv Hne) as Hf. destruct fs; [contradiction|]. discriminate. }
  assert (Hcu : unit_frames (concat chunks)).
  { clear - Hu. induction chunks as [|fs r IH]; [constructor|]. cbn. apply Forall_app. split; [exact (Forall_inv Hu)|apply IH; exact (Forall_inv_tail Hu)]. }
  pose proof (run1_cov_fixed c Hr Hp [concat chunks] st [o] st2 ltac:(repeat constructor; assumption) ltac:(repeat constructor; assumption) H0 Hw E2') as C2.
  cbn [concat] in C2. rewrite app_nil_r in C2. split; [now rewrite C1, C2|].
  pose proof (forward1_cov false c st (concat chunks) o st2 Hp E2) as Ho. rewrite (propagate_cov_fixed_is_recursion _ _ _ _ Hw) in Ho.
  rewrite Ho, C1. reflexivity.
Qed.

(* ------------------------------------------------------------------ the batch axis: a rank-3 call is the per-item call on every item *)
Definition no_rot (fs : list iframeR) : Prop := Forall (fun f => i_grot f = None) fs.
Lemma frames_of_roundtrip : forall fs : list iframeR, no_rot fs ->
  frames_of (map (@i_dt R) fs) (map (@i_inc R) fs) (map (@i_jr R) fs) (map (@i_acc R) fs) None = Some fs.
Proof.
  intros fs H. unfold frames_of. rewrite !map_length, !Nat.eqb_refl. cbn [andb negb]. f_equal.
  induction fs as [|f fs IH]; [reflexivity|]. cbn [map combine zip_with]. rewrite IH by exact (Forall_inv_tail H).
  f_equal. destruct f as [d q a r j]. pose proof (Forall_inv H) as E. cbn in E. subst r. reflexivity.
Qed.
Lemma opt_all_map_Some {A} (l : list A) : opt_all (map Some l) = Some l.
Proof. induction l as [|x l IH]; [reflexivity|]. cbn. now rewrite IH. Qed.
Lemma batch_frames : forall items : list (list iframeR), Forall no_rot items ->
  zip_with (fun (p : list R * list quatR * list mat3R * list vec3R) r => let '(d, q, j, a) := p in frames_of d q j a r)
    (combine (combine (combine (map (map (@i_dt R)) items) (map (map (@i_inc R)) items)) (map (map (@i_jr R)) items)) (map (map (@i_acc R)) items))
    (repeat None (length items)) = map Some items.
Proof.
  induction items as [|fs items IH]; intros H; [reflexivity|].
  cbn [map combine length repeat zip_with]. rewrite IH by exact (Forall_inv_tail H).
  now rewrite frames_of_roundtrip by exact (Forall_inv H).
Qed.
Theorem forward_per_item (left : bool) (c : cfg R) (st : list (istate R)) (items : list (list iframeR)) :
  Forall no_rot items ->
  forward_gen left c st (T3 (map (map (@i_dt R)) items)) (T3 (map (map (@i_inc R)) items)) (T3 (map (map (@i_jr R)) items))
              (T3 (map (map (@i_acc R)) items)) None =
  match bcast (length items) st with
  | Some stB => match opt_all (zip_with (forward1_gen left c) stB items) with
                | Some res => Some (map fst res, map snd res) | None => None end
  | None => None
  end.
Proof.
  intros H. unfold forward_gen. cbn [trank check Nat.eqb andb negb]. rewrite !map_length, !Nat.eqb_refl. cbn [andb negb].
  destruct (bcast (length items) st) as [stB|]; [|reflexivity].
  rewrite batch_frames by assumption. now rewrite opt_all_map_Some.
Qed.

(* ------------------------------------------------------------------ the source as it is now (code_left = false) *)
Theorem cov_is_recursion (cs : list (cframe R)) (init_cov : matR) (cg ca : vec3R) : wf 9 9 init_cov ->
  propagate_cov cs init_cov cg ca = Some (cov_rec (map cov_A cs) (map (cov_Q cg ca) cs) init_cov).
Proof. exact (propagate_cov_fixed_is_recursion cs init_cov cg ca). Qed.
Theorem cov_chunk_invariance (c : cfg R) (st : istate R) (chunks : list (list iframeR)) :
  c_reset c = false -> c_prop c = true -> chunks <> [] -> Forall (fun fs => fs <> []) chunks -> Forall unit_frames chunks ->
  unitq (s_rot st) -> wf 9 9 (s_cov st) ->
  exists os st1 o st2,
    run1_gen code_left c st chunks = Some (os, st1) /\ forward1 c st (concat chunks) = Some (o, st2) /\
    s_cov st1 = s_cov st2 /\ o_cov o = Some (s_cov st1).
Proof. exact (cov_chunk_invariance_fixed c st chunks). Qed.
