(* C16: IMU preintegration (Model/IMU.v) over R.
   1. the parallel-prefix [integrate] equals the documented sequential recursion, every F;
   2. [forward1] = the world-frame recursion composed with the initial state (unit rotations);
   3. feeding consecutive chunks with reset=False = one call (rot, vel, pos, Rij);
   4. rank normalisation;
   5. the propagated covariance is symmetric positive semidefinite, every F, every history;
   6. the covariance of the faithful model is NOT chunking-invariant (wrong order of the reversed
      cumulative product); with cumprod(..., left=False) it is the documented recursion. *)
From Coq Require Import Reals Lra Psatz List Arith Lia.
Import ListNotations.
From PV Require Import Base.Num Base.RTac Base.Mat Model.Cumops Model.LieGroup Model.IMU Proofs.Cumops Proofs.LieGroup.
Local Open Scope R_scope.
#[local] Remove Hints NumQ NumZ : typeclass_instances.

Notation iframeR := (iframe R).
Notation mat3R := (@mat3 R).

(* ------------------------------------------------------------------ generic list facts *)
Lemma length_zip_with {A B C} (f : A -> B -> C) : forall a b, length (zip_with f a b) = Nat.min (length a) (length b).
Proof. induction a as [|x a IH]; intros [|y b]; cbn; auto. Qed.

Lemma zip_with_firstn_l {A B C} (f : A -> B -> C) : forall n a b, (length b <= n)%nat ->
  zip_with f (firstn n a) b = zip_with f a b.
Proof.
  induction n as [|n IH]; intros a b H.
  - destruct b; [|cbn in H; lia]. destruct a; reflexivity.
  - destruct a as [|x a]; [reflexivity|]. destruct b as [|y b]; [reflexivity|].
    cbn [firstn zip_with]. f_equal. apply IH. cbn in H. lia.
Qed.
Lemma combine_firstn_l {A B} : forall n (a : list A) (b : list B), (length b <= n)%nat ->
  combine (firstn n a) b = combine a b.
Proof.
  induction n as [|n IH]; intros a b H.
  - destruct b; [|cbn in H; lia]. destruct a; reflexivity.
  - destruct a as [|x a]; [reflexivity|]. destruct b as [|y b]; [reflexivity|].
    cbn [firstn combine]. f_equal. apply IH. cbn in H. lia.
Qed.
Lemma zip_with_map_same {A B C D} (f : B -> C -> D) (g : A -> B) (h : A -> C) : forall l,
  zip_with f (map g l) (map h l) = map (fun x => f (g x) (h x)) l.
Proof. induction l as [|x l IH]; cbn; [reflexivity|now rewrite IH]. Qed.
Lemma zip_with_cons {A B C} (f : A -> B -> C) x a y b : zip_with f (x :: a) (y :: b) = f x y :: zip_with f a b.
Proof. reflexivity. Qed.
Lemma combine_cons {A B} (x : A) a (y : B) b : combine (x :: a) (y :: b) = (x, y) :: combine a b.
Proof. reflexivity. Qed.
Lemma map_tl {A B} (f : A -> B) l : tl (map f l) = map f (tl l).
Proof. destruct l; reflexivity. Qed.

(* running product: scanl f a [x1..xn] = [a; a.x1; ...; a.x1...xn] *)
Fixpoint scanl1 {A B} (f : A -> B -> A) (a : A) (l : list B) : list A :=
  match l with [] => [] | x :: r => f a x :: scanl1 f (f a x) r end.
Definition scanl {A B} (f : A -> B -> A) (a : A) (l : list B) : list A := a :: scanl1 f a l.
Lemma length_scanl1 {A B} (f : A -> B -> A) : forall l a, length (scanl1 f a l) = length l.
Proof. induction l as [|x l IH]; intros a; cbn; [reflexivity|now rewrite IH]. Qed.
Lemma scanl_step {A} (f : A -> A -> A) (d : A) : forall l a j, (j < length l)%nat ->
  nth (S j) (scanl f a l) d = f (nth j (scanl f a l) d) (nth j l d).
Proof.
  unfold scanl. induction l as [|x l IH]; intros a j Hj; [cbn in Hj; lia|].
  destruct j as [|j]; [reflexivity|].
  cbn [scanl1]. change (nth (S (S j)) (a :: f a x :: scanl1 f (f a x) l) d) with (nth (S j) (f a x :: scanl1 f (f a x) l) d).
  rewrite IH by (cbn in Hj; lia). reflexivity.
Qed.
Lemma rprefix_scanl {A} (f : A -> A -> A) (d : A) l a : forall i, (i <= length l)%nat ->
  rprefix A f d (a :: l) i = nth i (scanl f a l) d.
Proof.
  induction i as [|i IH]; intros Hi; [reflexivity|].
  cbn [rprefix]. rewrite IH by lia. rewrite scanl_step by lia. reflexivity.
Qed.
(* the stride-doubling scan of Model/Cumops.v, seeded with [a], is the running product *)
Lemma cumprod_right_scanl {A} (f : A -> A -> A) (Hassoc : forall a b c, f (f a b) c = f a (f b c)) (a : A) (l : list A) :
  cumprod_model f false (a :: l) = Some (scanl f a l).
Proof.
  destruct (cumprod_right_correct A f Hassoc a (a :: l)) as (r & Hr & Hlen & Hn); [cbn; lia|].
  rewrite Hr. f_equal. apply (nth_ext _ _ a a).
  - rewrite Hlen. unfold scanl. cbn. now rewrite length_scanl1.
  - intros i Hi. rewrite Hlen in Hi. rewrite Hn by assumption. apply rprefix_scanl. cbn in Hi. lia.
Qed.

Lemma cumsum_from_zero l : cumsum Rplus l = cumsum_from Rplus 0 l.
Proof. destruct l as [|x l]; [reflexivity|]. cbn. now rewrite Rplus_0_l. Qed.

(* ------------------------------------------------------------------ 1. integrate = documented recursion *)
Section Integrate.
Variable g : vec3R.
Variable ir : quatR.     (* initial rotation used to integrate the gravity-compensating rotation *)

(* preintegration state (dR, dv, dp, T) *)
Definition pstate := (quatR * vec3R * vec3R * R)%type.
Definition p_R (s : pstate) : quatR := fst (fst (fst s)).
Definition p_v (s : pstate) : vec3R := snd (fst (fst s)).
Definition p_p (s : pstate) : vec3R := snd (fst s).
Definition p_T (s : pstate) : R := snd s.
(* acceleration of the frame with gravity removed: rotation supplied with the frame, else the
   integrated rotation ir * dR * Exp(w dt)  (AFTER the frame's increment, as coded) *)
Definition pre_acc (dR : quatR) (f : iframeR) : vec3R :=
  vsub (i_acc f) (SO3_act (SO3_inv (grav_rot f (SO3_mul ir (SO3_mul dR (i_inc f))))) g).
(*  dR <- dR Exp(w dt),  dv <- dv + dR a dt,  dp <- dp + dv dt + 1/2 dR a dt^2   (old dR, dv on the right) *)
Definition pre_step (s : pstate) (f : iframeR) : pstate :=
  let a := pre_acc (p_R s) f in
  let Ra := SO3_act (p_R s) a in
  (SO3_mul (p_R s) (i_inc f),
   vadd (p_v s) (vscale (i_dt f) Ra),
   vadd (p_p s) (vadd (vscale (i_dt f) (p_v s)) (vscale (i_dt f * i_dt f) (vscale (1 / 2) Ra))),
   p_T s + i_dt f).
Fixpoint pre_run (s : pstate) (fs : list iframeR) : list pstate :=
  match fs with [] => [] | f :: r => let s' := pre_step s f in s' :: pre_run s' r end.
Fixpoint pre_accs (s : pstate) (fs : list iframeR) : list vec3R :=
  match fs with [] => [] | f :: r => pre_acc (p_R s) f :: pre_accs (pre_step s f) r end.
Definition pre_init : pstate := (SO3_id, vzero, vzero, 0).

Lemma length_pre_run : forall fs s, length (pre_run s fs) = length fs.
Proof. induction fs as [|f fs IH]; intros s; cbn; [reflexivity|now rewrite IH]. Qed.
Lemma length_pre_accs : forall fs s, length (pre_accs s fs) = length fs.
Proof. induction fs as [|f fs IH]; intros s; cbn; [reflexivity|now rewrite IH]. Qed.

(* the pipeline of [integrate] after the scan has been replaced by the running product *)
Lemma pipeline : forall (fs : list iframeR) (s : pstate),
  let S1 := scanl1 SO3_mul (p_R s) (map (@i_inc R) fs) in
  let A := zip_with (fun f Rr => vsub (i_acc f) (SO3_act (SO3_inv (grav_rot f Rr)) g)) fs (map (SO3_mul ir) S1) in
  let Ra := zip_with SO3_act (p_R s :: S1) A in
  let Vs := cumsum_from vadd (p_v s) (zip_with (fun x f => vscale (i_dt f) x) Ra fs) in
  let Ps := cumsum_from vadd (p_p s)
              (zip_with (fun (vr : vec3R * vec3R) f => vadd (vscale (i_dt f) (fst vr)) (vscale (i_dt f * i_dt f) (vscale half (snd vr))))
                        (combine (p_v s :: Vs) Ra) fs) in
  let Ts := cumsum_from Rplus (p_T s) (map (@i_dt R) fs) in
  A = pre_accs s fs /\ S1 = map p_R (pre_run s fs) /\ Vs = map p_v (pre_run s fs) /\
  Ps = map p_p (pre_run s fs) /\ Ts = map p_T (pre_run s fs).
Proof.
  induction fs as [|f fs IH]; intros s; [cbn; auto 6|].
  specialize (IH (pre_step s f)). cbv zeta in IH. destruct IH as (IA & IS & IV & IP & IT).
  cbv zeta. cbn [map scanl1 pre_accs pre_run].
  repeat (rewrite zip_with_cons || rewrite combine_cons || (progress cbn [cumsum_from])).
  cbn [fst snd].
  change (p_R (pre_step s f)) with (SO3_mul (p_R s) (i_inc f)) in *.
  change (p_T (pre_step s f)) with (p_T s + i_dt f) in IT.
  change (p_v (pre_step s f)) with (vadd (p_v s) (vscale (i_dt f) (SO3_act (p_R s) (pre_acc (p_R s) f)))) in IV, IP.
  change (p_p (pre_step s f)) with
    (vadd (p_p s) (vadd (vscale (i_dt f) (p_v s)) (vscale (i_dt f * i_dt f) (vscale (1 / 2) (SO3_act (p_R s) (pre_acc (p_R s) f)))))) in IP.
  change (vsub (i_acc f) (SO3_act (SO3_inv (grav_rot f (SO3_mul ir (SO3_mul (p_R s) (i_inc f))))) g)) with (pre_acc (p_R s) f).
  split; [now rewrite IA|]. split; [now rewrite IS|]. split; [now rewrite IV|].
  split; [|now rewrite IT].
  change (@half R NumR) with (1 / 2) in *. rewrite IP. reflexivity.
Qed.

End Integrate.

Definition integ_of (g : vec3R) (ir : quatR) (fs : list iframeR) : integ R :=
  let run := pre_run g ir pre_init fs in
  {| g_a := pre_accs g ir pre_init fs; g_Dp := map p_p run; g_Dv := map p_v run; g_Dr := map p_R run;
     g_Dt := map p_T run; g_w := map (@i_inc R) fs |}.
Definition rot_default (o : option quatR) : quatR := match o with Some r => r | None => SO3_id end.

(* for EVERY number of frames the parallel-prefix integration returns the documented recursion *)
Theorem integrate_is_recursion (g : vec3R) (init_rot : option quatR) (fs : list iframeR) :
  integrate g init_rot fs = Some (integ_of g (rot_default init_rot) fs).
Proof.
  unfold integrate. rewrite (cumprod_right_scanl SO3_mul SO3_mul_assoc).
  unfold scanl, integ_of. f_equal.
  set (ir := match init_rot with Some r => r | None => SO3_id end).
  change (rot_default init_rot) with ir.
  set (S1 := scanl1 SO3_mul SO3_id (map (@i_inc R) fs)).
  assert (HS1 : length S1 = length fs) by (unfold S1; now rewrite length_scanl1, map_length).
  cbn [map tl].
  set (A := zip_with (fun f Rr => vsub (i_acc f) (SO3_act (SO3_inv (grav_rot f Rr)) g)) fs (map (SO3_mul ir) S1)).
  assert (HA : length A = length fs) by (unfold A; rewrite length_zip_with, map_length, HS1; lia).
  rewrite (zip_with_firstn_l SO3_act (length fs) (SO3_id :: S1) A) by (rewrite HA; apply Nat.le_refl).
  set (Ra := zip_with SO3_act (SO3_id :: S1) A).
  assert (HRa : length Ra = length fs) by (unfold Ra; rewrite length_zip_with, HA; cbn [length]; rewrite HS1; lia).
  cbn [cumsum tl].
  set (Vs := cumsum_from vadd vzero (zip_with (fun x f => vscale (i_dt f) x) Ra fs)).
  rewrite (combine_firstn_l (length fs) (vzero :: Vs) Ra) by (rewrite HRa; apply Nat.le_refl).
  rewrite cumsum_from_zero.
  destruct (pipeline g ir fs pre_init) as (PA & PS & PV & PP & PT).
  cbv zeta in PA, PS, PV, PP, PT.
  change (p_R pre_init) with (@SO3_id R NumR) in *. change (p_v pre_init) with (@vzero R NumR) in *.
  change (p_p pre_init) with (@vzero R NumR) in *. change (p_T pre_init) with 0 in *.
  fold S1 in PA, PS, PV, PP. fold A in PA, PV, PP. fold Ra in PV, PP. fold Vs in PV, PP.
  rewrite <- PA, <- PS, <- PV, <- PP, <- PT. reflexivity.
Qed.

(* ------------------------------------------------------------------ facts on the scan that need no associativity *)
Section ScanP.
Variable A : Type.
Variable op : A -> A -> A.
Variable P : A -> Prop.
Hypothesis P_op : forall a b, P a -> P b -> P (op a b).

Lemma zipop_Forall : forall a b, Forall P a -> Forall P b -> Forall P (zipop op a b).
Proof.
  induction a as [|x a IH]; intros [|y b] Ha Hb; cbn; try constructor.
  - inversion Ha; inversion Hb; subst. now apply P_op.
  - inversion Ha; inversion Hb; subst. now apply IH.
Qed.
Lemma Forall_firstn' : forall n (l : list A), Forall P l -> Forall P (firstn n l).
Proof.
  induction n as [|n IH]; intros [|x l] H; cbn; try constructor; inversion H; subst; auto.
Qed.
Lemma Forall_skipn' : forall n (l : list A), Forall P l -> Forall P (skipn n l).
Proof.
  induction n as [|n IH]; intros [|x l] H; cbn; auto. inversion H; subst; auto.
Qed.
Lemma pass_Forall s v v' : pass op s v = Some v' -> Forall P v -> Forall P v'.
Proof.
  unfold pass. destruct (length v <? s)%nat; [discriminate|]. intros E H. inversion E; subst.
  apply Forall_app. split; [now apply Forall_firstn'|]. apply zipop_Forall; [assumption|now apply Forall_skipn'].
Qed.
Lemma scan_Forall : forall strides v v', scan op strides v = Some v' -> Forall P v -> Forall P v'.
Proof.
  induction strides as [|s r IH]; intros v v' E H; cbn in E.
  - inversion E; now subst.
  - destruct (pass op s v) as [v1|] eqn:Ep; [|discriminate]. apply (IH v1 v' E). now apply (pass_Forall s v).
Qed.
End ScanP.

Lemma pass_total {A} (op : A -> A -> A) s v : (s <= length v)%nat ->
  exists v', pass op s v = Some v' /\ length v' = length v.
Proof.
  intros H. unfold pass. destruct (length v <? s)%nat eqn:E; [apply Nat.ltb_lt in E; lia|].
  eexists. split; [reflexivity|]. rewrite app_length, firstn_length, zipop_length, skipn_length. lia.
Qed.
Lemma scan_total {A} (op : A -> A -> A) : forall strides v, Forall (fun s => s <= length v)%nat strides ->
  exists v', scan op strides v = Some v' /\ length v' = length v.
Proof.
  induction strides as [|s r IH]; intros v H; cbn.
  - eauto.
  - inversion H; subst. destruct (pass_total op s v) as (v1 & E1 & L1); [assumption|]. rewrite E1.
    destruct (IH v1) as (v' & E & L); [now rewrite L1|]. exists v'. split; [exact E|lia].
Qed.
Lemma pows_bound L : forall k w, (0 < w)%nat -> (2 ^ k * w < 2 * L)%nat -> Forall (fun s => s <= L)%nat (pows k w).
Proof.
  induction k as [|k IH]; intros w Hw H; cbn [pows]; constructor.
  - cbn [Nat.pow] in H. assert (1 <= 2 ^ k)%nat by (apply Nat.neq_0_lt_0, Nat.pow_nonzero; lia). nia.
  - apply IH; [lia|]. cbn [Nat.pow] in H. lia.
Qed.
(* the scan returns for every non-empty input, whatever the operation *)
Lemma cumops_total {A} (op : A -> A -> A) v : (1 <= length v)%nat ->
  exists r, cumops_model op v = Some r /\ length r = length v.
Proof.
  intros H. unfold cumops_model, strides, nstrides. apply scan_total.
  destruct (log2_up_bounds (length v) H) as [_ Hb]. apply pows_bound; lia.
Qed.
Lemma cumops_Forall {A} (op : A -> A -> A) (P : A -> Prop) (P_op : forall a b, P a -> P b -> P (op a b)) v r :
  cumops_model op v = Some r -> Forall P v -> Forall P r.
Proof. unfold cumops_model. apply scan_Forall. exact P_op. Qed.

(* ------------------------------------------------------------------ 5. covariance: symmetric positive semidefinite *)
Definition mvalid (M : matR) : Prop := wf 9 9 M /\ msym M /\ PSD 9 M.
Definition nonneg3 (v : vec3R) : Prop := 0 <= vx v /\ 0 <= vy v /\ 0 <= vz v.
Definition c_dt (c : cframe R) : R := snd c.

Ltac wf_concrete :=
  unfold cframe in *;
  repeat match goal with x : (_ * _)%type |- _ => destruct x end;
  cbv [cov_A cov_Bg cov_Ba blk9 blockrow vstack3 hcat m3rows diag3];
  cbn [zip_with app];
  repeat split; try lia; repeat constructor.

Lemma wf_cov_A c : wf 9 9 (cov_A c).  Proof. wf_concrete. Qed.
Lemma wf_cov_Bg c : wf 9 3 (cov_Bg c).  Proof. wf_concrete. Qed.
Lemma wf_cov_Ba c : wf 9 3 (cov_Ba c).  Proof. wf_concrete. Qed.
Lemma wf_diag3 v : wf 3 3 (diag3 v).  Proof. wf_concrete. Qed.
Lemma msym_diag3 (v : vec3R) : msym (diag3 v).
Proof. destruct v as [[a b] c]. reflexivity. Qed.
Lemma PSD_diag3 (v : vec3R) : nonneg3 v -> PSD 3 (diag3 v).
Proof.
  destruct v as [[a b] c]. intros (Ha & Hb & Hc) x Hx.
  destruct x as [|x0 [|x1 [|x2 [|]]]]; try discriminate.
  cbv [qform Mat.vdot mapply mkvec mrows mcols diag3 length seq map sumn mget vget nth vx vy vz fst snd] in *.
  num_unfold.
  assert (0 <= a * (x0 * x0)) by (apply Rmult_le_pos; nra).
  assert (0 <= b * (x1 * x1)) by (apply Rmult_le_pos; nra).
  assert (0 <= c * (x2 * x2)) by (apply Rmult_le_pos; nra).
  nra.
Qed.
Lemma PSD_mscale n a M : wf n n M -> 0 <= a -> PSD n M -> PSD n (mscale a M).
Proof. intros HM Ha HP x Hx. rewrite (qform_mscale n) by assumption. specialize (HP x Hx). num_unfold. nra. Qed.
Lemma wf_congr n m M P : wf n m M -> wf m m P -> wf n n (congr M P).
Proof. intros HM HP. unfold congr. eauto with wf. Qed.
Lemma congr_valid9 m M P : wf 9 m M -> wf m m P -> msym P -> PSD m P -> mvalid (congr M P).
Proof.
  intros HM HP HS HD. split; [now apply (wf_congr 9 m)|]. split.
  - now apply (msym_congr 9 m).
  - now apply (PSD_congr 9 m).
Qed.
Lemma madd_valid A B : mvalid A -> mvalid B -> mvalid (madd A B).
Proof.
  intros (HA & SA & PA) (HB & SB & PB). split; [eauto with wf|]. split.
  - now apply (msym_madd 9).
  - now apply (PSD_madd 9).
Qed.
Lemma cov_Q_valid cg ca c : nonneg3 cg -> nonneg3 ca -> 0 < c_dt c -> mvalid (cov_Q cg ca c).
Proof.
  intros Hg Ha Hdt.
  assert (V : mvalid (madd (congr (cov_Bg c) (diag3 cg)) (congr (cov_Ba c) (diag3 ca)))).
  { apply madd_valid; apply (congr_valid9 3); auto using wf_cov_Bg, wf_cov_Ba, wf_diag3, msym_diag3, PSD_diag3. }
  destruct V as (W & S & D).
  destruct c as [[[[Rij Rk] a] jr] dt]. unfold c_dt in Hdt. cbn [snd] in Hdt.
  unfold cov_Q. fold (congr (cov_Bg (Rij, Rk, a, jr, dt)) (diag3 cg)). fold (congr (cov_Ba (Rij, Rk, a, jr, dt)) (diag3 ca)).
  assert (Hs : 0 <= one / dt) by (num_unfold; apply Rlt_le, Rdiv_lt_0_compat; lra).
  split; [eauto with wf|]. split.
  - now apply (msym_mscale 9).
  - now apply PSD_mscale.
Qed.
Lemma mzero_valid : mvalid (mzero 9 9).
Proof.
  assert (W : wf 9 9 (@mzero R NumR 9 9)) by (apply wf_mkmat; lia).
  split; [exact W|]. split.
  - apply (msym_of_mget 9); [exact W|]. intros i j Hi Hj. unfold mzero. now rewrite !mget_mkmat by assumption.
  - intros x Hx. unfold qform, Mat.vdot. apply Req_le. symmetry. apply sumn_zero. intros k Hk.
    rewrite (vget_mapply 9 9) by (try assumption; lia).
    rewrite sumn_zero; [num_unfold; lra|]. intros j Hj. unfold mzero. rewrite mget_mkmat by lia. num_unfold. lra.
Qed.
Lemma mid_valid : wf 9 9 (@mid R NumR 9).
Proof. apply wf_mid. lia. Qed.
Lemma fold_madd_valid : forall l x, mvalid x -> Forall mvalid l -> mvalid (fold_left madd l x).
Proof.
  induction l as [|y l IH]; intros x Hx Hl; cbn; [assumption|].
  inversion Hl; subst. apply IH; [now apply madd_valid|assumption].
Qed.
Lemma msum_valid l : Forall mvalid l -> mvalid (msum l).
Proof.
  destruct l as [|x l]; intros H; cbn; [apply mzero_valid|]. inversion H; subst. now apply fold_madd_valid.
Qed.
Lemma zip_congr_valid : forall Ms Ps, Forall (wf 9 9) Ms -> Forall mvalid Ps -> Forall mvalid (zip_with congr Ms Ps).
Proof.
  induction Ms as [|M Ms IH]; intros [|P Ps] HM HP; cbn; try constructor.
  - pose proof (Forall_inv HM) as WM. destruct (Forall_inv HP) as (W & S & D). now apply (congr_valid9 9).
  - apply IH; [exact (Forall_inv_tail HM)|exact (Forall_inv_tail HP)].
Qed.

(* for EVERY number of frames, either order of the cumulative product: the call returns and the
   result is symmetric positive semidefinite *)
Theorem propagate_cov_valid (left : bool) (cs : list (cframe R)) (init_cov : matR) (cg ca : vec3R) :
  mvalid init_cov -> nonneg3 cg -> nonneg3 ca -> Forall (fun c => 0 < c_dt c) cs ->
  exists C, propagate_cov_gen left cs init_cov cg ca = Some C /\ mvalid C.
Proof.
  intros Hinit Hg Ha Hdt. unfold propagate_cov_gen.
  set (As := map cov_A cs ++ [mid 9]).
  assert (HAs : Forall (wf 9 9) As).
  { unfold As. apply Forall_app. split; [|repeat constructor; apply mid_valid].
    apply Forall_forall. intros M HM. apply in_map_iff in HM. destruct HM as (c & <- & _). apply wf_cov_A. }
  destruct (cumops_total (if left then flip_op mmul else mmul) (rev As)) as (r & Hr & Hlen).
  { rewrite rev_length. unfold As. rewrite app_length. cbn. lia. }
  unfold cumprod_model. rewrite Hr. eexists. split; [reflexivity|].
  apply msum_valid. apply zip_congr_valid.
  - apply Forall_rev.
    apply (cumops_Forall (if left then flip_op mmul else mmul) (wf 9 9)) with (v := rev As); [|exact Hr|now apply Forall_rev].
    intros a b Wa Wb. destruct left; unfold flip_op; eauto with wf.
  - constructor; [assumption|]. apply Forall_forall. intros Q HQ. apply in_map_iff in HQ.
    destruct HQ as (c & <- & Hc). apply cov_Q_valid; try assumption.
    rewrite Forall_forall in Hdt. now apply Hdt.
Qed.

Lemma propagate_cov_total (left : bool) (cs : list (cframe R)) (init_cov : matR) (cg ca : vec3R) :
  exists C, propagate_cov_gen left cs init_cov cg ca = Some C.
Proof.
  unfold propagate_cov_gen.
  destruct (cumops_total (if left then flip_op mmul else mmul) (rev (map cov_A cs ++ [mid 9]))) as (r & Hr & _).
  { rewrite rev_length, app_length. cbn. lia. }
  unfold cumprod_model. rewrite Hr. eauto.
Qed.

(* ------------------------------------------------------------------ 2. forward = world-frame recursion *)
Definition wstate := (quatR * vec3R * vec3R)%type.     (* rotation, velocity, position *)
Definition w_R (s : wstate) : quatR := fst (fst s).
Definition w_v (s : wstate) : vec3R := snd (fst s).
Definition w_p (s : wstate) : vec3R := snd s.

Section World.
Variable g : vec3R.
(*  R <- R Exp(w dt),  v <- v + R a dt,  p <- p + v dt + 1/2 R a dt^2,   a = acc - Rg^-1 g,
    Rg = the supplied rotation of the frame, else the new R *)
Definition world_step (s : wstate) (f : iframeR) : wstate :=
  let R' := SO3_mul (w_R s) (i_inc f) in
  let a := vsub (i_acc f) (SO3_act (SO3_inv (grav_rot f R')) g) in
  let Ra := SO3_act (w_R s) a in
  (R', vadd (w_v s) (vscale (i_dt f) Ra),
   vadd (w_p s) (vadd (vscale (i_dt f) (w_v s)) (vscale (i_dt f * i_dt f) (vscale (1 / 2) Ra)))).
Fixpoint world_run (s : wstate) (fs : list iframeR) : list wstate :=
  match fs with [] => [] | f :: r => let s' := world_step s f in s' :: world_run s' r end.

Variables (r0 : quatR) (v0 p0 : vec3R).
(* predict: composition of a preintegrated state with the initial state *)
Definition compose (s : pstate) : wstate :=
  (SO3_mul r0 (p_R s), vadd v0 (SO3_act r0 (p_v s)), vadd (vadd p0 (SO3_act r0 (p_p s))) (vscale (p_T s) v0)).

Lemma compose_init : compose pre_init = (r0, v0, p0).
Proof. unfold compose, pre_init, p_R, p_v, p_p, p_T. cbn [fst snd]. lie_ring. Qed.

Lemma compose_step s f : unitq r0 -> unitq (p_R s) ->
  compose (pre_step g r0 s f) = world_step (compose s) f.
Proof.
  intros H0 HR. destruct s as [[[dR dv] dp] T].
  unfold compose, pre_step, world_step, pre_acc, p_R, p_v, p_p, p_T, w_R, w_v, w_p. cbn [fst snd].
  rewrite <- (SO3_mul_assoc r0 dR (i_inc f)).
  generalize (vsub (i_acc f) (SO3_act (SO3_inv (grav_rot f (SO3_mul (SO3_mul r0 dR) (i_inc f)))) g)). intros a.
  rewrite (SO3_act_mul r0 dR a H0 HR).
  generalize (SO3_act dR a). intros w. generalize (i_dt f). intros dt. generalize (SO3_mul (SO3_mul r0 dR) (i_inc f)). intros q.
  apply pair_eq; [apply pair_eq; [reflexivity|]|]; lie_ring.
Qed.

Lemma compose_run : forall fs s, unitq r0 -> unitq (p_R s) -> Forall (fun f => unitq (i_inc f)) fs ->
  map compose (pre_run g r0 s fs) = world_run (compose s) fs.
Proof.
  induction fs as [|f fs IH]; intros s H0 HR HF; [reflexivity|].
  cbn [pre_run map world_run]. rewrite compose_step by assumption. f_equal.
  rewrite IH; [reflexivity|assumption| |exact (Forall_inv_tail HF)].
  change (p_R (pre_step g r0 s f)) with (SO3_mul (p_R s) (i_inc f)). apply unitq_mul; [assumption|exact (Forall_inv HF)].
Qed.

Lemma world_run_app : forall a b s, world_run s (a ++ b) = world_run s a ++ world_run (fold_left world_step a s) b.
Proof. induction a as [|f a IH]; intros b s; [reflexivity|]. cbn. now rewrite IH. Qed.
Lemma world_run_last : forall fs s d, fs <> [] -> List.last (world_run s fs) d = fold_left world_step fs s.
Proof.
  induction fs as [|f fs IH]; intros s d H; [contradiction|].
  destruct fs as [|f' fs]; [reflexivity|].
  change (world_run s (f :: f' :: fs)) with (world_step s f :: world_run (world_step s f) (f' :: fs)).
  change (fold_left world_step (f :: f' :: fs) s) with (fold_left world_step (f' :: fs) (world_step s f)).
  rewrite <- (IH (world_step s f) d) by discriminate.
  cbn [world_run]. reflexivity.
Qed.
Lemma length_world_run : forall fs s, length (world_run s fs) = length fs.
Proof. induction fs as [|f fs IH]; intros s; cbn; [reflexivity|now rewrite IH]. Qed.
Lemma world_unit : forall fs s, unitq (w_R s) -> Forall (fun f => unitq (i_inc f)) fs -> unitq (w_R (fold_left world_step fs s)).
Proof.
  induction fs as [|f fs IH]; intros s H HF; [assumption|]. cbn [fold_left]. apply IH; [|exact (Forall_inv_tail HF)].
  change (w_R (world_step s f)) with (SO3_mul (w_R s) (i_inc f)). apply unitq_mul; [assumption|exact (Forall_inv HF)].
Qed.
End World.

Lemma last_map {A B} (f : A -> B) : forall l d d', l <> [] -> List.last (map f l) d' = f (List.last l d).
Proof.
  induction l as [|x l IH]; intros d d' H; [contradiction|]. destruct l as [|y l]; [reflexivity|].
  change (List.last (map f (x :: y :: l)) d') with (List.last (map f (y :: l)) d').
  change (List.last (x :: y :: l) d) with (List.last (y :: l) d). apply IH. discriminate.
Qed.
Lemma scanl1_last {A B} (f : A -> B -> A) : forall l a d, l <> [] -> List.last (scanl1 f a l) d = fold_left f l a.
Proof.
  induction l as [|x l IH]; intros a d H; [contradiction|]. destruct l as [|y l]; [reflexivity|].
  change (scanl1 f a (x :: y :: l)) with (f a x :: scanl1 f (f a x) (y :: l)).
  change (fold_left f (x :: y :: l) a) with (fold_left f (y :: l) (f a x)).
  rewrite <- (IH (f a x) d) by discriminate. reflexivity.
Qed.
Lemma mul_fold : forall (l : list quatR) x r, SO3_mul r (fold_left SO3_mul l x) = fold_left SO3_mul l (SO3_mul r x).
Proof. induction l as [|y l IH]; intros x r; [reflexivity|]. cbn. rewrite IH. now rewrite SO3_mul_assoc. Qed.

Definition st_w (st : istate R) : wstate := (s_rot st, s_vel st, s_pos st).
Definition rij_val (st : istate R) : quatR := match s_rij st with Some r => r | None => SO3_id end.

(* one call on one batch item.  Unit initial rotation and unit increments; any covariance inputs. *)
Theorem forward1_world (left : bool) (c : cfg R) (st : istate R) (fs : list iframeR) :
  fs <> [] -> unitq (s_rot st) -> Forall (fun f => unitq (i_inc f)) fs ->
  let W := world_run (c_g c) (st_w st) fs in
  exists o st', forward1_gen left c st fs = Some (o, st') /\
    o_rot o = map w_R W /\ o_vel o = map w_v W /\ o_pos o = map w_p W /\
    (c_prop c = true <-> o_cov o <> None) /\
    (c_reset c = true -> st' = st) /\
    (c_reset c = false -> st_w st' = fold_left (world_step (c_g c)) fs (st_w st) /\
                          rij_val st' = fold_left SO3_mul (map (@i_inc R) fs) (rij_val st) /\
                          (forall C, o_cov o = Some C -> s_cov st' = C)).
Proof.
  intros Hne H0 HF W.
  unfold forward1_gen. destruct fs as [|f0 fs0]; [contradiction|]. set (fs := f0 :: fs0) in *.
  rewrite integrate_is_recursion. cbn [rot_default]. unfold predict, integ_of. cbn [g_Dr g_Dv g_Dp g_Dt g_w g_a].
  set (run := pre_run (c_g c) (s_rot st) pre_init fs).
  assert (HW : map (compose (s_rot st) (s_vel st) (s_pos st)) run = W).
  { unfold run, W. rewrite compose_run; [|assumption|apply unitq_id|assumption]. now rewrite compose_init. }
  assert (Hrots : map (SO3_mul (s_rot st)) (map p_R run) = map w_R W).
  { rewrite <- HW, !map_map. reflexivity. }
  assert (Hvels : map (fun dv => vadd (s_vel st) (SO3_act (s_rot st) dv)) (map p_v run) = map w_v W).
  { rewrite <- HW, !map_map. reflexivity. }
  assert (Hposs : zip_with (fun dp t => vadd (vadd (s_pos st) (SO3_act (s_rot st) dp)) (vscale t (s_vel st))) (map p_p run) (map p_T run) = map w_p W).
  { rewrite zip_with_map_same, <- HW, map_map. reflexivity. }
  rewrite Hrots, Hvels, Hposs.
  assert (HWne : W <> []).
  { intros E. apply (f_equal (@length _)) in E. unfold W in E. rewrite length_world_run in E. discriminate. }
  set (Rij := match s_rij st with Some r => map (SO3_mul r) (map p_R run) | None => map p_R run end).
  assert (HRij : List.last Rij SO3_id = fold_left SO3_mul (map (@i_inc R) fs) (rij_val st)).
  { destruct (pipeline (c_g c) (s_rot st) fs pre_init) as (_ & PS & _). cbv zeta in PS.
    change (p_R pre_init) with (@SO3_id R NumR) in PS. fold run in PS.
    assert (Hn : map (@i_inc R) fs <> []) by discriminate.
    unfold Rij, rij_val. destruct (s_rij st) as [r|]; rewrite <- PS.
    - rewrite (last_map (SO3_mul r) _ SO3_id SO3_id) by (unfold fs; discriminate).
      rewrite scanl1_last by assumption. rewrite mul_fold. now rewrite SO3_id_r.
    - now apply scanl1_last. }
  destruct (c_prop c) eqn:Ep.
  - destruct (propagate_cov_total left (cframes Rij {| g_a := pre_accs (c_g c) (s_rot st) pre_init fs; g_Dp := map p_p run;
        g_Dv := map p_v run; g_Dr := map p_R run; g_Dt := map p_T run; g_w := map (@i_inc R) fs |} fs) (s_cov st) (c_cg c) (c_ca c)) as (C & HC).
    fold Rij. rewrite HC. eexists. eexists. split; [reflexivity|]. cbn [o_rot o_vel o_pos o_cov].
    split; [reflexivity|]. split; [reflexivity|]. split; [reflexivity|].
    split; [split; [discriminate|reflexivity]|].
    split; [intros ->; reflexivity|]. intros ->. cbn [st_w s_rot s_vel s_pos rij_val s_rij s_cov].
    split; [|split; [exact HRij|intros C' E; now inversion E]].
    rewrite (last_map w_R W (st_w st)), (last_map w_v W (st_w st)), (last_map w_p W (st_w st)) by assumption.
    unfold W. rewrite world_run_last by (unfold fs; discriminate).
    destruct (fold_left (world_step (c_g c)) fs (st_w st)) as [[a b] d]. reflexivity.
  - fold Rij. eexists. eexists. split; [reflexivity|]. cbn [o_rot o_vel o_pos o_cov].
    split; [reflexivity|]. split; [reflexivity|]. split; [reflexivity|].
    split; [split; [discriminate|intros H; now elim H]|].
    split; [intros ->; reflexivity|]. intros ->. cbn [st_w s_rot s_vel s_pos rij_val s_rij s_cov].
    split; [|split; [exact HRij|discriminate]].
    rewrite (last_map w_R W (st_w st)), (last_map w_v W (st_w st)), (last_map w_p W (st_w st)) by assumption.
    unfold W. rewrite world_run_last by (unfold fs; discriminate).
    destruct (fold_left (world_step (c_g c)) fs (st_w st)) as [[a b] d]. reflexivity.
Qed.
